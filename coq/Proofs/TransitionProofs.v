(* Proofs about the state-transition wrappers (Model/Transition.v) and the initial access list. *)
From Coq Require Import Lia ZArith List Bool.
From Evm Require Import EvmAbs Transition.
Import ListNotations.
Open Scope Z_scope.

(* ------------------------------------------------------------------ wrapper equivalence modulo fee routing *)

(* the sender as evermint's state database reports it: the ante handler has moved gas x price away *)
Definition after_ante (m : msg) (s : sender) : sender :=
  mkSender (s_nonce s) (s_code s) (s_bal s - m_gas m * m_price m).

Definition affordable (m : msg) (e : env) (s : sender) : Prop :=
  0 <= m_gas m /\ 0 <= m_price m <= m_feecap m /\ 0 <= m_value m /\
  m_gas m * m_feecap m + m_value m <= s_bal s /\ m_gas m <= v_gaspool e.

Lemma pre_check_after_ante : forall m e s, pre_check m e (after_ante m s) = pre_check m e s.
Proof. reflexivity. Qed.

Lemma transition_equiv : forall m e s o,
  affordable m e s ->
  match geth_transition m e s o with
  | TErr x => evermint_transition true m e (after_ante m s) o = TErr x
  | TOk used given dg fee b =>
      exists de,
        evermint_transition true m e (after_ante m s) o = TOk used given de 0 b
        /\ dg = de - m_gas m * m_price m                       (* the ante payment is go-ethereum's buyGas *)
        /\ dg = - (used * m_price m)                          (* either way the sender pays gas used x price *)
        /\ fee_collector_refund true m used = m_gas m * m_price m - used * m_price m
  end.
Proof.
  intros m e s o (Hg & (Hp0 & Hp) & Hv & Hbal & Hpool).
  assert (Hle : m_gas m * m_price m <= m_gas m * m_feecap m) by (apply Z.mul_le_mono_nonneg_l; lia).
  unfold geth_transition, evermint_transition.
  rewrite pre_check_after_ante.
  destruct (pre_check m e s); [reflexivity|].
  destruct (s_bal s <? m_gas m * m_feecap m + m_value m) eqn:E1; [apply Z.ltb_lt in E1; lia|].
  destruct (v_gaspool e <? m_gas m) eqn:E2; [apply Z.ltb_lt in E2; lia|].
  destruct (intrinsic_gas m) as [ig|]; [|reflexivity].
  destruct (m_gas m <? ig); [reflexivity|].
  cbn [after_ante s_bal].
  assert (Hnot : (s_bal s - m_gas m * m_price m <? m_value m) = false) by (apply Z.ltb_ge; lia).
  rewrite Hnot, andb_false_r.
  eexists; split; [reflexivity|].
  unfold fee_collector_refund. repeat split; lia.
Qed.

Definition wf_msg (m : msg) : Prop := 0 <= m_nz m /\ 0 <= m_z m /\ 0 <= m_al_addrs m /\ 0 <= m_al_keys m.

Lemma intrinsic_lower_bound : forall m ig, wf_msg m -> intrinsic_gas m = Some ig -> 21000 <= ig.
Proof.
  intros m ig (H1 & H2 & H3 & H4) H. unfold intrinsic_gas, TxGas, TxGasContractCreation, TxDataNonZeroGasEIP2028,
    TxDataZeroGas, TxAccessListAddressGas, TxAccessListStorageKeyGas in H.
  destruct (0 <? m_nz m + m_z m).
  - destruct (_ <? m_nz m); [discriminate|]. destruct (_ <? m_z m); [discriminate|].
    inversion H; subst. destruct (m_create m); nia.
  - inversion H; subst. destruct (m_create m); nia.
Qed.

(* used gas stays within [intrinsic, gas limit] and the refund within the cap *)
Lemma used_gas_bounds : forall m e s o used given d fee b ig,
  wf_msg m ->
  geth_transition m e s o = TOk used given d fee b ->
  intrinsic_gas m = Some ig ->
  0 <= o_evm_used o <= given -> 0 <= o_refund o ->
  given = m_gas m - ig /\
  used = ig + o_evm_used o - refund_amount e (ig + o_evm_used o) (o_refund o) /\
  0 <= refund_amount e (ig + o_evm_used o) (o_refund o) <= (ig + o_evm_used o) / (if v_london e then 5 else 2) /\
  ig <= used + refund_amount e (ig + o_evm_used o) (o_refund o) <= m_gas m.
Proof.
  intros m e s o used given d fee b ig Hwf H Hig Hev Hr.
  pose proof (intrinsic_lower_bound m ig Hwf Hig) as Hig0.
  unfold geth_transition in H.
  destruct (pre_check m e s); [discriminate|].
  destruct (s_bal s <? _); [discriminate|].
  destruct (v_gaspool e <? m_gas m); [discriminate|].
  rewrite Hig in H.
  destruct (m_gas m <? ig) eqn:E; [discriminate|]. apply Z.ltb_ge in E.
  destruct (_ && _); [discriminate|].
  inversion H; subst; clear H.
  split; [reflexivity|].
  replace (m_gas m - (m_gas m - ig - o_evm_used o)) with (ig + o_evm_used o) by lia.
  split; [lia|].
  unfold refund_amount, RefundQuotientEIP3529, RefundQuotient.
  destruct (v_london e).
  - assert (0 <= (ig + o_evm_used o) / 5) by (apply Z.div_pos; lia). lia.
  - assert (0 <= (ig + o_evm_used o) / 2) by (apply Z.div_pos; lia). lia.
Qed.

(* ------------------------------------------------------------------ the initial access list *)

Lemma memZ_In : forall a l, memZ a l = true <-> In a l.
Proof.
  induction l as [|x r IH]; cbn [memZ In]; [split; [discriminate|tauto]|].
  rewrite orb_true_iff, Z.eqb_eq, IH. tauto.
Qed.

Lemma al_has_add : forall l a b, al_has (al_add l a) b = (b =? a) || al_has l b.
Proof.
  intros l a b. unfold al_add. destruct (al_has l a) eqn:E.
  - destruct (b =? a) eqn:Eb; [apply Z.eqb_eq in Eb; subst; rewrite E; reflexivity|reflexivity].
  - unfold al_has. cbn [al_addrs memZ]. rewrite Z.eqb_sym. reflexivity.
Qed.

Lemma al_has_add_slot : forall l a k b, al_has (al_add_slot l a k) b = (b =? a) || al_has l b.
Proof.
  intros. unfold al_add_slot. destruct (al_has_slot (al_add l a) a k).
  - apply al_has_add.
  - unfold al_has at 1. cbn [al_addrs]. apply al_has_add.
Qed.

Lemma al_has_add_all : forall xs l b, al_has (al_add_all l xs) b = memZ b xs || al_has l b.
Proof.
  induction xs as [|x r IH]; intros; cbn [al_add_all memZ]; [reflexivity|].
  rewrite IH, al_has_add. rewrite (Z.eqb_sym x b). destruct (b =? x), (memZ b r), (al_has l b); reflexivity.
Qed.

Lemma al_has_add_keys : forall ks l a b, al_has (al_add_keys l a ks) b = (match ks with [] => false | _ => b =? a end) || al_has l b.
Proof.
  induction ks as [|k r IH]; intros; cbn [al_add_keys]; [reflexivity|].
  rewrite IH, al_has_add_slot. destruct r; destruct (b =? a), (al_has l b); reflexivity.
Qed.

Definition tuple_addrs (ts : list (Z * list Z)) : list Z := map fst ts.

Lemma al_has_add_tuples : forall ts l b, al_has (al_add_tuples l ts) b = memZ b (tuple_addrs ts) || al_has l b.
Proof.
  induction ts as [|[a ks] r IH]; intros; cbn [al_add_tuples tuple_addrs map fst memZ]; [reflexivity|].
  rewrite IH, al_has_add_keys, al_has_add. fold (tuple_addrs r).
  rewrite (Z.eqb_sym a b). destruct ks; destruct (b =? a), (memZ b (tuple_addrs r)), (al_has l b); reflexivity.
Qed.

(* which addresses are warm after PrepareAccessList *)
Lemma al_prepare_has : forall sender dst pre ts extra b,
  al_has (al_prepare sender dst pre ts extra) b =
  (b =? sender) || (match dst with Some d => b =? d | None => false end) || memZ b pre || memZ b (tuple_addrs ts) || memZ b extra.
Proof.
  intros. unfold al_prepare. rewrite al_has_add_all, al_has_add_tuples, al_has_add_all.
  destruct dst as [d|]; [rewrite al_has_add|]; rewrite al_has_add; unfold al_has, al0; cbn [al_addrs memZ];
    destruct (b =? sender), (memZ b pre), (memZ b (tuple_addrs ts)), (memZ b extra); try destruct (b =? d); reflexivity.
Qed.

Lemma memZ_app : forall a l1 l2, memZ a (l1 ++ l2) = memZ a l1 || memZ a l2.
Proof. induction l1; intros; cbn [app memZ]; [reflexivity|]. rewrite IHl1, orb_assoc. reflexivity. Qed.

Lemma memZ_filter_nonzero : forall a l, memZ a (filter (fun x => negb (x =? 0)) l) = negb (a =? 0) && memZ a l.
Proof.
  induction l as [|x r IH]; cbn [filter memZ]; [rewrite andb_false_r; reflexivity|].
  destruct (x =? 0) eqn:E; cbn [negb].
  - rewrite IH. apply Z.eqb_eq in E; subst. rewrite (Z.eqb_sym 0 a). destruct (a =? 0), (memZ a r); reflexivity.
  - cbn [memZ]. rewrite IH. destruct (x =? a) eqn:E2; [apply Z.eqb_eq in E2; subst; rewrite E; reflexivity|].
    cbn [orb]. reflexivity.
Qed.

Lemma memZ_zeros : forall a (cpcs : list Z), memZ a (map (fun _ => 0) cpcs) = (a =? 0) && match cpcs with [] => false | _ => true end.
Proof.
  induction cpcs as [|x r IH]; cbn [map memZ]; [rewrite andb_false_r; reflexivity|].
  rewrite IH, (Z.eqb_sym 0 a). destruct (a =? 0), r; reflexivity.
Qed.

(* after the repair: exactly the standard precompiles and the registered custom precompiles *)
Lemma evermint_precompiles_mem : forall cpcs a,
  (forall c, In c cpcs -> c <> 0) ->
  memZ a (evermint_precompiles cpcs) = memZ a std_precompiles || memZ a cpcs.
Proof.
  intros cpcs a Hnz. unfold evermint_precompiles, cpc_list_from_evm.
  rewrite memZ_app, memZ_filter_nonzero, memZ_app, memZ_zeros. f_equal.
  destruct (a =? 0) eqn:E; cbn [negb andb]; [|destruct cpcs; reflexivity].
  apply Z.eqb_eq in E; subst. destruct (memZ 0 cpcs) eqn:M; [|reflexivity].
  apply memZ_In in M. exfalso. exact (Hnz 0 M eq_refl).
Qed.

(* before the repair the zero address was in the list whenever a custom precompile was registered *)
Lemma zero_warm_before_fix : forall c cpcs, memZ 0 (evermint_precompiles_before_fix (c :: cpcs)) = true.
Proof.
  intros. unfold evermint_precompiles_before_fix, cpc_list_from_evm. rewrite memZ_app, memZ_app, memZ_zeros. reflexivity.
Qed.

Lemma zero_cold_in_reference : memZ 0 std_precompiles = false.
Proof. reflexivity. Qed.

(* the documented difference, and only it: evermint's initial access list is go-ethereum's plus the registered
   custom precompiles plus the coinbase *)
Theorem initial_access_list_documented : forall sender dst ts cpcs coinbase b,
  (forall c, In c cpcs -> c <> 0) ->
  al_has (al_prepare sender dst (evermint_precompiles cpcs) ts [coinbase]) b =
  al_has (al_prepare sender dst std_precompiles ts []) b || memZ b cpcs || (b =? coinbase).
Proof.
  intros. rewrite !al_prepare_has, evermint_precompiles_mem by assumption. cbn [memZ].
  rewrite (Z.eqb_sym coinbase b).
  destruct (b =? sender), (match dst with Some d => b =? d | None => false end), (memZ b std_precompiles), (memZ b cpcs),
    (memZ b (tuple_addrs ts)), (b =? coinbase); reflexivity.
Qed.
