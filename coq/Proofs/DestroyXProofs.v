(* Proofs about Model/DestroyX.v (C15): transactions in which other modules write to bank / auth between the
   StateDB's own operations, and the raw x/evm store under the per-address maps. *)
From Coq Require Import ZArith List Bool Lia.
From Evm Require Import Destroy DestroyProofs DestroyX.
Import ListNotations.
Open Scope Z_scope.

(* ================================================================== part 1: foreign writes *)

(* ------------------------------------------------------------------ what a foreign write does *)

Lemma credit_acc_keep w a d v x ac : w_acc w x = Some ac -> w_acc (credit w a d v) x = Some ac.
Proof. intros H. unfold credit. apply ensure_acc_keep. exact H. Qed.

Lemma credit_present w a d v : w_acc (credit w a d v) a <> None.
Proof. unfold credit. apply ensure_acc_present. Qed.

Lemma credit_acc_other w a d v x : x <> a -> w_acc (credit w a d v) x = w_acc w x.
Proof.
  intros Hn. unfold credit. rewrite ensure_acc. cbn [w_acc].
  destruct (x =? a) eqn:E; [apply Z.eqb_eq in E; contradiction | reflexivity].
Qed.

Lemma credit_bal w a d v : w_bal (credit w a d v) = upd (w_bal w) a (set_amt (w_bal w a) d (amt (w_bal w a) d + v)).
Proof. unfold credit. rewrite ensure_bal. reflexivity. Qed.

Lemma credit_code w a d v : w_code (credit w a d v) = w_code w.
Proof. unfold credit. rewrite ensure_code. reflexivity. Qed.

Lemma credit_stor w a d v : w_stor (credit w a d v) = w_stor w.
Proof. unfold credit. rewrite ensure_stor. reflexivity. Qed.

Lemma send_world_eff e w from to d v w' :
  send_world e w from to d v = FDone w' ->
  (v = 0 /\ w' = ensure_account w to) \/
  (0 < v /\ exists w1, bank_sub e w from d v = Ok w1 /\ w' = credit w1 to d v).
Proof.
  unfold send_world. destruct (v <? 0) eqn:E0; [discriminate|]. apply Z.ltb_ge in E0.
  destruct (v =? 0) eqn:E1.
  - apply Z.eqb_eq in E1. intros H. injection H as <-. left. auto.
  - apply Z.eqb_neq in E1. destruct (bank_sub e w from d v) as [w1|] eqn:Eb; [|discriminate].
    destruct (MAX256 <? amt (w_bal w1 to) d + v); [discriminate|].
    intros H. injection H as <-. right. split; [lia|]. exists w1. auto.
Qed.

Lemma burn_world_eff e w from d v w' :
  burn_world e w from d v = FDone w' ->
  (v = 0 /\ w' = w) \/ (0 < v /\ bank_sub e w from d v = Ok w').
Proof.
  unfold burn_world. destruct (v <? 0) eqn:E0; [discriminate|]. apply Z.ltb_ge in E0.
  destruct (v =? 0) eqn:E1.
  - apply Z.eqb_eq in E1. intros H. injection H as <-. left. auto.
  - apply Z.eqb_neq in E1. destruct (bank_sub e w from d v) as [w1|] eqn:Eb; [|discriminate].
    intros H. injection H as <-. right. split; [lia | reflexivity].
Qed.

(* the delegator's account after a delegation *)
Definition delegated_acc (e : env) (ac : account) (d : denom) (v : Z) : account :=
  match a_kind ac with
  | Vesting sc => mkAcc (Vesting (track_delegation sc (e_now e) d v)) (a_nonce ac) (a_num ac)
  | _ => ac
  end.

Lemma delegate_world_eff e w a pool d v w' :
  delegate_world e w a pool d v = FDone w' ->
  0 < v /\ w_acc w pool <> None /\ exists ac, w_acc w a = Some ac /\ v <= amt (w_bal w a) d /\
  let w1 := mkWorld (upd (w_acc w) a (Some (delegated_acc e ac d v)))
                    (upd (w_bal w) a (set_amt (w_bal w a) d (amt (w_bal w a) d - v))) (w_code w) (w_stor w) (w_next w) in
  w' = mkWorld (w_acc w1) (upd (w_bal w1) pool (set_amt (w_bal w1 pool) d (amt (w_bal w1 pool) d + v))) (w_code w1) (w_stor w1) (w_next w1).
Proof.
  unfold delegate_world. destruct (v <=? 0) eqn:E0; [discriminate|]. apply Z.leb_gt in E0.
  destruct (w_acc w pool) as [pa|] eqn:Ep; [|discriminate].
  destruct (w_acc w a) as [ac|] eqn:Ea; [|discriminate].
  destruct (amt (w_bal w a) d <? v) eqn:Eb; [discriminate|]. apply Z.ltb_ge in Eb.
  cbn zeta.
  match goal with |- context[if ?c then FPanic else _] => destruct c end; [discriminate|].
  intros H. injection H as <-. split; [exact E0|]. split; [discriminate|].
  exists ac. split; [reflexivity|]. split; [exact Eb|]. unfold delegated_acc. reflexivity.
Qed.

(* a foreign write never touches the StateDB's own bookkeeping *)
Lemma xfstep_foreign_frame e f x f' :
  (forall o, x <> XOp o) -> xfstep e f x = Ok f' -> f_touched f' = f_touched f /\ f_sd f' = f_sd f.
Proof.
  intros Hn. destruct x; [exfalso; eapply Hn; reflexivity| | |]; cbn [xfstep];
    (match goal with |- context[foreign ?e ?w ?x] => destruct (foreign e w x) end;
     [intros H; injection H as <-; cbn; auto | intros H; injection H as <-; auto | discriminate]).
Qed.

(* ... and never changes code, storage or the account number counter's past: code and storage stay, account records
   are only added (recipient of a send) or, for the delegator, re-written with the same number and nonce *)
Lemma foreign_code_stor e w x w' :
  foreign e w x = FDone w' -> w_code w' = w_code w /\ w_stor w' = w_stor w.
Proof.
  destruct x; cbn [foreign].
  - intros H. injection H as <-. auto.
  - intros H. apply send_world_eff in H. destruct H as [[_ ->]|(_ & w1 & Hb & ->)].
    + rewrite ensure_code, ensure_stor. auto.
    + apply bank_sub_eff in Hb. destruct Hb as [_ ->]. rewrite credit_code, credit_stor. auto.
  - intros H. apply burn_world_eff in H. destruct H as [[_ ->]|(_ & Hb)]; [auto|].
    apply bank_sub_eff in Hb. destruct Hb as [_ ->]. auto.
  - intros H. apply delegate_world_eff in H. destruct H as (_ & _ & ac & _ & _ & ->). auto.
Qed.

(* ------------------------------------------------------------------ invariants over mixed operation sequences *)

Section XRunInv.
  Variable e : env.
  Variable P : frame -> Prop.
  Variable allowed : xop -> Prop.
  Hypothesis Pstep : forall f x f', allowed x -> P f -> xfstep e f x = Ok f' -> P f'.

  Lemma xstep_inv s x s' :
    allowed x -> P (cur s) -> Forall P (snaps s) -> xstep e s x = Ok s' -> P (cur s') /\ Forall P (snaps s').
  Proof.
    intros Ha Hc Hs. destruct x as [o| | |].
    - cbn [xstep]. apply (step_inv e P (fun o => allowed (XOp o))); try assumption.
      intros f o' f' Ho Hf Hst. eapply Pstep; [exact Ho | exact Hf | exact Hst].
    - cbn [xstep]. destruct (xfstep e (cur s) _) as [f1|] eqn:E; [|discriminate].
      intros H. injection H as <-. cbn [cur snaps]. split; [eapply Pstep; eassumption | exact Hs].
    - cbn [xstep]. destruct (xfstep e (cur s) _) as [f1|] eqn:E; [|discriminate].
      intros H. injection H as <-. cbn [cur snaps]. split; [eapply Pstep; eassumption | exact Hs].
    - cbn [xstep]. destruct (xfstep e (cur s) _) as [f1|] eqn:E; [|discriminate].
      intros H. injection H as <-. cbn [cur snaps]. split; [eapply Pstep; eassumption | exact Hs].
  Qed.

  Lemma run_xops_inv l : forall s s',
    Forall allowed l -> P (cur s) -> Forall P (snaps s) -> run_xops e s l = Ok s' ->
    P (cur s') /\ Forall P (snaps s').
  Proof.
    induction l as [|x r IH]; intros s s' Ha Hc Hs; cbn [run_xops].
    - intros H. injection H as <-. split; assumption.
    - inversion Ha as [|? ? Hx Hr]; subst.
      destruct (xstep e s x) as [s1|] eqn:E; cbn [bind]; [|discriminate].
      intros H. destruct (xstep_inv s x s1 Hx Hc Hs E) as [Hc1 Hs1].
      eapply IH; eassumption.
  Qed.
End XRunInv.

(* a reflexive-transitive world relation respected by every primitive change *)
Section XRespect.
  Variable e : env.
  Variable R : world -> world -> Prop.
  Hypothesis Rrefl : forall w, R w w.
  Hypothesis Rtrans : forall a b c, R a b -> R b c -> R a c.
  Hypothesis Rop : forall f o f', fstep e f o = Ok f' -> R (f_w f) (f_w f').
  Hypothesis Rensure : forall w a, R w (ensure_account w a).
  Hypothesis Rsub : forall w a d v w', 0 < v -> bank_sub e w a d v = Ok w' -> R w w'.
  Hypothesis Rcredit : forall w a d v, 0 < v -> R w (credit w a d v).
  Hypothesis Rdelegate : forall w a pool d v w', delegate_world e w a pool d v = FDone w' -> R w w'.

  Lemma foreign_R w x w' : foreign e w x = FDone w' -> R w w'.
  Proof.
    destruct x; cbn [foreign].
    - intros H. injection H as <-. apply Rrefl.
    - intros H. apply send_world_eff in H. destruct H as [[_ ->]|(Hv & w1 & Hb & ->)].
      + apply Rensure.
      + eapply Rtrans; [eapply Rsub; eassumption | apply Rcredit; exact Hv].
    - intros H. apply burn_world_eff in H. destruct H as [[_ ->]|(Hv & Hb)]; [apply Rrefl|].
      eapply Rsub; eassumption.
    - apply Rdelegate.
  Qed.

  Lemma xfstep_R f x f' : xfstep e f x = Ok f' -> R (f_w f) (f_w f').
  Proof.
    destruct x as [o| | |]; cbn [xfstep]; [apply Rop| | |];
      (match goal with |- context[match ?t with FDone _ => _ | _ => _ end] => destruct t eqn:E end;
       [intros H; injection H as <-; cbn [with_w f_w]; eapply foreign_R; exact E
       | intros H; injection H as <-; apply Rrefl | discriminate]).
  Qed.
End XRespect.

Lemma run_xtx_R e (R : world -> world -> Prop) :
  (forall w, R w w) -> (forall a b c, R a b -> R b c -> R a c) ->
  (forall f x f', xfstep e f x = Ok f' -> R (f_w f) (f_w f')) ->
  (forall w a w', destroy e w a = Ok w' -> R w w') ->
  forall w l w' b, run_xtx e w l = TxOk w' b -> R w w'.
Proof.
  intros Rrefl Rtrans Rstep Rd w l w' b. unfold run_xtx.
  destruct (run_xops e (init_sdb w) l) as [s|] eqn:E; [|discriminate].
  destruct (commit e (cur s)) as [[w1 b1]|] eqn:Ec; [|discriminate].
  intros H. injection H as <- <-.
  assert (Hinv : R w (f_w (cur s)) /\ Forall (fun f => R w (f_w f)) (snaps s)).
  { eapply (run_xops_inv e (fun f => R w (f_w f)) (fun _ => True)) with (s := init_sdb w) (l := l).
    - intros f x f' _ Hf Hs. eapply Rtrans; [exact Hf | eapply Rstep; exact Hs].
    - apply Forall_forall. auto.
    - cbn. apply Rrefl.
    - cbn. constructor.
    - exact E. }
  destruct Hinv as [Hc _]. eapply Rtrans; [exact Hc|].
  unfold commit in Ec. eapply commit_loop_R; eassumption.
Qed.

(* mixed sequences without foreign writes are the sequences of Destroy.v *)
Lemma run_xops_plain e l : forall s, run_xops e s (map XOp l) = run_ops e s l.
Proof.
  induction l as [|o r IH]; intros s; [reflexivity|].
  cbn [map run_xops run_ops xstep]. destruct (step e s o); cbn [bind]; [apply IH | reflexivity].
Qed.

Lemma run_xtx_plain e w l : run_xtx e w (map XOp l) = run_tx e w l.
Proof. unfold run_xtx, run_tx. rewrite run_xops_plain. reflexivity. Qed.

(* ------------------------------------------------------------------ protected accounts keep their identity *)

(* the same account type and schedule; only the delegated-vesting counter may differ (staking delegations) *)
Definition kind_sim (k k' : kind) : Prop :=
  match k, k' with
  | Base, Base => True
  | Module, Module => True
  | Vesting s, Vesting s' =>
      s_kind s = s_kind s' /\ s_start s = s_start s' /\ s_end s = s_end s' /\ s_orig s = s_orig s' /\
      s_periods s = s_periods s'
  | _, _ => False
  end.

Lemma kind_sim_refl k : kind_sim k k.
Proof. destruct k; cbn; auto. Qed.

Lemma kind_sim_trans a b c : kind_sim a b -> kind_sim b c -> kind_sim a c.
Proof.
  destruct a, b, c; cbn; auto; try contradiction.
  intros (A1 & A2 & A3 & A4 & A5) (B1 & B2 & B3 & B4 & B5). repeat split; congruence.
Qed.

Lemma kind_sim_protected k k' t : kind_sim k k' -> protected_kind k' t = protected_kind k t.
Proof.
  destruct k, k'; cbn; auto; try contradiction.
  intros (A1 & _ & A3 & _). rewrite A1, A3. reflexivity.
Qed.

Lemma track_delegation_sim sc t d v : kind_sim (Vesting sc) (Vesting (track_delegation sc t d v)).
Proof.
  unfold track_delegation. destruct (s_kind sc) eqn:K; try (apply (kind_sim_refl (Vesting sc)));
    match goal with |- context[if ?c then _ else _] => destruct c end;
    try (apply (kind_sim_refl (Vesting sc))); cbn; rewrite K; auto.
Qed.

Lemma delegated_acc_sim e ac d v :
  kind_sim (a_kind ac) (a_kind (delegated_acc e ac d v)) /\ a_num (delegated_acc e ac d v) = a_num ac /\
  a_nonce (delegated_acc e ac d v) = a_nonce ac.
Proof.
  unfold delegated_acc. destruct (a_kind ac) eqn:K.
  - rewrite K. cbn. auto.
  - rewrite K. cbn. auto.
  - cbn [a_kind a_num a_nonce]. split; [apply track_delegation_sim | split; reflexivity].
Qed.

Definition keepsx (e : env) (w w' : world) : Prop :=
  forall a ac, w_acc w a = Some ac -> protected_kind (a_kind ac) (e_now e) = true ->
  exists ac', w_acc w' a = Some ac' /\ kind_sim (a_kind ac) (a_kind ac') /\ a_num ac' = a_num ac.

Lemma keeps_keepsx e w w' : keeps e w w' -> keepsx e w w'.
Proof.
  intros H a ac Ha Hp. destruct (H a ac Ha Hp) as (ac' & H1 & H2 & H3).
  exists ac'. repeat split; auto. rewrite H2. apply kind_sim_refl.
Qed.

Lemma keepsx_refl e w : keepsx e w w.
Proof. apply keeps_keepsx. apply keeps_refl. Qed.

Lemma keepsx_trans e a b c : keepsx e a b -> keepsx e b c -> keepsx e a c.
Proof.
  intros H1 H2 x ac Hx Hp. destruct (H1 x ac Hx Hp) as (ac1 & Hx1 & Hk1 & Hn1).
  assert (Hp1 : protected_kind (a_kind ac1) (e_now e) = true) by (rewrite (kind_sim_protected _ _ _ Hk1); exact Hp).
  destruct (H2 x ac1 Hx1 Hp1) as (ac2 & Hx2 & Hk2 & Hn2).
  exists ac2. repeat split; [exact Hx2 | eapply kind_sim_trans; eassumption | congruence].
Qed.

Lemma keepsx_delegate e w a pool d v w' : delegate_world e w a pool d v = FDone w' -> keepsx e w w'.
Proof.
  intros H. apply delegate_world_eff in H. destruct H as (_ & _ & ac & Ha & _ & ->). cbn zeta.
  intros x acx Hx _. cbn [w_acc]. unfold upd. destruct (x =? a) eqn:Ex.
  - apply Z.eqb_eq in Ex. subst x. rewrite Ha in Hx. injection Hx as <-.
    eexists. split; [reflexivity|]. destruct (delegated_acc_sim e ac d v) as (S1 & S2 & _). auto.
  - exists acx. repeat split; auto. apply kind_sim_refl.
Qed.

Lemma keepsx_xfstep e f x f' : xfstep e f x = Ok f' -> keepsx e (f_w f) (f_w f').
Proof.
  apply xfstep_R.
  - apply keepsx_refl.
  - apply keepsx_trans.
  - intros f0 o f1 H. apply keeps_keepsx. eapply keeps_fstep. exact H.
  - intros w a. apply keeps_keepsx, keeps_same_acc. intros y ac. apply ensure_acc_keep.
  - intros w a d v w' _ H. apply bank_sub_eff in H. destruct H as [_ ->]. apply keeps_keepsx, keeps_same_acc. auto.
  - intros w a d v _. apply keeps_keepsx, keeps_same_acc. intros y ac. apply credit_acc_keep.
  - apply keepsx_delegate.
Qed.

Lemma xprotected_survive e w l w' b : run_xtx e w l = TxOk w' b -> keepsx e w w'.
Proof.
  apply run_xtx_R.
  - apply keepsx_refl.
  - apply keepsx_trans.
  - apply keepsx_xfstep.
  - intros w0 a w1 H. apply keeps_keepsx. eapply keeps_destroy. exact H.
Qed.

(* ------------------------------------------------------------------ no foreign write removes an account record *)

Definition xnot_raw_destroy (x : xop) : Prop := forall a, x <> XOp (DestroyAccount a).

Lemma pres_foreign e w x w' : foreign e w x = FDone w' -> pres w w'.
Proof.
  apply foreign_R; unfold pres, present.
  - auto.
  - auto.
  - intros w0 a y Hy. destruct (w_acc w0 y) as [ac|] eqn:E; [|contradiction].
    rewrite (ensure_acc_keep w0 a y ac E). discriminate.
  - intros w0 a d v w1 _ H. apply bank_sub_eff in H. destruct H as [_ ->]. auto.
  - intros w0 a d v _ y Hy. destruct (w_acc w0 y) as [ac|] eqn:E; [|contradiction].
    rewrite (credit_acc_keep w0 a d v y ac E). discriminate.
  - intros w0 a pool d v w1 H. apply delegate_world_eff in H. destruct H as (_ & _ & ac & Ha & _ & ->). cbn zeta.
    intros y Hy. cbn [w_acc]. unfold upd. destruct (y =? a); [discriminate | exact Hy].
Qed.

Lemma pres_xfstep e f x f' : xnot_raw_destroy x -> xfstep e f x = Ok f' -> pres (f_w f) (f_w f').
Proof.
  intros Hn. destruct x as [o| | |]; cbn [xfstep].
  - apply pres_fstep. intros a Ho. apply (Hn a). rewrite Ho. reflexivity.
  - destruct (foreign e (f_w f) _) eqn:E; [|intros H; injection H as <-; intros y Hy; exact Hy | discriminate].
    intros H. injection H as <-. cbn [with_w f_w]. eapply pres_foreign. exact E.
  - destruct (foreign e (f_w f) _) eqn:E; [|intros H; injection H as <-; intros y Hy; exact Hy | discriminate].
    intros H. injection H as <-. cbn [with_w f_w]. eapply pres_foreign. exact E.
  - destruct (foreign e (f_w f) _) eqn:E; [|intros H; injection H as <-; intros y Hy; exact Hy | discriminate].
    intros H. injection H as <-. cbn [with_w f_w]. eapply pres_foreign. exact E.
Qed.

(* deleted by a successful transaction => self-destructed, or empty in the world the commit saw: the one AFTER
   every operation of the list, the writes of other modules included *)
Lemma xno_nonempty_deleted e w l w' b a :
  Forall xnot_raw_destroy l ->
  run_xtx e w l = TxOk w' b -> present w a -> ~ present w' a ->
  exists s, run_xops e (init_sdb w) l = Ok s /\
            (mem a (f_sd (cur s)) = true \/ is_empty (f_w (cur s)) a = true).
Proof.
  intros Hall. unfold run_xtx.
  destruct (run_xops e (init_sdb w) l) as [s|] eqn:E; [|discriminate].
  destruct (commit e (cur s)) as [[w1 b1]|] eqn:Ec; [|discriminate].
  intros H. injection H as <- <-. intros Hp Hn.
  exists s. split; [reflexivity|].
  assert (Hinv : pres w (f_w (cur s)) /\ Forall (fun f => pres w (f_w f)) (snaps s)).
  { eapply (run_xops_inv e (fun f => pres w (f_w f)) xnot_raw_destroy) with (s := init_sdb w) (l := l).
    - intros f x f' Hx Hf Hs y Hy. eapply pres_xfstep; [exact Hx | exact Hs | apply Hf; exact Hy].
    - exact Hall.
    - cbn. intros y Hy. exact Hy.
    - cbn. constructor.
    - exact E. }
  destruct Hinv as [Hc _]. unfold commit in Ec.
  eapply commit_loop_deletes_only; [exact Ec | apply Hc; exact Hp |].
  unfold present in Hn. destruct (w_acc w1 a); [exfalso; apply Hn; discriminate | reflexivity].
Qed.

(* ------------------------------------------------------------------ the commit decides on the world as it is at commit time *)

Definition same_at (w w' : world) (a : addr) : Prop :=
  w_acc w' a = w_acc w a /\ w_bal w' a = w_bal w a /\ w_code w' a = w_code w a /\ w_stor w' a = w_stor w a.

Lemma commit_loop_skips e sd a : forall l w b w' b',
  commit_loop e sd w b l = Ok (w', b') ->
  ~ In a l \/ (mem a sd = false /\ is_empty w a = false) ->
  same_at w w' a.
Proof.
  induction l as [|x r IH]; intros w b w' b'; cbn [commit_loop].
  - intros H _. injection H as <- _. repeat split.
  - intros H Hc. destruct (mem x sd || is_empty w x) eqn:Ecx.
    + destruct (destroy e w x) as [w1|] eqn:Ed; cbn [bind] in H; [|discriminate].
      assert (Hax : a <> x).
      { intros ->. destruct Hc as [Hc|[H1 H2]]; [apply Hc; left; reflexivity|]. rewrite H1, H2 in Ecx. discriminate. }
      destruct (destroy_other _ _ _ _ a Ed Hax) as (D1 & D2 & D3 & D4).
      assert (Hs : same_at w1 w' a).
      { eapply IH; [exact H|]. destruct Hc as [Hc|[H1 H2]]; [left; intros Hi; apply Hc; right; exact Hi|].
        right. split; [exact H1|]. rewrite (is_empty_ext w w1 a); assumption. }
      destruct Hs as (S1 & S2 & S3 & S4). repeat split; congruence.
    + eapply IH; [exact H|]. destruct Hc as [Hc|Hc]; [left; intros Hi; apply Hc; right; exact Hi | right; exact Hc].
Qed.

(* every address, after a successful commit: deleted completely if and only if it is in the touched set and either
   marked self-destructed or empty in the world handed to the commit; left exactly as it is otherwise *)
Lemma commit_exact e f w' b a :
  commit e f = Ok (w', b) ->
  (In a (f_touched f) /\ (mem a (f_sd f) = true \/ is_empty (f_w f) a = true) /\ gone w' a) \/
  (~ (In a (f_touched f) /\ (mem a (f_sd f) = true \/ is_empty (f_w f) a = true)) /\ same_at (f_w f) w' a).
Proof.
  intros H.
  destruct (mem a (f_touched f)) eqn:Et.
  - apply mem_In in Et.
    destruct (mem a (f_sd f)) eqn:Es; [left; repeat split; auto; eapply commit_destroys; eauto|].
    destruct (is_empty (f_w f) a) eqn:Ee; [left; repeat split; auto; eapply commit_destroys; eauto|].
    right. split; [intros (_ & [C|C]); discriminate|].
    unfold commit in H. eapply commit_loop_skips; [exact H|]. right. auto.
  - right. assert (Hn : ~ In a (f_touched f)) by (intros Hi; apply mem_In in Hi; congruence).
    split; [intros (C & _); contradiction|].
    unfold commit in H. eapply commit_loop_skips; [exact H|]. left. rewrite In_sort_addrs. exact Hn.
Qed.

(* the direction the memoized-emptiness defect broke: an address that is not empty when the commit runs and did not
   self-destruct keeps its account record, every balance, its code and its storage - whenever and however often it
   was touched before, and whatever was written to it afterwards by whom *)
Lemma xtouched_nonempty_survives e w l s w' b a :
  run_xops e (init_sdb w) l = Ok s -> run_xtx e w l = TxOk w' b ->
  mem a (f_sd (cur s)) = false -> is_empty (f_w (cur s)) a = false ->
  same_at (f_w (cur s)) w' a.
Proof.
  intros Hr. unfold run_xtx. rewrite Hr.
  destruct (commit e (cur s)) as [[w1 b1]|] eqn:Ec; [|discriminate].
  intros H. injection H as <- <-. intros Hs He.
  destruct (commit_exact e (cur s) w1 b1 a Ec) as [(_ & [C|C] & _)|(_ & Hsame)]; [congruence | congruence | exact Hsame].
Qed.

(* ------------------------------------------------------------------ deleted means gone completely *)

Lemma pgrel_foreign e w x w' : foreign e w x = FDone w' -> pgrel w w'.
Proof.
  apply foreign_R; unfold pgrel.
  - auto.
  - auto.
  - intros w0 a y Hy. destruct (Z.eq_dec y a) as [->|Hne].
    + left. apply ensure_acc_present.
    + eapply pg_same; [| | | |exact Hy].
      * rewrite ensure_acc. destruct (y =? a) eqn:E; [apply Z.eqb_eq in E; contradiction | reflexivity].
      * rewrite ensure_bal. reflexivity.
      * rewrite ensure_code. reflexivity.
      * rewrite ensure_stor. reflexivity.
  - intros w0 a d v w1 Hv H. pose proof (bank_sub_eff _ _ _ _ _ _ H) as [Hl ->]. cbn zeta in Hl.
    intros y [Hp|(G1 & G2 & G3 & G4)]; [left; exact Hp|].
    destruct (Z.eq_dec y a) as [->|Hne].
    + exfalso. unfold kind_at in Hl. rewrite G1 in Hl. cbn [locked_kind] in Hl. rewrite G2 in Hl. lia.
    + right. unfold gone. cbn [w_acc w_bal w_code w_stor]. rewrite upd_other by exact Hne. repeat split; assumption.
  - intros w0 a d v Hv y Hy. destruct (Z.eq_dec y a) as [->|Hne].
    + left. apply credit_present.
    + eapply pg_same; [| | | |exact Hy].
      * apply credit_acc_other. exact Hne.
      * intros d'. rewrite credit_bal. rewrite upd_other by exact Hne. reflexivity.
      * rewrite credit_code. reflexivity.
      * rewrite credit_stor. reflexivity.
  - intros w0 a pool d v w1 H. apply delegate_world_eff in H.
    destruct H as (_ & Hpool & ac & Ha & _ & ->). cbn zeta.
    intros y Hy.
    assert (Hpa : forall z, z = a \/ z = pool -> present w0 z).
    { intros z [->| ->]; unfold present; [rewrite Ha; discriminate | exact Hpool]. }
    destruct (Z.eq_dec y a) as [->|Hna].
    { left. unfold present. cbn [w_acc]. rewrite upd_same. discriminate. }
    destruct (Z.eq_dec y pool) as [->|Hnp].
    { left. unfold present. cbn [w_acc]. rewrite upd_other by exact Hna. exact Hpool. }
    eapply pg_same; [| | | |exact Hy]; cbn [w_acc w_bal w_code w_stor]; try reflexivity.
    + rewrite upd_other by exact Hna. reflexivity.
    + intros d'. rewrite upd_other by exact Hnp. rewrite upd_other by exact Hna. reflexivity.
Qed.

Lemma pgrel_xfstep e f x f' : xfstep e f x = Ok f' -> pgrel (f_w f) (f_w f').
Proof.
  destruct x as [o| | |]; cbn [xfstep]; [apply pgrel_fstep| | |];
    (destruct (foreign e (f_w f) _) eqn:E; [|intros H; injection H as <-; intros y Hy; exact Hy | discriminate];
     intros H; injection H as <-; cbn [with_w f_w]; eapply pgrel_foreign; exact E).
Qed.

Lemma xdestroy_complete e w l w' b a :
  run_xtx e w l = TxOk w' b -> present w a -> ~ present w' a -> gone w' a.
Proof.
  intros H Hp Hn.
  assert (Hr : pgrel w w').
  { eapply (run_xtx_R e pgrel); try eassumption.
    - intros w0 y Hy. exact Hy.
    - intros a0 b0 c0 H1 H2 y Hy. apply H2. apply H1. exact Hy.
    - apply pgrel_xfstep.
    - apply pgrel_destroy. }
  destruct (Hr a (or_introl Hp)) as [Hp'|Hg]; [contradiction | exact Hg].
Qed.

(* ------------------------------------------------------------------ locked coins: in the balance or delegated, never spent *)

Definition delv_of (k : kind) (d : denom) : Z :=
  match k with Vesting sc => amt (s_delv sc) d | _ => 0 end.

(* for every protected account and denomination: the delegated-vesting counter only grows, by D say; what bank
   calls locked shrinks by exactly D; the balance stays above min(balance, locked) - D *)
Definition lockrel (e : env) (w w' : world) : Prop :=
  forall a ac, w_acc w a = Some ac -> protected_kind (a_kind ac) (e_now e) = true ->
  exists ac', w_acc w' a = Some ac' /\ kind_sim (a_kind ac) (a_kind ac') /\ a_num ac' = a_num ac /\
    forall d, 0 <= delv_of (a_kind ac') d - delv_of (a_kind ac) d /\
      locked_kind (a_kind ac') (e_now e) d
        = locked_kind (a_kind ac) (e_now e) d - (delv_of (a_kind ac') d - delv_of (a_kind ac) d) /\
      Z.min (amt (w_bal w a) d) (locked_kind (a_kind ac) (e_now e) d) - (delv_of (a_kind ac') d - delv_of (a_kind ac) d)
        <= amt (w_bal w' a) d.

Lemma kf_lockrel e w w' : kf e w w' -> lockrel e w w'.
Proof.
  intros [K F] a ac Ha Hp. destruct (K a ac Ha Hp) as (ac' & Ha' & Hk & Hn).
  exists ac'. repeat split; auto; try (rewrite Hk; try apply kind_sim_refl; lia).
  rewrite Hk. specialize (F a ac d Ha Hp). lia.
Qed.

Lemma lockrel_refl e w : lockrel e w w.
Proof. apply kf_lockrel, kf_refl. Qed.

Lemma lockrel_trans e a b c : lockrel e a b -> lockrel e b c -> lockrel e a c.
Proof.
  intros H1 H2 x ac Hx Hp. destruct (H1 x ac Hx Hp) as (ac1 & Hx1 & Hk1 & Hn1 & L1).
  assert (Hp1 : protected_kind (a_kind ac1) (e_now e) = true) by (rewrite (kind_sim_protected _ _ _ Hk1); exact Hp).
  destruct (H2 x ac1 Hx1 Hp1) as (ac2 & Hx2 & Hk2 & Hn2 & L2).
  exists ac2. split; [exact Hx2|]. split; [eapply kind_sim_trans; eassumption|]. split; [congruence|].
  intros d. destruct (L1 d) as (A1 & A2 & A3). destruct (L2 d) as (B1 & B2 & B3).
  pose proof (locked_kind_nonneg (a_kind ac) (e_now e) d). lia.
Qed.

Lemma vesting_amt_ext sc sc' t d :
  s_kind sc' = s_kind sc -> s_start sc' = s_start sc -> s_end sc' = s_end sc -> s_orig sc' = s_orig sc ->
  s_periods sc' = s_periods sc -> vesting_amt sc' t d = vesting_amt sc t d.
Proof. intros H1 H2 H3 H4 H5. unfold vesting_amt, vested_amt. rewrite H1, H2, H3, H4, H5. reflexivity. Qed.

Lemma locked_sched_nonraw sc t d : s_kind sc <> VRaw ->
  locked_sched sc t d = vesting_amt sc t d - Z.min (vesting_amt sc t d) (amt (s_delv sc) d).
Proof. intros H. unfold locked_sched. destruct (s_kind sc); try reflexivity. contradiction. Qed.

Lemma track_delegation_nonraw sc t d v : s_kind sc <> VRaw ->
  track_delegation sc t d v =
    let x := Z.min (Z.max (vesting_amt sc t d - amt (s_delv sc) d) 0) v in
    if x =? 0 then sc
    else mkSched (s_kind sc) (s_start sc) (s_end sc) (s_orig sc) (set_amt (s_delv sc) d (amt (s_delv sc) d + x)) (s_periods sc).
Proof. intros H. unfold track_delegation. destruct (s_kind sc); try reflexivity. contradiction. Qed.

Lemma track_delegation_lock sc t d v d' :
  0 < v ->
  let sc' := track_delegation sc t d v in
  let D := amt (s_delv sc') d' - amt (s_delv sc) d' in
  0 <= D /\ locked_sched sc' t d' = locked_sched sc t d' - D /\
  (d' <> d -> D = 0) /\ (d' = d -> D = Z.min (locked_sched sc t d) v).
Proof.
  intros Hv. cbn zeta.
  assert (Hcase : s_kind sc = VRaw \/ s_kind sc <> VRaw)
    by (destruct (s_kind sc); [left; reflexivity | right; discriminate ..]).
  destruct Hcase as [K|Hk].
  - unfold track_delegation. rewrite K. unfold locked_sched. rewrite K. repeat split; try lia.
  - rewrite (track_delegation_nonraw sc t d v Hk). cbn zeta.
    rewrite (locked_sched_nonraw sc t d Hk), (locked_sched_nonraw sc t d' Hk).
    set (x := Z.min (Z.max (vesting_amt sc t d - amt (s_delv sc) d) 0) v).
    destruct (x =? 0) eqn:Ex.
    + apply Z.eqb_eq in Ex. rewrite (locked_sched_nonraw sc t d' Hk). repeat split; try lia.
    + apply Z.eqb_neq in Ex.
      set (sc' := mkSched (s_kind sc) (s_start sc) (s_end sc) (s_orig sc) (set_amt (s_delv sc) d (amt (s_delv sc) d + x)) (s_periods sc)).
      assert (Hk' : s_kind sc' <> VRaw) by exact Hk.
      rewrite (locked_sched_nonraw sc' t d' Hk').
      assert (Hva : vesting_amt sc' t d' = vesting_amt sc t d') by (apply vesting_amt_ext; reflexivity).
      rewrite Hva. cbn [s_delv sc'].
      destruct (Z.eq_dec d' d) as [->|Hd].
      * rewrite amt_set_same. repeat split; try lia.
      * rewrite amt_set_other by exact Hd. repeat split; try lia.
Qed.

Lemma lockrel_delegate e w a pool d v w' : delegate_world e w a pool d v = FDone w' -> lockrel e w w'.
Proof.
  intros H. apply delegate_world_eff in H. destruct H as (Hv & _ & ac & Ha & Hb & ->). cbn zeta.
  intros x acx Hx Hp.
  assert (Hbalx : forall d', x <> a -> amt (w_bal w x) d' <=
            amt (upd (upd (w_bal w) a (set_amt (w_bal w a) d (amt (w_bal w a) d - v))) pool
                   (set_amt (upd (w_bal w) a (set_amt (w_bal w a) d (amt (w_bal w a) d - v)) pool) d
                      (amt (upd (w_bal w) a (set_amt (w_bal w a) d (amt (w_bal w a) d - v)) pool) d + v)) x) d').
  { intros d' Hne. unfold upd at 1. destruct (x =? pool) eqn:Exp.
    - apply Z.eqb_eq in Exp. subst x. rewrite upd_other by exact Hne.
      destruct (Z.eq_dec d' d) as [->|Hd]; [rewrite amt_set_same; lia | rewrite amt_set_other by exact Hd; lia].
    - rewrite upd_other by exact Hne. lia. }
  cbn [w_acc w_bal]. destruct (Z.eq_dec x a) as [->|Hne].
  - rewrite Ha in Hx. injection Hx as <-. rewrite upd_same.
    eexists. split; [reflexivity|]. destruct (delegated_acc_sim e ac d v) as (S1 & S2 & _).
    split; [exact S1|]. split; [exact S2|]. intros d'.
    (* the balance of a in d' after the two updates *)
    assert (Hbala : amt (w_bal w a) d' - (if Z.eq_dec d' d then v else 0) <=
              amt (upd (upd (w_bal w) a (set_amt (w_bal w a) d (amt (w_bal w a) d - v))) pool
                     (set_amt (upd (w_bal w) a (set_amt (w_bal w a) d (amt (w_bal w a) d - v)) pool) d
                        (amt (upd (w_bal w) a (set_amt (w_bal w a) d (amt (w_bal w a) d - v)) pool) d + v)) a) d').
    { unfold upd at 1. destruct (a =? pool) eqn:Eap.
      - apply Z.eqb_eq in Eap. subst pool. rewrite upd_same.
        destruct (Z.eq_dec d' d) as [->|Hd]; [rewrite !amt_set_same; lia | rewrite !amt_set_other by exact Hd; lia].
      - rewrite upd_same. destruct (Z.eq_dec d' d) as [->|Hd]; [rewrite amt_set_same; lia | rewrite amt_set_other by exact Hd; lia]. }
    assert (Hbala' : (d' = d -> amt (w_bal w a) d - v <= amt (upd (upd (w_bal w) a (set_amt (w_bal w a) d (amt (w_bal w a) d - v))) pool
                     (set_amt (upd (w_bal w) a (set_amt (w_bal w a) d (amt (w_bal w a) d - v)) pool) d
                        (amt (upd (w_bal w) a (set_amt (w_bal w a) d (amt (w_bal w a) d - v)) pool) d + v)) a) d') /\
                     (d' <> d -> amt (w_bal w a) d' <= amt (upd (upd (w_bal w) a (set_amt (w_bal w a) d (amt (w_bal w a) d - v))) pool
                     (set_amt (upd (w_bal w) a (set_amt (w_bal w a) d (amt (w_bal w a) d - v)) pool) d
                        (amt (upd (w_bal w) a (set_amt (w_bal w a) d (amt (w_bal w a) d - v)) pool) d + v)) a) d')).
    { destruct (Z.eq_dec d' d) as [Hd|Hd] in Hbala; split; intros Hd'; try contradiction; [subst d'|]; lia. }
    clear Hbala. destruct Hbala' as [Hb1 Hb2].
    unfold delegated_acc. destruct (a_kind ac) as [| |sc] eqn:K.
    + rewrite K. cbn [delv_of locked_kind]. destruct (Z.eq_dec d' d) as [Hd|Hd]; [specialize (Hb1 Hd); subst d' | specialize (Hb2 Hd)]; lia.
    + rewrite K. cbn [delv_of locked_kind]. destruct (Z.eq_dec d' d) as [Hd|Hd]; [specialize (Hb1 Hd); subst d' | specialize (Hb2 Hd)]; lia.
    + cbn [a_kind delv_of locked_kind].
      destruct (track_delegation_lock sc (e_now e) d v d' Hv) as (T1 & T2 & T3 & T4).
      split; [exact T1|]. split; [exact T2|].
      pose proof (locked_sched_nonneg sc (e_now e) d').
      destruct (Z.eq_dec d' d) as [Hd|Hd]; [specialize (Hb1 Hd); rewrite (T4 Hd); subst d' | specialize (Hb2 Hd); rewrite (T3 Hd)]; lia.
  - rewrite upd_other by exact Hne. exists acx. split; [exact Hx|]. split; [apply kind_sim_refl|]. split; [reflexivity|].
    intros d'. specialize (Hbalx d' Hne). repeat split; lia.
Qed.

Lemma kf_ensure e w a : kf e w (ensure_account w a).
Proof.
  split.
  - apply keeps_same_acc. intros x ac. apply ensure_acc_keep.
  - apply floor_same_bal. intros x d. rewrite ensure_bal. reflexivity.
Qed.

Lemma kf_bank_sub e w a d v w' : bank_sub e w a d v = Ok w' -> kf e w w'.
Proof.
  intros H. pose proof (bank_sub_eff _ _ _ _ _ _ H) as [Hl ->]. cbn zeta in Hl. split.
  - apply keeps_same_acc. auto.
  - intros x ac d' Hx Hp. cbn [w_bal]. unfold upd. destruct (x =? a) eqn:Ex; [|lia].
    apply Z.eqb_eq in Ex. subst x. unfold kind_at in Hl. rewrite Hx in Hl.
    destruct (Z.eq_dec d' d) as [->|Hd]; [rewrite amt_set_same; lia | rewrite amt_set_other by exact Hd; lia].
Qed.

Lemma kf_credit e w a d v : 0 < v -> kf e w (credit w a d v).
Proof.
  intros Hv. split.
  - apply keeps_same_acc. intros x ac. apply credit_acc_keep.
  - intros x ac d' Hx Hp. rewrite credit_bal. unfold upd. destruct (x =? a) eqn:Ex; [|lia].
    apply Z.eqb_eq in Ex. subst x.
    destruct (Z.eq_dec d' d) as [->|Hd]; [rewrite amt_set_same; lia | rewrite amt_set_other by exact Hd; lia].
Qed.

Lemma lockrel_xfstep e f x f' : xfstep e f x = Ok f' -> lockrel e (f_w f) (f_w f').
Proof.
  apply xfstep_R.
  - apply lockrel_refl.
  - apply lockrel_trans.
  - intros f0 o f1 H. apply kf_lockrel. eapply kf_fstep. exact H.
  - intros w a. apply kf_lockrel, kf_ensure.
  - intros w a d v w' _ H. apply kf_lockrel. eapply kf_bank_sub. exact H.
  - intros w a d v Hv. apply kf_lockrel, kf_credit. exact Hv.
  - apply lockrel_delegate.
Qed.

Lemma xlocked_unspendable e w l w' b : run_xtx e w l = TxOk w' b -> lockrel e w w'.
Proof.
  apply run_xtx_R.
  - apply lockrel_refl.
  - apply lockrel_trans.
  - apply lockrel_xfstep.
  - intros w0 a w1 H. apply kf_lockrel. eapply kf_destroy. exact H.
Qed.

(* without staking delegations the statement of Destroy.v holds as it is: foreign sends and burns go through bank's
   subUnlockedCoins *)
Definition not_delegate (x : xop) : Prop := forall a p d v ok, x <> XDelegate a p d v ok.

Lemma kf_xfstep e f x f' : not_delegate x -> xfstep e f x = Ok f' -> kf e (f_w f) (f_w f').
Proof.
  intros Hn. destruct x as [o|from to d v ok|from d v ok|a p d v ok]; cbn [xfstep foreign].
  - apply kf_fstep.
  - destruct (send_world e (f_w f) from to d v) as [w1| |] eqn:E; [|intros H; injection H as <-; apply kf_refl | discriminate].
    intros H. injection H as <-. cbn [with_w f_w]. apply send_world_eff in E.
    destruct E as [[_ ->]|(Hv & w2 & Hb & ->)]; [apply kf_ensure|].
    eapply kf_trans; [eapply kf_bank_sub; exact Hb | apply kf_credit; exact Hv].
  - destruct (burn_world e (f_w f) from d v) as [w1| |] eqn:E; [|intros H; injection H as <-; apply kf_refl | discriminate].
    intros H. injection H as <-. cbn [with_w f_w]. apply burn_world_eff in E.
    destruct E as [[_ ->]|(Hv & Hb)]; [apply kf_refl | eapply kf_bank_sub; exact Hb].
  - exfalso. eapply Hn. reflexivity.
Qed.

Lemma nn_foreign e w x w' : foreign e w x = FDone w' -> nnrel w w'.
Proof.
  apply foreign_R; unfold nnrel.
  - auto.
  - auto.
  - intros w0 a Hn y d. rewrite ensure_bal. apply Hn.
  - intros w0 a d v w1 Hv H. pose proof (bank_sub_eff _ _ _ _ _ _ H) as [Hl ->]. cbn zeta in Hl.
    intros Hn y d'. cbn [w_bal]. unfold upd. destruct (y =? a) eqn:Ey; [|apply Hn].
    destruct (Z.eq_dec d' d) as [->|Hd]; [|rewrite amt_set_other by exact Hd; apply Hn].
    rewrite amt_set_same. pose proof (locked_kind_nonneg (kind_at w0 a) (e_now e) d). lia.
  - intros w0 a d v Hv Hn y d'. rewrite credit_bal. unfold upd. destruct (y =? a) eqn:Ey; [|apply Hn].
    destruct (Z.eq_dec d' d) as [->|Hd]; [|rewrite amt_set_other by exact Hd; apply Hn].
    rewrite amt_set_same. specialize (Hn a d). lia.
  - intros w0 a pool d v w1 H. apply delegate_world_eff in H. destruct H as (Hv & _ & ac & Ha & Hb & ->). cbn zeta.
    intros Hn y d'. cbn [w_bal].
    assert (H1 : forall z dd, 0 <= amt (upd (w_bal w0) a (set_amt (w_bal w0 a) d (amt (w_bal w0 a) d - v)) z) dd).
    { intros z dd. unfold upd. destruct (z =? a); [|apply Hn].
      destruct (Z.eq_dec dd d) as [->|Hd]; [rewrite amt_set_same; lia | rewrite amt_set_other by exact Hd; apply Hn]. }
    unfold upd at 1. destruct (y =? pool); [|apply H1].
    destruct (Z.eq_dec d' d) as [->|Hd]; [rewrite amt_set_same; specialize (H1 pool d); lia | rewrite amt_set_other by exact Hd; apply H1].
Qed.

Lemma xrun_R_allowed e (R : world -> world -> Prop) (allowed : xop -> Prop) :
  (forall w, R w w) -> (forall a b c, R a b -> R b c -> R a c) ->
  (forall f x f', allowed x -> xfstep e f x = Ok f' -> R (f_w f) (f_w f')) ->
  (forall w a w', destroy e w a = Ok w' -> R w w') ->
  forall w l w' b, Forall allowed l -> run_xtx e w l = TxOk w' b -> R w w'.
Proof.
  intros Rrefl Rtrans Rstep Rd w l w' b Hall. unfold run_xtx.
  destruct (run_xops e (init_sdb w) l) as [s|] eqn:E; [|discriminate].
  destruct (commit e (cur s)) as [[w1 b1]|] eqn:Ec; [|discriminate].
  intros H. injection H as <- <-.
  assert (Hinv : R w (f_w (cur s)) /\ Forall (fun f => R w (f_w f)) (snaps s)).
  { eapply (run_xops_inv e (fun f => R w (f_w f)) allowed) with (s := init_sdb w) (l := l).
    - intros f x f' Hx Hf Hs. eapply Rtrans; [exact Hf | eapply Rstep; eassumption].
    - exact Hall.
    - cbn. apply Rrefl.
    - cbn. constructor.
    - exact E. }
  destruct Hinv as [Hc _]. eapply Rtrans; [exact Hc|].
  unfold commit in Ec. eapply commit_loop_R; eassumption.
Qed.

Lemma xlocked_unspendable_nodelegate e w l w' b a ac d :
  wf_world w -> Forall not_delegate l -> run_xtx e w l = TxOk w' b -> w_acc w a = Some ac ->
  Z.min (amt (w_bal w a) d) (locked_kind (a_kind ac) (e_now e) d) <= amt (w_bal w' a) d.
Proof.
  intros [Hnn Hwf] Hall H Ha.
  destruct (protected_kind (a_kind ac) (e_now e)) eqn:Hp.
  - assert (Hr : kf e w w').
    { eapply (xrun_R_allowed e (kf e) not_delegate); try eassumption.
      - apply kf_refl.
      - apply kf_trans.
      - apply kf_xfstep.
      - apply kf_destroy. }
    destruct Hr as [_ Hf]. apply Hf; assumption.
  - rewrite (unprotected_unlocked _ _ d (Hwf a ac Ha) Hp).
    assert (Hr : nnrel w w').
    { eapply (run_xtx_R e nnrel); try eassumption.
      - intros w0 H0. exact H0.
      - intros a0 b0 c0 H1 H2 H0. apply H2. apply H1. exact H0.
      - intros f x f' Hs. destruct x as [o| | |]; cbn [xfstep] in Hs; [eapply nn_fstep; exact Hs| | |];
          (destruct (foreign e (f_w f) _) eqn:E; [|injection Hs as <-; intros H0; exact H0 | discriminate];
           injection Hs as <-; cbn [with_w f_w]; eapply nn_foreign; exact E).
      - apply nn_destroy. }
    specialize (Hr Hnn a d). lia.
Qed.

(* ------------------------------------------------------------------ contracts survive mixed traces *)

Definition recrel (w w' : world) : Prop :=
  forall a ac, w_acc w a = Some ac ->
  exists ac', w_acc w' a = Some ac' /\ a_num ac' = a_num ac /\ a_nonce ac' = a_nonce ac /\ kind_sim (a_kind ac) (a_kind ac').

Lemma recrel_same w w' : (forall a ac, w_acc w a = Some ac -> w_acc w' a = Some ac) -> recrel w w'.
Proof. intros H a ac Ha. exists ac. repeat split; auto. apply kind_sim_refl. Qed.

(* a write of another module leaves every account record in place: same number, same nonce, same type *)
Lemma foreign_keeps_records e w x w' : foreign e w x = FDone w' -> recrel w w'.
Proof.
  apply foreign_R.
  - intros w0. apply recrel_same. auto.
  - intros a b c H1 H2 y ac Hy. destruct (H1 y ac Hy) as (ac1 & Hy1 & N1 & O1 & K1).
    destruct (H2 y ac1 Hy1) as (ac2 & Hy2 & N2 & O2 & K2).
    exists ac2. repeat split; try congruence. eapply kind_sim_trans; eassumption.
  - intros w0 a. apply recrel_same. intros y ac. apply ensure_acc_keep.
  - intros w0 a d v w1 _ H. apply bank_sub_eff in H. destruct H as [_ ->]. apply recrel_same. auto.
  - intros w0 a d v _. apply recrel_same. intros y ac. apply credit_acc_keep.
  - intros w0 a pool d v w1 H. apply delegate_world_eff in H. destruct H as (_ & _ & ac & Ha & _ & ->). cbn zeta.
    intros y acy Hy. cbn [w_acc]. unfold upd. destruct (y =? a) eqn:Ey.
    + apply Z.eqb_eq in Ey. subst y. rewrite Ha in Hy. injection Hy as <-.
      destruct (delegated_acc_sim e ac d v) as (S1 & S2 & S3). eexists. split; [reflexivity|]. auto.
    + exists acy. repeat split; auto. apply kind_sim_refl.
Qed.

Definition contract_likex (w : world) (a : addr) (num : Z) (k : kind) : Prop :=
  exists ac, w_acc w a = Some ac /\ a_num ac = num /\ kind_sim k (a_kind ac) /\ (a_nonce ac <> 0 \/ w_code w a <> 0).

Definition xkeeps_nonzero (a : addr) (x : xop) : Prop :=
  match x with XOp o => keeps_nonzero a o | _ => True end.

Lemma xcontract_step e f x f' a num k :
  xfstep e f x = Ok f' -> xevm_step_ok f x = true -> xkeeps_nonzero a x ->
  contract_likex (f_w f) a num k -> contract_likex (f_w f') a num k.
Proof.
  intros Hs Hok Hk (ac & Ha & Hn & Hkd & Hc).
  destruct x as [o| | |]; cbn [xfstep xevm_step_ok xkeeps_nonzero] in *.
  - assert (Hcl : contract_like (f_w f) a num (a_kind ac)) by (exists ac; auto).
    destruct (contract_step e f o f' a num (a_kind ac) Hs Hok Hk Hcl) as (ac' & Ha' & Hn' & Hk' & Hc').
    exists ac'. repeat split; auto. rewrite Hk'. exact Hkd.
  - destruct (foreign e (f_w f) _) as [w1| |] eqn:E; [|injection Hs as <-; exists ac; auto | discriminate].
    injection Hs as <-. cbn [with_w f_w].
    destruct (foreign_keeps_records _ _ _ _ E a ac Ha) as (ac' & Ha' & N & O & K).
    destruct (foreign_code_stor _ _ _ _ E) as [C _].
    exists ac'. repeat split; [exact Ha' | congruence | eapply kind_sim_trans; eassumption | rewrite O, C; exact Hc].
  - destruct (foreign e (f_w f) _) as [w1| |] eqn:E; [|injection Hs as <-; exists ac; auto | discriminate].
    injection Hs as <-. cbn [with_w f_w].
    destruct (foreign_keeps_records _ _ _ _ E a ac Ha) as (ac' & Ha' & N & O & K).
    destruct (foreign_code_stor _ _ _ _ E) as [C _].
    exists ac'. repeat split; [exact Ha' | congruence | eapply kind_sim_trans; eassumption | rewrite O, C; exact Hc].
  - destruct (foreign e (f_w f) _) as [w1| |] eqn:E; [|injection Hs as <-; exists ac; auto | discriminate].
    injection Hs as <-. cbn [with_w f_w].
    destruct (foreign_keeps_records _ _ _ _ E a ac Ha) as (ac' & Ha' & N & O & K).
    destruct (foreign_code_stor _ _ _ _ E) as [C _].
    exists ac'. repeat split; [exact Ha' | congruence | eapply kind_sim_trans; eassumption | rewrite O, C; exact Hc].
Qed.

Lemma xcontract_trace e a num k : forall l s s',
  xevm_trace e s l = true -> Forall (xkeeps_nonzero a) l -> run_xops e s l = Ok s' ->
  contract_likex (f_w (cur s)) a num k -> Forall (fun f => contract_likex (f_w f) a num k) (snaps s) ->
  contract_likex (f_w (cur s')) a num k /\ Forall (fun f => contract_likex (f_w f) a num k) (snaps s').
Proof.
  induction l as [|x r IH]; intros s s' Ht Hk Hr Hc Hs; cbn [run_xops] in Hr.
  - injection Hr as <-. split; assumption.
  - cbn [xevm_trace] in Ht. apply andb_true_iff in Ht. destruct Ht as [Hok Ht].
    inversion Hk as [|? ? Hkx Hkr]; subst.
    destruct (xstep e s x) as [s1|] eqn:E; cbn [bind] in Hr; [|discriminate].
    assert (Hstep : contract_likex (f_w (cur s1)) a num k /\ Forall (fun f => contract_likex (f_w f) a num k) (snaps s1)).
    { assert (Hgen : forall f1, xfstep e (cur s) x = Ok f1 -> s1 = mkSdb f1 (snaps s) ->
                contract_likex (f_w (cur s1)) a num k /\ Forall (fun f => contract_likex (f_w f) a num k) (snaps s1)).
      { intros f1 Hf ->. cbn [cur snaps]. split; [eapply xcontract_step; eassumption | exact Hs]. }
      destruct x as [o| | |]; cbn [xstep] in E.
      - destruct o; cbn [step] in E;
          try (destruct (fstep e (cur s) _) as [f1|] eqn:Ef; [|discriminate]; injection E as <-;
               apply (Hgen f1); [first [exact Ef | reflexivity] | reflexivity]).
        + injection E as <-. cbn [cur snaps]. split; [exact Hc|].
          apply Forall_app. split; [exact Hs | constructor; [exact Hc | constructor]].
        + destruct (i <? 0); [discriminate|].
          destruct (nth_error (snaps s) (Z.to_nat i)) as [f'|] eqn:En; [|discriminate].
          injection E as <-. cbn [cur snaps]. rewrite Forall_forall in Hs. split.
          * apply Hs. eapply nth_error_In. exact En.
          * apply Forall_forall. intros y Hy. apply Hs. apply (In_firstn_In y (S (Z.to_nat i))). exact Hy.
      - destruct (xfstep e (cur s) _) as [f1|] eqn:Ef; [|discriminate]. injection E as <-. apply (Hgen f1); [first [exact Ef | reflexivity] | reflexivity].
      - destruct (xfstep e (cur s) _) as [f1|] eqn:Ef; [|discriminate]. injection E as <-. apply (Hgen f1); [first [exact Ef | reflexivity] | reflexivity].
      - destruct (xfstep e (cur s) _) as [f1|] eqn:Ef; [|discriminate]. injection E as <-. apply (Hgen f1); [first [exact Ef | reflexivity] | reflexivity]. }
    destruct Hstep as [Hc1 Hs1]. eapply IH; eassumption.
Qed.

Lemma xcontract_survives e w l w' b a ac :
  xevm_trace e (init_sdb w) l = true -> Forall (xkeeps_nonzero a) l ->
  run_xtx e w l = TxOk w' b ->
  w_acc w a = Some ac -> (a_nonce ac <> 0 \/ w_code w a <> 0) ->
  (exists s, run_xops e (init_sdb w) l = Ok s /\ mem a (f_sd (cur s)) = true) \/
  contract_likex w' a (a_num ac) (a_kind ac).
Proof.
  intros Ht Hk. unfold run_xtx.
  destruct (run_xops e (init_sdb w) l) as [s|] eqn:E; [|discriminate].
  destruct (commit e (cur s)) as [[w1 b1]|] eqn:Ec; [|discriminate].
  intros H. injection H as <- <-. intros Ha Hc.
  destruct (xcontract_trace e a (a_num ac) (a_kind ac) l (init_sdb w) s Ht Hk E) as [Hcl _].
  { exists ac. repeat split; auto. apply kind_sim_refl. }
  { cbn. constructor. }
  destruct (mem a (f_sd (cur s))) eqn:Hsd; [left; exists s; auto|]. right.
  destruct Hcl as (ac1 & Ha1 & Hn1 & Hk1 & Hc1).
  assert (Hne : is_empty (f_w (cur s)) a = false).
  { destruct (is_empty (f_w (cur s)) a) eqn:Ee; [|reflexivity]. exfalso.
    apply is_empty_spec in Ee. destruct Ee as (E1 & _ & E3 & _). unfold nonce_at in E3. rewrite Ha1 in E3.
    destruct Hc1; contradiction. }
  destruct (commit_exact e (cur s) w1 b1 a Ec) as [(_ & [C|C] & _)|(_ & S1 & _ & S3 & _)]; [congruence | congruence |].
  exists ac1. repeat split; auto; [congruence | rewrite S3; exact Hc1].
Qed.

(* ================================================================== part 2: the raw store *)

Lemma bytes_eqb_eq a : forall b, bytes_eqb a b = true <-> a = b.
Proof.
  induction a as [|x a IH]; intros [|y b]; cbn; split; try discriminate; try reflexivity.
  - intros H. apply andb_true_iff in H. destruct H as [H1 H2]. apply Z.eqb_eq in H1. apply IH in H2. congruence.
  - intros H. injection H as -> ->. rewrite Z.eqb_refl. cbn. apply IH. reflexivity.
Qed.

Lemma bytes_eqb_refl a : bytes_eqb a a = true.
Proof. apply bytes_eqb_eq. reflexivity. Qed.

Lemma has_prefix_app p : forall s, has_prefix p (p ++ s) = true.
Proof. induction p as [|x p IH]; intros s; cbn; [reflexivity|]. rewrite Z.eqb_refl. apply IH. Qed.

Lemma has_prefix_split p : forall k, has_prefix p k = true -> k = p ++ skipn (length p) k.
Proof.
  induction p as [|x p IH]; intros k; cbn; [reflexivity|].
  destruct k as [|y k]; [discriminate|]. intros H. apply andb_true_iff in H. destruct H as [H1 H2].
  apply Z.eqb_eq in H1. subst y. f_equal. apply IH. exact H2.
Qed.

(* the half-open range [p, PrefixEndBytes(p)) is exactly the set of keys that start with p - for every prefix,
   the ones that end in 0xff bytes included *)
Lemma prefix_range_spec p : forall k,
  Forall byte_ok p -> Forall byte_ok k -> in_range p (prefix_end p) k = has_prefix p k.
Proof.
  induction p as [|x r IH]; intros k Hp Hk.
  - cbn. destruct k; reflexivity.
  - inversion Hp as [|? ? Hx Hr]; subst.
    destruct k as [|y k']; [reflexivity|].
    inversion Hk as [|? ? Hy Hk']; subst.
    specialize (IH k' Hr Hk'). unfold byte_ok in Hx, Hy.
    cbn [prefix_end has_prefix]. unfold in_range in *. cbn [lex_lt].
    destruct (prefix_end r) as [e|] eqn:Ee.
    + cbn [lex_lt].
      destruct (Z.lt_trichotomy y x) as [Hlt|[Heq|Hgt]].
      * assert (E1 : (y <? x) = true) by (apply Z.ltb_lt; lia). assert (E2 : (x =? y) = false) by (apply Z.eqb_neq; lia).
        rewrite E1, E2. reflexivity.
      * subst y. rewrite Z.ltb_irrefl, Z.eqb_refl. cbn [orb andb]. exact IH.
      * assert (E1 : (y <? x) = false) by (apply Z.ltb_ge; lia). assert (E2 : (y =? x) = false) by (apply Z.eqb_neq; lia).
        assert (E3 : (x =? y) = false) by (apply Z.eqb_neq; lia).
        rewrite E1, E2, E3. reflexivity.
    + destruct (x <? 255) eqn:E255.
      * apply Z.ltb_lt in E255. cbn [lex_lt].
        destruct (Z.lt_trichotomy y x) as [Hlt|[Heq|Hgt]].
        -- assert (E1 : (y <? x) = true) by (apply Z.ltb_lt; lia). assert (E2 : (x =? y) = false) by (apply Z.eqb_neq; lia).
           rewrite E1, E2. reflexivity.
        -- subst y. rewrite Z.ltb_irrefl, Z.eqb_refl. cbn [orb andb].
           assert (E1 : (x <? x + 1) = true) by (apply Z.ltb_lt; lia). rewrite E1. cbn [orb].
           rewrite andb_true_r in *. exact IH.
        -- assert (E1 : (y <? x) = false) by (apply Z.ltb_ge; lia). assert (E2 : (y =? x) = false) by (apply Z.eqb_neq; lia).
           assert (E3 : (x =? y) = false) by (apply Z.eqb_neq; lia).
           assert (E4 : (y <? x + 1) = false) by (apply Z.ltb_ge; lia).
           rewrite E1, E2, E3, E4. cbn. destruct k'; rewrite ?andb_false_r; reflexivity.
      * apply Z.ltb_ge in E255. assert (x = 255) by lia. subst x.
        destruct (Z.lt_trichotomy y 255) as [Hlt|[Heq|Hgt]]; [| |lia].
        -- assert (E1 : (y <? 255) = true) by (apply Z.ltb_lt; lia). assert (E2 : (255 =? y) = false) by (apply Z.eqb_neq; lia).
           rewrite E1, E2. reflexivity.
        -- subst y. rewrite Z.ltb_irrefl, Z.eqb_refl. cbn [orb andb]. exact IH.
Qed.

Lemma shiftr8 z : Z.shiftr z 8 = z / 256.
Proof. rewrite Z.shiftr_div_pow2 by lia. reflexivity. Qed.

Lemma land255 z : Z.land z 255 = z mod 256.
Proof. change 255 with (Z.ones 8). rewrite Z.land_ones by lia. reflexivity. Qed.

Lemma be_bytes_step n z : be_bytes (S n) z = be_bytes n (z / 256) ++ [z mod 256].
Proof. cbn [be_bytes]. rewrite shiftr8, land255. reflexivity. Qed.

Lemma be_bytes_length n : forall z, length (be_bytes n z) = n.
Proof. induction n as [|n IH]; intros z; [reflexivity|]. rewrite be_bytes_step, app_length, IH. cbn. lia. Qed.

Lemma be_bytes_ok n : forall z, Forall byte_ok (be_bytes n z).
Proof.
  induction n as [|n IH]; intros z; [constructor|]. rewrite be_bytes_step.
  apply Forall_app. split; [apply IH|]. constructor; [|constructor].
  unfold byte_ok. pose proof (Z.mod_pos_bound z 256). lia.
Qed.

Lemma be_val_app a x : be_val (a ++ [x]) = be_val a * 256 + x.
Proof. unfold be_val. rewrite fold_left_app. reflexivity. Qed.

Lemma be_val_be_bytes n : forall z, 0 <= z < 256 ^ Z.of_nat n -> be_val (be_bytes n z) = z.
Proof.
  induction n as [|n IH]; intros z Hz.
  - cbn in *. lia.
  - rewrite be_bytes_step. rewrite be_val_app. rewrite IH.
    + pose proof (Z.div_mod z 256). lia.
    + rewrite Nat2Z.inj_succ, Z.pow_succ_r in Hz by lia.
      split; [apply Z.div_pos; lia | apply Z.div_lt_upper_bound; lia].
Qed.

Lemma be_bytes_inj n a b :
  0 <= a < 256 ^ Z.of_nat n -> 0 <= b < 256 ^ Z.of_nat n -> be_bytes n a = be_bytes n b -> a = b.
Proof. intros Ha Hb H. rewrite <- (be_val_be_bytes n a Ha), <- (be_val_be_bytes n b Hb), H. reflexivity. Qed.

Lemma addr_ok_pow a : addr_ok a -> 0 <= a < 256 ^ Z.of_nat 20.
Proof. unfold addr_ok. intros H. change (256 ^ Z.of_nat 20) with (2 ^ 160). exact H. Qed.

Lemma stor_prefix_length a : length (stor_prefix a) = 21%nat.
Proof. unfold stor_prefix. cbn [length]. rewrite be_bytes_length. reflexivity. Qed.

Lemma stor_prefix_ok a : Forall byte_ok (stor_prefix a).
Proof. unfold stor_prefix. constructor; [unfold byte_ok, PFX_STORAGE; lia | apply be_bytes_ok]. Qed.

Lemma has_prefix_same_length p q : forall k,
  length p = length q -> has_prefix p k = true -> has_prefix q k = true -> p = q.
Proof.
  revert q. induction p as [|x p IH]; intros [|y q] k Hl; cbn in Hl; try discriminate; [reflexivity|].
  destruct k as [|z k]; cbn; [discriminate|]. intros H1 H2.
  apply andb_true_iff in H1, H2. destruct H1 as [A1 A2], H2 as [B1 B2].
  apply Z.eqb_eq in A1, B1. subst. f_equal. eapply IH; [lia | exact A2 | exact B2].
Qed.

Lemma stor_prefix_disjoint a x k :
  addr_ok a -> addr_ok x -> a <> x -> has_prefix (stor_prefix x) k = true -> has_prefix (stor_prefix a) k = false.
Proof.
  intros Ha Hx Hne H. destruct (has_prefix (stor_prefix a) k) eqn:E; [|reflexivity]. exfalso. apply Hne.
  assert (Heq : stor_prefix a = stor_prefix x).
  { eapply has_prefix_same_length; [rewrite !stor_prefix_length; reflexivity | exact E | exact H]. }
  unfold stor_prefix in Heq. apply (f_equal (@tl Z)) in Heq. cbn [tl] in Heq.
  eapply be_bytes_inj; [apply addr_ok_pow; exact Ha | apply addr_ok_pow; exact Hx | exact Heq].
Qed.

(* ------------------------------------------------------------------ well-formed entries *)

Lemma byte_okb_ok b : byte_okb b = true <-> byte_ok b.
Proof. unfold byte_okb, byte_ok. rewrite andb_true_iff, Z.leb_le, Z.ltb_lt. reflexivity. Qed.

Lemma wf_entry_bytes kv : wf_entry kv = true -> Forall byte_ok (fst kv).
Proof.
  unfold wf_entry. intros H. apply andb_true_iff in H. destruct H as [H _].
  apply Forall_forall. intros b Hb. apply byte_okb_ok. rewrite forallb_forall in H. apply H. exact Hb.
Qed.

Lemma wf_raw_in r kv : wf_raw r = true -> In kv r -> wf_entry kv = true.
Proof. unfold wf_raw. rewrite forallb_forall. auto. Qed.

Lemma wf_entry_storage_length kv a :
  wf_entry kv = true -> has_prefix (stor_prefix a) (fst kv) = true -> length (fst kv) = 53%nat.
Proof.
  unfold wf_entry. intros H Hp. apply andb_true_iff in H. destruct H as [_ H].
  destruct (fst kv) as [|p t]; [discriminate|]. unfold stor_prefix in Hp. cbn [has_prefix] in Hp.
  apply andb_true_iff in Hp. destruct Hp as [Hp _]. apply Z.eqb_eq in Hp. subst p.
  rewrite Z.eqb_refl in H. apply Nat.eqb_eq in H. exact H.
Qed.

(* a storage key of address a is StateKey(a, its own last 32 bytes): SetState(a, BytesToHash(key), nil) hits it *)
Lemma storage_key_roundtrip kv a :
  wf_entry kv = true -> has_prefix (stor_prefix a) (fst kv) = true -> stor_prefix a ++ slot_of (fst kv) = fst kv.
Proof.
  intros Hw Hp. pose proof (wf_entry_storage_length kv a Hw Hp) as Hl.
  unfold slot_of. rewrite Hl. change (53 - 32)%nat with 21%nat.
  pose proof (has_prefix_split _ _ Hp) as Hs. rewrite stor_prefix_length in Hs. symmetry. exact Hs.
Qed.

(* ------------------------------------------------------------------ the wipe of DestroyAccount on the raw store *)

Lemma fold_delete_filter (keyf : bytes * Z -> bytes) l : forall r,
  fold_left (fun r' kv => raw_delete r' (keyf kv)) l r =
  filter (fun en => forallb (fun kv => negb (bytes_eqb (fst en) (keyf kv))) l) r.
Proof.
  induction l as [|kv l IH]; intros r; cbn [fold_left forallb].
  - induction r as [|en r IHr]; cbn; [reflexivity | f_equal; exact IHr].
  - rewrite IH. unfold raw_delete. clear IH. induction r as [|en r IHr]; cbn [filter]; [reflexivity|].
    destruct (negb (bytes_eqb (fst en) (keyf kv))) eqn:E; cbn [filter andb]; rewrite IHr.
    + destruct (forallb _ l); reflexivity.
    + reflexivity.
Qed.

Definition survives_wipe (a : addr) (en : bytes * Z) : bool :=
  negb (has_prefix (stor_prefix a) (fst en)) && negb (bytes_eqb (fst en) (codehash_key a)).

(* DestroyAccount's wipe removes exactly the keys that start with 2 ++ address, and the key 4 ++ address *)
Lemma raw_wipe_spec r a : wf_raw r = true -> raw_wipe r a = filter (survives_wipe a) r.
Proof.
  intros Hw. unfold raw_wipe.
  rewrite (fold_delete_filter (fun kv => stor_prefix a ++ slot_of (fst kv))).
  unfold raw_delete. 
  assert (Hff : forall (P Q : bytes * Z -> bool) (l : raw), filter P (filter Q l) = filter (fun x => Q x && P x) l).
  { intros P Q l. induction l as [|x l IHl]; cbn [filter]; [reflexivity|].
    destruct (Q x); cbn [filter andb]; [destruct (P x); rewrite IHl; reflexivity | exact IHl]. }
  rewrite Hff. apply filter_ext_in. intros en Hen. unfold survives_wipe.
  rewrite andb_comm. f_equal.
  pose proof (wf_raw_in r en Hw Hen) as Hwe.
  destruct (has_prefix (stor_prefix a) (fst en)) eqn:Hp; cbn [negb].
  - (* visited by the iteration, and deleted under its own key *)
    apply not_true_is_false. intros Hall. rewrite forallb_forall in Hall.
    assert (Hin : In en (iter_prefix r (stor_prefix a))).
    { unfold iter_prefix. apply filter_In. split; [exact Hen|].
      rewrite prefix_range_spec; [exact Hp | apply stor_prefix_ok | apply wf_entry_bytes; exact Hwe]. }
    specialize (Hall en Hin). rewrite (storage_key_roundtrip en a Hwe Hp), bytes_eqb_refl in Hall. discriminate.
  - apply forallb_forall. intros kv _. apply negb_true_iff. apply not_true_is_false. intros Heq.
    apply bytes_eqb_eq in Heq. rewrite Heq, has_prefix_app in Hp. discriminate.
Qed.

Definition raw_no_trace (r : raw) (a : addr) : Prop :=
  filter (fun kv => has_prefix (stor_prefix a) (fst kv)) r = [] /\ raw_get r (codehash_key a) = None.

Lemma raw_get_none r k : raw_get r k = None <-> forall kv, In kv r -> bytes_eqb (fst kv) k = false.
Proof.
  induction r as [|[k' v] r IH]; cbn [raw_get]; split.
  - intros _ kv [].
  - reflexivity.
  - destruct (bytes_eqb k' k) eqn:E; [discriminate|]. intros H kv [<-|Hin]; [exact E | apply IH; assumption].
  - intros H. pose proof (H (k', v) (or_introl eq_refl)) as E. cbn [fst] in E. rewrite E.
    apply IH. intros kv Hin. apply H. right. exact Hin.
Qed.

Lemma filter_nil {A} (P : A -> bool) l : filter P l = [] <-> forall x, In x l -> P x = false.
Proof.
  induction l as [|y l IH]; cbn [filter]; split.
  - intros _ x [].
  - reflexivity.
  - destruct (P y) eqn:E; [discriminate|]. intros H x [<-|Hin]; [exact E | apply IH; assumption].
  - intros H. rewrite (H y (or_introl eq_refl)). apply IH. intros x Hin. apply H. right. exact Hin.
Qed.

(* removed completely, for EVERY address: nothing under the storage prefix of the address, no code hash entry *)
Lemma raw_wipe_complete r a : wf_raw r = true -> raw_no_trace (raw_wipe r a) a.
Proof.
  intros Hw. rewrite (raw_wipe_spec r a Hw). split.
  - apply filter_nil. intros kv Hin. apply filter_In in Hin. destruct Hin as [_ Hs].
    unfold survives_wipe in Hs. apply andb_true_iff in Hs. destruct Hs as [Hs _]. apply negb_true_iff in Hs. exact Hs.
  - apply raw_get_none. intros kv Hin. apply filter_In in Hin. destruct Hin as [_ Hs].
    unfold survives_wipe in Hs. apply andb_true_iff in Hs. destruct Hs as [_ Hs]. apply negb_true_iff in Hs. exact Hs.
Qed.

(* ... and nothing else is removed *)
Lemma raw_wipe_only r a kv :
  wf_raw r = true -> has_prefix (stor_prefix a) (fst kv) = false -> fst kv <> codehash_key a ->
  (In kv (raw_wipe r a) <-> In kv r).
Proof.
  intros Hw Hp Hc. rewrite (raw_wipe_spec r a Hw). rewrite filter_In. unfold survives_wipe. rewrite Hp.
  assert (E : bytes_eqb (fst kv) (codehash_key a) = false).
  { apply not_true_is_false. intros H. apply bytes_eqb_eq in H. contradiction. }
  rewrite E. cbn. tauto.
Qed.

(* ------------------------------------------------------------------ the per-address maps are a view of the raw store *)

Definition represents (r : raw) (w : world) : Prop :=
  forall a, addr_ok a ->
    (forall k, stor_get (abs_stor r a) k = stor_get (w_stor w a) k) /\ abs_code r a = w_code w a.

Lemma wf_raw_filter P r : wf_raw r = true -> wf_raw (filter P r) = true.
Proof.
  unfold wf_raw. rewrite !forallb_forall. intros H kv Hin. apply filter_In in Hin. apply H. tauto.
Qed.

Lemma iter_prefix_spec r p :
  wf_raw r = true -> Forall byte_ok p -> iter_prefix r p = filter (fun kv => has_prefix p (fst kv)) r.
Proof.
  intros Hw Hp. unfold iter_prefix. apply filter_ext_in. intros kv Hin.
  apply prefix_range_spec; [exact Hp | apply wf_entry_bytes; eapply wf_raw_in; eassumption].
Qed.

Lemma filter_filter {A} (P Q : A -> bool) l : filter P (filter Q l) = filter (fun x => Q x && P x) l.
Proof.
  induction l as [|x l IHl]; cbn [filter]; [reflexivity|].
  destruct (Q x); cbn [filter andb]; [destruct (P x); rewrite IHl; reflexivity | exact IHl].
Qed.

Lemma abs_stor_wipe_same r a : wf_raw r = true -> abs_stor (raw_wipe r a) a = [].
Proof.
  intros Hw. unfold abs_stor. rewrite (raw_wipe_spec r a Hw).
  rewrite iter_prefix_spec; [|apply wf_raw_filter; exact Hw | apply stor_prefix_ok].
  assert (E : filter (fun kv => has_prefix (stor_prefix a) (fst kv)) (filter (survives_wipe a) r) = []).
  { apply filter_nil. intros kv Hin. apply filter_In in Hin. destruct Hin as [_ Hs].
    unfold survives_wipe in Hs. apply andb_true_iff in Hs. destruct Hs as [Hs _]. apply negb_true_iff in Hs. exact Hs. }
  rewrite E. reflexivity.
Qed.

Lemma codehash_not_storage a x k : has_prefix (stor_prefix x) k = true -> bytes_eqb k (codehash_key a) = false.
Proof.
  intros H. apply not_true_is_false. intros E. apply bytes_eqb_eq in E. subst k.
  unfold stor_prefix, codehash_key in H. cbn [has_prefix] in H. discriminate.
Qed.

Lemma abs_stor_wipe_other r a x :
  wf_raw r = true -> addr_ok a -> addr_ok x -> a <> x -> abs_stor (raw_wipe r a) x = abs_stor r x.
Proof.
  intros Hw Ha Hx Hne. unfold abs_stor. rewrite (raw_wipe_spec r a Hw).
  rewrite iter_prefix_spec; [|apply wf_raw_filter; exact Hw | apply stor_prefix_ok].
  rewrite (iter_prefix_spec r _ Hw (stor_prefix_ok x)).
  rewrite filter_filter. f_equal. apply filter_ext. intros kv.
  destruct (has_prefix (stor_prefix x) (fst kv)) eqn:Hp; [|apply andb_false_r].
  rewrite andb_true_r. unfold survives_wipe.
  rewrite (stor_prefix_disjoint a x (fst kv) Ha Hx Hne Hp), (codehash_not_storage a x (fst kv) Hp). reflexivity.
Qed.

Lemma raw_get_filter P r k :
  (forall kv, In kv r -> bytes_eqb (fst kv) k = true -> P kv = true) -> raw_get (filter P r) k = raw_get r k.
Proof.
  induction r as [|[k' v] r IH]; intros H; cbn [filter raw_get]; [reflexivity|].
  destruct (bytes_eqb k' k) eqn:E.
  - rewrite (H (k', v) (or_introl eq_refl) E). cbn [raw_get]. rewrite E. reflexivity.
  - assert (IH' : raw_get (filter P r) k = raw_get r k) by (apply IH; intros kv Hin; apply H; right; exact Hin).
    destruct (P (k', v)); cbn [raw_get]; rewrite ?E; exact IH'.
Qed.

Lemma abs_code_wipe_same r a : wf_raw r = true -> abs_code (raw_wipe r a) a = 0.
Proof. intros Hw. unfold abs_code. destruct (raw_wipe_complete r a Hw) as [_ ->]. reflexivity. Qed.

Lemma codehash_key_inj a x : addr_ok a -> addr_ok x -> codehash_key a = codehash_key x -> a = x.
Proof.
  intros Ha Hx H. unfold codehash_key in H. apply (f_equal (@tl Z)) in H. cbn [tl] in H.
  eapply be_bytes_inj; [apply addr_ok_pow; exact Ha | apply addr_ok_pow; exact Hx | exact H].
Qed.

Lemma abs_code_wipe_other r a x :
  wf_raw r = true -> addr_ok a -> addr_ok x -> a <> x -> abs_code (raw_wipe r a) x = abs_code r x.
Proof.
  intros Hw Ha Hx Hne. unfold abs_code. rewrite (raw_wipe_spec r a Hw). rewrite raw_get_filter; [reflexivity|].
  intros kv _ E. apply bytes_eqb_eq in E. unfold survives_wipe. rewrite E.
  assert (E1 : has_prefix (stor_prefix a) (codehash_key x) = false) by reflexivity.
  assert (E2 : bytes_eqb (codehash_key x) (codehash_key a) = false).
  { apply not_true_is_false. intros H. apply bytes_eqb_eq in H. apply Hne. symmetry. apply codehash_key_inj; assumption. }
  rewrite E1, E2. reflexivity.
Qed.

(* DestroyAccount on the raw store (DeleteCodeHash + the ForEachStorage / SetState(nil) loop) implements
   [destroy] of the per-address model, for every address *)
Lemma raw_destroy_refines e r w a w' :
  wf_raw r = true -> represents r w -> addr_ok a -> destroy e w a = Ok w' -> represents (raw_wipe r a) w'.
Proof.
  intros Hw Hr Ha Hd x Hx. destruct (destroy_eff _ _ _ _ Hd) as (_ & _ & _ & Hcode & Hstor & _).
  rewrite Hcode, Hstor. destruct (Z.eq_dec x a) as [->|Hne].
  - rewrite !upd_same, abs_stor_wipe_same, abs_code_wipe_same by exact Hw. split; reflexivity.
  - rewrite !upd_other by exact Hne.
    rewrite abs_stor_wipe_other, abs_code_wipe_other by (try assumption; congruence). apply Hr. exact Hx.
Qed.

Lemma stor_get_all_none s : (forall k, stor_get s k = None) -> s = [].
Proof.
  destruct s as [|[k v] s]; [reflexivity|]. intros H. specialize (H k). cbn in H. rewrite Z.eqb_refl in H. discriminate.
Qed.

Lemma raw_get_some_in r k v : raw_get r k = Some v -> In (k, v) r.
Proof.
  induction r as [|[k' v'] r IH]; cbn [raw_get]; [discriminate|].
  destruct (bytes_eqb k' k) eqn:E; [|intros H; right; apply IH; exact H].
  intros H. injection H as ->. apply bytes_eqb_eq in E. subst. left. reflexivity.
Qed.

(* an address whose code and storage are empty in the per-address view has nothing at all in the raw store *)
Lemma gone_no_raw_trace r w a :
  wf_raw r = true -> represents r w -> addr_ok a -> w_stor w a = [] -> w_code w a = 0 -> raw_no_trace r a.
Proof.
  intros Hw Hr Ha Hs Hc. destruct (Hr a Ha) as [Hst Hco]. rewrite Hs in Hst. rewrite Hc in Hco. split.
  - assert (E : abs_stor r a = []) by (apply stor_get_all_none; intros k; rewrite Hst; reflexivity).
    unfold abs_stor in E. apply map_eq_nil in E.
    rewrite (iter_prefix_spec r _ Hw (stor_prefix_ok a)) in E. exact E.
  - unfold abs_code in Hco. destruct (raw_get r (codehash_key a)) as [v|] eqn:E; [|reflexivity]. exfalso.
    subst v. apply raw_get_some_in in E. pose proof (wf_raw_in r _ Hw E) as Hwe.
    unfold wf_entry, codehash_key in Hwe. cbn [fst snd] in Hwe. apply andb_true_iff in Hwe. destruct Hwe as [_ Hwe].
    change (PFX_CODEHASH =? PFX_STORAGE) with false in Hwe. rewrite Z.eqb_refl in Hwe.
    apply andb_true_iff in Hwe. destruct Hwe as [_ Hwe]. discriminate.
Qed.

(* the seeded iteration bound is not the prefix range: at an address ending in 0xff it visits nothing *)
Lemma nocarry_misses :
  let a := 255 in
  let r := [(stor_prefix a ++ be_bytes 32 1, 42)] in
  wf_raw r = true /\ filter (fun kv => has_prefix (stor_prefix a) (fst kv)) r = r /\
  iter_prefix r (stor_prefix a) = r /\ iter_nocarry r (stor_prefix a) = [].
Proof. vm_compute. auto. Qed.

(* deleted by a successful transaction (any interleaving of StateDB operations and foreign writes) => no key of the
   address is left in any raw store that the resulting world is a view of *)
Lemma xdestroy_complete_raw e w l w' b a r :
  run_xtx e w l = TxOk w' b -> present w a -> ~ present w' a ->
  wf_raw r = true -> represents r w' -> addr_ok a -> raw_no_trace r a.
Proof.
  intros H Hp Hn Hw Hr Ha. destruct (xdestroy_complete e w l w' b a H Hp Hn) as (_ & _ & Hc & Hs).
  eapply gone_no_raw_trace; eassumption.
Qed.
