(* Proofs about Model/Query.v: purity of uncommitted executions (any program), dependence on state and
   request only, prediction of the committed execution, and sufficiency of the gas estimate for an
   arbitrary executable (no monotonicity). *)
From Coq Require Import Lia ZifyN ZifyNat ZifyBool.
From Evm Require Import CacheStack Journal CacheStackProofs Query.
Open Scope N_scope.
Ltac Zify.zify_post_hook ::= Z.div_mod_to_equations.

(* ------------------------------------------------------------------ purity *)

Lemma exec_pure : forall R (p : prog R) s, commit_free p ->
  orig (fst (exec s p)) = orig s /\ orig_ev (fst (exec s p)) = orig_ev s /\ committed (fst (exec s p)) = committed s.
Proof.
  induction p as [r|k cont IH|cont IH|o cont IH]; intros s Hcf; cbn [exec].
  - auto.
  - inversion Hcf as [|? ? H| |]; subst. apply IH, H.
  - inversion Hcf as [| |? H|]; subst. apply IH, H.
  - inversion Hcf as [| | |? ? Ho H]; subst.
    destruct (step_orig s o Ho) as (A & B & C).
    destruct (step s o) as [s' r] eqn:E. cbn [fst] in A, B, C.
    destruct (IH r s' (H r)) as (A' & B' & C'). repeat split; congruence.
Qed.

Lemma query_pure : forall R (p : prog R) ctx ev, commit_free p -> ctx_after_no_commit ctx ev p = (ctx, ev).
Proof.
  intros R p ctx ev H. unfold ctx_after_no_commit.
  destruct (exec_pure R p (init ctx ev) H) as (A & B & _). rewrite A, B. reflexivity.
Qed.

(* states that differ only by an extensionally equal original store *)
Definition same_but_orig (a b : sdb) : Prop :=
  (forall k, orig a k = orig b k) /\ orig_ev a = orig_ev b /\ top a = top b /\ below a = below b /\
  cur a = cur b /\ committed a = committed b.

Lemma same_view : forall a b, same_but_orig a b -> forall k, view a k = view b k.
Proof.
  intros a b (H1 & _ & H3 & H4 & _) k. unfold view. rewrite H3, H4. apply view_layers_ext, H1.
Qed.

Lemma flush_ext : forall ls aov aev o1 o2 oev, (forall k, o1 k = o2 k) ->
  let '(r1, k1, e1) := flush ls aov aev o1 oev in
  let '(r2, k2, e2) := flush ls aov aev o2 oev in
  r1 = r2 /\ (forall k, k1 k = k2 k) /\ e1 = e2.
Proof.
  induction ls as [|l r IH]; intros aov aev o1 o2 oev H; cbn [flush].
  - repeat split. intros k. apply kv_over_ext, H.
  - specialize (IH (aov ++ l_ov l) (l_ev l ++ aev) o1 o2 oev H).
    destruct (flush r (aov ++ l_ov l) (l_ev l ++ aev) o1 oev) as [[r1 k1] e1].
    destruct (flush r (aov ++ l_ov l) (l_ev l ++ aev) o2 oev) as [[r2 k2] e2].
    destruct IH as (A & B & C). repeat split; auto. congruence.
Qed.

Lemma step_same : forall a b o, same_but_orig a b ->
  same_but_orig (fst (step a o)) (fst (step b o)) /\ snd (step a o) = snd (step b o).
Proof.
  intros a b o H. pose proof H as (H1 & H2 & H3 & H4 & H5 & H6).
  destruct o; cbn [step];
    try (rewrite H5; destruct (side_step (cur b) _); cbn [fst snd];
         [split; [|reflexivity]; unfold same_but_orig, set_cur; cbn; repeat split; auto|split; [exact H|reflexivity]]);
    try (cbn [fst snd]; split; [|reflexivity]; unfold same_but_orig, set_top_ov, set_top_ev; cbn;
         rewrite ?H3; repeat split; auto).
  - (* Snapshot *)
    unfold depth. rewrite H4, H5, H3. cbn [fst snd]. split; [|reflexivity].
    unfold same_but_orig; cbn. repeat split; auto.
  - (* RevertTo *)
    unfold depth. rewrite H3, H4.
    destruct (id <? 0)%Z; [split; [exact H|reflexivity]|].
    destruct (S (length (below b)) <=? Z.to_nat (id + 1))%nat; [split; [exact H|reflexivity]|].
    destruct (skipn _ (top b :: below b)) as [|l rest]; [split; [exact H|reflexivity]|].
    destruct (negb (l_id l =? id)%Z); [split; [exact H|reflexivity]|].
    cbn [fst snd]. split; [|reflexivity]. unfold same_but_orig; cbn. repeat split; auto.
  - (* Commit *)
    rewrite H6. destruct (committed b); [split; [exact H|reflexivity]|].
    rewrite H3, H4, H2.
    set (t := mkLayer _ _ _ _).
    pose proof (flush_ext (t :: below b) [] [] (orig a) (orig b) (orig_ev b) H1) as Hf.
    destruct (flush (t :: below b) [] [] (orig a) (orig_ev b)) as [[r1 k1] e1].
    destruct (flush (t :: below b) [] [] (orig b) (orig_ev b)) as [[r2 k2] e2].
    destruct Hf as (A & B & C). subst r2 e2.
    destruct r1 as [|t' b']; [split; [exact H|reflexivity]|].
    cbn [fst snd]. split; [|reflexivity]. unfold same_but_orig; cbn. repeat split; auto.
Qed.

Lemma exec_same : forall R (p : prog R) a b, same_but_orig a b ->
  same_but_orig (fst (exec a p)) (fst (exec b p)) /\ snd (exec a p) = snd (exec b p).
Proof.
  induction p as [r|k cont IH|cont IH|o cont IH]; intros a b H; cbn [exec].
  - auto.
  - rewrite (same_view a b H k). apply IH, H.
  - destruct H as (H1 & H2 & H3 & H4 & H5 & H6). rewrite H5. apply IH. repeat split; auto.
  - destruct (step_same a b o H) as [Hs Ho].
    destruct (step a o) as [a' ra]. destruct (step b o) as [b' rb]. cbn [fst snd] in Hs, Ho. subst rb.
    apply IH, Hs.
Qed.

(* the result of a query depends only on the committed state (extensionally) and the request *)
Lemma query_depends_only_on_state : forall R (p : prog R) c1 c2 ev,
  (forall k, c1 k = c2 k) -> run_no_commit c1 ev p = run_no_commit c2 ev p.
Proof.
  intros R p c1 c2 ev H. unfold run_no_commit. apply exec_same.
  unfold same_but_orig, init; cbn. repeat split; auto.
Qed.

(* eth_call before the block predicts the delivered execution of the same call on the same state:
   same result, and the committed store is the view the call ended with *)
Lemma call_predicts_deliver : forall R (p : prog R) ctx ev d, commit_free p ->
  snd (run_commit ctx ev p d) = run_no_commit ctx ev p /\
  forall k, fst (run_commit ctx ev p d) k = kv_over d (view (fst (exec (init ctx ev) p))) k.
Proof.
  intros R p ctx ev d Hcf. unfold run_commit, run_no_commit.
  destruct (exec_pure R p (init ctx ev) Hcf) as (_ & _ & Hc).
  destruct (exec (init ctx ev) p) as [s r] eqn:E. cbn [fst snd] in *.
  split; [reflexivity|]. intros k.
  destruct (commit_view s d) as (_ & _ & Ho & _); [rewrite Hc; reflexivity|]. apply Ho.
Qed.

Lemma trial_exec_pure : forall R (p : prog R) ctx ev rb, fst (trial_exec ctx ev rb p) = (ctx, ev).
Proof. reflexivity. Qed.

Lemma exec_of_stable : forall ctx ev (call : N -> prog exres) g, (forall g, commit_free (call g)) ->
  ctx_after_no_commit ctx ev (call g) = (ctx, ev).
Proof. intros. apply query_pure. auto. Qed.

(* ------------------------------------------------------------------ gas estimate *)

(* the repaired midpoint: no wrap-around for any uint64 bounds with lo + 1 < hi *)
Lemma mid64_eq : forall lo hi, lo + 1 < hi -> hi < U64 -> mid64 lo hi = lo + (hi - lo) / 2.
Proof.
  intros lo hi Hl Hh. unfold mid64.
  assert (E : (hi + U64 - lo) mod U64 = hi - lo).
  { replace (hi + U64 - lo) with ((hi - lo) + 1 * U64) by lia. rewrite N.mod_add by (unfold U64; lia).
    apply N.mod_small. lia. }
  rewrite E. apply N.mod_small. unfold U64 in *. lia.
Qed.

Lemma mid64_between : forall lo hi, lo + 1 < hi -> hi < U64 -> lo < mid64 lo hi < hi.
Proof. intros lo hi Hl Hh. rewrite mid64_eq by assumption. lia. Qed.

(* loop invariant: hi is the initial hi or a gas limit the executable succeeded with (for any midpoint rule) *)
Lemma bin_search_with_inv : forall mid fuel ex lo hi hi0 h,
  (hi = hi0 \/ ex hi = ExOk) -> bin_search_with mid fuel ex lo hi = BHi h -> h = hi0 \/ ex h = ExOk.
Proof.
  induction fuel as [|f IH]; intros ex lo hi hi0 h Hinv Hb; cbn [bin_search_with] in Hb; [discriminate|].
  destruct ((lo + 1) mod U64 <? hi).
  - set (m := mid lo hi) in *.
    destruct (ex m) eqn:E; try discriminate Hb;
      try (eapply IH; [|exact Hb]; exact Hinv).
    eapply IH; [|exact Hb]. right. exact E.
  - injection Hb as <-. exact Hinv.
Qed.

Lemma bin_search_inv : forall fuel ex lo hi hi0 h,
  (hi = hi0 \/ ex hi = ExOk) -> bin_search fuel ex lo hi = BHi h -> h = hi0 \/ ex h = ExOk.
Proof. intros fuel. apply (bin_search_with_inv mid64 fuel). Qed.

Lemma estimate_is_sufficient : forall ex gas_cap args_gas max_gas g,
  estimate_gas ex gas_cap args_gas max_gas = EstOk g -> ex g = ExOk.
Proof.
  intros ex gas_cap args_gas max_gas g H. unfold estimate_gas in H.
  destruct (gas_cap <? TxGas); [discriminate|].
  set (cap := est_hi gas_cap args_gas max_gas) in *.
  destruct (bin_search est_fuel ex (TxGas - 1) cap) as [| |hi] eqn:Eb; try discriminate.
  pose proof (bin_search_inv est_fuel ex (TxGas - 1) cap cap hi (or_introl eq_refl) Eb) as Hinv.
  destruct (hi =? cap) eqn:Ec.
  - destruct (ex hi) eqn:Ex; try discriminate. injection H as <-. exact Ex.
  - injection H as <-. apply N.eqb_neq in Ec. destruct Hinv as [Hi|Hi]; [contradiction|exact Hi].
Qed.

(* the model's fuel is enough for EVERY uint64 bounds: 65 iterations at most *)
Lemma bin_search_fuel : forall n fuel ex lo hi,
  lo + 1 < U64 -> hi < U64 -> hi - lo <= 2 ^ N.of_nat n -> (n < fuel)%nat -> bin_search fuel ex lo hi <> BFuel.
Proof.
  unfold bin_search.
  induction n as [|n IH]; intros fuel ex lo hi Hl Hw Hd Hf; (destruct fuel as [|f]; [lia|]); cbn [bin_search_with].
  - assert (E : ((lo + 1) mod U64 <? hi) = false).
    { apply N.ltb_ge. rewrite N.mod_small by exact Hl. cbn in Hd. lia. }
    rewrite E. discriminate.
  - destruct ((lo + 1) mod U64 <? hi) eqn:E; [|discriminate].
    apply N.ltb_lt in E. rewrite N.mod_small in E by exact Hl.
    pose proof (mid64_eq lo hi E Hw) as Em. set (m := mid64 lo hi) in *.
    assert (Hp : 2 ^ N.of_nat (S n) = 2 * 2 ^ N.of_nat n).
    { rewrite Nat2N.inj_succ, N.pow_succ_r'. reflexivity. }
    assert (Hm1 : lo < m) by lia.
    assert (Hm2 : m < hi) by lia.
    assert (Hd1 : m - lo <= 2 ^ N.of_nat n) by lia.
    assert (Hd2 : hi - m <= 2 ^ N.of_nat n) by lia.
    destruct (ex m); try discriminate; apply IH; try lia.
Qed.

Lemma pow2_64 : 2 ^ N.of_nat 64 = U64.
Proof. reflexivity. Qed.

(* never out of fuel, whatever the highest gas limit tried (any uint64): since 81e4910 the search terminates *)
Lemma estimate_never_out_of_fuel : forall ex gas_cap args_gas max_gas,
  est_hi gas_cap args_gas max_gas < U64 ->
  estimate_gas ex gas_cap args_gas max_gas <> EstFuel.
Proof.
  intros ex gas_cap args_gas max_gas Hw. unfold estimate_gas.
  destruct (gas_cap <? TxGas); [discriminate|].
  set (cap := est_hi gas_cap args_gas max_gas) in *.
  assert (Hl : TxGas - 1 + 1 < U64) by (vm_compute; reflexivity).
  pose proof (bin_search_fuel 64 est_fuel ex (TxGas - 1) cap Hl Hw) as Hf.
  destruct (bin_search est_fuel ex (TxGas - 1) cap) as [| |hi]; try discriminate.
  - exfalso. apply Hf; [rewrite pow2_64; unfold U64 in *; lia|unfold est_fuel; lia|reflexivity].
  - destruct (hi =? cap); [destruct (ex hi)|]; discriminate.
Qed.

(* for a monotone executable (fails below a threshold, succeeds from it on) the estimate is the threshold *)
Lemma bin_search_monotone : forall fuel ex lo hi T h,
  (forall g, ex g = if g <? T then ExOOG else ExOk) -> hi < U64 ->
  lo < T -> T <= hi -> bin_search fuel ex lo hi = BHi h -> h = T.
Proof.
  unfold bin_search.
  induction fuel as [|f IH]; intros ex lo hi T h Hex Hw Hlo Hhi Hb; cbn [bin_search_with] in Hb; [discriminate|].
  rewrite (N.mod_small (lo + 1)) in Hb by lia.
  destruct (lo + 1 <? hi) eqn:E.
  - apply N.ltb_lt in E. pose proof (mid64_eq lo hi E Hw) as Em. set (m := mid64 lo hi) in *.
    assert (Hm1 : lo < m) by lia.
    assert (Hm2 : m < hi) by lia.
    rewrite Hex in Hb. destruct (m <? T) eqn:Et.
    + apply N.ltb_lt in Et. eapply IH; [exact Hex| | | |exact Hb]; lia.
    + apply N.ltb_ge in Et. eapply IH; [exact Hex| | | |exact Hb]; lia.
  - apply N.ltb_ge in E. injection Hb as <-. lia.
Qed.

(* ------------------------------------------------------------------ completeness and range of the estimate *)

Lemma bin_search_le : forall fuel ex lo hi h,
  lo + 1 < U64 -> hi < U64 -> bin_search fuel ex lo hi = BHi h -> h <= hi /\ (lo < hi -> lo < h).
Proof.
  unfold bin_search.
  induction fuel as [|f IH]; intros ex lo hi h Hl Hw Hb; cbn [bin_search_with] in Hb; [discriminate|].
  rewrite (N.mod_small (lo + 1)) in Hb by exact Hl.
  destruct (lo + 1 <? hi) eqn:E.
  - apply N.ltb_lt in E. pose proof (mid64_eq lo hi E Hw) as Em. set (m := mid64 lo hi) in *.
    assert (Hm1 : lo < m) by lia.
    assert (Hm2 : m < hi) by lia.
    destruct (ex m); try discriminate Hb.
    + destruct (IH ex lo m h Hl ltac:(lia) Hb) as [A B]. split; [lia|intros _; apply B; exact Hm1].
    + destruct (IH ex m hi h ltac:(lia) Hw Hb) as [A B]. split; [exact A|intros _; specialize (B Hm2); lia].
    + destruct (IH ex m hi h ltac:(lia) Hw Hb) as [A B]. split; [exact A|intros _; specialize (B Hm2); lia].
    + destruct (IH ex m hi h ltac:(lia) Hw Hb) as [A B]. split; [exact A|intros _; specialize (B Hm2); lia].
    + destruct (IH ex m hi h ltac:(lia) Hw Hb) as [A B]. split; [exact A|intros _; specialize (B Hm2); lia].
  - injection Hb as <-. split; [lia|auto].
Qed.

Lemma bin_search_no_err : forall fuel ex lo hi, (forall g, ex g <> ExErr) -> bin_search fuel ex lo hi <> BErr.
Proof.
  unfold bin_search.
  induction fuel as [|f IH]; intros ex lo hi Hne; cbn [bin_search_with]; [discriminate|].
  destruct ((lo + 1) mod U64 <? hi); [|discriminate].
  set (m := mid64 lo hi).
  destruct (ex m) eqn:E; try (apply IH; exact Hne). exfalso. exact (Hne m E).
Qed.

(* no false "gas required exceeds allowance": if the call succeeds with the highest gas limit that may be
   tried and no probe hits a consensus error, an estimate is returned, and it lies in (20999, cap] *)
Lemma estimate_complete : forall ex gas_cap args_gas max_gas,
  TxGas <= gas_cap -> est_hi gas_cap args_gas max_gas < U64 ->
  (forall g, ex g <> ExErr) -> ex (est_hi gas_cap args_gas max_gas) = ExOk ->
  exists g, estimate_gas ex gas_cap args_gas max_gas = EstOk g /\ g <= est_hi gas_cap args_gas max_gas /\
            (TxGas <= est_hi gas_cap args_gas max_gas -> TxGas <= g).
Proof.
  intros ex gas_cap args_gas max_gas Hcap Hw Hne Hok. unfold estimate_gas.
  replace (gas_cap <? TxGas) with false by (symmetry; apply N.ltb_ge; exact Hcap).
  set (cap := est_hi gas_cap args_gas max_gas) in *.
  assert (Hl : TxGas - 1 + 1 < U64) by (vm_compute; reflexivity).
  pose proof (bin_search_fuel 64 est_fuel ex (TxGas - 1) cap Hl Hw) as Hf.
  pose proof (bin_search_no_err est_fuel ex (TxGas - 1) cap Hne) as He.
  destruct (bin_search est_fuel ex (TxGas - 1) cap) as [| |hi] eqn:Eb.
  - exfalso. apply Hf; [rewrite pow2_64; unfold U64 in *; lia|unfold est_fuel; lia|reflexivity].
  - exfalso. apply He. reflexivity.
  - destruct (bin_search_le est_fuel ex (TxGas - 1) cap hi Hl Hw Eb) as [A B].
    destruct (hi =? cap) eqn:Ec.
    + apply N.eqb_eq in Ec. subst hi. rewrite Hok. exists cap. repeat split; auto; lia.
    + exists hi. split; [reflexivity|]. split; [exact A|]. intros Hc. unfold TxGas in *. lia.
Qed.

(* the estimate never exceeds the highest gas limit that may be tried *)
Lemma estimate_le_cap : forall ex gas_cap args_gas max_gas g,
  est_hi gas_cap args_gas max_gas < U64 ->
  estimate_gas ex gas_cap args_gas max_gas = EstOk g -> g <= est_hi gas_cap args_gas max_gas.
Proof.
  intros ex gas_cap args_gas max_gas g Hw H. unfold estimate_gas in H.
  destruct (gas_cap <? TxGas); [discriminate|].
  set (cap := est_hi gas_cap args_gas max_gas) in *.
  assert (Hl : TxGas - 1 + 1 < U64) by (vm_compute; reflexivity).
  destruct (bin_search est_fuel ex (TxGas - 1) cap) as [| |hi] eqn:Eb; try discriminate.
  destruct (bin_search_le est_fuel ex (TxGas - 1) cap hi Hl Hw Eb) as [A _].
  destruct (hi =? cap); [destruct (ex hi); try discriminate|]; injection H as <-; exact A.
Qed.

(* the cap itself: never above the node's gas cap (when one is set), whatever the request asks for *)
Lemma est_hi_le_gas_cap : forall gas_cap args_gas max_gas, gas_cap <> 0 -> est_hi gas_cap args_gas max_gas <= gas_cap.
Proof.
  intros gas_cap args_gas max_gas Hz. unfold est_hi.
  apply N.eqb_neq in Hz. rewrite Hz. cbn [negb andb].
  match goal with |- (if ?c then _ else _) <= _ => destruct c eqn:E end; [lia|apply N.ltb_ge in E; exact E].
Qed.

(* ------------------------------------------------------------------ histories *)

Lemma run_hist_erase : forall R (h : list (hop R)) ctx, Forall hop_commit_free h ->
  h_state (run_hist ctx h) = h_state (run_hist ctx (filter is_deliver h)) /\
  h_delivered (run_hist ctx h) = h_delivered (run_hist ctx (filter is_deliver h)).
Proof.
  induction h as [|o r IH]; intros ctx Hcf; [split; reflexivity|].
  inversion Hcf as [|? ? Ho Hr]; subst.
  destruct o as [p|rb p|p d]; cbn [run_hist filter is_deliver].
  - cbn in Ho. rewrite (query_pure R p ctx [] Ho). cbn [fst h_state h_delivered]. apply IH, Hr.
  - rewrite (surjective_pairing (trial_exec ctx [] rb p)), trial_exec_pure. cbn [fst h_state h_delivered]. apply IH, Hr.
  - destruct (run_commit ctx [] p d) as [c' x]. cbn [h_state h_delivered].
    destruct (IH c' Hr) as [A B]. split; [exact A|rewrite B; reflexivity].
Qed.

Lemma run_hist_app : forall R (a b : list (hop R)) ctx,
  run_hist ctx (a ++ b) =
  let ra := run_hist ctx a in let rb := run_hist (h_state ra) b in
  mkHres (h_state rb) (h_answers ra ++ h_answers rb) (h_delivered ra ++ h_delivered rb).
Proof.
  induction a as [|o r IH]; intros b ctx; cbn [app run_hist].
  - cbn. destruct (run_hist ctx b); reflexivity.
  - destruct o as [p|rb p|p d].
    + rewrite IH. reflexivity.
    + destruct (trial_exec ctx [] rb p) as [c' x]. rewrite IH. reflexivity.
    + destruct (run_commit ctx [] p d) as [c' x]. rewrite IH. reflexivity.
Qed.

(* the answer of a query anywhere in a history is the function run_no_commit of (the state produced by the
   transactions delivered before it, the request) -- nothing any earlier query, trace, estimate or
   check-tx did can influence it *)
Lemma history_query_answer : forall R (pre post : list (hop R)) p ctx, Forall hop_commit_free pre ->
  nth_error (h_answers (run_hist ctx (pre ++ HQuery p :: post))) (length (h_answers (run_hist ctx pre))) =
  Some (run_no_commit (h_state (run_hist ctx (filter is_deliver pre))) [] p).
Proof.
  intros R pre post p ctx Hcf. rewrite run_hist_app. cbn zeta. cbn [h_answers run_hist].
  rewrite nth_error_app2 by lia. rewrite Nat.sub_diag. cbn [nth_error].
  destruct (run_hist_erase R pre ctx Hcf) as [A _]. rewrite A. reflexivity.
Qed.

(* a query immediately followed by the delivery of the same call: same result *)
Lemma history_predicts : forall R (pre post : list (hop R)) p d ctx, commit_free p ->
  let r := run_hist (h_state (run_hist ctx pre)) (HQuery p :: HDeliver p d :: post) in
  hd_error (h_answers r) = hd_error (h_delivered r).
Proof.
  intros R pre post p d ctx Hcf. cbn zeta. set (c := h_state (run_hist ctx pre)).
  cbn [run_hist]. rewrite (query_pure R p c [] Hcf). cbn [fst].
  destruct (call_predicts_deliver R p c [] d Hcf) as [A _].
  destruct (run_commit c [] p d) as [c' x]. cbn [snd] in A. cbn. rewrite A. reflexivity.
Qed.

(* ------------------------------------------------------------------ gas limit of a simulated call *)

Lemma call_gas_le_cap : forall gas_cap args_gas, gas_cap <> 0 -> call_gas gas_cap args_gas <= gas_cap.
Proof.
  intros gas_cap args_gas Hz. unfold call_gas. apply N.eqb_neq in Hz. rewrite Hz. cbn [negb andb].
  match goal with |- (if ?c then _ else _) <= _ => destruct c eqn:E end; [lia|apply N.ltb_ge in E; exact E].
Qed.

(* the premise "for the same gas limit" of the prediction clause can be met: below the node's cap a call is
   simulated with exactly the gas limit it asks for *)
Lemma call_gas_exact : forall gas_cap g, gas_cap = 0 \/ g <= gas_cap -> call_gas gas_cap (Some g) = g.
Proof.
  intros gas_cap g H. unfold call_gas. destruct (gas_cap =? 0) eqn:E; cbn [negb andb]; [reflexivity|].
  apply N.eqb_neq in E. destruct H as [H|H]; [contradiction|].
  replace (gas_cap <? g) with false by (symmetry; apply N.ltb_ge; exact H). reflexivity.
Qed.

(* ------------------------------------------------------------------ tracing predicts the block *)

Section TraceProofs.
  Context {St T R : Type}.
  Variable apply : St -> T -> option (St * R).
  Variable admitted : St -> T -> bool.
  Variable pre_fx : St -> T -> St.
  Variable post_fx : St -> T -> R -> St.
  Variable core_fx : St -> T -> St.
  (* "equal up to what the prediction clause excludes": the fee bookkeeping of the block (sender balance, fee
     collector, supply), which a trace does not reproduce *)
  Variable eqv : St -> St -> Prop.
  Hypothesis eqv_trans : forall a b c, eqv a b -> eqv b c -> eqv a c.
  Hypothesis pre_eqv : forall s t, eqv (pre_fx s t) s.
  Hypothesis post_eqv : forall s t r, eqv (post_fx s t r) s.
  (* the transactions read neither the block context nor the sender's balance: on states equal up to the fee
     bookkeeping the state transition refuses both or executes both with the same result *)
  Hypothesis apply_eqv : forall a b t, eqv a b ->
    match apply a t, apply b t with
    | Some (a', x), Some (b', y) => x = y /\ eqv a' b'
    | None, None => True
    | _, _ => False
    end.

  Definition pred_ok (s : St) (t : T) (o : @bout R) : Prop :=
    match o with
    | BkExec _ => True
    | BkCore => False
    | BkAnte => forall st, eqv s st -> apply st t = None
    end.

  (* every predecessor was executed by the block (EVM failures included), or refused by the ante handler for a
     reason the state transition refuses it for as well (nonce, creation / calls disabled, fee cap below base fee) *)
  Fixpoint preds_ok (s : St) (pre : list T) : Prop :=
    match pre with
    | [] => True
    | t :: r => pred_ok s t (snd (block_step apply admitted pre_fx post_fx core_fx s t)) /\
                preds_ok (fst (block_step apply admitted pre_fx post_fx core_fx s t)) r
    end.

  Lemma block_run_cons : forall s t r,
    block_run apply admitted pre_fx post_fx core_fx s (t :: r) =
    (fst (block_run apply admitted pre_fx post_fx core_fx (fst (block_step apply admitted pre_fx post_fx core_fx s t)) r),
     snd (block_step apply admitted pre_fx post_fx core_fx s t) ::
     snd (block_run apply admitted pre_fx post_fx core_fx (fst (block_step apply admitted pre_fx post_fx core_fx s t)) r)).
  Proof.
    intros s t r. cbn [block_run]. destruct (block_step apply admitted pre_fx post_fx core_fx s t) as [s1 o]. cbn [fst snd].
    destruct (block_run apply admitted pre_fx post_fx core_fx s1 r) as [s2 os]. reflexivity.
  Qed.

  Lemma exec_outcome : forall s st t r, eqv s st ->
    snd (block_step apply admitted pre_fx post_fx core_fx s t) = BkExec r ->
    exists st', apply st t = Some (st', r) /\ eqv (fst (block_step apply admitted pre_fx post_fx core_fx s t)) st'.
  Proof.
    intros s st t r He Ho. unfold block_step in *. destruct (admitted s t); [|discriminate Ho].
    assert (He' : eqv (pre_fx s t) st) by (eapply eqv_trans; [apply pre_eqv|exact He]).
    pose proof (apply_eqv (pre_fx s t) st t He') as Ha.
    destruct (apply (pre_fx s t) t) as [[s' x]|]; [|discriminate Ho].
    cbn [snd fst] in *. assert (x = r) by congruence. subst x.
    destruct (apply st t) as [[st' y]|]; [|contradiction]. destruct Ha as [Hy Hs]. subst y.
    exists st'. split; [reflexivity|]. eapply eqv_trans; [apply post_eqv|exact Hs].
  Qed.

  Lemma replay_tracks_block : forall pre s st, eqv s st -> preds_ok s pre ->
    eqv (fst (block_run apply admitted pre_fx post_fx core_fx s pre)) (replay apply st pre).
  Proof.
    induction pre as [|u pre IH]; intros s st He Hp; [exact He|].
    rewrite block_run_cons. cbn [fst replay]. cbn [preds_ok] in Hp. destruct Hp as [Hu Hr].
    destruct (snd (block_step apply admitted pre_fx post_fx core_fx s u)) as [| |x] eqn:Eo; cbn [pred_ok] in Hu.
    - assert (Es : fst (block_step apply admitted pre_fx post_fx core_fx s u) = s).
      { unfold block_step in *. destruct (admitted s u); [|reflexivity].
        destruct (apply (pre_fx s u) u) as [[? ?]|]; discriminate Eo. }
      rewrite Es in *. rewrite (Hu st He). apply IH; assumption.
    - contradiction.
    - destruct (exec_outcome s st u x He Eo) as [st' [Ha He']]. rewrite Ha. apply IH; assumption.
  Qed.

  (* TraceTx of transaction number |pre| of ANY block, given its real predecessors, answers what the block did:
     same result r (return data, logs, VM error, gas used are all part of r) *)
  Lemma trace_predicts_block : forall pre t post s st r, eqv s st -> preds_ok s pre ->
    nth_error (snd (block_run apply admitted pre_fx post_fx core_fx s (pre ++ t :: post))) (length pre) = Some (BkExec r) ->
    trace_tx apply st pre t = Some r.
  Proof.
    induction pre as [|u pre IH]; intros t post s st r He Hp Hn.
    - cbn [app length] in Hn. rewrite block_run_cons in Hn. cbn [snd nth_error] in Hn.
      assert (Ho : snd (block_step apply admitted pre_fx post_fx core_fx s t) = BkExec r) by congruence.
      destruct (exec_outcome s st t r He Ho) as [st' [Ha _]].
      unfold trace_tx. cbn [replay]. rewrite Ha. reflexivity.
    - cbn [app length] in Hn. rewrite block_run_cons in Hn. cbn [snd nth_error] in Hn.
      cbn [preds_ok] in Hp. destruct Hp as [Hu Hr].
      unfold trace_tx. cbn [replay].
      destruct (snd (block_step apply admitted pre_fx post_fx core_fx s u)) as [| |x] eqn:Eo; cbn [pred_ok] in Hu.
      + assert (Es : fst (block_step apply admitted pre_fx post_fx core_fx s u) = s).
        { unfold block_step in *. destruct (admitted s u); [|reflexivity].
          destruct (apply (pre_fx s u) u) as [[? ?]|]; discriminate Eo. }
        rewrite Es in *. rewrite (Hu st He). exact (IH t post s st r He Hr Hn).
      + contradiction.
      + destruct (exec_outcome s st u x He Eo) as [st' [Ha He']]. rewrite Ha.
        exact (IH t post _ st' r He' Hr Hn).
  Qed.

  (* TraceBlock answers, for transaction number i, what TraceTx with the first i transactions as predecessors answers *)
  Lemma trace_block_nth : forall txs s i t, nth_error txs i = Some t ->
    nth_error (trace_block apply s txs) i = Some (trace_tx apply s (firstn i txs) t).
  Proof.
    induction txs as [|u txs IH]; intros s i t Hn; [destruct i; discriminate Hn|].
    destruct i as [|i]; cbn [nth_error firstn] in *.
    - assert (u = t) by congruence. subst u. unfold trace_tx. cbn [trace_block replay].
      destruct (apply s t) as [[s' x]|]; reflexivity.
    - unfold trace_tx. cbn [trace_block replay].
      destruct (apply s u) as [[s' x]|]; cbn [nth_error]; rewrite (IH _ i t Hn); reflexivity.
  Qed.

  (* what a complete replay looks like: told what the block did with every predecessor, and keeping the effects of
     the ones the state transition refused (nonce consumed, fee charged), the trace answers what the block did --
     for ANY block, no condition on the predecessors *)
  Hypothesis core_eqv : forall a b t, eqv a b -> eqv (core_fx a t) (core_fx b t).

  Lemma trace_with_outcomes_predicts_block : forall pre t post s st r, eqv s st ->
    nth_error (snd (block_run apply admitted pre_fx post_fx core_fx s (pre ++ t :: post))) (length pre) = Some (BkExec r) ->
    trace_tx_with_outcomes apply core_fx st
      (combine pre (firstn (length pre) (snd (block_run apply admitted pre_fx post_fx core_fx s (pre ++ t :: post))))) t = Some r.
  Proof.
    induction pre as [|u pre IH]; intros t post s st r He Hn.
    - cbn [app length] in Hn. rewrite block_run_cons in Hn. cbn [snd nth_error] in Hn.
      assert (Ho : snd (block_step apply admitted pre_fx post_fx core_fx s t) = BkExec r) by congruence.
      destruct (exec_outcome s st t r He Ho) as [st' [Ha _]].
      unfold trace_tx_with_outcomes. cbn [length firstn combine replay_with_outcomes]. rewrite Ha. reflexivity.
    - cbn [app length] in *. rewrite block_run_cons in *. cbn [snd nth_error firstn combine] in *.
      unfold trace_tx_with_outcomes. cbn [replay_with_outcomes].
      destruct (snd (block_step apply admitted pre_fx post_fx core_fx s u)) as [| |x] eqn:Eo.
      + assert (Es : fst (block_step apply admitted pre_fx post_fx core_fx s u) = s).
        { unfold block_step in *. destruct (admitted s u); [|reflexivity].
          destruct (apply (pre_fx s u) u) as [[? ?]|]; discriminate Eo. }
        rewrite Es in *. exact (IH t post s st r He Hn).
      + assert (Es : fst (block_step apply admitted pre_fx post_fx core_fx s u) = core_fx s u).
        { unfold block_step in *. destruct (admitted s u); [|discriminate Eo].
          destruct (apply (pre_fx s u) u) as [[? ?]|]; [discriminate Eo|reflexivity]. }
        rewrite Es in *. exact (IH t post _ _ r (core_eqv _ _ u He) Hn).
      + destruct (exec_outcome s st u x He Eo) as [st' [Ha He']]. rewrite Ha.
        exact (IH t post _ st' r He' Hn).
  Qed.
End TraceProofs.

(* the full statement: no condition on what the block did with the predecessors *)
Definition trace_predicts_block_full : Prop :=
  forall (St T R : Type) (apply : St -> T -> option (St * R)) (admitted : St -> T -> bool)
         (pre_fx : St -> T -> St) (post_fx : St -> T -> R -> St) (core_fx : St -> T -> St) (eqv : St -> St -> Prop),
    (forall a b c, eqv a b -> eqv b c -> eqv a c) -> (forall s t, eqv (pre_fx s t) s) -> (forall s t r, eqv (post_fx s t r) s) ->
    (forall a b t, eqv a b -> match apply a t, apply b t with
                              | Some (a', x), Some (b', y) => x = y /\ eqv a' b'
                              | None, None => True
                              | _, _ => False
                              end) ->
    forall pre t post s st r, eqv s st ->
      nth_error (snd (block_run apply admitted pre_fx post_fx core_fx s (pre ++ t :: post))) (length pre) = Some (BkExec r) ->
      trace_tx apply st pre t = Some r.

(* witness: one sender (state = its nonce); transaction = (nonce, gas limit below the intrinsic gas?) *)
Definition toy_apply (s : N) (t : N * bool) : option (N * bool) :=
  if s =? fst t then (if snd t then None else Some (s + 1, false)) else None.
Definition toy_admitted (s : N) (t : N * bool) : bool := s =? fst t.

Lemma toy_apply_eq : forall (a b : N) (t : N * bool), a = b ->
  match toy_apply a t, toy_apply b t with
  | Some (a', x), Some (b', y) => x = y /\ a' = b'
  | None, None => True
  | _, _ => False
  end.
Proof. intros a b t E. subst b. destruct (toy_apply a t) as [[? ?]|]; [split; reflexivity|exact I]. Qed.

Lemma trace_predicts_block_refuted : ~ trace_predicts_block_full.
Proof.
  intros H.
  specialize (H N (N * bool)%type bool toy_apply toy_admitted (fun s _ => s) (fun s _ _ => s) (fun s _ => s + 1) eq).
  specialize (H (fun a b c E1 E2 => eq_trans E1 E2) (fun s t => eq_refl) (fun s t r => eq_refl) toy_apply_eq).
  specialize (H [(0, true)] (1, false) [] 0 0 false eq_refl).
  vm_compute in H. specialize (H eq_refl). discriminate H.
Qed.

(* the variant of TraceTx that also leaves out predecessors whose EVM execution failed does not even predict
   blocks in which every transaction was executed *)
Definition trace_dropping_failed_predicts_block : Prop :=
  forall (St T R : Type) (apply : St -> T -> option (St * R)) (vm_failed : R -> bool) (admitted : St -> T -> bool)
         (pre_fx : St -> T -> St) (post_fx : St -> T -> R -> St) (core_fx : St -> T -> St) (eqv : St -> St -> Prop),
    (forall a b c, eqv a b -> eqv b c -> eqv a c) -> (forall s t, eqv (pre_fx s t) s) -> (forall s t r, eqv (post_fx s t r) s) ->
    (forall a b t, eqv a b -> match apply a t, apply b t with
                              | Some (a', x), Some (b', y) => x = y /\ eqv a' b'
                              | None, None => True
                              | _, _ => False
                              end) ->
    forall pre t post s st r, eqv s st -> preds_ok apply admitted pre_fx post_fx core_fx eqv s pre ->
      nth_error (snd (block_run apply admitted pre_fx post_fx core_fx s (pre ++ t :: post))) (length pre) = Some (BkExec r) ->
      trace_tx_dropping_failed apply vm_failed st pre t = Some r.

(* transaction = (nonce, the call reverts?) ; result = reverted? *)
Definition toy2_apply (s : N) (t : N * bool) : option (N * bool) :=
  if s =? fst t then Some (s + 1, snd t) else None.

Lemma toy2_apply_eq : forall (a b : N) (t : N * bool), a = b ->
  match toy2_apply a t, toy2_apply b t with
  | Some (a', x), Some (b', y) => x = y /\ a' = b'
  | None, None => True
  | _, _ => False
  end.
Proof. intros a b t E. subst b. destruct (toy2_apply a t) as [[? ?]|]; [split; reflexivity|exact I]. Qed.

Lemma trace_dropping_failed_refuted : ~ trace_dropping_failed_predicts_block.
Proof.
  intros H.
  specialize (H N (N * bool)%type bool toy2_apply (fun x => x) toy_admitted (fun s _ => s) (fun s _ _ => s) (fun s _ => s + 1) eq).
  specialize (H (fun a b c E1 E2 => eq_trans E1 E2) (fun s t => eq_refl) (fun s t r => eq_refl) toy2_apply_eq).
  specialize (H [(0, true)] (1, false) [] 0 0 false eq_refl).
  assert (Hp : preds_ok toy2_apply toy_admitted (fun s _ => s) (fun s _ _ => s) (fun s _ => s + 1) eq 0 [(0, true)]).
  { vm_compute. split; exact I. }
  specialize (H Hp). vm_compute in H. specialize (H eq_refl). discriminate H.
Qed.

(* the nonce skeleton used by the correspondence check is an instance of the hypotheses *)
Lemma skel_apply_eq : forall (a b : nmap) (t : btx), a = b ->
  match skel_apply a t, skel_apply b t with
  | Some (a', x), Some (b', y) => x = y /\ a' = b'
  | None, None => True
  | _, _ => False
  end.
Proof. intros a b t E. subst b. destruct (skel_apply a t) as [[? ?]|]; [split; reflexivity|exact I]. Qed.

Lemma skel_trace_predicts_block : forall pre t post m r,
  preds_ok skel_apply skel_admitted (fun m _ => m) (fun m _ _ => m) (fun m t => nm_bump m (b_sender t)) eq m pre ->
  nth_error (snd (skel_block_run m (pre ++ t :: post))) (length pre) = Some (BkExec r) ->
  trace_tx skel_apply m pre t = Some r.
Proof.
  intros pre t post m r Hp Hn.
  exact (trace_predicts_block skel_apply skel_admitted (fun m _ => m) (fun m _ _ => m) (fun m t => nm_bump m (b_sender t)) eq
           (fun a b c E1 E2 => eq_trans E1 E2) (fun s t => eq_refl) (fun s t r => eq_refl) skel_apply_eq
           pre t post m m r eq_refl Hp Hn).
Qed.

(* ------------------------------------------------------------------ mempool admission and the check state *)

(* whatever the trial execution does, each admitted transaction leaves the sender's sequence in the check state exactly
   one higher and every other key as it was *)
Lemma checktx_admit_state : forall R (p : prog R) ctx k k',
  checktx_admit ctx k p k' = if k =? k' then Some (seq_of ctx k + 1) else ctx k'.
Proof.
  intros R p ctx k k'. unfold checktx_admit. rewrite trial_exec_pure. cbn [fst].
  unfold kv_over. cbn [ov_get]. destruct (k =? k') eqn:E.
  - reflexivity.
  - reflexivity.
Qed.

Lemma checktx_seqs_spec : forall R (p : prog R) m ctx k,
  checktx_seqs m ctx k p = map (fun i => seq_of ctx k + N.of_nat i) (seq 1 m).
Proof.
  induction m as [|m IH]; intros ctx k; [reflexivity|].
  cbn [checktx_seqs]. rewrite IH. cbn [seq map].
  assert (E : seq_of (checktx_admit ctx k p) k = seq_of ctx k + 1).
  { unfold seq_of at 1. rewrite checktx_admit_state. rewrite N.eqb_refl. reflexivity. }
  rewrite E. f_equal. rewrite <- (seq_shift m 1), map_map. apply map_ext. intros i. lia.
Qed.
