(* C19 — proofs about Model/HdPath.v: the derivation as coded in btcutil/hdkeychain is the fold of BIP-32 CKDpriv,
   derivation paths print/parse round trip, hardened-index arithmetic. *)
From Coq Require Import String.
From Coq Require Import List NArith ZArith Bool Lia PeanoNat.
From Evm Require Import SigWrap SigWrapProofs HdPath.
From Coq Require Import ZifyBool ZifyN ZifyNat.
Import ListNotations.
Open Scope N_scope.
Ltac Zify.zify_post_hook ::= Z.div_mod_to_equations.

Definition byte (x : N) : Prop := x < 256.

(* ------------------------------------------------------------------ big-endian serialisation *)

Lemma be_bytes_acc : forall n v acc, be_bytes n v acc = be_bytes n v [] ++ acc.
Proof.
  induction n as [|n IH]; intros v acc; [reflexivity|].
  cbn [be_bytes]. rewrite IH. rewrite (IH _ [_]). rewrite <- app_assoc. reflexivity.
Qed.

Lemma ser_be_S : forall n v, ser_be (S n) v = ser_be n (v / 256) ++ [v mod 256].
Proof.
  intros n v. unfold ser_be. cbn [be_bytes]. rewrite be_bytes_acc.
  rewrite N.shiftr_div_pow2. change (2 ^ 8) with 256.
  change 255 with (N.ones 8). rewrite N.land_ones. reflexivity.
Qed.

Lemma ser_be_0 : forall v, ser_be 0 v = [].
Proof. reflexivity. Qed.

Lemma ser_be_length : forall n v, length (ser_be n v) = n.
Proof.
  induction n as [|n IH]; intros v; [reflexivity|].
  rewrite ser_be_S, app_length, IH. cbn. lia.
Qed.

Lemma ser_be_bytes : forall n v, Forall byte (ser_be n v).
Proof.
  induction n as [|n IH]; intros v; [constructor|].
  rewrite ser_be_S. apply Forall_app. split; [apply IH|].
  constructor; [|constructor]. unfold byte. apply N.mod_lt. lia.
Qed.

Lemma ser_be_zero : forall n, ser_be n 0 = repeat 0 n.
Proof.
  induction n as [|n IH]; [reflexivity|].
  rewrite ser_be_S. change (0 / 256) with 0. change (0 mod 256) with 0. rewrite IH.
  cbn [repeat]. rewrite repeat_cons. reflexivity.
Qed.

Lemma parse_be_app : forall a b acc, parse_be (a ++ b) acc = parse_be b (parse_be a acc).
Proof. induction a as [|x a IH]; intros b acc; [reflexivity|]. cbn [app parse_be]. apply IH. Qed.

Lemma parse_ser : forall n v, v < 256 ^ N.of_nat n -> parse_be (ser_be n v) 0 = v.
Proof.
  induction n as [|n IH]; intros v Hv.
  - change (256 ^ N.of_nat 0) with 1 in Hv. cbn. lia.
  - rewrite ser_be_S, parse_be_app. cbn [parse_be]. rewrite IH.
    + rewrite (N.div_mod' v 256) at 3. lia.
    + rewrite Nat2N.inj_succ, N.pow_succ_r' in Hv. apply N.div_lt_upper_bound; [lia | exact Hv].
Qed.

(* a byte string no longer than n is its own tail in the n-byte serialisation of its value *)
Lemma ser_parse : forall l k, Forall byte l -> ser_be (length l + k) (parse_be l 0) = repeat 0 k ++ l.
Proof.
  intros l. induction l as [|x l IH] using rev_ind; intros k Hl.
  - cbn [length Nat.add parse_be]. rewrite ser_be_zero, app_nil_r. reflexivity.
  - apply Forall_app in Hl as [Hl Hx]. inversion Hx as [|? ? Hb _]; subst. unfold byte in Hb.
    rewrite parse_be_app. cbn [parse_be]. rewrite app_length. cbn [length].
    replace (length l + 1 + k)%nat with (S (length l + k)) by lia.
    rewrite ser_be_S.
    replace ((parse_be l 0 * 256 + x) / 256) with (parse_be l 0)
      by (apply N.div_unique with x; [exact Hb | lia]).
    replace ((parse_be l 0 * 256 + x) mod 256) with x
      by (apply N.mod_unique with (parse_be l 0); [exact Hb | lia]).
    rewrite IH by exact Hl. rewrite app_assoc. reflexivity.
Qed.

Lemma strip0_parse : forall l, parse_be (strip0 l) 0 = parse_be l 0.
Proof.
  induction l as [|x l IH]; [reflexivity|].
  destruct x as [|p]; [|reflexivity]. cbn [strip0 parse_be]. exact IH.
Qed.

Lemma strip0_length : forall l, (length (strip0 l) <= length l)%nat.
Proof.
  induction l as [|x l IH]; [cbn; lia|]. destruct x as [|p]; cbn [strip0 length]; lia.
Qed.

Lemma strip0_bytes : forall l, Forall byte l -> Forall byte (strip0 l).
Proof.
  induction l as [|x l IH]; intros H; [constructor|].
  destruct x as [|p]; [|exact H]. cbn [strip0]. apply IH. inversion H; assumption.
Qed.

Lemma Forall_firstn_ {A} (P : A -> Prop) : forall n l, Forall P l -> Forall P (firstn n l).
Proof.
  induction n as [|n IH]; intros l H; [constructor|]. destruct l as [|x l]; [constructor|].
  inversion H; subst. cbn [firstn]. constructor; [assumption | apply IH; assumption].
Qed.

Lemma CURVE_N_lt : CURVE_N < 256 ^ N.of_nat 32.
Proof. reflexivity. Qed.

(* ------------------------------------------------------------------ derivation = fold of CKDpriv *)

Section Bip32Proofs.
  Variable hmac512 : bytes -> bytes -> bytes.
  Variable point : bytes -> bytes.
  (* the HMAC returns bytes *)
  Hypothesis hmac_bytes : forall k d, Forall byte (hmac512 k d).

  Notation derive_child := (derive_child hmac512 point).
  Notation derive_path := (derive_path hmac512 point).
  Notation derive_seed := (derive_seed hmac512 point).
  Notation new_master := (new_master hmac512).
  Notation ckd_spec := (ckd_spec hmac512 point).
  Notation fold_ckd := (fold_ckd hmac512 point).
  Notation master_spec := (master_spec hmac512).
  Notation bip32_spec := (bip32_spec hmac512 point).

  (* the byte string hdkeychain keeps for a private key denotes the number k < n *)
  Definition key_ok (key : bytes) (k : N) : Prop :=
    Forall byte key /\ (length key <= 32)%nat /\ parse256 key = k /\ k < CURVE_N.

  Lemma key_ok_ser : forall key k, key_ok key k -> ser256 k = repeat 0 (32 - length key) ++ key.
  Proof.
    intros key k (Hb & Hl & Hp & _). unfold ser256, parse256 in *. subst k.
    replace 32%nat with (length key + (32 - length key))%nat at 1 by lia.
    apply ser_parse. exact Hb.
  Qed.

  (* hardened child: the 33 bytes hashed are 0x00 || ser256(k), also when the stored key is shorter than 32 bytes *)
  Lemma hardened_data : forall key k, key_ok key k -> repeat 0 (33 - length key) ++ key = 0 :: ser256 k.
  Proof.
    intros key k H. rewrite (key_ok_ser _ _ H). destruct H as (_ & Hl & _).
    replace (33 - length key)%nat with (S (32 - length key)) by lia. reflexivity.
  Qed.

  Lemma pub_of_key_spec : forall key k, key_ok key k -> pub_of_key point key = point (ser256 k).
  Proof.
    intros key k (_ & _ & Hp & Hk). unfold pub_of_key. rewrite Hp, N.mod_small by exact Hk. reflexivity.
  Qed.

  Lemma final_key_spec : forall xk k, key_ok (xk_key xk) k -> final_key xk = ser256 k.
  Proof.
    intros xk k (_ & _ & Hp & Hk). unfold final_key. rewrite Hp, N.mod_small by exact Hk. reflexivity.
  Qed.

  Lemma child_key_ok : forall v, v < CURVE_N -> key_ok (strip0 (ser256 v)) v.
  Proof.
    intros v Hv. unfold key_ok, ser256, parse256. repeat split.
    - apply strip0_bytes, ser_be_bytes.
    - pose proof (strip0_length (ser_be 32 v)) as H. rewrite ser_be_length in H. exact H.
    - rewrite strip0_parse. apply parse_ser. eapply N.lt_trans; [exact Hv | exact CURVE_N_lt].
    - exact Hv.
  Qed.

  (* one step: ExtendedKey.Derive is CKDpriv *)
  Lemma derive_child_spec : forall xk k i,
    key_ok (xk_key xk) k -> xk_depth xk <> 255 ->
    match ckd_spec (k, xk_chain xk) i with
    | None => derive_child xk i = HErrInvalidChild
    | Some (k', c') =>
      exists xk', derive_child xk i = HOk xk' /\ key_ok (xk_key xk') k' /\ xk_chain xk' = c' /\ xk_depth xk' = xk_depth xk + 1
    end.
  Proof.
    intros xk k i Hk Hd. unfold HdPath.derive_child, HdPath.ckd_spec.
    apply N.eqb_neq in Hd. rewrite Hd.
    rewrite (hardened_data _ _ Hk), (pub_of_key_spec _ _ Hk).
    set (data := (if HARD <=? i then 0 :: ser256 k else point (ser256 k)) ++ ser32 i).
    set (ilr := hmac512 (xk_chain xk) data).
    destruct (CURVE_N <=? parse256 (firstn 32 ilr)) eqn:E1; [reflexivity|].
    pose proof Hk as (_ & _ & Hp & Hlt). rewrite Hp.
    assert (CURVE_N <=? k = false) as -> by (apply N.leb_gt; exact Hlt).
    eexists. split; [reflexivity|]. cbn [xk_key xk_chain xk_depth]. repeat split.
    - apply strip0_bytes, ser_be_bytes.
    - pose proof (strip0_length (ser256 ((parse256 (firstn 32 ilr) + k) mod CURVE_N))) as H.
      unfold ser256 in H at 2. rewrite ser_be_length in H. exact H.
    - unfold parse256, ser256. rewrite strip0_parse. apply parse_ser.
      eapply N.lt_trans; [apply N.mod_lt; discriminate | exact CURVE_N_lt].
    - apply N.mod_lt. discriminate.
  Qed.

  (* the whole path *)
  Lemma derive_path_spec : forall p xk k,
    key_ok (xk_key xk) k -> (N.to_nat (xk_depth xk) + length p <= 255)%nat ->
    match fold_ckd (k, xk_chain xk) p with
    | None => derive_path xk p = HErrInvalidChild
    | Some (k', c') => exists xk', derive_path xk p = HOk xk' /\ key_ok (xk_key xk') k' /\ xk_chain xk' = c'
    end.
  Proof.
    induction p as [|i p IH]; intros xk k Hk Hd.
    - cbn [HdPath.fold_ckd HdPath.derive_path]. exists xk. repeat split; try reflexivity; apply Hk.
    - cbn [HdPath.fold_ckd HdPath.derive_path]. cbn [length] in Hd.
      assert (Hd1 : xk_depth xk <> 255) by lia.
      pose proof (derive_child_spec xk k i Hk Hd1) as H1.
      destruct (ckd_spec (k, xk_chain xk) i) as [[k1 c1]|].
      + destruct H1 as (xk1 & E1 & Hk1 & Hc1 & Hdep). rewrite E1.
        specialize (IH xk1 k1 Hk1). rewrite Hc1 in IH. apply IH. lia.
      + rewrite H1. reflexivity.
  Qed.

  Lemma new_master_spec : forall seed,
    (16 <= length seed <= 64)%nat ->
    match master_spec seed with
    | None => new_master seed = HErrUnusableSeed
    | Some (k, c) => exists xk, new_master seed = HOk xk /\ key_ok (xk_key xk) k /\ xk_chain xk = c /\ xk_depth xk = 0
    end.
  Proof.
    intros seed [H16 H64]. unfold HdPath.new_master, HdPath.master_spec.
    assert ((length seed <? 16)%nat = false) as -> by (apply Nat.ltb_ge; exact H16).
    assert ((64 <? length seed)%nat = false) as -> by (apply Nat.ltb_ge; exact H64).
    cbn [orb]. set (lr := hmac512 bitcoin_seed seed).
    rewrite (orb_comm (parse256 (firstn 32 lr) =? 0)).
    destruct ((CURVE_N <=? parse256 (firstn 32 lr)) || (parse256 (firstn 32 lr) =? 0)) eqn:E; [reflexivity|].
    apply orb_false_iff in E as [E1 E2]. apply N.leb_gt in E1.
    eexists. split; [reflexivity|]. cbn [xk_key xk_chain xk_depth]. repeat split.
    - apply Forall_firstn_. apply hmac_bytes.
    - apply firstn_le_length.
    - exact E1.
  Qed.

  Lemma new_master_seed_length : forall seed,
    ~ (16 <= length seed <= 64)%nat -> new_master seed = HErrSeedLen.
  Proof.
    intros seed H. unfold HdPath.new_master.
    destruct (length seed <? 16)%nat eqn:E1; [reflexivity|]. destruct (64 <? length seed)%nat eqn:E2; [reflexivity|].
    apply Nat.ltb_ge in E1, E2. exfalso. apply H. lia.
  Qed.

  (* Derive (from the seed) is the fold of CKDpriv over the path, with ser256 of the final key *)
  Theorem derive_is_fold_ckd : forall seed p,
    (16 <= length seed <= 64)%nat -> (length p <= 255)%nat ->
    derive_seed seed p =
    match master_spec seed with
    | None => HErrUnusableSeed
    | Some kc => match fold_ckd kc p with
                 | None => HErrInvalidChild
                 | Some kc' => HOk (ser256 (fst kc'))
                 end
    end.
  Proof.
    intros seed p Hs Hp. unfold HdPath.derive_seed.
    pose proof (new_master_spec seed Hs) as HM.
    destruct (master_spec seed) as [[k c]|]; [|rewrite HM; reflexivity].
    destruct HM as (xk & E & Hk & Hc & Hd). rewrite E.
    pose proof (derive_path_spec p xk k Hk) as HP. rewrite Hc, Hd in HP. specialize (HP Hp).
    destruct (fold_ckd (k, c) p) as [[k' c']|]; [|rewrite HP; reflexivity].
    destruct HP as (xk' & E' & Hk' & _). rewrite E'. rewrite (final_key_spec _ _ Hk'). reflexivity.
  Qed.

  Corollary derive_agrees_with_bip32 : forall seed p key,
    (16 <= length seed <= 64)%nat -> (length p <= 255)%nat ->
    (derive_seed seed p = HOk key <-> bip32_spec seed p = Some key).
  Proof.
    intros seed p key Hs Hp. rewrite (derive_is_fold_ckd seed p Hs Hp). unfold HdPath.bip32_spec.
    destruct (master_spec seed) as [kc|]; [|split; discriminate].
    destruct (fold_ckd kc p) as [kc'|]; cbn [option_map]; split; intros H; try discriminate; inversion H; reflexivity.
  Qed.

  (* BIP-32 also declares a child key of 0 invalid; hdkeychain does not test it (probability 2^-256): the
     specification function above mirrors the code, this lemma states what happens *)
  Lemma spec_zero_gap : forall kc i k' c', ckd_spec kc i = Some (k', c') -> k' < CURVE_N.
  Proof.
    intros [k c] i k' c' H. unfold HdPath.ckd_spec in H.
    destruct (CURVE_N <=? _); [discriminate|]. inversion H; subst. apply N.mod_lt. discriminate.
  Qed.
End Bip32Proofs.

(* the mnemonic entry point: path first, then the mnemonic, then the fold *)
Theorem derive_full : forall hmac512 point (bip39_seed : bytes -> bytes -> option bytes) mnemonic pass path p seed,
  parse_path path = POk p -> bip39_seed mnemonic pass = Some seed ->
  derive hmac512 point bip39_seed mnemonic pass path = derive_seed hmac512 point seed p.
Proof. intros hmac512 point bip39_seed mnemonic pass path p seed Hp Hs. unfold derive. rewrite Hp, Hs. reflexivity. Qed.

(* ------------------------------------------------------------------ derivation paths *)

Definition digit (c : N) : Prop := 48 <= c <= 57.

Lemma digit_cases : forall c, digit c ->
  c = 48 \/ c = 49 \/ c = 50 \/ c = 51 \/ c = 52 \/ c = 53 \/ c = 54 \/ c = 55 \/ c = 56 \/ c = 57.
Proof. unfold digit. intros c H. lia. Qed.

(* value of a digit string *)
Fixpoint dval (l : bytes) (acc : N) : N :=
  match l with [] => acc | c :: r => dval r (acc * 10 + (c - 48)) end.

Lemma dval_app : forall a b acc, dval (a ++ b) acc = dval b (dval a acc).
Proof. induction a as [|x a IH]; intros b acc; [reflexivity|]. cbn [app dval]. apply IH. Qed.

Lemma dec_digits_f_S : forall f n,
  dec_digits_f (S f) n = if n <? 10 then [48 + n] else dec_digits_f f (n / 10) ++ [48 + n mod 10].
Proof. reflexivity. Qed.

(* what DerivationPath.String prints for a number: its decimal digits, no leading zero *)
Definition dec_ok (l : bytes) (n : N) : Prop :=
  Forall digit l /\ dval l 0 = n /\ exists d r, l = d :: r /\ (n = 0 -> l = [48]) /\ (0 < n -> 49 <= d).

Lemma digit_single : forall c, digit c -> Forall digit [c].
Proof. intros c H. constructor; [exact H | constructor]. Qed.

Lemma dec_digits_f_ok : forall f n, n < 2 ^ N.of_nat f -> dec_ok (dec_digits_f (S f) n) n.
Proof.
  induction f as [|f IH]; intros n Hn.
  - change (2 ^ N.of_nat 0) with 1 in Hn. assert (n = 0) by lia. subst n.
    change (dec_digits_f 1 0) with [48]. unfold dec_ok. split; [|split].
    + apply digit_single. unfold digit. lia.
    + reflexivity.
    + exists 48, []. split; [reflexivity|]. split; [reflexivity | lia].
  - rewrite dec_digits_f_S. destruct (n <? 10) eqn:E.
    + apply N.ltb_lt in E. unfold dec_ok. split; [|split].
      * apply digit_single. unfold digit. lia.
      * cbn [dval]. lia.
      * exists (48 + n), []. split; [reflexivity|]. split; [intros ->; reflexivity | lia].
    + apply N.ltb_ge in E.
      assert (Hq : n / 10 < 2 ^ N.of_nat f).
      { rewrite Nat2N.inj_succ, N.pow_succ_r' in Hn. apply N.div_lt_upper_bound; lia. }
      destruct (IH _ Hq) as (HF & HV & d & r & HL & _ & HD).
      assert (Hq0 : 0 < n / 10) by (apply N.div_str_pos; lia).
      unfold dec_ok. split; [|split].
      * apply Forall_app. split; [exact HF|]. apply digit_single. unfold digit.
        assert (n mod 10 < 10) by (apply N.mod_lt; lia). lia.
      * rewrite dval_app, HV. cbn [dval]. rewrite (N.div_mod' n 10) at 3. lia.
      * exists d, (r ++ [48 + n mod 10]). rewrite HL. split; [reflexivity|]. split; [lia | intros _; apply HD; exact Hq0].
Qed.

Lemma dec_digits_ok : forall n, dec_ok (dec_digits n) n.
Proof.
  intros n. unfold dec_digits. apply dec_digits_f_ok. rewrite N2Nat.id. apply N.size_gt.
Qed.

Lemma digit_val_digit : forall c, digit c -> digit_val c = c - 48 /\ c - 48 < 10.
Proof.
  intros c H. destruct (digit_cases c H) as [->|[->|[->|[->|[->|[->|[->|[->|[->| ->]]]]]]]]]; split; reflexivity.
Qed.

Lemma digit_not_underscore : forall c, digit c -> c =? 95 = false.
Proof. unfold digit. intros c H. apply N.eqb_neq. lia. Qed.

Lemma scan_loop_digits : forall l prev inval count acc,
  Forall digit l -> l <> [] ->
  scan_loop 10 l prev inval count acc = Some (PDigit, inval, count + N.of_nat (length l), dval l acc).
Proof.
  induction l as [|c l IH]; intros prev inval count acc HF HN; [contradiction|].
  inversion HF as [|? ? Hc HF']; subst. cbn [scan_loop].
  rewrite (digit_not_underscore c Hc). destruct (digit_val_digit c Hc) as [-> Hlt].
  assert (10 <=? c - 48 = false) as -> by (apply N.leb_gt; exact Hlt).
  destruct l as [|c' l'].
  - reflexivity.
  - rewrite IH by (assumption || discriminate).
    replace (N.of_nat (length (c :: c' :: l'))) with (1 + N.of_nat (length (c' :: l'))) by (cbn [length]; lia).
    rewrite N.add_assoc. reflexivity.
Qed.

(* SetString(s, 0) of printed decimal digits is the number *)
Lemma set_string0_dec : forall n, set_string0 (dec_digits n) = Some (Z.of_N n).
Proof.
  intros n. destruct (dec_digits_ok n) as (HF & HV & d & r & HL & H0 & HD). rewrite HL in *.
  destruct (N.eq_dec n 0) as [->|NZ].
  - rewrite (H0 eq_refl) in *. inversion HL. reflexivity.
  - assert (Hd : 49 <= d) by (apply HD; lia).
    assert (Hc : digit d) by (inversion HF; assumption).
    assert (HS : scan_loop 10 (d :: r) PDot false 0 0 = Some (PDigit, false, 0 + N.of_nat (length (d :: r)), n))
      by (rewrite <- HV; apply scan_loop_digits; [exact HF | discriminate]).
    destruct (digit_cases d Hc) as [->|[->|[->|[->|[->|[->|[->|[->|[->| ->]]]]]]]]]; try lia;
      unfold set_string0, scan_mantissa; rewrite HS; reflexivity.
Qed.

(* ---------------------------------------------------------------- trimming *)

Lemma trim_left_nospace : forall a r, is_space a = false -> trim_left (a :: r) = a :: r.
Proof. intros a r H. cbn [trim_left]. rewrite H. reflexivity. Qed.

Lemma trim_nospace : forall s, Forall (fun c => is_space c = false) s -> trim s = s.
Proof.
  intros s H. unfold trim. destruct s as [|a r]; [reflexivity|].
  inversion H; subst. rewrite trim_left_nospace by assumption.
  apply Forall_rev in H. destruct (rev (a :: r)) as [|z m] eqn:E.
  - cbn [trim_left rev]. rewrite <- (rev_involutive (a :: r)), E. reflexivity.
  - inversion H; subst. rewrite trim_left_nospace by assumption. rewrite <- E. apply rev_involutive.
Qed.

Lemma digit_nospace : forall c, digit c -> is_space c = false.
Proof.
  unfold digit, is_space. intros c H. apply orb_false_iff. split; [apply N.eqb_neq; lia|].
  apply andb_false_iff. right. apply N.leb_gt. lia.
Qed.

Lemma quote_literal : forall z (m : bytes), (match z :: m with 39 :: _ => true | _ => false end) = (z =? 39).
Proof.
  intros z m. destruct z as [|p]; [reflexivity|].
  do 6 (try destruct p as [p|p|]); reflexivity.
Qed.

Lemma has_suffix_quote_spec : forall s, has_suffix_quote s = match rev s with z :: _ => z =? 39 | [] => false end.
Proof. intros s. unfold has_suffix_quote. destruct (rev s) as [|z m]; [reflexivity | exact (quote_literal z m)]. Qed.

Lemma has_suffix_quote_app : forall l, has_suffix_quote (l ++ [39]) = true.
Proof. intros l. rewrite has_suffix_quote_spec, rev_unit. reflexivity. Qed.

Lemma has_suffix_quote_digits : forall l, Forall digit l -> has_suffix_quote l = false.
Proof.
  intros l H. rewrite has_suffix_quote_spec. apply Forall_rev in H. destruct (rev l) as [|z m]; [reflexivity|].
  inversion H as [|? ? Hz _]; subst. unfold digit in Hz. apply N.eqb_neq. lia.
Qed.

(* ---------------------------------------------------------------- one component *)

Lemma print_component_soft : forall c, c < HARD -> print_component c = dec_digits c.
Proof. intros c H. unfold print_component. apply N.leb_gt in H. rewrite H. reflexivity. Qed.

Lemma print_component_hard : forall c, HARD <= c -> print_component c = dec_digits (c - HARD) ++ [39].
Proof. intros c H. unfold print_component. apply N.leb_le in H. rewrite H. reflexivity. Qed.

Theorem parse_print_component : forall c, c <= MAXU32 -> parse_component (print_component c) = Some c.
Proof.
  intros c Hc. unfold parse_component.
  destruct (N.lt_ge_cases c HARD) as [Hs|Hh].
  - rewrite print_component_soft by exact Hs.
    destruct (dec_digits_ok c) as (HF & _).
    assert (HNS : Forall (fun x => is_space x = false) (dec_digits c))
      by (eapply Forall_impl; [apply digit_nospace | exact HF]).
    rewrite trim_nospace by exact HNS. rewrite has_suffix_quote_digits by exact HF.
    rewrite set_string0_dec.
    assert ((Z.of_N c <? 0)%Z = false) as -> by (apply Z.ltb_ge; lia).
    assert ((Z.of_N (MAXU32 - 0) <? Z.of_N c)%Z = false) as -> by (apply Z.ltb_ge; lia).
    cbn [orb]. rewrite N2Z.id. reflexivity.
  - rewrite print_component_hard by exact Hh.
    destruct (dec_digits_ok (c - HARD)) as (HF & _).
    assert (HNS : Forall (fun x => is_space x = false) (dec_digits (c - HARD)))
      by (eapply Forall_impl; [apply digit_nospace | exact HF]).
    assert (HNS' : Forall (fun x => is_space x = false) (dec_digits (c - HARD) ++ [39]))
      by (apply Forall_app; split; [exact HNS | repeat constructor]).
    rewrite trim_nospace by exact HNS'. rewrite has_suffix_quote_app.
    unfold drop_last. rewrite removelast_last. rewrite trim_nospace by exact HNS.
    rewrite set_string0_dec.
    assert ((Z.of_N (c - HARD) <? 0)%Z = false) as -> by (apply Z.ltb_ge; lia).
    assert ((Z.of_N (MAXU32 - HARD) <? Z.of_N (c - HARD))%Z = false) as -> by (apply Z.ltb_ge; unfold MAXU32, HARD in *; lia).
    cbn [orb]. rewrite N2Z.id. f_equal. lia.
Qed.

(* hardened-index arithmetic of the parser: every component is a uint32; a quote adds 2^31 without overflow *)
Theorem parse_component_range : forall s v, parse_component s = Some v -> v <= MAXU32.
Proof.
  intros s v H. unfold parse_component in H.
  destruct (has_suffix_quote (trim s)).
  - destruct (set_string0 _) as [z|]; [|discriminate].
    destruct ((z <? 0)%Z || (Z.of_N (MAXU32 - HARD) <? z)%Z) eqn:E; [discriminate|].
    apply orb_false_iff in E as [E1 E2]. apply Z.ltb_ge in E1, E2.
    assert (Ev : v = HARD + Z.to_N z) by congruence. clear H. subst v.
    change (MAXU32 - HARD) with 2147483647 in E2. change MAXU32 with 4294967295. change HARD with 2147483648. lia.
  - destruct (set_string0 _) as [z|]; [|discriminate].
    destruct ((z <? 0)%Z || (Z.of_N (MAXU32 - 0) <? z)%Z) eqn:E; [discriminate|].
    apply orb_false_iff in E as [E1 E2]. apply Z.ltb_ge in E1, E2.
    assert (Ev : v = 0 + Z.to_N z) by congruence. clear H. subst v.
    change (MAXU32 - 0) with 4294967295 in E2. change MAXU32 with 4294967295. lia.
Qed.

Theorem parse_component_hardened : forall s v,
  has_suffix_quote (trim s) = true -> parse_component s = Some v -> HARD <= v.
Proof.
  intros s v Hq H. unfold parse_component in H. rewrite Hq in H.
  destruct (set_string0 _) as [z|]; [|discriminate].
  destruct ((z <? 0)%Z || _); [discriminate|].
  assert (Ev : v = HARD + Z.to_N z) by congruence. rewrite Ev. apply N.le_add_r.
Qed.

(* ---------------------------------------------------------------- whole paths *)

Lemma split_on_nosep : forall sep s, ~ In sep s -> split_on sep s = [s].
Proof.
  intros sep. induction s as [|c s IH]; intros H; [reflexivity|].
  cbn [split_on]. assert (c =? sep = false) as -> by (apply N.eqb_neq; intros ->; apply H; left; reflexivity).
  rewrite IH by (intros Hin; apply H; right; exact Hin). reflexivity.
Qed.

Lemma split_on_app_sep : forall sep s t, ~ In sep s -> split_on sep (s ++ sep :: t) = s :: split_on sep t.
Proof.
  intros sep. induction s as [|c s IH]; intros t H.
  - cbn [app split_on]. rewrite N.eqb_refl. reflexivity.
  - cbn [app split_on]. assert (c =? sep = false) as -> by (apply N.eqb_neq; intros ->; apply H; left; reflexivity).
    rewrite IH by (intros Hin; apply H; right; exact Hin). reflexivity.
Qed.

Lemma split_on_components : forall (pc : N -> bytes) p s,
  ~ In 47 s -> (forall c, ~ In 47 (pc c)) ->
  split_on 47 (s ++ flat_map (fun c => 47 :: pc c) p) = s :: map pc p.
Proof.
  intros pc. induction p as [|c p IH]; intros s Hs Hpc.
  - cbn [flat_map map]. rewrite app_nil_r. apply split_on_nosep. exact Hs.
  - cbn [flat_map map]. cbn [app]. rewrite split_on_app_sep by exact Hs. f_equal. apply IH; [apply Hpc | exact Hpc].
Qed.

Lemma dec_digits_chars : forall n c, In c (dec_digits n) -> digit c.
Proof. intros n c H. destruct (dec_digits_ok n) as (HF & _). rewrite Forall_forall in HF. apply HF. exact H. Qed.

Lemma print_component_chars : forall c x, In x (print_component c) -> digit x \/ x = 39.
Proof.
  intros c x H. unfold print_component in H. destruct (HARD <=? c).
  - apply in_app_or in H as [H|[<-|[]]]; [left; eapply dec_digits_chars; exact H | right; reflexivity].
  - left. eapply dec_digits_chars. exact H.
Qed.

Lemma print_path_chars : forall p x, In x (print_path p) -> x = 109 \/ x = 47 \/ digit x \/ x = 39.
Proof.
  intros p x H. unfold print_path in H. destruct H as [<-|H]; [left; reflexivity|]. right.
  apply in_flat_map in H as (c & _ & [<-|H]); [left; reflexivity | right; eapply print_component_chars; exact H].
Qed.

Lemma parse_components_print : forall p,
  Forall (fun c => c <= MAXU32) p -> parse_components (map print_component p) = Some p.
Proof.
  induction p as [|c p IH]; intros H; [reflexivity|]. inversion H; subst.
  cbn [map parse_components]. rewrite parse_print_component by assumption. rewrite IH by assumption. reflexivity.
Qed.

(* printing a path (DerivationPath.String) and parsing it again (ParseDerivationPath) gives the path back *)
Theorem path_roundtrip : forall p,
  p <> [] -> Forall (fun c => c <= MAXU32) p -> parse_path (print_path p) = POk p.
Proof.
  intros p HN HF. unfold parse_path.
  assert (existsb (fun c => 128 <=? c) (print_path p) = false) as ->.
  { apply not_true_is_false. intros E. apply existsb_exists in E as (x & Hin & Hx). apply N.leb_le in Hx.
    apply print_path_chars in Hin as [->|[->|[Hd| ->]]]; try (unfold digit in Hd); lia. }
  unfold print_path. change (109 :: flat_map (fun c => 47 :: print_component c) p)
    with ([109] ++ flat_map (fun c => 47 :: print_component c) p).
  rewrite split_on_components.
  - change (trim [109]) with [109]. change (beqb [109] [109]) with true. cbv iota beta.
    destruct p as [|c p]; [contradiction|].
    rewrite parse_components_print by exact HF. reflexivity.
  - intros [E|[]]. discriminate.
  - intros c Hin. apply print_component_chars in Hin as [Hd|E]; [unfold digit in Hd; lia | discriminate].
Qed.

(* every parsed path consists of uint32 components *)
Lemma parse_components_range : forall cs p, parse_components cs = Some p -> Forall (fun c => c <= MAXU32) p.
Proof.
  induction cs as [|c cs IH]; intros p H; cbn [parse_components] in H.
  - inversion H. constructor.
  - destruct (parse_component c) as [v|] eqn:E; [|discriminate].
    destruct (parse_components cs) as [vs|]; [|discriminate]. inversion H; subst.
    constructor; [eapply parse_component_range; exact E | apply IH; reflexivity].
Qed.

Theorem parse_path_range : forall s p, parse_path s = POk p -> Forall (fun c => c <= MAXU32) p /\ p <> [].
Proof.
  intros s p H. unfold parse_path in H.
  destruct (existsb _ s); [discriminate|].
  destruct (split_on 47 s) as [|c0 rest]; [discriminate|].
  destruct (trim c0) as [|t0 ts] eqn:ET; [discriminate|].
  destruct (beqb (t0 :: ts) [109]).
  - destruct rest as [|r1 rest']; [discriminate|].
    destruct (parse_components (r1 :: rest')) as [vs|] eqn:E; [|discriminate].
    inversion H; subst. split; [apply (parse_components_range _ _ E)|].
    cbn [parse_components] in E. destruct (parse_component r1); [|discriminate].
    destruct (parse_components rest'); [|discriminate]. inversion E. discriminate.
  - destruct (parse_components (c0 :: rest)) as [vs|] eqn:E; [|discriminate].
    assert (Ep : p = default_root ++ vs) by congruence. clear H. subst p. split.
    + apply Forall_app. split; [|apply (parse_components_range _ _ E)].
      unfold default_root, MAXU32, HARD. repeat (constructor; [lia|]). constructor.
    + unfold default_root. discriminate.
Qed.

(* a relative path is taken below m/44'/60'/0'/0 — the BIP-44 Ethereum root *)
Example default_root_is_bip44_eth : print_path default_root = bs "m/44'/60'/0'/0"%string.
Proof. vm_compute. reflexivity. Qed.

Example path_roundtrip_example :
  parse_path (bs "m/44'/60'/0'/0/7"%string) = POk [HARD + 44; HARD + 60; HARD; 0; 7] /\
  print_path [HARD + 44; HARD + 60; HARD; 0; 7] = bs "m/44'/60'/0'/0/7"%string /\
  parse_path (bs "7"%string) = POk [HARD + 44; HARD + 60; HARD; 0; 7] /\
  parse_path (bs "m/0x2c'/0b11/1_0"%string) = POk [HARD + 44; 3; 10] /\
  parse_path (bs "m/2147483648'"%string) = PErr.
Proof. vm_compute. repeat split. Qed.
