(* Proofs about Model/Erc20.v (C10). *)
From Evm Require Import Erc20.
From Coq Require Import Lia ZifyBool.
Open Scope Z_scope.

Lemma MAXU256_val : MAXU256 = 2 ^ 256 - 1. Proof. reflexivity. Qed.
Lemma u256_range w : 0 <= u256 w <= MAXU256.
Proof. unfold u256, MAXU256. pose proof (Z.mod_pos_bound w (2 ^ 256) ltac:(lia)). lia. Qed.
Lemma u256_id w : 0 <= w <= MAXU256 -> u256 w = w.
Proof. unfold u256, MAXU256. intros. apply Z.mod_small. lia. Qed.
Lemma addr_of_range w : 0 <= addr_of w < 2 ^ 160.
Proof. unfold addr_of. apply Z.mod_pos_bound. lia. Qed.
Lemma addr_of_id w : 0 <= w < 2 ^ 160 -> addr_of w = w.
Proof. unfold addr_of. intros. apply Z.mod_small. lia. Qed.

Global Opaque MAXU256 u256 addr_of.

(* ------------------------------------------------------------------ the state after a transfer, pointwise *)

(* balance of (a, d') after [amount] of denom [d] went from [from] to [to] (to = 0: destroyed) *)
Definition bal_after (s : state) (d from to amount a d' : Z) : Z :=
  bal s a d'
  + (if (d' =? d) && (a =? to) && negb (to =? 0) then amount else 0)
  - (if (d' =? d) && (a =? from) then amount else 0).

Definition supply_after (s : state) (d to amount d' : Z) : Z :=
  supply s d' - (if (d' =? d) && (to =? 0) then amount else 0).

Ltac split_ifs :=
  repeat match goal with
         | |- context [if ?c then _ else _] => let E := fresh "E" in destruct c eqn:E
         | H : context [if ?c then _ else _] |- _ => let E := fresh "E" in destruct c eqn:E
         end.

(* decide every integer equality test of the goal, then substitute and let lia finish *)
Ltac eqb_cases :=
  repeat match goal with
         | |- context [?a =? ?b] => destruct (Z.eqb_spec a b)
         end;
  subst; cbn [andb negb]; try lia; try congruence.

Lemma do_transfer_ok e s tok tm from to amount s' r logs :
  from <> 0 -> 0 <= amount ->
  do_transfer e s tok tm from to amount = (s', OOk r logs) ->
  r = RBool true /\ logs = [LTransfer tok from to amount] /\
  amount <= bal s from (tk_denom tm) /\
  (forall a d', bal s' a d' = bal_after s (tk_denom tm) from to amount a d') /\
  (forall d', supply s' d' = supply_after s (tk_denom tm) to amount d') /\
  allow s' = allow s /\ locked s' = locked s.
Proof.
  intros Hf Ha. unfold do_transfer.
  destruct (bal s from (tk_denom tm) <? amount) eqn:Eb; [discriminate|].
  destruct (negb (amount =? 0) && negb (from =? to)) eqn:Emove.
  - destruct (to =? 0) eqn:Eto.
    + (* burn *)
      unfold send_coins, sub_unlocked.
      destruct (bal s from (tk_denom tm) - locked s from (tk_denom tm) <? amount) eqn:E1; [discriminate|].
      unfold burn_coins, sub_unlocked, add_coins.
      match goal with |- context [if ?c then None else _] => destruct c eqn:E2 end; [discriminate|].
      intros H. inversion H; subst; clear H.
      repeat split; try reflexivity; try lia.
      * intros a d'. unfold bal_after. cbn [bal set_bal set_supply]. unfold upd2.
        assert (to = 0) by lia. subst to. clear - Hf. eqb_cases.
      * intros d'. unfold supply_after. cbn [supply set_supply set_bal]. unfold upd1.
        assert (to = 0) by lia. subst to. clear. eqb_cases.
    + unfold send_coins, sub_unlocked.
      destruct (bal s from (tk_denom tm) - locked s from (tk_denom tm) <? amount) eqn:E1; [discriminate|].
      unfold add_coins. intros H. inversion H; subst; clear H.
      repeat split; try reflexivity; try lia.
      * intros a d'. unfold bal_after. cbn [bal set_bal]. unfold upd2.
        assert (to <> 0) by lia. assert (from <> to) by lia. clear - H H0. eqb_cases.
      * intros d'. unfold supply_after. cbn [supply set_bal]. assert (to <> 0) by lia. clear - H. eqb_cases.
  - intros H. inversion H; subst; clear H.
    assert (amount = 0 \/ from = to) as Hc by lia.
    repeat split; try reflexivity; try lia.
    + intros a d'. unfold bal_after. clear - Hc Hf. destruct Hc; subst; eqb_cases.
    + intros d'. unfold supply_after. clear - Hc Hf. destruct Hc; subst; eqb_cases.
Qed.

(* ------------------------------------------------------------------ allowance spending *)

Lemma spend_allowance_ok s o sp amount s1 :
  spend_allowance s o sp amount = Some s1 ->
  bal s1 = bal s /\ supply s1 = supply s /\ locked s1 = locked s /\
  ((allow s o sp = MAXU256 /\ s1 = s) \/
   (allow s o sp <> MAXU256 /\ amount <= allow s o sp /\
    allow s1 = upd2 (allow s) o sp (allow s o sp - amount))).
Proof.
  unfold spend_allowance.
  destruct (allow s o sp =? MAXU256) eqn:Em.
  - intros H. inversion H; subst. repeat split; try reflexivity. left. split; [lia|reflexivity].
  - destruct (allow s o sp <? amount) eqn:El; [discriminate|].
    intros H. inversion H; subst. cbn [bal supply locked allow set_allow].
    repeat split; try reflexivity. right. repeat split; try lia.
Qed.

(* what a successful allowance check says, as a proposition on the states around the whole call *)
Definition allowance_rule (s s' : state) (owner spender amount : Z) : Prop :=
  (allow s owner spender = MAXU256 /\ allow s' = allow s) \/
  (allow s owner spender <> MAXU256 /\ amount <= allow s owner spender /\
   allow s' = upd2 (allow s) owner spender (allow s owner spender - amount)).

(* ------------------------------------------------------------------ one successful transfer-like method *)

Ltac easy_goal := solve [assumption | lia | reflexivity | congruence | intros; lia | intros; congruence | intros; assumption].

Lemma exec_move e s caller tok tm c from to amount s' r logs :
  moves caller c = Some (from, to, amount) ->
  exec_method e s caller tok tm c = (s', OOk r logs) ->
  from <> 0 /\ 0 <= amount <= MAXU256 /\
  r = RBool true /\ logs = [LTransfer tok from to amount] /\
  amount <= bal s from (tk_denom tm) /\
  (forall a d', bal s' a d' = bal_after s (tk_denom tm) from to amount a d') /\
  (forall d', supply s' d' = supply_after s (tk_denom tm) to amount d') /\
  locked s' = locked s /\
  (from = caller -> allow s' = allow s) /\
  (from <> caller -> allowance_rule s s' from caller amount).
Proof.
  intros Hm He.
  assert (Hdirect : forall from to amount,
             from <> 0 -> 0 <= amount <= MAXU256 -> from = caller ->
             do_transfer e s tok tm from to amount = (s', OOk r logs) ->
             from <> 0 /\ 0 <= amount <= MAXU256 /\
             r = RBool true /\ logs = [LTransfer tok from to amount] /\
             amount <= bal s from (tk_denom tm) /\
             (forall a d', bal s' a d' = bal_after s (tk_denom tm) from to amount a d') /\
             (forall d', supply s' d' = supply_after s (tk_denom tm) to amount d') /\
             locked s' = locked s /\
             (from = caller -> allow s' = allow s) /\
             (from <> caller -> allowance_rule s s' from caller amount)).
  { intros f t a Hf Ha Hc Hd. apply do_transfer_ok in Hd; [|lia|lia].
    destruct Hd as (-> & -> & Hb & Hbal & Hsup & Hal & Hlk).
    repeat apply conj; easy_goal. }
  assert (Hspend : forall from to amount,
             from <> 0 -> 0 <= amount <= MAXU256 -> from <> caller ->
             match spend_allowance s from caller amount with
             | None => (s, OErr)
             | Some s1 => do_transfer e s1 tok tm from to amount
             end = (s', OOk r logs) ->
             from <> 0 /\ 0 <= amount <= MAXU256 /\
             r = RBool true /\ logs = [LTransfer tok from to amount] /\
             amount <= bal s from (tk_denom tm) /\
             (forall a d', bal s' a d' = bal_after s (tk_denom tm) from to amount a d') /\
             (forall d', supply s' d' = supply_after s (tk_denom tm) to amount d') /\
             locked s' = locked s /\
             (from = caller -> allow s' = allow s) /\
             (from <> caller -> allowance_rule s s' from caller amount)).
  { intros f t a Hf Ha Hc Hd.
    destruct (spend_allowance s f caller a) as [s1|] eqn:Es; [|discriminate].
    apply spend_allowance_ok in Es. destruct Es as (Hb1 & Hs1 & Hl1 & Hrule).
    apply do_transfer_ok in Hd; [|lia|lia].
    destruct Hd as (-> & -> & Hb & Hbal & Hsup & Hal & Hlk).
    unfold bal_after, supply_after in *. rewrite Hb1 in Hb, Hbal. rewrite Hs1 in Hsup.
    repeat apply conj; try easy_goal.
    intros _. unfold allowance_rule. rewrite Hal.
    destruct Hrule as [[Hmx ->]|(Hn & Hle & Hup)]; [left|right]; repeat apply conj; try assumption; try reflexivity. }
  pose proof (u256_range) as Hr.
  destruct c; cbn [moves] in Hm; try discriminate; injection Hm as <- <- <-; cbn [exec_method] in He.
  - destruct (caller =? 0) eqn:E0; [discriminate|].
    destruct (addr_of wto =? 0) eqn:E1; [discriminate|].
    apply Hdirect; try easy_goal. apply Hr.
  - destruct (addr_of wfrom =? 0) eqn:E0; [discriminate|].
    destruct (addr_of wto =? 0) eqn:E1; [discriminate|].
    destruct (addr_of wfrom =? caller) eqn:Ec.
    + apply Hdirect; try easy_goal. apply Hr.
    + apply Hspend; try easy_goal. apply Hr.
  - destruct (caller =? 0) eqn:E0; [discriminate|].
    apply Hdirect; try easy_goal. apply Hr.
  - destruct (addr_of wfrom =? 0) eqn:E0; [discriminate|].
    destruct (addr_of wfrom =? caller) eqn:Ec.
    + apply Hdirect; try easy_goal. apply Hr.
    + apply Hspend; try easy_goal. apply Hr.
Qed.

(* the EVM frame returns the method's result when it succeeded and the ENTRY state otherwise *)
Lemma evm_call_ok e s caller tok c s' r logs :
  evm_call e s caller tok c = (s', OOk r logs) ->
  exists tm, e_token e tok = Some tm /\ exec_method e s caller tok tm c = (s', OOk r logs).
Proof.
  unfold evm_call. destruct (e_token e tok) as [tm|]; [|discriminate].
  destruct (exec_method e s caller tok tm c) as [s1 o] eqn:E. destruct o; intros H; inversion H; subst.
  exists tm. split; [reflexivity|assumption].
Qed.

Lemma evm_call_not_ok e s caller tok c s' o :
  evm_call e s caller tok c = (s', o) -> is_ok o = false -> s' = s.
Proof.
  unfold evm_call. destruct (e_token e tok) as [tm|]; [|intros H; inversion H; reflexivity].
  destruct (exec_method e s caller tok tm c) as [s1 o1]. destruct o1; intros H; inversion H; subst; cbn; intros; try reflexivity; discriminate.
Qed.

Lemma step_not_ok e s o s' x : step e s o = (s', x) -> is_ok x = false -> s' = s.
Proof.
  destruct o; cbn [step].
  - apply evm_call_not_ok.
  - unfold bank_send. destruct (amt <=? 0); [intros H; inversion H; reflexivity|].
    destruct (e_blocked e to); [intros H; inversion H; reflexivity|].
    destruct (send_coins s from to d amt); intros H; inversion H; subst; cbn; intros; [discriminate|reflexivity].
  - intros H; inversion H; subst. cbn. discriminate.
Qed.

(* ------------------------------------------------------------------ calls that move nothing *)

Lemma exec_nonmove e s caller tok tm c s' r logs :
  moves caller c = None ->
  exec_method e s caller tok tm c = (s', OOk r logs) ->
  bal s' = bal s /\ supply s' = supply s /\ locked s' = locked s /\
  match c with
  | Approve wsp wamt =>
      caller <> 0 /\ addr_of wsp <> 0 /\ r = RBool true /\
      logs = [LApproval tok caller (addr_of wsp) (u256 wamt)] /\
      allow s' = upd2 (allow s) caller (addr_of wsp) (u256 wamt)
  | _ => s' = s /\ logs = []
  end.
Proof.
  intros Hm He. destruct c; cbn [moves] in Hm; try discriminate; cbn [exec_method] in He;
    try (inversion He; subst; repeat apply conj; reflexivity).
  destruct (caller =? 0) eqn:E0; [discriminate|].
  destruct (addr_of wsp =? 0) eqn:E1; [discriminate|].
  inversion He; subst. cbn [bal supply locked allow set_allow]. repeat apply conj; try reflexivity; lia.
Qed.

(* ------------------------------------------------------------------ x/bank MsgSend *)

Lemma bank_send_ok e s from to d amt s' r logs :
  bank_send e s from to d amt = (s', OOk r logs) ->
  0 < amt /\ e_blocked e to = false /\ amt <= bal s from d - locked s from d /\
  r = RNone /\ logs = [] /\
  (forall a d', bal s' a d' = bal s a d' + (if (d' =? d) && (a =? to) then amt else 0)
                                       - (if (d' =? d) && (a =? from) then amt else 0)) /\
  supply s' = supply s /\ allow s' = allow s /\ locked s' = locked s.
Proof.
  unfold bank_send. destruct (amt <=? 0) eqn:E0; [discriminate|].
  destruct (e_blocked e to) eqn:Eb; [discriminate|].
  unfold send_coins, sub_unlocked. destruct (bal s from d - locked s from d <? amt) eqn:E1; [discriminate|].
  unfold add_coins. intros H. inversion H; subst; clear H.
  repeat apply conj; try reflexivity; try lia.
  intros a d'. cbn [bal set_bal]. unfold upd2. clear. eqb_cases.
Qed.

(* ------------------------------------------------------------------ sums over a finite list of holders *)

Lemma sumZ_add {A} (f g : A -> Z) l : sumZ (fun x => f x + g x) l = sumZ f l + sumZ g l.
Proof. induction l as [|x l IH]; cbn [sumZ fold_right]; [reflexivity|]. fold (sumZ (fun x => f x + g x) l) (sumZ f l) (sumZ g l). lia. Qed.

Lemma sumZ_sub {A} (f g : A -> Z) l : sumZ (fun x => f x - g x) l = sumZ f l - sumZ g l.
Proof. induction l as [|x l IH]; cbn [sumZ fold_right]; [reflexivity|]. fold (sumZ (fun x => f x - g x) l) (sumZ f l) (sumZ g l). lia. Qed.

Lemma sumZ_ext {A} (f g : A -> Z) l : (forall x, In x l -> f x = g x) -> sumZ f l = sumZ g l.
Proof.
  induction l as [|x l IH]; intros H; cbn [sumZ fold_right]; [reflexivity|].
  fold (sumZ f l) (sumZ g l). rewrite (H x (or_introl eq_refl)), IH; [reflexivity|]. intros y Hy. apply H. right. assumption.
Qed.

Lemma sumZ_nonneg {A} (f : A -> Z) l : (forall x, 0 <= f x) -> 0 <= sumZ f l.
Proof. intros H. induction l as [|x l IH]; cbn [sumZ fold_right]; [lia|]. fold (sumZ f l). specialize (H x). lia. Qed.

Lemma sumZ_app {A} (f : A -> Z) l1 l2 : sumZ f (l1 ++ l2) = sumZ f l1 + sumZ f l2.
Proof. induction l1 as [|x l IH]; cbn [sumZ fold_right app]; [reflexivity|]. fold (sumZ f (l ++ l2)) (sumZ f l). lia. Qed.

Lemma sumZ_point_notin (x c : Z) l : ~ In x l -> sumZ (fun a => if a =? x then c else 0) l = 0.
Proof.
  induction l as [|y l IH]; intros H; cbn [sumZ fold_right]; [reflexivity|].
  fold (sumZ (fun a => if a =? x then c else 0) l). rewrite IH by (intros Hin; apply H; right; assumption).
  destruct (Z.eqb_spec y x); [exfalso; apply H; left; assumption|lia].
Qed.

Lemma sumZ_point (x c : Z) l : NoDup l -> In x l -> sumZ (fun a => if a =? x then c else 0) l = c.
Proof.
  induction l as [|y l IH]; intros Hnd Hin; [contradiction|]. cbn [sumZ fold_right].
  fold (sumZ (fun a => if a =? x then c else 0) l). inversion Hnd; subst.
  destruct (Z.eqb_spec y x).
  - subst y. rewrite sumZ_point_notin by assumption. lia.
  - destruct Hin as [Hin|Hin]; [contradiction|]. rewrite IH by assumption. lia.
Qed.

Definition total (s : state) (d : Z) (L : list Z) : Z := sumZ (fun a => bal s a d) L.

(* sum over L after a pointwise "+c at x, -c' at y" change *)
Lemma total_shift (f g : Z -> Z) (L : list Z) (x y cx cy : Z) :
  NoDup L -> (cx <> 0 -> In x L) -> (cy <> 0 -> In y L) ->
  (forall a, g a = f a + (if a =? x then cx else 0) - (if a =? y then cy else 0)) ->
  sumZ g L = sumZ f L + cx - cy.
Proof.
  intros Hnd Hx Hy Hg.
  rewrite (sumZ_ext g (fun a => (f a + (if a =? x then cx else 0)) - (if a =? y then cy else 0))) by (intros; apply Hg).
  rewrite sumZ_sub, sumZ_add.
  assert (sumZ (fun a => if a =? x then cx else 0) L = cx) as ->.
  { destruct (Z.eq_dec cx 0) as [->|Hn].
    - clear. induction L as [|z L IH]; cbn [sumZ fold_right]; [reflexivity|].
      fold (sumZ (fun a : Z => if a =? x then 0 else 0) L). rewrite IH. destruct (z =? x); reflexivity.
    - apply sumZ_point; auto. }
  assert (sumZ (fun a => if a =? y then cy else 0) L = cy) as ->.
  { destruct (Z.eq_dec cy 0) as [->|Hn].
    - clear. induction L as [|z L IH]; cbn [sumZ fold_right]; [reflexivity|].
      fold (sumZ (fun a : Z => if a =? y then 0 else 0) L). rewrite IH. destruct (z =? y); reflexivity.
    - apply sumZ_point; auto. }
  reflexivity.
Qed.

(* ------------------------------------------------------------------ one step: conservation and supply *)

Lemma step_conservation e s o s' x L d :
  NoDup L -> incl (op_addrs o) L ->
  step e s o = (s', x) ->
  total s' d L - total s d L = supply s' d - supply s d - env_delta d (o, x) /\
  supply s' d = supply s d - burned_by e d (o, x) + env_delta d (o, x) /\
  0 <= burned_by e d (o, x) /\
  locked s' = locked s.
Proof.
  intros Hnd Hincl Hs.
  destruct (is_ok x) eqn:Eok.
  2:{ pose proof (step_not_ok _ _ _ _ _ Hs Eok) as ->.
      assert (burned_by e d (o, x) = 0) as ->.
      { destruct o; cbn [burned_by]; try reflexivity. destruct x; try reflexivity; discriminate. }
      assert (env_delta d (o, x) = 0) as ->.
      { destruct o; cbn [env_delta]; try reflexivity. cbn [step] in Hs. inversion Hs; subst. discriminate. }
      repeat apply conj; try reflexivity; lia. }
  destruct x as [r logs| |]; try discriminate. clear Eok.
  destruct o as [caller tok c|from to dd amt|dd delta]; cbn [step] in Hs.
  - (* ERC-20 call *)
    apply evm_call_ok in Hs. destruct Hs as (tm & Htok & He).
    cbn [env_delta burned_by]. unfold tok_denom. rewrite Htok.
    destruct (moves caller c) as [[[from to] amount]|] eqn:Hm.
    + pose proof (exec_move _ _ _ _ _ _ _ _ _ _ _ _ Hm He) as (Hf0 & Ha & _ & _ & Hle & Hbal & Hsup & Hlk & _ & _).
      assert (Hin_from : In from L).
      { apply Hincl. destruct c; cbn [moves] in Hm; try discriminate; injection Hm as <- <- <-; cbn [op_addrs]; auto with datatypes. }
      assert (Hin_to : to <> 0 -> In to L).
      { intros Hto. apply Hincl. destruct c; cbn [moves] in Hm; try discriminate; injection Hm as <- <- <-; cbn [op_addrs]; auto with datatypes; contradiction. }
      repeat apply conj; try assumption; try lia.
      * unfold total.
        rewrite (total_shift (fun a => bal s a d) (fun a => bal s' a d) L to from
                   (if (d =? tk_denom tm) && negb (to =? 0) then amount else 0)
                   (if (d =? tk_denom tm) then amount else 0)); try assumption.
        -- rewrite Hsup. unfold supply_after. clear. eqb_cases.
        -- intros Hne. apply Hin_to. clear - Hne. revert Hne. eqb_cases.
        -- intros _. assumption.
        -- intros a. rewrite Hbal. unfold bal_after. clear. eqb_cases.
      * rewrite Hsup. unfold supply_after. rewrite (Z.eqb_sym (tk_denom tm) d). clear. eqb_cases.
      * clear - Ha. eqb_cases.
    + pose proof (exec_nonmove _ _ _ _ _ _ _ _ _ Hm He) as (Hb & Hsu & Hlk & _).
      unfold total. rewrite Hb, Hsu. repeat apply conj; try assumption; lia.
  - (* MsgSend *)
    apply bank_send_ok in Hs. destruct Hs as (Hpos & _ & _ & _ & _ & Hbal & Hsu & _ & Hlk).
    cbn [env_delta burned_by]. rewrite Hsu.
    repeat apply conj; try assumption; try lia.
    unfold total.
    rewrite (total_shift (fun a => bal s a d) (fun a => bal s' a d) L to from
               (if (d =? dd) then amt else 0) (if (d =? dd) then amt else 0)); try assumption; try lia.
    + intros _. apply Hincl. cbn [op_addrs]. auto with datatypes.
    + intros _. apply Hincl. cbn [op_addrs]. auto with datatypes.
    + intros a. rewrite Hbal. clear. eqb_cases.
  - inversion Hs; subst. cbn [env_delta burned_by supply set_supply locked]. unfold total, upd1. cbn [bal set_supply].
    repeat apply conj; try reflexivity; try lia; clear; eqb_cases.
Qed.

(* ------------------------------------------------------------------ whole histories *)

Lemma run_trace_ops e ops : forall s s' tr, run e s ops = (s', tr) -> map fst tr = ops.
Proof.
  induction ops as [|o r IH]; intros s s' tr H; cbn [run] in H.
  - inversion H; reflexivity.
  - destruct (step e s o) as [s1 x]. destruct (run e s1 r) as [s2 t] eqn:Er. inversion H; subst.
    cbn [map fst]. f_equal. eapply IH. eassumption.
Qed.

Theorem supply_history e ops : forall s L d s' tr,
  NoDup L -> (forall o, In o ops -> incl (op_addrs o) L) ->
  run e s ops = (s', tr) ->
  total s' d L - total s d L = supply s' d - supply s d - sumZ (env_delta d) tr /\
  supply s' d = supply s d - sumZ (burned_by e d) tr + sumZ (env_delta d) tr /\
  0 <= sumZ (burned_by e d) tr /\
  locked s' = locked s.
Proof.
  induction ops as [|o r IH]; intros s L d s' tr Hnd Hin H; cbn [run] in H.
  - inversion H; subst. cbn [sumZ fold_right]. repeat apply conj; try reflexivity; lia.
  - destruct (step e s o) as [s1 x] eqn:Es. destruct (run e s1 r) as [s2 t] eqn:Er. inversion H; subst; clear H.
    pose proof (step_conservation e s o s1 x L d Hnd (Hin o (or_introl eq_refl)) Es) as (H1 & H2 & H3 & H4).
    pose proof (IH s1 L d s' t Hnd (fun o' Ho' => Hin o' (or_intror Ho')) Er) as (I1 & I2 & I3 & I4).
    cbn [sumZ fold_right]. fold (sumZ (env_delta d) t) (sumZ (burned_by e d) t).
    repeat apply conj; try lia. congruence.
Qed.

(* balances never go negative (needs: locked amounts are not negative) *)
Lemma step_nonneg e s o s' x :
  (forall a d, 0 <= locked s a d) -> (forall a d, 0 <= bal s a d) ->
  step e s o = (s', x) -> forall a d, 0 <= bal s' a d.
Proof.
  intros Hl Hb Hs.
  destruct (is_ok x) eqn:Eok.
  2:{ pose proof (step_not_ok _ _ _ _ _ Hs Eok) as ->. assumption. }
  destruct x as [r logs| |]; try discriminate. clear Eok.
  destruct o as [caller tok c|from to dd amt|dd delta]; cbn [step] in Hs.
  - apply evm_call_ok in Hs. destruct Hs as (tm & Htok & He).
    destruct (moves caller c) as [[[from to] amount]|] eqn:Hm.
    + pose proof (exec_move _ _ _ _ _ _ _ _ _ _ _ _ Hm He) as (Hf0 & Ha & _ & _ & Hle & Hbal & _).
      intros a d. rewrite Hbal. unfold bal_after. specialize (Hb a d). clear - Hb Ha Hle. eqb_cases.
    + pose proof (exec_nonmove _ _ _ _ _ _ _ _ _ Hm He) as (Hb' & _). rewrite Hb'. assumption.
  - apply bank_send_ok in Hs. destruct Hs as (Hpos & _ & Hle & _ & _ & Hbal & _).
    intros a d. rewrite Hbal. specialize (Hb a d). specialize (Hl from dd). clear - Hb Hl Hle Hpos. eqb_cases.
  - inversion Hs; subst. cbn [bal set_supply]. assumption.
Qed.

Theorem nonneg_history e ops : forall s s' tr,
  (forall a d, 0 <= locked s a d) -> (forall a d, 0 <= bal s a d) ->
  run e s ops = (s', tr) -> forall a d, 0 <= bal s' a d.
Proof.
  induction ops as [|o r IH]; intros s s' tr Hl Hb H; cbn [run] in H.
  - inversion H; subst. assumption.
  - destruct (step e s o) as [s1 x] eqn:Es. destruct (run e s1 r) as [s2 t] eqn:Er. inversion H; subst; clear H.
    assert (locked s1 = locked s) as Hlk.
    { clear - Es.
      destruct (is_ok x) eqn:Eok; [|rewrite (step_not_ok _ _ _ _ _ Es Eok); reflexivity].
      destruct x as [r logs| |]; try discriminate.
      destruct o as [caller tok c|from to dd amt|dd delta]; cbn [step] in Es.
      - apply evm_call_ok in Es. destruct Es as (tm & Htok & He).
        destruct (moves caller c) as [[[from to] amount]|] eqn:Hm.
        + pose proof (exec_move _ _ _ _ _ _ _ _ _ _ _ _ Hm He). tauto.
        + pose proof (exec_nonmove _ _ _ _ _ _ _ _ _ Hm He). tauto.
      - apply bank_send_ok in Es. tauto.
      - inversion Es; reflexivity. }
    eapply IH; [| |eassumption].
    + rewrite Hlk. assumption.
    + eapply step_nonneg; eassumption.
Qed.

(* ------------------------------------------------------------------ allowances over histories *)

Definition allT : Z -> bool := fun _ => true.

Definition allow_inv (s : state) (o sp : Z) : Prop := 0 <= allow s o sp < MAXU256.

Lemma step_allow e s p s' x o sp :
  o <> sp -> allow_inv s o sp -> not_unlimited_approve o sp p = true ->
  step e s p = (s', x) ->
  allow_inv s' o sp /\
  spent_by allT o sp (p, x) + allow s' o sp <= allow s o sp + approved_by allT o sp (p, x) /\
  0 <= spent_by allT o sp (p, x) /\ 0 <= approved_by allT o sp (p, x).
Proof.
  unfold allow_inv. intros Hne Hinv Hnu Hs.
  destruct (is_ok x) eqn:Eok.
  2:{ pose proof (step_not_ok _ _ _ _ _ Hs Eok) as ->.
      assert (spent_by allT o sp (p, x) = 0) as -> by (destruct p; try reflexivity; destruct x; try reflexivity; discriminate).
      assert (approved_by allT o sp (p, x) = 0) as ->.
      { destruct p as [? ? c| |]; try reflexivity. destruct c; try reflexivity. destruct x; try reflexivity; discriminate. }
      lia. }
  destruct x as [r logs| |]; try discriminate. clear Eok.
  destruct p as [caller tok c|from to dd amt|dd delta]; cbn [step] in Hs.
  - apply evm_call_ok in Hs. destruct Hs as (tm & Htok & He).
    destruct (moves caller c) as [[[from to] amount]|] eqn:Hm.
    + pose proof (exec_move _ _ _ _ _ _ _ _ _ _ _ _ Hm He) as (Hf0 & Ha & _ & _ & _ & _ & _ & _ & Hsame & Hrule).
      assert (Happ : approved_by allT o sp (Call caller tok c, OOk r logs) = 0).
      { destruct c; cbn [moves] in Hm; try discriminate; reflexivity. }
      rewrite Happ.
      assert (Hsp : spent_by allT o sp (Call caller tok c, OOk r logs) = 0 \/
                    (spent_by allT o sp (Call caller tok c, OOk r logs) = amount /\ caller = sp /\ from = o)).
      { destruct c; cbn [moves] in Hm; try discriminate; injection Hm as <- <- <-; cbn [spent_by]; unfold allT;
          rewrite ?andb_true_r; try (left; split_ifs; reflexivity).
        - destruct (caller =? sp) eqn:E1; [|left; reflexivity]. destruct (addr_of wfrom =? o) eqn:E2; [|left; reflexivity].
          right. repeat apply conj; try reflexivity; lia.
        - destruct (caller =? sp) eqn:E1; [|left; reflexivity]. destruct (addr_of wfrom =? o) eqn:E2; [|left; reflexivity].
          right. repeat apply conj; try reflexivity; lia. }
      destruct (Z.eq_dec from caller) as [Hfc|Hfc].
      * rewrite (Hsame Hfc). destruct Hsp as [->|(_ & -> & ->)]; [lia|contradiction].
      * destruct (Hrule Hfc) as [[Hmx Heq]|(Hnmx & Hle & Heq)]; rewrite Heq.
        -- destruct Hsp as [->|(_ & -> & ->)]; lia.
        -- unfold upd2. destruct Hsp as [->|(-> & -> & ->)].
           ++ destruct ((o =? from) && (sp =? caller)) eqn:Ek; [|lia].
              assert (o = from) by lia. assert (sp = caller) by lia. subst. lia.
           ++ rewrite !Z.eqb_refl. cbn [andb]. lia.
    + pose proof (exec_nonmove _ _ _ _ _ _ _ _ _ Hm He) as (_ & _ & _ & Hc).
      assert (Hsp0 : spent_by allT o sp (Call caller tok c, OOk r logs) = 0).
      { destruct c; cbn [moves] in Hm; try discriminate; cbn [spent_by]; split_ifs; reflexivity. }
      rewrite Hsp0.
      destruct c; cbn [moves] in Hm; try discriminate;
        try (destruct Hc as [-> _]; cbn [approved_by]; lia).
      destruct Hc as (Hc0 & Hs0 & _ & _ & Heq). rewrite Heq. cbn [approved_by]. unfold allT, upd2. rewrite andb_true_r.
      pose proof (u256_range wamt) as Hr. cbn [not_unlimited_approve] in Hnu.
      rewrite (Z.eqb_sym o caller), (Z.eqb_sym sp (addr_of wsp)).
      destruct ((caller =? o) && (addr_of wsp =? sp)) eqn:Ek; cbn [andb negb] in Hnu; lia.
  - apply bank_send_ok in Hs. destruct Hs as (_ & _ & _ & _ & _ & _ & _ & Hal & _).
    rewrite Hal. cbn [spent_by approved_by]. lia.
  - inversion Hs; subst. cbn [allow set_supply spent_by approved_by]. lia.
Qed.

(* over any history: what a spender moved or burned of an owner's coins (all tokens together) plus what is still
   allowed never exceeds the initial allowance plus what the owner approved (all tokens together) *)
Theorem allowance_history e o sp : o <> sp ->
  forall ops s s' tr,
  allow_inv s o sp -> forallb (not_unlimited_approve o sp) ops = true ->
  run e s ops = (s', tr) ->
  allow_inv s' o sp /\
  sumZ (spent_by allT o sp) tr + allow s' o sp <= allow s o sp + sumZ (approved_by allT o sp) tr /\
  0 <= sumZ (approved_by allT o sp) tr.
Proof.
  intros Hne. induction ops as [|p r IH]; intros s s' tr Hinv Hnu H; cbn [run] in H.
  - inversion H; subst. cbn [sumZ fold_right]. unfold allow_inv in *. lia.
  - destruct (step e s p) as [s1 x] eqn:Es. destruct (run e s1 r) as [s2 t] eqn:Er. inversion H; subst; clear H.
    cbn [forallb] in Hnu. apply andb_true_iff in Hnu. destruct Hnu as [Hnu1 Hnu2].
    pose proof (step_allow e s p s1 x o sp Hne Hinv Hnu1 Es) as (Hi1 & Hle1 & Hs1 & Ha1).
    pose proof (IH s1 s' t Hi1 Hnu2 Er) as (Hi2 & Hle2 & Ha2).
    cbn [sumZ fold_right]. fold (sumZ (spent_by allT o sp) t) (sumZ (approved_by allT o sp) t).
    unfold allow_inv in *. lia.
Qed.

(* with a single ERC-20 precompile the per-token reading coincides with the pooled one *)
Lemma single_token_filter e tok0 : (forall t, e_token e t <> None -> t = tok0) ->
  forall ops s s' tr o sp, run e s ops = (s', tr) ->
  sumZ (spent_by (Z.eqb tok0) o sp) tr = sumZ (spent_by allT o sp) tr /\
  sumZ (approved_by (Z.eqb tok0) o sp) tr = sumZ (approved_by allT o sp) tr.
Proof.
  intros Hone. induction ops as [|p r IH]; intros s s' tr o sp H; cbn [run] in H.
  - inversion H; subst. split; reflexivity.
  - destruct (step e s p) as [s1 x] eqn:Es. destruct (run e s1 r) as [s2 t] eqn:Er. inversion H; subst; clear H.
    destruct (IH s1 s' t o sp Er) as [I1 I2].
    cbn [sumZ fold_right].
    fold (sumZ (spent_by (Z.eqb tok0) o sp) t) (sumZ (spent_by allT o sp) t)
         (sumZ (approved_by (Z.eqb tok0) o sp) t) (sumZ (approved_by allT o sp) t).
    rewrite I1, I2.
    assert (Hx : spent_by (Z.eqb tok0) o sp (p, x) = spent_by allT o sp (p, x) /\
                 approved_by (Z.eqb tok0) o sp (p, x) = approved_by allT o sp (p, x)).
    { destruct p as [caller tok c| |]; try (split; reflexivity).
      destruct x as [rr ll| |]; try (split; destruct c; reflexivity).
      cbn [step] in Es. apply evm_call_ok in Es. destruct Es as (tm & Htok & _).
      assert (tok = tok0) as -> by (apply Hone; congruence).
      unfold spent_by, approved_by, allT. rewrite Z.eqb_refl. split; reflexivity. }
    destruct Hx as [-> ->]. split; reflexivity.
Qed.

(* the method body alone is NOT atomic: transferFrom with enough allowance but too small a balance returns an error
   after the allowance was already decremented; only the EVM frame's snapshot revert undoes that write *)
Definition ex_tm := {| tk_denom := 0; tk_name := 1; tk_symbol := 2; tk_decimals := 18 |}.
Definition ex_env := {| e_token := fun a => if a =? 1000 then Some ex_tm else None; e_blocked := fun _ => false; e_module := 77 |}.
Definition ex_state := {| bal := fun a _ => if a =? 5 then 10 else 0; locked := fun _ _ => 0; supply := fun _ => 10;
                          allow := fun o sp => if (o =? 5) && (sp =? 6) then 100 else 0 |}.
Lemma exec_leaves_partial_write :
  let '(s1, o1) := exec_method ex_env ex_state 6 1000 ex_tm (TransferFrom 5 7 50) in
  let '(s2, o2) := evm_call ex_env ex_state 6 1000 (TransferFrom 5 7 50) in
  o1 = OErr /\ allow s1 5 6 = 50 /\ o2 = OErr /\ allow s2 5 6 = 100.
Proof. vm_compute. repeat split; reflexivity. Qed.

(* ------------------------------------------------------------------ statements in the vocabulary of the property *)

Lemma views_exact e s caller tok tm :
  e_token e tok = Some tm ->
  (forall w, evm_call e s caller tok (BalanceOf w) = (s, OOk (RUint (bal s (addr_of w) (tk_denom tm))) [])) /\
  evm_call e s caller tok TotalSupply = (s, OOk (RUint (supply s (tk_denom tm))) []) /\
  (forall wo ws, evm_call e s caller tok (Allowance wo ws) = (s, OOk (RUint (allow s (addr_of wo) (addr_of ws))) [])) /\
  evm_call e s caller tok Name = (s, OOk (RStr (tk_name tm)) []) /\
  evm_call e s caller tok Symbol = (s, OOk (RStr (tk_symbol tm)) []) /\
  evm_call e s caller tok Decimals = (s, OOk (RUint (tk_decimals tm)) []).
Proof. intros H. unfold evm_call. rewrite H. cbn [exec_method]. repeat apply conj; reflexivity. Qed.

Lemma move_exact e s caller tok c s' r logs from to amount :
  moves caller c = Some (from, to, amount) ->
  evm_call e s caller tok c = (s', OOk r logs) ->
  exists tm, e_token e tok = Some tm /\
    r = RBool true /\ logs = [LTransfer tok from to amount] /\
    from <> 0 /\ 0 <= amount <= bal s from (tk_denom tm) /\
    (to <> 0 -> from <> to ->
       bal s' from (tk_denom tm) = bal s from (tk_denom tm) - amount /\
       bal s' to (tk_denom tm) = bal s to (tk_denom tm) + amount) /\
    (to <> 0 -> from = to -> bal s' from (tk_denom tm) = bal s from (tk_denom tm)) /\
    (to = 0 -> bal s' from (tk_denom tm) = bal s from (tk_denom tm) - amount) /\
    supply s' (tk_denom tm) = supply s (tk_denom tm) - (if to =? 0 then amount else 0) /\
    (forall a d', ~ (d' = tk_denom tm /\ (a = from \/ (a = to /\ to <> 0))) -> bal s' a d' = bal s a d') /\
    (forall d', d' <> tk_denom tm -> supply s' d' = supply s d') /\
    locked s' = locked s /\
    (forall o sp, ~ (o = from /\ sp = caller) -> allow s' o sp = allow s o sp).
Proof.
  intros Hm Hc. apply evm_call_ok in Hc. destruct Hc as (tm & Htok & He). exists tm. split; [assumption|].
  pose proof (exec_move _ _ _ _ _ _ _ _ _ _ _ _ Hm He) as (Hf0 & Ha & Hr & Hl & Hle & Hbal & Hsup & Hlk & Hsame & Hrule).
  repeat apply conj; try assumption; try lia.
  - intros Ht Hft. rewrite !Hbal. unfold bal_after. clear - Ht Hft. eqb_cases.
  - intros Ht Hft. rewrite !Hbal. unfold bal_after. clear - Ht Hft. eqb_cases.
  - intros Ht. rewrite !Hbal. unfold bal_after. clear - Ht Hf0. eqb_cases.
  - rewrite Hsup. unfold supply_after. clear. eqb_cases.
  - intros a d' Hn. rewrite Hbal. unfold bal_after. clear - Hn. eqb_cases; try (exfalso; apply Hn; auto).
  - intros d' Hn. rewrite Hsup. unfold supply_after. clear - Hn. eqb_cases.
  - intros o sp Hn. destruct (Z.eq_dec from caller) as [Hfc|Hfc].
    + rewrite (Hsame Hfc). reflexivity.
    + destruct (Hrule Hfc) as [[_ ->]|(_ & _ & ->)]; [reflexivity|].
      unfold upd2. clear - Hn. eqb_cases; try (exfalso; apply Hn; auto).
Qed.

Lemma approve_exact e s caller tok wsp wamt s' r logs :
  evm_call e s caller tok (Approve wsp wamt) = (s', OOk r logs) ->
  caller <> 0 /\ addr_of wsp <> 0 /\ r = RBool true /\
  logs = [LApproval tok caller (addr_of wsp) (u256 wamt)] /\
  allow s' caller (addr_of wsp) = u256 wamt /\
  (forall o sp, ~ (o = caller /\ sp = addr_of wsp) -> allow s' o sp = allow s o sp) /\
  bal s' = bal s /\ supply s' = supply s /\ locked s' = locked s.
Proof.
  intros Hc. apply evm_call_ok in Hc. destruct Hc as (tm & Htok & He).
  pose proof (exec_nonmove e s caller tok tm (Approve wsp wamt) s' r logs eq_refl He) as (Hb & Hs & Hl & H0 & H1 & Hr & Hlog & Hal).
  repeat apply conj; try assumption.
  - rewrite Hal. unfold upd2. rewrite !Z.eqb_refl. reflexivity.
  - intros o sp Hn. rewrite Hal. unfold upd2. clear - Hn. eqb_cases; try (exfalso; apply Hn; auto).
Qed.

(* the (owner, amount) of a call that spends somebody's coins on their behalf *)
Definition spends (c : call) : option (Z * Z) :=
  match c with
  | TransferFrom wfrom _ wamt => Some (addr_of wfrom, u256 wamt)
  | BurnFrom wfrom wamt => Some (addr_of wfrom, u256 wamt)
  | _ => None
  end.

Lemma allowance_law e s caller tok c s' r logs owner amount :
  spends c = Some (owner, amount) -> owner <> caller ->
  evm_call e s caller tok c = (s', OOk r logs) ->
  (allow s owner caller = MAXU256 /\ allow s' owner caller = MAXU256 \/
   allow s owner caller <> MAXU256 /\ amount <= allow s owner caller /\
   allow s' owner caller = allow s owner caller - amount) /\
  (forall o sp, ~ (o = owner /\ sp = caller) -> allow s' o sp = allow s o sp).
Proof.
  intros Hsp Hne Hc.
  assert (exists to, moves caller c = Some (owner, to, amount)) as [to Hm].
  { destruct c; cbn [spends] in Hsp; try discriminate; injection Hsp as <- <-; cbn [moves]; eexists; reflexivity. }
  destruct (move_exact _ _ _ _ _ _ _ _ _ _ _ Hm Hc) as (tm & _ & _ & _ & _ & _ & _ & _ & _ & _ & _ & _ & _ & Hframe).
  split; [|assumption].
  apply evm_call_ok in Hc. destruct Hc as (tm' & Htok & He).
  pose proof (exec_move _ _ _ _ _ _ _ _ _ _ _ _ Hm He) as (_ & _ & _ & _ & _ & _ & _ & _ & _ & Hrule).
  destruct (Hrule Hne) as [[Hmx Heq]|(Hnmx & Hle & Heq)]; [left|right]; rewrite Heq.
  - split; assumption.
  - repeat apply conj; try assumption. unfold upd2. rewrite !Z.eqb_refl. reflexivity.
Qed.

(* nobody but the holder loses coins, except through an allowance the call consumed *)
Lemma no_theft e s caller tok c s' x a d :
  evm_call e s caller tok c = (s', x) ->
  bal s' a d < bal s a d -> a <> caller ->
  exists to amount, moves caller c = Some (a, to, amount) /\ spends c = Some (a, amount) /\
    bal s a d - bal s' a d <= amount /\
    (allow s a caller = MAXU256 /\ allow s' a caller = MAXU256 \/
     allow s a caller <> MAXU256 /\ amount <= allow s a caller /\ allow s' a caller = allow s a caller - amount).
Proof.
  intros Hc Hlt Hne.
  destruct (is_ok x) eqn:Eok; [|rewrite (evm_call_not_ok _ _ _ _ _ _ _ Hc Eok) in Hlt; lia].
  destruct x as [r logs| |]; try discriminate.
  pose proof Hc as Hc0. apply evm_call_ok in Hc. destruct Hc as (tm & Htok & He).
  destruct (moves caller c) as [[[from to] amount]|] eqn:Hm.
  2:{ pose proof (exec_nonmove _ _ _ _ _ _ _ _ _ Hm He) as (Hb & _). rewrite Hb in Hlt. lia. }
  pose proof (exec_move _ _ _ _ _ _ _ _ _ _ _ _ Hm He) as (Hf0 & Ha & _ & _ & Hle & Hbal & _ & _ & _ & Hrule).
  assert (a = from /\ bal s a d - bal s' a d <= amount) as [-> Hamt].
  { rewrite Hbal in Hlt |- *. unfold bal_after in *. clear - Hlt Ha. revert Hlt. eqb_cases. }
  assert (Hsp : spends c = Some (from, amount)).
  { destruct c; cbn [moves] in Hm; try discriminate; injection Hm as <- <- <-; try contradiction; reflexivity. }
  exists to, amount. repeat apply conj; try assumption; try reflexivity.
  destruct (allowance_law _ _ _ _ _ _ _ _ _ _ Hsp Hne Hc0) as [H _]. exact H.
Qed.

(* ------------------------------------------------------------------ finding: the allowance is shared by all tokens *)

(* two ERC-20 precompiles (1000 -> denom 0, 2000 -> denom 1); holder 5 has 10 of each, nothing approved yet *)
Definition x_tmA := {| tk_denom := 0; tk_name := 1; tk_symbol := 2; tk_decimals := 18 |}.
Definition x_tmB := {| tk_denom := 1; tk_name := 3; tk_symbol := 4; tk_decimals := 6 |}.
Definition x_env := {| e_token := fun a => if a =? 1000 then Some x_tmA else if a =? 2000 then Some x_tmB else None;
                       e_blocked := fun _ => false; e_module := 77 |}.
Definition x_state := {| bal := fun a _ => if a =? 5 then 10 else 0; locked := fun _ _ => 0; supply := fun _ => 10;
                         allow := fun _ _ => 0 |}.
(* 5 approves 6 for 8 units of token A; 6 then takes 7 units of token B from 5 *)
Definition x_ops := [Call 5 1000 (Approve 6 8); Call 6 2000 (TransferFrom 5 6 7)].

Lemma cross_token_witness :
  let '(s', tr) := run x_env x_state x_ops in
  sumZ (spent_by (Z.eqb 2000) 5 6) tr = 7 /\ sumZ (approved_by (Z.eqb 2000) 5 6) tr = 0 /\
  bal s' 6 1 = 7 /\ bal s' 5 1 = 3 /\ allow s' 5 6 = 1.
Proof. vm_compute. repeat split; reflexivity. Qed.

Lemma single_token_history e tok0 o sp :
  (forall t, e_token e t <> None -> t = tok0) -> o <> sp ->
  forall ops s s' tr,
  0 <= allow s o sp < MAXU256 -> forallb (not_unlimited_approve o sp) ops = true ->
  run e s ops = (s', tr) ->
  sumZ (spent_by (Z.eqb tok0) o sp) tr <= allow s o sp + sumZ (approved_by (Z.eqb tok0) o sp) tr.
Proof.
  intros Hone Hne ops s s' tr Hinv Hnu Hrun.
  destruct (single_token_filter e tok0 Hone ops s s' tr o sp Hrun) as [-> ->].
  destruct (allowance_history e o sp Hne ops s s' tr Hinv Hnu Hrun) as (Hi & Hle & _).
  unfold allow_inv in Hi. lia.
Qed.

(* ------------------------------------------------------------------ contract call trees *)

Lemma ftree_ind' (P : ftree -> Prop) :
  (forall caller tok c, P (FLeaf caller tok c)) ->
  (forall keep kids, Forall P kids -> P (FNode keep kids)) ->
  forall t, P t.
Proof.
  intros Hl Hn. fix IH 1. intros [caller tok c|keep kids].
  - apply Hl.
  - apply Hn. induction kids as [|k r IHr]; constructor; [apply IH|apply IHr].
Qed.

Lemma exec_tree_node e keep kids s i :
  exec_tree e (FNode keep kids) s i =
  let '(s', lg, m, i') := exec_kids e kids s i in
  if keep then (s', lg, m, i') else (s, [], 0, i').
Proof. reflexivity. Qed.

Lemma exec_kids_cons e k r s i :
  exec_kids e (k :: r) s i =
  let '(s1, l1, m1, i1) := exec_tree e k s i in
  let '(s2, l2, m2, i2) := exec_kids e r s1 i1 in
  (s2, l1 ++ l2, m1 + m2, i2).
Proof. reflexivity. Qed.

Lemma survivors_node keep kids :
  survivors (FNode keep kids) = if keep then survivors_kids kids else [].
Proof. reflexivity. Qed.

Lemma survivors_kids_cons k r : survivors_kids (k :: r) = survivors k ++ survivors_kids r.
Proof. reflexivity. Qed.

Lemma run_app e a : forall b s,
  run e s (a ++ b) =
  let '(s1, t1) := run e s a in let '(s2, t2) := run e s1 b in (s2, t1 ++ t2).
Proof.
  induction a as [|o r IH]; intros b s; cbn [app run].
  - destruct (run e s b); reflexivity.
  - destruct (step e s o) as [s1 x]. rewrite IH.
    destruct (run e s1 r) as [s2 t]. destruct (run e s2 b) as [s3 t3]. reflexivity.
Qed.

Lemma ok_logs_app a b : ok_logs (a ++ b) = ok_logs a ++ ok_logs b.
Proof.
  induction a as [|[o x] r IH]; [reflexivity|]. cbn [app ok_logs].
  destruct x; rewrite IH; try reflexivity. apply app_assoc.
Qed.

(* a transaction's call tree amounts to the plain history of its surviving calls: same final state, same logs;
   everything below a frame that failed is as if it had never been executed *)
Definition tree_as_survivors (e : env) (t : ftree) : Prop := forall s i,
  let '(s', lg, _, _) := exec_tree e t s i in
  s' = fst (run e s (survivors t)) /\ lg = ok_logs (snd (run e s (survivors t))).

Lemma exec_tree_survivors e t : tree_as_survivors e t.
Proof.
  induction t as [caller tok c|keep kids IH] using ftree_ind'; intros s i.
  - cbn [exec_tree survivors run step].
    destruct (evm_call e s caller tok c) as [s' o] eqn:Ec. cbn [fst snd ok_logs].
    destruct o; cbn [fst snd ok_logs]; rewrite ?app_nil_r; split; reflexivity.
  - rewrite exec_tree_node, survivors_node.
    assert (Hk : forall s i, let '(s', lg, _, _) := exec_kids e kids s i in
                 s' = fst (run e s (survivors_kids kids)) /\ lg = ok_logs (snd (run e s (survivors_kids kids)))).
    { clear s i. induction IH as [|k r Hk Hr IHr]; intros s i.
      - cbn. split; reflexivity.
      - rewrite exec_kids_cons, survivors_kids_cons, run_app.
        specialize (Hk s i). destruct (exec_tree e k s i) as [[[s1 l1] m1] i1].
        destruct Hk as [Hs1 Hl1].
        specialize (IHr s1 i1). destruct (exec_kids e r s1 i1) as [[[s2 l2] m2] i2].
        destruct IHr as [Hs2 Hl2].
        destruct (run e s (survivors k)) as [sa ta]. cbn [fst snd] in Hs1, Hl1. subst sa.
        destruct (run e s1 (survivors_kids r)) as [sb tb]. cbn [fst snd] in Hs2, Hl2 |- *.
        rewrite ok_logs_app. subst. split; reflexivity. }
    specialize (Hk s i). destruct (exec_kids e kids s i) as [[[s' lg] m] i'].
    destruct keep; [exact Hk|]. cbn. split; reflexivity.
Qed.

(* a frame that fails leaves nothing, whatever ran below it *)
Lemma failed_frame_nothing e kids s i :
  exists i', exec_tree e (FNode false kids) s i = (s, [], 0, i').
Proof.
  rewrite exec_tree_node. destruct (exec_kids e kids s i) as [[[s' lg] m] i']. eexists; reflexivity.
Qed.

(* and a transaction whose top frame fails changes nothing at all *)
Lemma failed_tx_nothing e kids s : xstep e s (XTx (FNode false kids)) = (s, OErr).
Proof.
  cbn [xstep tree_keep]. destruct (failed_frame_nothing e kids s 0) as [i' ->]. reflexivity.
Qed.

Lemma xstep_tx_state e t s : fst (xstep e s (XTx t)) = fst (run e s (survivors t)).
Proof.
  cbn [xstep]. pose proof (exec_tree_survivors e t s 0) as H.
  destruct (exec_tree e t s 0) as [[[s' lg] m] i']. destruct H as [-> _].
  destruct (tree_keep t); reflexivity.
Qed.

Lemma xstep_tx_logs e t s s' r lg :
  xstep e s (XTx t) = (s', OOk r lg) -> lg = ok_logs (snd (run e s (survivors t))).
Proof.
  cbn [xstep]. pose proof (exec_tree_survivors e t s 0) as H.
  destruct (exec_tree e t s 0) as [[[s1 l1] m] i']. destruct H as [_ ->].
  destruct (tree_keep t); intros E; inversion E; reflexivity.
Qed.

(* histories with contract transactions end in the state of the flattened plain history *)
Theorem xrun_flatten e xs : forall s, fst (xrun e s xs) = fst (run e s (flatten xs)).
Proof.
  induction xs as [|x r IH]; intros s; [reflexivity|].
  cbn [xrun]. destruct (xstep e s x) as [s1 o] eqn:Ex.
  specialize (IH s1). destruct (xrun e s1 r) as [s2 t]. cbn [fst] in IH |- *.
  destruct x as [o0|t0]; cbn [flatten].
  - cbn [xstep] in Ex. cbn [run]. rewrite Ex. destruct (run e s1 (flatten r)) as [s3 t3]. exact IH.
  - rewrite run_app. pose proof (xstep_tx_state e t0 s) as Hs. rewrite Ex in Hs. cbn [fst] in Hs.
    destruct (run e s (survivors t0)) as [sa ta]. cbn [fst] in Hs. subst sa.
    destruct (run e s1 (flatten r)) as [sb tb]. exact IH.
Qed.

(* so every law of plain histories holds for histories with contract transactions, read on the flattened trace *)
Theorem supply_history_x e xs s L d s' xtr :
  NoDup L -> (forall o, In o (flatten xs) -> incl (op_addrs o) L) ->
  xrun e s xs = (s', xtr) ->
  let tr := snd (run e s (flatten xs)) in
  total s' d L - total s d L = supply s' d - supply s d - sumZ (env_delta d) tr /\
  supply s' d = supply s d - sumZ (burned_by e d) tr + sumZ (env_delta d) tr /\
  0 <= sumZ (burned_by e d) tr /\
  locked s' = locked s.
Proof.
  intros Hnd Hin Hx tr. pose proof (xrun_flatten e xs s) as Hf. rewrite Hx in Hf. cbn [fst] in Hf.
  subst tr. destruct (run e s (flatten xs)) as [s2 t] eqn:Er. cbn [fst snd] in *. subst s2.
  exact (supply_history e (flatten xs) s L d s' t Hnd Hin Er).
Qed.

Theorem allowance_history_x e o sp : o <> sp ->
  forall xs s s' xtr,
  0 <= allow s o sp < MAXU256 -> forallb (not_unlimited_approve o sp) (flatten xs) = true ->
  xrun e s xs = (s', xtr) ->
  let tr := snd (run e s (flatten xs)) in
  0 <= allow s' o sp < MAXU256 /\
  sumZ (spent_by allT o sp) tr + allow s' o sp <= allow s o sp + sumZ (approved_by allT o sp) tr.
Proof.
  intros Hne xs s s' xtr Hinv Hnu Hx tr. pose proof (xrun_flatten e xs s) as Hf. rewrite Hx in Hf. cbn [fst] in Hf.
  subst tr. destruct (run e s (flatten xs)) as [s2 t] eqn:Er. cbn [fst snd] in *. subst s2.
  destruct (allowance_history e o sp Hne (flatten xs) s s' t Hinv Hnu Er) as (H1 & H2 & _). split; assumption.
Qed.

Theorem nonneg_history_x e xs s s' xtr :
  (forall a d, 0 <= locked s a d) -> (forall a d, 0 <= bal s a d) ->
  xrun e s xs = (s', xtr) -> forall a d, 0 <= bal s' a d.
Proof.
  intros Hl Hb Hx. pose proof (xrun_flatten e xs s) as Hf. rewrite Hx in Hf. cbn [fst] in Hf.
  destruct (run e s (flatten xs)) as [s2 t] eqn:Er. cbn [fst] in Hf. subst s2.
  exact (nonneg_history e (flatten xs) s s' t Hl Hb Er).
Qed.

(* a failing xstep (plain operation, or a transaction whose top frame fails) changes nothing *)
Lemma xstep_not_ok e s x s' o : xstep e s x = (s', o) -> is_ok o = false -> s' = s.
Proof.
  destruct x as [p|t]; cbn [xstep].
  - apply step_not_ok.
  - destruct t as [caller tok c|[|] kids].
    + cbn [exec_tree tree_keep]. destruct (evm_call e s caller tok c) as [s1 [r lg| |]];
        intros E; inversion E; subst; discriminate.
    + rewrite exec_tree_node. destruct (exec_kids e kids s 0) as [[[s1 lg] m] i']. cbn [tree_keep].
      intros E; inversion E; subst; discriminate.
    + destruct (failed_frame_nothing e kids s 0) as [i' ->]. cbn [tree_keep]. intros E; inversion E; reflexivity.
Qed.

(* witness: the owner's coins survive a spender's transferFrom made in a frame that fails, the allowance too; the same
   call in a frame that completes moves them; the mask names exactly the surviving successful leaves *)
Definition x_tree : ftree :=
  FNode true [FLeaf 5 1000 (Approve 6 8);
              FNode false [FLeaf 6 1000 (TransferFrom 5 9 7); FNode true [FLeaf 6 1000 (TransferFrom 5 9 1)]];
              FLeaf 6 1000 (TransferFrom 5 9 3);
              FLeaf 6 1000 (TransferFrom 5 9 6)].

Lemma x_tree_witness :
  let '(s', o) := xstep x_env x_state (XTx x_tree) in
  o = OOk (RUint (1 + 8)) [LApproval 1000 5 6 8; LTransfer 1000 5 9 3] /\
  bal s' 5 0 = 7 /\ bal s' 9 0 = 3 /\ allow s' 5 6 = 5 /\
  survivors x_tree = [Call 5 1000 (Approve 6 8); Call 6 1000 (TransferFrom 5 9 3); Call 6 1000 (TransferFrom 5 9 6)].
Proof. vm_compute. repeat split; reflexivity. Qed.

(* ------------------------------------------------------------------ liveness *)

(* liveness: what the ledger allows does succeed *)
Definition can_spend (s : state) (owner caller amount : Z) : Prop :=
  owner = caller \/ allow s owner caller = MAXU256 \/ amount <= allow s owner caller.

Lemma do_transfer_succeeds e s tok tm from to amount :
  to <> 0 -> 0 <= locked s from (tk_denom tm) -> amount <= bal s from (tk_denom tm) - locked s from (tk_denom tm) ->
  exists s', do_transfer e s tok tm from to amount = (s', OOk (RBool true) [LTransfer tok from to amount]).
Proof.
  intros Hto Hl Ha. unfold do_transfer.
  destruct (bal s from (tk_denom tm) <? amount) eqn:E1; [lia|].
  destruct (negb (amount =? 0) && negb (from =? to)) eqn:E2; [|eexists; reflexivity].
  destruct (to =? 0) eqn:E3; [lia|].
  unfold send_coins, sub_unlocked.
  destruct (bal s from (tk_denom tm) - locked s from (tk_denom tm) <? amount) eqn:E4; [lia|].
  eexists; reflexivity.
Qed.

Lemma valid_call_succeeds e s caller tok tm :
  e_token e tok = Some tm -> caller <> 0 ->
  (forall wsp wamt, addr_of wsp <> 0 ->
     exists s', evm_call e s caller tok (Approve wsp wamt) =
                (s', OOk (RBool true) [LApproval tok caller (addr_of wsp) (u256 wamt)])) /\
  (forall wto wamt, addr_of wto <> 0 -> 0 <= locked s caller (tk_denom tm) ->
     u256 wamt <= bal s caller (tk_denom tm) - locked s caller (tk_denom tm) ->
     exists s', evm_call e s caller tok (Transfer wto wamt) =
                (s', OOk (RBool true) [LTransfer tok caller (addr_of wto) (u256 wamt)])) /\
  (forall wfrom wto wamt, addr_of wfrom <> 0 -> addr_of wto <> 0 -> 0 <= locked s (addr_of wfrom) (tk_denom tm) ->
     u256 wamt <= bal s (addr_of wfrom) (tk_denom tm) - locked s (addr_of wfrom) (tk_denom tm) ->
     can_spend s (addr_of wfrom) caller (u256 wamt) ->
     exists s', evm_call e s caller tok (TransferFrom wfrom wto wamt) =
                (s', OOk (RBool true) [LTransfer tok (addr_of wfrom) (addr_of wto) (u256 wamt)])).
Proof.
  intros Htok Hc. unfold evm_call. rewrite Htok. split; [|split].
  - intros wsp wamt Hsp. cbn [exec_method].
    destruct (caller =? 0) eqn:E1; [lia|]. destruct (addr_of wsp =? 0) eqn:E2; [lia|]. eexists; reflexivity.
  - intros wto wamt Hto Hl Ha. cbn [exec_method].
    destruct (caller =? 0) eqn:E1; [lia|]. destruct (addr_of wto =? 0) eqn:E2; [lia|].
    destruct (do_transfer_succeeds e s tok tm caller (addr_of wto) (u256 wamt) Hto Hl Ha) as [s' ->].
    eexists; reflexivity.
  - intros wfrom wto wamt Hf Hto Hl Ha Hs. cbn [exec_method].
    destruct (addr_of wfrom =? 0) eqn:E1; [lia|]. destruct (addr_of wto =? 0) eqn:E2; [lia|].
    destruct (addr_of wfrom =? caller) eqn:E3.
    + destruct (do_transfer_succeeds e s tok tm (addr_of wfrom) (addr_of wto) (u256 wamt) Hto Hl Ha) as [s' ->].
      eexists; reflexivity.
    + unfold spend_allowance.
      destruct (allow s (addr_of wfrom) caller =? MAXU256) eqn:E4.
      * destruct (do_transfer_succeeds e s tok tm (addr_of wfrom) (addr_of wto) (u256 wamt) Hto Hl Ha) as [s' ->].
        eexists; reflexivity.
      * destruct (allow s (addr_of wfrom) caller <? u256 wamt) eqn:E5.
        { destruct Hs as [Hs|[Hs|Hs]]; lia. }
        set (s1 := set_allow s (addr_of wfrom) caller (allow s (addr_of wfrom) caller - u256 wamt)).
        assert (Hl1 : 0 <= locked s1 (addr_of wfrom) (tk_denom tm)) by exact Hl.
        assert (Ha1 : u256 wamt <= bal s1 (addr_of wfrom) (tk_denom tm) - locked s1 (addr_of wfrom) (tk_denom tm)) by exact Ha.
        destruct (do_transfer_succeeds e s1 tok tm (addr_of wfrom) (addr_of wto) (u256 wamt) Hto Hl1 Ha1) as [s' ->].
        eexists; reflexivity.
Qed.
