(* Proofs about Model/Nondet.v (C01): block execution does not depend on the ambient inputs [nenv]. *)
From Coq Require Import ZArith List Bool Lia Sorting.Permutation Sorting.Sorted.
From Evm Require Import Destroy DestroyProofs Nondet.
From Evm Require BaseFee.
Import ListNotations.
Open Scope Z_scope.

(* ------------------------------------------------------------------ what is assumed of Go's map iteration *)

(* every key is enumerated, nothing else is (order and multiplicity are free) *)
Definition enum_ok (e : nenv) : Prop := forall i k j l x, In x (n_order e i k j l) <-> In x l.

(* the usual statement: the enumeration is a permutation of the key set *)
Definition perm_ok (e : nenv) : Prop := forall i k j l, Permutation (n_order e i k j l) l.

Lemma perm_enum e : perm_ok e -> enum_ok e.
Proof.
  intros H i k j l x. split; intros Hx.
  - eapply Permutation_in; [apply H | exact Hx].
  - eapply Permutation_in; [apply Permutation_sym; apply H | exact Hx].
Qed.

Definition same_set (l1 l2 : list addr) : Prop := forall x, In x l1 <-> In x l2.

Lemma same_set_refl l : same_set l l.
Proof. intros x. tauto. Qed.

Lemma same_set_cons a l1 l2 : same_set l1 l2 -> same_set (a :: l1) (a :: l2).
Proof. intros H x. cbn. rewrite (H x). tauto. Qed.

Lemma same_set_trans l1 l2 l3 : same_set l1 l2 -> same_set l2 l3 -> same_set l1 l3.
Proof. intros H1 H2 x. rewrite (H1 x). apply H2. Qed.

Lemma same_set_sym l1 l2 : same_set l1 l2 -> same_set l2 l1.
Proof. intros H x. symmetry. apply H. Qed.

Lemma mem_same_set a l1 l2 : same_set l1 l2 -> mem a l1 = mem a l2.
Proof.
  intros H. destruct (mem a l1) eqn:E1; destruct (mem a l2) eqn:E2; try reflexivity.
  - apply mem_In in E1. apply H in E1. apply mem_In in E1. congruence.
  - apply mem_In in E2. apply H in E2. apply mem_In in E2. congruence.
Qed.

(* ------------------------------------------------------------------ the commit loop *)

Lemma destroy_at_now e w a : destroy_at (e_now e) w a = destroy e w a.
Proof. reflexivity. Qed.

Lemma commit_loop_at_eq e sd : forall l w b, commit_loop_at (e_now e) sd w b l = commit_loop e sd w b l.
Proof.
  induction l as [|a r IH]; intros w b; cbn [commit_loop_at commit_loop]; [reflexivity|].
  destruct (mem a sd || is_empty w a); [|apply IH].
  rewrite destroy_at_now. destruct (destroy e w a); cbn [bind]; [apply IH | reflexivity].
Qed.

Lemma commit_loop_sd_ext tg sd1 sd2 : same_set sd1 sd2 ->
  forall l w b, commit_loop_at tg sd1 w b l = commit_loop_at tg sd2 w b l.
Proof.
  intros H. induction l as [|a r IH]; intros w b; cbn [commit_loop_at]; [reflexivity|].
  rewrite (mem_same_set a sd1 sd2 H).
  destruct (mem a sd2 || is_empty w a); [|apply IH].
  destruct (destroy_at tg w a); cbn [bind]; [apply IH | reflexivity].
Qed.

(* sorting forgets the enumeration order: any two enumerations of the same key set sort to the same list *)
Lemma sort_perm_invariant l1 l2 : Permutation l1 l2 -> sort_addrs l1 = sort_addrs l2.
Proof.
  intros H. apply sort_addrs_set. intros x. split; intros Hx.
  - eapply Permutation_in; [exact H | exact Hx].
  - eapply Permutation_in; [apply Permutation_sym; exact H | exact Hx].
Qed.

(* frames that agree on the world and, as sets, on the trackers *)
Definition feq (f1 f2 : frame) : Prop :=
  f_w f1 = f_w f2 /\ same_set (f_touched f1) (f_touched f2) /\ same_set (f_sd f1) (f_sd f2).

Lemma mk_feq f1 f2 : f_w f1 = f_w f2 -> same_set (f_touched f1) (f_touched f2) -> same_set (f_sd f1) (f_sd f2) -> feq f1 f2.
Proof. intros A B C. split; [exact A | split; [exact B | exact C]]. Qed.

Lemma feq_refl f : feq f f.
Proof. apply mk_feq; [reflexivity | apply same_set_refl | apply same_set_refl]. Qed.

Lemma ncommit_indep e1 e2 i bt f1 f2 :
  enum_ok e1 -> enum_ok e2 -> feq f1 f2 ->
  ncommit impl_head e1 i bt f1 = ncommit impl_head e2 i bt f2.
Proof.
  intros H1 H2 (Hw & Ht & Hs). unfold ncommit. cbn [impl_head i_guard_wall_clock i_commit_map_order].
  rewrite Hw.
  replace (sort_addrs (n_order e1 i (-1) 0 (f_touched f1))) with (sort_addrs (n_order e2 i (-1) 0 (f_touched f2))).
  - symmetry. apply commit_loop_sd_ext. apply same_set_sym. exact Hs.
  - apply sort_addrs_set. intros x. rewrite (H1 i (-1) 0), (H2 i (-1) 0). symmetry. apply Ht.
Qed.

(* the burn events of the commit loop come out in ascending address order, whatever the enumeration was *)
Lemma commit_loop_at_burns tg sd : forall l w b w' b',
  commit_loop_at tg sd w b l = Ok (w', b') ->
  exists extra, b' = b ++ extra /\ (forall x, In x (map fst extra) -> In x l) /\
                (StronglySorted Z.lt l -> StronglySorted Z.lt (map fst extra)).
Proof.
  induction l as [|a r IH]; intros w b w' b'; cbn [commit_loop_at].
  - intros H. injection H as <- <-. exists []. rewrite app_nil_r. repeat split; [cbn; tauto | constructor].
  - destruct (mem a sd || is_empty w a).
    + destruct (destroy_at tg w a) as [w1|]; cbn [bind]; [|discriminate].
      intros H. apply IH in H. destruct H as (ex & Hb & Hin & Hs).
      destruct (all_zero (w_bal w a)).
      * exists ex. repeat split; [exact Hb | intros x Hx; right; apply Hin; exact Hx |].
        intros Hl. apply Hs. inversion Hl; assumption.
      * exists ((a, w_bal w a) :: ex). rewrite Hb, <- app_assoc. repeat split.
        -- intros x [Hx|Hx]; [left; exact Hx | right; apply Hin; exact Hx].
        -- intros Hl. inversion Hl as [|? ? Hr Hall]; subst. cbn [map fst]. constructor; [apply Hs; exact Hr|].
           apply Forall_forall. intros x Hx. apply Hin in Hx. rewrite Forall_forall in Hall. apply Hall. exact Hx.
    + intros H. apply IH in H. destruct H as (ex & Hb & Hin & Hs).
      exists ex. repeat split; [exact Hb | intros x Hx; right; apply Hin; exact Hx |].
      intros Hl. apply Hs. inversion Hl; assumption.
Qed.

Lemma ncommit_burns_sorted e i bt f w' burns :
  ncommit impl_head e i bt f = Ok (w', burns) -> StronglySorted Z.lt (map fst burns).
Proof.
  unfold ncommit. cbn [impl_head i_guard_wall_clock i_commit_map_order]. intros H.
  apply commit_loop_at_burns in H. destruct H as (ex & Hb & _ & Hs). cbn [app] in Hb. subst burns.
  apply Hs. apply sort_addrs_ssorted.
Qed.

(* ------------------------------------------------------------------ operations on frames *)

Inductive rres {A} (R : A -> A -> Prop) : res A -> res A -> Prop :=
| RR_ok a b : R a b -> rres R (Ok a) (Ok b)
| RR_panic : rres R Panic Panic.

Lemma feq_touch f1 f2 a : feq f1 f2 -> feq (touch f1 a) (touch f2 a).
Proof. intros (Hw & Ht & Hs). apply mk_feq; cbn; [exact Hw | apply same_set_cons; exact Ht | exact Hs]. Qed.

Lemma feq_with_w f1 f2 w : feq f1 f2 -> feq (with_w f1 w) (with_w f2 w).
Proof. intros (Hw & Ht & Hs). apply mk_feq; cbn; [reflexivity | exact Ht | exact Hs]. Qed.

Lemma sub_balance_feq de f1 f2 a v : feq f1 f2 -> rres feq (sub_balance de f1 a v) (sub_balance de f2 a v).
Proof.
  intros H. unfold sub_balance. pose proof (feq_touch f1 f2 a H) as Ht.
  destruct (v =? 0); [constructor; exact Ht|].
  destruct (negb (amount_ok v)); [constructor|].
  destruct Ht as (Hw & Ht).
  rewrite Hw. destruct (bank_sub de (f_w (touch f2 a)) a evm_denom v); cbn [bind]; constructor.
  apply feq_with_w. split; [exact Hw | exact Ht].
Qed.

Lemma fstep_feq de f1 f2 o : feq f1 f2 -> rres feq (fstep de f1 o) (fstep de f2 o).
Proof.
  intros H. destruct o; cbn [fstep].
  - (* CreateAccount *)
    unfold create_account. pose proof (feq_touch f1 f2 a H) as Ht. destruct Ht as (Hw & Ht).
    rewrite Hw. destruct (destroy de (f_w (touch f2 a)) a); cbn [bind]; [|constructor].
    destruct (all_zero (w_bal (f_w (touch f2 a)) a)).
    + constructor. apply feq_with_w. split; [exact Hw | exact Ht].
    + destruct (e_blocked de a); constructor. apply feq_with_w. split; [exact Hw | exact Ht].
  - (* DestroyAccount *)
    destruct H as (Hw & Ht). rewrite Hw. destruct (destroy de (f_w f2) a); cbn [bind]; constructor.
    apply feq_with_w. split; [exact Hw | exact Ht].
  - (* AddBalance *)
    unfold add_balance. pose proof (feq_touch f1 f2 a H) as Ht.
    destruct (v =? 0); [constructor; exact Ht|].
    destruct (negb (amount_ok v)); [constructor|].
    destruct Ht as (Hw & Ht). rewrite Hw.
    destruct (bank_add de (f_w (touch f2 a)) a evm_denom v); cbn [bind]; constructor.
    apply feq_with_w. split; [exact Hw | exact Ht].
  - (* SubBalance *) apply sub_balance_feq. exact H.
  - (* SetNonce *)
    constructor. unfold set_nonce. pose proof (feq_touch f1 f2 a H) as Ht. destruct Ht as (Hw & Ht). rewrite Hw.
    destruct (w_acc (ensure_account (f_w (touch f2 a)) a) a); apply feq_with_w; (split; [exact Hw | exact Ht]).
  - (* SetCode *)
    constructor. unfold set_code. pose proof (feq_touch f1 f2 a H) as Ht. destruct Ht as (Hw & Ht). rewrite Hw.
    apply feq_with_w. split; [exact Hw | exact Ht].
  - (* SetState *)
    constructor. unfold set_state. pose proof (feq_touch f1 f2 a H) as Ht. destruct Ht as (Hw & Ht). rewrite Hw.
    apply feq_with_w. split; [exact Hw | exact Ht].
  - (* Suicide *)
    unfold suicide. pose proof (feq_touch f1 f2 a H) as Ht. destruct Ht as (Hw & Ht & Hs). rewrite Hw.
    destruct (w_acc (f_w (touch f2 a)) a); [|constructor; apply mk_feq; assumption].
    assert (Hf : feq (mkFrame (f_w (touch f2 a)) (f_touched (touch f1 a)) (a :: f_sd (touch f1 a)))
                     (mkFrame (f_w (touch f2 a)) (f_touched (touch f2 a)) (a :: f_sd (touch f2 a)))).
    { apply mk_feq; cbn [f_w f_touched f_sd]; [reflexivity | exact Ht | apply same_set_cons; exact Hs]. }
    cbn [f_w]. destruct (amt (w_bal (f_w (touch f2 a)) a) evm_denom =? 0); [constructor; exact Hf|].
    apply sub_balance_feq. exact Hf.
  - constructor. exact H.
  - constructor. exact H.
Qed.

(* StateDBs that agree frame by frame *)
Definition seq (s1 s2 : sdb) : Prop := feq (cur s1) (cur s2) /\ Forall2 feq (snaps s1) (snaps s2).

Lemma shuffle_feq e1 e2 i k f1 f2 : enum_ok e1 -> enum_ok e2 -> feq f1 f2 -> feq (shuffle e1 i k f1) (shuffle e2 i k f2).
Proof.
  intros H1 H2 (Hw & Ht & Hs). apply mk_feq; cbn [shuffle f_w f_touched f_sd]; [exact Hw | |].
  - intros x. rewrite (H1 i k 0), (H2 i k 0). apply Ht.
  - intros x. rewrite (H1 i k 1), (H2 i k 1). apply Hs.
Qed.

Lemma Forall2_nth_error {A} (R : A -> A -> Prop) l1 l2 n :
  Forall2 R l1 l2 ->
  match nth_error l1 n, nth_error l2 n with
  | Some a, Some b => R a b
  | None, None => True
  | _, _ => False
  end.
Proof.
  intros H. revert n. induction H as [|a b l1 l2 Hab Hl IH]; intros [|n]; cbn; auto. apply IH.
Qed.

Lemma Forall2_firstn {A} (R : A -> A -> Prop) l1 l2 n : Forall2 R l1 l2 -> Forall2 R (firstn n l1) (firstn n l2).
Proof.
  intros H. revert n. induction H as [|a b l1 l2 Hab Hl IH]; intros [|n]; cbn; constructor; auto.
Qed.

Lemma nstep_seq e1 e2 de i k s1 s2 o :
  enum_ok e1 -> enum_ok e2 -> seq s1 s2 -> rres seq (nstep e1 de i k s1 o) (nstep e2 de i k s2 o).
Proof.
  intros H1 H2 (Hc & Hs).
  assert (Hplain : forall o', (forall s, step de s o' = match fstep de (cur s) o' with Ok f => Ok (mkSdb f (snaps s)) | Panic => Panic end) ->
                   rres seq (step de s1 o') (step de s2 o')).
  { intros o' Ho. rewrite (Ho s1), (Ho s2). pose proof (fstep_feq de (cur s1) (cur s2) o' Hc) as Hf.
    destruct Hf; constructor. split; cbn [cur snaps]; assumption. }
  destruct o; cbn [nstep]; try (apply Hplain; intros s; reflexivity).
  - (* Snapshot *)
    constructor. split; cbn [cur snaps]; [exact Hc|]. apply Forall2_app; [exact Hs|].
    constructor; [|constructor]. apply shuffle_feq; assumption.
  - (* RevertTo *)
    cbn [step]. destruct (i0 <? 0); [constructor|].
    pose proof (Forall2_nth_error feq (snaps s1) (snaps s2) (Z.to_nat i0) Hs) as Hn.
    destruct (nth_error (snaps s1) (Z.to_nat i0)) as [fa|]; destruct (nth_error (snaps s2) (Z.to_nat i0)) as [fb|];
      try contradiction; constructor.
    split; cbn [cur snaps]; [apply shuffle_feq; assumption | apply Forall2_firstn; exact Hs].
Qed.

Lemma nrun_ops_seq e1 e2 de i : enum_ok e1 -> enum_ok e2 ->
  forall l k s1 s2, seq s1 s2 -> rres seq (nrun_ops e1 de i k s1 l) (nrun_ops e2 de i k s2 l).
Proof.
  intros H1 H2. induction l as [|o r IH]; intros k s1 s2 Hs; cbn [nrun_ops]; [constructor; exact Hs|].
  pose proof (nstep_seq e1 e2 de i k s1 s2 o H1 H2 Hs) as Hn.
  destruct Hn; cbn [bind]; [apply IH; assumption | constructor].
Qed.

Lemma nrun_tx_indep e1 e2 i bt blocked w l : enum_ok e1 -> enum_ok e2 ->
  nrun_tx impl_head e1 i bt blocked w l = nrun_tx impl_head e2 i bt blocked w l.
Proof.
  intros H1 H2. unfold nrun_tx.
  assert (Hs : seq (init_sdb w) (init_sdb w)) by (split; [apply feq_refl | constructor]).
  pose proof (nrun_ops_seq e1 e2 (mkEnv bt blocked) i H1 H2 l 0 _ _ Hs) as Hr.
  destruct Hr as [sa sb (Hc & _)|]; [|reflexivity].
  rewrite (ncommit_indep e1 e2 i bt (cur sa) (cur sb) H1 H2 Hc). reflexivity.
Qed.

(* ------------------------------------------------------------------ the remaining ambient inputs *)

(* block execution never consults the node's minimum-gas-prices *)
Lemma deliver_floor_indep b g n1 n2 :
  BaseFee.min_allowed BaseFee.Deliver b g n1 = BaseFee.min_allowed BaseFee.Deliver b g n2.
Proof. reflexivity. Qed.

(* ... the mempool does *)
Lemma check_floor_depends : exists b g n1 n2,
  BaseFee.min_allowed BaseFee.Check b g n1 <> BaseFee.min_allowed BaseFee.Check b g n2.
Proof. exists 7, 0, 0, (9 * BaseFee.E18). vm_compute. discriminate. Qed.

Lemma new_tracer_head tr t : new_tracer impl_head tr t = Ok tt.
Proof. destruct tr; reflexivity. Qed.

(* the result of a refused state transition does not look at the node's telemetry switch (nor at anything else of nenv) *)
Lemma apply_error_head e1 e2 t g : apply_error_result impl_head e1 t g = apply_error_result impl_head e2 t g.
Proof. reflexivity. Qed.

Lemma apply_error_head_code e t g : apply_error_result impl_head e t g = mkRes CODE_APPLY_ERROR (t_gas t) g [].
Proof. reflexivity. Qed.

Section ExecProofs.
  Variable interp : header -> world -> txd -> list op * Z * Z * bool.

  Lemma exec_tx_indep e1 e2 h i s t : enum_ok e1 -> enum_ok e2 ->
    exec_tx interp impl_head e1 h i s t = exec_tx interp impl_head e2 h i s t.
  Proof.
    intros H1 H2. unfold exec_tx.
    rewrite (deliver_floor_indep (c_base s) (c_gmin s) (n_min_gas e1) (n_min_gas e2)).
    rewrite !new_tracer_head.
    destruct (interp h (c_w s) t) as [[[ops g_ok] g_fail] vmerr].
    rewrite (apply_error_head e1 e2 t g_fail).
    rewrite (nrun_tx_indep e1 e2 i (h_time h) (c_blocked s) (c_w s) ops H1 H2). reflexivity.
  Qed.

  Lemma exec_txs_indep e1 e2 h : enum_ok e1 -> enum_ok e2 ->
    forall l i s, exec_txs interp impl_head e1 h i s l = exec_txs interp impl_head e2 h i s l.
  Proof.
    intros H1 H2. induction l as [|t r IH]; intros i s; cbn [exec_txs]; [reflexivity|].
    rewrite (exec_tx_indep e1 e2 h i s t H1 H2).
    destruct (exec_tx interp impl_head e2 h i s t) as [s1 r1]. rewrite IH. reflexivity.
  Qed.

  Lemma exec_block_env_independent e1 e2 s b : enum_ok e1 -> enum_ok e2 ->
    exec_block interp impl_head e1 s b = exec_block interp impl_head e2 s b.
  Proof.
    intros H1 H2. unfold exec_block. rewrite (exec_txs_indep e1 e2 (fst b) H1 H2). reflexivity.
  Qed.

  Lemma exec_chain_env_independent ef1 ef2 :
    (forall n, enum_ok (ef1 n)) -> (forall n, enum_ok (ef2 n)) ->
    forall bs n s, exec_chain interp impl_head ef1 n s bs = exec_chain interp impl_head ef2 n s bs.
  Proof.
    intros H1 H2. induction bs as [|b r IH]; intros n s; cbn [exec_chain]; [reflexivity|].
    rewrite (exec_block_env_independent (ef1 n) (ef2 n) s b (H1 n) (H2 n)).
    destruct (exec_block interp impl_head (ef2 n) s b) as [[s1 rs] vu]. rewrite IH. reflexivity.
  Qed.

  (* burn events of every transaction are in ascending address order *)
  Lemma exec_tx_burn_order e h i s t s' r :
    t_stake t = None -> exec_tx interp impl_head e h i s t = (s', r) ->
    exists burns, r_events r = map (fun b => EvBurn (fst b) (snd b)) burns /\ StronglySorted Z.lt (map fst burns).
  Proof.
    intros Hst. unfold exec_tx. rewrite new_tracer_head, Hst.
    destruct (_ <? _).
    - intros H. injection H as _ <-. exists []. split; [reflexivity | constructor].
    - destruct (interp h (c_w s) t) as [[[ops g_ok] g_fail] vmerr].
      destruct (core_refuses s t).
      { rewrite apply_error_head_code. intros H. injection H as _ <-. exists []. split; [reflexivity | constructor]. }
      unfold nrun_tx.
      destruct (nrun_ops e _ i 0 (init_sdb (c_w s)) ops) as [sf|].
      + destruct (ncommit impl_head e i (h_time h) (cur sf)) as [[w' burns]|] eqn:Ec.
        * intros H. injection H as _ <-. exists burns. split; [reflexivity|].
          eapply ncommit_burns_sorted. exact Ec.
        * intros H. injection H as _ <-. exists []. split; [reflexivity | constructor].
      + intros H. injection H as _ <-. exists []. split; [reflexivity | constructor].
  Qed.
End ExecProofs.

(* ------------------------------------------------------------------ validator choice *)

Definition val_key_lt (a b : validator) : Prop :=
  v_tokens a < v_tokens b \/ (v_tokens a = v_tokens b /\ v_op a < v_op b).

Lemma val_lt_spec a b : val_lt a b = true <-> val_key_lt a b.
Proof. unfold val_lt, val_key_lt. lia. Qed.

Definition vsorted (l : list validator) : Prop := StronglySorted (fun a b => val_lt b a = false) l.

Lemma In_insert_val v x l : In x (insert_val v l) <-> x = v \/ In x l.
Proof.
  induction l as [|y r IH]; cbn [insert_val].
  - cbn. intuition.
  - destruct (val_lt v y); cbn [In]; [intuition|]. rewrite IH. intuition.
Qed.

Lemma insert_val_sorted v l : vsorted l -> vsorted (insert_val v l).
Proof.
  unfold vsorted. induction l as [|y r IH]; intros Hs; cbn [insert_val].
  - constructor; constructor.
  - inversion Hs as [|? ? Hr Hall]; subst. destruct (val_lt v y) eqn:E.
    + constructor; [exact Hs|]. apply Forall_forall. intros x [->|Hx].
      * apply val_lt_spec in E. destruct (val_lt x v) eqn:E2; [|reflexivity].
        apply val_lt_spec in E2. unfold val_key_lt in *. lia.
      * rewrite Forall_forall in Hall. specialize (Hall x Hx).
        apply val_lt_spec in E. destruct (val_lt x v) eqn:E2; [|reflexivity].
        apply val_lt_spec in E2. destruct (val_lt x y) eqn:E3; [discriminate|].
        assert (~ val_key_lt x y) by (intros C; apply val_lt_spec in C; congruence).
        unfold val_key_lt in *. lia.
    + constructor; [apply IH; exact Hr|]. apply Forall_forall. intros x Hx.
      apply In_insert_val in Hx. destruct Hx as [->|Hx]; [exact E|].
      rewrite Forall_forall in Hall. apply Hall. exact Hx.
Qed.

Lemma sort_vals_sorted l : vsorted (sort_vals l).
Proof. induction l as [|v r IH]; cbn; [constructor | apply insert_val_sorted; exact IH]. Qed.

Lemma insert_val_perm v l : Permutation (insert_val v l) (v :: l).
Proof.
  induction l as [|y r IH]; cbn [insert_val]; [reflexivity|].
  destruct (val_lt v y); [reflexivity|]. rewrite IH. apply perm_swap.
Qed.

Lemma sort_vals_perm l : Permutation (sort_vals l) l.
Proof. induction l as [|v r IH]; cbn; [constructor|]. rewrite insert_val_perm. constructor. exact IH. Qed.

(* validators are told apart by their sort key (distinct operators suffice) *)
Definition key_inj (l : list validator) : Prop :=
  forall a b, In a l -> In b l -> v_tokens a = v_tokens b -> v_op a = v_op b -> a = b.

(* a sorted list is determined by its elements: whatever (unstable) algorithm sorts, the result is the same *)
Lemma vsorted_unique l1 : forall l2, vsorted l1 -> vsorted l2 -> Permutation l1 l2 -> NoDup l1 -> key_inj l1 -> l1 = l2.
Proof.
  unfold vsorted. induction l1 as [|a r1 IH]; intros l2 S1 S2 P ND KI.
  - apply Permutation_nil in P. subst. reflexivity.
  - destruct l2 as [|b r2]; [apply Permutation_sym, Permutation_nil in P; discriminate|].
    inversion S1 as [|? ? Sr1 A1]; inversion S2 as [|? ? Sr2 A2]; subst.
    inversion ND as [|? ? Hnin NDr]; subst.
    assert (Hab : a = b).
    { assert (Ha : In a (b :: r2)) by (eapply Permutation_in; [exact P | left; reflexivity]).
      assert (Hb : In b (a :: r1)) by (eapply Permutation_in; [apply Permutation_sym; exact P | left; reflexivity]).
      destruct Ha as [Ha|Ha]; [congruence|]. destruct Hb as [Hb|Hb]; [congruence|].
      rewrite Forall_forall in A1, A2. specialize (A1 b Hb). specialize (A2 a Ha).
      assert (N1 : ~ val_key_lt b a) by (intros C; apply val_lt_spec in C; congruence).
      assert (N2 : ~ val_key_lt a b) by (intros C; apply val_lt_spec in C; congruence).
      apply KI; [left; reflexivity | right; exact Hb | |]; unfold val_key_lt in *; lia. }
    subst b. f_equal. apply IH; try assumption.
    + eapply Permutation_cons_inv. exact P.
    + intros x y Hx Hy. apply KI; right; assumption.
Qed.

Lemma key_inj_perm l1 l2 : Permutation l1 l2 -> key_inj l1 -> key_inj l2.
Proof.
  intros P K a b Ha Hb. apply K; eapply Permutation_in; try (apply Permutation_sym; exact P); assumption.
Qed.

Lemma sort_vals_perm_invariant l1 l2 :
  NoDup l1 -> key_inj l1 -> Permutation l1 l2 -> sort_vals l1 = sort_vals l2.
Proof.
  intros ND KI P. apply vsorted_unique.
  - apply sort_vals_sorted.
  - apply sort_vals_sorted.
  - rewrite (sort_vals_perm l1), (sort_vals_perm l2). exact P.
  - eapply Permutation_NoDup; [apply Permutation_sym; apply sort_vals_perm | exact ND].
  - eapply key_inj_perm; [apply Permutation_sym; apply sort_vals_perm | exact KI].
Qed.

(* any sorting algorithm (slices.SortFunc is an unstable pdqsort) returns sort_vals' list *)
Lemma any_sort_is_sort_vals l l' :
  NoDup l -> key_inj l -> Permutation l l' -> vsorted l' -> l' = sort_vals l.
Proof.
  intros ND KI P S. symmetry. apply vsorted_unique.
  - apply sort_vals_sorted.
  - exact S.
  - rewrite (sort_vals_perm l). exact P.
  - eapply Permutation_NoDup; [apply Permutation_sym; apply sort_vals_perm | exact ND].
  - eapply key_inj_perm; [apply Permutation_sym; apply sort_vals_perm | exact KI].
Qed.

(* the choice does not depend on the order in which the store iterators delivered the validators, as long as
   the caller's delegations number zero or at least two; with exactly one there is nothing to choose *)
Lemma pick_validator_perm_invariant all1 all2 mine1 mine2 :
  NoDup all1 -> key_inj all1 -> Permutation all1 all2 ->
  NoDup mine1 -> key_inj mine1 -> Permutation mine1 mine2 ->
  pick_validator all1 mine1 = pick_validator all2 mine2.
Proof.
  intros NDa KIa Pa NDm KIm Pm. unfold pick_validator.
  pose proof (Permutation_length Pm) as Lm. pose proof (Permutation_length Pa) as La.
  destruct mine1 as [|m1 [|m1' r1]]; destruct mine2 as [|m2 [|m2' r2]]; try discriminate Lm.
  - destruct all1 as [|a1 r1]; destruct all2 as [|a2 r2]; try discriminate La; [reflexivity|].
    rewrite (sort_vals_perm_invariant _ _ NDa KIa Pa), La. reflexivity.
  - apply Permutation_length_1 in Pm. subst. reflexivity.
  - rewrite (sort_vals_perm_invariant _ _ NDm KIm Pm). reflexivity.
Qed.

(* the chosen validator in Case 3 has the least (tokens, operator) of the caller's bonded validators *)
Lemma pick_case3_least mine v :
  (2 <= length mine)%nat -> pick_validator [] mine = Some v ->
  In v mine /\ forall x, In x mine -> val_lt x v = false.
Proof.
  intros Hl. unfold pick_validator. destruct mine as [|m1 [|m2 r]]; cbn [length] in Hl; try lia.
  remember (m1 :: m2 :: r) as l eqn:El. clear El Hl.
  pose proof (sort_vals_sorted l) as S. pose proof (sort_vals_perm l) as P.
  destruct (sort_vals l) as [|h t] eqn:E; cbn [hd_error]; [discriminate|].
  intros H. injection H as <-. split.
  - eapply Permutation_in; [exact P | left; reflexivity].
  - intros x Hx. assert (Hx' : In x (h :: t)) by (eapply Permutation_in; [apply Permutation_sym; exact P | exact Hx]).
    destruct Hx' as [->|Hx'].
    + unfold val_lt. destruct (v_tokens x <? v_tokens x) eqn:E1; [lia|]. destruct (v_op x <? v_op x) eqn:E2; [lia|].
      rewrite andb_false_r. reflexivity.
    + unfold vsorted in S. inversion S as [|? ? _ A]; subst. rewrite Forall_forall in A. apply A. exact Hx'.
Qed.

(* ------------------------------------------------------------------ witnesses: the three repaired defects, and non-vacuity *)

Definition empty_world : world := mkWorld (fun _ => None) (fun _ => []) (fun _ => 0) (fun _ => []) 50.
Definition put (w : world) (a : addr) (ac : account) (c : coins) (h : Z) (s : storage) : world :=
  mkWorld (upd (w_acc w) a (Some ac)) (upd (w_bal w) a c) (upd (w_code w) a h) (upd (w_stor w) a s) (w_next w).

(* two ambient environments that differ in every component *)
Definition env_id : nenv := mkNenv 2000 (fun _ _ _ l => l) 0 TrNone 1 false 0.
Definition env_rev : nenv := mkNenv 5000 (fun _ _ _ l => rev l) (10 ^ 30) TrAccessList 16 true 77.

Lemma env_id_perm : perm_ok env_id.
Proof. intros i k j l. apply Permutation_refl. Qed.

Lemma env_rev_perm : perm_ok env_rev.
Proof. intros i k j l. cbn. apply Permutation_sym, Permutation_rev. Qed.

(* 1 = fee collector (module account, blocked); 5 = delayed vesting account that ended at 3000, everything delegated:
   zero balance, nonce 0; 6 = the same still vesting until 9000; 7, 9 = contracts holding coins of denomination 1;
   8 = an ordinary wallet with 10^20 of the EVM denomination *)
Definition ex_world : world :=
  put (put (put (put (put (put empty_world
    1 (mkAcc Module 0 1) [] 0 [])
    5 (mkAcc (Vesting (mkSched VDelayed 0 3000 [(0, 1000)] [(0, 1000)] [])) 0 5) [] 0 [])
    6 (mkAcc (Vesting (mkSched VDelayed 0 9000 [(0, 1000)] [(0, 1000)] [])) 0 6) [] 0 [])
    7 (mkAcc Base 1 7) [(1, 100)] 77 [(1, 9)])
    9 (mkAcc Base 1 9) [(1, 200)] 99 [])
    8 (mkAcc Base 3 8) [(0, 10 ^ 20)] 0 [].

Definition ex_vals : list validator :=
  [mkVal 0 (3 * 10 ^ 18) true; mkVal 1 (10 ^ 18) true; mkVal 2 (10 ^ 18) true; mkVal 3 (5 * 10 ^ 18) false].

Definition ex_state : cstate := mkC ex_world (fun a => a =? 1) 10 0 ex_vals [(8, 0, 10 ^ 18); (8, 2, 10 ^ 18); (8, 3, 7)].

(* the interpreter, for these examples: tag 1 touches the expired vesting account; tag 2 self-destructs both contracts
   inside a reverted-and-retried frame; tag 3 touches the unexpired vesting account; anything else does nothing *)
Definition ex_interp (_ : header) (_ : world) (t : txd) : list op * Z * Z * bool :=
  if t_tag t =? 1 then ([AddBalance 5 0], 21000, 30000, false)
  else if t_tag t =? 2 then ([Snapshot; Suicide 9; RevertTo 0; Snapshot; Suicide 9; Suicide 7], 40000, 50000, false)
  else if t_tag t =? 3 then ([AddBalance 6 0], 21000, 30000, false)
  else ([], 21000, 21000, false).

Definition ex_tx (tag : Z) (create : bool) (stake : option Z) : txd := mkTxd 8 create false 10 0 0 100000 tag 0 stake.

(* a call / creation carrying [value] (wallet 8 owns 10^20) *)
Definition ex_tx_value (create : bool) (value : Z) : txd := mkTxd 8 create false 10 0 0 100000 0 value None.

Definition ex_block : block :=
  (mkHeader 7 4000, [ex_tx 1 false None; ex_tx 2 false None; ex_tx 3 false None; ex_tx 0 true None;
                     ex_tx 0 false (Some (2 * 10 ^ 18)); mkTxd 8 false false 9 0 0 100000 0 0 None;
                     ex_tx_value false (10 ^ 21); ex_tx_value true (10 ^ 19)]).

Definition results {A B C} (x : A * B * C) : B * C := (snd (fst x), snd x).

(* what the block does at HEAD, under either environment: the expired vesting account is deleted; both contracts are
   destroyed, burns in address order 7, 9; touching the unexpired vesting account fails the transaction; the creation
   passes whatever the tracer; transfer() picks validator 2 (least tokens among the caller's bonded ones, ties by
   operator; validator 3 is not bonded) and its power goes from 1 to 3; the under-priced transaction is refused; the
   call sending more than the wallet owns is refused by the state transition (code 1), whether or not the node collects
   telemetry; the creation endowed with less than that is executed *)
Lemma ex_block_result :
  results (exec_block ex_interp impl_head env_id ex_state ex_block) =
    ([mkRes 0 100000 21000 [];
      mkRes 0 100000 40000 [EvBurn 7 [(1, 100)]; EvBurn 9 [(1, 200)]];
      mkRes CODE_PANIC 100000 30000 [];
      mkRes 0 100000 21000 [];
      mkRes 0 100000 100000 [EvDelegate 8 2 (2 * 10 ^ 18)];
      mkRes CODE_INSUFFICIENT_FEE (-1) 0 [];
      mkRes CODE_APPLY_ERROR 100000 21000 [];
      mkRes 0 100000 21000 []],
     [(2, 3)]) /\
  results (exec_block ex_interp impl_head env_rev ex_state ex_block) =
  results (exec_block ex_interp impl_head env_id ex_state ex_block).
Proof. split; vm_compute; reflexivity. Qed.

Definition env_independent (im : impl) : Prop :=
  forall interp e1 e2 s b, perm_ok e1 -> perm_ok e2 ->
    exec_block interp im e1 s b = exec_block interp im e2 s b.

(* before 295ed89: wall clock 2000 -> account 5 "still vesting" -> the transaction panics; wall clock 5000 -> deleted *)
Lemma wallclock_guard_refuted : ~ env_independent (mkImpl true false false false).
Proof.
  intros H. specialize (H ex_interp env_id env_rev ex_state (mkHeader 7 4000, [ex_tx 1 false None]) env_id_perm env_rev_perm).
  apply (f_equal results) in H. vm_compute in H. discriminate.
Qed.

(* before 133c300: burn events follow the enumeration order of `touched` *)
Lemma commit_map_order_refuted : ~ env_independent (mkImpl false true false false).
Proof.
  intros H. specialize (H ex_interp env_id env_rev ex_state (mkHeader 7 4000, [ex_tx 2 false None]) env_id_perm env_rev_perm).
  apply (f_equal results) in H. vm_compute in H. discriminate.
Qed.

(* before 17e00a9: a contract creation panics on the node whose evm.tracer is access_list *)
Lemma tracer_nil_to_refuted : ~ env_independent (mkImpl false false true false).
Proof.
  intros H. specialize (H ex_interp env_id env_rev ex_state (mkHeader 7 4000, [ex_tx 0 true None]) env_id_perm env_rev_perm).
  apply (f_equal results) in H. vm_compute in H. discriminate.
Qed.

(* seeded variant of EthereumTx: a transfer of more than the sender owns gets code 1 on the node without telemetry and
   a recovered panic on the node with telemetry *)
Lemma telemetry_nil_resp_refuted : ~ env_independent (mkImpl false false false true).
Proof.
  intros H. specialize (H ex_interp env_id env_rev ex_state (mkHeader 7 4000, [ex_tx_value false (10 ^ 21)]) env_id_perm env_rev_perm).
  apply (f_equal results) in H. vm_compute in H. discriminate.
Qed.

(* ... and only transactions refused by the state transition tell the two nodes apart: with no such transaction in the
   block the variant is independent of the telemetry switch too (what hid it from every single-configuration test) *)
Lemma telemetry_variant_results :
  results (exec_block ex_interp (mkImpl false false false true) env_id ex_state (mkHeader 7 4000, [ex_tx_value false (10 ^ 21); ex_tx_value false 5])) =
    ([mkRes CODE_APPLY_ERROR 100000 21000 []; mkRes 0 100000 21000 []], []) /\
  results (exec_block ex_interp (mkImpl false false false true) env_rev ex_state (mkHeader 7 4000, [ex_tx_value false (10 ^ 21); ex_tx_value false 5])) =
    ([mkRes CODE_PANIC 100000 21000 []; mkRes 0 100000 21000 []], []).
Proof. split; vm_compute; reflexivity. Qed.

(* the mempool (CheckTx) decision does depend on the node's configuration: the ambient input is really wired in *)
Lemma checktx_depends_on_node_config :
  checktx_admits env_id ex_state (ex_tx 0 false None) = true /\
  checktx_admits env_rev ex_state (ex_tx 0 false None) = false.
Proof. split; vm_compute; reflexivity. Qed.

(* distinct operators make validators distinct and their sort keys injective *)
Lemma distinct_ops l : NoDup (map v_op l) -> NoDup l /\ key_inj l.
Proof.
  intros H. split.
  - eapply NoDup_map_inv. exact H.
  - induction l as [|x r IH]; intros a b Ha Hb Ht Ho; [contradiction|].
    cbn [map] in H. inversion H as [|? ? Hnin Hr]; subst.
    destruct Ha as [<-|Ha]; destruct Hb as [<-|Hb]; try reflexivity.
    + exfalso. apply Hnin. rewrite Ho. apply in_map. exact Hb.
    + exfalso. apply Hnin. rewrite <- Ho. apply in_map. exact Ha.
    + apply (IH Hr); assumption.
Qed.

Lemma ex_vals_distinct : NoDup (map v_op ex_vals).
Proof.
  change (map v_op ex_vals) with [0; 1; 2; 3].
  repeat constructor; cbn [In]; intros H; repeat (destruct H as [H|H]; [discriminate H|]); exact H.
Qed.

(* ------------------------------------------------------------------ a node's life *)

Section NodeProofs.
  Variable interp : header -> world -> txd -> list op * Z * Z * bool.

  Lemma local_answer_no_block im mem e (nd : node mem) q outs :
    block_outs (local_answer interp im mem e nd q :: outs) = block_outs outs.
  Proof.
    unfold local_answer. destruct q as [ver t|t|t]; [|reflexivity|reflexivity].
    destruct (nth_error (nd_old mem nd ++ [nd_cur mem nd]) ver); reflexivity.
  Qed.

  (* the blocks of a life come out as the bare chain of its blocks does: local requests, whatever they leave in the
     process' memory, and restarts are erasable *)
  Lemma node_run_blocks im mem serve after_block boot ef l : forall (nd : node mem),
    let r := node_run interp im mem serve after_block boot ef nd l in
    let c := exec_chain interp im ef (nd_n mem nd) (nd_cur mem nd) (blocks_of l) in
    nd_cur mem (fst r) = fst c /\ block_outs (snd r) = snd c.
  Proof.
    induction l as [|ev l IH]; intros nd; cbn [node_run blocks_of exec_chain].
    - split; reflexivity.
    - destruct ev as [b|q|].
      + cbn [exec_chain].
        destruct (exec_block interp im (ef (nd_n mem nd)) (nd_cur mem nd) b) as [[s1 rs] vu].
        specialize (IH (mkNode mem (nd_old mem nd ++ [nd_cur mem nd]) s1 (after_block (nd_mem mem nd) b) (S (nd_n mem nd)))).
        cbv zeta in IH. cbn [nd_n nd_cur] in IH.
        destruct (node_run interp im mem serve after_block boot ef
                    (mkNode mem (nd_old mem nd ++ [nd_cur mem nd]) s1 (after_block (nd_mem mem nd) b) (S (nd_n mem nd))) l) as [nd' outs].
        destruct (exec_chain interp im ef (S (nd_n mem nd)) s1 (blocks_of l)) as [s2 out].
        cbn [fst snd block_outs] in *. destruct IH as [A B]. split; [exact A|]. rewrite B. reflexivity.
      + specialize (IH (mkNode mem (nd_old mem nd) (nd_cur mem nd) (serve (nd_mem mem nd) q) (nd_n mem nd))).
        cbv zeta in IH. cbn [nd_n nd_cur] in IH.
        destruct (node_run interp im mem serve after_block boot ef
                    (mkNode mem (nd_old mem nd) (nd_cur mem nd) (serve (nd_mem mem nd) q) (nd_n mem nd)) l) as [nd' outs].
        cbn [fst snd] in *. rewrite local_answer_no_block. exact IH.
      + specialize (IH (mkNode mem (nd_old mem nd) (nd_cur mem nd) boot (nd_n mem nd))).
        cbv zeta in IH. cbn [nd_n nd_cur] in IH.
        destruct (node_run interp im mem serve after_block boot ef
                    (mkNode mem (nd_old mem nd) (nd_cur mem nd) boot (nd_n mem nd)) l) as [nd' outs].
        cbn [fst snd block_outs] in *. exact IH.
  Qed.

  (* two nodes — other memory contents and other ways of using it, other local requests in other places, other
     restarts, other ambient conditions for every block — that execute the same blocks from the same state *)
  Lemma node_lives_agree mem1 mem2 serve1 serve2 ab1 ab2 boot1 boot2 ef1 ef2 l1 l2
      (nd1 : node mem1) (nd2 : node mem2) :
    (forall n, enum_ok (ef1 n)) -> (forall n, enum_ok (ef2 n)) ->
    nd_cur mem1 nd1 = nd_cur mem2 nd2 -> nd_n mem1 nd1 = nd_n mem2 nd2 -> blocks_of l1 = blocks_of l2 ->
    let r1 := node_run interp impl_head mem1 serve1 ab1 boot1 ef1 nd1 l1 in
    let r2 := node_run interp impl_head mem2 serve2 ab2 boot2 ef2 nd2 l2 in
    nd_cur mem1 (fst r1) = nd_cur mem2 (fst r2) /\ block_outs (snd r1) = block_outs (snd r2).
  Proof.
    intros H1 H2 Ec En Eb. cbv zeta.
    destruct (node_run_blocks impl_head mem1 serve1 ab1 boot1 ef1 l1 nd1) as [A1 B1].
    destruct (node_run_blocks impl_head mem2 serve2 ab2 boot2 ef2 l2 nd2) as [A2 B2].
    rewrite A1, A2, B1, B2, Ec, En, Eb.
    rewrite (exec_chain_env_independent interp ef1 ef2 H1 H2). split; reflexivity.
  Qed.
End NodeProofs.
