(* Proofs about Model/SignDocFields.v: the guard step of decodeProtobufSignDoc binds every field of a protobuf sign
   document except the signature envelope (public key, sign mode): a field is either copied into the legacy sign document
   the typed data is rendered from, or forced to one value (anything else: refused). *)
From Coq Require Import String Ascii.
From Coq Require Import List NArith Bool Lia.
From Evm Require Import SigWrap SignDocFields.
Import ListNotations.
Open Scope N_scope.

Section PbProofs.
  Variable A : Type.
  Variable MI : Type.
  Variable msgs_ok : list A -> bool.
  Variable chain_ok : bytes -> bool.

  Notation decode := (pb_decode A MI msgs_ok chain_ok).
  Notation get := (pb_get A MI).

  Lemma is_nil_true : forall X (l : list X), is_nil l = true -> l = [].
  Proof. intros X [|x l] H; [reflexivity|discriminate H]. Qed.

  (* what an accepted document looks like *)
  Lemma pb_decode_some : forall d s, decode d = Some s ->
    exists si f,
      pb_timeout_height A MI d = 0 /\ pb_ext A MI d = [] /\ pb_ncext A MI d = [] /\
      pb_signer_infos A MI d = [si] /\ pb_fee A MI d = Some f /\
      fee_payer f = [] /\ fee_granter f = [] /\ pb_tip A MI d = None /\
      msgs_ok (pb_messages A MI d) = true /\ chain_ok (pb_chain_id A MI d) = true /\
      s = mkStd (pb_chain_id A MI d) (pb_account_number A MI d) (si_sequence A MI si) (pb_timeout_height A MI d)
                (fee_amount f) (fee_gas_limit f) (pb_messages A MI d) (pb_memo A MI d).
  Proof.
    intros d s H. unfold pb_decode in H.
    destruct (pb_timeout_height A MI d =? 0) eqn:Et; cbn [negb orb] in H; [|discriminate H].
    destruct (is_nil (pb_ext A MI d)) eqn:Ee; cbn [negb orb] in H; [|discriminate H].
    destruct (is_nil (pb_ncext A MI d)) eqn:En; cbn [negb orb] in H; [|discriminate H].
    destruct (pb_signer_infos A MI d) as [|si [|si2 r]] eqn:Es; [discriminate H| |discriminate H].
    destruct (pb_fee A MI d) as [f|] eqn:Ef; [|discriminate H].
    destruct (is_nil (fee_payer f)) eqn:Ep; cbn [negb orb] in H; [|discriminate H].
    destruct (is_nil (fee_granter f)) eqn:Eg; cbn [negb orb] in H; [|discriminate H].
    destruct (pb_tip A MI d) as [tp|] eqn:Etp; cbn [is_set] in H; [discriminate H|].
    destruct (msgs_ok (pb_messages A MI d)) eqn:Em; cbn [andb] in H; [|discriminate H].
    destruct (chain_ok (pb_chain_id A MI d)) eqn:Ec; [|discriminate H].
    exists si, f. apply N.eqb_eq in Et.
    repeat split; try reflexivity; try assumption; try (apply is_nil_true; assumption).
    congruence.
  Qed.

  (* a rendered field is in the legacy document *)
  Lemma rendered_in_stddoc : forall f d s, decode d = Some s -> pb_class f = PRendered ->
    sd_get A MI f s = Some (get f d).
  Proof.
    intros f d s H Hc. destruct (pb_decode_some d s H) as [si [fe [Ht [Hx [Hn [Hs [Hf [Hp [Hg [Htp [Hm [Hch Hsd]]]]]]]]]]]].
    subst s. destruct f; try discriminate Hc; cbn [sd_get pb_get sd_account_number sd_fee_amount sd_gas sd_sequence sd_memo sd_msgs sd_chain_id];
      rewrite ?Hf, ?Hs; reflexivity.
  Qed.

  (* a refused field has its one admissible value in every accepted document *)
  Lemma refused_is_forced : forall f d s, decode d = Some s -> pb_class f = PRefused ->
    pb_forced A MI f = Some (get f d).
  Proof.
    intros f d s H Hc. destruct (pb_decode_some d s H) as [si [fe [Ht [Hx [Hn [Hs [Hf [Hp [Hg [Htp [Hm [Hch Hsd]]]]]]]]]]]].
    destruct f; try discriminate Hc; cbn [pb_forced pb_get];
      rewrite ?Hf, ?Hs, ?Htp, ?Hx, ?Hn, ?Ht, ?Hp, ?Hg; reflexivity.
  Qed.

  Lemma class_cases : forall f, pb_class f = PRendered \/ pb_class f = PRefused \/ pb_class f = PSame.
  Proof. destruct f; cbn; auto. Qed.

  Lemma class_same_iff : forall f, pb_class f = PSame <-> (f = F_si_mode_info \/ f = F_si_public_key).
  Proof. destruct f; cbn; split; intros H; try discriminate H; try (destruct H as [H|H]; discriminate H); auto. Qed.

  (* every signed field is either rendered or the document is refused: two accepted documents that hand the same
     legacy document to the renderer agree on every field but the two envelope fields *)
  Lemma pb_decode_binds_field : forall f d1 d2 s, decode d1 = Some s -> decode d2 = Some s ->
    pb_class f <> PSame -> get f d1 = get f d2.
  Proof.
    intros f d1 d2 s H1 H2 Hc. destruct (class_cases f) as [C|[C|C]]; [| |contradiction].
    - pose proof (rendered_in_stddoc f d1 s H1 C) as R1. pose proof (rendered_in_stddoc f d2 s H2 C) as R2. congruence.
    - pose proof (refused_is_forced f d1 s H1 C) as R1. pose proof (refused_is_forced f d2 s H2 C) as R2. congruence.
  Qed.

  (* the enumeration is complete: the fields ARE the document *)
  Lemma map3_eq : forall (l1 l2 : list (signer_info A MI)),
    map (si_public_key A MI) l1 = map (si_public_key A MI) l2 ->
    map (si_mode_info A MI) l1 = map (si_mode_info A MI) l2 ->
    map (si_sequence A MI) l1 = map (si_sequence A MI) l2 -> l1 = l2.
  Proof.
    induction l1 as [|a l1 IH]; intros [|b l2] H1 H2 H3; try discriminate; [reflexivity|].
    cbn [map] in *. injection H1 as P1 P1'. injection H2 as P2 P2'. injection H3 as P3 P3'.
    rewrite (IH l2 P1' P2' P3'). destruct a, b; cbn in *; subst; reflexivity.
  Qed.

  Lemma fields_complete : forall d1 d2, (forall f, get f d1 = get f d2) -> d1 = d2.
  Proof.
    intros d1 d2 H.
    pose proof (H F_account_number) as H1. pose proof (H F_fee) as H2. pose proof (H F_fee_amount) as H3.
    pose proof (H F_fee_gas_limit) as H4. pose proof (H F_fee_granter) as H5. pose proof (H F_fee_payer) as H6.
    pose proof (H F_si_mode_info) as H8. pose proof (H F_si_public_key) as H9.
    pose proof (H F_si_sequence) as H10. pose proof (H F_tip) as H11. pose proof (H F_tip_amount) as H12.
    pose proof (H F_tip_tipper) as H13. pose proof (H F_ext) as H14. pose proof (H F_memo) as H15.
    pose proof (H F_messages) as H16. pose proof (H F_ncext) as H17. pose proof (H F_timeout_height) as H18.
    pose proof (H F_chain_id) as H19. clear H.
    destruct d1 as [m1 me1 t1 e1 n1 s1 f1 tp1 c1 a1], d2 as [m2 me2 t2 e2 n2 s2 f2 tp2 c2 a2].
    cbn [pb_get pb_account_number pb_fee pb_signer_infos pb_tip pb_ext pb_memo pb_messages pb_ncext pb_timeout_height pb_chain_id] in *.
    assert (Es : s1 = s2) by (apply map3_eq; congruence).
    assert (Ef : f1 = f2).
    { destruct f1 as [[x1 x2 x3 x4]|], f2 as [[y1 y2 y3 y4]|]; cbn in *; try discriminate; [|reflexivity]. congruence. }
    assert (Et : tp1 = tp2).
    { destruct tp1 as [[x1 x2]|], tp2 as [[y1 y2]|]; cbn in *; try discriminate; [|reflexivity]. congruence. }
    congruence.
  Qed.

  Lemma get_strip : forall f d, pb_class f <> PSame -> get f (strip_envelope A MI d) = get f d.
  Proof.
    intros f d Hc. destruct f; cbn [pb_get strip_envelope pb_account_number pb_fee pb_signer_infos pb_tip pb_ext pb_memo pb_messages pb_ncext pb_timeout_height pb_chain_id];
      try reflexivity; try (exfalso; apply Hc; reflexivity).
    - rewrite map_length. reflexivity.
    - rewrite map_map. reflexivity.
  Qed.

  Lemma get_strip_env : forall f d1 d2, pb_class f = PSame ->
    length (pb_signer_infos A MI d1) = length (pb_signer_infos A MI d2) ->
    get f (strip_envelope A MI d1) = get f (strip_envelope A MI d2).
  Proof.
    intros f d1 d2 Hc Hl. apply class_same_iff in Hc.
    assert (Hn : forall (X : Type) (l1 l2 : list (signer_info A MI)), length l1 = length l2 ->
                 map (fun _ : signer_info A MI => @None X) l1 = map (fun _ => @None X) l2).
    { intros X l1. induction l1 as [|a l1 IH]; intros [|b l2] E; try discriminate E; [reflexivity|].
      cbn [map]. f_equal. apply IH. injection E as E. exact E. }
    destruct Hc as [-> | ->]; cbn [pb_get strip_envelope pb_signer_infos]; rewrite !map_map; cbn [si_mode_info si_public_key];
      f_equal; apply Hn; exact Hl.
  Qed.

  (* the statement in one piece: same rendering input => same document up to public key and sign mode *)
  Lemma pb_decode_binds : forall d1 d2 s, decode d1 = Some s -> decode d2 = Some s ->
    strip_envelope A MI d1 = strip_envelope A MI d2.
  Proof.
    intros d1 d2 s H1 H2. apply fields_complete. intros f.
    destruct (class_cases f) as [C|[C|C]].
    - rewrite !get_strip by congruence. apply (pb_decode_binds_field f d1 d2 s H1 H2). congruence.
    - rewrite !get_strip by congruence. apply (pb_decode_binds_field f d1 d2 s H1 H2). congruence.
    - apply get_strip_env; [exact C|].
      destruct (pb_decode_some d1 s H1) as [si1 [f1 [_ [_ [_ [Hs1 _]]]]]].
      destruct (pb_decode_some d2 s H2) as [si2 [f2 [_ [_ [_ [Hs2 _]]]]]].
      rewrite Hs1, Hs2. reflexivity.
  Qed.
End PbProofs.

(* without the extension-options term of the first guard the step does not bind body.extension_options *)
Definition ext_unbound_doc (ext : list N) : pbdoc N N :=
  mkPb [7] [] 0 ext [] [mkSI None None 5] (Some (mkFee [] 200000 [] [])) None (bs "evermint_80808-1") 3.

Lemma pb_decode_without_ext_guard_not_binding :
  exists d1 d2 s,
    pb_decode_without_ext_guard N N (fun _ => true) (fun _ => true) d1 = Some s /\
    pb_decode_without_ext_guard N N (fun _ => true) (fun _ => true) d2 = Some s /\
    pb_get N N F_ext d1 <> pb_get N N F_ext d2 /\
    (* the code as it is refuses the second one *)
    pb_decode N N (fun _ => true) (fun _ => true) d2 = None.
Proof.
  exists (ext_unbound_doc []), (ext_unbound_doc [1]). eexists. repeat split; try (vm_compute; reflexivity).
  vm_compute. discriminate.
Qed.

(* table facts *)
Lemma pb_table_paths_distinct : NoDup (map fst pb_table).
Proof.
  unfold pb_table. rewrite map_map. cbn [map all_fields fst].
  repeat (constructor; [cbn [In]; intros H; repeat (destruct H as [H|H]; [vm_compute in H; discriminate H|]); exact H|]).
  constructor.
Qed.

Lemma all_fields_complete : forall f, In f all_fields.
Proof. destruct f; cbn; tauto. Qed.
