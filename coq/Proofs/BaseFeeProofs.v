From Evm Require Import BaseFee.
From Coq Require Import Lia ZifyBool.
Open Scope Z_scope.
Ltac Zify.zify_post_hook ::= Z.div_mod_to_equations.

Lemma E18_pos : 0 < E18. Proof. reflexivity. Qed.
Lemma MAX256_pos : 0 < MAX256. Proof. reflexivity. Qed.

Lemma gas_limit_nonneg mg : -1 <= mg -> 0 <= gas_limit mg.
Proof. unfold gas_limit, MAXU64. destruct (mg >? -1) eqn:?; lia. Qed.

Lemma gas_target_nonneg mg : -1 <= mg -> 0 <= gas_target mg.
Proof. intros H. unfold gas_target. pose proof (gas_limit_nonneg mg H). apply Z.div_pos; lia. Qed.

(* geth's formula = the specification's formula (multiplication order) *)
Lemma geth_calc_spec b used target :
  0 < target -> geth_calc b used target = Ok (eip1559_spec b used target).
Proof.
  intros Ht. unfold geth_calc, eip1559_spec.
  destruct (used =? target) eqn:E1; [reflexivity|].
  destruct (used >? target) eqn:E2.
  - assert (target <? used = true) as -> by lia.
    assert (target =? 0 = false) as -> by lia.
    rewrite (Z.mul_comm (used - target) b). reflexivity.
  - assert (target <? used = false) as -> by lia.
    assert (target =? 0 = false) as -> by lia.
    rewrite (Z.mul_comm (target - used) b). rewrite Z.max_comm. reflexivity.
Qed.

Lemma geth_calc_never_divzero_pos b used target :
  0 < target -> geth_calc b used target <> PanicDivZero.
Proof. intros H. rewrite geth_calc_spec by assumption. discriminate. Qed.

(* --- the code never divides by zero, whatever the inputs --- *)
Lemma calc_never_divzero b used mg md :
  -1 <= mg -> calc_base_fee b used mg md <> PanicDivZero.
Proof.
  intros Hmg. unfold calc_base_fee.
  pose proof (gas_target_nonneg mg Hmg) as Ht.
  destruct (gas_target mg =? 0) eqn:E.
  - destruct (_ <=? MAX256); discriminate.
  - rewrite geth_calc_spec by lia. destruct (_ <=? MAX256); discriminate.
Qed.

(* --- functional specification --- *)
Definition spec_next (b used mg md : Z) : Z :=
  let t := gas_target mg in
  Z.max (if t =? 0 then b else eip1559_spec b used t) (md / E18).

Lemma calc_is_spec b used mg md :
  -1 <= mg ->
  calc_base_fee b used mg md =
    if spec_next b used mg md <=? MAX256 then Ok (spec_next b used mg md) else PanicOverflow.
Proof.
  intros Hmg. unfold calc_base_fee, spec_next.
  pose proof (gas_target_nonneg mg Hmg) as Ht.
  destruct (gas_target mg =? 0) eqn:E; [reflexivity|].
  rewrite geth_calc_spec by lia. reflexivity.
Qed.

Lemma eip_nonneg b used t : 0 <= b -> 0 < t -> 0 <= used -> 0 <= eip1559_spec b used t.
Proof.
  intros Hb Ht Hu. unfold eip1559_spec.
  destruct (used =? t) eqn:?; [lia|].
  destruct (t <? used) eqn:?; [|lia].
  assert (0 <= b * (used - t) / t / 8).
  { apply Z.div_pos; [|lia]. apply Z.div_pos; [|lia]. apply Z.mul_nonneg_nonneg; lia. }
  lia.
Qed.

Lemma eip_at_target b t : eip1559_spec b t t = b.
Proof. unfold eip1559_spec. rewrite Z.eqb_refl. reflexivity. Qed.

Lemma eip_above b used t : 0 <= b -> 0 < t -> t < used -> b + 1 <= eip1559_spec b used t.
Proof.
  intros. unfold eip1559_spec.
  assert (used =? t = false) as -> by lia. assert (t <? used = true) as -> by lia. lia.
Qed.

Lemma eip_below b used t : 0 <= b -> 0 < t -> 0 <= used < t ->
  0 <= eip1559_spec b used t <= b.
Proof.
  intros Hb Ht Hu. unfold eip1559_spec.
  assert (used =? t = false) as -> by lia. assert (t <? used = false) as -> by lia.
  assert (0 <= b * (t - used) / t / 8).
  { apply Z.div_pos; [|lia]. apply Z.div_pos; [|lia]. apply Z.mul_nonneg_nonneg; lia. }
  lia.
Qed.

(* upper bound on the increase when usage is within the block limit: at most b/4 + 1 *)
Lemma eip_upper b used t :
  0 <= b -> 0 < t -> 0 <= used <= 2 * t + 1 -> eip1559_spec b used t <= b + b / 4 + 1.
Proof.
  intros Hb Ht Hu. unfold eip1559_spec.
  destruct (used =? t) eqn:?; [ assert (0 <= b/4) by (apply Z.div_pos; lia); lia |].
  destruct (t <? used) eqn:?.
  - assert (b * (used - t) / t / 8 <= b / 4); [|lia].
    assert (b * (used - t) <= b * (t + 1)) by (apply Z.mul_le_mono_nonneg_l; lia).
    assert (b * (used - t) / t <= b * (t + 1) / t) by (apply Z.div_le_mono; lia).
    assert (b * (t + 1) / t <= 2 * b).
    { apply Z.div_le_upper_bound; [lia|]. nia. }
    assert (b * (used - t) / t / 8 <= 2 * b / 8) by (apply Z.div_le_mono; lia).
    assert (2 * b / 8 = b / 4) as <-; [|lia].
    replace 8 with (2 * 4) by reflexivity.
    rewrite Z.div_mul_cancel_l by lia. reflexivity.
  - pose proof (eip_below b used t Hb Ht ltac:(lia)) as Hbel.
    unfold eip1559_spec in Hbel.
    assert (used =? t = false) as E1 by lia. assert (t <? used = false) as E2 by lia.
    rewrite E1, E2 in Hbel.
    assert (0 <= b/4) by (apply Z.div_pos; lia). lia.
Qed.

Lemma used_le_limit_target mg used :
  -1 <= mg -> 0 <= used <= gas_limit mg -> used <= 2 * gas_target mg + 1.
Proof. intros Hmg Hu. unfold gas_target. pose proof (gas_limit_nonneg mg Hmg). lia. Qed.

Lemma spec_next_nonneg b used mg md :
  -1 <= mg -> 0 <= b -> 0 <= used -> 0 <= spec_next b used mg md.
Proof.
  intros Hmg Hb Hu. unfold spec_next.
  pose proof (gas_target_nonneg mg Hmg) as Ht.
  destruct (gas_target mg =? 0) eqn:E; [lia|].
  pose proof (eip_nonneg b used (gas_target mg) Hb ltac:(lia) Hu). lia.
Qed.

Lemma spec_next_ge_floor b used mg md : md / E18 <= spec_next b used mg md.
Proof. unfold spec_next. lia. Qed.

Theorem calc_total b used mg md :
  -1 <= mg -> 0 <= b -> 0 <= used <= gas_limit mg ->
  b + b / 4 + 1 <= MAX256 -> md / E18 <= MAX256 ->
  exists z, calc_base_fee b used mg md = Ok z.
Proof.
  intros Hmg Hb Hu Hbb Hmd. rewrite calc_is_spec by assumption.
  assert (spec_next b used mg md <= MAX256) as Hle.
  { unfold spec_next. pose proof (gas_target_nonneg mg Hmg) as Ht.
    assert (0 <= b / 4) by (apply Z.div_pos; lia).
    destruct (gas_target mg =? 0) eqn:E; [lia|].
    pose proof (eip_upper b used (gas_target mg) Hb ltac:(lia)
                  ltac:(pose proof (used_le_limit_target mg used Hmg Hu); lia)). lia. }
  assert (spec_next b used mg md <=? MAX256 = true) as -> by lia.
  eexists; reflexivity.
Qed.

(* the only failure left is the 256-bit overflow of the result *)
Theorem calc_fails_only_by_overflow b used mg md :
  -1 <= mg -> (exists z, calc_base_fee b used mg md = Ok z) \/
              (calc_base_fee b used mg md = PanicOverflow /\ MAX256 < spec_next b used mg md).
Proof.
  intros Hmg. rewrite calc_is_spec by assumption.
  destruct (spec_next b used mg md <=? MAX256) eqn:E; [left; eexists; reflexivity|right; split; [reflexivity|lia]].
Qed.

Theorem calc_result b used mg md z :
  -1 <= mg -> calc_base_fee b used mg md = Ok z -> z = spec_next b used mg md.
Proof.
  intros Hmg. rewrite calc_is_spec by assumption.
  destruct (_ <=? MAX256); congruence.
Qed.

(* --- histories: any number of blocks with arbitrary fill, max_gas and min gas price --- *)
Record blk := { bused : Z; bmaxgas : Z; bmindec : Z }.
Definition blk_valid (k : blk) : Prop :=
  -1 <= bmaxgas k /\ 0 <= bused k <= gas_limit (bmaxgas k) /\ 0 <= bmindec k.

Fixpoint run_blocks (b : Z) (l : list blk) : res :=
  match l with
  | [] => Ok b
  | k :: r =>
      match calc_base_fee b (bused k) (bmaxgas k) (bmindec k) with
      | Ok b' => run_blocks b' r
      | e => e
      end
  end.

Theorem history_nonneg_no_divzero l : forall b,
  0 <= b -> Forall blk_valid l ->
  run_blocks b l <> PanicDivZero /\ (forall z, run_blocks b l = Ok z -> 0 <= z).
Proof.
  induction l as [|k r IH]; intros b Hb Hv; cbn [run_blocks].
  - split; [discriminate|]. intros z [= <-]. exact Hb.
  - inversion Hv as [|? ? [Hmg [Hu Hmd]] Hr]; subst.
    destruct (calc_base_fee b (bused k) (bmaxgas k) (bmindec k)) as [b'| |] eqn:E.
    + apply IH; [|assumption].
      apply calc_result in E; [|assumption]. subst b'.
      apply spec_next_nonneg; lia.
    + exfalso. revert E. apply calc_never_divzero. assumption.
    + split; [discriminate|]. intros z [=].
Qed.

(* --- admission floor --- *)
Theorem price_bound m dyn base gmin nmin tip cap price :
  admit_price m dyn base gmin nmin tip cap price = true ->
  base <= eff_price dyn base tip cap price /\ gmin / E18 <= eff_price dyn base tip cap price.
Proof.
  unfold admit_price, min_allowed. intros H.
  destruct m; lia.
Qed.
