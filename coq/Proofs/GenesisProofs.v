(* Proofs about Model/Genesis.v (C18). *)
From Evm Require Import Genesis.
From Coq Require Import Lia ZifyBool.
Open Scope Z_scope.

(* ================================================================== sorted association lists *)
Section Maps.
Context {V : Type}.
Implicit Types m : zmap V.

Fixpoint sortedP (m : zmap V) : Prop :=
  match m with
  | [] => True
  | (k, _) :: r => (forall k' v', In (k', v') r -> k < k') /\ sortedP r
  end.

Lemma sortedb_P : forall m, sortedb m = true -> sortedP m.
Proof.
  induction m as [|[k v] r IH]; cbn [sortedb sortedP]; intros H; [exact I|].
  destruct r as [|[k1 v1] r1].
  - split; [intros ? ? []|exact I].
  - apply andb_true_iff in H. destruct H as [Hlt Hs]. specialize (IH Hs).
    split; [|exact IH].
    intros k' v' [Heq|Hin].
    + inversion Heq; subst. lia.
    + destruct IH as [Hlb _]. specialize (Hlb _ _ Hin). lia.
Qed.

Lemma sortedP_b : forall m, sortedP m -> sortedb m = true.
Proof.
  induction m as [|[k v] r IH]; cbn [sortedb sortedP]; intros H; [reflexivity|].
  destruct H as [Hlb Hs]. destruct r as [|[k1 v1] r1]; [reflexivity|].
  apply andb_true_iff. split; [|exact (IH Hs)].
  specialize (Hlb k1 v1 (or_introl eq_refl)). lia.
Qed.

Lemma zget_Some_In : forall m k v, zget k m = Some v -> In (k, v) m.
Proof.
  induction m as [|[k1 v1] r IH]; cbn [zget]; intros k v H; [discriminate|].
  destruct (k =? k1) eqn:E.
  - inversion H; subst. left. f_equal. lia.
  - right. exact (IH _ _ H).
Qed.

Lemma zget_None_notin : forall m k, (forall v, ~ In (k, v) m) -> zget k m = None.
Proof.
  intros m k H. destruct (zget k m) eqn:E; [|reflexivity].
  exfalso. exact (H _ (zget_Some_In _ _ _ E)).
Qed.

Lemma In_zget : forall m k v, sortedP m -> In (k, v) m -> zget k m = Some v.
Proof.
  induction m as [|[k1 v1] r IH]; cbn [zget sortedP]; intros k v Hs Hin; [destruct Hin|].
  destruct Hs as [Hlb Hs]. destruct Hin as [Heq|Hin].
  - inversion Heq; subst. rewrite Z.eqb_refl. reflexivity.
  - specialize (Hlb _ _ Hin). destruct (k =? k1) eqn:E; [lia|]. exact (IH _ _ Hs Hin).
Qed.

Lemma zget_None_In : forall m k v, zget k m = None -> ~ In (k, v) m.
Proof.
  induction m as [|[k1 v1] r IH]; cbn [zget]; intros k v H Hin; [destruct Hin|].
  destruct (k =? k1) eqn:E; [discriminate|].
  destruct Hin as [Heq|Hin]; [inversion Heq; subst; lia|]. exact (IH _ _ H Hin).
Qed.

Lemma sorted_ext : forall a b : zmap V, sortedP a -> sortedP b -> (forall k, zget k a = zget k b) -> a = b.
Proof.
  induction a as [|[k v] a IH]; intros b Ha Hb Hext.
  - destruct b as [|[k1 v1] b]; [reflexivity|].
    specialize (Hext k1). cbn [zget] in Hext. rewrite Z.eqb_refl in Hext. discriminate.
  - destruct b as [|[k1 v1] b].
    + specialize (Hext k). cbn [zget] in Hext. rewrite Z.eqb_refl in Hext. discriminate.
    + cbn [sortedP] in Ha, Hb. destruct Ha as [Hlba Ha]. destruct Hb as [Hlbb Hb].
      assert (Hk : k = k1).
      { destruct (Z.lt_trichotomy k k1) as [Hlt|[Heq|Hgt]]; [|exact Heq|].
        - exfalso. pose proof (Hext k) as H. cbn [zget] in H. rewrite Z.eqb_refl in H.
          destruct (k =? k1) eqn:E; [lia|]. symmetry in H. apply zget_Some_In in H.
          specialize (Hlbb _ _ H). lia.
        - exfalso. pose proof (Hext k1) as H. cbn [zget] in H. rewrite Z.eqb_refl in H.
          destruct (k1 =? k) eqn:E; [lia|]. apply zget_Some_In in H.
          specialize (Hlba _ _ H). lia. }
      subst k1.
      assert (Hv : v = v1).
      { pose proof (Hext k) as H. cbn [zget] in H. rewrite Z.eqb_refl in H. inversion H. reflexivity. }
      subst v1. f_equal. apply IH; [exact Ha|exact Hb|].
      intros k'. pose proof (Hext k') as H. cbn [zget] in H.
      destruct (k' =? k) eqn:E; [|exact H].
      assert (k' = k) by lia. subst k'.
      rewrite (zget_None_notin a k), (zget_None_notin b k); [reflexivity| |].
      * intros v' Hin. specialize (Hlbb _ _ Hin). lia.
      * intros v' Hin. specialize (Hlba _ _ Hin). lia.
Qed.

Lemma zget_zset : forall m k k' v, zget k (zset k' v m) = if k =? k' then Some v else zget k m.
Proof.
  induction m as [|[k1 v1] r IH]; intros k k' v; cbn [zset zget].
  - destruct (k =? k'); reflexivity.
  - destruct (k' <? k1) eqn:E1.
    + cbn [zget]. destruct (k =? k') eqn:E; reflexivity.
    + destruct (k' =? k1) eqn:E2.
      * cbn [zget]. destruct (k =? k') eqn:E; [reflexivity|].
        destruct (k =? k1) eqn:E3; [lia|reflexivity].
      * cbn [zget]. destruct (k =? k1) eqn:E3.
        -- destruct (k =? k') eqn:E; [lia|reflexivity].
        -- apply IH.
Qed.

Lemma In_zset : forall m k v k' v', In (k', v') (zset k v m) -> (k' = k /\ v' = v) \/ In (k', v') m.
Proof.
  induction m as [|[k1 v1] r IH]; intros k v k' v'; cbn [zset].
  - intros [H|[]]. inversion H. auto.
  - destruct (k <? k1).
    + intros [H|H]; [inversion H; auto|right; exact H].
    + destruct (k =? k1).
      * intros [H|H]; [inversion H; auto|right; right; exact H].
      * intros [H|H]; [right; left; exact H|].
        destruct (IH _ _ _ _ H) as [H1|H1]; [left; exact H1|right; right; exact H1].
Qed.

Lemma zset_sorted : forall m k v, sortedP m -> sortedP (zset k v m).
Proof.
  induction m as [|[k1 v1] r IH]; intros k v Hs; cbn [zset].
  - cbn. split; [intros ? ? []|exact I].
  - cbn [sortedP] in Hs. destruct Hs as [Hlb Hs].
    destruct (k <? k1) eqn:E1.
    + cbn [sortedP]. split; [|split; assumption].
      intros k' v' [H|H]; [inversion H; subst; lia|]. specialize (Hlb _ _ H). lia.
    + destruct (k =? k1) eqn:E2.
      * cbn [sortedP]. split; [|exact Hs]. intros k' v' H. specialize (Hlb _ _ H). lia.
      * cbn [sortedP]. split; [|exact (IH _ _ Hs)].
        intros k' v' H. destruct (In_zset _ _ _ _ _ H) as [[H1 _]|H1]; [lia|]. exact (Hlb _ _ H1).
Qed.

Lemma In_zdel : forall m k x, In x (zdel k m) -> In x m.
Proof.
  induction m as [|[k1 v1] r IH]; intros k x; cbn [zdel]; [auto|].
  destruct (k =? k1); [intros H; right; exact H|].
  intros [H|H]; [left; exact H|right; exact (IH _ _ H)].
Qed.

Lemma zdel_sorted : forall m k, sortedP m -> sortedP (zdel k m).
Proof.
  induction m as [|[k1 v1] r IH]; intros k Hs; cbn [zdel]; [exact I|].
  cbn [sortedP] in Hs. destruct Hs as [Hlb Hs].
  destruct (k =? k1); [exact Hs|].
  cbn [sortedP]. split; [|exact (IH _ Hs)].
  intros k' v' H. exact (Hlb _ _ (In_zdel _ _ _ H)).
Qed.

Lemma zget_zdel : forall m k k', sortedP m -> zget k' (zdel k m) = if k' =? k then None else zget k' m.
Proof.
  induction m as [|[k1 v1] r IH]; intros k k' Hs; cbn [zdel zget].
  - destruct (k' =? k); reflexivity.
  - cbn [sortedP] in Hs. destruct Hs as [Hlb Hs].
    destruct (k =? k1) eqn:E.
    + destruct (k' =? k) eqn:E1.
      * apply zget_None_notin. intros v Hin. specialize (Hlb _ _ Hin). lia.
      * destruct (k' =? k1) eqn:E2; [lia|reflexivity].
    + cbn [zget]. destruct (k' =? k1) eqn:E2.
      * destruct (k' =? k) eqn:E1; [lia|reflexivity].
      * apply IH. exact Hs.
Qed.

Lemma filter_sorted : forall (f : Z * V -> bool) m, sortedP m -> sortedP (filter f m).
Proof.
  induction m as [|[k1 v1] r IH]; intros Hs; cbn [filter]; [exact I|].
  cbn [sortedP] in Hs. destruct Hs as [Hlb Hs].
  destruct (f (k1, v1)); [|exact (IH Hs)].
  cbn [sortedP]. split; [|exact (IH Hs)].
  intros k' v' H. apply filter_In in H. exact (Hlb _ _ (proj1 H)).
Qed.

(* ------------------------------------------------------------------ a store built by successive Set calls *)
Definition ins (m : zmap V) (kv : Z * V) : zmap V := zset (fst kv) (snd kv) m.

Fixpoint alast (k : Z) (l : list (Z * V)) : option V :=
  match l with
  | [] => None
  | (k', v) :: r => match alast k r with Some x => Some x | None => if k =? k' then Some v else None end
  end.

Lemma alast_In : forall l k v, alast k l = Some v -> In (k, v) l.
Proof.
  induction l as [|[k1 v1] r IH]; cbn [alast]; intros k v H; [discriminate|].
  destruct (alast k r) eqn:E.
  - inversion H; subst. right. exact (IH _ _ E).
  - destruct (k =? k1) eqn:E1; [|discriminate]. inversion H; subst. left. f_equal. lia.
Qed.

Lemma alast_None : forall l k v, alast k l = None -> ~ In (k, v) l.
Proof.
  induction l as [|[k1 v1] r IH]; cbn [alast]; intros k v H Hin; [destruct Hin|].
  destruct (alast k r) eqn:E; [discriminate|].
  destruct (k =? k1) eqn:E1; [discriminate|].
  destruct Hin as [Heq|Hin]; [inversion Heq; subst; lia|]. exact (IH _ _ E Hin).
Qed.

Lemma zget_fold : forall l acc k,
  zget k (fold_left ins l acc) = match alast k l with Some v => Some v | None => zget k acc end.
Proof.
  induction l as [|[k1 v1] r IH]; intros acc k; cbn [fold_left alast]; [reflexivity|].
  rewrite IH. destruct (alast k r); [reflexivity|].
  unfold ins. cbn [fst snd]. rewrite zget_zset. destruct (k =? k1); reflexivity.
Qed.

Lemma fold_sorted : forall l acc, sortedP acc -> sortedP (fold_left ins l acc).
Proof.
  induction l as [|x r IH]; intros acc Hs; cbn [fold_left]; [exact Hs|].
  apply IH. unfold ins. apply zset_sorted. exact Hs.
Qed.

(* a sorted store is rebuilt by setting its entries in any order, any number of times *)
Lemma fold_rebuild : forall l st,
  sortedP st -> (forall k v, In (k, v) l -> In (k, v) st) -> (forall k v, In (k, v) st -> In (k, v) l) ->
  fold_left ins l [] = st.
Proof.
  intros l st Hs Hsub Hsup. apply sorted_ext; [apply fold_sorted; exact I|exact Hs|].
  intros k. rewrite zget_fold. cbn [zget].
  destruct (alast k l) eqn:E.
  - symmetry. apply In_zget; [exact Hs|]. apply Hsub. exact (alast_In _ _ _ E).
  - symmetry. apply zget_None_notin. intros v Hin. exact (alast_None _ _ v E (Hsup _ _ Hin)).
Qed.
End Maps.

(* ================================================================== evm: export and import *)
Lemma SLOT_pos : 0 < SLOT.
Proof. reflexivity. Qed.

Lemma in_addr_owner : forall k, in_addr (k / SLOT) k = true.
Proof.
  intros k. unfold in_addr. pose proof SLOT_pos as Hp.
  pose proof (Z.mul_div_le k SLOT Hp). pose proof (Z.mul_succ_div_gt k SLOT Hp).
  apply andb_true_iff. split; lia.
Qed.

Lemma skey_slot : forall a k, skey a (k - a * SLOT) = k.
Proof. intros. unfold skey. lia. Qed.

(* the Set calls InitGenesis makes for a list of genesis accounts *)
Definition st_pairs (l : list gen_acct) : list (Z * Z) :=
  flat_map (fun a => map (fun kv => (skey (ga_addr a) (fst kv), snd kv)) (ga_storage a)) l.
Definition ch_pairs (v : env) (l : list gen_acct) : list (Z * Z) :=
  flat_map (fun a => if v_hash v (ga_code a) =? EMPTYH then [] else [(ga_addr a, v_hash v (ga_code a))]) l.
Definition cd_pairs (v : env) (l : list gen_acct) : list (Z * Z) :=
  flat_map (fun a => if ga_code a =? CODE_EMPTY then [] else [(v_hash v (ga_code a), ga_code a)]) l.

Lemma fold_storage : forall addr l st,
  fold_left (fun st kv => zset (skey addr (fst kv)) (snd kv) st) l st =
  fold_left ins (map (fun kv : Z * Z => (skey addr (fst kv), snd kv)) l) st.
Proof. induction l as [|x r IH]; intros st; cbn [fold_left map]; [reflexivity|]. rewrite IH. reflexivity. Qed.

Lemma import_accts_ok : forall v l e e',
  import_accts v e l = Ok e' ->
  e_params e' = e_params e /\
  e_codehash e' = fold_left ins (ch_pairs v l) (e_codehash e) /\
  e_code e' = fold_left ins (cd_pairs v l) (e_code e) /\
  e_storage e' = fold_left ins (st_pairs l) (e_storage e).
Proof.
  induction l as [|a r IH]; intros e e' H; cbn [import_accts] in H.
  - inversion H; subst. cbn. auto.
  - destruct (import_acct v e a) as [e1|] eqn:E1; [|discriminate].
    unfold import_acct in E1. destruct (negb (v_base_acct v (ga_addr a))); [discriminate|].
    inversion E1; subst e1; clear E1.
    destruct (IH _ _ H) as (Hp & Hch & Hcd & Hst). cbn [e_params e_codehash e_code e_storage] in *.
    unfold ch_pairs, cd_pairs, st_pairs. cbn [flat_map]. rewrite !fold_left_app.
    split; [exact Hp|]. split; [|split].
    + rewrite Hch. unfold ch_pairs. destruct (v_hash v (ga_code a) =? EMPTYH); reflexivity.
    + rewrite Hcd. unfold cd_pairs. destruct (ga_code a =? CODE_EMPTY); reflexivity.
    + rewrite Hst. unfold st_pairs. rewrite fold_storage. reflexivity.
Qed.

Lemma import_accts_total : forall v l e,
  (forall a, In a l -> v_base_acct v (ga_addr a) = true) -> exists e', import_accts v e l = Ok e'.
Proof.
  induction l as [|a r IH]; intros e H; cbn [import_accts]; [eauto|].
  unfold import_acct. rewrite (H a (or_introl eq_refl)). cbn [negb].
  apply IH. intros a' Hin. apply H. right. exact Hin.
Qed.

Lemma import_accts_panic : forall v l e a,
  In a l -> v_base_acct v (ga_addr a) = false -> import_accts v e l = Panic.
Proof.
  induction l as [|a0 r IH]; intros e a Hin Hb; [destruct Hin|].
  cbn [import_accts]. destruct (import_acct v e a0) as [e1|] eqn:E; [|reflexivity].
  destruct Hin as [Heq|Hin]; [|exact (IH _ _ Hin Hb)].
  subst a0. unfold import_acct in E. rewrite Hb in E. discriminate.
Qed.

(* ------------------------------------------------------------------ the invariant as propositions *)
Record wf_evm (v : env) (e : evm_state) : Prop := {
  w_hash0 : v_hash v CODE_EMPTY = EMPTYH;
  w_ch : sortedP (e_codehash e);
  w_st : sortedP (e_storage e);
  w_code : forall a h, In (a, h) (e_codehash e) ->
           h <> EMPTYH /\ exists c, zget h (e_code e) = Some c /\ c <> CODE_EMPTY /\ v_hash v c = h
}.

Lemma wfb_evm_wf : forall v e, wfb_evm v e = true -> wf_evm v e.
Proof.
  intros v e H. unfold wfb_evm in H.
  apply andb_true_iff in H. destruct H as [H Hc].
  apply andb_true_iff in H. destruct H as [H Hst].
  apply andb_true_iff in H. destruct H as [H0 Hch].
  constructor.
  - lia.
  - apply sortedb_P. exact Hch.
  - apply sortedb_P. exact Hst.
  - intros a h Hin. unfold code_okb in Hc.
    rewrite forallb_forall in Hc. specialize (Hc _ Hin). cbn [snd] in Hc.
    apply andb_true_iff in Hc. destruct Hc as [Hne Hc].
    split; [lia|]. destruct (zget h (e_code e)) as [c|]; [|discriminate].
    apply andb_true_iff in Hc. exists c. split; [reflexivity|]. split; lia.
Qed.

Lemma wf_evm_wfb : forall v e, wf_evm v e -> wfb_evm v e = true.
Proof.
  intros v e [H0 Hch Hst Hc]. unfold wfb_evm. repeat (apply andb_true_iff; split).
  - lia.
  - apply sortedP_b. exact Hch.
  - apply sortedP_b. exact Hst.
  - unfold code_okb. apply forallb_forall. intros [a h] Hin. cbn [snd].
    destruct (Hc _ _ Hin) as (Hne & c & Hg & Hce & Hh). rewrite Hg.
    apply andb_true_iff. split; [lia|]. apply andb_true_iff. split; lia.
Qed.

(* ------------------------------------------------------------------ what the exported account list contains *)
Lemma is_exported_contract_true : forall e a,
  is_exported_contract e a = true -> exists h, In (a, h) (e_codehash e) /\ h <> EMPTYH.
Proof.
  intros e a H. unfold is_exported_contract in H. apply existsb_exists in H.
  destruct H as [[a' h] [Hin Hc]]. cbn [fst snd] in Hc. apply andb_true_iff in Hc. destruct Hc as [Ha Hh].
  exists h. assert (a' = a) by lia. subst. split; [exact Hin|lia].
Qed.

Lemma In_export_contracts : forall e g,
  In g (export_contracts e) <->
  exists a h, In (a, h) (e_codehash e) /\ h <> EMPTYH /\ g = GA a (code_of h (e_code e)) (slots_of a (e_storage e)).
Proof.
  intros e g. unfold export_contracts. rewrite in_flat_map. split.
  - intros [[a h] [Hin Hg]]. destruct (h =? EMPTYH) eqn:E; [destruct Hg|].
    destruct Hg as [Hg|[]]. exists a, h. split; [exact Hin|]. split; [lia|]. symmetry. exact Hg.
  - intros (a & h & Hin & Hne & Hg). exists (a, h). split; [exact Hin|].
    destruct (h =? EMPTYH) eqn:E; [lia|]. left. symmetry. exact Hg.
Qed.

Lemma In_export_storage_only : forall e g,
  In g (export_storage_only e) <->
  exists a, In a (owners None (e_storage e)) /\ is_exported_contract e a = false /\
            g = GA a CODE_EMPTY (slots_of a (e_storage e)).
Proof.
  intros e g. unfold export_storage_only. rewrite in_map_iff. split.
  - intros [a [Hg Hin]]. apply filter_In in Hin. destruct Hin as [Hin Hf].
    exists a. split; [exact Hin|]. split; [destruct (is_exported_contract e a); [discriminate|reflexivity]|]. symmetry. exact Hg.
  - intros (a & Hin & Hf & Hg). exists a. split; [symmetry; exact Hg|]. apply filter_In. split; [exact Hin|]. rewrite Hf. reflexivity.
Qed.

Lemma owners_cover : forall st prev k (v : Z),
  In (k, v) st -> In (k / SLOT) (owners prev st) \/ prev = Some (k / SLOT).
Proof.
  induction st as [|[k0 v0] r IH]; intros prev k v Hin; [destruct Hin|].
  cbn [owners]. destruct Hin as [Heq|Hin].
  - inversion Heq; subst. destruct prev as [p|].
    + destruct (p =? k / SLOT) eqn:E; [right; f_equal; lia|left; left; reflexivity].
    + left. left. reflexivity.
  - destruct (IH (Some (k0 / SLOT)) _ _ Hin) as [H|H].
    + left. destruct (match prev with Some p => p =? k0 / SLOT | None => false end); [exact H|right; exact H].
    + inversion H as [H1]. destruct prev as [p|].
      * destruct (p =? k0 / SLOT) eqn:E; [right; f_equal; lia|left; left; reflexivity].
      * left. left. reflexivity.
Qed.

Lemma In_slot_pairs : forall a st k v,
  In (k, v) (map (fun kv : Z * Z => (skey a (fst kv), snd kv)) (slots_of a st)) <-> In (k, v) st /\ in_addr a k = true.
Proof.
  intros a st k v. unfold slots_of. rewrite map_map. cbn [fst snd]. rewrite in_map_iff. split.
  - intros [[k0 v0] [Heq Hin]]. cbn [fst snd] in Heq. rewrite skey_slot in Heq. inversion Heq; subst.
    apply filter_In in Hin. exact Hin.
  - intros [Hin Ha]. exists (k, v). cbn [fst snd]. rewrite skey_slot. split; [reflexivity|].
    apply filter_In. split; assumption.
Qed.

(* every stored slot is set again by the import, and nothing else *)
Lemma st_pairs_export : forall e k v, In (k, v) (st_pairs (export_evm e)) <-> In (k, v) (e_storage e).
Proof.
  intros e k v. unfold st_pairs. rewrite in_flat_map. split.
  - intros [g [Hg Hin]]. unfold export_evm in Hg. apply in_app_or in Hg. destruct Hg as [Hg|Hg].
    + apply In_export_contracts in Hg. destruct Hg as (a & h & _ & _ & Hg). subst g. cbn [ga_addr ga_storage] in Hin.
      apply In_slot_pairs in Hin. exact (proj1 Hin).
    + apply In_export_storage_only in Hg. destruct Hg as (a & _ & _ & Hg). subst g. cbn [ga_addr ga_storage] in Hin.
      apply In_slot_pairs in Hin. exact (proj1 Hin).
  - intros Hin. set (a := k / SLOT).
    destruct (is_exported_contract e a) eqn:E.
    + destruct (is_exported_contract_true _ _ E) as (h & Hh & Hne).
      exists (GA a (code_of h (e_code e)) (slots_of a (e_storage e))). split.
      * unfold export_evm. apply in_or_app. left. apply In_export_contracts. exists a, h. auto.
      * cbn [ga_addr ga_storage]. apply In_slot_pairs. split; [exact Hin|apply in_addr_owner].
    + exists (GA a CODE_EMPTY (slots_of a (e_storage e))). split.
      * unfold export_evm. apply in_or_app. right. apply In_export_storage_only. exists a.
        split; [|auto]. destruct (owners_cover _ None _ _ Hin) as [H|H]; [exact H|discriminate].
      * cbn [ga_addr ga_storage]. apply In_slot_pairs. split; [exact Hin|apply in_addr_owner].
Qed.

Lemma code_of_wf : forall v e a h, wf_evm v e -> In (a, h) (e_codehash e) ->
  code_of h (e_code e) <> CODE_EMPTY /\ v_hash v (code_of h (e_code e)) = h /\ h <> EMPTYH.
Proof.
  intros v e a h Hwf Hin. destruct (w_code _ _ Hwf _ _ Hin) as (Hne & c & Hg & Hce & Hh).
  unfold code_of. rewrite Hg. auto.
Qed.

Lemma ch_pairs_export : forall v e a h, wf_evm v e ->
  (In (a, h) (ch_pairs v (export_evm e)) <-> In (a, h) (e_codehash e)).
Proof.
  intros v e a h Hwf. unfold ch_pairs. rewrite in_flat_map. split.
  - intros [g [Hg Hin]]. unfold export_evm in Hg. apply in_app_or in Hg. destruct Hg as [Hg|Hg].
    + apply In_export_contracts in Hg. destruct Hg as (a0 & h0 & Hin0 & _ & Hg). subst g. cbn [ga_addr ga_code] in Hin.
      destruct (code_of_wf _ _ _ _ Hwf Hin0) as (_ & Hh & Hne). rewrite Hh in Hin.
      destruct (h0 =? EMPTYH) eqn:E; [lia|]. destruct Hin as [Heq|[]]. inversion Heq; subst. exact Hin0.
    + apply In_export_storage_only in Hg. destruct Hg as (a0 & _ & _ & Hg). subst g. cbn [ga_addr ga_code] in Hin.
      rewrite (w_hash0 _ _ Hwf), Z.eqb_refl in Hin. destruct Hin.
  - intros Hin. destruct (code_of_wf _ _ _ _ Hwf Hin) as (_ & Hh & Hne).
    exists (GA a (code_of h (e_code e)) (slots_of a (e_storage e))). split.
    + unfold export_evm. apply in_or_app. left. apply In_export_contracts. exists a, h. auto.
    + cbn [ga_addr ga_code]. rewrite Hh. destruct (h =? EMPTYH) eqn:E; [lia|]. left. reflexivity.
Qed.

Lemma cd_pairs_export : forall v e h c, wf_evm v e ->
  (In (h, c) (cd_pairs v (export_evm e)) <-> (exists a, In (a, h) (e_codehash e)) /\ zget h (e_code e) = Some c).
Proof.
  intros v e h c Hwf. unfold cd_pairs. rewrite in_flat_map. split.
  - intros [g [Hg Hin]]. unfold export_evm in Hg. apply in_app_or in Hg. destruct Hg as [Hg|Hg].
    + apply In_export_contracts in Hg. destruct Hg as (a0 & h0 & Hin0 & _ & Hg). subst g. cbn [ga_addr ga_code] in Hin.
      destruct (w_code _ _ Hwf _ _ Hin0) as (Hne & c0 & Hg0 & Hce & Hh).
      unfold code_of in Hin. rewrite Hg0 in Hin.
      destruct (c0 =? CODE_EMPTY) eqn:E; [lia|]. destruct Hin as [Heq|[]]. inversion Heq; subst.
      split; [exists a0; exact Hin0|exact Hg0].
    + apply In_export_storage_only in Hg. destruct Hg as (a0 & _ & _ & Hg). subst g. cbn [ga_code] in Hin.
      rewrite Z.eqb_refl in Hin. destruct Hin.
  - intros [[a Hin] Hg]. destruct (w_code _ _ Hwf _ _ Hin) as (Hne & c0 & Hg0 & Hce & Hh).
    rewrite Hg in Hg0. inversion Hg0; subst c0.
    exists (GA a (code_of h (e_code e)) (slots_of a (e_storage e))). split.
    + unfold export_evm. apply in_or_app. left. apply In_export_contracts. exists a, h. auto.
    + cbn [ga_code]. unfold code_of. rewrite Hg. destruct (c =? CODE_EMPTY) eqn:E; [lia|]. rewrite Hh. left. reflexivity.
Qed.

(* ------------------------------------------------------------------ evm round trip *)
Lemma evm_roundtrip : forall v e e', wf_evm v e ->
  import_accts v (Evm (e_params e) [] [] []) (export_evm e) = Ok e' ->
  e_params e' = e_params e /\ e_codehash e' = e_codehash e /\ e_storage e' = e_storage e /\
  (forall a h, In (a, h) (e_codehash e) -> zget h (e_code e') = zget h (e_code e)) /\
  sortedP (e_code e').
Proof.
  intros v e e' Hwf H. destruct (import_accts_ok _ _ _ _ H) as (Hp & Hch & Hcd & Hst).
  cbn [e_params e_codehash e_code e_storage] in *.
  split; [exact Hp|]. split; [|split; [|split]].
  - rewrite Hch. apply fold_rebuild; [exact (w_ch _ _ Hwf)| |]; intros a h; apply ch_pairs_export; exact Hwf.
  - rewrite Hst. apply fold_rebuild; [exact (w_st _ _ Hwf)| |]; intros k x; apply st_pairs_export.
  - intros a h Hin. rewrite Hcd, zget_fold. cbn [zget].
    destruct (w_code _ _ Hwf _ _ Hin) as (Hne & c & Hg & Hce & Hh). rewrite Hg.
    destruct (alast h (cd_pairs v (export_evm e))) as [c'|] eqn:E.
    + apply alast_In in E. apply cd_pairs_export in E; [|exact Hwf]. destruct E as [_ E]. rewrite Hg in E. exact (eq_sym E).
    + exfalso. refine (alast_None _ _ c E _). apply cd_pairs_export; [exact Hwf|]. split; [exists a; exact Hin|exact Hg].
  - rewrite Hcd. apply fold_sorted. exact I.
Qed.

Lemma export_contracts_ext : forall e1 e2,
  e_codehash e1 = e_codehash e2 -> e_storage e1 = e_storage e2 ->
  (forall a h, In (a, h) (e_codehash e1) -> code_of h (e_code e1) = code_of h (e_code e2)) ->
  export_evm e1 = export_evm e2.
Proof.
  intros e1 e2 Hch Hst Hc. unfold export_evm. f_equal.
  - unfold export_contracts. rewrite <- Hch, <- Hst.
    assert (Hgen : forall l, (forall a h, In (a, h) l -> In (a, h) (e_codehash e1)) ->
      flat_map (fun ah : Z * Z => let '(a, h) := ah in if h =? EMPTYH then [] else [GA a (code_of h (e_code e1)) (slots_of a (e_storage e1))]) l =
      flat_map (fun ah : Z * Z => let '(a, h) := ah in if h =? EMPTYH then [] else [GA a (code_of h (e_code e2)) (slots_of a (e_storage e1))]) l).
    { induction l as [|[a h] r IH]; intros Hsub; cbn [flat_map]; [reflexivity|].
      rewrite IH; [|intros; apply Hsub; right; assumption].
      rewrite (Hc a h); [reflexivity|]. apply Hsub. left. reflexivity. }
    apply Hgen. auto.
  - unfold export_storage_only, is_exported_contract. rewrite <- Hch, <- Hst. reflexivity.
Qed.

Lemma evm_second_export : forall v e e', wf_evm v e ->
  import_accts v (Evm (e_params e) [] [] []) (export_evm e) = Ok e' -> export_evm e' = export_evm e.
Proof.
  intros v e e' Hwf H. destruct (evm_roundtrip _ _ _ Hwf H) as (_ & Hch & Hst & Hc & _).
  apply export_contracts_ext; [exact Hch|exact Hst|].
  intros a h Hin. rewrite Hch in Hin. unfold code_of. rewrite (Hc _ _ Hin). reflexivity.
Qed.

Lemma evm_roundtrip_wf : forall v e e', wf_evm v e ->
  import_accts v (Evm (e_params e) [] [] []) (export_evm e) = Ok e' -> wf_evm v e'.
Proof.
  intros v e e' Hwf H. destruct (evm_roundtrip _ _ _ Hwf H) as (_ & Hch & Hst & Hc & _).
  constructor.
  - exact (w_hash0 _ _ Hwf).
  - rewrite Hch. exact (w_ch _ _ Hwf).
  - rewrite Hst. exact (w_st _ _ Hwf).
  - intros a h Hin. rewrite Hch in Hin. rewrite (Hc _ _ Hin). exact (w_code _ _ Hwf _ _ Hin).
Qed.

Lemma q_code_roundtrip : forall v e e', wf_evm v e ->
  import_accts v (Evm (e_params e) [] [] []) (export_evm e) = Ok e' -> forall a, q_code e' a = q_code e a.
Proof.
  intros v e e' Hwf H a. destruct (evm_roundtrip _ _ _ Hwf H) as (_ & Hch & _ & Hc & _).
  unfold q_code. rewrite Hch. destruct (zget a (e_codehash e)) as [h|] eqn:E; [|reflexivity].
  unfold code_of. rewrite (Hc a h); [reflexivity|]. exact (zget_Some_In _ _ _ E).
Qed.

(* ================================================================== cpc, vauth, the whole application state *)
(* what x/cpc InitGenesis leaves behind when started from an export (DeployErc20Native is exported as false) *)
Definition genesis_metas (k : cpc_consts) (staking : bool) : zmap meta :=
  zset (k_bech32_addr k) (k_bech32_meta k) (if staking then [(k_staking_addr k, k_staking_meta k)] else []).

Definition has_staking (k : cpc_consts) (s : cstate) : bool := zhas (k_staking_addr k) (c_metas (s_cpc s)).

Lemma import_cpc_export : forall k v s, k_staking_addr k <> k_bech32_addr k ->
  import_cpc k v (export k s) = Ok (Cpc (c_params (s_cpc s)) (genesis_metas k (has_staking k s)) [] []).
Proof.
  intros k v s Hne. unfold import_cpc, export, genesis_metas, has_staking, deploy, zhas.
  cbn [g_erc20_native g_staking g_cpc_params].
  destruct (zget (k_staking_addr k) (c_metas (s_cpc s))); cbn [c_metas c_params c_denoms c_allow zget zset].
  - destruct (k_bech32_addr k =? k_staking_addr k) eqn:E; [lia|]. reflexivity.
  - reflexivity.
Qed.

Lemma has_staking_genesis_metas : forall k b, k_staking_addr k <> k_bech32_addr k ->
  zhas (k_staking_addr k) (genesis_metas k b) = b.
Proof.
  intros k b Hne. unfold zhas, genesis_metas. rewrite zget_zset.
  destruct (k_staking_addr k =? k_bech32_addr k) eqn:E; [lia|].
  destruct b; cbn [zget]; [rewrite Z.eqb_refl|]; reflexivity.
Qed.

(* x/feemarket InitGenesis never alters what it is given: whatever the values (fractional min gas price, base fee on,
   above or below the floor), the stored params are the params of the document *)
Lemma import_fm_id : forall f f', import_fm f = Ok f' -> f' = f /\ fm_valid f = true.
Proof. intros f f' H. unfold import_fm in H. destruct (fm_valid f); [|discriminate]. inversion H. auto. Qed.

Lemma import_fm_valid : forall f, fm_valid f = true -> import_fm f = Ok f.
Proof. intros f H. unfold import_fm. rewrite H. reflexivity. Qed.

Lemma import_fm_invalid : forall k v g, fm_valid (g_fm g) = false -> import k v g = Panic.
Proof.
  intros k v g H. unfold import, import_fm. rewrite H.
  destruct (import_accts v (Evm (g_evm_params g) [] [] []) (g_accounts g)); [|reflexivity].
  destruct (import_cpc k v g); reflexivity.
Qed.

(* the state a fresh application holds after InitChain on the export of s *)
Lemma import_export_shape : forall k v s s', k_staking_addr k <> k_bech32_addr k ->
  import k v (export k s) = Ok s' ->
  import_accts v (Evm (e_params (s_evm s)) [] [] []) (export_evm (s_evm s)) = Ok (s_evm s') /\
  s_fm s' = s_fm s /\
  s_cpc s' = Cpc (c_params (s_cpc s)) (genesis_metas k (has_staking k s)) [] [] /\
  s_proofs s' = [].
Proof.
  intros k v s s' Hne H. unfold import in H. rewrite (import_cpc_export k v s Hne) in H.
  unfold export in H at 1 2. cbn [g_evm_params g_accounts g_fm] in H.
  change (g_fm (export k s)) with (s_fm s) in H.
  destruct (import_accts v (Evm (e_params (s_evm s)) [] [] []) (export_evm (s_evm s))) as [e'|]; [|discriminate].
  destruct (import_fm (s_fm s)) as [f'|] eqn:Ef; [|discriminate].
  destruct (import_fm_id _ _ Ef) as [Hf _]. subst f'.
  inversion H; subst s'. cbn. auto.
Qed.

Lemma export_import_export : forall k v s s',
  wf_evm v (s_evm s) -> k_staking_addr k <> k_bech32_addr k ->
  import k v (export k s) = Ok s' -> export k s' = export k s.
Proof.
  intros k v s s' Hwf Hne H. destruct (import_export_shape _ _ _ _ Hne H) as (He & Hfm & Hc & _).
  destruct (evm_roundtrip _ _ _ Hwf He) as (Hp & _).
  unfold export. rewrite Hp, (evm_second_export _ _ _ Hwf He), Hfm, Hc. cbn [c_params c_metas].
  rewrite (has_staking_genesis_metas _ _ Hne). reflexivity.
Qed.

(* the import of an export succeeds exactly when x/auth handed over a BaseAccount for every exported address *)
Lemma import_export_total : forall k v s, k_staking_addr k <> k_bech32_addr k ->
  fm_valid (s_fm s) = true ->
  (forall g, In g (export_evm (s_evm s)) -> v_base_acct v (ga_addr g) = true) ->
  exists s', import k v (export k s) = Ok s'.
Proof.
  intros k v s Hne Hfv Hb. unfold import. rewrite (import_cpc_export k v s Hne).
  unfold export at 1 2. cbn [g_evm_params g_accounts g_fm]. change (g_fm (export k s)) with (s_fm s).
  destruct (import_accts_total v (export_evm (s_evm s)) (Evm (e_params (s_evm s)) [] [] []) Hb) as [e' He].
  rewrite He, (import_fm_valid _ Hfv). eauto.
Qed.

Lemma import_export_panic : forall k v s g,
  In g (export_evm (s_evm s)) -> v_base_acct v (ga_addr g) = false -> import k v (export k s) = Panic.
Proof.
  intros k v s g Hin Hb. unfold import. unfold export at 1. cbn [g_evm_params g_accounts].
  rewrite (import_accts_panic _ _ _ _ Hin Hb). reflexivity.
Qed.

(* ------------------------------------------------------------------ per-module round trips *)
Lemma roundtrip_evm : forall k v s s',
  wf_evm v (s_evm s) -> k_staking_addr k <> k_bech32_addr k -> import k v (export k s) = Ok s' ->
  e_params (s_evm s') = e_params (s_evm s) /\
  e_codehash (s_evm s') = e_codehash (s_evm s) /\
  e_storage (s_evm s') = e_storage (s_evm s) /\
  (forall a, q_code (s_evm s') a = q_code (s_evm s) a) /\
  (forall a slot, q_storage (s_evm s') a slot = q_storage (s_evm s) a slot).
Proof.
  intros k v s s' Hwf Hne H. destruct (import_export_shape _ _ _ _ Hne H) as (He & _).
  destruct (evm_roundtrip _ _ _ Hwf He) as (Hp & Hch & Hst & _).
  split; [exact Hp|]. split; [exact Hch|]. split; [exact Hst|]. split.
  - exact (q_code_roundtrip _ _ _ Hwf He).
  - intros a slot. unfold q_storage. rewrite Hst. reflexivity.
Qed.

Lemma roundtrip_feemarket : forall k v s s', k_staking_addr k <> k_bech32_addr k ->
  import k v (export k s) = Ok s' -> s_fm s' = s_fm s.
Proof. intros k v s s' Hne H. exact (proj1 (proj2 (import_export_shape _ _ _ _ Hne H))). Qed.

(* cpc: the round trip is the identity exactly on the states a genesis with DeployErc20Native = false produces *)
Definition cpc_genesis_shaped (k : cpc_consts) (c : cpc_state) : Prop :=
  c_metas c = genesis_metas k (zhas (k_staking_addr k) (c_metas c)) /\ c_denoms c = [] /\ c_allow c = [].

Lemma roundtrip_cpc_iff : forall k v s s', k_staking_addr k <> k_bech32_addr k ->
  import k v (export k s) = Ok s' -> (s_cpc s' = s_cpc s <-> cpc_genesis_shaped k (s_cpc s)).
Proof.
  intros k v s s' Hne H. destruct (import_export_shape _ _ _ _ Hne H) as (_ & _ & Hc & _).
  rewrite Hc. unfold cpc_genesis_shaped, has_staking. destruct (s_cpc s) as [p m d a]. cbn [c_params c_metas c_denoms c_allow].
  split.
  - intros Heq. inversion Heq as [[Hm Hd Ha]]. rewrite <- Hm at 1. auto.
  - intros (Hm & Hd & Ha). rewrite <- Hm, Hd, Ha. reflexivity.
Qed.

(* what does survive in cpc whatever the state: params, the bech32 precompile, presence of the staking precompile *)
Lemma roundtrip_cpc_partial : forall k v s s', k_staking_addr k <> k_bech32_addr k ->
  import k v (export k s) = Ok s' ->
  c_params (s_cpc s') = c_params (s_cpc s) /\
  zget (k_bech32_addr k) (c_metas (s_cpc s')) = Some (k_bech32_meta k) /\
  zhas (k_staking_addr k) (c_metas (s_cpc s')) = zhas (k_staking_addr k) (c_metas (s_cpc s)) /\
  (forall a m, zget a (c_metas (s_cpc s')) = Some m -> a = k_bech32_addr k \/ a = k_staking_addr k /\ m = k_staking_meta k) /\
  c_denoms (s_cpc s') = [] /\ c_allow (s_cpc s') = [].
Proof.
  intros k v s s' Hne H. destruct (import_export_shape _ _ _ _ Hne H) as (_ & _ & Hc & _).
  rewrite Hc. cbn [c_params c_metas c_denoms c_allow].
  split; [reflexivity|]. split; [|split; [|split; [|split; reflexivity]]].
  - unfold genesis_metas. rewrite zget_zset, Z.eqb_refl. reflexivity.
  - apply has_staking_genesis_metas. exact Hne.
  - intros a m Hg. unfold genesis_metas in Hg. rewrite zget_zset in Hg.
    destruct (a =? k_bech32_addr k) eqn:E; [left; lia|]. right.
    destruct (has_staking k s); cbn [zget] in Hg; [|discriminate].
    destruct (a =? k_staking_addr k) eqn:E1; [|discriminate]. inversion Hg. split; [lia|reflexivity].
Qed.

Lemma roundtrip_vauth_iff : forall k v s s', k_staking_addr k <> k_bech32_addr k ->
  import k v (export k s) = Ok s' -> (s_proofs s' = s_proofs s <-> s_proofs s = []).
Proof.
  intros k v s s' Hne H. destruct (import_export_shape _ _ _ _ Hne H) as (_ & _ & _ & Hp).
  rewrite Hp. split; intros E; [symmetry; exact E|symmetry; exact E].
Qed.

(* ================================================================== the invariant holds in every reachable state *)
Record wf (v : env) (s : cstate) : Prop := {
  wf_fm : fm_valid (s_fm s) = true;
  wf_e : wf_evm v (s_evm s);
  wf_metas : sortedP (c_metas (s_cpc s));
  wf_denoms : sortedP (c_denoms (s_cpc s));
  wf_allow : sortedP (c_allow (s_cpc s));
  wf_proofs : sortedP (s_proofs s)
}.

Lemma wfb_wf : forall v s, wfb v s = true -> wf v s.
Proof.
  intros v s H. unfold wfb in H.
  apply andb_true_iff in H. destruct H as [H H5].
  apply andb_true_iff in H. destruct H as [H H4].
  apply andb_true_iff in H. destruct H as [H H3].
  apply andb_true_iff in H. destruct H as [H1 H2].
  apply andb_true_iff in H1. destruct H1 as [H0 H1].
  constructor; [exact H0|apply wfb_evm_wf; assumption|apply sortedb_P; assumption ..].
Qed.

Lemma wf_wfb : forall v s, wf v s -> wfb v s = true.
Proof.
  intros v s [H0 H1 H2 H3 H4 H5]. unfold wfb. rewrite H0.
  rewrite (wf_evm_wfb _ _ H1), (sortedP_b _ H2), (sortedP_b _ H3), (sortedP_b _ H4), (sortedP_b _ H5). reflexivity.
Qed.

(* Keeper.SetCodeHash + Keeper.SetCode of a non-empty code *)
Lemma set_code_wf : forall v p ch cd st a c,
  wf_evm v (Evm p ch cd st) -> c <> CODE_EMPTY -> v_hash v c <> EMPTYH ->
  wf_evm v (Evm p (zset a (v_hash v c) ch) (zset (v_hash v c) c cd) st).
Proof.
  intros v p ch cd st a c Hwf Hc Hh. destruct Hwf as [H0 Hch Hst Hco]. cbn [e_codehash e_code e_storage] in *.
  constructor; cbn [e_codehash e_code e_storage].
  - exact H0.
  - apply zset_sorted. exact Hch.
  - exact Hst.
  - intros a0 h0 Hin. rewrite zget_zset. apply In_zset in Hin. destruct Hin as [[Ha Hh0]|Hin].
    + subst h0. split; [exact Hh|]. rewrite Z.eqb_refl. exists c. auto.
    + destruct (Hco _ _ Hin) as (Hne & c0 & Hg & Hce & Hhh). split; [exact Hne|].
      destruct (h0 =? v_hash v c) eqn:E.
      * exists c. split; [reflexivity|]. split; [exact Hc|lia].
      * exists c0. auto.
Qed.

Lemma wf_evm_storage : forall v p ch cd st st',
  wf_evm v (Evm p ch cd st) -> sortedP st' -> wf_evm v (Evm p ch cd st').
Proof. intros v p ch cd st st' [H0 Hch Hst Hco] Hs. constructor; assumption. Qed.

Lemma wf_evm_params : forall v p p' ch cd st, wf_evm v (Evm p ch cd st) -> wf_evm v (Evm p' ch cd st).
Proof. intros v p p' ch cd st [H0 Hch Hst Hco]. constructor; assumption. Qed.

Lemma import_acct_wf : forall v e a e', wf_evm v e -> import_acct v e a = Ok e' -> wf_evm v e'.
Proof.
  intros v [p ch cd st] a e' Hwf H. unfold import_acct in H.
  destruct (negb (v_base_acct v (ga_addr a))); [discriminate|]. inversion H; subst e'; clear H.
  cbn [e_params e_codehash e_code e_storage].
  rewrite fold_storage.
  assert (Hs : sortedP (fold_left ins (map (fun kv : Z * Z => (skey (ga_addr a) (fst kv), snd kv)) (ga_storage a)) st))
    by (apply fold_sorted; exact (w_st _ _ Hwf)).
  destruct (v_hash v (ga_code a) =? EMPTYH) eqn:Eh.
  - destruct (ga_code a =? CODE_EMPTY) eqn:Ec.
    + exact (wf_evm_storage _ _ _ _ _ _ Hwf Hs).
    + (* code stored under the empty hash (never with keccak): entries of the code-hash store are not affected *)
      destruct Hwf as [H0 Hch Hst Hco]. cbn [e_codehash e_code e_storage] in *.
      constructor; cbn [e_codehash e_code e_storage]; try assumption.
      intros a0 h0 Hin. destruct (Hco _ _ Hin) as (Hne & c0 & Hg & Hce & Hhh). split; [exact Hne|].
      rewrite zget_zset. destruct (h0 =? v_hash v (ga_code a)) eqn:E; [lia|]. exists c0. auto.
  - destruct (ga_code a =? CODE_EMPTY) eqn:Ec.
    + exfalso. assert (ga_code a = CODE_EMPTY) by lia. pose proof (w_hash0 _ _ Hwf) as H0. rewrite H in Eh. lia.
    + eapply wf_evm_storage; [|exact Hs]. apply set_code_wf; [exact Hwf|lia|lia].
Qed.

Lemma import_accts_wf : forall v l e e', wf_evm v e -> import_accts v e l = Ok e' -> wf_evm v e'.
Proof.
  induction l as [|a r IH]; intros e e' Hwf H; cbn [import_accts] in H.
  - inversion H; subst. exact Hwf.
  - destruct (import_acct v e a) as [e1|] eqn:E; [|discriminate].
    exact (IH _ _ (import_acct_wf _ _ _ _ Hwf E) H).
Qed.

Lemma deploy_sorted : forall addr m c c', deploy addr m c = Ok c' ->
  sortedP (c_metas c) -> sortedP (c_metas c') /\ c_denoms c' = c_denoms c /\ c_allow c' = c_allow c.
Proof.
  intros addr m c c' H Hs. unfold deploy in H. destruct (zhas addr (c_metas c)); [discriminate|].
  inversion H; subst c'. cbn. split; [apply zset_sorted; exact Hs|auto].
Qed.

(* InitChain on ANY genesis document (any flag combination, any account list) yields a state meeting the invariant *)
Lemma import_wf : forall k v g s, v_hash v CODE_EMPTY = EMPTYH -> import k v g = Ok s -> wf v s.
Proof.
  intros k v g s H0 H. unfold import in H.
  destruct (import_accts v (Evm (g_evm_params g) [] [] []) (g_accounts g)) as [e|] eqn:Ee; [|discriminate].
  destruct (import_cpc k v g) as [c|] eqn:Ec; [|discriminate].
  destruct (import_fm (g_fm g)) as [f|] eqn:Ef; [|discriminate].
  destruct (import_fm_id _ _ Ef) as [Hf Hfv]. subst f.
  inversion H; subst s; clear H.
  assert (Hwe : wf_evm v e).
  { refine (import_accts_wf v _ (Evm (g_evm_params g) [] [] []) _ _ Ee).
    constructor; cbn; [exact H0|exact I|exact I|intros ? ? []]. }
  unfold import_cpc in Ec.
  set (c0 := Cpc (g_cpc_params g) [] [] []) in Ec.
  assert (Hc : sortedP (c_metas c) /\ sortedP (c_denoms c) /\ sortedP (c_allow c)).
  { destruct (g_erc20_native g).
    - destruct (zhas (k_bond_denom k) (c_denoms c0)); [discriminate|].
      destruct (negb (v_bond_supply_pos v)); [discriminate|].
      destruct (negb (macc_ok k v)); [discriminate|].
      destruct (deploy (v_next_dyn v) (k_native_meta k) c0) as [c1|] eqn:E1; [|discriminate].
      destruct (deploy_sorted _ _ _ _ E1 I) as (S1 & D1 & A1).
      set (c1' := Cpc (c_params c1) (c_metas c1) (zset (k_bond_denom k) (v_next_dyn v) (c_denoms c1)) (c_allow c1)) in Ec.
      assert (S1' : sortedP (c_metas c1')) by exact S1.
      assert (D1' : sortedP (c_denoms c1')) by (cbn; apply zset_sorted; rewrite D1; exact I).
      assert (A1' : sortedP (c_allow c1')) by (cbn; rewrite A1; exact I).
      destruct (g_staking g).
      + destruct (deploy (k_staking_addr k) (k_staking_meta k) c1') as [c2|] eqn:E2; [|discriminate].
        destruct (deploy_sorted _ _ _ _ E2 S1') as (S2 & D2 & A2).
        destruct (deploy_sorted _ _ _ _ Ec S2) as (S3 & D3 & A3).
        rewrite D3, D2, A3, A2. auto.
      + destruct (deploy_sorted _ _ _ _ Ec S1') as (S3 & D3 & A3). rewrite D3, A3. auto.
    - destruct (g_staking g).
      + destruct (deploy (k_staking_addr k) (k_staking_meta k) c0) as [c2|] eqn:E2; [|discriminate].
        destruct (deploy_sorted _ _ _ _ E2 I) as (S2 & D2 & A2).
        destruct (deploy_sorted _ _ _ _ Ec S2) as (S3 & D3 & A3).
        rewrite D3, D2, A3, A2. cbn. auto.
      + destruct (deploy_sorted _ _ _ _ Ec I) as (S3 & D3 & A3). rewrite D3, A3. cbn. auto. }
  destruct Hc as (Hm & Hd & Ha).
  constructor; cbn [s_evm s_cpc s_proofs s_fm]; try assumption. exact I.
Qed.

Lemma apply_op_wf : forall k v s o, wf v s -> wf v (apply_op k v s o).
Proof.
  intros k v [[p ch cd st] f [cp ms ds al] pr] o [Hf He Hm Hd Ha Hp].
  cbn [s_evm s_cpc s_proofs s_fm c_metas c_denoms c_allow c_params] in *.
  destruct o as [a c|a slot val|a|p'|f'|next|p'|addr denom m|m|owner spender amt|a p']; cbn [apply_op s_evm s_cpc s_proofs s_fm e_params e_codehash e_code e_storage c_metas c_denoms c_allow c_params].
  - (* OSetCode *)
    constructor; cbn [s_evm s_cpc s_proofs c_metas c_denoms c_allow]; try assumption.
    destruct (v_hash v c =? EMPTYH) eqn:Eh.
    + (* SetCodeHash deletes the entry; SetCode touches only the slot of the empty hash *)
      destruct He as [H0 Hch Hst Hco]. cbn [e_codehash e_code e_storage] in *.
      constructor; cbn [e_codehash e_code e_storage]; try assumption.
      * apply zdel_sorted. exact Hch.
      * intros a0 h0 Hin. apply In_zdel in Hin. destruct (Hco _ _ Hin) as (Hne & c0 & Hg & Hce & Hhh).
        split; [exact Hne|]. exists c0. split; [|auto].
        destruct (c =? CODE_EMPTY).
        -- (* code store need not be sorted: zdel removes the first entry of that key only; the key differs *)
           clear - Hg Hne Eh. assert (Hk : h0 <> v_hash v c) by lia. revert Hg. generalize (v_hash v c) Hk. clear.
           intros hk Hk. induction cd as [|[k1 v1] r IH]; cbn [zdel zget]; [auto|].
           intros Hg. destruct (hk =? k1) eqn:E1.
           ++ destruct (h0 =? k1) eqn:E2; [lia|exact Hg].
           ++ cbn [zget]. destruct (h0 =? k1); [exact Hg|exact (IH Hg)].
        -- rewrite zget_zset. destruct (h0 =? v_hash v c) eqn:E; [lia|exact Hg].
    + destruct (c =? CODE_EMPTY) eqn:Ec.
      * exfalso. assert (c = CODE_EMPTY) by lia. subst c. pose proof (w_hash0 _ _ He). lia.
      * apply set_code_wf; [exact He|lia|lia].
  - (* OSetState *)
    constructor; cbn [s_evm s_cpc s_proofs c_metas c_denoms c_allow]; try assumption.
    eapply wf_evm_storage; [exact He|]. apply zset_sorted. exact (w_st _ _ He).
  - (* ODestroy *)
    constructor; cbn [s_evm s_cpc s_proofs c_metas c_denoms c_allow]; try assumption.
    destruct He as [H0 Hch Hst Hco]. cbn [e_codehash e_code e_storage] in *.
    constructor; cbn [e_codehash e_code e_storage].
    + exact H0.
    + apply zdel_sorted. exact Hch.
    + apply filter_sorted. exact Hst.
    + intros a0 h0 Hin. exact (Hco _ _ (In_zdel _ _ _ Hin)).
  - constructor; cbn [s_evm s_cpc s_proofs c_metas c_denoms c_allow]; try assumption. exact (wf_evm_params _ _ _ _ _ _ He).
  - (* OFm: SetParams refuses an invalid value *)
    destruct (fm_valid f') eqn:Ev; constructor; cbn [s_evm s_cpc s_proofs s_fm c_metas c_denoms c_allow]; assumption.
  - (* OEndBlock *)
    destruct (next <? 0) eqn:En; [constructor; assumption|].
    constructor; cbn [s_evm s_cpc s_proofs s_fm c_metas c_denoms c_allow]; try assumption.
    unfold fm_valid in *. cbn [f_base_fee f_min_gas_price] in *. lia.
  - constructor; cbn [s_evm s_cpc s_proofs c_metas c_denoms c_allow]; assumption.
  - (* ODeployErc20 *)
    destruct (zhas denom ds); [constructor; assumption|].
    destruct (deploy addr m (Cpc cp ms ds al)) as [c'|] eqn:E; [|constructor; assumption].
    destruct (deploy_sorted _ _ _ _ E Hm) as (S & D & A). cbn [c_denoms c_allow] in D, A.
    constructor; cbn [s_evm s_cpc s_proofs c_metas c_denoms c_allow]; try assumption.
    * rewrite D. apply zset_sorted. exact Hd.
    * rewrite A. exact Ha.
  - (* ODeployStaking *)
    destruct (deploy (k_staking_addr k) m (Cpc cp ms ds al)) as [c'|] eqn:E; [|constructor; assumption].
    destruct (deploy_sorted _ _ _ _ E Hm) as (S & D & A). cbn [c_denoms c_allow] in D, A.
    constructor; cbn [s_evm s_cpc s_proofs]; try assumption; [rewrite D|rewrite A]; assumption.
  - (* OApprove *)
    constructor; cbn [s_evm s_cpc s_proofs c_metas c_denoms c_allow]; try assumption.
    destruct (amt =? 0); [apply zdel_sorted|apply zset_sorted]; exact Ha.
  - constructor; cbn [s_evm s_cpc s_proofs c_metas c_denoms c_allow]; try assumption. apply zset_sorted. exact Hp.
Qed.

Lemma run_wf : forall k v ops s, wf v s -> wf v (run k v ops s).
Proof.
  intros k v ops. unfold run. induction ops as [|o r IH]; intros s H; cbn [fold_left]; [exact H|].
  apply IH. apply apply_op_wf. exact H.
Qed.

(* every state reachable from any genesis document by any history *)
Lemma reachable_wf : forall k v g ops s0, v_hash v CODE_EMPTY = EMPTYH -> import k v g = Ok s0 -> wf v (run k v ops s0).
Proof. intros k v g ops s0 H0 H. apply run_wf. exact (import_wf _ _ _ _ H0 H). Qed.

(* ================================================================== statements in terms of the decidable invariant *)
Definition consts_ok (k : cpc_consts) : Prop := k_staking_addr k <> k_bech32_addr k.

Lemma eie_b : forall k v s s', wfb v s = true -> consts_ok k ->
  import k v (export k s) = Ok s' -> export k s' = export k s.
Proof. intros k v s s' H. exact (export_import_export k v s s' (wf_e _ _ (wfb_wf _ _ H))). Qed.

Lemma roundtrip_evm_b : forall k v s s', wfb v s = true -> consts_ok k -> import k v (export k s) = Ok s' ->
  e_params (s_evm s') = e_params (s_evm s) /\
  e_codehash (s_evm s') = e_codehash (s_evm s) /\
  e_storage (s_evm s') = e_storage (s_evm s) /\
  (forall a, q_code (s_evm s') a = q_code (s_evm s) a) /\
  (forall a slot, q_storage (s_evm s') a slot = q_storage (s_evm s) a slot).
Proof. intros k v s s' H. exact (roundtrip_evm k v s s' (wf_e _ _ (wfb_wf _ _ H))). Qed.

Lemma roundtrip_wfb : forall k v s s', wfb v s = true -> consts_ok k -> import k v (export k s) = Ok s' -> wfb v s' = true.
Proof.
  intros k v s s' H Hne Hi. apply wf_wfb. apply (import_wf k v (export k s)); [|exact Hi].
  exact (w_hash0 _ _ (wf_e _ _ (wfb_wf _ _ H))).
Qed.

(* export ; import is a projection: importing the second export gives the same state again *)
Lemma roundtrip_fixpoint : forall k v s s', wfb v s = true -> consts_ok k ->
  import k v (export k s) = Ok s' -> import k v (export k s') = Ok s'.
Proof. intros k v s s' H Hne Hi. rewrite (eie_b _ _ _ _ H Hne Hi). exact Hi. Qed.

(* everything a user can observe in the four modules *)
Definition obs_eq (s s' : cstate) : Prop :=
  e_params (s_evm s') = e_params (s_evm s) /\
  (forall a, zget a (e_codehash (s_evm s')) = zget a (e_codehash (s_evm s))) /\
  (forall a, q_code (s_evm s') a = q_code (s_evm s) a) /\
  (forall a slot, q_storage (s_evm s') a slot = q_storage (s_evm s) a slot) /\
  s_fm s' = s_fm s /\ s_cpc s' = s_cpc s /\ s_proofs s' = s_proofs s.

Lemma roundtrip_obs_iff : forall k v s s', wfb v s = true -> consts_ok k -> import k v (export k s) = Ok s' ->
  (obs_eq s s' <-> cpc_genesis_shaped k (s_cpc s) /\ s_proofs s = []).
Proof.
  intros k v s s' H Hne Hi.
  destruct (roundtrip_evm_b _ _ _ _ H Hne Hi) as (Hp & Hch & Hst & Hqc & Hqs).
  pose proof (roundtrip_feemarket _ _ _ _ Hne Hi) as Hfm.
  pose proof (roundtrip_cpc_iff _ _ _ _ Hne Hi) as Hc.
  pose proof (roundtrip_vauth_iff _ _ _ _ Hne Hi) as Hv.
  unfold obs_eq. split.
  - intros (_ & _ & _ & _ & _ & Hc' & Hv'). split; [apply Hc; exact Hc'|apply Hv; exact Hv'].
  - intros [Hc' Hv']. repeat split; try assumption.
    + intros a. rewrite Hch. reflexivity.
    + apply Hc. exact Hc'.
    + apply Hv. exact Hv'.
Qed.

(* fee market over blocks: whatever the params governance has set (any non-negative base fee, any non-negative min gas
   price incl. fractional ones) and whatever the EIP-1559 formula yields for the block, the state EndBlock leaves
   (base fee = max next trunc(min gas price)) is reproduced exactly by export ; import *)
Lemma feemarket_endblock_roundtrip : forall k v s f next s',
  consts_ok k -> fm_valid f = true -> 0 <= next ->
  import k v (export k (apply_op k v (apply_op k v s (OFm f)) (OEndBlock next))) = Ok s' ->
  s_fm s' = Fm (Z.max next (fm_floor f)) (f_min_gas_price f) /\
  fm_floor (s_fm s') <= f_base_fee (s_fm s') /\ fm_floor (s_fm s') = fm_floor f.
Proof.
  intros k v s f next s' Hne Hv Hn Hi. rewrite (roundtrip_feemarket _ _ _ _ Hne Hi).
  cbn [apply_op]. rewrite Hv. cbn [s_fm]. destruct (next <? 0) eqn:En; [lia|]. cbn [s_fm].
  unfold fm_floor. cbn [f_base_fee f_min_gas_price]. split; [reflexivity|]. split; [lia|reflexivity].
Qed.

Lemma history_roundtrip : forall k v g ops s0 s',
  v_hash v CODE_EMPTY = EMPTYH -> consts_ok k -> import k v g = Ok s0 ->
  import k v (export k (run k v ops s0)) = Ok s' ->
  export k s' = export k (run k v ops s0) /\
  e_params (s_evm s') = e_params (s_evm (run k v ops s0)) /\
  e_codehash (s_evm s') = e_codehash (s_evm (run k v ops s0)) /\
  e_storage (s_evm s') = e_storage (s_evm (run k v ops s0)) /\
  (forall a, q_code (s_evm s') a = q_code (s_evm (run k v ops s0)) a) /\
  s_fm s' = s_fm (run k v ops s0).
Proof.
  intros k v g ops s0 s' H0 Hne Hg Hi.
  pose proof (wf_wfb _ _ (reachable_wf k v g ops s0 H0 Hg)) as Hw.
  destruct (roundtrip_evm_b _ _ _ _ Hw Hne Hi) as (Hp & Hch & Hst & Hqc & _).
  split; [exact (eie_b _ _ _ _ Hw Hne Hi)|]. repeat split; try assumption.
  exact (roundtrip_feemarket _ _ _ _ Hne Hi).
Qed.

Lemma reachable_wfb : forall k v g ops s0, v_hash v CODE_EMPTY = EMPTYH -> import k v g = Ok s0 ->
  wfb v (run k v ops s0) = true.
Proof. intros. apply wf_wfb. eapply reachable_wf; eassumption. Qed.

(* the exported document is a function of what is observable: code that no account refers to (left behind by
   destroyed contracts) does not leak into it *)
Lemma export_observable : forall k v s1 s2, wfb v s1 = true ->
  e_params (s_evm s1) = e_params (s_evm s2) -> e_codehash (s_evm s1) = e_codehash (s_evm s2) ->
  e_storage (s_evm s1) = e_storage (s_evm s2) -> (forall a, q_code (s_evm s1) a = q_code (s_evm s2) a) ->
  s_fm s1 = s_fm s2 -> c_params (s_cpc s1) = c_params (s_cpc s2) ->
  zhas (k_staking_addr k) (c_metas (s_cpc s1)) = zhas (k_staking_addr k) (c_metas (s_cpc s2)) ->
  export k s1 = export k s2.
Proof.
  intros k v s1 s2 Hw Hp Hch Hst Hq Hfm Hcp Hz. unfold export. rewrite Hp, Hfm, Hcp, Hz. f_equal.
  apply export_contracts_ext; [exact Hch|exact Hst|].
  intros a h Hin. pose proof (Hq a) as Ha. unfold q_code in Ha. rewrite <- Hch in Ha.
  rewrite (In_zget _ _ _ (w_ch _ _ (wf_e _ _ (wfb_wf _ _ Hw))) Hin) in Ha. exact Ha.
Qed.

(* ================================================================== the account environment (x/auth, x/bank) *)
(* the same environment with another account (or none) at one address *)
Definition with_acct (v : env) (a : Z) (kd : acct_kind) : env :=
  Env (v_hash v) (fun x => if x =? a then kd else v_acct v x) (v_next_dyn v) (v_bond_supply_pos v).

(* x/evm InitGenesis looks at the environment only through keccak and the account AT the listed addresses *)
Lemma import_accts_env : forall v v' l e,
  (forall c, v_hash v c = v_hash v' c) ->
  (forall a, In a l -> v_acct v (ga_addr a) = v_acct v' (ga_addr a)) ->
  import_accts v e l = import_accts v' e l.
Proof.
  induction l as [|a r IH]; intros e Hh Ha; cbn [import_accts]; [reflexivity|].
  assert (E : import_acct v e a = import_acct v' e a).
  { unfold import_acct, v_base_acct. rewrite (Ha a (or_introl eq_refl)), (Hh (ga_code a)). reflexivity. }
  rewrite E. destruct (import_acct v' e a); [|reflexivity].
  apply IH; [exact Hh|]. intros a' Hin. apply Ha. right. exact Hin.
Qed.

(* x/cpc InitGenesis looks at the environment only through the next dynamic address, the bond supply and the kind of
   the account at the cpc MODULE address - and at these only if the document sets DeployErc20Native.  Accounts at the
   addresses the precompiles are deployed to (fixed staking / bech32 addresses, the next dynamic address) play no role. *)
Lemma import_cpc_env : forall k v v' g,
  (g_erc20_native g = true ->
   v_next_dyn v = v_next_dyn v' /\ v_bond_supply_pos v = v_bond_supply_pos v' /\
   v_acct v (k_module_addr k) = v_acct v' (k_module_addr k)) ->
  import_cpc k v g = import_cpc k v' g.
Proof.
  intros k v v' g H. unfold import_cpc. destruct (g_erc20_native g); [|reflexivity].
  destruct (H eq_refl) as (Hn & Hs & Hm). unfold macc_ok. rewrite Hn, Hs, Hm. reflexivity.
Qed.

(* InitChain on an EXPORT depends on the environment only through keccak and the accounts at the exported x/evm
   addresses: the export never sets DeployErc20Native *)
Lemma import_export_env : forall k v v' s,
  (forall c, v_hash v c = v_hash v' c) ->
  (forall g, In g (export_evm (s_evm s)) -> v_acct v (ga_addr g) = v_acct v' (ga_addr g)) ->
  import k v (export k s) = import k v' (export k s).
Proof.
  intros k v v' s Hh Ha. unfold import.
  rewrite (import_cpc_env k v v' (export k s)) by (cbn [export g_erc20_native]; discriminate).
  unfold export at 1 2 4 5. cbn [g_evm_params g_accounts].
  rewrite (import_accts_env v v' _ _ Hh Ha). reflexivity.
Qed.

(* ... so an account of ANY kind at an address that is not an exported contract / storage owner - a precompile
   address, the cpc module address, a predicted contract address - does not change the outcome of the import *)
Lemma import_export_with_acct : forall k v s a kd,
  (forall g, In g (export_evm (s_evm s)) -> ga_addr g <> a) ->
  import k (with_acct v a kd) (export k s) = import k v (export k s).
Proof.
  intros k v s a kd Hd. apply import_export_env; [reflexivity|].
  intros g Hin. unfold with_acct. cbn [v_acct]. destruct (ga_addr g =? a) eqn:E; [|reflexivity].
  exfalso. apply (Hd g Hin). lia.
Qed.

(* an import that does set DeployErc20Native fails on a non-module account at the cpc module address *)
Lemma import_native_needs_module_account : forall k v g,
  g_erc20_native g = true -> macc_ok k v = false -> import k v g = Panic.
Proof.
  intros k v g Hn Hm. unfold import.
  assert (E : import_cpc k v g = Panic).
  { unfold import_cpc. rewrite Hn, Hm. cbn [c_denoms zhas zget]. destruct (v_bond_supply_pos v); reflexivity. }
  rewrite E. destruct (import_accts v (Evm (g_evm_params g) [] [] []) (g_accounts g)); reflexivity.
Qed.
