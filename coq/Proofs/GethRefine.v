(* go-ethereum's StateDB model (Model/GethStateDB.v) refines the abstract EVM-view machine (Model/EvmAbs.v):
   every disciplined operation succeeds, returns the abstract observation (up to norm_obs) and leaves a
   state whose abstraction is the abstract successor. *)
From Coq Require Import Lia ZArith List Bool Sorted.
From Evm Require Import EvmAbs GethStateDB EvmAbsProofs.
Import ListNotations.
Open Scope Z_scope.

(* go-ethereum's access list is stale between Finalise and the next PrepareAccessList *)
Definition ab_side (v : bool) (s : side) : side := if v then s else mkSide (s_refund s) al0 (s_logs s).

Definition absg_core (v : bool) (c : gcore) : acore :=
  mkAcore (fun a => gview (g_objs c a)) (ab_side v (g_side c)).

Definition absg (s : gst) : ast :=
  mkAst (absg_core (g_alvalid s) (g_cur s))
        (map (fun ic => (Z.to_nat (fst ic), absg_core (g_alvalid s) (snd ic))) (g_revs s))
        (length (g_issued s)) (g_alvalid s).

(* an object no journal entry names is unchanged since the start of the transaction *)
Definition clean_ok (c : gcore) : Prop :=
  forall a o, g_objs c a = Some o -> memZ a (g_dirty c) = false ->
    (forall k, g_stor o k = g_orig o k) /\ g_sui o = false.

Definition wf_g (s : gst) : Prop :=
  clean_ok (g_cur s) /\
  Forall (fun ic => clean_ok (snd ic)) (g_revs s) /\
  g_issued s = map Z.of_nat (seq 0 (length (g_issued s))) /\
  g_next s = Z.of_nat (length (g_issued s)) /\
  StronglySorted Z.lt (map fst (g_revs s)) /\
  Forall (fun ic => 0 <= fst ic < g_next s) (g_revs s) /\
  (g_alvalid s = false -> g_revs s = []).

Section WithFE.
Hypothesis FE : funext_stmt.
Let upd_id {V : Type} := @upd_id FE V.
Let upd_upd {V : Type} := @upd_upd FE V.

(* ------------------------------------------------------------------ views of the helper functions *)

Lemma acore_eq : forall c1 c2, a_accs c1 = a_accs c2 -> a_side c1 = a_side c2 -> c1 = c2.
Proof. intros [a1 s1] [a2 s2]; cbn; intros; subst; reflexivity. Qed.

Lemma set_acc_id : forall c a, set_acc c a (a_accs c a) = c.
Proof. intros [f s] a. unfold set_acc. cbn [a_accs a_side]. rewrite upd_id. reflexivity. Qed.

Lemma set_acc_twice : forall c a x y, set_acc (set_acc c a x) a y = set_acc c a y.
Proof. intros [f s] a x y. unfold set_acc. cbn [a_accs a_side]. rewrite upd_upd. reflexivity. Qed.

Lemma absg_core_set : forall v c a o, absg_core v (g_set c a o) = set_acc (absg_core v c) a (gview (Some o)).
Proof.
  intros. unfold absg_core, g_set, set_acc. cbn [g_objs g_side a_accs a_side]. f_equal.
  apply FE. intro x. unfold upd. destruct (x =? a); reflexivity.
Qed.

Lemma absg_core_dirty : forall v o d d' s, absg_core v (mkGcore o d s) = absg_core v (mkGcore o d' s).
Proof. reflexivity. Qed.

Lemma clean_set : forall c a o, clean_ok c -> clean_ok (g_set c a o).
Proof.
  intros c a o H b ob Hb Hm. unfold g_set in *. cbn [g_objs g_dirty memZ] in *.
  apply orb_false_iff in Hm. destruct Hm as [Hne Hm]. apply Z.eqb_neq in Hne.
  rewrite upd_other in Hb by congruence. exact (H b ob Hb Hm).
Qed.

Lemma clean_touch : forall c a, clean_ok c -> clean_ok (mkGcore (g_objs c) (a :: g_dirty c) (g_side c)).
Proof.
  intros c a H b ob Hb Hm. cbn [g_objs g_dirty memZ] in *. apply orb_false_iff in Hm. exact (H b ob Hb (proj2 Hm)).
Qed.

Lemma clean_side : forall c s, clean_ok c -> clean_ok (g_set_side c s).
Proof. intros c s H. exact H. Qed.

Lemma gview_gobj0 : gview (Some gobj0) = aacc0.
Proof. reflexivity. Qed.

(* GetOrNewStateObject does not change the view *)
Lemma get_or_new_view : forall v c a c1 o,
  g_get_or_new c a = (c1, o) ->
  absg_core v c1 = absg_core v c /\ gview (Some o) = gview (g_objs c a) /\ g_objs c1 a = Some o /\ (clean_ok c -> clean_ok c1).
Proof.
  intros v c a c1 o H. unfold g_get_or_new in H. destruct (g_objs c a) as [p|] eqn:E.
  - inversion H; subst. auto.
  - inversion H; subst. rewrite absg_core_set, gview_gobj0. split; [|split; [|split]].
    + replace aacc0 with (a_accs (absg_core v c) a) by (cbn [absg_core a_accs]; rewrite E; reflexivity).
      apply set_acc_id.
    + reflexivity.
    + cbn [g_set g_objs]. apply upd_same.
    + apply clean_set.
Qed.

Lemma aacc_bal0 : forall x, mkAacc (a_nonce x) (a_bal x + 0) (a_code x) (a_stor x) (a_comm x) (a_sd x) = x.
Proof. intros []. cbn. rewrite Z.add_0_r. reflexivity. Qed.
Lemma aacc_bal0' : forall x, mkAacc (a_nonce x) (a_bal x - 0) (a_code x) (a_stor x) (a_comm x) (a_sd x) = x.
Proof. intros []. cbn. rewrite Z.sub_0_r. reflexivity. Qed.

Lemma add_balance_view : forall v c a v0 c' rip,
  g_add_balance c a v0 = (c', rip) ->
  absg_core v c' = ac_add_balance (absg_core v c) a v0 /\ (clean_ok c -> clean_ok c').
Proof.
  intros v c a v0 c' rip H. unfold g_add_balance in H.
  destruct (g_get_or_new c a) as [c1 o] eqn:E. destruct (get_or_new_view v c a c1 o E) as (Hv & Ho & Hs & Hc).
  unfold ac_add_balance.
  replace (a_accs (absg_core v c) a) with (gview (Some o)) by (rewrite Ho; reflexivity).
  destruct (v0 =? 0) eqn:Ez.
  - apply Z.eqb_eq in Ez; subst.
    assert (Hid : set_acc (absg_core v c) a
                    (mkAacc (a_nonce (gview (Some o))) (a_bal (gview (Some o)) + 0) (a_code (gview (Some o)))
                            (a_stor (gview (Some o))) (a_comm (gview (Some o))) (a_sd (gview (Some o)))) = absg_core v c).
    { rewrite aacc_bal0, Ho. apply set_acc_id. }
    rewrite Hid.
    destruct (g_empty o); inversion H; subst; (split; [|intro Hk]).
    + rewrite <- Hv. reflexivity.
    + apply clean_touch. auto.
    + exact Hv.
    + auto.
  - inversion H; subst. split.
    + rewrite absg_core_set, Hv. reflexivity.
    + intro Hk. apply clean_set. auto.
Qed.

Lemma sub_balance_view : forall v c a v0,
  0 <= v0 <= a_bal (a_accs (absg_core v c) a) ->
  ac_sub_balance (absg_core v c) a v0 = Some (absg_core v (g_sub_balance c a v0)) /\ (clean_ok c -> clean_ok (g_sub_balance c a v0)).
Proof.
  intros v c a v0 Hb. unfold g_sub_balance, ac_sub_balance.
  destruct (g_get_or_new c a) as [c1 o] eqn:E. destruct (get_or_new_view v c a c1 o E) as (Hv & Ho & Hs & Hc).
  destruct (a_bal (a_accs (absg_core v c) a) <? v0) eqn:El; [apply Z.ltb_lt in El; lia|].
  replace (a_accs (absg_core v c) a) with (gview (Some o)) by (rewrite Ho; reflexivity).
  destruct (v0 =? 0) eqn:Ez.
  - apply Z.eqb_eq in Ez; subst. rewrite aacc_bal0', Ho. split; [|exact Hc].
    f_equal. rewrite Hv. replace (gview (g_objs c a)) with (a_accs (absg_core v c) a) by reflexivity. apply set_acc_id.
  - split; [|intro Hk; apply clean_set; auto]. rewrite absg_core_set, Hv. reflexivity.
Qed.

Lemma create_account_view : forall v c a,
  absg_core v (g_create_account c a) =
  set_acc (absg_core v c) a (mkAacc 0 (a_bal (a_accs (absg_core v c) a)) 0 zf zf false)
  /\ (clean_ok c -> clean_ok (g_create_account c a)).
Proof.
  intros. unfold g_create_account. cbn [absg_core a_accs].
  destruct (g_objs c a) as [p|] eqn:E.
  - split.
    + change (mkGcore (upd (g_objs c) a (Some (mkGobj 0 (g_bal p) 0 zf zf false))) (g_dirty c) (g_side c))
        with (mkGcore (g_objs (g_set c a (mkGobj 0 (g_bal p) 0 zf zf false))) (g_dirty c) (g_side (g_set c a (mkGobj 0 (g_bal p) 0 zf zf false)))).
      rewrite (absg_core_dirty v _ (g_dirty c) (g_dirty (g_set c a (mkGobj 0 (g_bal p) 0 zf zf false)))).
      change (mkGcore _ _ _) with (g_set c a (mkGobj 0 (g_bal p) 0 zf zf false)).
      rewrite absg_core_set. reflexivity.
    + intros H b ob Hb Hm. cbn [g_objs g_dirty] in *. unfold upd in Hb. destruct (b =? a) eqn:Eb.
      * inversion Hb; subst. cbn. split; reflexivity.
      * exact (H b ob Hb Hm).
  - split; [rewrite absg_core_set; reflexivity|apply clean_set].
Qed.

(* ------------------------------------------------------------------ Finalise *)

Definition gfin (x : option gobj) : option gobj :=
  match x with
  | None => None
  | Some o => if g_sui o || g_empty o then None
              else Some (mkGobj (g_nonce o) (g_bal o) (g_code o) (g_stor o) (g_stor o) false)
  end.

Lemma gfin_idem : forall x, gfin (gfin x) = gfin x.
Proof.
  intros [o|]; [|reflexivity]. cbn [gfin]. destruct (g_sui o || g_empty o) eqn:E; [reflexivity|].
  apply orb_false_iff in E. destruct E as [_ E].
  cbn [gfin g_sui orb]. unfold g_empty in *. cbn [g_nonce g_bal g_code]. rewrite E. reflexivity.
Qed.

Lemma finalise_loop_spec : forall ds objs a,
  g_finalise_loop objs ds a = if memZ a ds then gfin (objs a) else objs a.
Proof.
  induction ds as [|x r IH]; intros objs a; cbn [g_finalise_loop memZ]; [reflexivity|].
  set (objs' := match objs x with
                | None => objs
                | Some o => if g_sui o || g_empty o then upd objs x None
                            else upd objs x (Some (mkGobj (g_nonce o) (g_bal o) (g_code o) (g_stor o) (g_stor o) false))
                end).
  assert (Hobjs' : objs' = upd objs x (gfin (objs x))).
  { unfold objs', gfin. destruct (objs x) as [o|] eqn:E.
    - destruct (g_sui o || g_empty o); reflexivity.
    - rewrite <- E. symmetry. apply upd_id. }
  rewrite IH, Hobjs'. destruct (x =? a) eqn:Ex.
  - apply Z.eqb_eq in Ex; subst. rewrite upd_same. cbn [orb]. destruct (memZ a r); [apply gfin_idem|reflexivity].
  - apply Z.eqb_neq in Ex. rewrite upd_other by congruence. reflexivity.
Qed.

Lemma gfin_view : forall x, stor_ok (gview x) -> gview (gfin x) = a_finalise_acc (gview x).
Proof.
  intros [o|] Hok; [|reflexivity]. cbn [gfin gview]. unfold a_finalise_acc. cbn [a_sd a_nonce a_bal a_code a_stor].
  destruct (g_sui o) eqn:Es; cbn [orb]; [reflexivity|].
  destruct (g_empty o) eqn:Ee; [|reflexivity].
  unfold g_empty in Ee. apply andb_true_iff in Ee. destruct Ee as [Ee Ec]. apply andb_true_iff in Ee. destruct Ee as [En Eb].
  apply Z.eqb_eq in En, Eb, Ec. cbn [gview]. unfold aacc0.
  destruct (Hok En Ec) as [Hs _]. cbn [gview a_stor] in Hs.
  assert (g_stor o = zf) by (apply FE; exact Hs).
  rewrite En, Eb, Ec, H. reflexivity.
Qed.

Lemma clean_finalise_id : forall o, (forall k, g_stor o k = g_orig o k) -> g_sui o = false ->
  a_finalise_acc (gview (Some o)) = gview (Some o).
Proof.
  intros o Hs Hsui. unfold a_finalise_acc. cbn [gview a_sd a_nonce a_bal a_code a_stor]. rewrite Hsui.
  assert (g_stor o = g_orig o) by (apply FE; exact Hs). rewrite <- H. reflexivity.
Qed.

Lemma finalise_view : forall c ds,
  clean_ok c -> (forall a, memZ a (g_dirty c) = true -> memZ a ds = true) ->
  (forall a, stor_ok (gview (g_objs c a))) ->
  (fun a => gview (g_finalise_loop (g_objs c) ds a)) = (fun a => a_finalise_acc (gview (g_objs c a))).
Proof.
  intros c ds Hc Hsub Hok. apply FE. intro a. rewrite finalise_loop_spec.
  destruct (memZ a ds) eqn:E.
  - apply gfin_view. apply Hok.
  - destruct (g_objs c a) as [o|] eqn:Eo; [|reflexivity].
    assert (Hd : memZ a (g_dirty c) = false).
    { destruct (memZ a (g_dirty c)) eqn:Ed; [|reflexivity]. rewrite (Hsub a Ed) in E. discriminate. }
    destruct (Hc a o Eo Hd). symmetry. apply clean_finalise_id; assumption.
Qed.

Lemma clean_after_finalise : forall objs ds s,
  (forall a o, objs a = Some o -> memZ a ds = false -> (forall k, g_stor o k = g_orig o k) /\ g_sui o = false) ->
  clean_ok (mkGcore (g_finalise_loop objs ds) [] s).
Proof.
  intros objs ds s H a o Ho _. cbn [g_objs] in Ho. rewrite finalise_loop_spec in Ho.
  destruct (memZ a ds) eqn:E.
  - unfold gfin in Ho. destruct (objs a) as [p|]; [|discriminate].
    destruct (g_sui p || g_empty p); [discriminate|]. inversion Ho; subst. cbn. split; reflexivity.
  - exact (H a o Ho E).
Qed.

(* ------------------------------------------------------------------ snapshots *)

Lemma find_rev_live : forall (F : gcore -> acore) n revs i,
  Forall (fun ic => 0 <= fst ic) revs ->
  find_live n (map (fun ic : Z * gcore => (Z.to_nat (fst ic), F (snd ic))) revs) i =
  match find_rev (Z.of_nat n) revs i with Some (j, c) => Some (j, F c) | None => None end.
Proof.
  induction revs as [|[id c] r IH]; intros i H; cbn [map find_live find_rev fst snd]; [reflexivity|].
  inversion H; subst. cbn [fst] in H2.
  assert (E : Nat.eqb (Z.to_nat id) n = (id =? Z.of_nat n)).
  { destruct (id =? Z.of_nat n) eqn:E1.
    - apply Z.eqb_eq in E1; subst. rewrite Nat2Z.id. apply Nat.eqb_refl.
    - apply Z.eqb_neq in E1. apply Nat.eqb_neq. intro; subst. apply E1. rewrite Z2Nat.id; lia. }
  rewrite E. destruct (id =? Z.of_nat n); [reflexivity|]. apply IH. assumption.
Qed.

Lemma find_rev_some : forall id revs i j c, find_rev id revs i = Some (j, c) ->
  exists k, j = (i + k)%nat /\ nth_error revs k = Some (id, c).
Proof.
  induction revs as [|[x c0] r IH]; intros i j c H; cbn [find_rev] in H; [discriminate|].
  destruct (x =? id) eqn:E.
  - inversion H; subst. apply Z.eqb_eq in E; subst. exists 0%nat. split; [lia|reflexivity].
  - apply IH in H. destruct H as (k & -> & Hk). exists (S k). split; [lia|exact Hk].
Qed.

Lemma sorted_firstn : forall n (l : list Z), StronglySorted Z.lt l -> StronglySorted Z.lt (firstn n l).
Proof.
  intros n l H. revert n. induction H; intros [|n]; cbn [firstn]; constructor.
  - apply IHStronglySorted.
  - apply Forall_firstn. assumption.
Qed.

Lemma sorted_snoc : forall (l : list Z) x, StronglySorted Z.lt l -> Forall (fun y => y < x) l -> StronglySorted Z.lt (l ++ [x]).
Proof.
  induction l as [|y r IH]; intros x Hs Hf; cbn [app].
  - constructor; constructor.
  - inversion Hs; subst. inversion Hf; subst. constructor.
    + apply IH; assumption.
    + apply Forall_app. split; [assumption|constructor; [assumption|constructor]].
Qed.

Lemma issued_nth : forall n k, (k < n)%nat -> nth_error (map Z.of_nat (seq 0 n)) k = Some (Z.of_nat k).
Proof.
  intros n k H. rewrite nth_error_map. rewrite nth_error_nth' with (d := 0%nat) by (rewrite seq_length; exact H).
  rewrite seq_nth by exact H. reflexivity.
Qed.

(* ------------------------------------------------------------------ the refinement step *)

Ltac inv H := inversion H; subst; clear H.

Lemma absg_gwith : forall s c, absg (gwith s c) = with_cur (absg s) (absg_core (g_alvalid s) c).
Proof. reflexivity. Qed.

Lemma absg_mk : forall s c' rp, absg (mkGst c' (g_revs s) (g_next s) (g_issued s) rp (g_alvalid s)) = with_cur (absg s) (absg_core (g_alvalid s) c').
Proof. reflexivity. Qed.

Lemma wf_gwith : forall s c, wf_g s -> clean_ok c -> wf_g (gwith s c).
Proof. intros s c (H1 & H2 & H3 & H4 & H5 & H6 & H7) Hc. exact (conj Hc (conj H2 (conj H3 (conj H4 (conj H5 (conj H6 H7)))))). Qed.

Lemma ab_side_refund : forall v s, s_refund (ab_side v s) = s_refund s.
Proof. intros [] s; reflexivity. Qed.
Lemma ab_side_logs : forall v s, s_logs (ab_side v s) = s_logs s.
Proof. intros [] s; reflexivity. Qed.

Theorem gstep_refines : forall extra o s,
  wf_g s -> wf_a (absg s) -> disc o (absg s) ->
  exists s' ob, gstep_x extra o s = Some (s', ob)
    /\ astep_x extra o (absg s) = Some (absg s', norm_obs o ob)
    /\ wf_g s'.
Proof.
  intros extra o s Hwf Hwa Hd.
  pose proof Hwf as (Hclean & Hrevs & Hiss & Hnext & Hsorted & Hbound & Hval).
  pose proof Hwa as [[Hstor Href] Hlive].
  pose proof I as v. pose proof I as c. (* keep the names v0, c' for the operation's arguments *)
  destruct o; cbn [disc] in Hd; cbn [gstep_x astep_x astep].
  - (* CreateAccount *)
    destruct (create_account_view (g_alvalid s) (g_cur s) a) as [Hv Hc].
    eexists _, _. split; [reflexivity|]. split.
    + rewrite absg_gwith. rewrite Hv. reflexivity.
    + apply wf_gwith; auto.
  - (* SubBalance *)
    destruct (sub_balance_view (g_alvalid s) (g_cur s) a v0 Hd) as [Hv Hc].
    eexists _, _. split; [reflexivity|]. split.
    + cbn [absg a_cur]. rewrite Hv. reflexivity.
    + apply wf_gwith; auto.
  - (* AddBalance *)
    destruct (g_add_balance (g_cur s) a v0) as [c' rip] eqn:E. destruct (add_balance_view (g_alvalid s) (g_cur s) a v0 c' rip E) as [Hv Hc].
    eexists _, _. split; [reflexivity|]. split.
    + rewrite absg_mk, Hv. reflexivity.
    + exact (conj (Hc Hclean) (conj Hrevs (conj Hiss (conj Hnext (conj Hsorted (conj Hbound Hval)))))).
  - (* GetBalance *) eexists _, _. split; [reflexivity|]. split; [|exact Hwf].
    cbn [absg a_cur absg_core a_accs norm_obs]. destruct (g_objs (g_cur s) a); reflexivity.
  - (* GetNonce *) eexists _, _. split; [reflexivity|]. split; [|exact Hwf].
    cbn [absg a_cur absg_core a_accs norm_obs]. destruct (g_objs (g_cur s) a); reflexivity.
  - (* SetNonce *)
    destruct (g_get_or_new (g_cur s) a) as [c1 x] eqn:E. destruct (get_or_new_view (g_alvalid s) (g_cur s) a c1 x E) as (Hv & Ho & Hs & Hc).
    eexists _, _. split; [reflexivity|]. split.
    + rewrite absg_gwith. rewrite absg_core_set, Hv. cbn [absg a_cur].
      replace (a_accs (absg_core (g_alvalid s) (g_cur s)) a) with (gview (Some x)) by (rewrite Ho; reflexivity). reflexivity.
    + apply wf_gwith; auto. apply clean_set; auto.
  - (* GetCodeHash *) eexists _, _. split; [reflexivity|]. split; [|exact Hwf].
    cbn [absg a_cur absg_core a_accs norm_obs]. destruct (g_objs (g_cur s) a) as [x|]; cbn [gview a_code aacc0].
    + reflexivity.
    + reflexivity.
  - (* GetCode *) eexists _, _. split; [reflexivity|]. split; [|exact Hwf].
    cbn [absg a_cur absg_core a_accs norm_obs]. unfold g_get_code. destruct (g_objs (g_cur s) a); reflexivity.
  - (* SetCode *)
    destruct (g_get_or_new (g_cur s) a) as [c1 x] eqn:E. destruct (get_or_new_view (g_alvalid s) (g_cur s) a c1 x E) as (Hv & Ho & Hs & Hc).
    eexists _, _. split; [reflexivity|]. split.
    + rewrite absg_gwith. rewrite absg_core_set, Hv. cbn [absg a_cur].
      replace (a_accs (absg_core (g_alvalid s) (g_cur s)) a) with (gview (Some x)) by (rewrite Ho; reflexivity). reflexivity.
    + apply wf_gwith; auto. apply clean_set; auto.
  - (* GetCodeSize *) eexists _, _. split; [reflexivity|]. split; [|exact Hwf].
    cbn [absg a_cur absg_core a_accs norm_obs]. unfold g_get_code. destruct (g_objs (g_cur s) a); reflexivity.
  - (* AddRefund *)
    cbn [absg a_cur absg_core a_side] in Hd, Href. rewrite ab_side_refund in Hd, Href.
    eexists _, _. split; [reflexivity|]. split; [|apply wf_gwith; auto].
    rewrite absg_gwith. cbn [absg a_cur absg_core a_side with_cur set_side a_accs norm_obs].
    rewrite ab_side_refund, ab_side_logs. unfold MAXU64 in *. rewrite Z.mod_small by lia.
    destruct (g_alvalid s); reflexivity.
  - (* SubRefund *)
    cbn [absg a_cur absg_core a_side] in Hd, Href. rewrite ab_side_refund in Hd, Href.
    destruct (s_refund (g_side (g_cur s)) <? g) eqn:E; [apply Z.ltb_lt in E; lia|].
    eexists _, _. split; [reflexivity|]. split; [|apply wf_gwith; auto].
    rewrite absg_gwith. cbn [absg a_cur absg_core a_side with_cur set_side a_accs norm_obs].
    rewrite ab_side_refund, ab_side_logs, E. destruct (g_alvalid s); reflexivity.
  - (* GetRefund *) eexists _, _. split; [reflexivity|]. split; [|exact Hwf].
    cbn [absg a_cur absg_core a_side norm_obs]. rewrite ab_side_refund. reflexivity.
  - (* GetCommitted *) eexists _, _. split; [reflexivity|]. split; [|exact Hwf].
    cbn [absg a_cur absg_core a_accs norm_obs]. destruct (g_objs (g_cur s) a); reflexivity.
  - (* GetState *) eexists _, _. split; [reflexivity|]. split; [|exact Hwf].
    cbn [absg a_cur absg_core a_accs norm_obs]. destruct (g_objs (g_cur s) a); reflexivity.
  - (* SetState *)
    destruct (g_get_or_new (g_cur s) a) as [c1 x] eqn:E. destruct (get_or_new_view (g_alvalid s) (g_cur s) a c1 x E) as (Hv & Ho & Hs & Hc).
    destruct (g_stor x k =? v0) eqn:Ek.
    + apply Z.eqb_eq in Ek. eexists _, _. split; [reflexivity|]. split; [|apply wf_gwith; auto].
      rewrite absg_gwith. rewrite Hv. cbn [absg a_cur].
      replace (a_accs (absg_core (g_alvalid s) (g_cur s)) a) with (gview (Some x)) by (rewrite Ho; reflexivity).
      cbn [gview a_nonce a_bal a_code a_stor a_comm a_sd norm_obs]. rewrite <- Ek, upd_id.
      replace (mkAacc (g_nonce x) (g_bal x) (g_code x) (g_stor x) (g_orig x) (g_sui x)) with (gview (Some x)) by reflexivity.
      rewrite Ho. replace (gview (g_objs (g_cur s) a)) with (a_accs (absg_core (g_alvalid s) (g_cur s)) a) by reflexivity.
      unfold with_cur. rewrite set_acc_id. reflexivity.
    + eexists _, _. split; [reflexivity|]. split; [|apply wf_gwith; auto; apply clean_set; auto].
      rewrite absg_gwith. rewrite absg_core_set, Hv. cbn [absg a_cur].
      replace (a_accs (absg_core (g_alvalid s) (g_cur s)) a) with (gview (Some x)) by (rewrite Ho; reflexivity). reflexivity.
  - (* Suicide *)
    cbn [absg a_cur absg_core a_accs] in Hd.
    destruct (g_objs (g_cur s) a) as [x|] eqn:E.
    + eexists _, _. split; [reflexivity|]. split; [|apply wf_gwith; auto; apply clean_set; auto].
      rewrite absg_gwith. rewrite absg_core_set. cbn [absg a_cur absg_core a_accs]. rewrite E. reflexivity.
    + exfalso. unfold nonempty_contract in Hd. cbn [gview aacc0 a_nonce a_code] in Hd. destruct Hd as [Hd|Hd]; [lia|congruence].
  - (* HasSuicided *) eexists _, _. split; [reflexivity|]. split; [|exact Hwf].
    cbn [absg a_cur absg_core a_accs norm_obs]. destruct (g_objs (g_cur s) a); reflexivity.
  - (* Exist *) contradiction.
  - (* Empty *) eexists _, _. split; [reflexivity|]. split; [|exact Hwf].
    cbn [absg a_cur absg_core a_accs norm_obs]. destruct (g_objs (g_cur s) a); reflexivity.
  - (* Prepare *)
    eexists _, _. split; [reflexivity|]. split.
    + unfold absg. cbn [g_cur g_revs g_issued g_alvalid g_set_side g_side g_objs absg_core ab_side].
      cbn [a_cur a_live a_count a_alvalid absg_core a_side set_side a_accs norm_obs].
      rewrite ab_side_refund, ab_side_logs.
      destruct (g_alvalid s) eqn:Ev; [reflexivity|]. rewrite (Hval eq_refl). reflexivity.
    + refine (conj Hclean (conj Hrevs (conj Hiss (conj Hnext (conj Hsorted (conj Hbound _)))))). intro; discriminate.
  - (* AddrInAL *) cbn [absg a_alvalid] in Hd. eexists _, _. split; [reflexivity|]. split; [|exact Hwf].
    cbn [absg a_cur absg_core a_side norm_obs]. rewrite Hd. reflexivity.
  - (* SlotInAL *) cbn [absg a_alvalid] in Hd. eexists _, _. split; [reflexivity|]. split; [|exact Hwf].
    cbn [absg a_cur absg_core a_side norm_obs]. rewrite Hd. reflexivity.
  - (* AddAddrAL *) cbn [absg a_alvalid] in Hd. eexists _, _. split; [reflexivity|]. split; [|apply wf_gwith; auto].
    rewrite absg_gwith. cbn [absg a_cur absg_core a_side with_cur set_side a_accs norm_obs]. rewrite Hd. reflexivity.
  - (* AddSlotAL *) cbn [absg a_alvalid] in Hd. eexists _, _. split; [reflexivity|]. split; [|apply wf_gwith; auto].
    rewrite absg_gwith. cbn [absg a_cur absg_core a_side with_cur set_side a_accs norm_obs]. rewrite Hd. reflexivity.
  - (* Snapshot *)
    cbn [absg a_alvalid] in Hd.
    eexists _, _. split; [reflexivity|]. split.
    + unfold absg. cbn [g_cur g_revs g_issued g_alvalid a_cur a_live a_count a_alvalid norm_obs].
      rewrite map_app, app_length. cbn [map fst snd length]. rewrite Hnext, Nat2Z.id, Nat.add_1_r. reflexivity.
    + unfold wf_g. cbn [g_cur g_revs g_issued g_next g_alvalid].
      split; [exact Hclean|]. split; [|split; [|split; [|split; [|split]]]].
      * apply Forall_app. split; [assumption|constructor; [assumption|constructor]].
      * rewrite app_length. cbn [length]. rewrite Nat.add_1_r, seq_S, map_app. cbn [map Nat.add]. rewrite <- Hiss, Hnext. reflexivity.
      * rewrite app_length. cbn [length]. lia.
      * rewrite map_app. cbn [map fst]. apply sorted_snoc; [assumption|].
        apply Forall_map. eapply Forall_impl; [|exact Hbound]. intros ic Hic. cbn in Hic. lia.
      * apply Forall_app. split.
        -- eapply Forall_impl; [|exact Hbound]. intros ic Hic. cbn in *. lia.
        -- constructor; [cbn; lia|constructor].
      * rewrite Hd. intro; discriminate.
  - (* Revert *)
    cbn [absg a_live] in Hd.
    assert (Hnn : Forall (fun ic : Z * gcore => 0 <= fst ic) (g_revs s)).
    { eapply Forall_impl; [|exact Hbound]. intros ic Hic. cbn in *. lia. }
    rewrite (find_rev_live (absg_core (g_alvalid s)) n (g_revs s) 0 Hnn) in Hd.
    destruct (find_rev (Z.of_nat n) (g_revs s) 0) as [[i c']|] eqn:Ef; [|congruence].
    destruct (find_rev_some _ _ _ _ _ Ef) as (k & Hk0 & Hk). cbn [Nat.add] in Hk0. subst i.
    assert (Hlt : (n < length (g_issued s))%nat).
    { pose proof (Forall_nth_error _ _ _ _ Hbound Hk) as Hb. cbn in Hb. lia. }
    assert (Hnth : nth_error (g_issued s) n = Some (Z.of_nat n)).
    { rewrite Hiss. apply issued_nth. exact Hlt. }
    rewrite Hnth, Ef.
    eexists _, _. split; [reflexivity|]. split.
    + cbn [absg a_live norm_obs]. rewrite (find_rev_live (absg_core (g_alvalid s)) n (g_revs s) 0 Hnn), Ef.
      unfold absg. cbn [g_cur g_revs g_issued g_alvalid a_count a_alvalid]. rewrite firstn_map. reflexivity.
    + unfold wf_g. cbn [g_cur g_revs g_issued g_next g_alvalid].
      split; [|split; [|split; [exact Hiss|split; [exact Hnext|split; [|split]]]]].
      * exact (Forall_nth_error _ _ _ _ Hrevs Hk).
      * apply Forall_firstn. assumption.
      * rewrite <- firstn_map. apply sorted_firstn. assumption.
      * apply Forall_firstn. assumption.
      * intro Hf. rewrite (Hval Hf). destruct k; reflexivity.
  - (* AddLog *) eexists _, _. split; [reflexivity|]. split; [|apply wf_gwith; auto].
    rewrite absg_gwith. cbn [absg a_cur absg_core a_side with_cur set_side a_accs norm_obs].
    rewrite ab_side_refund, ab_side_logs. destruct (g_alvalid s); reflexivity.
  - (* CallEnter *)
    destruct Hd as [Hv0 Hvb].
    destruct (g_exist (g_cur s) a) eqn:Eex.
    + (* the account object exists: Transfer *)
      cbn [negb andb].
      destruct (sub_balance_view (g_alvalid s) (g_cur s) caller v0 (conj Hv0 Hvb)) as [Hsv Hsc].
      destruct (g_add_balance (g_sub_balance (g_cur s) caller v0) a v0) as [c3 rip] eqn:Ea.
      destruct (add_balance_view (g_alvalid s) _ a v0 c3 rip Ea) as [Hav Hac].
      eexists _, _. split; [reflexivity|]. split.
      * cbn [absg a_cur] in *. rewrite Hsv. rewrite absg_mk. rewrite Hav. cbn [with_cur a_cur norm_obs].
        destruct isPre; [reflexivity|]. unfold g_get_code. rewrite <- Hav. cbn [absg_core a_accs]. destruct (g_objs c3 a); reflexivity.
      * exact (conj (Hac (Hsc Hclean)) (conj Hrevs (conj Hiss (conj Hnext (conj Hsorted (conj Hbound Hval)))))).
    + (* no object: the view of the callee is the zero view *)
      assert (Enone : g_objs (g_cur s) a = None) by (unfold g_exist in Eex; destruct (g_objs (g_cur s) a); [discriminate|reflexivity]).
      cbn [negb andb].
      destruct (negb isPre && (v0 =? 0)) eqn:Eearly.
      * (* early return: nothing happens; abstractly a zero-value transfer *)
        apply andb_true_iff in Eearly. destruct Eearly as [Epre Ez]. apply Z.eqb_eq in Ez. subst v0.
        destruct isPre; [discriminate|].
        eexists _, _. split; [reflexivity|]. split; [|exact Hwf].
        unfold ac_sub_balance, ac_add_balance.
        destruct (a_bal (a_accs (a_cur (absg s)) caller) <? 0) eqn:El; [apply Z.ltb_lt in El; lia|].
        rewrite aacc_bal0', set_acc_id, aacc_bal0, set_acc_id. cbn [norm_obs].
        cbn [absg a_cur absg_core a_accs]. rewrite Enone. destruct s; reflexivity.
      * (* CreateAccount of an absent address does not change the view; then Transfer *)
        destruct (create_account_view (g_alvalid s) (g_cur s) a) as [Hcv Hcc].
        assert (Hsame : absg_core (g_alvalid s) (g_create_account (g_cur s) a) = absg_core (g_alvalid s) (g_cur s)).
        { rewrite Hcv. cbn [absg_core a_accs]. rewrite Enone. cbn [gview aacc0 a_bal].
          replace (mkAacc 0 0 0 zf zf false) with (a_accs (absg_core (g_alvalid s) (g_cur s)) a)
            by (cbn [absg_core a_accs]; rewrite Enone; reflexivity).
          apply set_acc_id. }
        assert (Hvb' : 0 <= v0 <= a_bal (a_accs (absg_core (g_alvalid s) (g_create_account (g_cur s) a)) caller))
          by (rewrite Hsame; exact (conj Hv0 Hvb)).
        destruct (sub_balance_view (g_alvalid s) (g_create_account (g_cur s) a) caller v0 Hvb') as [Hsv Hsc].
        destruct (g_add_balance (g_sub_balance (g_create_account (g_cur s) a) caller v0) a v0) as [c3 rip] eqn:Ea.
        destruct (add_balance_view (g_alvalid s) _ a v0 c3 rip Ea) as [Hav Hac].
        eexists _, _. split; [reflexivity|]. split.
        -- cbn [absg a_cur] in *. rewrite <- Hsame, Hsv. rewrite absg_mk. rewrite Hav. cbn [with_cur a_cur norm_obs].
           destruct isPre; [reflexivity|]. unfold g_get_code. rewrite <- Hav. cbn [absg_core a_accs]. destruct (g_objs c3 a); reflexivity.
        -- exact (conj (Hac (Hsc (Hcc Hclean))) (conj Hrevs (conj Hiss (conj Hnext (conj Hsorted (conj Hbound Hval)))))).
  - (* Finalise *)
    eexists _, _. split; [reflexivity|]. split.
    + unfold absg. cbn [g_cur g_revs g_issued g_alvalid a_cur a_live a_count a_alvalid norm_obs map].
      unfold absg_core. cbn [g_objs g_side ab_side s_refund s_logs a_accs].
      rewrite (finalise_view (g_cur s) (if g_ripemd s then RIPEMD :: g_dirty (g_cur s) else g_dirty (g_cur s)) Hclean).
      * reflexivity.
      * intros a Ha. destruct (g_ripemd s); cbn [memZ]; rewrite Ha; [apply orb_true_r|reflexivity].
      * exact Hstor.
    + unfold wf_g. cbn [g_cur g_revs g_issued g_next g_alvalid].
      split; [|split; [constructor|split; [exact Hiss|split; [exact Hnext|split; [constructor|split; [constructor|reflexivity]]]]]].
      apply clean_after_finalise. intros a o Ho Hm. apply (Hclean a o Ho).
      destruct (g_ripemd s); cbn [memZ] in Hm; [apply orb_false_iff in Hm; exact (proj2 Hm)|exact Hm].
Qed.

End WithFE.
