(* Whole-block corollaries of the numbering lemmas of TxPipeProofs.v: the LISTS of Ethereum indices and of log
   indices a block shows, as sequences (0,1,2,... ; consecutive without gaps or repeats).  Add-only file: nothing in
   TxPipe.v / TxPipeProofs.v changes. *)
From Coq Require Import List ZArith Lia Bool FinFun.
From Evm Require Import TxPipe TxPipeProofs.
Import ListNotations.
Open Scope Z_scope.

(* a, a+1, ..., a+n-1 *)
Definition zrange (a n : Z) : list Z := map (fun i => a + Z.of_nat i) (seq 0 (Z.to_nat n)).

Definition entry := (st * txd * evm_out * txres)%type.

Definition is_exec (r : txres) : bool := match r_out r with Executed _ => true | _ => false end.

(* the entries of a block trace that reached execution (own an Ethereum index) *)
Definition reached (tr : list entry) : list entry := filter (fun x => passed (r_out (snd x))) tr.
(* the indices they show, in block order *)
Definition shown_indices (tr : list entry) : list Z := map (fun x => r_tx_index (snd x)) (reached tr).
(* the log indices the receipts of the block show, in block order: receipt k owns log_start .. log_start + #logs - 1 *)
Definition shown_log_ids (tr : list entry) : list Z :=
  flat_map (fun x => if is_exec (snd x) then zrange (r_log_start (snd x)) (e_logs (snd (fst x))) else []) tr.
Definition total_logs (tr : list entry) : Z :=
  fold_right (fun x acc => (if is_exec (snd x) then e_logs (snd (fst x)) else 0) + acc) 0 tr.

Lemma map_seq_shift a k : forall m s,
  map (fun i => a + Z.of_nat i) (seq (k + s) m) = map (fun i => a + Z.of_nat k + Z.of_nat i) (seq s m).
Proof.
  induction m as [|m IH]; intros s; [reflexivity|].
  cbn [seq map]. f_equal.
  - rewrite Nat2Z.inj_add. lia.
  - replace (S (k + s))%nat with (k + S s)%nat by lia. apply IH.
Qed.

Lemma zrange_app a n m : 0 <= n -> 0 <= m -> zrange a n ++ zrange (a + n) m = zrange a (n + m).
Proof.
  intros Hn Hm. unfold zrange. rewrite Z2Nat.inj_add by assumption.
  rewrite seq_app, map_app. f_equal.
  replace (0 + Z.to_nat n)%nat with (Z.to_nat n + 0)%nat by lia.
  rewrite map_seq_shift. rewrite Z2Nat.id by assumption. reflexivity.
Qed.

Lemma zrange_0 a : zrange a 0 = [].
Proof. reflexivity. Qed.

Lemma zrange_cons a n : 0 <= n -> zrange a (1 + n) = a :: zrange (a + 1) n.
Proof.
  intros Hn. rewrite <- zrange_app by lia. change (zrange a 1) with [a + Z.of_nat 0%nat].
  cbn [app]. f_equal. cbn [Z.of_nat]. lia.
Qed.

Lemma zrange_In a n z : In z (zrange a n) <-> a <= z < a + n.
Proof.
  unfold zrange. rewrite in_map_iff. split.
  - intros (i & <- & Hi). apply in_seq in Hi. lia.
  - intros Hz. exists (Z.to_nat (z - a)). split; [lia|]. apply in_seq. lia.
Qed.

Lemma zrange_NoDup a n : NoDup (zrange a n).
Proof.
  unfold zrange. apply Injective_map_NoDup; [|apply seq_NoDup].
  intros x y Hxy. lia.
Qed.

Lemma zrange_length a n : length (zrange a n) = Z.to_nat n.
Proof. unfold zrange. rewrite map_length, seq_length. reflexivity. Qed.

(* one delivery: the index / first log index it shows are the transient counters it found *)
Lemma passed_index s t o :
  passed (r_out (snd (deliver s t o))) = true -> r_tx_index (snd (deliver s t o)) = tx_count s.
Proof.
  intros Hp. destruct (r_out (snd (deliver s t o))) eqn:Eo; cbn in Hp; try discriminate.
  - pose proof (failed_result s t o (or_introl Eo)) as (_ & Hi & _). exact Hi.
  - pose proof (failed_result s t o (or_intror Eo)) as (_ & Hi & _). exact Hi.
  - pose proof (executed_result s t o vmerr Eo) as (_ & _ & _ & _ & Hi & _). exact Hi.
Qed.

Lemma exec_log_start s t o :
  is_exec (snd (deliver s t o)) = true -> r_log_start (snd (deliver s t o)) = log_count s.
Proof.
  unfold is_exec. intros He. destruct (r_out (snd (deliver s t o))) eqn:Eo; try discriminate.
  pose proof (executed_result s t o vmerr Eo) as (_ & _ & _ & _ & _ & _ & Hl & _). exact Hl.
Qed.

(* from ANY state: the indices shown are tx_count, tx_count+1, ... *)
Lemma indices_from l : forall s,
  shown_indices (trace s l) = zrange (tx_count s) (Z.of_nat (length (reached (trace s l)))).
Proof.
  induction l as [|i r IH]; intros s; [reflexivity|].
  destruct i as [t o|g p f inc]; cbn [trace].
  - unfold shown_indices, reached. cbn [filter snd].
    pose proof (transient_step s t o) as Ht. cbv zeta in Ht. destruct Ht as (Hc & _ & _).
    specialize (IH (fst (deliver s t o))). unfold shown_indices, reached in IH.
    destruct (passed (r_out (snd (deliver s t o)))) eqn:Ep.
    + cbn [map length snd]. rewrite Nat2Z.inj_succ, <- Z.add_1_l, zrange_cons by lia.
      rewrite (passed_index s t o Ep). f_equal. rewrite IH, Hc. reflexivity.
    + rewrite IH, Hc. f_equal. lia.
  - pose proof (step_cosmos_transient s g p f inc) as Hc. cbv zeta in Hc. destruct Hc as (Hc & _ & _).
    rewrite IH, Hc. reflexivity.
Qed.

Lemma total_logs_nonneg tr :
  Forall (fun x : entry => 0 <= e_logs (snd (fst x))) tr -> 0 <= total_logs tr.
Proof.
  induction 1 as [|x tr Hx _ IH]; cbn [total_logs fold_right]; [lia|].
  fold (total_logs tr). destruct (is_exec (snd x)); lia.
Qed.

(* from ANY state: the log indices shown tile log_count .. log_count + total - 1 *)
Lemma log_ids_from l : forall s,
  Forall (fun x : entry => 0 <= e_logs (snd (fst x))) (trace s l) ->
  shown_log_ids (trace s l) = zrange (log_count s) (total_logs (trace s l)).
Proof.
  induction l as [|i r IH]; intros s Hnn; [reflexivity|].
  destruct i as [t o|g p f inc]; cbn [trace] in *.
  - inversion Hnn as [|x tr Hx Hrest]; subst. cbn [fst snd] in Hx.
    pose proof (transient_step s t o) as Ht. cbv zeta in Ht. destruct Ht as (_ & _ & Hlc).
    specialize (IH _ Hrest). pose proof (total_logs_nonneg _ Hrest) as Htot.
    unfold shown_log_ids in *. cbn [flat_map fst snd]. cbn [total_logs fold_right fst snd].
    fold (total_logs (trace (fst (deliver s t o)) r)).
    rewrite IH, Hlc. unfold logs_shown.
    destruct (is_exec (snd (deliver s t o))) eqn:Ee.
    + rewrite (exec_log_start s t o Ee).
      unfold is_exec in Ee. destruct (r_out (snd (deliver s t o))); try discriminate.
      apply zrange_app; assumption.
    + unfold is_exec in Ee. destruct (r_out (snd (deliver s t o))); try discriminate;
        cbn [app]; f_equal; lia.
  - pose proof (step_cosmos_transient s g p f inc) as Hc. cbv zeta in Hc. destruct Hc as (_ & _ & Hc).
    rewrite IH by assumption. rewrite Hc. reflexivity.
Qed.

Lemma begin_block_counters s :
  tx_count (begin_block s) = 0 /\ cum_gas (begin_block s) = 0 /\ log_count (begin_block s) = 0.
Proof. cbn. auto. Qed.

(* ---- whole blocks *)
Theorem block_indices_are_0_1_2 s l :
  let tr := trace (begin_block s) l in
  shown_indices tr = zrange 0 (Z.of_nat (length (reached tr))).
Proof.
  cbv zeta. rewrite indices_from. destruct (begin_block_counters s) as (-> & _). reflexivity.
Qed.

Theorem block_log_ids_consecutive s l :
  let tr := trace (begin_block s) l in
  Forall (fun x : entry => 0 <= e_logs (snd (fst x))) tr ->
  shown_log_ids tr = zrange 0 (total_logs tr) /\ NoDup (shown_log_ids tr) /\
  (forall z, In z (shown_log_ids tr) <-> 0 <= z < total_logs tr).
Proof.
  cbv zeta. intros Hnn. rewrite (log_ids_from l _ Hnn).
  destruct (begin_block_counters s) as (_ & _ & ->).
  split; [reflexivity|]. split; [apply zrange_NoDup|]. intros z. rewrite zrange_In. lia.
Qed.
