(* Safety of the memEventBus model for every interleaving: induction over the step relation. *)
From Evm Require Import Conc ConcProofs PubSub.
From Coq Require Import Lia Relations.

Lemma mx_eqb_spec a b : mx_eqb a b = true <-> a = b.
Proof. destruct a, b; cbn; split; intros; congruence. Qed.

Lemma memb_spec x l : memb x l = true <-> In x l.
Proof.
  unfold memb. rewrite existsb_exists. split.
  - intros (y & Hy & He). apply Nat.eqb_eq in He. subst; auto.
  - intros H. exists x. split; auto. apply Nat.eqb_refl.
Qed.
Lemma memb_false x l : memb x l = false <-> ~ In x l.
Proof. rewrite <- memb_spec. destruct (memb x l); split; intros; congruence. Qed.

Ltac wf_solve :=
  cbn; repeat (match goal with
  | |- forall _, _ => intro
  | |- _ /\ _ => split
  | |- Forall _ [] => constructor
  | |- Forall _ (_ :: _) => constructor
  | |- context [if ?b then _ else _] => destruct b; cbn
  | |- context [match lookup ?a ?b with _ => _ end] => destruct (lookup a b); cbn
  | m : mx |- _ => destruct m; cbn in *
  end); try reflexivity; try congruence; auto.

(* ---- the annotation [holds] agrees with the code; no lock is held while another is acquired *)
Lemma ps_wf_code : wf_code pc data mx perr code holds.
Proof. intros p. destruct p; try (destruct rest); wf_solve. Qed.

Lemma ps_wf_client : wf_client pc mx client holds.
Proof. intros p H m. destruct H, m; reflexivity. Qed.

Lemma ps_wf_order : wf_order pc data mx perr code holds (fun _ => 0).
Proof.
  intros p m md k Hc m' md' Hh. exfalso.
  destruct p; try (destruct rest); cbn in Hc; try discriminate; destruct m'; cbn in Hh; discriminate.
Qed.

Lemma ps_wf_nonblocking : wf_holder_nonblocking pc data mx perr code holds.
Proof.
  intros p m md Hh. destruct p; try (destruct rest); destruct m; cbn in Hh; try discriminate; cbn; auto.
Qed.

(* ---- list facts about the flat subscriber table *)
Definition all_chans (d : data) : list nat := map s_chan (subs d).

Lemma in_filter_chan f l c : In c (map s_chan (filter f l)) -> In c (map s_chan l).
Proof.
  rewrite !in_map_iff. intros (t & Ht & Hin). apply filter_In in Hin. exists t. tauto.
Qed.

Lemma nodup_filter_chan f l : NoDup (map s_chan l) -> NoDup (map s_chan (filter f l)).
Proof.
  induction l as [|t l IH]; cbn; intros H; [constructor|]. inversion H; subst.
  destruct (f t); cbn; auto. constructor; auto. intros Hin. apply in_filter_chan in Hin. auto.
Qed.

Lemma filter_split_disjoint f l c :
  NoDup (map s_chan l) -> In c (map s_chan (filter f l)) ->
  ~ In c (map s_chan (filter (fun t => negb (f t)) l)).
Proof.
  induction l as [|t l IH]; cbn; intros Hnd Hin; [auto|]. inversion Hnd; subst.
  destruct (f t) eqn:Ef; cbn in *.
  - destruct Hin as [<-|Hin].
    + intros H. apply in_filter_chan in H. auto.
    + auto.
  - intros [<-|H].
    + apply in_filter_chan in Hin. auto.
    + revert H. apply IH; auto.
Qed.

Lemma NoDup_app_one {A} (l : list A) x : NoDup l -> ~ In x l -> NoDup (l ++ [x]).
Proof.
  induction l as [|h t IH]; cbn; intros Hnd Hni.
  - constructor; auto; constructor.
  - inversion Hnd; subst. constructor.
    + rewrite in_app_iff. cbn. intuition.
    + apply IH; auto.
Qed.

Definition is_loop (q : pc) : Prop :=
  match q with PT_cl_loop _ _ | PT_pub_loop _ _ _ _ => True | _ => False end.

(* ---- the data/thread invariant *)
Record J (s : pstate) : Prop := mkJ {
  j_err : err s = None;
  j_closed_lt : forall c, In c (sub_closed (dat s)) -> c < nsub (dat s);
  j_subs_lt : forall c, In c (all_chans (dat s)) -> c < nsub (dat s);
  j_subs_open : forall c, In c (all_chans (dat s)) -> ~ In c (sub_closed (dat s));
  j_subs_nodup : NoDup (all_chans (dat s));
  (* a goroutine inside closeAllSubscribers still has to close distinct, open channels that left the table *)
  j_cl : forall i n rest, nth_error (thr s) i = Some (PT_cl_loop n rest) ->
      NoDup rest /\ forall c, In c rest ->
        c < nsub (dat s) /\ ~ In c (sub_closed (dat s)) /\ ~ In c (all_chans (dat s));
  (* a goroutine inside publishAllSubscribers only sends on open channels *)
  j_pub : forall i n src msg rest, nth_error (thr s) i = Some (PT_pub_loop n src msg rest) ->
      forall c, In c rest -> ~ In c (sub_closed (dat s))
}.

Definition Inv (s : pstate) : Prop := lock_inv pc data mx perr holds s /\ J s.

Definition same_core (d d' : data) : Prop :=
  subs d' = subs d /\ sub_closed d' = sub_closed d /\ nsub d' = nsub d.
Definition loops_from (l l' : list pc) : Prop :=
  forall j q, nth_error l' j = Some q -> is_loop q -> exists j', nth_error l j' = Some q.

Lemma J_frame s d' m' l' :
  J s -> same_core (dat s) d' -> loops_from (thr s) l' -> J (mkSt d' m' l' None).
Proof.
  intros [He Hcl Hsl Hso Hnd Hc Hp] (E1 & E2 & E3) Hl.
  constructor; cbn [dat thr err]; unfold all_chans in *; try rewrite E1; try rewrite E2; try rewrite E3; auto.
  - intros i n rest Hi. destruct (Hl _ _ Hi I) as [j' Hj']. eapply Hc; eauto.
  - intros i n src msg rest Hi. destruct (Hl _ _ Hi I) as [j' Hj']. eapply Hp; eauto.
Qed.

Lemma loops_upd l i p k sp :
  nth_error l i = Some p -> ~ is_loop k -> (forall q, In q sp -> ~ is_loop q) ->
  loops_from l (upd l i k ++ sp).
Proof.
  intros Hp Hk Hsp j q Hq Hlq.
  destruct (nth_upd_app_cases _ _ _ _ _ _ _ Hp Hq) as [[-> ->]|[[Hji Hq']|Hin]].
  - contradiction.
  - eauto.
  - exfalso. eapply Hsp; eauto.
Qed.

Lemma loops_upd0 l i p k :
  nth_error l i = Some p -> ~ is_loop k -> loops_from l (upd l i k).
Proof.
  intros Hp Hk. rewrite <- (app_nil_r (upd l i k)). eapply loops_upd; eauto; try (intros q Hq; destruct Hq).
Qed.

Lemma same_core_refl d : same_core d d.
Proof. repeat split. Qed.

(* the lock moves never lead into one of the two loops *)
Lemma acq_not_loop p m md k : code p = Acq m md k -> ~ is_loop k.
Proof. destruct p; try (destruct rest); cbn; intros H; inversion H; subst; cbn; auto. Qed.
Lemma rel_not_loop p m md k : code p = Rel m md k -> ~ is_loop k.
Proof.
  destruct p; try (destruct rest); cbn; intros H; inversion H; subst; cbn; auto; destruct ok; cbn; auto.
Qed.

Ltac inv_code Hc Hf :=
  cbn in Hc; try discriminate Hc; inversion Hc; subst; clear Hc; cbn in Hf.

Lemma Inv_tstep s i s' : Inv s -> ps_tstep s i = Some s' -> Inv s'.
Proof.
  intros [LI HJ] H. split.
  { eapply (lock_inv_tstep pc data mx perr mx_eqb mx_eqb_spec code BadUnlock holds ps_wf_code); eauto. }
  destruct (tstep_inv pc data mx perr mx_eqb code BadUnlock holds ps_wf_code s i s' LI H) as [He Hs].
  destruct Hs as [p m md k r Hp Hc Ha | p m md k r Hp Hc Hr | p g f d k sp e Hp Hc Hg Hf].
  - eapply J_frame; eauto using same_core_refl. eapply loops_upd0; eauto. eapply acq_not_loop; eauto.
  - eapply J_frame; eauto using same_core_refl. eapply loops_upd0; eauto. eapply rel_not_loop; eauto.
  - destruct p; try (destruct rest as [|c rest]); inv_code Hc Hf;
      try solve [inversion Hf; subst; clear Hf; eapply J_frame;
                 [exact HJ | repeat split
                 | eapply loops_upd; eauto; cbn; try tauto; intros q Hq; repeat (destruct Hq as [<-|Hq]; cbn; try tauto); destruct Hq]].
    + (* SU_ins: a fresh channel enters the table *)
      inversion Hf; subst; clear Hf. destruct HJ as [_ Hcl Hsl Hso Hnd Hcc Hpp].
      rewrite app_nil_r. constructor; cbn [dat thr err nsub sub_closed subs all_chans]; auto.
      * intros c Hin. specialize (Hcl _ Hin). lia.
      * unfold all_chans; cbn. intros c Hin. rewrite map_app, in_app_iff in Hin. cbn in Hin.
        destruct Hin as [Hin|[<-|[]]]; [specialize (Hsl _ Hin); lia|cbn; lia].
      * unfold all_chans; cbn. intros c Hin Hc'. rewrite map_app, in_app_iff in Hin. cbn in Hin.
        destruct Hin as [Hin|[<-|[]]]; [eapply Hso; eauto|]. specialize (Hcl _ Hc'). unfold s_chan in Hcl; cbn in Hcl. lia.
      * unfold all_chans; cbn. rewrite map_app. cbn. apply NoDup_app_one; auto.
        intros Hin. specialize (Hsl _ Hin). unfold s_chan in Hsl; cbn in Hsl. lia.
      * intros j n' rest Hj. destruct (nth_upd_app_cases _ [] _ _ _ _ _ Hp ltac:(rewrite app_nil_r; exact Hj)) as [[-> Hq]|[[Hji Hq']|[]]]; [discriminate|].
        destruct (Hcc _ _ _ Hq') as [Hnr Hr]. split; auto. intros c Hin. destruct (Hr _ Hin) as (A & B & C).
        repeat split; auto. unfold all_chans; cbn. rewrite map_app, in_app_iff. cbn. intros [X|[X|[]]]; [auto|unfold s_chan in X; cbn in X; lia].
      * intros j n' src msg rest Hj. destruct (nth_upd_app_cases _ [] _ _ _ _ _ Hp ltac:(rewrite app_nil_r; exact Hj)) as [[-> Hq]|[[Hji Hq']|[]]]; [discriminate|].
        eapply Hpp; eauto.
    + (* US_del: one entry leaves the table *)
      inversion Hf; subst; clear Hf. destruct HJ as [_ Hcl Hsl Hso Hnd Hcc Hpp].
      rewrite app_nil_r. constructor; cbn [dat thr err nsub sub_closed subs all_chans]; auto.
      * unfold all_chans; cbn. intros c Hin. apply in_filter_chan in Hin. auto.
      * unfold all_chans; cbn. intros c Hin. apply in_filter_chan in Hin. auto.
      * unfold all_chans; cbn. apply nodup_filter_chan; auto.
      * intros j n' rest Hj. destruct (nth_upd_app_cases _ [] _ _ _ _ _ Hp ltac:(rewrite app_nil_r; exact Hj)) as [[-> Hq]|[[Hji Hq']|[]]]; [discriminate|].
        destruct (Hcc _ _ _ Hq') as [Hnr Hr]. split; auto. intros c Hin. destruct (Hr _ Hin) as (A & B & C).
        repeat split; auto. unfold all_chans; cbn. intros X. apply in_filter_chan in X. auto.
      * intros j n' src msg rest Hj. destruct (nth_upd_app_cases _ [] _ _ _ _ _ Hp ltac:(rewrite app_nil_r; exact Hj)) as [[-> Hq]|[[Hji Hq']|[]]]; [discriminate|].
        eapply Hpp; eauto.
    + (* PT_recv *)
      destruct (lookup src (src_box (dat s))); inversion Hf; subst; clear Hf;
        (eapply J_frame; [exact HJ | repeat split | eapply loops_upd; eauto; cbn; try tauto; intros q []]).
    + (* PT_cl_take: the topic's channels leave the table and become the closing list *)
      inversion Hf; subst; clear Hf. destruct HJ as [_ Hcl Hsl Hso Hnd Hcc Hpp].
      rewrite app_nil_r. constructor; cbn [dat thr err nsub sub_closed subs all_chans]; auto.
      * unfold all_chans; cbn. intros c Hin. apply in_filter_chan in Hin. auto.
      * unfold all_chans; cbn. intros c Hin. apply in_filter_chan in Hin. auto.
      * unfold all_chans; cbn. apply nodup_filter_chan; auto.
      * intros j n' rest Hj. destruct (nth_upd_app_cases _ [] _ _ _ _ _ Hp ltac:(rewrite app_nil_r; exact Hj)) as [[-> Hq]|[[Hji Hq']|[]]].
        -- inversion Hq; subst. unfold chans_of. split; [apply nodup_filter_chan; auto|].
           intros c Hin. pose proof (in_filter_chan _ _ _ Hin) as Hin'. repeat split; auto.
           unfold all_chans, drop_name; cbn. apply filter_split_disjoint; auto.
        -- destruct (Hcc _ _ _ Hq') as [Hnr Hr]. split; auto. intros c Hin. destruct (Hr _ Hin) as (A & B & C).
           repeat split; auto. unfold all_chans; cbn. intros X. apply in_filter_chan in X. auto.
      * intros j n' src msg rest Hj. destruct (nth_upd_app_cases _ [] _ _ _ _ _ Hp ltac:(rewrite app_nil_r; exact Hj)) as [[-> Hq]|[[Hji Hq']|[]]]; [discriminate|].
        eapply Hpp; eauto.
    + (* PT_cl_loop (c :: rest): close(c) *)
      destruct HJ as [_ Hcl Hsl Hso Hnd Hcc Hpp].
      destruct (Hcc _ _ _ Hp) as [Hnr Hr]. inversion Hnr as [|? ? Hcn Hnr']; subst.
      destruct (Hr c (or_introl eq_refl)) as (Hlt & Hopen & Hout).
      apply memb_false in Hopen. rewrite Hopen in Hf. inversion Hf; subst; clear Hf. apply memb_false in Hopen.
      rewrite app_nil_r. constructor; cbn [dat thr err nsub sub_closed subs all_chans]; auto.
      * intros c' [<-|Hin]; auto.
      * unfold all_chans; cbn. intros c' Hin [<-|Hc']; [auto|]. eapply Hso; eauto.
      * intros j n' rest' Hj. destruct (nth_upd_app_cases _ [] _ _ _ _ _ Hp ltac:(rewrite app_nil_r; exact Hj)) as [[-> Hq]|[[Hji Hq']|[]]].
        -- inversion Hq; subst. split; auto. intros c' Hin. destruct (Hr c' (or_intror Hin)) as (A & B & C).
           repeat split; auto. intros [<-|X]; auto.
        -- (* another goroutine inside closeAllSubscribers would hold the same write lock *)
           exfalso. apply Hji. symmetry.
           eapply (excl_writer pc data mx perr holds s i j _ _ SMux MW LI Hp); cbn; eauto.
      * intros j n' src msg rest' Hj. destruct (nth_upd_app_cases _ [] _ _ _ _ _ Hp ltac:(rewrite app_nil_r; exact Hj)) as [[-> Hq]|[[Hji Hq']|[]]]; [discriminate|].
        exfalso. apply Hji. symmetry.
        eapply (excl_writer pc data mx perr holds s i j _ _ SMux MR LI Hp); cbn; eauto.
    + (* PT_pub_take *)
      inversion Hf; subst; clear Hf. destruct HJ as [_ Hcl Hsl Hso Hnd Hcc Hpp].
      rewrite app_nil_r. constructor; cbn [dat thr err nsub sub_closed subs all_chans]; auto.
      * intros j n' rest Hj. destruct (nth_upd_app_cases _ [] _ _ _ _ _ Hp ltac:(rewrite app_nil_r; exact Hj)) as [[-> Hq]|[[Hji Hq']|[]]]; [discriminate|].
        eapply Hcc; eauto.
      * intros j n' src' msg' rest Hj. destruct (nth_upd_app_cases _ [] _ _ _ _ _ Hp ltac:(rewrite app_nil_r; exact Hj)) as [[-> Hq]|[[Hji Hq']|[]]].
        -- inversion Hq; subst. intros c Hin. apply Hso. unfold chans_of in Hin. apply in_filter_chan in Hin. exact Hin.
        -- eapply Hpp; eauto.
    + (* PT_pub_loop (c :: rest): non-blocking send on c *)
      destruct HJ as [_ Hcl Hsl Hso Hnd Hcc Hpp].
      pose proof (Hpp _ _ _ _ _ Hp c (or_introl eq_refl)) as Hopen.
      apply memb_false in Hopen. rewrite Hopen in Hf. inversion Hf; subst; clear Hf. apply memb_false in Hopen.
      rewrite app_nil_r.
      assert (Hsame : same_core (dat s) (if memb c (ready (dat s)) then set_inbox (dat s) ((c, msg) :: inbox (dat s)) else dat s))
        by (destruct (memb c (ready (dat s))); repeat split).
      destruct Hsame as (E1 & E2 & E3).
      constructor; cbn [dat thr err]; unfold all_chans; try rewrite E1; try rewrite E2; try rewrite E3; auto.
      * intros j n' rest' Hj. destruct (nth_upd_app_cases _ [] _ _ _ _ _ Hp ltac:(rewrite app_nil_r; exact Hj)) as [[-> Hq]|[[Hji Hq']|[]]]; [discriminate|].
        eapply Hcc; eauto.
      * intros j n' src' msg' rest' Hj. destruct (nth_upd_app_cases _ [] _ _ _ _ _ Hp ltac:(rewrite app_nil_r; exact Hj)) as [[-> Hq]|[[Hji Hq']|[]]].
        -- inversion Hq; subst. intros c' Hin. eapply (Hpp _ _ _ _ _ Hp); right; auto.
        -- eapply Hpp; eauto.
Qed.

Lemma env_same_core d d' : env d d' -> same_core d d'.
Proof.
  intros H. destruct H as [d src msg d' H | d src d' H | d c on].
  - unfold env_send in H. destruct (memb src (src_closed d)); [discriminate|].
    destruct (lookup src (src_box d)); [discriminate|]. inversion H; subst. repeat split.
  - unfold env_close in H. destruct (memb src (src_closed d)); [discriminate|].
    destruct (lookup src (src_box d)); [discriminate|]. inversion H; subst. repeat split.
  - repeat split.
Qed.

Lemma Inv_step s s' : Inv s -> ps_step s s' -> Inv s'.
Proof.
  intros HI H. destruct H as [s i s' H | s d' He Hv | s p He Hc].
  - eapply Inv_tstep; eauto.
  - destruct HI as [LI HJ]. split; [exact LI|].
    eapply J_frame; [exact HJ | apply env_same_core; auto | intros j q Hq _; eauto].
  - destruct HI as [LI HJ]. split.
    + eapply (lock_inv_step pc data mx perr mx_eqb mx_eqb_spec code BadUnlock env client holds ps_wf_code ps_wf_client s);
        [exact LI | eapply step_spawn; eauto].
    + eapply J_frame; [exact HJ | apply same_core_refl |].
      intros j q Hq Hl. destruct (nth_app_one_cases _ _ _ _ Hq) as [Hq'| ->]; [eauto|].
      destruct Hc; destruct Hl.
Qed.

Lemma Inv_init : Inv ps_init.
Proof.
  split.
  - apply lock_inv_init. intros p [].
  - constructor; cbn; try (intros; contradiction); try (constructor; fail).
    + intros i n rest H. destruct i; cbn in H; discriminate.
    + intros i n src msg rest H. destruct i; cbn in H; discriminate.
Qed.

Theorem ps_reach_inv s : ps_reach s -> Inv s.
Proof.
  intros H. induction H as [|s s' _ IH Hs]; [apply Inv_init|eapply Inv_step; eauto].
Qed.

(* no step from a reachable state crashes: every channel sent on or closed is open, every Unlock matches a Lock *)
Theorem ps_no_crash s s' : ps_reach s -> ps_step s s' -> err s' = None.
Proof.
  intros Hr Hs. assert (Hr' : ps_reach s') by (eapply reach_step; eauto).
  destruct (ps_reach_inv _ Hr') as [_ HJ]. apply (j_err _ HJ).
Qed.

Theorem ps_send_targets_open s i n src msg c rest :
  ps_reach s -> nth_error (thr s) i = Some (PT_pub_loop n src msg (c :: rest)) -> ~ In c (sub_closed (dat s)).
Proof. intros Hr Hp. destruct (ps_reach_inv _ Hr) as [_ HJ]. eapply (j_pub _ HJ); eauto. left; auto. Qed.

Theorem ps_close_targets_open s i n c rest :
  ps_reach s -> nth_error (thr s) i = Some (PT_cl_loop n (c :: rest)) -> ~ In c (sub_closed (dat s)).
Proof.
  intros Hr Hp. destruct (ps_reach_inv _ Hr) as [_ HJ]. destruct (j_cl _ HJ _ _ _ Hp) as [_ H].
  apply (H c (or_introl eq_refl)).
Qed.

Theorem ps_no_wait_cycle s : ps_reach s -> forall i, ~ clos_trans nat (ps_waits_for s) i i.
Proof.
  intros Hr. destruct (ps_reach_inv _ Hr) as [LI _].
  apply (no_wait_cycle pc data mx perr code holds (fun _ => 0) ps_wf_order s LI).
Qed.

(* stronger than acyclicity for this component: nobody ever waits for a lock while holding one *)
Theorem ps_never_holds_while_acquiring s i p m md k m' :
  ps_reach s -> nth_error (thr s) i = Some p -> code p = Acq m md k -> holds p m' = None.
Proof.
  intros _ _ Hc. destruct (holds p m') eqn:Eh; auto. pose proof (ps_wf_order p m md k Hc m' m0 Eh). lia.
Qed.

Theorem ps_holder_progress s j q m md :
  ps_reach s -> nth_error (thr s) j = Some q -> holds q m = Some md ->
  (exists s', ps_tstep s j = Some s') \/ (exists k, ps_waits_for s j k).
Proof.
  intros Hr Hq Hh. destruct (ps_reach_inv _ Hr) as [LI HJ].
  eapply (holder_progress pc data mx perr mx_eqb code BadUnlock holds ps_wf_nonblocking); eauto. apply (j_err _ HJ).
Qed.

(* ---- the sequential histories evaluated by the driver are runs of the step relation *)
Lemma spawn_reach s p : ps_reach s -> client p -> ps_reach (spawn s p).
Proof.
  intros Hr Hc. destruct (ps_reach_inv _ Hr) as [_ HJ]. pose proof (j_err _ HJ) as He.
  unfold spawn. rewrite He. eapply reach_step; [exact Hr|]. eapply step_spawn; eauto.
Qed.

Lemma with_dat_reach s d : ps_reach s -> env (dat s) d -> ps_reach (with_dat s d).
Proof.
  intros Hr Hc. destruct (ps_reach_inv _ Hr) as [_ HJ]. pose proof (j_err _ HJ) as He.
  unfold with_dat. rewrite He. eapply reach_step; [exact Hr|]. eapply step_env; eauto.
Qed.

Lemma apply_op_reach s o : ps_reach s -> ps_reach (fst (apply_op s o)).
Proof.
  intros Hr. unfold ps_reach, ps_quiesce in *.
  destruct o; cbn [apply_op fst];
    try (apply quiesce_reach; apply spawn_reach; [exact Hr|constructor]).
  - destruct (env_send (dat s) src msg) as [d|] eqn:E; cbn [fst]; auto.
    apply quiesce_reach. apply with_dat_reach; auto. eapply e_send; eauto.
  - destruct (env_close (dat s) src) as [d|] eqn:E; cbn [fst]; auto.
    apply quiesce_reach. apply with_dat_reach; auto. eapply e_close; eauto.
  - apply with_dat_reach; auto. apply e_listen.
Qed.

Fixpoint final_state (s : pstate) (l : list op) : pstate :=
  match l with [] => s | o :: r => final_state (fst (apply_op s o)) r end.

Theorem run_ops_reach l : forall s, ps_reach s -> ps_reach (final_state s l).
Proof. induction l as [|o r IH]; intros s Hr; cbn; auto. apply IH. apply apply_op_reach. exact Hr. Qed.

(* hence no sequential history ever reports a crash *)
Theorem run_ops_never_crashed l : forall s, ps_reach s -> Forall (fun sn => sn_crashed sn = false) (run_ops s l).
Proof.
  induction l as [|o r IH]; intros s Hr; cbn; [constructor|].
  pose proof (apply_op_reach s o Hr) as Hr'. destruct (apply_op s o) as [s' res] eqn:E. cbn [fst] in Hr'.
  constructor; [|apply IH; auto].
  destruct (ps_reach_inv _ Hr') as [_ HJ]. cbn. rewrite (j_err _ HJ). reflexivity.
Qed.
