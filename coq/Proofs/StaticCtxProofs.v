(* Proofs about Model/StaticCtx.v (C12). *)
From Coq Require Import List ZArith Bool Lia.
From Evm Require Import StaticCtx.
Import ListNotations.
Open Scope Z_scope.

(* ---------------------------------------------------------------- induction over call trees *)

Section FrameInd.
  Variable P : frame -> Prop.
  Hypothesis Hcpc : forall op nzv l, P (Cpc op nzv l).
  Hypothesis Hcode : forall op nzv kids, Forall (fun sk => P (snd sk)) kids -> P (Code op nzv kids).

  Fixpoint frame_ind' (f : frame) : P f :=
    match f with
    | Cpc op nzv l => Hcpc op nzv l
    | Code op nzv kids =>
        Hcode op nzv kids
          ((fix go (ks : list (bool * frame)) : Forall (fun sk => P (snd sk)) ks :=
              match ks with
              | [] => Forall_nil _
              | sk :: r => Forall_cons sk (frame_ind' (snd sk)) (go r)
              end) kids)
    end.
End FrameInd.

(* ---------------------------------------------------------------- named versions of the inner loops *)

Fixpoint run_kids (chk ro' : bool) (ks : list (bool * frame)) (mask : Z) (eff : list nat) : cres :=
  match ks with
  | [] => COk mask eff
  | (strict, k) :: rest =>
      match run_call chk ro' k with
      | COk m e => run_kids chk ro' rest (Z.lor mask m) (eff ++ e)
      | CFail => if strict then CFail else run_kids chk ro' rest mask eff
      | CAbort => CFail
      end
  end.

Lemma run_call_code : forall chk ro op nzv kids,
  run_call chk ro (Code op nzv kids) =
  if callop_eqb op CALL && nzv && ro then CAbort
  else run_kids chk (ro || is_static op) kids 0 [].
Proof.
  intros chk ro op nzv kids. cbn [run_call].
  destruct (callop_eqb op CALL && nzv && ro); [reflexivity|].
  generalize 0 ([] : list nat).
  induction kids as [|[s k] r IH]; intros mask eff; cbn [run_kids]; [reflexivity|].
  destruct (run_call chk (ro || is_static op) k); try reflexivity.
  - apply IH.
  - destruct s; [reflexivity | apply IH].
Qed.

Fixpoint unprot_kids (seen' : bool) (ks : list (bool * frame)) : list nat :=
  match ks with
  | [] => []
  | (_, k) :: rest => unprotected seen' k ++ unprot_kids seen' rest
  end.

Lemma unprotected_code : forall seen op nzv kids,
  unprotected seen (Code op nzv kids) = unprot_kids (seen || is_static op) kids.
Proof.
  intros seen op nzv kids. cbn [unprotected].
  induction kids as [|[s k] r IH]; cbn [unprot_kids]; [reflexivity|]. now rewrite IH.
Qed.

Fixpoint leaves_kids (ks : list (bool * frame)) : list leaf :=
  match ks with
  | [] => []
  | (_, k) :: rest => leaves k ++ leaves_kids rest
  end.

Lemma leaves_code : forall op nzv kids, leaves (Code op nzv kids) = leaves_kids kids.
Proof.
  intros op nzv kids. cbn [leaves].
  induction kids as [|[s k] r IH]; cbn [leaves_kids]; [reflexivity|]. now rewrite IH.
Qed.

(* ---------------------------------------------------------------- leaves *)

Lemma run_leaf_eff_unprotected : forall ro op nzv l,
  incl (eff_of (run_leaf true ro op nzv l)) (unprotected ro (Cpc op nzv l)).
Proof.
  intros ro op nzv l. unfold run_leaf. cbn [unprotected].
  destruct (callop_eqb op CALL && nzv && ro); [intros x []|].
  destruct (l_ro l) eqn:Hro; cbn [negb andb].
  - rewrite !andb_false_r. cbn [andb].
    destruct (l_exec_ok l); cbn [eff_of]; intros x [].
  - rewrite !andb_true_r. destruct (is_static op) eqn:Hs; cbn [eff_of]; [intros x []|].
    rewrite orb_false_r. cbn [andb]. destruct ro; cbn [eff_of orb]; [intros x []|].
    destruct (l_exec_ok l); cbn [eff_of]; [apply incl_refl | intros x []].
Qed.

Lemma static_direct : forall chk ro nzv l,
  l_ro l = false -> run_call chk ro (Cpc STATICCALL nzv l) = CFail.
Proof.
  intros chk ro nzv l Hro. cbn [run_call]. unfold run_leaf. cbn. now rewrite Hro.
Qed.

(* ---------------------------------------------------------------- main inclusion: effects ⊆ unprotected leaves *)

Lemma run_kids_eff : forall ro' ks,
  Forall (fun sk => forall ro, incl (eff_of (run ro (snd sk))) (unprotected ro (snd sk))) ks ->
  forall mask eff, incl (eff_of (run_kids true ro' ks mask eff)) (eff ++ unprot_kids ro' ks).
Proof.
  intros ro' ks HF. induction HF as [|[s k] r Hk _ IH]; intros mask eff; cbn [run_kids unprot_kids].
  - cbn [eff_of]. rewrite app_nil_r. apply incl_refl.
  - cbn [snd] in Hk. specialize (Hk ro'). unfold run in Hk.
    destruct (run_call true ro' k) as [m e| |] eqn:Hr; cbn [eff_of] in Hk.
    + eapply incl_tran; [apply IH|]. rewrite <- app_assoc.
      apply incl_app; [apply incl_appl, incl_refl|].
      apply incl_appr. apply incl_app; [apply incl_appl; exact Hk | apply incl_appr, incl_refl].
    + destruct s; [cbn [eff_of]; intros x []|].
      eapply incl_tran; [apply IH|].
      apply incl_app; [apply incl_appl, incl_refl | apply incl_appr, incl_appr, incl_refl].
    + cbn [eff_of]. intros x [].
Qed.

Lemma eff_incl_unprotected : forall f ro, incl (eff_of (run ro f)) (unprotected ro f).
Proof.
  induction f as [op nzv l | op nzv kids IH] using frame_ind'; intros ro.
  - unfold run. cbn [run_call]. apply run_leaf_eff_unprotected.
  - unfold run. rewrite run_call_code, unprotected_code.
    destruct (callop_eqb op CALL && nzv && ro); [cbn [eff_of]; intros x []|].
    eapply incl_tran; [apply run_kids_eff; exact IH|]. cbn [app]. apply incl_refl.
Qed.

Lemma unprotected_seen_nil : forall f, unprotected true f = [].
Proof.
  induction f as [op nzv l | op nzv kids IH] using frame_ind'.
  - reflexivity.
  - rewrite unprotected_code. cbn [orb].
    induction IH as [|[s k] r Hk _ IHr]; cbn [unprot_kids]; [reflexivity|].
    cbn [snd] in Hk. now rewrite Hk, IHr.
Qed.

Lemma incl_nil_eq : forall (A : Type) (l : list A), incl l [] -> l = [].
Proof. intros A [|a l] H; [reflexivity|]. exfalso. apply (H a). now left. Qed.

(* everything executed while the interpreter is read-only changes nothing *)
Lemma readonly_no_effect : forall f, eff_of (run true f) = [].
Proof.
  intros f. apply incl_nil_eq. rewrite <- (unprotected_seen_nil f). apply eff_incl_unprotected.
Qed.

Lemma tx_eff_incl : forall root, incl (eff_of (run_tx root)) (unprotected false root).
Proof. intros root. apply eff_incl_unprotected. Qed.

Lemma tx_all_protected_no_effect : forall root, unprotected false root = [] -> eff_of (run_tx root) = [].
Proof. intros root H. apply incl_nil_eq. rewrite <- H. apply tx_eff_incl. Qed.

(* a STATICCALL frame, wherever it sits and whatever is below it, contributes no effect *)
Lemma static_subtree_no_effect : forall ro nzv kids, eff_of (run ro (Code STATICCALL nzv kids)) = [].
Proof.
  intros ro nzv kids. apply incl_nil_eq.
  eapply incl_tran; [apply eff_incl_unprotected|].
  rewrite unprotected_code. cbn [is_static callop_eqb]. rewrite orb_true_r.
  clear. induction kids as [|[s k] r IH]; cbn [unprot_kids]; [apply incl_refl|].
  rewrite unprotected_seen_nil. exact IH.
Qed.

(* ---------------------------------------------------------------- effects come from state-changing methods only *)

Lemma run_kids_eff_rw : forall chk ro' ks,
  Forall (fun sk => forall ro id, In id (eff_of (run_call chk ro (snd sk))) ->
                     exists l, In l (leaves (snd sk)) /\ l_id l = id /\ l_ro l = false) ks ->
  forall mask eff id, In id (eff_of (run_kids chk ro' ks mask eff)) ->
    In id eff \/ exists l, In l (leaves_kids ks) /\ l_id l = id /\ l_ro l = false.
Proof.
  intros chk ro' ks HF. induction HF as [|[s k] r Hk _ IH]; intros mask eff id Hin; cbn [run_kids leaves_kids] in *.
  - now left.
  - cbn [snd] in Hk. specialize (Hk ro').
    destruct (run_call chk ro' k) as [m e| |] eqn:Hr; cbn [eff_of] in Hk.
    + destruct (IH _ _ _ Hin) as [H|[l [Hl Hp]]].
      * apply in_app_or in H as [H|H]; [now left|].
        right. destruct (Hk id H) as [l [Hl Hp]]. exists l. split; [apply in_or_app; now left | exact Hp].
      * right. exists l. split; [apply in_or_app; now right | exact Hp].
    + destruct s; [cbn [eff_of] in Hin; contradiction|].
      destruct (IH _ _ _ Hin) as [H|[l [Hl Hp]]]; [now left|].
      right. exists l. split; [apply in_or_app; now right | exact Hp].
    + cbn [eff_of] in Hin. contradiction.
Qed.

Lemma eff_only_rw : forall chk f ro id, In id (eff_of (run_call chk ro f)) ->
  exists l, In l (leaves f) /\ l_id l = id /\ l_ro l = false.
Proof.
  intros chk. induction f as [op nzv l | op nzv kids IH] using frame_ind'; intros ro id Hin.
  - cbn [run_call] in Hin. unfold run_leaf in Hin.
    destruct (callop_eqb op CALL && nzv && ro); [contradiction|].
    destruct (is_static op && negb (l_ro l)); [contradiction|].
    destruct (chk && negb (l_ro l) && (ro || is_static op)); [contradiction|].
    destruct (l_exec_ok l); [|contradiction]. cbn [eff_of] in Hin.
    destruct (l_ro l) eqn:Hro; [contradiction|]. destruct Hin as [<-|[]].
    exists l. cbn [leaves]. split; [now left | split; [reflexivity | exact Hro]].
  - rewrite run_call_code in Hin. rewrite leaves_code.
    destruct (callop_eqb op CALL && nzv && ro); [contradiction|].
    destruct (run_kids_eff_rw chk _ kids IH _ _ _ Hin) as [[]|H]. exact H.
Qed.

(* ---------------------------------------------------------------- no over-blocking *)

(* a tree without non-zero values, without strict calls, whose methods all succeed when run *)
Fixpoint lenient (f : frame) {struct f} : bool :=
  match f with
  | Cpc _ nzv l => negb nzv && l_exec_ok l
  | Code _ nzv kids =>
      negb nzv &&
      (fix go (ks : list (bool * frame)) : bool :=
         match ks with
         | [] => true
         | (s, k) :: rest => negb s && lenient k && go rest
         end) kids
  end.

Fixpoint lenient_kids (ks : list (bool * frame)) : bool :=
  match ks with
  | [] => true
  | (s, k) :: rest => negb s && lenient k && lenient_kids rest
  end.

Lemma lenient_code : forall op nzv kids, lenient (Code op nzv kids) = negb nzv && lenient_kids kids.
Proof.
  intros op nzv kids. reflexivity.
Qed.

Definition exact_at (ro : bool) (f : frame) : Prop :=
  eff_of (run ro f) = unprotected ro f /\ run ro f <> CAbort.

Lemma run_kids_exact : forall ro' ks,
  Forall (fun sk => forall ro, lenient (snd sk) = true -> exact_at ro (snd sk)) ks ->
  lenient_kids ks = true ->
  forall mask eff, exists m, run_kids true ro' ks mask eff = COk m (eff ++ unprot_kids ro' ks).
Proof.
  intros ro' ks HF. induction HF as [|[s k] r Hk _ IH]; intros Hl mask eff; cbn [run_kids unprot_kids lenient_kids] in *.
  - exists mask. now rewrite app_nil_r.
  - apply andb_prop in Hl as [Hl Hr]. apply andb_prop in Hl as [Hs Hlk].
    apply negb_true_iff in Hs. subst s.
    cbn [snd] in Hk. destruct (Hk ro' Hlk) as [He Hna]. unfold run in He, Hna.
    destruct (run_call true ro' k) as [m e| |] eqn:Hrun; cbn [eff_of] in He.
    + destruct (IH Hr (Z.lor mask m) (eff ++ e)) as [m' Hm']. exists m'. rewrite Hm', He. now rewrite app_assoc.
    + destruct (IH Hr mask eff) as [m' Hm']. exists m'. rewrite Hm', <- He. reflexivity.
    + now contradiction Hna.
Qed.

Lemma lenient_exact : forall f ro, lenient f = true -> exact_at ro f.
Proof.
  induction f as [op nzv l | op nzv kids IH] using frame_ind'; intros ro Hl; unfold exact_at.
  - cbn [lenient] in Hl. apply andb_prop in Hl as [Hn He]. apply negb_true_iff in Hn. subst nzv.
    unfold run. cbn [run_call unprotected]. unfold run_leaf. rewrite He, andb_false_r. cbn [andb].
    destruct (l_ro l), (is_static op), ro; cbn; split; (reflexivity || discriminate).
  - rewrite lenient_code in Hl. apply andb_prop in Hl as [Hn Hk]. apply negb_true_iff in Hn. subst nzv.
    unfold run. rewrite run_call_code, unprotected_code, andb_false_r. cbn [andb].
    destruct (run_kids_exact (ro || is_static op) kids IH Hk 0 []) as [m Hm]. rewrite Hm. cbn [eff_of app].
    split; [reflexivity | discriminate].
Qed.

(* a lenient code frame always returns successfully *)
Lemma lenient_code_ok : forall op kids ro, lenient (Code op false kids) = true ->
  exists m, run ro (Code op false kids) = COk m (unprotected ro (Code op false kids)).
Proof.
  intros op kids ro Hl. rewrite lenient_code in Hl. cbn [negb andb] in Hl.
  unfold run. rewrite run_call_code, unprotected_code, andb_false_r. cbn [andb].
  destruct (run_kids_exact (ro || is_static op) kids) with (mask := 0) (eff := @nil nat) as [m Hm]; [|exact Hl|].
  - apply Forall_forall. intros sk _ ro0 H0. now apply lenient_exact.
  - exists m. exact Hm.
Qed.

(* ---------------------------------------------------------------- the fork's logic alone *)

(* ids of state-changing leaves whose OWN opcode is not STATICCALL (all the fork's RunCustom check looks at) *)
Fixpoint undirect (f : frame) {struct f} : list nat :=
  match f with
  | Cpc op _ l => if is_static op || l_ro l then [] else [l_id l]
  | Code _ _ kids =>
      (fix go (ks : list (bool * frame)) : list nat :=
         match ks with
         | [] => []
         | (_, k) :: rest => undirect k ++ go rest
         end) kids
  end.

Fixpoint undirect_kids (ks : list (bool * frame)) : list nat :=
  match ks with
  | [] => []
  | (_, k) :: rest => undirect k ++ undirect_kids rest
  end.

Lemma undirect_code : forall op nzv kids, undirect (Code op nzv kids) = undirect_kids kids.
Proof.
  intros op nzv kids. cbn [undirect].
  induction kids as [|[s k] r IH]; cbn [undirect_kids]; [reflexivity|]. now rewrite IH.
Qed.

Lemma fork_kids_eff : forall ro' ks,
  Forall (fun sk => forall ro, incl (eff_of (run_fork_only ro (snd sk))) (undirect (snd sk))) ks ->
  forall mask eff, incl (eff_of (run_kids false ro' ks mask eff)) (eff ++ undirect_kids ks).
Proof.
  intros ro' ks HF. induction HF as [|[s k] r Hk _ IH]; intros mask eff; cbn [run_kids undirect_kids].
  - cbn [eff_of]. rewrite app_nil_r. apply incl_refl.
  - cbn [snd] in Hk. specialize (Hk ro'). unfold run_fork_only in Hk.
    destruct (run_call false ro' k) as [m e| |] eqn:Hr; cbn [eff_of] in Hk.
    + eapply incl_tran; [apply IH|]. rewrite <- app_assoc.
      apply incl_app; [apply incl_appl, incl_refl|].
      apply incl_appr. apply incl_app; [apply incl_appl; exact Hk | apply incl_appr, incl_refl].
    + destruct s; [cbn [eff_of]; intros x []|].
      eapply incl_tran; [apply IH|].
      apply incl_app; [apply incl_appl, incl_refl | apply incl_appr, incl_appr, incl_refl].
    + cbn [eff_of]. intros x [].
Qed.

Lemma fork_only_direct : forall f ro, incl (eff_of (run_fork_only ro f)) (undirect f).
Proof.
  induction f as [op nzv l | op nzv kids IH] using frame_ind'; intros ro.
  - unfold run_fork_only. cbn [run_call undirect]. unfold run_leaf.
    destruct (callop_eqb op CALL && nzv && ro); [intros x []|].
    destruct (l_ro l), (is_static op), (l_exec_ok l); cbn; try apply incl_refl; intros x [].
  - unfold run_fork_only. rewrite run_call_code, undirect_code.
    destruct (callop_eqb op CALL && nzv && ro); [cbn [eff_of]; intros x []|].
    eapply incl_tran; [apply fork_kids_eff; exact IH|]. cbn [app]. apply incl_refl.
Qed.

Lemma fork_only_bypass :
  unprotected false bypass_tree = [] /\ eff_of (run_fork_only false bypass_tree) = [0%nat].
Proof. vm_compute. split; reflexivity. Qed.

(* ---------------------------------------------------------------- the method table *)

Lemma table_rw_cost_gas_sound : forall t, table_rw_cost_gas t = true ->
  forall m, In m t -> m_ro m = false -> 0 < m_gas m.
Proof.
  intros t Ht m Hin Hro. unfold table_rw_cost_gas in Ht.
  rewrite forallb_forall in Ht. specialize (Ht m Hin). unfold rw_costs_gas in Ht.
  rewrite Hro in Ht. cbn [orb] in Ht. now apply Z.ltb_lt.
Qed.

Lemma expected_table_ok : table_rw_cost_gas expected_table = true.
Proof. vm_compute. reflexivity. Qed.

Lemma expected_rw_cost_gas : forall m, In m expected_table -> m_ro m = false -> 0 < m_gas m.
Proof. apply table_rw_cost_gas_sound, expected_table_ok. Qed.

Lemma table_eqb_eq : forall a b, table_eqb a b = true -> a = b.
Proof.
  induction a as [|x a IH]; intros [|y b] H; cbn [table_eqb] in H; try discriminate; [reflexivity|].
  apply andb_prop in H as [Hxy Hab]. rewrite (IH _ Hab). f_equal.
  unfold method_eqb in Hxy. destruct x, y; cbn in *.
  apply andb_prop in Hxy as [Hxy H4]. apply andb_prop in Hxy as [Hxy H3]. apply andb_prop in Hxy as [H1 H2].
  apply Z.eqb_eq in H1, H2, H4. apply Bool.eqb_prop in H3. now subst.
Qed.

(* a regenerated table that equals the expected one inherits the facts proved about it *)
Lemma regenerated_table_ok : forall t, table_eqb t expected_table = true ->
  forall m, In m t -> m_ro m = false -> 0 < m_gas m.
Proof. intros t H. rewrite (table_eqb_eq _ _ H). apply expected_rw_cost_gas. Qed.
