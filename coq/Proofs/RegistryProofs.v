(* Proofs about the custom-precompile registry model (Model/Registry.v): C17. *)
From Evm Require Import Registry.
From Coq Require Import Lia ZifyBool.
Open Scope Z_scope.

(* ---------------------------------------------------------------- association lists as stores *)

Definition keys {V} (l : list (Z * V)) : list Z := map fst l.

Section Maps.
Context {V : Type}.
Implicit Types (l : list (Z * V)) (k : Z) (v : V).

Lemma lookup_put_same l k v : lookup (put l k v) k = Some v.
Proof.
  induction l as [|[x w] r IH]; cbn.
  - now rewrite Z.eqb_refl.
  - destruct (x =? k) eqn:E; cbn.
    + now rewrite Z.eqb_refl.
    + now rewrite E.
Qed.

Lemma lookup_put_other l k k' v : k' <> k -> lookup (put l k v) k' = lookup l k'.
Proof.
  intros N. induction l as [|[x w] r IH]; cbn.
  - destruct (k =? k') eqn:E; auto. apply Z.eqb_eq in E. congruence.
  - destruct (x =? k) eqn:E; cbn.
    + apply Z.eqb_eq in E. subst x.
      destruct (k =? k') eqn:E2; auto. apply Z.eqb_eq in E2. congruence.
    + destruct (x =? k'); auto.
Qed.

Lemma lookup_put l k k' v : lookup (put l k v) k' = if k' =? k then Some v else lookup l k'.
Proof.
  destruct (k' =? k) eqn:E.
  - apply Z.eqb_eq in E. subst. apply lookup_put_same.
  - apply Z.eqb_neq in E. now apply lookup_put_other.
Qed.

Lemma in_keys_put l k v x : In x (keys (put l k v)) <-> x = k \/ In x (keys l).
Proof.
  induction l as [|[y w] r IH]; cbn.
  - intuition.
  - destruct (y =? k) eqn:E; cbn.
    + apply Z.eqb_eq in E. subst y. intuition.
    + rewrite IH. intuition.
Qed.

Lemma nodup_put l k v : NoDup (keys l) -> NoDup (keys (put l k v)).
Proof.
  induction l as [|[y w] r IH]; cbn; intros H.
  - constructor; [intros []|constructor].
  - inversion H as [|? ? Hn Hr]; subst.
    destruct (y =? k) eqn:E; cbn.
    + apply Z.eqb_eq in E. subst y. now constructor.
    + apply Z.eqb_neq in E. constructor; auto.
      intros Hi. apply (in_keys_put r k v y) in Hi. destruct Hi as [->|Hi]; auto.
Qed.

Lemma lookup_none l k : lookup l k = None <-> ~ In k (keys l).
Proof.
  induction l as [|[y w] r IH]; cbn.
  - intuition.
  - destruct (y =? k) eqn:E.
    + apply Z.eqb_eq in E. subst. intuition discriminate.
    + apply Z.eqb_neq in E. rewrite IH. intuition.
Qed.

Lemma lookup_in l k v : lookup l k = Some v -> In (k, v) l.
Proof.
  induction l as [|[y w] r IH]; cbn; [discriminate|].
  destruct (y =? k) eqn:E.
  - apply Z.eqb_eq in E. subst. intros [= ->]. now left.
  - intros H. right. auto.
Qed.

Lemma in_lookup l k v : NoDup (keys l) -> In (k, v) l -> lookup l k = Some v.
Proof.
  induction l as [|[y w] r IH]; cbn; [intros _ []|].
  intros H [Hi|Hi]; inversion H as [|? ? Hn Hr]; subst.
  - inversion Hi; subst. now rewrite Z.eqb_refl.
  - destruct (y =? k) eqn:E; auto.
    apply Z.eqb_eq in E. subst y. exfalso. apply Hn.
    change k with (fst (k, v)). now apply in_map.
Qed.

(* a map built by inserting the entries of a duplicate-free list one by one holds exactly those entries *)
Lemma lookup_fold_put l : forall acc k, NoDup (keys l) ->
  lookup (fold_left (fun a x => put a (fst x) (snd x)) l acc) k
  = match lookup l k with Some v => Some v | None => lookup acc k end.
Proof.
  induction l as [|[y w] r IH]; cbn; intros acc k H; auto.
  inversion H as [|? ? Hn Hr]; subst.
  rewrite IH by auto.
  destruct (y =? k) eqn:E.
  - apply Z.eqb_eq in E. subst y.
    apply lookup_none in Hn. rewrite Hn. apply lookup_put_same.
  - apply Z.eqb_neq in E. destruct (lookup r k); auto.
    apply lookup_put_other. congruence.
Qed.

End Maps.

(* ---------------------------------------------------------------- the invariant *)

Definition is_erc20_for (m : cmeta) (d : Z) : Prop :=
  m_type m = T_ERC20 /\ exists sy de, m_typed m = TErc20 sy de d.

(* the part that talks about the two tables only *)
Record tables_ok (ms : list (Z * cmeta)) (dx : list (Z * Z)) : Prop := {
  (* each address holds one record *)
  t_addr_unique : NoDup (keys ms);
  t_denom_unique : NoDup (keys dx);
  (* every index entry points at an ERC-20 contract of that denomination ... *)
  t_idx_meta : forall d a, lookup dx d = Some a -> exists m, lookup ms a = Some m /\ is_erc20_for m d;
  (* ... and every ERC-20 contract is indexed under its denomination *)
  t_meta_idx : forall a m, lookup ms a = Some m -> m_type m = T_ERC20 ->
               exists sy de d, m_typed m = TErc20 sy de d /\ lookup dx d = Some a;
  (* every stored record is valid for its type under protocol version 1 *)
  t_valid : forall a m, lookup ms a = Some m -> meta_validate a m 1 = VOk;
  (* the singleton contract types live at their fixed addresses only *)
  t_fixed : forall a m, lookup ms a = Some m ->
            (m_type m = T_STAKING -> a = STAKING_ADDR) /\ (m_type m = T_BECH32 -> a = BECH32_ADDR)
}.

Definition inv (s : state) : Prop :=
  tables_ok (metas s) (didx s)
  /\ params_valid (prm s) = true
  /\ exists m, lookup (metas s) BECH32_ADDR = Some m /\ m_type m = T_BECH32.

Lemma params_valid_version p : params_valid p = true -> p_version p = 1.
Proof.
  unfold params_valid, LATEST_VERSION. intros H.
  apply andb_prop in H. destruct H as [H _]. apply andb_prop in H. destruct H as [H1 H2].
  apply Z.ltb_lt in H1. apply Z.leb_le in H2. lia.
Qed.

Lemma tables_add_erc20 ms dx a m d :
  tables_ok ms dx -> lookup ms a = None -> lookup dx d = None ->
  is_erc20_for m d -> meta_validate a m 1 = VOk ->
  tables_ok (put ms a m) (put dx d a).
Proof.
  intros [U1 U2 IM MI VA FX] Na Nd [Ty [sy [de Td]]] Vm. constructor.
  - now apply nodup_put.
  - now apply nodup_put.
  - intros d' a'. rewrite lookup_put. destruct (d' =? d) eqn:E.
    + apply Z.eqb_eq in E. subst d'. intros [= <-]. exists m. rewrite lookup_put_same.
      split; auto. split; eauto.
    + intros H. destruct (IM _ _ H) as [m' [Hm' He]]. exists m'. split; auto.
      rewrite lookup_put_other; auto. intros ->. congruence.
  - intros a' m'. rewrite lookup_put. destruct (a' =? a) eqn:E.
    + apply Z.eqb_eq in E. subst a'. intros [= <-] _. exists sy, de, d. split; auto. apply lookup_put_same.
    + intros H T. destruct (MI _ _ H T) as [sy' [de' [d' [H1 H2]]]]. exists sy', de', d'. split; auto.
      rewrite lookup_put_other; auto. intros ->. congruence.
  - intros a' m'. rewrite lookup_put. destruct (a' =? a) eqn:E.
    + apply Z.eqb_eq in E. subst a'. now intros [= <-].
    + apply VA.
  - intros a' m'. rewrite lookup_put. destruct (a' =? a) eqn:E.
    + intros [= <-]. unfold T_ERC20, T_STAKING, T_BECH32 in *. split; intros; congruence.
    + apply FX.
Qed.

Lemma tables_add_other ms dx a m :
  tables_ok ms dx -> lookup ms a = None -> m_type m <> T_ERC20 -> meta_validate a m 1 = VOk ->
  (m_type m = T_STAKING -> a = STAKING_ADDR) -> (m_type m = T_BECH32 -> a = BECH32_ADDR) ->
  tables_ok (put ms a m) dx.
Proof.
  intros [U1 U2 IM MI VA FX] Na Ty Vm F1 F2. constructor; auto.
  - now apply nodup_put.
  - intros d a' H. destruct (IM _ _ H) as [m' [Hm' He]]. exists m'. split; auto.
    rewrite lookup_put_other; auto. intros ->. congruence.
  - intros a' m'. rewrite lookup_put. destruct (a' =? a) eqn:E.
    + intros [= <-] T. contradiction.
    + apply MI.
  - intros a' m'. rewrite lookup_put. destruct (a' =? a) eqn:E.
    + apply Z.eqb_eq in E. subst a'. now intros [= <-].
    + apply VA.
  - intros a' m'. rewrite lookup_put. destruct (a' =? a) eqn:E.
    + apply Z.eqb_eq in E. subst a'. intros [= <-]. auto.
    + apply FX.
Qed.

Definition same_but_flag (m m' : cmeta) : Prop :=
  m_type m' = m_type m /\ m_name m' = m_name m /\ m_typed m' = m_typed m.

Lemma validate_flag a m m' v : same_but_flag m m' -> meta_validate a m' v = meta_validate a m v.
Proof. intros [T [N Y]]. unfold meta_validate. now rewrite T, N, Y. Qed.

Lemma tables_set_flag ms dx a m m' :
  tables_ok ms dx -> lookup ms a = Some m -> same_but_flag m m' -> tables_ok (put ms a m') dx.
Proof.
  intros [U1 U2 IM MI VA FX] Ha S. pose proof S as [T [N Y]]. constructor; auto.
  - now apply nodup_put.
  - intros d a' H. destruct (IM _ _ H) as [m0 [Hm0 [He1 [sy [de He2]]]]].
    rewrite lookup_put. destruct (a' =? a) eqn:E.
    + apply Z.eqb_eq in E. subst a'. exists m'. split; auto.
      rewrite Ha in Hm0. inversion Hm0; subst m0. split; [congruence|]. exists sy, de. congruence.
    + exists m0. split; auto. split; eauto.
  - intros a' m0. rewrite lookup_put. destruct (a' =? a) eqn:E.
    + apply Z.eqb_eq in E. subst a'. intros [= <-] T'. rewrite T in T'.
      destruct (MI _ _ Ha T') as [sy [de [d [H1 H2]]]]. exists sy, de, d. split; congruence.
    + apply MI.
  - intros a' m0. rewrite lookup_put. destruct (a' =? a) eqn:E.
    + apply Z.eqb_eq in E. subst a'. intros [= <-]. rewrite (validate_flag a m m' 1 S). now apply VA.
    + apply VA.
  - intros a' m0. rewrite lookup_put. destruct (a' =? a) eqn:E.
    + apply Z.eqb_eq in E. subst a'. intros [= <-]. rewrite T. now apply FX.
    + apply FX.
Qed.

(* at most one ERC-20 contract per denomination *)
Lemma tables_one_per_denom ms dx a1 a2 m1 m2 d :
  tables_ok ms dx -> lookup ms a1 = Some m1 -> lookup ms a2 = Some m2 ->
  is_erc20_for m1 d -> is_erc20_for m2 d -> a1 = a2.
Proof.
  intros [U1 U2 IM MI VA FX] H1 H2 [T1 [sy1 [de1 Y1]]] [T2 [sy2 [de2 Y2]]].
  destruct (MI _ _ H1 T1) as [? [? [d1 [E1 L1]]]]. destruct (MI _ _ H2 T2) as [? [? [d2 [E2 L2]]]].
  rewrite Y1 in E1. rewrite Y2 in E2. inversion E1. inversion E2. subst. congruence.
Qed.

(* ---------------------------------------------------------------- keeper functions *)

Lemma set_meta_ok s a m nd s' x :
  set_meta s a m nd = (s', ROk x) ->
  x = a /\ meta_validate a m (p_version (prm s)) = VOk /\ s' = with_metas s (put (metas s) a m)
  /\ (if nd then lookup (metas s) a = None
      else exists prev, lookup (metas s) a = Some prev /\ m_type prev = m_type m).
Proof.
  unfold set_meta. destruct (meta_validate a m (p_version (prm s))); try (intros [= _ ?]; discriminate); try discriminate.
  destruct (lookup (metas s) a) as [prev|] eqn:L; destruct nd; try discriminate.
  - destruct (m_type prev =? m_type m) eqn:E; try discriminate.
    intros [= <- <-]. repeat split; auto. exists prev. split; auto. lia.
  - intros [= <- <-]. repeat split; auto.
Qed.

Lemma set_meta_fail s a m nd s' r : set_meta s a m nd = (s', r) -> (forall x, r <> ROk x) -> s' = s.
Proof.
  unfold set_meta. destruct (meta_validate a m (p_version (prm s))).
  - destruct (lookup (metas s) a) as [prev|]; destruct nd; try (now intros [= <- _]).
    + destruct (m_type prev =? m_type m); try (now intros [= <- _]).
      intros [= _ <-] H. now destruct (H a).
    + intros [= _ <-] H. now destruct (H a).
  - now intros [= <- _].
  - now intros [= <- _].
Qed.

Lemma set_params_ok s p s' x :
  set_params s p = (s', ROk x) -> params_valid p = true /\ p_version (prm s) <= p_version p /\ s' = with_prm s p /\ x = 0.
Proof.
  unfold set_params. destruct (params_valid p); cbn; try discriminate.
  destruct (p_version p <? p_version (prm s)) eqn:E; try discriminate.
  intros [= <- <-]. repeat split; auto. lia.
Qed.

Section WithAddr.
Variable caddr : Z -> Z.

Definition erc20_meta name sy de dn :=
  {| m_type := T_ERC20; m_name := name; m_typed := TErc20 sy de dn; m_disabled := false |}.

Lemma deploy_erc20_ok s dv name sy de dn s' a :
  deploy_erc20 caddr s dv name sy de dn = (s', ROk a) ->
  a = caddr (mseq s) /\ dv = true /\ lookup (didx s) dn = None /\ 0 < supply s dn /\ lookup (metas s) a = None
  /\ meta_validate a (erc20_meta name sy de dn) (p_version (prm s)) = VOk
  /\ metas s' = put (metas s) a (erc20_meta name sy de dn) /\ didx s' = put (didx s) dn a
  /\ prm s' = prm s /\ mseq s' = mseq s + 1 /\ supply s' = supply s.
Proof.
  unfold deploy_erc20. destruct (erc20_meta_valid sy de dn); cbn [negb]; try discriminate.
  destruct (lookup (didx s) dn) eqn:Ld; try discriminate.
  destruct dv; cbn [negb]; try discriminate.
  destruct (0 <? supply s dn) eqn:Sp; cbn [negb]; try discriminate.
  fold (erc20_meta name sy de dn).
  destruct (set_meta (with_seq s (mseq s + 1)) (caddr (mseq s)) (erc20_meta name sy de dn) true) as [s2 r] eqn:SM.
  destruct r; try discriminate.
  apply set_meta_ok in SM. destruct SM as [-> [V [-> Ln]]]. cbn in *.
  intros [= <- <-]. cbn. repeat split; auto. lia.
Qed.

Definition staking_meta sy de :=
  {| m_type := T_STAKING; m_name := STAKING_NAME; m_typed := TStaking sy de; m_disabled := false |}.
Definition bech32_meta :=
  {| m_type := T_BECH32; m_name := BECH32_NAME; m_typed := TBech32; m_disabled := false |}.

Lemma deploy_staking_ok s sy de s' a :
  deploy_staking s sy de = (s', ROk a) ->
  a = STAKING_ADDR /\ lookup (metas s) a = None /\ meta_validate a (staking_meta sy de) (p_version (prm s)) = VOk
  /\ s' = with_metas s (put (metas s) a (staking_meta sy de)).
Proof.
  unfold deploy_staking. destruct (staking_meta_valid sy de); cbn [negb]; try discriminate.
  fold (staking_meta sy de). intros H. apply set_meta_ok in H. destruct H as [-> [V [-> Ln]]]. auto.
Qed.

Lemma deploy_bech32_ok s s' a :
  deploy_bech32 s = (s', ROk a) ->
  a = BECH32_ADDR /\ lookup (metas s) a = None /\ meta_validate a bech32_meta (p_version (prm s)) = VOk
  /\ s' = with_metas s (put (metas s) a bech32_meta).
Proof.
  unfold deploy_bech32. fold bech32_meta. intros H. apply set_meta_ok in H. destruct H as [-> [V [-> Ln]]]. auto.
Qed.

(* registering through the three deploy functions keeps the tables consistent (protocol version 1) *)
Lemma deploy_erc20_tables s dv name sy de dn s' a :
  p_version (prm s) = 1 -> tables_ok (metas s) (didx s) ->
  deploy_erc20 caddr s dv name sy de dn = (s', ROk a) -> tables_ok (metas s') (didx s').
Proof.
  intros V T H. apply deploy_erc20_ok in H.
  destruct H as [-> [_ [Ld [_ [Lm [Vm [-> [-> _]]]]]]]]. rewrite V in Vm.
  apply tables_add_erc20; auto. split; cbn; eauto.
Qed.

Lemma deploy_staking_tables s sy de s' a :
  p_version (prm s) = 1 -> tables_ok (metas s) (didx s) ->
  deploy_staking s sy de = (s', ROk a) -> tables_ok (metas s') (didx s').
Proof.
  intros V T H. apply deploy_staking_ok in H. destruct H as [-> [Lm [Vm ->]]]. rewrite V in Vm. cbn.
  apply tables_add_other; auto; cbn; unfold T_STAKING, T_ERC20, T_BECH32; congruence.
Qed.

Lemma deploy_bech32_tables s s' a :
  p_version (prm s) = 1 -> tables_ok (metas s) (didx s) ->
  deploy_bech32 s = (s', ROk a) -> tables_ok (metas s') (didx s').
Proof.
  intros V T H. apply deploy_bech32_ok in H. destruct H as [-> [Lm [Vm ->]]]. rewrite V in Vm. cbn.
  apply tables_add_other; auto; cbn; unfold T_STAKING, T_ERC20, T_BECH32; congruence.
Qed.

(* ---------------------------------------------------------------- genesis *)

Lemma tables_empty : tables_ok [] [].
Proof. constructor; cbn; try constructor; intros; discriminate. Qed.

Lemma genesis_inv n sup g s : init_genesis caddr (empty_state n sup) g = Some s -> inv s.
Proof.
  unfold init_genesis.
  destruct (set_params (empty_state n sup) (g_params g)) as [s1 r1] eqn:P. destruct r1; try discriminate.
  apply set_params_ok in P. destruct P as [PV [_ [-> _]]].
  pose proof (params_valid_version _ PV) as V1.
  set (s1 := with_prm (empty_state n sup) (g_params g)).
  assert (T1 : tables_ok (metas s1) (didx s1)) by (cbn; apply tables_empty).
  assert (P1 : prm s1 = g_params g) by reflexivity.
  clearbody s1.
  (* ERC-20 for the bond denomination *)
  destruct (if g_erc20_native g then _ else _) as [s2 r2] eqn:E2. destruct r2; try discriminate.
  assert (T2 : tables_ok (metas s2) (didx s2) /\ prm s2 = g_params g).
  { destruct (g_erc20_native g).
    - split. + eapply deploy_erc20_tables; eauto. congruence.
      + apply deploy_erc20_ok in E2. destruct E2 as [_ [_ [_ [_ [_ [_ [_ [_ [-> _]]]]]]]]]. auto.
    - inversion E2; subst. auto. }
  destruct T2 as [T2 P2].
  destruct (if g_staking g then _ else _) as [s3 r3] eqn:E3. destruct r3; try discriminate.
  assert (T3 : tables_ok (metas s3) (didx s3) /\ prm s3 = g_params g).
  { destruct (g_staking g).
    - split. + eapply deploy_staking_tables; eauto. congruence.
      + apply deploy_staking_ok in E3. destruct E3 as [_ [_ [_ ->]]]. auto.
    - inversion E3; subst. auto. }
  destruct T3 as [T3 P3].
  destruct (deploy_bech32 s3) as [s4 r4] eqn:E4. destruct r4; try discriminate.
  intros [= <-]. split; [|split].
  - eapply deploy_bech32_tables; eauto. congruence.
  - apply deploy_bech32_ok in E4. destruct E4 as [_ [_ [_ ->]]]. cbn. congruence.
  - apply deploy_bech32_ok in E4. destruct E4 as [-> [_ [_ ->]]]. cbn. exists bech32_meta.
    split; auto. apply lookup_put_same.
Qed.

(* ---------------------------------------------------------------- steps *)

(* operations of the property's quantifier: messages, the Disabled toggle, changes of the bank supply.
   [ASetMeta] (arbitrary use of the exported keeper function, e.g. by an upgrade handler) is outside. *)
Definition msg_op (o : op) : Prop := match o with ASetMeta _ _ _ => False | _ => True end.

Lemma atomic_ok s x s' a : atomic s x = (s', ROk a) -> x = (s', ROk a).
Proof. destruct x as [s1 r]. destruct r; cbn; intros [= <- <-] || intros [= _ ?]; auto; discriminate. Qed.

Lemma atomic_fail s x s' r : atomic s x = (s', r) -> (forall a, r <> ROk a) -> s' = s.
Proof. destruct x as [s1 r1]. destruct r1; cbn; intros [= <- <-] H; auto. now destruct (H addr). Qed.

Lemma step_fail s o s' r : step caddr s o = (s', r) -> (forall a, r <> ROk a) -> s' = s.
Proof.
  destruct o; cbn.
  - destruct (vb && _); [now intros [= <- _]|]. destruct (negb (whitelisted s auth)); [now intros [= <- _]|]. apply atomic_fail.
  - destruct (vb && _); [now intros [= <- _]|]. destruct (negb (whitelisted s auth)); [now intros [= <- _]|]. apply atomic_fail.
  - destruct (negb authority_ok); [now intros [= <- _]|]. destruct (negb (params_valid np)); [now intros [= <- _]|]. apply atomic_fail.
  - destruct (lookup (metas s) addr); [apply atomic_fail|now intros [= <- _]].
  - apply atomic_fail.
  - intros [= _ <-] H. now destruct (H 0).
Qed.

(* what a successful step did, case by case *)
Inductive effect (s : state) : op -> state -> Z -> Prop :=
| EfErc20 (vb ext dv : bool) (auth name sy de dn : Z) (s' : state) (a : Z) :
    whitelisted s auth = true ->
    deploy_erc20 caddr s dv name sy (de mod 256) dn = (s', ROk a) ->
    effect s (MDeployErc20 vb ext dv auth name sy de dn) s' a
| EfStaking (vb ext : bool) (auth sy de : Z) (s' : state) (a : Z) :
    whitelisted s auth = true ->
    deploy_staking s sy (de mod 256) = (s', ROk a) ->
    effect s (MDeployStaking vb ext auth sy de) s' a
| EfParams (np : params) :
    params_valid np = true -> p_version (prm s) <= p_version np ->
    effect s (MUpdateParams true np) (with_prm s np) 0
| EfDisabled (a : Z) (b : bool) (m : cmeta) :
    lookup (metas s) a = Some m -> meta_validate a m (p_version (prm s)) = VOk ->
    effect s (ASetDisabled a b)
      (with_metas s (put (metas s) a {| m_type := m_type m; m_name := m_name m; m_typed := m_typed m; m_disabled := b |})) a
| EfSetMeta (a : Z) (m : cmeta) (nd : bool) :
    meta_validate a m (p_version (prm s)) = VOk ->
    (if nd then lookup (metas s) a = None else exists prev, lookup (metas s) a = Some prev /\ m_type prev = m_type m) ->
    effect s (ASetMeta a m nd) (with_metas s (put (metas s) a m)) a
| EfSupply (d v : Z) :
    effect s (ESupply d v) (with_supply s (fun x => if x =? d then v else supply s x)) 0.

Lemma step_ok s o s' a : step caddr s o = (s', ROk a) -> effect s o s' a.
Proof.
  destruct o; cbn.
  - destruct (vb && _); try discriminate. destruct (whitelisted s auth) eqn:W; cbn [negb]; try discriminate.
    intros H. apply atomic_ok in H. now constructor.
  - destruct (vb && _); try discriminate. destruct (whitelisted s auth) eqn:W; cbn [negb]; try discriminate.
    intros H. apply atomic_ok in H. now constructor.
  - destruct authority_ok; cbn [negb]; try discriminate.
    destruct (params_valid np) eqn:PV; cbn [negb]; try discriminate.
    intros H. apply atomic_ok in H. apply set_params_ok in H. destruct H as [_ [Hv [-> ->]]].
    now constructor.
  - destruct (lookup (metas s) addr) as [m|] eqn:L; try discriminate.
    intros H. apply atomic_ok in H. apply set_meta_ok in H. destruct H as [-> [V [-> _]]].
    constructor; auto.
  - intros H. apply atomic_ok in H. apply set_meta_ok in H. destruct H as [-> [V [-> C]]].
    now constructor.
  - intros [= <- <-]. constructor.
Qed.

End WithAddr.

(* ---------------------------------------------------------------- transitions and histories *)

Definition deployer (o : op) : option Z :=
  match o with
  | MDeployErc20 _ _ _ auth _ _ _ _ => Some auth
  | MDeployStaking _ _ auth _ _ => Some auth
  | _ => None
  end.

Section Steps.
Variable caddr : Z -> Z.

(* what every transition by an operation of the property's quantifier satisfies *)
Record trans_ok (s : state) (o : op) (s' : state) : Prop := {
  (* contracts never disappear; type, name and typed metadata never change (only the Disabled flag may) *)
  tr_stable : forall a m, lookup (metas s) a = Some m ->
              exists m', lookup (metas s') a = Some m' /\ same_but_flag m m';
  (* the protocol version never decreases *)
  tr_version : p_version (prm s) <= p_version (prm s');
  (* a new contract appears only through a deploy message whose authority is on the stored whitelist *)
  tr_deploy : forall a, lookup (metas s) a = None -> lookup (metas s') a <> None ->
              exists auth, deployer o = Some auth /\ whitelisted s auth = true;
  (* a new index entry: the denomination has positive supply at that moment, and its contract is new *)
  tr_supply : forall d a, lookup (didx s) d = None -> lookup (didx s') d = Some a ->
              0 < supply s d /\ lookup (metas s) a = None;
  (* index entries never change *)
  tr_idx_stable : forall d a, lookup (didx s) d = Some a -> lookup (didx s') d = Some a;
  (* parameters (protocol version, whitelist) change only by an update-params message of the governance authority *)
  tr_params : prm s' <> prm s -> exists np, o = MUpdateParams true np /\ prm s' = np /\ params_valid np = true;
  (* the module account's sequence never decreases *)
  tr_seq : mseq s <= mseq s'
}.

Lemma same_but_flag_refl m : same_but_flag m m.
Proof. repeat split. Qed.

Lemma trans_refl s o : trans_ok s o s.
Proof.
  constructor.
  - intros a m H. exists m. split; auto. apply same_but_flag_refl.
  - lia.
  - intros a H1 H2. contradiction.
  - intros d a H1 H2. congruence.
  - auto.
  - intros H. congruence.
  - lia.
Qed.

Lemma put_new_stable (ms : list (Z * cmeta)) a m a0 m0 :
  lookup ms a = None -> lookup ms a0 = Some m0 -> lookup (put ms a m) a0 = Some m0.
Proof. intros N H. rewrite lookup_put_other; auto. intros ->. congruence. Qed.

Lemma step_trans s o : msg_op o -> trans_ok s o (fst (step caddr s o)).
Proof.
  intros M. destruct (step caddr s o) as [s' r] eqn:E. cbn.
  destruct r as [a| |].
  2,3: (apply step_fail in E; [subst; apply trans_refl | intros; discriminate]).
  apply step_ok in E. destruct E as [vb ext dv auth name sy de dn s' a W D|vb ext auth sy de s' a W D|np PV Hv|a b m L V|a m nd V C|d v].
  - apply deploy_erc20_ok in D. destruct D as [Ea [_ [Ld [Sp [Lm [Vm [Em [Ed [Ep [Es Eu]]]]]]]]]].
    constructor.
    + intros a0 m0 H. exists m0. rewrite Em. split; [now apply put_new_stable|apply same_but_flag_refl].
    + rewrite Ep. lia.
    + intros a0 _ _. exists auth. auto.
    + intros d a0 N. rewrite Ed, lookup_put. destruct (d =? dn) eqn:Q.
      * apply Z.eqb_eq in Q. subst d. intros [= <-]. auto.
      * congruence.
    + intros d a0 H. rewrite Ed. rewrite lookup_put_other; auto. intros ->. congruence.
    + congruence.
    + lia.
  - apply deploy_staking_ok in D. destruct D as [Ea [Lm [Vm ->]]]. constructor; cbn.
    + intros a0 m0 H. exists m0. split; [now apply put_new_stable|apply same_but_flag_refl].
    + lia.
    + intros a0 _ _. exists auth. auto.
    + intros d a0 H1 H2. congruence.
    + auto.
    + intros H. congruence.
    + lia.
  - constructor; cbn.
    + intros a m H. exists m. split; auto. apply same_but_flag_refl.
    + lia.
    + intros a H1 H2. contradiction.
    + intros d a H1 H2. congruence.
    + auto.
    + intros _. exists np. auto.
    + lia.
  - constructor; cbn.
    + intros a0 m0 H. rewrite lookup_put. destruct (a0 =? a) eqn:Q.
      * apply Z.eqb_eq in Q. subst a0. rewrite L in H. inversion H; subst m0.
        eexists. split; eauto. repeat split.
      * exists m0. split; auto. apply same_but_flag_refl.
    + lia.
    + intros a0 N. rewrite lookup_put. destruct (a0 =? a) eqn:Q.
      * apply Z.eqb_eq in Q. subst a0. congruence.
      * congruence.
    + intros d a0 H1 H2. congruence.
    + auto.
    + intros H. congruence.
    + lia.
  - destruct M.
  - constructor; cbn.
    + intros a m H. exists m. split; auto. apply same_but_flag_refl.
    + lia.
    + intros a H1 H2. contradiction.
    + intros d0 a H1 H2. congruence.
    + auto.
    + intros H. congruence.
    + lia.
Qed.

Lemma step_inv s o : inv s -> msg_op o -> inv (fst (step caddr s o)).
Proof.
  intros I M. destruct (step caddr s o) as [s' r] eqn:E. cbn.
  destruct r as [a| |].
  2,3: (apply step_fail in E; [subst; auto | intros; discriminate]).
  apply step_ok in E. destruct I as [T [PV [mb [Lb Tb]]]]. pose proof (params_valid_version _ PV) as V1.
  destruct E as [vb ext dv auth name sy de dn s' a W D|vb ext auth sy de s' a W D|np PV' Hv|a b m L V|a m nd V C|d v].
  - split; [eapply deploy_erc20_tables; eauto|].
    apply deploy_erc20_ok in D. destruct D as [Ea [_ [Ld [Sp [Lm [Vm [Em [Ed [Ep [Es Eu]]]]]]]]]].
    rewrite Ep, Em. split; auto. exists mb. split; auto. now apply put_new_stable.
  - split; [eapply deploy_staking_tables; eauto|].
    apply deploy_staking_ok in D. destruct D as [Ea [Lm [Vm ->]]]. cbn.
    split; auto. exists mb. split; auto. now apply put_new_stable.
  - cbn. split; auto. split; auto. exists mb. auto.
  - unfold inv. cbn [metas didx prm with_metas]. split; [eapply tables_set_flag; eauto; repeat split|]. split; auto.
    destruct (Z.eq_dec BECH32_ADDR a) as [Q|Q].
    + subst a. rewrite Lb in L. inversion L; subst m. eexists. split; [apply lookup_put_same|exact Tb].
    + exists mb. split; auto. rewrite lookup_put_other; auto.
  - destruct M.
  - cbn. split; auto. split; auto. exists mb. auto.
Qed.

Lemma run_cons s o r : fst (run caddr s (o :: r)) = fst (run caddr (fst (step caddr s o)) r).
Proof. cbn. destruct (step caddr s o) as [s1 x]. cbn. destruct (run caddr s1 r). reflexivity. Qed.

Lemma run_app s l1 l2 : fst (run caddr s (l1 ++ l2)) = fst (run caddr (fst (run caddr s l1)) l2).
Proof.
  revert s. induction l1 as [|o r IH]; intros s; [reflexivity|].
  rewrite <- app_comm_cons, !run_cons. apply IH.
Qed.

(* the whole history: every transition is in order and the invariant holds after it *)
Fixpoint hist_ok (s : state) (ops : list op) : Prop :=
  match ops with
  | [] => True
  | o :: r => let s' := fst (step caddr s o) in trans_ok s o s' /\ inv s' /\ hist_ok s' r
  end.

Lemma hist_holds ops : forall s, inv s -> Forall msg_op ops -> hist_ok s ops.
Proof.
  induction ops as [|o r IH]; intros s I F; cbn; auto.
  inversion F; subst. split; [now apply step_trans|]. split; [now apply step_inv|].
  apply IH; auto. now apply step_inv.
Qed.

Lemma run_inv ops : forall s, inv s -> Forall msg_op ops -> inv (fst (run caddr s ops)).
Proof.
  induction ops as [|o r IH]; intros s I F; [exact I|].
  inversion F; subst. rewrite run_cons. apply IH; auto. now apply step_inv.
Qed.

(* ---- what holds for EVERY operation, the unrestricted keeper function included *)

Record trans_weak (s s' : state) : Prop := {
  tw_unique : NoDup (keys (metas s)) -> NoDup (keys (metas s'));
  tw_type : forall a m, lookup (metas s) a = Some m -> exists m', lookup (metas s') a = Some m' /\ m_type m' = m_type m;
  tw_version : p_version (prm s) <= p_version (prm s')
}.

Lemma trans_weak_refl s : trans_weak s s.
Proof. constructor; auto; try lia. intros a m H. eauto. Qed.

Lemma trans_weak_trans s1 s2 s3 : trans_weak s1 s2 -> trans_weak s2 s3 -> trans_weak s1 s3.
Proof.
  intros [U1 T1 V1] [U2 T2 V2]. constructor; auto; try lia.
  intros a m H. destruct (T1 _ _ H) as [m1 [H1 E1]]. destruct (T2 _ _ H1) as [m2 [H2 E2]].
  exists m2. split; auto. congruence.
Qed.

Lemma step_weak s o : trans_weak s (fst (step caddr s o)).
Proof.
  destruct (step caddr s o) as [s' r] eqn:E. cbn.
  destruct r as [a| |].
  2,3: (apply step_fail in E; [subst; apply trans_weak_refl | intros; discriminate]).
  apply step_ok in E. destruct E as [vb ext dv auth name sy de dn s' a W D|vb ext auth sy de s' a W D|np PV Hv|a b m L V|a m nd V C|d v].
  - apply deploy_erc20_ok in D. destruct D as [Ea [_ [Ld [Sp [Lm [Vm [Em [Ed [Ep [Es Eu]]]]]]]]]].
    constructor; rewrite ?Em, ?Ep; try lia.
    + apply nodup_put.
    + intros a0 m0 H. exists m0. split; auto. now apply put_new_stable.
  - apply deploy_staking_ok in D. destruct D as [Ea [Lm [Vm ->]]]. constructor; cbn; try lia.
    + apply nodup_put.
    + intros a0 m0 H. exists m0. split; auto. now apply put_new_stable.
  - constructor; cbn; auto. intros a m H. eauto.
  - constructor; cbn; try lia.
    + apply nodup_put.
    + intros a0 m0 H. rewrite lookup_put. destruct (a0 =? a) eqn:Q.
      * apply Z.eqb_eq in Q. subst a0. rewrite L in H. inversion H; subst m0. eexists. split; eauto.
      * eauto.
  - constructor; cbn; try lia.
    + apply nodup_put.
    + intros a0 m0 H. rewrite lookup_put. destruct (a0 =? a) eqn:Q.
      * apply Z.eqb_eq in Q. subst a0. destruct nd; [congruence|].
        destruct C as [prev [Lp Tp]]. rewrite Lp in H. inversion H; subst m0. eauto.
      * eauto.
  - constructor; cbn; auto; try lia. intros a m H. eauto.
Qed.

Lemma run_weak ops : forall s, trans_weak s (fst (run caddr s ops)).
Proof.
  induction ops as [|o r IH]; intros s; [apply trans_weak_refl|].
  rewrite run_cons. eapply trans_weak_trans; [apply step_weak|apply IH].
Qed.

(* ---- registered addresses are never those of go-ethereum's own precompiles, provided the
        keccak-derived addresses are not (a statement about keccak256, hence a hypothesis) *)
Definition no_std (s : state) : Prop := forall a m, lookup (metas s) a = Some m -> std_precompile a = false.

Lemma std_dec a : std_precompile a = true \/ std_precompile a = false.
Proof. destruct (std_precompile a); auto. Qed.

Section NoStd.
Hypothesis caddr_not_std : forall n, std_precompile (caddr n) = false.

Lemma step_no_std s o : no_std s -> msg_op o -> no_std (fst (step caddr s o)).
Proof.
  intros I M. destruct (step caddr s o) as [s' r] eqn:E. cbn.
  destruct r as [a| |].
  2,3: (apply step_fail in E; [subst; auto | intros; discriminate]).
  apply step_ok in E.
  destruct E as [vb ext dv auth name sy de dn s' a W D|vb ext auth sy de s' a W D|np PV' Hv|a b m L V|a m nd V C|d v].
  - apply deploy_erc20_ok in D. destruct D as [Ea [_ [Ld [Sp [Lm [Vm [Em [Ed [Ep [Es Eu]]]]]]]]]].
    unfold no_std. intros a0 m0. rewrite Em, lookup_put. destruct (a0 =? a) eqn:Q.
    + apply Z.eqb_eq in Q. subst a0 a. auto.
    + apply I.
  - apply deploy_staking_ok in D. destruct D as [Ea [Lm [Vm ->]]]. unfold no_std. cbn [metas with_metas].
    intros a0 m0. rewrite lookup_put. destruct (a0 =? a) eqn:Q.
    + apply Z.eqb_eq in Q. subst a0 a. reflexivity.
    + apply I.
  - exact I.
  - unfold no_std. cbn [metas with_metas]. intros a0 m0. rewrite lookup_put. destruct (a0 =? a) eqn:Q.
    + apply Z.eqb_eq in Q. subst a0. intros _. eapply I; eauto.
    + apply I.
  - destruct M.
  - exact I.
Qed.

Lemma run_no_std ops : forall s, no_std s -> Forall msg_op ops -> no_std (fst (run caddr s ops)).
Proof.
  induction ops as [|o r IH]; intros s I F; [exact I|].
  inversion F; subst. rewrite run_cons. apply IH; auto. now apply step_no_std.
Qed.

Lemma genesis_no_std n sup g s : init_genesis caddr (empty_state n sup) g = Some s -> no_std s.
Proof.
  unfold init_genesis.
  destruct (set_params (empty_state n sup) (g_params g)) as [s1 r1] eqn:P. destruct r1; try discriminate.
  apply set_params_ok in P. destruct P as [PV [_ [-> _]]].
  set (s1 := with_prm (empty_state n sup) (g_params g)).
  assert (N1 : no_std s1) by (intros a m; cbn; discriminate). clearbody s1.
  destruct (if g_erc20_native g then _ else _) as [s2 r2] eqn:E2. destruct r2; try discriminate.
  assert (N2 : no_std s2).
  { destruct (g_erc20_native g); [|inversion E2; subst; auto].
    apply deploy_erc20_ok in E2. destruct E2 as [Ea [_ [Ld [Sp [Lm [Vm [Em _]]]]]]].
    unfold no_std. intros a0 m0. rewrite Em, lookup_put. destruct (a0 =? addr0) eqn:Q; [|apply N1].
    apply Z.eqb_eq in Q. subst a0 addr0. auto. }
  destruct (if g_staking g then _ else _) as [s3 r3] eqn:E3. destruct r3; try discriminate.
  assert (N3 : no_std s3).
  { destruct (g_staking g); [|inversion E3; subst; auto].
    apply deploy_staking_ok in E3. destruct E3 as [Ea [Lm [Vm ->]]]. unfold no_std. cbn [metas with_metas].
    intros a0 m0. rewrite lookup_put. destruct (a0 =? addr1) eqn:Q; [|apply N2].
    apply Z.eqb_eq in Q. subst a0 addr1. reflexivity. }
  destruct (deploy_bech32 s3) as [s4 r4] eqn:E4. destruct r4; try discriminate.
  intros [= <-]. apply deploy_bech32_ok in E4. destruct E4 as [Ea [Lm [Vm ->]]]. unfold no_std. cbn [metas with_metas].
  intros a0 m0. rewrite lookup_put. destruct (a0 =? addr2) eqn:Q; [|apply N3].
  apply Z.eqb_eq in Q. subst a0 addr2. reflexivity.
Qed.

End NoStd.
End Steps.

(* ---------------------------------------------------------------- exposure to the EVM *)

Lemma wire_lookup md s a : NoDup (keys (metas s)) -> lookup (wire md s) a = lookup (metas s) a.
Proof.
  intros U. unfold wire. rewrite lookup_fold_put by exact U. now destruct (lookup (metas s) a).
Qed.

Definition registered_enabled (s : state) (a : Z) : Prop :=
  exists m, lookup (metas s) a = Some m /\ m_disabled m = false.

Lemma callable_iff md s a : NoDup (keys (metas s)) ->
  (callable md s a = true <-> std_precompile a = false /\ registered_enabled s a).
Proof.
  intros U. unfold callable, evm_dispatch, registered_enabled. rewrite wire_lookup by exact U.
  destruct (std_precompile a).
  - split; [discriminate|]. intros [? _]. discriminate.
  - destruct (lookup (metas s) a) as [m|].
    + destruct (m_disabled m) eqn:D.
      * split; [discriminate|]. intros [_ [m' [[= <-] D']]]. congruence.
      * split; auto. intros _. split; auto. eauto.
    + split; [discriminate|]. intros [_ [m' [? _]]]. discriminate.
Qed.

Lemma callable_iff_no_std md s a : NoDup (keys (metas s)) -> no_std s ->
  (callable md s a = true <-> registered_enabled s a).
Proof.
  intros U N. rewrite callable_iff by exact U. split; [tauto|].
  intros R. split; auto. destruct R as [m [L _]]. eapply N; eauto.
Qed.

Lemma dispatch_registered md s a m : NoDup (keys (metas s)) -> std_precompile a = false ->
  lookup (metas s) a = Some m ->
  evm_dispatch md s a = if m_disabled m then DDisabled else DCustom m.
Proof. intros U S L. unfold evm_dispatch. now rewrite S, wire_lookup, L by exact U. Qed.

Lemma dispatch_unregistered md s a : NoDup (keys (metas s)) -> std_precompile a = false ->
  lookup (metas s) a = None -> evm_dispatch md s a = DNone.
Proof. intros U S L. unfold evm_dispatch. now rewrite S, wire_lookup, L by exact U. Qed.

(* a disabled contract is never entered: no method of it runs, whatever the mode, selector or address class *)
Lemma disabled_never_runs md s a m : NoDup (keys (metas s)) ->
  lookup (metas s) a = Some m -> m_disabled m = true ->
  callable md s a = false /\ forall m', evm_dispatch md s a <> DCustom m'.
Proof.
  intros U L D. unfold callable, evm_dispatch. rewrite wire_lookup, L, D by exact U.
  destruct (std_precompile a); split; congruence.
Qed.

Lemma mode_irrelevant md1 md2 s a : evm_dispatch md1 s a = evm_dispatch md2 s a.
Proof. reflexivity. Qed.

(* ---------------------------------------------------------------- statements used by Properties/C17.v *)

(* states the chain can be in: a genesis that started, then any operations of the property's quantifier *)
Definition reachable (caddr : Z -> Z) (s : state) : Prop :=
  exists n sup g s0 ops,
    init_genesis caddr (empty_state n sup) g = Some s0 /\ Forall msg_op ops /\ s = fst (run caddr s0 ops).

Theorem registry_history caddr n sup g s0 ops :
  init_genesis caddr (empty_state n sup) g = Some s0 -> Forall msg_op ops ->
  inv s0 /\ hist_ok caddr s0 ops /\ inv (fst (run caddr s0 ops)).
Proof.
  intros G F. pose proof (genesis_inv _ _ _ _ _ G) as I.
  split; auto. split; [now apply hist_holds|now apply run_inv].
Qed.

Lemma reachable_inv caddr s : reachable caddr s -> inv s.
Proof. intros [n [sup [g [s0 [ops [G [F ->]]]]]]]. eapply registry_history; eauto. Qed.

Lemma reachable_step caddr s o : reachable caddr s -> msg_op o -> reachable caddr (fst (step caddr s o)).
Proof.
  intros [n [sup [g [s0 [ops [G [F ->]]]]]]] M. exists n, sup, g, s0, (ops ++ [o]).
  split; auto. split; [apply Forall_app; auto|].
  rewrite run_app. cbn. destruct (step caddr (fst (run caddr s0 ops)) o). reflexivity.
Qed.

(* position-wise reading of [hist_ok]: the k-th transition of the run *)
Lemma hist_at caddr l1 : forall s o l2, hist_ok caddr s (l1 ++ o :: l2) ->
  let s1 := fst (run caddr s l1) in
  trans_ok s1 o (fst (step caddr s1 o)) /\ inv (fst (step caddr s1 o)).
Proof.
  induction l1 as [|x r IH]; intros s o l2 H.
  - cbn in H. cbn. tauto.
  - rewrite <- app_comm_cons in H. cbn [hist_ok] in H. destruct H as [_ [_ H]].
    cbv zeta. rewrite run_cons. apply (IH _ _ _ H).
Qed.

Lemma unique_addresses caddr s : reachable caddr s -> NoDup (keys (metas s)).
Proof. intros R. apply reachable_inv in R. destruct R as [[U _ _ _ _ _] _]. exact U. Qed.

Lemma one_erc20_per_denom caddr s a1 a2 m1 m2 d : reachable caddr s ->
  lookup (metas s) a1 = Some m1 -> lookup (metas s) a2 = Some m2 ->
  is_erc20_for m1 d -> is_erc20_for m2 d -> a1 = a2.
Proof. intros R. apply reachable_inv in R. destruct R as [T _]. eapply tables_one_per_denom; eauto. Qed.

Lemma index_matches_metadata caddr s : reachable caddr s ->
  (forall d a, lookup (didx s) d = Some a <-> exists m, lookup (metas s) a = Some m /\ is_erc20_for m d).
Proof.
  intros R d a. apply reachable_inv in R. destruct R as [[U1 U2 IM MI VA FX] _]. split.
  - apply IM.
  - intros [m [L [T [sy [de Y]]]]]. destruct (MI _ _ L T) as [sy' [de' [d' [Y' L']]]].
    rewrite Y in Y'. inversion Y'; subst. exact L'.
Qed.

Lemma erc20_typed_by_type caddr s a m : reachable caddr s -> lookup (metas s) a = Some m ->
  (m_type m = T_ERC20 /\ (exists sy de d, m_typed m = TErc20 sy de d /\ lookup (didx s) d = Some a))
  \/ (m_type m = T_STAKING /\ a = STAKING_ADDR)
  \/ (m_type m = T_BECH32 /\ a = BECH32_ADDR).
Proof.
  intros R L. apply reachable_inv in R. destruct R as [[U1 U2 IM MI VA FX] _].
  pose proof (VA _ _ L) as V. destruct (FX _ _ L) as [F1 F2].
  unfold meta_validate in V.
  destruct (a =? 0); try discriminate. destruct (m_type m =? 0); try discriminate.
  destruct ((m_type m =? T_ERC20) || (m_type m =? T_STAKING) || (m_type m =? T_BECH32)) eqn:E; cbn [negb] in V; try discriminate.
  apply orb_prop in E. destruct E as [E|E]; [apply orb_prop in E; destruct E as [E|E]|]; apply Z.eqb_eq in E.
  - left. split; auto.
  - right. left. auto.
  - right. right. auto.
Qed.

Lemma deploy_only_whitelisted caddr s o a : msg_op o ->
  lookup (metas s) a = None -> lookup (metas (fst (step caddr s o))) a <> None ->
  exists auth, deployer o = Some auth /\ whitelisted s auth = true.
Proof. intros M. apply (step_trans caddr s o M). Qed.

Lemma erc20_needs_positive_supply caddr s o d a : msg_op o ->
  lookup (didx s) d = None -> lookup (didx (fst (step caddr s o))) d = Some a ->
  0 < supply s d /\ lookup (metas s) a = None.
Proof. intros M. apply (step_trans caddr s o M). Qed.

Lemma genesis_erc20_needs_positive_supply caddr n sup g s d a :
  init_genesis caddr (empty_state n sup) g = Some s -> lookup (didx s) d = Some a ->
  g_erc20_native g = true /\ d = g_bond_denom g /\ 0 < sup d.
Proof.
  unfold init_genesis.
  destruct (set_params (empty_state n sup) (g_params g)) as [s1 r1] eqn:P. destruct r1; try discriminate.
  apply set_params_ok in P. destruct P as [PV [_ [-> _]]].
  destruct (g_erc20_native g).
  - destruct (deploy_erc20 _ _ _ _ _ _ _) as [s2 r2] eqn:E2. destruct r2; try discriminate.
    apply deploy_erc20_ok in E2. destruct E2 as [Ea [_ [Ld [Sp [Lm [Vm [Em [Ed [Ep [Es Eu]]]]]]]]]].
    cbn in Sp, Ed.
    destruct (if g_staking g then _ else _) as [s3 r3] eqn:E3. destruct r3; try discriminate.
    assert (D3 : didx s3 = didx s2).
    { destruct (g_staking g); [|inversion E3; subst; auto].
      apply deploy_staking_ok in E3. destruct E3 as [_ [_ [_ ->]]]. reflexivity. }
    destruct (deploy_bech32 s3) as [s4 r4] eqn:E4. destruct r4; try discriminate.
    intros [= <-]. apply deploy_bech32_ok in E4. destruct E4 as [_ [_ [_ ->]]]. cbn [didx with_metas].
    rewrite D3, Ed. cbn. destruct (g_bond_denom g =? d) eqn:Q; [|discriminate].
    apply Z.eqb_eq in Q. subst d. auto.
  - destruct (if g_staking g then _ else _) as [s3 r3] eqn:E3. destruct r3; try discriminate.
    assert (D3 : didx s3 = []).
    { destruct (g_staking g); [|inversion E3; subst; auto].
      apply deploy_staking_ok in E3. destruct E3 as [_ [_ [_ ->]]]. reflexivity. }
    destruct (deploy_bech32 s3) as [s4 r4] eqn:E4. destruct r4; try discriminate.
    intros [= <-]. apply deploy_bech32_ok in E4. destruct E4 as [_ [_ [_ ->]]]. cbn [didx with_metas].
    rewrite D3. discriminate.
Qed.

Lemma params_only_by_governance caddr s o : msg_op o ->
  prm (fst (step caddr s o)) <> prm s ->
  exists np, o = MUpdateParams true np /\ prm (fst (step caddr s o)) = np /\ params_valid np = true.
Proof. intros M. apply (step_trans caddr s o M). Qed.

Lemma record_stable caddr s o a m : msg_op o -> lookup (metas s) a = Some m ->
  exists m', lookup (metas (fst (step caddr s o))) a = Some m' /\ same_but_flag m m'.
Proof. intros M. apply (step_trans caddr s o M). Qed.

Lemma type_never_changes caddr ops s a m : lookup (metas s) a = Some m ->
  exists m', lookup (metas (fst (run caddr s ops))) a = Some m' /\ m_type m' = m_type m.
Proof. apply (run_weak caddr ops s). Qed.

Lemma version_never_decreases caddr ops s : p_version (prm s) <= p_version (prm (fst (run caddr s ops))).
Proof. apply (run_weak caddr ops s). Qed.

Lemma addresses_stay_unique caddr ops s : NoDup (keys (metas s)) -> NoDup (keys (metas (fst (run caddr s ops)))).
Proof. apply (run_weak caddr ops s). Qed.

Lemma reachable_version caddr s : reachable caddr s -> p_version (prm s) = LATEST_VERSION.
Proof. intros R. apply reachable_inv in R. destruct R as [_ [PV _]]. now apply params_valid_version. Qed.

Lemma callable_exact caddr md s a : reachable caddr s ->
  (callable md s a = true <-> std_precompile a = false /\ registered_enabled s a).
Proof. intros R. apply callable_iff. eapply unique_addresses; eauto. Qed.

Lemma reachable_no_std caddr s : (forall n, std_precompile (caddr n) = false) -> reachable caddr s -> no_std s.
Proof.
  intros H [n [sup [g [s0 [ops [G [F ->]]]]]]]. apply run_no_std; auto. eapply genesis_no_std; eauto.
Qed.

Lemma callable_exact_no_std caddr md s a : (forall n, std_precompile (caddr n) = false) -> reachable caddr s ->
  (callable md s a = true <-> registered_enabled s a).
Proof.
  intros H R. apply callable_iff_no_std; [eapply unique_addresses; eauto|now apply reachable_no_std with caddr].
Qed.

(* what a probe call answers, by the class of the address *)
Lemma probe_classes caddr hrp md s a p : reachable caddr s -> std_precompile a = false ->
  match lookup (metas s) a with
  | None => probe_result hrp md s a p = POkEmpty
  | Some m => probe_result hrp md s a p = if m_disabled m then PFail else probe_custom hrp m p
  end.
Proof.
  intros R S. pose proof (unique_addresses _ _ R) as U. unfold probe_result.
  destruct (lookup (metas s) a) as [m|] eqn:L.
  - rewrite (dispatch_registered md s a m U S L). now destruct (m_disabled m).
  - now rewrite (dispatch_unregistered md s a U S L).
Qed.

Lemma disabled_cannot_execute caddr md s a m : reachable caddr s ->
  lookup (metas s) a = Some m -> m_disabled m = true ->
  callable md s a = false /\ (forall m', evm_dispatch md s a <> DCustom m')
  /\ forall hrp p, probe_result hrp md s a p = PFail \/ probe_result hrp md s a p = PStd.
Proof.
  intros R L D. pose proof (unique_addresses _ _ R) as U.
  destruct (disabled_never_runs md s a m U L D) as [C N]. split; auto. split; auto.
  intros hrp p. unfold probe_result, evm_dispatch. rewrite wire_lookup, L, D by exact U.
  destruct (std_precompile a); auto.
Qed.

(* calls made by contracts (CALL / STATICCALL from a forwarder) see the same registry *)
Lemma probe_custom_not_fail hrp m p : through_forwarder (probe_custom hrp m p) = probe_custom hrp m p.
Proof. unfold probe_custom. destruct (m_typed m); destruct p; reflexivity. Qed.

Lemma probe_via_classes caddr hrp md v s a p : reachable caddr s -> std_precompile a = false ->
  match lookup (metas s) a with
  | None => probe_via hrp md v s a p = POkEmpty
  | Some m => probe_via hrp md v s a p =
              if m_disabled m then match v with Direct => PFail | _ => PRevert end else probe_custom hrp m p
  end.
Proof.
  intros R S. pose proof (probe_classes caddr hrp md s a p R S) as H. unfold probe_via.
  destruct (lookup (metas s) a) as [m|]; rewrite H.
  - destruct (m_disabled m); destruct v; try reflexivity; apply probe_custom_not_fail.
  - destruct v; reflexivity.
Qed.

(* ---------------------------------------------------------------- genesis: the flags are honoured exactly *)

Lemma keys_put_new {V} (l : list (Z * V)) k v : lookup l k = None -> keys (put l k v) = keys l ++ [k].
Proof.
  induction l as [|[y w] r IH]; cbn; intros H; auto.
  destruct (y =? k) eqn:E; [discriminate|]. cbn. f_equal. auto.
Qed.

Lemma genesis_contents caddr n sup g s : init_genesis caddr (empty_state n sup) g = Some s ->
  keys (metas s) = (if g_erc20_native g then [caddr n] else []) ++ (if g_staking g then [STAKING_ADDR] else []) ++ [BECH32_ADDR]
  /\ mseq s = n + (if g_erc20_native g then 1 else 0)
  /\ prm s = g_params g
  /\ didx s = (if g_erc20_native g then [(g_bond_denom g, caddr n)] else []).
Proof.
  unfold init_genesis.
  destruct (set_params (empty_state n sup) (g_params g)) as [s1 r1] eqn:P. destruct r1; try discriminate.
  apply set_params_ok in P. destruct P as [PV [_ [-> _]]].
  destruct (if g_erc20_native g then _ else _) as [s2 r2] eqn:E2. destruct r2; try discriminate.
  assert (A2 : keys (metas s2) = (if g_erc20_native g then [caddr n] else [])
               /\ mseq s2 = n + (if g_erc20_native g then 1 else 0) /\ prm s2 = g_params g
               /\ didx s2 = (if g_erc20_native g then [(g_bond_denom g, caddr n)] else [])).
  { destruct (g_erc20_native g).
    - apply deploy_erc20_ok in E2. destruct E2 as [Ea [_ [Ld [Sp [Lm [Vm [Em [Ed [Ep [Es Eu]]]]]]]]]].
      cbn in *. subst addr0. rewrite Em, Ed, Ep, Es. cbn. repeat split; auto.
    - inversion E2; subst. cbn. repeat split; auto. lia. }
  destruct A2 as [K2 [S2 [P2 D2]]].
  destruct (if g_staking g then _ else _) as [s3 r3] eqn:E3. destruct r3; try discriminate.
  assert (A3 : keys (metas s3) = keys (metas s2) ++ (if g_staking g then [STAKING_ADDR] else [])
               /\ mseq s3 = mseq s2 /\ prm s3 = prm s2 /\ didx s3 = didx s2).
  { destruct (g_staking g).
    - apply deploy_staking_ok in E3. destruct E3 as [Ea [Lm [Vm ->]]]. subst addr1. cbn [metas mseq prm didx with_metas].
      rewrite keys_put_new by exact Lm. auto.
    - inversion E3; subst. rewrite app_nil_r. auto. }
  destruct A3 as [K3 [S3 [P3 D3]]].
  destruct (deploy_bech32 s3) as [s4 r4] eqn:E4. destruct r4; try discriminate.
  intros [= <-]. apply deploy_bech32_ok in E4. destruct E4 as [Ea [Lm [Vm ->]]]. subst addr2.
  cbn [metas mseq prm didx with_metas]. rewrite keys_put_new by exact Lm.
  rewrite K3, K2, S3, S2, P3, P2, D3, D2, <- app_assoc. auto.
Qed.

(* a refused or panicking operation leaves no trace *)
Lemma refused_no_trace caddr s o : (forall a, snd (step caddr s o) <> ROk a) -> fst (step caddr s o) = s.
Proof. intros H. destruct (step caddr s o) as [s' r] eqn:E. cbn in *. eapply step_fail; eauto. Qed.

(* ---------------------------------------------------------------- a node's life: local requests are erasable *)

Section NodeProofs.
  Variable caddr : Z -> Z.
  Variable hrp : Z.

  Lemma hrun_app l1 : forall old s l2,
    hrun caddr hrp old s (l1 ++ l2) =
    let '((o1, s1), outs1) := hrun caddr hrp old s l1 in
    let '(n, outs2) := hrun caddr hrp o1 s1 l2 in
    (n, outs1 ++ outs2).
  Proof.
    induction l1 as [|h l1 IH]; intros old s l2; cbn [app hrun].
    - destruct (hrun caddr hrp old s l2) as [n outs]. reflexivity.
    - destruct h as [o|[k md v a p|o]].
      + destruct (step caddr s o) as [s1 x]. rewrite IH.
        destruct (hrun caddr hrp (versions old s) s1 l1) as [[o1 s2] outs1].
        destruct (hrun caddr hrp o1 s2 l2) as [n outs2]. reflexivity.
      + rewrite IH. destruct (hrun caddr hrp old s l1) as [[o1 s2] outs1].
        destruct (hrun caddr hrp o1 s2 l2) as [n outs2]. reflexivity.
      + rewrite IH. destruct (hrun caddr hrp old s l1) as [[o1 s2] outs1].
        destruct (hrun caddr hrp o1 s2 l2) as [n outs2]. reflexivity.
  Qed.

  (* the node after a life = the node after the consensus operations alone *)
  Lemma hrun_node_erase l : forall old s,
    fst (hrun caddr hrp old s l) = fst (hrun caddr hrp old s (map HOp (erase l))).
  Proof.
    induction l as [|h l IH]; intros old s; cbn [erase map hrun]; [reflexivity|].
    destruct h as [o|[k md v a p|o]]; cbn [map hrun].
    - destruct (step caddr s o) as [s1 x]. specialize (IH (versions old s) s1).
      destruct (hrun caddr hrp (versions old s) s1 l) as [n outs].
      destruct (hrun caddr hrp (versions old s) s1 (map HOp (erase l))) as [n' outs']. exact IH.
    - specialize (IH old s). destruct (hrun caddr hrp old s l) as [n outs]. exact IH.
    - specialize (IH old s). destruct (hrun caddr hrp old s l) as [n outs]. exact IH.
  Qed.

  (* its latest version and the consensus outcomes are those of the plain run *)
  Lemma hrun_consensus l : forall old s,
    snd (fst (hrun caddr hrp old s l)) = fst (run caddr s (erase l)) /\
    consensus_outs (snd (hrun caddr hrp old s l)) = map snd (snd (run caddr s (erase l))).
  Proof.
    induction l as [|h l IH]; intros old s; cbn [erase hrun run]; [split; reflexivity|].
    destruct h as [o|[k md v a p|o]]; cbn [run].
    - destruct (step caddr s o) as [s1 x]. specialize (IH (versions old s) s1).
      destruct (hrun caddr hrp (versions old s) s1 l) as [n outs].
      destruct (run caddr s1 (erase l)) as [s2 t]. cbn [fst snd consensus_outs map] in *.
      destruct IH as [A B]. split; [exact A|]. rewrite B. reflexivity.
    - specialize (IH old s). destruct (hrun caddr hrp old s l) as [n outs]. exact IH.
    - specialize (IH old s). destruct (hrun caddr hrp old s l) as [n outs]. exact IH.
  Qed.

  (* whatever requests were served during [l1]: the node is the same as without them, and so is everything that
     happens afterwards — consensus outcomes, answers to calls on any version, simulation reports *)
  Lemma traffic_erasable old s l1 l2 :
    let n1 := fst (hrun caddr hrp old s l1) in
    let n1' := fst (hrun caddr hrp old s (map HOp (erase l1))) in
    n1 = n1' /\
    snd (hrun caddr hrp old s (l1 ++ l2)) =
      snd (hrun caddr hrp old s l1) ++ snd (hrun caddr hrp (fst n1') (snd n1') l2).
  Proof.
    cbv zeta. split; [apply hrun_node_erase|].
    rewrite hrun_app. rewrite <- hrun_node_erase.
    destruct (hrun caddr hrp old s l1) as [[o1 s1] outs1]. cbn [fst snd].
    destruct (hrun caddr hrp o1 s1 l2) as [n outs2]. reflexivity.
  Qed.

  (* the answer to the call at any position of a life is the model's answer on the named version of the versions
     produced by the consensus operations before it — no earlier request has any influence *)
  Lemma answer_by_version old s l1 k md v a p l2 :
    let n1 := fst (hrun caddr hrp old s (map HOp (erase l1))) in
    nth_error (snd (hrun caddr hrp old s (l1 ++ HReq (NCall k md v a p) :: l2))) (length l1)
    = Some (OAns (answer_at hrp (versions (fst n1) (snd n1)) k md v a p)).
  Proof.
    cbv zeta. rewrite <- hrun_node_erase. rewrite hrun_app.
    assert (L : forall l o0 s0, length (snd (hrun caddr hrp o0 s0 l)) = length l).
    { induction l as [|h l IH]; intros o0 s0; cbn [hrun]; [reflexivity|].
      destruct h as [o|[k' md' v' a' p'|o]].
      - destruct (step caddr s0 o) as [s1 x]. specialize (IH (versions o0 s0) s1).
        destruct (hrun caddr hrp (versions o0 s0) s1 l). cbn [snd length] in *. congruence.
      - specialize (IH o0 s0). destruct (hrun caddr hrp o0 s0 l). cbn [snd length] in *. congruence.
      - specialize (IH o0 s0). destruct (hrun caddr hrp o0 s0 l). cbn [snd length] in *. congruence. }
    specialize (L l1 old s).
    destruct (hrun caddr hrp old s l1) as [[o1 s1] outs1]. cbn [fst snd] in *. cbn [hrun].
    destruct (hrun caddr hrp o1 s1 l2) as [n outs2]. cbn [snd].
    rewrite nth_error_app2 by lia. rewrite L, Nat.sub_diag. reflexivity.
  Qed.

  (* every version of a node that started from a reachable state and executed messages is reachable *)
  Lemma hrun_versions_reachable l : forall old s,
    Forall (reachable caddr) old -> reachable caddr s -> Forall msg_op (erase l) ->
    let n := fst (hrun caddr hrp old s l) in Forall (reachable caddr) (versions (fst n) (snd n)).
  Proof.
    induction l as [|h l IH]; intros old s Ho Rs F; cbn [hrun erase] in *.
    - cbn [fst snd]. unfold versions. apply Forall_app. split; [exact Ho|constructor; [exact Rs|constructor]].
    - destruct h as [o|[k md v a p|o]].
      + inversion F as [|? ? Mo F']; subst.
        pose proof (reachable_step caddr s o Rs Mo) as R1.
        destruct (step caddr s o) as [s1 x] eqn:E. cbn [fst] in R1.
        assert (Hv : Forall (reachable caddr) (versions old s)).
        { unfold versions. apply Forall_app. split; [exact Ho|constructor; [exact Rs|constructor]]. }
        specialize (IH (versions old s) s1 Hv R1 F').
        destruct (hrun caddr hrp (versions old s) s1 l) as [n outs]. exact IH.
      + specialize (IH old s Ho Rs F). destruct (hrun caddr hrp old s l) as [n outs]. exact IH.
      + specialize (IH old s Ho Rs F). destruct (hrun caddr hrp old s l) as [n outs]. exact IH.
  Qed.
End NodeProofs.

(* a call on ANY version of such a node, in any mode, by any kind of caller, is decided by that version's registry *)
Lemma historic_call_classes caddr hrp old s l k md v a p r :
  Forall (reachable caddr) old -> reachable caddr s -> Forall msg_op (erase l) -> std_precompile a = false ->
  let n := fst (hrun caddr hrp old s l) in
  answer_at hrp (versions (fst n) (snd n)) k md v a p = Some r ->
  exists sk, nth_error (versions (fst n) (snd n)) k = Some sk /\
    match lookup (metas sk) a with
    | None => r = POkEmpty
    | Some m => r = if m_disabled m then match v with Direct => PFail | _ => PRevert end else probe_custom hrp m p
    end.
Proof.
  intros Ho Rs F S n A. pose proof (hrun_versions_reachable caddr hrp l old s Ho Rs F) as RV. cbv zeta in RV.
  fold n in RV. unfold answer_at in A.
  destruct (nth_error (versions (fst n) (snd n)) k) as [sk|] eqn:E; [|discriminate].
  exists sk. split; [reflexivity|].
  assert (Rk : reachable caddr sk).
  { rewrite Forall_forall in RV. apply RV. eapply nth_error_In; eauto. }
  pose proof (probe_via_classes caddr hrp md v sk a p Rk S) as C.
  inversion A; subst r. exact C.
Qed.
