(* Proofs about the wire-value reading of Lane.shape (C07). *)
From Evm Require Import Lane LaneProofs LaneWire.
From Coq Require Import Lia.
Open Scope Z_scope.

Lemma tmo_of_none : forall h v, tmo_of h v = TNone <-> v = 0.
Proof.
  intros h v. unfold tmo_of. destruct (v =? 0) eqn:E.
  - apply Z.eqb_eq in E. tauto.
  - apply Z.eqb_neq in E. destruct (v <? h); split; intros H; try discriminate; contradiction.
Qed.

Lemma memo_of_none : forall mx n, memo_of mx n = MemoNone <-> n = 0.
Proof.
  intros mx n. unfold memo_of. destruct (n =? 0) eqn:E.
  - apply Z.eqb_eq in E. tauto.
  - apply Z.eqb_neq in E. destruct (n <=? mx); split; intros H; try discriminate; contradiction.
Qed.

Lemma negb_eqb_false : forall z, negb (z =? 0) = false <-> z = 0.
Proof.
  intros z. destruct (z =? 0) eqn:E; cbn.
  - apply Z.eqb_eq in E. tauto.
  - apply Z.eqb_neq in E. split; intros H; [discriminate | contradiction].
Qed.

Lemma ext_ok_wire : forall mx h w, ext_ok (abstract mx h w) = true ->
  w_noncrit w = [] /\ (w_ext w = [] \/ w_ext w = [XEth]).
Proof.
  intros mx h w. unfold ext_ok, abstract; cbn.
  destruct (w_noncrit w) as [|a l]; [|discriminate].
  destruct (w_ext w) as [|x r]; [auto|].
  destruct x; [|discriminate].
  destruct r as [|y r]; [auto | discriminate].
Qed.

(* shapes to values *)
Lemma shape_ok_wire : forall mx h w p, eth_shape_ok (abstract mx h w) p -> eth_wire_ok w p.
Proof.
  intros mx h w p (Hm & Hs & Hi & Hp & Hg & Hme & Ht & He & Hf & Hgas).
  unfold eth_wire_ok. cbn in *.
  repeat split.
  - exact Hm.
  - destruct (v_sigs (w_vals w)); [reflexivity | discriminate].
  - destruct (v_infos (w_vals w)); [reflexivity | discriminate].
  - apply negb_eqb_false. exact Hp.
  - apply negb_eqb_false. exact Hg.
  - apply (memo_of_none mx). exact Hme.
  - apply (tmo_of_none h). exact Ht.
  - exact (proj1 (ext_ok_wire mx h w He)).
  - exact (proj2 (ext_ok_wire mx h w He)).
  - exact Hf.
  - exact Hgas.
Qed.

Lemma abstract_msgs : forall mx h w, msgs (abstract mx h w) = w_msgs w.
Proof. reflexivity. Qed.

(* check / simulate / deliver, at whatever height, with whatever memo bound *)
Theorem eth_accept_wire : forall tbl m e mx h w,
  m <> MReCheck -> accepted tbl m e (abstract mx h w) = true -> existsb is_eth (w_msgs w) = true ->
  exists p, eth_wire_ok w p /\ e_basic_ok p = true /\ e_protected p = true.
Proof.
  intros tbl m e mx h w Hm Ha He.
  destruct (eth_accept_shape tbl m e (abstract mx h w) Hm Ha He) as (p & Hs & Hb & Hp).
  exists p. split; [exact (shape_ok_wire mx h w p Hs) | auto].
Qed.

Theorem eth_accept_wire_recheck : forall tbl e e0 mx h h0 w,
  accepted tbl MCheck e0 (abstract mx h0 w) = true ->
  accepted tbl MReCheck e (abstract mx h w) = true -> existsb is_eth (w_msgs w) = true ->
  exists p, eth_wire_ok w p /\ e_basic_ok p = true /\ e_protected p = true.
Proof.
  intros tbl e e0 mx h h0 w Hc Ha He.
  (* decorator 03 at check time, at whatever height, already forces the shape *)
  assert (Hne : MCheck <> MReCheck) by discriminate.
  destruct (eth_accept_shape tbl MCheck e0 (abstract mx h0 w) Hne Hc He) as (p & Hs & Hb & Hp).
  exists p. split; [exact (shape_ok_wire mx h0 w p Hs) | auto].
Qed.

(* every mode, re-check included: sole message, memo of zero bytes, timeout height zero, no foreign option *)
Theorem eth_accept_wire_any_mode : forall tbl m e mx h w,
  accepted tbl m e (abstract mx h w) = true -> existsb is_eth (w_msgs w) = true ->
  exists p, w_msgs w = [MEth p] /\ v_memo (w_vals w) = 0 /\ v_timeout (w_vals w) = 0 /\
            w_noncrit w = [] /\ (w_ext w = [] \/ w_ext w = [XEth]).
Proof.
  intros tbl m e mx h w Ha He.
  destruct (eth_accept_any_mode tbl m e (abstract mx h w) Ha He) as (p & Hm & Hme & Ht & Hx & _).
  exists p. repeat split.
  - exact Hm.
  - apply (memo_of_none mx). exact Hme.
  - apply (tmo_of_none h). exact Ht.
  - exact (proj1 (ext_ok_wire mx h w Hx)).
  - exact (proj2 (ext_ok_wire mx h w Hx)).
Qed.

(* in particular no uint64 value other than 0 - at, below or above the current height, below or above 2^63 - is an
   acceptable timeout height of an Ethereum-lane transaction, in any mode *)
Corollary eth_timeout_value_zero : forall tbl m e mx h w,
  accepted tbl m e (abstract mx h w) = true -> existsb is_eth (w_msgs w) = true ->
  forall t, 0 < t < 2 ^ 64 -> v_timeout (w_vals w) <> t.
Proof.
  intros tbl m e mx h w Ha He t Ht Hv.
  destruct (eth_accept_wire_any_mode tbl m e mx h w Ha He) as (p & _ & _ & Hz & _). lia.
Qed.

(* the Cosmos lane reads the timeout through the SDK's rule: stable over a range of heights when the value is outside it *)
Lemma tmo_stable : forall h1 h2 v, h1 <= h2 -> (v < h1 \/ h2 <= v) -> tmo_of h1 v = tmo_of h2 v.
Proof.
  intros h1 h2 v Hh Hv. unfold tmo_of. destruct (v =? 0); [reflexivity|].
  destruct (v <? h1) eqn:E1; destruct (v <? h2) eqn:E2; try reflexivity;
    [apply Z.ltb_lt in E1; apply Z.ltb_ge in E2 | apply Z.ltb_ge in E1; apply Z.ltb_lt in E2]; lia.
Qed.
