(* Proofs about Model/CacheStack.v: well-formedness of the snapshot stack, refinement to the
   stack-of-full-copies machine of Model/Journal.v, and the corollaries used by Properties/C03.v, C08.v. *)
From Coq Require Import Lia.
From Evm Require Import CacheStack Journal.
Open Scope N_scope.

(* ------------------------------------------------------------------ overlays *)

Lemma ov_get_app : forall a b k,
  ov_get (a ++ b) k = match ov_get a k with Some v => Some v | None => ov_get b k end.
Proof.
  induction a as [|[k' v] a IH]; intros b k; cbn [ov_get app]; [reflexivity|].
  destruct (N.eqb k' k); [reflexivity|apply IH].
Qed.

Lemma kv_over_app : forall a b m k, kv_over (a ++ b) m k = kv_over a (kv_over b m) k.
Proof.
  intros a b m k. unfold kv_over. rewrite ov_get_app. destruct (ov_get a k); reflexivity.
Qed.

Lemma kv_over_nil : forall m k, kv_over [] m k = m k.
Proof. reflexivity. Qed.

Lemma kv_over_ext : forall o m1 m2, (forall k, m1 k = m2 k) -> forall k, kv_over o m1 k = kv_over o m2 k.
Proof. intros o m1 m2 H k. unfold kv_over. destruct (ov_get o k); auto. Qed.

Lemma kv_over_cons : forall k v o m k', kv_over ((k, v) :: o) m k' = kv_upd (kv_over o m) k v k'.
Proof.
  intros. unfold kv_over, kv_upd. cbn [ov_get]. destruct (N.eqb k k'); reflexivity.
Qed.

Lemma view_layers_ext : forall ls o1 o2, (forall k, o1 k = o2 k) -> forall k, view_layers ls o1 k = view_layers ls o2 k.
Proof.
  induction ls as [|l r IH]; intros o1 o2 H k; cbn [view_layers]; [apply H|].
  apply kv_over_ext. intros k'. apply IH, H.
Qed.

(* ------------------------------------------------------------------ well-formed stacks *)

(* ids are positions: the layer with i layers beneath it has id i-1 (first snapshot: -1) *)
Fixpoint ids_ok (ls : list layer) : Prop :=
  match ls with
  | [] => True
  | l :: r => l_id l = (Z.of_nat (length r) - 1)%Z /\ ids_ok r
  end.

Definition wf (s : sdb) : Prop := ids_ok (top s :: below s).

Lemma wf_init : forall o ev, wf (init o ev).
Proof. intros. cbv [wf init ids_ok top below l_id length]. split; [reflexivity|exact I]. Qed.

Lemma ids_ok_skipn : forall n ls, ids_ok ls -> ids_ok (skipn n ls).
Proof.
  induction n as [|n IH]; intros ls H; [exact H|].
  destruct ls as [|l r]; [exact I|]. cbn [skipn]. apply IH. exact (proj2 H).
Qed.

Lemma flush_shape : forall ls aov aev o oev,
  let '(r, _, _) := flush ls aov aev o oev in
  length r = length ls /\ map l_id r = map l_id ls /\ map l_saved r = map l_saved ls /\
  Forall (fun l => l_ov l = []) r.
Proof.
  induction ls as [|l r IH]; intros aov aev o oev; cbn [flush].
  - repeat split; constructor.
  - specialize (IH (aov ++ l_ov l) (l_ev l ++ aev) o oev).
    destruct (flush r (aov ++ l_ov l) (l_ev l ++ aev) o oev) as [[r2 o2] e2].
    destruct IH as (H1 & H2 & H3 & H4). cbn [length map l_id l_saved].
    repeat split; try congruence. constructor; [reflexivity|exact H4].
Qed.

Lemma ids_ok_map : forall a b, length a = length b -> map l_id a = map l_id b -> ids_ok b -> ids_ok a.
Proof.
  induction a as [|x a IH]; intros b Hl Hm Hb; [exact I|].
  destruct b as [|y b]; [discriminate|]. cbn [map length ids_ok] in *.
  injection Hl as Hl. injection Hm as Hx Hm. destruct Hb as [Hy Hb].
  split; [rewrite Hx, Hl; exact Hy|eapply IH; eauto].
Qed.

Lemma wf_step : forall s o, wf s -> wf (fst (step s o)).
Proof.
  intros s o H. unfold wf in *.
  destruct o; cbn [step];
    try (destruct (side_step (cur s) _); cbn [fst]; exact H);
    try (cbn [fst set_top_ov set_top_ev top below l_id ids_ok] in *; exact H).
  - (* Snapshot *)
    cbn [fst top below ids_ok l_id length]. split; [|exact H].
    unfold depth. lia.
  - (* RevertTo *)
    destruct (id <? 0)%Z; [exact H|].
    destruct (depth s <=? Z.to_nat (id + 1))%nat; [exact H|].
    pose proof (ids_ok_skipn (depth s - 1 - Z.to_nat (id + 1)) _ H) as Hs.
    destruct (skipn (depth s - 1 - Z.to_nat (id + 1)) (top s :: below s)) as [|l rest]; [exact H|].
    destruct (negb (l_id l =? id)%Z); [exact H|].
    cbn [fst top below ids_ok l_id] in *. exact Hs.
  - (* Commit *)
    destruct (committed s); [exact H|].
    set (t := mkLayer _ _ _ _).
    pose proof (flush_shape (t :: below s) [] [] (orig s) (orig_ev s)) as Hf.
    destruct (flush (t :: below s) [] [] (orig s) (orig_ev s)) as [[ls o'] e'].
    destruct Hf as (Hl & Hm & _ & _).
    destruct ls as [|t' b']; [exact H|].
    cbn [fst top below].
    eapply ids_ok_map; [exact Hl|exact Hm|].
    subst t. cbn [ids_ok l_id] in *. exact H.
Qed.

Lemma wf_run : forall ops s, wf s -> wf (run s ops).
Proof.
  induction ops as [|o ops IH]; intros s H; [exact H|].
  cbn [run fold_left]. apply IH. apply wf_step, H.
Qed.

(* ------------------------------------------------------------------ refinement to the journal of full copies *)

Lemma jfull_eq_refl : forall a, jfull_eq a a.
Proof. intros a. repeat split. Qed.

Lemma Forall2_jfull_eq_refl : forall l, Forall2 jfull_eq l l.
Proof. induction l; constructor; auto using jfull_eq_refl. Qed.

Lemma jeq_refl : forall a, jeq a a.
Proof. intros a. repeat split; auto using Forall2_jfull_eq_refl. Qed.

Lemma jfull_eq_sym : forall a b, jfull_eq a b -> jfull_eq b a.
Proof. intros a b (H1 & H2 & H3). repeat split; auto. Qed.

Lemma jfull_eq_trans : forall a b c, jfull_eq a b -> jfull_eq b c -> jfull_eq a c.
Proof.
  intros a b c (H1 & H2 & H3) (G1 & G2 & G3).
  split; [intros k; rewrite H1; apply G1|split; congruence].
Qed.

Lemma Forall2_jfull_eq_sym : forall l1 l2, Forall2 jfull_eq l1 l2 -> Forall2 jfull_eq l2 l1.
Proof. induction 1; constructor; auto using jfull_eq_sym. Qed.

Lemma Forall2_jfull_eq_trans : forall l1 l2, Forall2 jfull_eq l1 l2 -> forall l3, Forall2 jfull_eq l2 l3 -> Forall2 jfull_eq l1 l3.
Proof.
  induction 1; intros l3 H3; inversion H3; subst; constructor; eauto using jfull_eq_trans.
Qed.

Lemma jeq_sym : forall a b, jeq a b -> jeq b a.
Proof.
  intros a b (H1 & H2 & H3 & H4 & H5).
  split; [intros k; symmetry; apply H1|].
  split; [congruence|]. split; [apply jfull_eq_sym, H3|].
  split; [apply Forall2_jfull_eq_sym, H4|congruence].
Qed.

Lemma jeq_trans : forall a b c, jeq a b -> jeq b c -> jeq a c.
Proof.
  intros a b c (H1 & H2 & H3 & H4 & H5) (G1 & G2 & G3 & G4 & G5).
  split; [intros k; rewrite H1; apply G1|].
  split; [congruence|]. split; [eapply jfull_eq_trans; eauto|].
  split; [eapply Forall2_jfull_eq_trans; eauto|congruence].
Qed.

Lemma saved_of_length : forall ls o oev, length (saved_of ls o oev) = (length ls - 1)%nat.
Proof.
  induction ls as [|l r IH]; intros o oev; [reflexivity|].
  cbn [saved_of]. destruct r as [|p r']; [reflexivity|].
  cbn [length]. rewrite IH. cbn [length]. lia.
Qed.

Lemma saved_of_skipn : forall n ls o oev, saved_of (skipn n ls) o oev = skipn n (saved_of ls o oev).
Proof.
  induction n as [|n IH]; intros ls o oev; [reflexivity|].
  destruct ls as [|l r]; [reflexivity|].
  cbn [skipn saved_of]. destruct r as [|p r'].
  - destruct n; reflexivity.
  - cbn [skipn]. apply IH.
Qed.

Lemma skipn_length' : forall A n (l : list A), length (skipn n l) = (length l - n)%nat.
Proof. intros. apply skipn_length. Qed.

Lemma side_step_nonside : forall c o,
  match o with KvSet _ _ | KvDel _ | EmitEvent _ | Snapshot | RevertTo _ | Commit _ => side_step c o = Some c | _ => True end.
Proof. intros c o; destruct o; exact I || reflexivity. Qed.

Lemma step_refines : forall s o, wf s -> is_commit o = false ->
  jeq (abs (fst (step s o))) (fst (spec_step (abs s) o)) /\ snd (step s o) = snd (spec_step (abs s) o).
Proof.
  intros s o Hwf Hc.
  destruct o; try discriminate Hc; cbn [step spec_step];
    try (cbn [abs j_cur j_side]; destruct (side_step (cur s) _) as [c|]; cbn [fst snd];
         [split; [|reflexivity]; unfold abs, jset_cur, set_cur, view, events; cbn; repeat split; auto using Forall2_jfull_eq_refl
         |split; [apply jeq_refl|reflexivity]]).
  - (* KvSet *)
    cbn [fst snd]. split; [|reflexivity].
    unfold abs, jset_cur, set_top_ov, view, events. cbn.
    repeat split; auto using Forall2_jfull_eq_refl.
    intros k'. apply kv_over_cons.
  - (* KvDel *)
    cbn [fst snd]. split; [|reflexivity].
    unfold abs, jset_cur, set_top_ov, view, events. cbn.
    repeat split; auto using Forall2_jfull_eq_refl.
    intros k'. apply kv_over_cons.
  - (* EmitEvent *)
    cbn [fst snd]. split; [|reflexivity].
    unfold abs, jset_cur, set_top_ev, view, events. cbn.
    repeat split; auto using Forall2_jfull_eq_refl.
    rewrite !app_assoc. reflexivity.
  - (* Snapshot *)
    cbn [fst snd]. split.
    + unfold abs, view, events. cbn. rewrite !app_nil_r.
      repeat split; auto using Forall2_jfull_eq_refl.
    + f_equal. cbn [abs j_saved]. rewrite saved_of_length. unfold depth. cbn [length]. lia.
  - (* RevertTo *)
    cbn [abs j_saved]. destruct (id <? 0)%Z eqn:Hneg; [split; [apply jeq_refl|reflexivity]|].
    apply Z.ltb_ge in Hneg.
    rewrite saved_of_length. cbn [length]. unfold depth.
    assert (E1 : (S (length (below s)) <=? Z.to_nat (id + 1))%nat = (S (length (below s)) - 1 <=? Z.to_nat id)%nat).
    { destruct (Nat.leb_spec (S (length (below s))) (Z.to_nat (id + 1)));
        destruct (Nat.leb_spec (S (length (below s)) - 1) (Z.to_nat id)); auto; lia. }
    rewrite E1. clear E1.
    destruct (S (length (below s)) - 1 <=? Z.to_nat id)%nat eqn:Hle; [split; [apply jeq_refl|reflexivity]|].
    apply Nat.leb_gt in Hle.
    assert (E2 : (S (length (below s)) - 1 - Z.to_nat (id + 1))%nat = (S (length (below s)) - 1 - 1 - Z.to_nat id)%nat) by lia.
    rewrite E2. clear E2.
    set (n := (S (length (below s)) - 1 - 1 - Z.to_nat id)%nat).
    rewrite <- saved_of_skipn.
    pose proof (ids_ok_skipn n _ Hwf) as Hs.
    pose proof (skipn_length' _ n (top s :: below s)) as Hlen.
    destruct (skipn n (top s :: below s)) as [|l rest] eqn:Hsk.
    { cbn [length] in Hlen. subst n. lia. }
    cbn [length] in Hlen. cbn [ids_ok] in Hs. destruct Hs as [Hid Hrest].
    assert (Hlr : length rest = S (Z.to_nat id)) by (subst n; lia).
    assert (Hidl : l_id l = id) by (rewrite Hid, Hlr; lia).
    rewrite Hidl, Z.eqb_refl. cbn [negb fst snd].
    destruct rest as [|p rest']; [discriminate Hlr|].
    cbn [saved_of]. cbn [fst snd]. split; [|reflexivity].
    unfold abs, view, events. cbn. rewrite !app_nil_r.
    repeat split; auto using Forall2_jfull_eq_refl.
Qed.

(* spec_step is a congruence for jeq *)
Lemma Forall2_length' : forall l1 l2, Forall2 jfull_eq l1 l2 -> length l1 = length l2.
Proof. induction 1; cbn; congruence. Qed.

Lemma Forall2_skipn : forall n l1 l2, Forall2 jfull_eq l1 l2 -> Forall2 jfull_eq (skipn n l1) (skipn n l2).
Proof.
  induction n as [|n IH]; intros l1 l2 H; [exact H|].
  destruct H; [constructor|]. cbn [skipn]. apply IH, H0.
Qed.

Ltac jeq_tac :=
  unfold jeq, jfull_eq, jset_cur;
  cbn [j_orig j_orig_ev j_cur j_saved j_committed j_kv j_evs j_side];
  repeat match goal with |- _ /\ _ => split end; auto.

Lemma spec_step_jeq : forall a b o, jeq a b ->
  jeq (fst (spec_step a o)) (fst (spec_step b o)) /\ snd (spec_step a o) = snd (spec_step b o).
Proof.
  intros a b o H. pose proof H as (H1 & H2 & (K1 & K2 & K3) & H4 & H5).
  destruct o; cbn [spec_step];
    try (rewrite K3; destruct (side_step (j_side (j_cur b)) _); cbn [fst snd];
         [split; [|reflexivity]; jeq_tac|split; [exact H|reflexivity]]).
  - cbn [fst snd]. split; [|reflexivity]. jeq_tac.
    intros k'. unfold kv_upd. destruct (N.eqb k k'); auto.
  - cbn [fst snd]. split; [|reflexivity]. jeq_tac.
    intros k'. unfold kv_upd. destruct (N.eqb k k'); auto.
  - cbn [fst snd]. split; [|reflexivity]. jeq_tac. congruence.
  - cbn [fst snd]. rewrite (Forall2_length' _ _ H4). split; [|reflexivity].
    jeq_tac.
  - destruct (id <? 0)%Z; [split; [exact H|reflexivity]|].
    rewrite (Forall2_length' _ _ H4).
    destruct (length (j_saved b) <=? Z.to_nat id)%nat; [split; [exact H|reflexivity]|].
    pose proof (Forall2_skipn (length (j_saved b) - 1 - Z.to_nat id) _ _ H4) as Hs.
    destruct Hs as [|x y lx ly Hxy Hl]; [split; [exact H|reflexivity]|].
    cbn [fst snd]. split; [|reflexivity]. jeq_tac; try apply Hxy.
  - rewrite H5. destruct (j_committed b); [split; [exact H|reflexivity]|].
    cbn [fst snd]. split; [|reflexivity]. jeq_tac; try (intros k; apply kv_over_ext, K1).
Qed.

Definition no_commit (ops : list op) : Prop := Forall (fun o => is_commit o = false) ops.

Lemma run_refines : forall ops s j, wf s -> no_commit ops -> jeq (abs s) j ->
  jeq (abs (run s ops)) (spec_run j ops).
Proof.
  induction ops as [|o ops IH]; intros s j Hwf Hnc Hj; [exact Hj|].
  inversion Hnc as [|? ? Ho Hops]; subst.
  cbn [run spec_run fold_left]. apply IH; [apply wf_step, Hwf|exact Hops|].
  eapply jeq_trans; [apply (step_refines s o Hwf Ho)|apply spec_step_jeq, Hj].
Qed.

(* ------------------------------------------------------------------ the journal machine is right (direct) *)

(* reverts inside the frame opened by Snapshot() = id only target ids >= id (the interpreter's discipline) *)
Definition reverts_ge (id : Z) (ops : list op) : Prop :=
  Forall (fun o => match o with RevertTo i => (id <= i)%Z | _ => True end) ops.

Lemma skipn_app_le : forall A n (l1 l2 : list A), (n <= length l1)%nat -> skipn n (l1 ++ l2) = skipn n l1 ++ l2.
Proof.
  intros A n l1 l2 H. rewrite skipn_app. replace (n - length l1)%nat with 0%nat by lia. reflexivity.
Qed.

Lemma spec_frame_inv : forall ops j c sv, no_commit ops -> reverts_ge (Z.of_nat (length sv)) ops ->
  (exists pre, j_saved j = pre ++ c :: sv) ->
  (exists pre, j_saved (spec_run j ops) = pre ++ c :: sv) /\
  j_orig (spec_run j ops) = j_orig j /\ j_orig_ev (spec_run j ops) = j_orig_ev j /\
  j_committed (spec_run j ops) = j_committed j.
Proof.
  induction ops as [|o ops IH]; intros j c sv Hnc Hrg Hpre; [auto|].
  inversion Hnc as [|? ? Ho Hops]; subst. inversion Hrg as [|? ? Hr Hrs]; subst.
  cbn [spec_run fold_left].
  assert (Hstep : (exists pre, j_saved (fst (spec_step j o)) = pre ++ c :: sv) /\
                  j_orig (fst (spec_step j o)) = j_orig j /\ j_orig_ev (fst (spec_step j o)) = j_orig_ev j /\
                  j_committed (fst (spec_step j o)) = j_committed j).
  { destruct Hpre as [pre Hpre].
    destruct o; try discriminate Ho; cbn [spec_step];
      try (destruct (side_step _ _); cbn [fst]; unfold jset_cur; cbn; eauto);
      try (cbn [fst]; unfold jset_cur; cbn; eauto).
    - (* Snapshot *) repeat split; auto. exists (j_cur j :: pre). rewrite Hpre. reflexivity.
    - (* RevertTo *)
      destruct (id <? 0)%Z; [cbn; eauto|].
      destruct (length (j_saved j) <=? Z.to_nat id)%nat eqn:Hle; [cbn; eauto|].
      apply Nat.leb_gt in Hle.
      destruct (skipn (length (j_saved j) - 1 - Z.to_nat id) (j_saved j)) as [|c' rest] eqn:Hsk; [cbn; eauto|].
      cbn [fst]. cbn. repeat split; auto.
      rewrite Hpre in Hsk, Hle. rewrite app_length in Hsk, Hle. cbn [length] in Hsk, Hle.
      rewrite skipn_app_le in Hsk by lia.
      eexists. rewrite <- Hsk. reflexivity. }
  destruct Hstep as (Hp & Ho1 & Ho2 & Ho3).
  destruct (IH (fst (spec_step j o)) c sv Hops Hrs Hp) as (R1 & R2 & R3 & R4).
  fold (spec_run (fst (spec_step j o)) ops).
  split; [exact R1|]. split; [congruence|]. split; congruence.
Qed.

(* Snapshot() = id; any commit-free ops whose reverts stay inside the frame; RevertToSnapshot(id):
   the machine is back in exactly the state right after the Snapshot *)
Lemma spec_revert_exact : forall j ops,
  no_commit ops -> reverts_ge (Z.of_nat (length (j_saved j))) ops ->
  let j1 := fst (spec_step j Snapshot) in
  spec_step (spec_run j1 ops) (RevertTo (Z.of_nat (length (j_saved j)))) = (j1, OutOk).
Proof.
  intros j ops Hnc Hrg j1.
  destruct (spec_frame_inv ops j1 (j_cur j) (j_saved j) Hnc Hrg) as ((pre & Hpre) & H1 & H2 & H3).
  { exists []. reflexivity. }
  set (j2 := spec_run j1 ops) in *.
  cbn [spec_step].
  destruct (Z.of_nat (length (j_saved j)) <? 0)%Z eqn:E; [apply Z.ltb_lt in E; lia|].
  rewrite Nat2Z.id. rewrite Hpre, app_length. cbn [length].
  destruct (length pre + S (length (j_saved j)) <=? length (j_saved j))%nat eqn:E2; [apply Nat.leb_le in E2; lia|].
  replace (length pre + S (length (j_saved j)) - 1 - length (j_saved j))%nat with (length pre) by lia.
  rewrite skipn_app_le by lia. rewrite skipn_all. cbn [app].
  f_equal. subst j1. cbn [spec_step fst] in *. cbn in H1, H2, H3. rewrite H1, H2, H3. reflexivity.
Qed.

(* ------------------------------------------------------------------ corollaries for the code model *)

Lemma abs_saved_length : forall s, length (j_saved (abs s)) = length (below s).
Proof. intros s. cbn [abs j_saved]. rewrite saved_of_length. cbn [length]. lia. Qed.

(* the id Snapshot() returns in state s *)
Definition next_id (s : sdb) : Z := (Z.of_nat (depth s) - 1)%Z.

Lemma next_id_abs : forall s, next_id s = Z.of_nat (length (j_saved (abs s))).
Proof. intros s. rewrite abs_saved_length. unfold next_id, depth. lia. Qed.

Lemma snapshot_out : forall s, snd (step s Snapshot) = OutId (next_id s).
Proof. reflexivity. Qed.

Lemma revert_exact : forall s ops, wf s -> no_commit ops -> reverts_ge (next_id s) ops ->
  let s1 := fst (step s Snapshot) in
  let r := step (run s1 ops) (RevertTo (next_id s)) in
  snd r = OutOk /\ jeq (abs (fst r)) (abs s1).
Proof.
  intros s ops Hwf Hnc Hrg s1 r.
  assert (Hwf1 : wf s1) by (apply wf_step, Hwf).
  destruct (step_refines s Snapshot Hwf eq_refl) as [Hj1 _]. fold s1 in Hj1.
  set (j1 := fst (spec_step (abs s) Snapshot)) in *.
  pose proof (run_refines ops s1 j1 Hwf1 Hnc Hj1) as Hrun.
  assert (Hwf2 : wf (run s1 ops)) by (apply wf_run, Hwf1).
  destruct (step_refines (run s1 ops) (RevertTo (next_id s)) Hwf2 eq_refl) as [Hj2 Ho2]. fold r in Hj2, Ho2.
  destruct (spec_step_jeq _ _ (RevertTo (next_id s)) Hrun) as [Hj3 Ho3].
  rewrite next_id_abs in Hrg.
  pose proof (spec_revert_exact (abs s) ops Hnc Hrg) as Hsp. cbn zeta in Hsp. fold j1 in Hsp.
  rewrite <- next_id_abs in Hsp. rewrite Hsp in Hj3, Ho3. cbn [fst snd] in Hj3, Ho3.
  split; [congruence|].
  eapply jeq_trans; [exact Hj2|]. eapply jeq_trans; [exact Hj3|]. apply jeq_sym, Hj1.
Qed.

Lemma snapshot_keeps : forall s, (forall k, view (fst (step s Snapshot)) k = view s k) /\
  cur (fst (step s Snapshot)) = cur s /\ events (fst (step s Snapshot)) = events s /\
  orig (fst (step s Snapshot)) = orig s.
Proof.
  intros s. cbn [step fst]. unfold view, events. cbn. rewrite app_nil_r. repeat split.
Qed.

(* orig is only written by Commit *)
Lemma step_orig : forall s o, is_commit o = false ->
  orig (fst (step s o)) = orig s /\ orig_ev (fst (step s o)) = orig_ev s /\ committed (fst (step s o)) = committed s.
Proof.
  intros s o Hc. destruct o; try discriminate Hc; cbn [step];
    try solve [destruct (side_step (cur s) _); cbn; auto]; try solve [cbn; auto].
  - destruct (id <? 0)%Z; [auto|]. destruct (depth s <=? Z.to_nat (id + 1))%nat; [auto|].
    destruct (skipn (depth s - 1 - Z.to_nat (id + 1)) (top s :: below s)) as [|l rest]; [auto|].
    destruct (negb (l_id l =? id)%Z); cbn; auto.
Qed.

Lemma discard_pure : forall ops s, no_commit ops ->
  orig (run s ops) = orig s /\ orig_ev (run s ops) = orig_ev s /\ committed (run s ops) = committed s.
Proof.
  induction ops as [|o ops IH]; intros s H; [auto|].
  inversion H as [|? ? Ho Hops]; subst. cbn [run fold_left].
  destruct (IH (fst (step s o)) Hops) as (A & B & C).
  destruct (step_orig s o Ho) as (A' & B' & C').
  fold (run (fst (step s o)) ops). repeat split; congruence.
Qed.

(* commit: innermost-first folding delivers exactly the current view, whatever the number of layers *)
Lemma flush_view : forall ls aov aev o oev,
  let '(r, o2, e2) := flush ls aov aev o oev in
  (forall k, o2 k = kv_over aov (view_layers ls o) k) /\ e2 = oev ++ events_layers ls ++ aev.
Proof.
  induction ls as [|l r IH]; intros aov aev o oev; cbn [flush].
  - split; [reflexivity|]. reflexivity.
  - specialize (IH (aov ++ l_ov l) (l_ev l ++ aev) o oev).
    destruct (flush r (aov ++ l_ov l) (l_ev l ++ aev) o oev) as [[r2 o2] e2].
    destruct IH as [Hk He]. split.
    + intros k. rewrite Hk. cbn [view_layers]. apply kv_over_app.
    + rewrite He. cbn [events_layers]. rewrite <- !app_assoc. reflexivity.
Qed.

Lemma view_layers_empty : forall ls o, Forall (fun l => l_ov l = []) ls -> forall k, view_layers ls o k = o k.
Proof.
  induction 1 as [|l r Hl Hr IH]; intros k; [reflexivity|].
  cbn [view_layers]. rewrite Hl. cbn. apply IH.
Qed.

Lemma commit_view : forall s d, committed s = false ->
  let r := step s (Commit d) in
  snd r = OutOk /\ committed (fst r) = true /\
  (forall k, orig (fst r) k = kv_over d (view s) k) /\
  (forall k, view (fst r) k = kv_over d (view s) k) /\
  orig_ev (fst r) = events s /\ cur (fst r) = cur s.
Proof.
  intros s d Hc. cbn zeta. cbn [step]. rewrite Hc.
  set (t := mkLayer _ _ _ _).
  pose proof (flush_shape (t :: below s) [] [] (orig s) (orig_ev s)) as Hs.
  pose proof (flush_view (t :: below s) [] [] (orig s) (orig_ev s)) as Hv.
  destruct (flush (t :: below s) [] [] (orig s) (orig_ev s)) as [[ls o'] e'].
  destruct Hs as (Hl & _ & _ & He). destruct Hv as [Hk Hev].
  destruct ls as [|t' b']; [discriminate Hl|].
  cbn [fst snd orig committed orig_ev cur].
  assert (Ho : forall k, o' k = kv_over d (view s) k).
  { intros k. rewrite Hk. rewrite kv_over_nil. subst t. unfold view. cbn [view_layers l_ov].
    apply kv_over_app. }
  repeat split; auto.
  - intros k. unfold view. cbn [top below orig]. rewrite (view_layers_empty _ _ He). apply Ho.
  - rewrite Hev, app_nil_r. subst t. unfold events. cbn [events_layers l_ev]. reflexivity.
Qed.

(* the effect of a revert-free, commit-free run on the view: just the writes, in order;
   Snapshot nesting is irrelevant *)
Definition kv_step (m : kv) (o : op) : kv :=
  match o with
  | KvSet k v => kv_upd m k (Some v)
  | KvDel k => kv_upd m k None
  | _ => m
  end.
Definition apply_writes (ops : list op) (m : kv) : kv := fold_left kv_step ops m.

Definition is_revert (o : op) : bool := match o with RevertTo _ => true | _ => false end.
Definition no_revert (ops : list op) : Prop := Forall (fun o => is_revert o = false) ops.

Lemma kv_step_ext : forall o m1 m2, (forall k, m1 k = m2 k) -> forall k, kv_step m1 o k = kv_step m2 o k.
Proof. intros o m1 m2 H k. destruct o; cbn [kv_step]; auto; unfold kv_upd; destruct (N.eqb _ k); auto. Qed.

Lemma apply_writes_ext : forall ops m1 m2, (forall k, m1 k = m2 k) -> forall k, apply_writes ops m1 k = apply_writes ops m2 k.
Proof.
  induction ops as [|o ops IH]; intros m1 m2 H k; [apply H|].
  cbn [apply_writes fold_left]. apply IH. apply kv_step_ext, H.
Qed.

Lemma step_view_norevert : forall s o, is_commit o = false -> is_revert o = false ->
  forall k, view (fst (step s o)) k = kv_step (view s) o k.
Proof.
  intros s o Hc Hr k. destruct o; try discriminate; cbn [step kv_step];
    try (destruct (side_step (cur s) _); reflexivity).
  - cbn [fst]. unfold view, set_top_ov. cbn [top below orig view_layers l_ov]. apply kv_over_cons.
  - cbn [fst]. unfold view, set_top_ov. cbn [top below orig view_layers l_ov]. apply kv_over_cons.
  - reflexivity.
  - reflexivity.
Qed.

Lemma run_view_norevert : forall ops s, no_commit ops -> no_revert ops ->
  forall k, view (run s ops) k = apply_writes ops (view s) k.
Proof.
  induction ops as [|o ops IH]; intros s Hc Hr k; [reflexivity|].
  inversion Hc as [|? ? Hc1 Hc2]; inversion Hr as [|? ? Hr1 Hr2]; subst.
  cbn [run apply_writes fold_left]. fold (run (fst (step s o)) ops). fold (apply_writes ops (kv_step (view s) o)).
  rewrite IH by assumption. apply apply_writes_ext. apply step_view_norevert; assumption.
Qed.

Lemma success_kept : forall s ops d, committed s = false -> no_commit ops -> no_revert ops ->
  forall k, orig (fst (step (run s ops) (Commit d))) k = kv_over d (apply_writes ops (view s)) k.
Proof.
  intros s ops d Hc Hnc Hnr k.
  destruct (discard_pure ops s Hnc) as (_ & _ & Hc').
  destruct (commit_view (run s ops) d) as (_ & _ & Ho & _); [congruence|].
  rewrite Ho. apply kv_over_ext. apply run_view_norevert; assumption.
Qed.

Lemma spec_run_jeq : forall ops ja jb, jeq ja jb -> jeq (spec_run ja ops) (spec_run jb ops).
Proof.
  induction ops as [|o ops IH]; intros ja jb Hj; [exact Hj|].
  cbn [spec_run fold_left]. apply IH. apply spec_step_jeq, Hj.
Qed.

(* states with the same abstraction behave the same from then on *)
Lemma same_abs_same_future : forall sa sb post d, wf sa -> wf sb -> jeq (abs sa) (abs sb) -> no_commit post ->
  committed sa = false ->
  let ra := step (run sa post) (Commit d) in
  let rb := step (run sb post) (Commit d) in
  (forall k, orig (fst ra) k = orig (fst rb) k) /\ orig_ev (fst ra) = orig_ev (fst rb) /\ cur (fst ra) = cur (fst rb).
Proof.
  intros sa sb post d Hwa Hwb Hj Hnc Hca ra rb.
  assert (Hcb : committed sb = false).
  { destruct Hj as (_ & _ & _ & _ & H5). cbn [abs j_committed] in H5. congruence. }
  pose proof (run_refines post sa (abs sa) Hwa Hnc (jeq_refl _)) as Ha.
  pose proof (run_refines post sb (abs sb) Hwb Hnc (jeq_refl _)) as Hb.
  assert (Hab : jeq (abs (run sa post)) (abs (run sb post))).
  { eapply jeq_trans; [exact Ha|]. eapply jeq_trans; [|apply jeq_sym, Hb].
    apply spec_run_jeq, Hj. }
  destruct (discard_pure post sa Hnc) as (_ & _ & Hca').
  destruct (discard_pure post sb Hnc) as (_ & _ & Hcb').
  destruct (commit_view (run sa post) d) as (_ & _ & Hoa & _ & Hea & Hsa); [congruence|].
  destruct (commit_view (run sb post) d) as (_ & _ & Hob & _ & Heb & Hsb); [congruence|].
  fold ra in Hoa, Hea, Hsa. fold rb in Hob, Heb, Hsb.
  destruct Hab as (_ & _ & (K1 & K2 & K3) & _ & _). cbn [abs j_cur j_kv j_evs j_side] in K1, K2, K3.
  repeat split.
  - intros k. rewrite Hoa, Hob. apply kv_over_ext, K1.
  - congruence.
  - congruence.
Qed.

Lemma run_app : forall a b s, run s (a ++ b) = run (run s a) b.
Proof. intros. unfold run. apply fold_left_app. Qed.

Lemma run_cons : forall o ops s, run s (o :: ops) = run (fst (step s o)) ops.
Proof. reflexivity. Qed.

(* a reverted frame leaves no trace in the committed outcome, whatever happens afterwards *)
Lemma frame_leaves_no_trace : forall s frame post d, wf s -> committed s = false ->
  no_commit frame -> reverts_ge (next_id s) frame -> no_commit post ->
  let ra := step (run s (Snapshot :: frame ++ RevertTo (next_id s) :: post)) (Commit d) in
  let rb := step (run s (Snapshot :: post)) (Commit d) in
  (forall k, orig (fst ra) k = orig (fst rb) k) /\ orig_ev (fst ra) = orig_ev (fst rb) /\ cur (fst ra) = cur (fst rb).
Proof.
  intros s frame post d Hwf Hc Hnf Hrg Hnp.
  cbn zeta. rewrite !run_cons, run_app, run_cons.
  destruct (revert_exact s frame Hwf Hnf Hrg) as [_ Hj].
  apply same_abs_same_future; auto.
  - apply wf_step, wf_run, wf_step, Hwf.
  - apply wf_step, Hwf.
  - destruct (step_orig (run (fst (step s Snapshot)) frame) (RevertTo (next_id s)) eq_refl) as (_ & _ & C1).
    destruct (discard_pure frame (fst (step s Snapshot)) Hnf) as (_ & _ & C2).
    destruct (step_orig s Snapshot eq_refl) as (_ & _ & C3). congruence.
Qed.

Lemma run_refines_abs : forall ops s, wf s -> no_commit ops -> jeq (abs (run s ops)) (spec_run (abs s) ops).
Proof. intros. apply run_refines; auto using jeq_refl. Qed.

Lemma reachable_wf : forall o ev ops, wf (run (init o ev) ops).
Proof. intros. apply wf_run, wf_init. Qed.

(* revert_exact in terms of what callers can observe *)
Lemma revert_exact_getters : forall s ops, wf s -> no_commit ops -> reverts_ge (next_id s) ops ->
  let r := step (run (fst (step s Snapshot)) ops) (RevertTo (next_id s)) in
  snd r = OutOk /\ (forall k, view (fst r) k = view s k) /\ cur (fst r) = cur s /\ events (fst r) = events s /\
  orig (fst r) = orig s /\ depth (fst r) = S (depth s).
Proof.
  intros s ops Hwf Hnc Hrg r.
  destruct (revert_exact s ops Hwf Hnc Hrg) as [Ho Hj]. fold r in Ho, Hj.
  destruct (snapshot_keeps s) as (V & C & E & O).
  destruct Hj as (_ & _ & (K1 & K2 & K3) & K4 & _). cbn [abs j_cur j_kv j_evs j_side j_saved] in K1, K2, K3, K4.
  split; [exact Ho|]. split; [intros k; rewrite K1; apply V|]. split; [congruence|]. split; [congruence|].
  split.
  - destruct (step_orig (run (fst (step s Snapshot)) ops) (RevertTo (next_id s)) eq_refl) as (A & _ & _).
    destruct (discard_pure ops (fst (step s Snapshot)) Hnc) as (B & _ & _). fold r in A. congruence.
  - apply Forall2_length' in K4. rewrite !saved_of_length in K4. cbn [length] in K4.
    unfold depth. cbn [step fst below length] in *. lia.
Qed.

(* reverting again to the surviving id after new writes restores the same state (no shared copies) *)
Lemma revert_twice : forall s ops1 ops2, wf s -> no_commit ops1 -> no_commit ops2 ->
  reverts_ge (next_id s) ops1 -> reverts_ge (next_id s) ops2 ->
  let s1 := fst (step s Snapshot) in
  let r1 := step (run s1 ops1) (RevertTo (next_id s)) in
  let r2 := step (run (fst r1) ops2) (RevertTo (next_id s)) in
  snd r2 = OutOk /\ (forall k, view (fst r2) k = view (fst r1) k) /\ cur (fst r2) = cur (fst r1) /\
  events (fst r2) = events (fst r1).
Proof.
  intros s ops1 ops2 Hwf H1 H2 G1 G2 s1 r1 r2.
  assert (Hnc : no_commit (ops1 ++ RevertTo (next_id s) :: ops2)).
  { apply Forall_app. split; [exact H1|]. constructor; [reflexivity|exact H2]. }
  assert (Hrg : reverts_ge (next_id s) (ops1 ++ RevertTo (next_id s) :: ops2)).
  { apply Forall_app. split; [exact G1|]. constructor; [cbn; lia|exact G2]. }
  destruct (revert_exact_getters s _ Hwf Hnc Hrg) as (A & B & C & D & _).
  rewrite run_app, run_cons in A, B, C, D. fold s1 in A, B, C, D. fold r1 in A, B, C, D. fold r2 in A, B, C, D.
  destruct (revert_exact_getters s ops1 Hwf H1 G1) as (_ & B' & C' & D' & _). fold s1 in B', C', D'. fold r1 in B', C', D'.
  split; [exact A|]. split; [intros k; rewrite B, B'; reflexivity|]. split; congruence.
Qed.

Lemma apply_writes_app : forall a b m, apply_writes (a ++ b) m = apply_writes b (apply_writes a m).
Proof. intros. unfold apply_writes. apply fold_left_app. Qed.

(* a transaction whose top-level call frame fails: only what happened outside the frame is committed
   (TransitionDb: nonce bump before evm.Call, gas refund after it; the fee was taken by the ante handler) *)
Lemma vm_error_only_outer_effects : forall o ev pre frame post d,
  no_commit pre -> no_revert pre -> no_commit post -> no_revert post -> no_commit frame ->
  let s := run (init o ev) pre in
  reverts_ge (next_id s) frame ->
  let r := step (run (init o ev) (pre ++ Snapshot :: frame ++ RevertTo (next_id s) :: post)) (Commit d) in
  snd r = OutOk /\ forall k, orig (fst r) k = kv_over d (apply_writes (pre ++ post) o) k.
Proof.
  intros o ev pre frame post d Hp1 Hp2 Hq1 Hq2 Hf s Hrg r.
  assert (Hwf : wf s) by apply reachable_wf.
  destruct (discard_pure pre (init o ev) Hp1) as (_ & _ & Hc). fold s in Hc. cbn [init committed] in Hc.
  destruct (frame_leaves_no_trace s frame post d Hwf Hc Hf Hrg Hq1) as (A & _ & _).
  unfold r. rewrite run_app. fold s. split.
  - set (ops := Snapshot :: frame ++ RevertTo (next_id s) :: post).
    assert (Hn : no_commit ops).
    { constructor; [reflexivity|]. apply Forall_app. split; [exact Hf|]. constructor; [reflexivity|exact Hq1]. }
    destruct (discard_pure ops s Hn) as (_ & _ & Hc').
    apply commit_view. congruence.
  - intros k. rewrite A.
    assert (Hn : no_commit (Snapshot :: post)) by (constructor; [reflexivity|exact Hq1]).
    assert (Hr : no_revert (Snapshot :: post)) by (constructor; [reflexivity|exact Hq2]).
    rewrite (success_kept s (Snapshot :: post) d Hc Hn Hr).
    apply kv_over_ext. intros k'. rewrite apply_writes_app.
    cbn [apply_writes fold_left kv_step]. apply apply_writes_ext.
    intros k''. unfold s. rewrite run_view_norevert by assumption. reflexivity.
Qed.


(* ------------------------------------------------------------------ whole call trees *)

Lemma compile_frame : forall d ok body,
  compile d (CF ok body) =
  let '(ops, d') := compile_list (S d) body in
  if ok then (Snapshot :: ops, d') else (Snapshot :: ops ++ [RevertTo (Z.of_nat d - 1)], S d).
Proof. reflexivity. Qed.

Lemma compile_list_cons : forall d x r,
  compile_list d (x :: r) =
  let '(o1, d1) := compile d x in let '(o2, d2) := compile_list d1 r in (o1 ++ o2, d2).
Proof. reflexivity. Qed.

Lemma kept_frame : forall ok body, kept (CF ok body) = if ok then kept_list body else [].
Proof. reflexivity. Qed.

Lemma kept_list_cons : forall x r, kept_list (x :: r) = kept x ++ kept_list r.
Proof. reflexivity. Qed.

Lemma plain_frame : forall ok body, plain_tree (CF ok body) = plain_list body.
Proof. reflexivity. Qed.

Lemma plain_list_cons : forall x r, plain_list (x :: r) = plain_tree x && plain_list r.
Proof. reflexivity. Qed.

Lemma reverts_ge_mono : forall a b ops, (a <= b)%Z -> reverts_ge b ops -> reverts_ge a ops.
Proof.
  intros a b ops Hab H. unfold reverts_ge in *. eapply Forall_impl; [|exact H].
  intros o Ho. destruct o; auto. lia.
Qed.

Lemma side_run_app : forall a b c, side_run (a ++ b) c = side_run b (side_run a c).
Proof. intros. unfold side_run. apply fold_left_app. Qed.

Lemma emitted_app : forall a b, emitted (a ++ b) = emitted a ++ emitted b.
Proof.
  induction a as [|o a IH]; intros b; [reflexivity|].
  cbn [app emitted]. destruct o; rewrite ?IH; reflexivity.
Qed.

(* one plain operation: the stack keeps its shape; the view, the side state and the visible events move as stated *)
Lemma step_plain : forall s o, is_plain o = true ->
  depth (fst (step s o)) = depth s /\
  (forall k, view (fst (step s o)) k = kv_step (view s) o k) /\
  cur (fst (step s o)) = side_apply (cur s) o /\
  events (fst (step s o)) = events s ++ emitted [o].
Proof.
  intros s o Hp.
  assert (Hc : is_commit o = false) by (destruct o; try reflexivity; discriminate).
  assert (Hr : is_revert o = false) by (destruct o; try reflexivity; discriminate).
  split; [|split; [apply step_view_norevert; assumption|]].
  - destruct o; try discriminate Hp; cbn [step]; try reflexivity;
      destruct (side_step (cur s) _); reflexivity.
  - destruct o; try discriminate Hp; cbn [step emitted].
    all: try (unfold side_apply; destruct (side_step (cur s) _) eqn:E; cbn [fst set_cur cur]; rewrite ?app_nil_r; split; reflexivity).
    + cbn [fst]. rewrite app_nil_r. split; reflexivity.
    + cbn [fst]. rewrite app_nil_r. split; reflexivity.
    + cbn [fst]. split; [reflexivity|]. unfold events, set_top_ev. cbn [top below orig_ev events_layers l_ev].
      rewrite !app_assoc. reflexivity.
Qed.

(* static facts about the compiled sequence: no Commit inside, len(snapshots) never shrinks below the entry value,
   and every RevertTo targets an id at or above the one of the frame around it *)
Definition compile_static (t : citem) : Prop := forall d,
  plain_tree t = true ->
  no_commit (fst (compile d t)) /\ (d <= snd (compile d t))%nat /\ reverts_ge (Z.of_nat d - 1) (fst (compile d t)).

Lemma compile_static_all : forall t, compile_static t.
Proof.
  fix IH 1. intros [o|ok body] d Hp.
  - cbn [compile fst snd]. cbn [plain_tree] in Hp. split; [|split].
    + constructor; [destruct o; try reflexivity; discriminate|constructor].
    + lia.
    + constructor; [destruct o; try exact I; discriminate|constructor].
  - rewrite compile_frame. rewrite plain_frame in Hp.
    assert (HL : forall l d, plain_list l = true ->
              no_commit (fst (compile_list d l)) /\ (d <= snd (compile_list d l))%nat /\
              reverts_ge (Z.of_nat d - 1) (fst (compile_list d l))).
    { clear d Hp. induction l as [|x r IHr]; intros d Hp.
      - cbn. repeat split; [constructor|lia|constructor].
      - rewrite plain_list_cons in Hp. apply andb_true_iff in Hp. destruct Hp as [Hx Hr].
        rewrite compile_list_cons.
        pose proof (IH x d Hx) as (A1 & A2 & A3). destruct (compile d x) as [o1 d1]. cbn [fst snd] in *.
        pose proof (IHr d1 Hr) as (B1 & B2 & B3). destruct (compile_list d1 r) as [o2 d2]. cbn [fst snd] in *.
        split; [apply Forall_app; split; assumption|]. split; [lia|].
        apply Forall_app. split; [exact A3|]. eapply reverts_ge_mono; [|exact B3]. lia. }
    pose proof (HL body (S d) Hp) as (A1 & A2 & A3). destruct (compile_list (S d) body) as [ops d'].
    cbn [fst snd] in *. destruct ok; cbn [fst snd].
    + split; [constructor; [reflexivity|exact A1]|]. split; [lia|].
      constructor; [exact I|]. eapply reverts_ge_mono; [|exact A3]. lia.
    + split; [constructor; [reflexivity|]; apply Forall_app; split; [exact A1|constructor; [reflexivity|constructor]]|].
      split; [lia|].
      constructor; [exact I|]. apply Forall_app. split.
      * eapply reverts_ge_mono; [|exact A3]. lia.
      * constructor; [cbn; lia|constructor].
Qed.

Lemma compile_effect : forall t d, plain_tree t = true ->
  forall s, wf s -> depth s = d ->
  depth (run s (fst (compile d t))) = snd (compile d t) /\
  (forall k, view (run s (fst (compile d t))) k = apply_writes (kept t) (view s) k) /\
  cur (run s (fst (compile d t))) = side_run (kept t) (cur s) /\
  events (run s (fst (compile d t))) = events s ++ emitted (kept t).
Proof.
  fix IH 1. intros [o|ok body] d Hp s Hwf Hd.
  - cbn [compile fst snd kept]. cbn [plain_tree] in Hp. rewrite run_cons. cbn [run fold_left].
    destruct (step_plain s o Hp) as (A & B & C & D).
    split; [congruence|]. split; [exact B|]. split; [exact C|exact D].
  - rewrite plain_frame in Hp.
    assert (HL : forall l d, plain_list l = true -> forall s, wf s -> depth s = d ->
              depth (run s (fst (compile_list d l))) = snd (compile_list d l) /\
              (forall k, view (run s (fst (compile_list d l))) k = apply_writes (kept_list l) (view s) k) /\
              cur (run s (fst (compile_list d l))) = side_run (kept_list l) (cur s) /\
              events (run s (fst (compile_list d l))) = events s ++ emitted (kept_list l)).
    { clear d Hp s Hwf Hd. induction l as [|x r IHr]; intros d Hp s Hwf Hd.
      - cbn. rewrite app_nil_r. repeat split; assumption.
      - rewrite plain_list_cons in Hp. apply andb_true_iff in Hp. destruct Hp as [Hx Hr].
        rewrite compile_list_cons, kept_list_cons.
        pose proof (IH x d Hx s Hwf Hd) as (A1 & A2 & A3 & A4). destruct (compile d x) as [o1 d1]. cbn [fst snd] in *.
        pose proof (IHr d1 Hr (run s o1) (wf_run _ _ Hwf) A1) as (B1 & B2 & B3 & B4).
        destruct (compile_list d1 r) as [o2 d2]. cbn [fst snd] in *.
        rewrite run_app. split; [exact B1|]. split; [|split].
        + intros k. rewrite B2, apply_writes_app. apply apply_writes_ext. exact A2.
        + rewrite B3, A3, side_run_app. reflexivity.
        + rewrite B4, A4, emitted_app, app_assoc. reflexivity. }
    rewrite compile_frame, kept_frame.
    set (s1 := fst (step s Snapshot)).
    assert (Hwf1 : wf s1) by apply wf_step, Hwf.
    assert (Hd1 : depth s1 = S d) by (unfold s1; cbn [step fst]; unfold depth in *; cbn [below length]; lia).
    destruct (snapshot_keeps s) as (V & C & E & _). fold s1 in V, C, E.
    pose proof (HL body (S d) Hp s1 Hwf1 Hd1) as (A1 & A2 & A3 & A4).
    pose proof (compile_static_all (CF true body) d) as Hst. rewrite plain_frame in Hst. specialize (Hst Hp).
    rewrite compile_frame in Hst.
    destruct (compile_list (S d) body) as [ops d'] eqn:Ec. cbn [fst snd] in *.
    destruct ok; cbn [fst snd].
    + rewrite run_cons. fold s1. split; [exact A1|]. split; [|split].
      * intros k. rewrite A2. apply apply_writes_ext. exact V.
      * rewrite A3, C. reflexivity.
      * rewrite A4, E. reflexivity.
    + destruct Hst as (Hnc & _ & Hrg). pose proof (Forall_inv_tail Hnc) as Hnc'. pose proof (Forall_inv_tail Hrg) as Hrg'.
      assert (Hid : next_id s = (Z.of_nat d - 1)%Z) by (unfold next_id; rewrite Hd; reflexivity).
      rewrite <- Hid in *.
      destruct (revert_exact_getters s ops Hwf Hnc' Hrg') as (_ & B2 & B3 & B4 & _ & B6).
      rewrite run_cons. fold s1. rewrite run_app. cbn [run fold_left].
      cbn [apply_writes fold_left side_run emitted]. rewrite app_nil_r.
      fold s1 in B2, B3, B4, B6. split; [rewrite B6, Hd; reflexivity|]. split; [exact B2|]. split; [exact B3|exact B4].
Qed.

Lemma compile_list_static : forall l d, plain_list l = true ->
  no_commit (fst (compile_list d l)) /\ (d <= snd (compile_list d l))%nat /\
  reverts_ge (Z.of_nat d - 1) (fst (compile_list d l)).
Proof.
  induction l as [|x r IHr]; intros d Hp.
  - cbn. repeat split; [constructor|lia|constructor].
  - rewrite plain_list_cons in Hp. apply andb_true_iff in Hp. destruct Hp as [Hx Hr].
    rewrite compile_list_cons.
    pose proof (compile_static_all x d Hx) as (A1 & A2 & A3). destruct (compile d x) as [o1 d1]. cbn [fst snd] in *.
    pose proof (IHr d1 Hr) as (B1 & B2 & B3). destruct (compile_list d1 r) as [o2 d2]. cbn [fst snd] in *.
    split; [apply Forall_app; split; assumption|]. split; [lia|].
    apply Forall_app. split; [exact A3|]. eapply reverts_ge_mono; [|exact B3]. lia.
Qed.

Lemma compile_list_effect : forall l d, plain_list l = true -> forall s, wf s -> depth s = d ->
  depth (run s (fst (compile_list d l))) = snd (compile_list d l) /\
  (forall k, view (run s (fst (compile_list d l))) k = apply_writes (kept_list l) (view s) k) /\
  cur (run s (fst (compile_list d l))) = side_run (kept_list l) (cur s) /\
  events (run s (fst (compile_list d l))) = events s ++ emitted (kept_list l).
Proof.
  induction l as [|x r IHr]; intros d Hp s Hwf Hd.
  - cbn. rewrite app_nil_r. repeat split; assumption.
  - rewrite plain_list_cons in Hp. apply andb_true_iff in Hp. destruct Hp as [Hx Hr].
    rewrite compile_list_cons, kept_list_cons.
    pose proof (compile_effect x d Hx s Hwf Hd) as (A1 & A2 & A3 & A4). destruct (compile d x) as [o1 d1]. cbn [fst snd] in *.
    pose proof (IHr d1 Hr (run s o1) (wf_run _ _ Hwf) A1) as (B1 & B2 & B3 & B4).
    destruct (compile_list d1 r) as [o2 d2]. cbn [fst snd] in *.
    rewrite run_app. split; [exact B1|]. split; [|split].
    + intros k. rewrite B2, apply_writes_app. apply apply_writes_ext. exact A2.
    + rewrite B3, A3, side_run_app. reflexivity.
    + rewrite B4, A4, emitted_app, app_assoc. reflexivity.
Qed.

(* THE TRANSACTION: any call tree, run on any reachable StateDB, then committed.  What reaches the original
   context is exactly the writes of the operations whose frame and all enclosing frames completed, in program order
   (plus the destroy loop of the commit); every effect made inside a frame that failed has disappeared, at any depth,
   for all modules alike; logs, refund, access list, transient storage, self-destruct marks and events likewise. *)
Lemma call_tree_commit : forall s items dl, wf s -> committed s = false -> plain_list items = true ->
  let ops := fst (compile_list (depth s) items) in
  let r := step (run s ops) (Commit dl) in
  snd r = OutOk /\
  (forall k, orig (fst r) k = kv_over dl (apply_writes (kept_list items) (view s)) k) /\
  cur (fst r) = side_run (kept_list items) (cur s) /\
  orig_ev (fst r) = events s ++ emitted (kept_list items).
Proof.
  intros s items dl Hwf Hc Hp ops r.
  destruct (compile_list_effect items (depth s) Hp s Hwf eq_refl) as (_ & V & C & E). fold ops in V, C, E.
  destruct (compile_list_static items (depth s) Hp) as (Hnc & _ & _). fold ops in Hnc.
  destruct (discard_pure ops s Hnc) as (_ & _ & Hc').
  destruct (commit_view (run s ops) dl) as (R1 & _ & R3 & _ & R5 & R6); [congruence|].
  fold r in R1, R3, R5, R6.
  split; [exact R1|]. split; [|split].
  - intros k. rewrite R3. apply kv_over_ext. exact V.
  - rewrite R6. exact C.
  - rewrite R5. exact E.
Qed.

(* the same tree with every failing frame cut out (Model/CacheStack.v prune: the "survivors only" transaction of the
   driver) commits the same outcome *)
Lemma kept_list_app : forall a b, kept_list (a ++ b) = kept_list a ++ kept_list b.
Proof. induction a as [|x a IH]; intros b; [reflexivity|]. cbn [app]. rewrite !kept_list_cons, IH, app_assoc. reflexivity. Qed.

Lemma plain_list_app : forall a b, plain_list (a ++ b) = plain_list a && plain_list b.
Proof. induction a as [|x a IH]; intros b; [reflexivity|]. cbn [app]. rewrite !plain_list_cons, IH, andb_assoc. reflexivity. Qed.

Lemma prune_kept : forall t, plain_tree t = true ->
  kept_list (prune t) = kept t /\ plain_list (prune t) = true.
Proof.
  fix IH 1. intros [o|ok body] Hp.
  - cbn [plain_tree] in Hp. cbn. rewrite Hp. split; reflexivity.
  - rewrite plain_frame in Hp. rewrite kept_frame.
    assert (HL : forall l, plain_list l = true -> kept_list (prune_list l) = kept_list l /\ plain_list (prune_list l) = true).
    { induction l as [|x r IHr]; intros Hl; [split; reflexivity|].
      rewrite plain_list_cons in Hl. apply andb_true_iff in Hl. destruct Hl as [Hx Hr].
      change (prune_list (x :: r)) with (prune x ++ prune_list r).
      destruct (IH x Hx) as [K1 P1]. destruct (IHr Hr) as [K2 P2].
      rewrite kept_list_app, plain_list_app, kept_list_cons, K1, K2, P1, P2. split; reflexivity. }
    destruct ok.
    + change (prune (CF true body)) with [CF true (prune_list body)].
      destruct (HL body Hp) as [K P]. cbn [kept_list plain_list]. rewrite kept_frame, plain_frame, app_nil_r, K, P.
      split; reflexivity.
    + split; reflexivity.
Qed.

Lemma prune_list_kept : forall l, plain_list l = true ->
  kept_list (prune_list l) = kept_list l /\ plain_list (prune_list l) = true.
Proof.
  induction l as [|x r IHr]; intros Hl; [split; reflexivity|].
  rewrite plain_list_cons in Hl. apply andb_true_iff in Hl. destruct Hl as [Hx Hr].
  change (prune_list (x :: r)) with (prune x ++ prune_list r).
  destruct (prune_kept x Hx) as [K1 P1]. destruct (IHr Hr) as [K2 P2].
  rewrite kept_list_app, plain_list_app, kept_list_cons, K1, K2, P1, P2. split; reflexivity.
Qed.

Lemma survivors_only_twin : forall s items dl, wf s -> committed s = false -> plain_list items = true ->
  let ra := step (run s (fst (compile_list (depth s) items))) (Commit dl) in
  let rb := step (run s (fst (compile_list (depth s) (prune_list items)))) (Commit dl) in
  (forall k, orig (fst ra) k = orig (fst rb) k) /\ cur (fst ra) = cur (fst rb) /\ orig_ev (fst ra) = orig_ev (fst rb).
Proof.
  intros s items dl Hwf Hc Hp ra rb.
  destruct (prune_list_kept items Hp) as [K P].
  destruct (call_tree_commit s items dl Hwf Hc Hp) as (_ & A2 & A3 & A4).
  destruct (call_tree_commit s (prune_list items) dl Hwf Hc P) as (_ & B2 & B3 & B4).
  fold ra in A2, A3, A4. fold rb in B2, B3, B4. rewrite K in B2, B3, B4.
  split; [intros k; rewrite A2, B2; reflexivity|]. split; congruence.
Qed.
