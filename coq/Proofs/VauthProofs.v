(* Proofs about x/vauth and the vesting-creation routes (Model/Vauth.v). *)
From Evm Require Import Lane LaneProofs Vauth.
From Coq Require Import Lia.
Open Scope Z_scope.

Section VauthProofs.
  Variable verifies : addr -> N -> bool.

  Notation submit_tx := (submit_tx verifies).
  Notation step := (step verifies).
  Notation run := (run verifies).

  Lemma upd_same : forall A (f : addr -> A) a v, upd f a v a = v.
  Proof. intros. unfold upd. rewrite N.eqb_refl. reflexivity. Qed.

  Lemma upd_other : forall A (f : addr -> A) a v x, x <> a -> upd f a v x = f x.
  Proof. intros. unfold upd. destruct (N.eqb x a) eqn:E; [apply N.eqb_eq in E; contradiction|reflexivity]. Qed.

  (* ---------------------------------------------------------------- one submission, all cases *)

  Definition fee_taken (st : vstate) (payer : addr) (fee : Z) : addr -> Z := upd (bal st) payer (bal st payer - fee).

  (* everything submit_tx can do, in one statement *)
  Lemma submit_tx_cases : forall st n p sub acc ok g fee st' r,
    submit_tx st n p sub acc ok g fee = (st', r) ->
    match r with
    | SOk =>
        msg_valid verifies sub acc ok g = true /\ s_lower g = true /\ proofs st acc = None /\
        fee <= bal st p /\ COST <= fee_taken st p fee sub /\ (n < MAX_NESTED_LEVELS)%nat /\
        proofs st' = upd (proofs st) acc (Some g) /\
        bal st' = upd (fee_taken st p fee) sub (fee_taken st p fee sub - COST) /\
        supply st' = supply st - COST /\ vested st' = vested st /\ acct st' = acct st
    | SRejBasic | SRejAnte | SRejDepth => st' = st
    | SRejBasicNested | SRejConflict | SRejFunds | SPanicSave =>
        fee <= bal st p /\
        proofs st' = proofs st /\ bal st' = fee_taken st p fee /\ supply st' = supply st /\ vested st' = vested st /\
        acct st' = acct st
    end.
  Proof.
    intros st n p sub acc ok g fee st' r. unfold Vauth.submit_tx, fee_taken.
    destruct ((n =? 0)%nat && negb (msg_valid verifies sub acc ok g)) eqn:Htop; [intros H; inversion H; reflexivity|].
    destruct (bal st p <? fee) eqn:Hfee; [intros H; inversion H; reflexivity|].
    apply Z.ltb_ge in Hfee.
    destruct (MAX_NESTED_LEVELS <=? n)%nat eqn:Hd; [intros H; inversion H; reflexivity|].
    apply Nat.leb_gt in Hd.
    destruct (msg_valid verifies sub acc ok g) eqn:Hv; cbn [negb];
      [|intros H; inversion H; subst; cbn [with_bal proofs bal supply vested acct]; auto 10].
    unfold submit_msg, has, with_bal. cbn [proofs bal supply vested acct].
    destruct (proofs st acc) eqn:Hp; [intros H; inversion H; subst; cbn; auto 10|].
    destruct (upd (bal st) p (bal st p - fee) sub <? COST) eqn:Hc; [intros H; inversion H; subst; cbn; auto 10|].
    apply Z.ltb_ge in Hc.
    destruct (s_lower g) eqn:Hl; cbn [negb]; intros H; inversion H; subst; cbn [proofs bal supply vested acct]; auto 12.
  Qed.

  (* ---------------------------------------------------------------- proofs need a signature *)

  Lemma msg_valid_verifies : forall sub acc ok g, msg_valid verifies sub acc ok g = true -> verifies acc (s_bytes g) = true.
  Proof. intros sub acc ok g H. unfold msg_valid in H. apply andb_prop in H as [_ H]. exact H. Qed.

  Lemma msg_valid_parts : forall sub acc ok g, msg_valid verifies sub acc ok g = true ->
    ok = true /\ sub <> acc /\ s_prefix g = true /\ s_hex_ok g = true /\ verifies acc (s_bytes g) = true.
  Proof.
    intros sub acc ok g H. unfold msg_valid in H.
    apply andb_prop in H as [H Hv]. apply andb_prop in H as [H Hh]. apply andb_prop in H as [H Hp]. apply andb_prop in H as [Ho Hn].
    repeat split; auto. intros ->. rewrite N.eqb_refl in Hn. discriminate.
  Qed.

  Lemma vesting_tx_keeps : forall st vb rest sh,
    proofs (fst (vesting_tx st vb rest sh)) = proofs st /\ bal (fst (vesting_tx st vb rest sh)) = bal st /\
    supply (fst (vesting_tx st vb rest sh)) = supply st.
  Proof.
    intros. unfold vesting_tx. destruct (negb (accepted _ _ _ _)); [cbn; auto|].
    destruct (run_msgs_ok sh && fresh _ _); cbn; auto.
  Qed.

  Lemma ica_packet_keeps : forall st p ok l,
    proofs (ica_packet st p ok l) = proofs st /\ bal (ica_packet st p ok l) = bal st /\ supply (ica_packet st p ok l) = supply st.
  Proof. intros. unfold ica_packet. destruct (fresh _ _); cbn; auto. Qed.

  Lemma submit_msg_cases : forall st sub acc g st' r,
    submit_msg st sub acc g = (st', r) ->
    match r with
    | SOk =>
        s_lower g = true /\ proofs st acc = None /\ COST <= bal st sub /\
        proofs st' = upd (proofs st) acc (Some g) /\ bal st' = upd (bal st) sub (bal st sub - COST) /\
        supply st' = supply st - COST /\ vested st' = vested st /\ acct st' = acct st
    | _ => st' = st
    end.
  Proof.
    intros st sub acc g st' r. unfold submit_msg, has.
    destruct (proofs st acc) eqn:Hp; [intros H; inversion H; reflexivity|].
    destruct (bal st sub <? COST) eqn:Hc; [intros H; inversion H; reflexivity|].
    apply Z.ltb_ge in Hc.
    destruct (s_lower g) eqn:Hl; cbn [negb]; intros H; inversion H; subst; cbn [proofs bal supply vested acct]; auto 10.
  Qed.

  Lemma step_proofs : forall st o a g,
    proofs (fst (step st o)) a = Some g ->
    proofs st a = Some g \/ (proofs st a = None /\ verifies a (s_bytes g) = true /\ s_lower g = true /\ s_prefix g = true /\ s_hex_ok g = true).
  Proof.
    intros st o a g. destruct o; cbn [Vauth.step].
    - destruct (submit_tx st nest payer sub acc acc_ok g0 txfee) as [st' r] eqn:Hs. cbn [fst].
      pose proof (submit_tx_cases _ _ _ _ _ _ _ _ _ _ Hs) as Hc. destruct r.
      + destruct Hc as (Hv & Hl & Hn & _ & _ & _ & Hp & _). rewrite Hp. unfold upd.
        destruct (N.eqb a acc) eqn:E; [|auto]. apply N.eqb_eq in E. subst a.
        intros H. inversion H; subst g0. right. split; [exact Hn|].
        destruct (msg_valid_parts _ _ _ _ Hv) as (_ & _ & Hpre & Hh & Hver). auto.
      + subst st'. auto.
      + subst st'. auto.
      + subst st'. auto.
      + destruct Hc as (_ & Hp & _). rewrite Hp. auto.
      + destruct Hc as (_ & Hp & _). rewrite Hp. auto.
      + destruct Hc as (_ & Hp & _). rewrite Hp. auto.
      + destruct Hc as (_ & Hp & _). rewrite Hp. auto.
    - destruct (vesting_tx st vb rest sh) as [s b] eqn:E. cbn [fst].
      replace s with (fst (vesting_tx st vb rest sh)) by (rewrite E; reflexivity).
      destruct (vesting_tx_keeps st vb rest sh) as (-> & _). auto.
    - cbn [fst]. destruct (ica_packet_keeps st p signers_ok l) as (-> & _). auto.
    - destruct (msg_valid verifies sub acc acc_ok g0) eqn:Hv; [|cbn; auto].
      destruct (submit_msg st sub acc g0) as [st' r] eqn:Hs. cbn [fst].
      pose proof (submit_msg_cases _ _ _ _ _ _ Hs) as Hc. destruct r; try (subst st'; auto; fail).
      destruct Hc as (Hl & Hn & _ & Hp & _). rewrite Hp. unfold upd.
      destruct (N.eqb a acc) eqn:E; [|auto]. apply N.eqb_eq in E. subst a.
      intros H. inversion H; subst g0. right. split; [exact Hn|].
      destruct (msg_valid_parts _ _ _ _ Hv) as (_ & _ & Hpre & Hh & Hver). auto.
    - cbn. auto.
    - cbn. auto.
  Qed.

  Lemma proof_needs_signature_step : forall st o a g,
    proofs (fst (step st o)) a = Some g -> proofs st a = Some g \/ verifies a (s_bytes g) = true.
  Proof. intros st o a g H. destruct (step_proofs _ _ _ _ H) as [H1|(_ & H1 & _)]; auto. Qed.

  (* ---------------------------------------------------------------- finality *)

  Lemma proof_final_step : forall st o a g, proofs st a = Some g -> proofs (fst (step st o)) a = Some g.
  Proof.
    intros st o a g Hp. destruct o; cbn [Vauth.step]; try (cbn; exact Hp).
    - destruct (submit_tx st nest payer sub acc acc_ok g0 txfee) as [st' r] eqn:Hs. cbn [fst].
      pose proof (submit_tx_cases _ _ _ _ _ _ _ _ _ _ Hs) as Hc. destruct r.
      + destruct Hc as (_ & _ & Hn & _ & _ & _ & Hp' & _). rewrite Hp'. rewrite upd_other; [exact Hp|].
        intros ->. congruence.
      + subst st'. exact Hp.
      + subst st'. exact Hp.
      + subst st'. exact Hp.
      + destruct Hc as (_ & Hp' & _). rewrite Hp'. exact Hp.
      + destruct Hc as (_ & Hp' & _). rewrite Hp'. exact Hp.
      + destruct Hc as (_ & Hp' & _). rewrite Hp'. exact Hp.
      + destruct Hc as (_ & Hp' & _). rewrite Hp'. exact Hp.
    - destruct (vesting_tx st vb rest sh) as [s b] eqn:E. cbn [fst].
      replace s with (fst (vesting_tx st vb rest sh)) by (rewrite E; reflexivity).
      destruct (vesting_tx_keeps st vb rest sh) as (-> & _). exact Hp.
    - cbn [fst]. destruct (ica_packet_keeps st p signers_ok l) as (-> & _). exact Hp.
    - destruct (msg_valid verifies sub acc acc_ok g0) eqn:Hv; [|cbn; exact Hp].
      destruct (submit_msg st sub acc g0) as [st' r] eqn:Hs. cbn [fst].
      pose proof (submit_msg_cases _ _ _ _ _ _ Hs) as Hc. destruct r; try (subst st'; exact Hp).
      destruct Hc as (_ & Hn & _ & Hp' & _). rewrite Hp'. rewrite upd_other; [exact Hp|]. intros ->. congruence.
  Qed.

  Lemma proof_final : forall l st a g, proofs st a = Some g -> proofs (run st l) a = Some g.
  Proof.
    induction l as [|o l IH]; intros st a g Hp; cbn [Vauth.run]; [exact Hp|].
    apply IH. apply proof_final_step. exact Hp.
  Qed.

  Lemma proof_needs_signature : forall l st a g,
    proofs (run st l) a = Some g -> proofs st a = Some g \/ verifies a (s_bytes g) = true.
  Proof.
    induction l as [|o l IH]; intros st a g H; cbn [Vauth.run] in H; [auto|].
    destruct (IH _ _ _ H) as [H1|H1]; [|auto]. apply proof_needs_signature_step in H1. exact H1.
  Qed.

  (* a proven address can never be proved again: any later submission for it is refused, whatever the signature,
     the submitter, the payer and the nesting *)
  Lemma proven_never_again : forall st n p sub acc ok g fee,
    has st acc = true -> snd (submit_tx st n p sub acc ok g fee) <> SOk.
  Proof.
    intros st n p sub acc ok g fee Hh. destruct (submit_tx st n p sub acc ok g fee) as [st' r] eqn:Hs. cbn [snd].
    pose proof (submit_tx_cases _ _ _ _ _ _ _ _ _ _ Hs) as Hc. intros ->. destruct Hc as (_ & _ & Hn & _).
    unfold has in Hh. rewrite Hn in Hh. discriminate.
  Qed.

  (* over any history: once proven, every later submission for the address fails and the stored proof stays as it is *)
  Lemma proven_never_again_history : forall l st n p sub acc ok g fee s,
    proofs st acc = Some s ->
    snd (submit_tx (run st l) n p sub acc ok g fee) <> SOk /\ proofs (run st l) acc = Some s.
  Proof.
    intros l st n p sub acc ok g fee s Hp. pose proof (proof_final l st acc s Hp) as Hf. split; [|exact Hf].
    apply proven_never_again. unfold has. rewrite Hf. reflexivity.
  Qed.

  (* ---------------------------------------------------------------- cost *)

  Definition paid (who payer : addr) (fee : Z) : Z := if N.eqb who payer then fee else 0.

  Lemma cost_exact_burnt : forall st n p sub acc ok g fee st',
    submit_tx st n p sub acc ok g fee = (st', SOk) ->
    bal st' sub = bal st sub - COST - paid sub p fee /\
    bal st' p = bal st p - fee - paid p sub COST /\
    (forall x, x <> sub -> x <> p -> bal st' x = bal st x) /\
    supply st' = supply st - COST /\
    proofs st' acc = Some g /\ (forall x, x <> acc -> proofs st' x = proofs st x) /\
    proofs st acc = None /\ verifies acc (s_bytes g) = true /\ sub <> acc /\
    COST + paid sub p fee <= bal st sub /\ fee <= bal st p.
  Proof.
    intros st n p sub acc ok g fee st' Hs. pose proof (submit_tx_cases _ _ _ _ _ _ _ _ _ _ Hs) as Hc. cbn beta iota in Hc.
    destruct Hc as (Hv & _ & Hn & Hfee & Hcost & _ & Hp & Hbal & Hsup & _).
    destruct (msg_valid_parts _ _ _ _ Hv) as (_ & Hne & _ & _ & Hver).
    unfold fee_taken in *. rewrite Hbal, Hp. unfold paid.
    assert (Hsubb : upd (bal st) p (bal st p - fee) sub = bal st sub - (if N.eqb sub p then fee else 0)).
    { unfold upd. destruct (N.eqb sub p) eqn:E; [apply N.eqb_eq in E; subst; reflexivity|lia]. }
    repeat split; auto.
    - rewrite upd_same. rewrite Hsubb. lia.
    - unfold upd at 1. destruct (N.eqb p sub) eqn:E.
      + apply N.eqb_eq in E. subst p. rewrite upd_same. lia.
      + rewrite upd_same. lia.
    - intros x Hx Hxp. rewrite !upd_other; auto.
    - apply upd_same.
    - intros x Hx. apply upd_other; exact Hx.
    - rewrite Hsubb in Hcost. lia.
  Qed.

  Definition ante_passed (r : sres) : bool := match r with SRejBasic | SRejAnte | SRejDepth => false | _ => true end.

  Lemma rejected_submission_inert : forall st n p sub acc ok g fee st' r,
    submit_tx st n p sub acc ok g fee = (st', r) -> r <> SOk ->
    (forall x, proofs st' x = proofs st x) /\ supply st' = supply st /\ vested st' = vested st /\
    (forall x, x <> p -> bal st' x = bal st x) /\
    bal st' p = bal st p - (if ante_passed r then fee else 0).
  Proof.
    intros st n p sub acc ok g fee st' r Hs Hr. pose proof (submit_tx_cases _ _ _ _ _ _ _ _ _ _ Hs) as Hc.
    unfold fee_taken in Hc.
    destruct r; try congruence; cbn [ante_passed];
      try (subst st'; repeat split; auto; lia);
      (destruct Hc as (_ & Hp & Hb & Hsup & Hv & _); rewrite Hp, Hb; repeat split; auto;
       [intros x Hx; apply upd_other; auto | apply upd_same]).
  Qed.

  (* a submission carried by an ICA packet that does not succeed changes nothing at all (no fee on that route) *)
  Lemma rejected_ica_submission_inert : forall st sub acc ok g,
    snd (step st (OIcaSubmit sub acc ok g)) <> RSubmit SOk -> fst (step st (OIcaSubmit sub acc ok g)) = st.
  Proof.
    intros st sub acc ok g. cbn [Vauth.step].
    destruct (msg_valid verifies sub acc ok g); [|reflexivity].
    destruct (submit_msg st sub acc g) as [st' r] eqn:Hs. cbn [fst snd].
    pose proof (submit_msg_cases _ _ _ _ _ _ Hs) as Hc. destruct r; try (intros _; exact Hc). intros H. congruence.
  Qed.

  (* ... and one that succeeds costs the interchain account exactly COST, burnt *)
  Lemma ica_submission_cost : forall st sub acc ok g,
    snd (step st (OIcaSubmit sub acc ok g)) = RSubmit SOk ->
    let st' := fst (step st (OIcaSubmit sub acc ok g)) in
    bal st' sub = bal st sub - COST /\ (forall x, x <> sub -> bal st' x = bal st x) /\ supply st' = supply st - COST /\
    proofs st' acc = Some g /\ proofs st acc = None /\ verifies acc (s_bytes g) = true /\ COST <= bal st sub.
  Proof.
    intros st sub acc ok g. cbn [Vauth.step].
    destruct (msg_valid verifies sub acc ok g) eqn:Hv; [|cbn; discriminate].
    destruct (submit_msg st sub acc g) as [st' r] eqn:Hs. cbn [fst snd]. intros Hr. inversion Hr; subst r.
    pose proof (submit_msg_cases _ _ _ _ _ _ Hs) as Hc. cbn beta iota in Hc.
    destruct Hc as (_ & Hn & Hcost & Hp & Hb & Hsup & _). rewrite Hp, Hb.
    repeat split; auto.
    - apply upd_same.
    - intros x Hx. apply upd_other; exact Hx.
    - apply upd_same.
    - eapply msg_valid_verifies; eauto.
  Qed.

  (* ---------------------------------------------------------------- vesting needs a proof *)

  Lemma in_targets : forall l a, In a (targets l) -> exists r k, In (r, MVesting k a) l.
  Proof.
    induction l as [|[r m] l IH]; intros a H; [contradiction|].
    destruct m; cbn [targets] in H;
      try (destruct (IH a H) as (r' & k' & Hin); exists r', k'; right; exact Hin).
    destruct H as [->|H].
    - exists r, k. left. reflexivity.
    - destruct (IH a H) as (r' & k' & Hin). exists r', k'. right. exact Hin.
  Qed.

  Lemma memN_in : forall x l, memN x l = true -> In x l.
  Proof. intros x l H. unfold memN in H. apply existsb_exists in H as (y & Hy & E). apply N.eqb_eq in E. subst. exact Hy. Qed.

  Lemma in_memN : forall x l, In x l -> memN x l = true.
  Proof. intros x l H. unfold memN. apply existsb_exists. exists x. split; [exact H|apply N.eqb_refl]. Qed.

  Lemma default_has_vesting : forall k, memN (tid_vesting k) default_disabled = true.
  Proof. destruct k; reflexivity. Qed.

  (* one step that is not an ICA packet: a vesting account appears only where a proof ALREADY is *)
  Lemma vesting_needs_proof_step : forall st o a,
    is_ica o = false -> vested (fst (step st o)) a = true -> vested st a = true \/ has st a = true.
  Proof.
    intros st o a Hi. destruct o; cbn [Vauth.step]; try discriminate; try (cbn; auto; fail).
    - destruct (submit_tx st nest payer sub acc acc_ok g txfee) as [st' r] eqn:Hs. cbn [fst].
      pose proof (submit_tx_cases _ _ _ _ _ _ _ _ _ _ Hs) as Hc. destruct r;
        try (subst; auto; fail).
      + destruct Hc as (_ & _ & _ & _ & _ & _ & _ & _ & _ & Hv & _). rewrite Hv. auto.
      + destruct Hc as (_ & _ & _ & _ & Hv & _). rewrite Hv. auto.
      + destruct Hc as (_ & _ & _ & _ & Hv & _). rewrite Hv. auto.
      + destruct Hc as (_ & _ & _ & _ & Hv & _). rewrite Hv. auto.
      + destruct Hc as (_ & _ & _ & _ & Hv & _). rewrite Hv. auto.
    - unfold vesting_tx.
      destruct (accepted default_disabled MDeliver (env_at st vb rest) sh) eqn:Hacc; cbn [negb fst vested]; [|auto].
      destruct (run_msgs_ok sh && fresh _ _); cbn [fst vested]; [|auto].
      unfold mark. intros H. apply orb_prop in H as [H|H]; [auto|]. right.
      apply memN_in in H. apply in_targets in H as (r & k & Hin).
      destruct (vesting_handler_needs_proof default_disabled (env_at st vb rest) sh r k a default_has_vesting Hin) as [_ Hp].
      exact Hp.
    - destruct (msg_valid verifies sub acc acc_ok g) eqn:Hv; [|cbn; auto].
      destruct (submit_msg st sub acc g) as [st' r] eqn:Hs. cbn [fst].
      pose proof (submit_msg_cases _ _ _ _ _ _ Hs) as Hc. destruct r; try (subst st'; auto; fail).
      destruct Hc as (_ & _ & _ & _ & _ & _ & Hve & _). rewrite Hve. auto.
  Qed.

  Definition inv (st : vstate) : Prop := forall a, vested st a = true -> has st a = true.

  Lemma has_final_step : forall st o a, has st a = true -> has (fst (step st o)) a = true.
  Proof.
    intros st o a H. unfold has in *. destruct (proofs st a) eqn:Hp; [|discriminate].
    rewrite (proof_final_step st o a s Hp). reflexivity.
  Qed.

  Lemma vesting_needs_proof : forall l st,
    Forall (fun o => is_ica o = false) l -> inv st -> inv (run st l).
  Proof.
    induction l as [|o l IH]; intros st Hf Hinv; cbn [Vauth.run]; [exact Hinv|].
    inversion Hf; subst. apply IH; [assumption|].
    intros a Hv. destruct (vesting_needs_proof_step st o a H1 Hv) as [H|H].
    - apply has_final_step. apply Hinv. exact H.
    - apply has_final_step. exact H.
  Qed.

  (* a vesting-creation transaction for a target without a proof is refused by the ante handler (nothing executes),
     wherever the message sits: top level beside anything, or nested in MsgExec at any depth *)
  Lemma unproven_target_rejected : forall st vb rest sh r k a,
    has st a = false ->
    In (r, MVesting k a) (map (pair TopLevel) (msgs sh) ++ map (pair InAuthzExec) (nested_all (msgs sh))) ->
    vesting_tx st vb rest sh = (st, VAnteRej).
  Proof.
    intros st vb rest sh r k a Hn Hin. unfold vesting_tx.
    destruct (accepted default_disabled MDeliver (env_at st vb rest) sh) eqn:Hacc; cbn [negb]; [|reflexivity].
    exfalso.
    assert (Hex : In (r, MVesting k a) (executed_tx default_disabled (env_at st vb rest) sh)).
    { unfold executed_tx. rewrite Hacc. exact Hin. }
    destruct (vesting_handler_needs_proof default_disabled (env_at st vb rest) sh r k a default_has_vesting Hex) as [_ Hp].
    cbn in Hp. rewrite Hn in Hp. discriminate.
  Qed.

  (* in EVERY mode (CheckTx, ReCheckTx, simulation, delivery): a transaction the ante handler accepts carries vesting-creation
     messages only at top level and only for targets with a stored proof *)
  Lemma any_mode_needs_proof : forall m st vb rest sh d k a,
    accepted default_disabled m (env_at st vb rest) sh = true ->
    occurs d (MVesting k a) (msgs sh) -> d = 0%nat /\ has st a = true.
  Proof.
    intros m st vb rest sh d k a Hacc Hocc.
    destruct (has_single_eth (msgs sh)) eqn:Hl.
    - exfalso. apply has_single_eth_iff in Hl as [q Hq]. rewrite Hq in Hocc.
      inversion Hocc; subst.
      + destruct H as [H|[]]. discriminate.
      + destruct H as [H|[]]. discriminate.
    - destruct (cosmos_no_disabled_any_depth _ _ _ _ _ _ Hacc Hl Hocc) as (_ & _ & _ & Hdis & _ & Hv).
      destruct d as [|d].
      + split; [reflexivity|]. exact (Hv eq_refl k a eq_refl).
      + exfalso. assert (Hm : memN (tid (MVesting k a)) default_disabled = false) by (apply Hdis; auto; lia).
        cbn [tid] in Hm. rewrite default_has_vesting in Hm. discriminate.
  Qed.

  (* ICA packets break it *)
  Lemma ica_creates_without_proof : forall st k a,
    acct st a = false ->
    vested (fst (step st (OIcaPacket ica_default true [MVesting k a]))) a = true.
  Proof.
    intros st k a Hf. cbn. unfold ica_packet. cbn. rewrite Hf. cbn. unfold mark. cbn. rewrite N.eqb_refl. apply orb_true_r.
  Qed.

  (* ---------------------------------------------------------------- supply over a history *)

  (* number of successful submissions / net amount minted by other modules along a history *)
  Fixpoint n_ok (st : vstate) (l : list vop) : Z :=
    match l with
    | [] => 0
    | o :: r => (match snd (step st o) with RSubmit SOk => 1 | _ => 0 end) + n_ok (fst (step st o)) r
    end.

  Fixpoint minted (l : list vop) : Z :=
    match l with
    | [] => 0
    | OMint _ amt :: r => amt + minted r
    | _ :: r => minted r
    end.

  Lemma step_supply : forall st o,
    supply (fst (step st o)) =
    supply st - COST * (match snd (step st o) with RSubmit SOk => 1 | _ => 0 end) + (match o with OMint _ amt => amt | _ => 0 end).
  Proof.
    intros st o. destruct o; cbn [Vauth.step].
    - destruct (submit_tx st nest payer sub acc acc_ok g txfee) as [st' r] eqn:Hs. cbn [fst snd].
      pose proof (submit_tx_cases _ _ _ _ _ _ _ _ _ _ Hs) as Hc. destruct r; try (subst st'; lia).
      + destruct Hc as (_ & _ & _ & _ & _ & _ & _ & _ & Hsup & _). lia.
      + destruct Hc as (_ & _ & _ & Hsup & _). lia.
      + destruct Hc as (_ & _ & _ & Hsup & _). lia.
      + destruct Hc as (_ & _ & _ & Hsup & _). lia.
      + destruct Hc as (_ & _ & _ & Hsup & _). lia.
    - destruct (vesting_tx st vb rest sh) as [s b] eqn:E. cbn [fst snd].
      replace s with (fst (vesting_tx st vb rest sh)) by (rewrite E; reflexivity).
      destruct (vesting_tx_keeps st vb rest sh) as (_ & _ & ->). lia.
    - cbn [fst snd]. destruct (ica_packet_keeps st p signers_ok l) as (_ & _ & ->). lia.
    - destruct (msg_valid verifies sub acc acc_ok g) eqn:Hv; [|cbn; lia].
      destruct (submit_msg st sub acc g) as [st' r] eqn:Hs. cbn [fst snd].
      pose proof (submit_msg_cases _ _ _ _ _ _ Hs) as Hc. destruct r; try (subst st'; lia).
      destruct Hc as (_ & _ & _ & _ & _ & Hsup & _). lia.
    - cbn. lia.
    - cbn. lia.
  Qed.

  (* the only thing the module ever does to the supply: burn exactly COST per stored proof *)
  Lemma supply_history : forall l st, supply (run st l) = supply st - COST * n_ok st l + minted l.
  Proof.
    induction l as [|o l IH]; intros st; cbn [Vauth.run n_ok minted]; [lia|].
    rewrite IH, step_supply. destruct o; lia.
  Qed.
End VauthProofs.
