(* Proofs about x/vauth and the vesting-creation routes (Model/Vauth.v). *)
From Evm Require Import Lane LaneProofs Vauth.
From Coq Require Import Lia.
Open Scope Z_scope.

Section VauthProofs.
  Variable verifies : addr -> N -> bool.

  Notation submit_tx := (submit_tx verifies).
  Notation step := (step verifies).
  Notation run := (run verifies).

  Lemma upd_same : forall A (f : addr -> A) a v, upd f a v a = v.
  Proof. intros. unfold upd. rewrite N.eqb_refl. reflexivity. Qed.

  Lemma upd_other : forall A (f : addr -> A) a v x, x <> a -> upd f a v x = f x.
  Proof. intros. unfold upd. destruct (N.eqb x a) eqn:E; [apply N.eqb_eq in E; contradiction|reflexivity]. Qed.

  (* ---------------------------------------------------------------- one submission, all cases *)

  (* everything submit_tx can do, in one statement *)
  Lemma submit_tx_cases : forall st sub acc ok g fee st' r,
    submit_tx st sub acc ok g fee = (st', r) ->
    match r with
    | SOk =>
        msg_valid verifies sub acc ok g = true /\ s_lower g = true /\ proofs st acc = None /\
        fee + COST <= bal st sub /\
        proofs st' = upd (proofs st) acc (Some g) /\
        bal st' = upd (upd (bal st) sub (bal st sub - fee)) sub (bal st sub - fee - COST) /\
        supply st' = supply st - COST /\ vested st' = vested st
    | SRejBasic | SRejAnte => st' = st
    | SRejConflict | SRejFunds | SPanicSave =>
        msg_valid verifies sub acc ok g = true /\
        proofs st' = proofs st /\ bal st' = upd (bal st) sub (bal st sub - fee) /\ supply st' = supply st /\ vested st' = vested st
    end.
  Proof.
    intros st sub acc ok g fee st' r. unfold Vauth.submit_tx.
    destruct (msg_valid verifies sub acc ok g) eqn:Hv; cbn [negb]; [|intros H; inversion H; reflexivity].
    destruct (bal st sub <? fee) eqn:Hfee; [intros H; inversion H; reflexivity|].
    apply Z.ltb_ge in Hfee. unfold submit_msg, has. cbn [proofs bal supply vested].
    destruct (proofs st acc) eqn:Hp; [intros H; inversion H; subst; cbn; auto|].
    rewrite upd_same.
    destruct (bal st sub - fee <? COST) eqn:Hc; [intros H; inversion H; subst; cbn; auto|].
    apply Z.ltb_ge in Hc.
    destruct (s_lower g) eqn:Hl; cbn [negb]; intros H; inversion H; subst; cbn [proofs bal supply vested].
    - repeat split; auto. lia.
    - auto.
  Qed.

  (* ---------------------------------------------------------------- proofs need a signature *)

  Lemma msg_valid_verifies : forall sub acc ok g, msg_valid verifies sub acc ok g = true -> verifies acc (s_bytes g) = true.
  Proof. intros sub acc ok g H. unfold msg_valid in H. apply andb_prop in H as [_ H]. exact H. Qed.

  Lemma step_proofs : forall st o a g,
    proofs (fst (step st o)) a = Some g ->
    proofs st a = Some g \/ (proofs st a = None /\ verifies a (s_bytes g) = true /\ s_lower g = true /\ s_prefix g = true /\ s_hex_ok g = true).
  Proof.
    intros st o a g. destruct o; cbn [Vauth.step].
    - destruct (submit_tx st sub acc acc_ok g0 txfee) as [st' r] eqn:Hs. cbn [fst].
      pose proof (submit_tx_cases _ _ _ _ _ _ _ _ Hs) as Hc. destruct r.
      + destruct Hc as (Hv & Hl & Hn & _ & Hp & _). rewrite Hp. unfold upd.
        destruct (N.eqb a acc) eqn:E; [|auto]. apply N.eqb_eq in E. subst a.
        intros H. inversion H; subst g0. right. split; [exact Hn|]. split; [eapply msg_valid_verifies; eauto|].
        split; [exact Hl|]. unfold msg_valid in Hv.
        apply andb_prop in Hv as [Hv _]. apply andb_prop in Hv as [Hv Hh]. apply andb_prop in Hv as [_ Hpre]. auto.
      + subst st'. auto.
      + subst st'. auto.
      + destruct Hc as (_ & Hp & _). rewrite Hp. auto.
      + destruct Hc as (_ & Hp & _). rewrite Hp. auto.
      + destruct Hc as (_ & Hp & _). rewrite Hp. auto.
    - unfold vesting_tx. destruct (accepted _ _ _ _ && run_msgs_ok sh); cbn; auto.
    - cbn. auto.
    - cbn. auto.
    - cbn. auto.
  Qed.

  Lemma proof_needs_signature_step : forall st o a g,
    proofs (fst (step st o)) a = Some g -> proofs st a = Some g \/ verifies a (s_bytes g) = true.
  Proof. intros st o a g H. destruct (step_proofs _ _ _ _ H) as [H1|(_ & H1 & _)]; auto. Qed.

  (* ---------------------------------------------------------------- finality *)

  Lemma proof_final_step : forall st o a g, proofs st a = Some g -> proofs (fst (step st o)) a = Some g.
  Proof.
    intros st o a g Hp. destruct o; cbn [Vauth.step]; try (cbn; exact Hp).
    - destruct (submit_tx st sub acc acc_ok g0 txfee) as [st' r] eqn:Hs. cbn [fst].
      pose proof (submit_tx_cases _ _ _ _ _ _ _ _ Hs) as Hc. destruct r.
      + destruct Hc as (_ & _ & Hn & _ & Hp' & _). rewrite Hp'. rewrite upd_other; [exact Hp|].
        intros ->. congruence.
      + subst st'. exact Hp.
      + subst st'. exact Hp.
      + destruct Hc as (_ & Hp' & _). rewrite Hp'. exact Hp.
      + destruct Hc as (_ & Hp' & _). rewrite Hp'. exact Hp.
      + destruct Hc as (_ & Hp' & _). rewrite Hp'. exact Hp.
    - unfold vesting_tx. destruct (accepted _ _ _ _ && run_msgs_ok sh); cbn; exact Hp.
  Qed.

  Lemma proof_final : forall l st a g, proofs st a = Some g -> proofs (run st l) a = Some g.
  Proof.
    induction l as [|o l IH]; intros st a g Hp; cbn [Vauth.run]; [exact Hp|].
    apply IH. apply proof_final_step. exact Hp.
  Qed.

  Lemma proof_needs_signature : forall l st a g,
    proofs (run st l) a = Some g -> proofs st a = Some g \/ verifies a (s_bytes g) = true.
  Proof.
    induction l as [|o l IH]; intros st a g H; cbn [Vauth.run] in H; [auto|].
    destruct (IH _ _ _ H) as [H1|H1]; [|auto]. apply proof_needs_signature_step in H1. exact H1.
  Qed.

  (* a proven address can never be proved again: any later submission for it is refused, whatever the signature *)
  Lemma proven_never_again : forall st sub acc ok g fee,
    has st acc = true -> snd (submit_tx st sub acc ok g fee) <> SOk.
  Proof.
    intros st sub acc ok g fee Hh. destruct (submit_tx st sub acc ok g fee) as [st' r] eqn:Hs. cbn [snd].
    pose proof (submit_tx_cases _ _ _ _ _ _ _ _ Hs) as Hc. intros ->. destruct Hc as (_ & _ & Hn & _).
    unfold has in Hh. rewrite Hn in Hh. discriminate.
  Qed.

  (* ---------------------------------------------------------------- cost *)

  Lemma cost_exact_burnt : forall st sub acc ok g fee st',
    submit_tx st sub acc ok g fee = (st', SOk) ->
    bal st' sub = bal st sub - fee - COST /\
    (forall x, x <> sub -> bal st' x = bal st x) /\
    supply st' = supply st - COST /\
    proofs st' acc = Some g /\ (forall x, x <> acc -> proofs st' x = proofs st x) /\
    proofs st acc = None /\ verifies acc (s_bytes g) = true /\ fee + COST <= bal st sub.
  Proof.
    intros st sub acc ok g fee st' Hs. pose proof (submit_tx_cases _ _ _ _ _ _ _ _ Hs) as Hc. cbn in Hc.
    destruct Hc as (Hv & _ & Hn & Hb & Hp & Hbal & Hsup & _).
    rewrite Hbal, Hp. repeat split; auto.
    - apply upd_same.
    - intros x Hx. rewrite !upd_other; auto.
    - apply upd_same.
    - intros x Hx. apply upd_other; exact Hx.
    - eapply msg_valid_verifies; eauto.
  Qed.

  Definition ante_passed (r : sres) : bool := match r with SRejBasic | SRejAnte => false | _ => true end.

  Lemma rejected_submission_inert : forall st sub acc ok g fee st' r,
    submit_tx st sub acc ok g fee = (st', r) -> r <> SOk ->
    (forall x, proofs st' x = proofs st x) /\ supply st' = supply st /\ vested st' = vested st /\
    (forall x, x <> sub -> bal st' x = bal st x) /\
    bal st' sub = bal st sub - (if ante_passed r then fee else 0).
  Proof.
    intros st sub acc ok g fee st' r Hs Hr. pose proof (submit_tx_cases _ _ _ _ _ _ _ _ Hs) as Hc.
    destruct r; try congruence; cbn [ante_passed].
    - subst st'. repeat split; auto. lia.
    - subst st'. repeat split; auto. lia.
    - destruct Hc as (_ & Hp & Hb & Hsup & Hv). rewrite Hp, Hb. repeat split; auto. intros x Hx. apply upd_other; auto. apply upd_same.
    - destruct Hc as (_ & Hp & Hb & Hsup & Hv). rewrite Hp, Hb. repeat split; auto. intros x Hx. apply upd_other; auto. apply upd_same.
    - destruct Hc as (_ & Hp & Hb & Hsup & Hv). rewrite Hp, Hb. repeat split; auto. intros x Hx. apply upd_other; auto. apply upd_same.
  Qed.

  (* ---------------------------------------------------------------- vesting needs a proof *)

  Lemma in_targets : forall l a, In a (targets l) -> exists r k, In (r, MVesting k a) l.
  Proof.
    induction l as [|[r m] l IH]; intros a H; [contradiction|].
    destruct m; cbn [targets] in H;
      try (destruct (IH a H) as (r' & k' & Hin); exists r', k'; right; exact Hin).
    destruct H as [->|H].
    - exists r, k. left. reflexivity.
    - destruct (IH a H) as (r' & k' & Hin). exists r', k'. right. exact Hin.
  Qed.

  Lemma memN_in : forall x l, memN x l = true -> In x l.
  Proof. intros x l H. unfold memN in H. apply existsb_exists in H as (y & Hy & E). apply N.eqb_eq in E. subst. exact Hy. Qed.

  Lemma default_has_vesting : forall k, memN (tid_vesting k) default_disabled = true.
  Proof. destruct k; reflexivity. Qed.

  (* one step that is not an ICA packet: a vesting account appears only where a proof ALREADY is *)
  Lemma vesting_needs_proof_step : forall st o a,
    is_ica o = false -> vested (fst (step st o)) a = true -> vested st a = true \/ has st a = true.
  Proof.
    intros st o a Hi. destruct o; cbn [Vauth.step]; try discriminate; try (cbn; auto; fail).
    - destruct (submit_tx st sub acc acc_ok g txfee) as [st' r] eqn:Hs. cbn [fst].
      pose proof (submit_tx_cases _ _ _ _ _ _ _ _ Hs) as Hc. destruct r.
      + destruct Hc as (_ & _ & _ & _ & _ & _ & _ & Hv). rewrite Hv. auto.
      + subst; auto.
      + subst; auto.
      + destruct Hc as (_ & _ & _ & _ & Hv). rewrite Hv. auto.
      + destruct Hc as (_ & _ & _ & _ & Hv). rewrite Hv. auto.
      + destruct Hc as (_ & _ & _ & _ & Hv). rewrite Hv. auto.
    - unfold vesting_tx.
      destruct (accepted default_disabled MDeliver (env_at st vb rest) sh && run_msgs_ok sh) eqn:Hacc; cbn [fst vested]; [|auto].
      unfold mark. intros H. apply orb_prop in H as [H|H]; [auto|]. right.
      apply memN_in in H. apply in_targets in H as (r & k & Hin).
      destruct (vesting_handler_needs_proof default_disabled (env_at st vb rest) sh r k a default_has_vesting Hin) as [_ Hp].
      exact Hp.
  Qed.

  Definition inv (st : vstate) : Prop := forall a, vested st a = true -> has st a = true.

  Lemma has_final_step : forall st o a, has st a = true -> has (fst (step st o)) a = true.
  Proof.
    intros st o a H. unfold has in *. destruct (proofs st a) eqn:Hp; [|discriminate].
    rewrite (proof_final_step st o a s Hp). reflexivity.
  Qed.

  Lemma vesting_needs_proof : forall l st,
    Forall (fun o => is_ica o = false) l -> inv st -> inv (run st l).
  Proof.
    induction l as [|o l IH]; intros st Hf Hinv; cbn [Vauth.run]; [exact Hinv|].
    inversion Hf; subst. apply IH; [assumption|].
    intros a Hv. destruct (vesting_needs_proof_step st o a H1 Hv) as [H|H].
    - apply has_final_step. apply Hinv. exact H.
    - apply has_final_step. exact H.
  Qed.

  (* ICA packets break it *)
  Lemma ica_creates_without_proof : forall st k a,
    vested (fst (step st (OIcaPacket ica_default true [MVesting k a]))) a = true.
  Proof. intros st k a. cbn. unfold mark. cbn. rewrite N.eqb_refl. apply orb_true_r. Qed.
End VauthProofs.
