(* Generic facts about Model/Conc.v: the lock-state/program-counter invariant of sync.RWMutex,
   mutual exclusion, absence of lock-wait cycles under a lock order, progress of lock holders. *)
From Evm Require Import Conc.
From Coq Require Import Lia Relations.

Lemma nth_error_upd_eq {A} (l : list A) i p q :
  nth_error l i = Some q -> nth_error (upd l i p) i = Some p.
Proof.
  revert i; induction l as [|h t IH]; intros [|i] H; cbn in *; try discriminate; auto.
Qed.

Lemma nth_error_upd_neq {A} (l : list A) i j p :
  i <> j -> nth_error (upd l i p) j = nth_error l j.
Proof.
  revert i j; induction l as [|h t IH]; intros [|i] [|j] H; cbn; auto; try congruence.
Qed.

Lemma length_upd {A} (l : list A) i p : length (upd l i p) = length l.
Proof. revert i; induction l as [|h t IH]; intros [|i]; cbn; auto. Qed.

Lemma nth_error_upd_app {A} (l sp : list A) i k j q :
  nth_error l i = Some q ->
  nth_error (upd l i k ++ sp) j =
    if Nat.eqb j i then Some k
    else if Nat.ltb j (length l) then nth_error l j else nth_error sp (j - length l).
Proof.
  intros Hi.
  assert (Hlt : i < length l) by (apply nth_error_Some; congruence).
  destruct (Nat.eqb_spec j i) as [->|Hne].
  - rewrite nth_error_app1 by (rewrite length_upd; auto). eapply nth_error_upd_eq; eauto.
  - destruct (Nat.ltb_spec j (length l)).
    + rewrite nth_error_app1 by (rewrite length_upd; auto). apply nth_error_upd_neq; auto.
    + rewrite nth_error_app2 by (rewrite length_upd; auto). rewrite length_upd. reflexivity.
Qed.

Lemma remove1_In i l l' : remove1 i l = Some l' -> forall j, j <> i -> (In j l' <-> In j l).
Proof.
  revert l'; induction l as [|h t IH]; intros l' H j Hj; cbn in H; [discriminate|].
  destruct (Nat.eqb_spec h i) as [->|Hne].
  - inversion H; subst. cbn. intuition congruence.
  - destruct (remove1 i t) as [t'|] eqn:Er; cbn in H; [|discriminate].
    inversion H; subst. cbn. rewrite (IH t' eq_refl j Hj). reflexivity.
Qed.

Lemma remove1_some i l : In i l -> exists l', remove1 i l = Some l'.
Proof.
  induction l as [|h t IH]; intros H; [destruct H|]. cbn.
  destruct (Nat.eqb_spec h i) as [->|Hne]; [eauto|].
  destruct H as [H|H]; [congruence|]. destruct (IH H) as [t' ->]. cbn. eauto.
Qed.

Lemma remove1_nodup i l l' : NoDup l -> remove1 i l = Some l' -> NoDup l' /\ ~ In i l'.
Proof.
  revert l'; induction l as [|h t IH]; intros l' Hnd H; cbn in H; [discriminate|].
  inversion Hnd as [|? ? Hnh Hndt]; subst.
  destruct (Nat.eqb_spec h i) as [->|Hne].
  - inversion H; subst. auto.
  - destruct (remove1 i t) as [t'|] eqn:Er; cbn in H; [|discriminate].
    inversion H; subst. destruct (IH t' Hndt eq_refl) as [Hnd' Hni]. split.
    + constructor; auto. intros Hin. apply Hnh. apply (remove1_In i t t' Er h Hne). exact Hin.
    + cbn. intuition.
Qed.

Lemma nth_upd_app_cases {A} (l sp : list A) i k j q p :
  nth_error l i = Some p -> nth_error (upd l i k ++ sp) j = Some q ->
  (j = i /\ q = k) \/ (j <> i /\ nth_error l j = Some q) \/ In q sp.
Proof.
  intros Hp Hq. rewrite (nth_error_upd_app _ _ _ _ _ _ Hp) in Hq.
  destruct (Nat.eqb_spec j i) as [->|Hji]; [left; split; congruence|].
  destruct (Nat.ltb_spec j (length l)); [right; left; auto|].
  right; right. eapply nth_error_In; eauto.
Qed.

Lemma nth_app_one_cases {A} (l : list A) p j q :
  nth_error (l ++ [p]) j = Some q -> nth_error l j = Some q \/ q = p.
Proof.
  intros Hq. destruct (Nat.ltb_spec j (length l)).
  - rewrite nth_error_app1 in Hq by auto. auto.
  - rewrite nth_error_app2 in Hq by auto. right.
    destruct (j - length l) as [|n]; cbn in Hq; [|destruct n; discriminate]. congruence.
Qed.

Section ConcProofs.
  Variables PC D M E : Type.
  Variable M_eqb : M -> M -> bool.
  Hypothesis M_eqb_spec : forall a b, M_eqb a b = true <-> a = b.
  Variable code : PC -> instr PC D M E.
  Variable bad_unlock : E.
  Variable env : D -> D -> Prop.
  Variable client : PC -> Prop.
  (* which locks a thread at pc holds (instance-supplied annotation, checked against the code by wf_code) *)
  Variable holds : PC -> M -> option mode.

  Notation state := (state PC D M E).
  Notation tstep := (tstep PC D M E M_eqb code bad_unlock).
  Notation step := (step PC D M E M_eqb code bad_unlock env client).
  Notation waits_for := (waits_for PC D M E code).

  Definition lock_inv (s : state) : Prop :=
    (forall i p m, nth_error (thr s) i = Some p -> holds p m = Some MW -> wr (mux s m) = Some i) /\
    (forall i p m, nth_error (thr s) i = Some p -> holds p m = Some MR -> In i (rd (mux s m))) /\
    (forall m j, wr (mux s m) = Some j ->
        rd (mux s m) = [] /\ exists q, nth_error (thr s) j = Some q /\ holds q m = Some MW) /\
    (forall m j, In j (rd (mux s m)) -> exists q, nth_error (thr s) j = Some q /\ holds q m = Some MR) /\
    (forall m, NoDup (rd (mux s m))).

  (* the annotation agrees with the code: Lock/Unlock are matched, actions do not change what is held,
     started goroutines and finished goroutines hold nothing *)
  Definition wf_code : Prop := forall p,
    match code p with
    | Acq m md k => holds p m = None /\ holds k m = Some md /\ (forall m', m' <> m -> holds k m' = holds p m')
    | Rel m md k => holds p m = Some md /\ holds k m = None /\ (forall m', m' <> m -> holds k m' = holds p m')
    | Act g f => forall d, g d = true ->
        match f d with
        | (_, k, sp, _) => (forall m, holds k m = holds p m) /\ Forall (fun q => forall m, holds q m = None) sp
        end
    | Halt => forall m, holds p m = None
    end.
  Definition wf_client : Prop := forall p, client p -> forall m, holds p m = None.

  Hypothesis WF : wf_code.
  Hypothesis WFC : wf_client.

  Lemma setm_eq f m r : setm M M_eqb f m r m = r.
  Proof. unfold setm. assert (M_eqb m m = true) as -> by (apply M_eqb_spec; auto). reflexivity. Qed.
  Lemma setm_neq f m r m' : m' <> m -> setm M M_eqb f m r m' = f m'.
  Proof.
    intros H. unfold setm. destruct (M_eqb m' m) eqn:Eq; auto. apply M_eqb_spec in Eq. congruence.
  Qed.

  Lemma M_dec (a b : M) : a = b \/ a <> b.
  Proof.
    destruct (M_eqb a b) eqn:Eq.
    - left. apply M_eqb_spec; auto.
    - right. intros ->. assert (M_eqb b b = true) by (apply M_eqb_spec; auto). congruence.
  Qed.

  Inductive tstep_spec (s : state) (i : nat) : state -> Prop :=
  | ts_acq : forall p m md k r, nth_error (thr s) i = Some p -> code p = Acq m md k ->
      acquire (mux s m) md i = Some r ->
      tstep_spec s i (mkSt (dat s) (setm M M_eqb (mux s) m r) (upd (thr s) i k) None)
  | ts_rel : forall p m md k r, nth_error (thr s) i = Some p -> code p = Rel m md k ->
      release (mux s m) md i = Some r ->
      tstep_spec s i (mkSt (dat s) (setm M M_eqb (mux s) m r) (upd (thr s) i k) None)
  | ts_act : forall p g f d k sp e, nth_error (thr s) i = Some p -> code p = Act g f ->
      g (dat s) = true -> f (dat s) = (d, k, sp, e) ->
      tstep_spec s i (mkSt d (mux s) (upd (thr s) i k ++ sp) e).

  Lemma release_ok s i p m md k :
    lock_inv s -> nth_error (thr s) i = Some p -> code p = Rel m md k ->
    exists r, release (mux s m) md i = Some r.
  Proof.
    intros (HW & HR & _) Hp Hc. pose proof (WF p) as W. rewrite Hc in W. destruct W as (Hh & _).
    destruct md; cbn.
    - apply HR with (i := i) in Hh; auto. destruct (remove1_some _ _ Hh) as [l' ->]. cbn. eauto.
    - apply HW with (i := i) in Hh; auto. rewrite Hh. rewrite Nat.eqb_refl. eauto.
  Qed.

  (* under the lock invariant an Unlock never fails, and every move is one of three shapes *)
  Lemma tstep_inv s i s' : lock_inv s -> tstep s i = Some s' -> err s = None /\ tstep_spec s i s'.
  Proof.
    intros LI H. unfold Conc.tstep in H.
    destruct (err s) eqn:Ee; [discriminate|]. split; [reflexivity|].
    destruct (nth_error (thr s) i) as [p|] eqn:Ep; [|discriminate].
    destruct (code p) as [m md k|m md k|g f|] eqn:Ec.
    - destruct (acquire (mux s m) md i) as [r|] eqn:Ea; [|discriminate].
      inversion H; subst. eapply ts_acq; eauto.
    - destruct (release_ok s i p m md k LI Ep Ec) as [r Hr]. rewrite Hr in H.
      inversion H; subst. eapply ts_rel; eauto.
    - destruct (g (dat s)) eqn:Eg; [|discriminate].
      destruct (f (dat s)) as [[[d k] sp] e] eqn:Ef. inversion H; subst. eapply ts_act; eauto.
    - discriminate.
  Qed.

  Lemma lock_inv_tstep s i s' : lock_inv s -> tstep s i = Some s' -> lock_inv s'.
  Proof.
    intros LI H. destruct (tstep_inv s i s' LI H) as [_ Hs].
    destruct LI as (HW & HR & HCW & HCR & HND).
    destruct Hs as [p m md k r Hp Hc Ha | p m md k r Hp Hc Hr | p g f d k sp e Hp Hc Hg Hf].
    - (* acquire *)
      pose proof (WF p) as W. rewrite Hc in W. destruct W as (Hn & Hk & Ho).
      assert (Hi : i < length (thr s)) by (apply nth_error_Some; congruence).
      unfold lock_inv; cbn [thr mux].
      destruct md; cbn in Ha.
      + (* RLock *)
        destruct (wr (mux s m)) eqn:Ew; [discriminate|]. inversion Ha; subst r; clear Ha.
        repeat split.
        * intros j q m' Hq Hh. destruct (M_dec m' m) as [->|Hm].
          -- rewrite setm_eq. cbn. destruct (Nat.eq_dec j i) as [->|Hji].
             ++ rewrite (nth_error_upd_eq _ _ _ _ Hp) in Hq. inversion Hq; subst. congruence.
             ++ rewrite nth_error_upd_neq in Hq by auto. specialize (HW _ _ _ Hq Hh). congruence.
          -- rewrite setm_neq by auto. destruct (Nat.eq_dec j i) as [->|Hji].
             ++ rewrite (nth_error_upd_eq _ _ _ _ Hp) in Hq. inversion Hq; subst.
                rewrite Ho in Hh by auto. eapply HW; eauto.
             ++ rewrite nth_error_upd_neq in Hq by auto. eapply HW; eauto.
        * intros j q m' Hq Hh. destruct (M_dec m' m) as [->|Hm].
          -- rewrite setm_eq. cbn. destruct (Nat.eq_dec j i) as [->|Hji]; [auto|].
             rewrite nth_error_upd_neq in Hq by auto. right. eapply HR; eauto.
          -- rewrite setm_neq by auto. destruct (Nat.eq_dec j i) as [->|Hji].
             ++ rewrite (nth_error_upd_eq _ _ _ _ Hp) in Hq. inversion Hq; subst.
                rewrite Ho in Hh by auto. eapply HR; eauto.
             ++ rewrite nth_error_upd_neq in Hq by auto. eapply HR; eauto.
        * destruct (M_dec m0 m) as [->|Hm].
          -- rewrite setm_eq in H0. cbn in H0. discriminate.
          -- rewrite setm_neq in * by auto. apply (HCW _ _ H0).
        * destruct (M_dec m0 m) as [->|Hm].
          -- rewrite setm_eq in H0. cbn in H0. discriminate.
          -- rewrite setm_neq in * by auto. destruct (HCW _ _ H0) as (_ & q & Hq & Hh).
             destruct (Nat.eq_dec j i) as [->|Hji].
             ++ exists k. split; [eapply nth_error_upd_eq; eauto|]. rewrite Ho by auto. congruence.
             ++ exists q. split; [rewrite nth_error_upd_neq; auto|auto].
        * intros m' j Hin. destruct (M_dec m' m) as [->|Hm].
          -- rewrite setm_eq in Hin. cbn in Hin. destruct (Nat.eq_dec j i) as [->|Hji].
             ++ exists k. split; [eapply nth_error_upd_eq; eauto|auto].
             ++ destruct Hin as [Hin|Hin]; [congruence|]. destruct (HCR _ _ Hin) as (q & Hq & Hh).
                exists q. split; [rewrite nth_error_upd_neq; auto|auto].
          -- rewrite setm_neq in Hin by auto. destruct (HCR _ _ Hin) as (q & Hq & Hh).
             destruct (Nat.eq_dec j i) as [->|Hji].
             ++ exists k. split; [eapply nth_error_upd_eq; eauto|]. rewrite Ho by auto. congruence.
             ++ exists q. split; [rewrite nth_error_upd_neq; auto|auto].
        * intros m'. destruct (M_dec m' m) as [->|Hm].
          -- rewrite setm_eq. cbn. constructor; auto. intros Hin. destruct (HCR _ _ Hin) as (q & Hq & Hh).
             congruence.
          -- rewrite setm_neq by auto. auto.
      + (* Lock *)
        destruct (wr (mux s m)) eqn:Ew; [discriminate|]. destruct (rd (mux s m)) eqn:Erd; [|discriminate].
        inversion Ha; subst r; clear Ha.
        repeat split.
        * intros j q m' Hq Hh. destruct (M_dec m' m) as [->|Hm].
          -- rewrite setm_eq. cbn. destruct (Nat.eq_dec j i) as [->|Hji]; [auto|].
             rewrite nth_error_upd_neq in Hq by auto. specialize (HW _ _ _ Hq Hh). congruence.
          -- rewrite setm_neq by auto. destruct (Nat.eq_dec j i) as [->|Hji].
             ++ rewrite (nth_error_upd_eq _ _ _ _ Hp) in Hq. inversion Hq; subst.
                rewrite Ho in Hh by auto. eapply HW; eauto.
             ++ rewrite nth_error_upd_neq in Hq by auto. eapply HW; eauto.
        * intros j q m' Hq Hh. destruct (M_dec m' m) as [->|Hm].
          -- rewrite setm_eq. cbn. destruct (Nat.eq_dec j i) as [->|Hji].
             ++ rewrite (nth_error_upd_eq _ _ _ _ Hp) in Hq. inversion Hq; subst. congruence.
             ++ rewrite nth_error_upd_neq in Hq by auto. specialize (HR _ _ _ Hq Hh).
                rewrite Erd in HR. destruct HR.
          -- rewrite setm_neq by auto. destruct (Nat.eq_dec j i) as [->|Hji].
             ++ rewrite (nth_error_upd_eq _ _ _ _ Hp) in Hq. inversion Hq; subst.
                rewrite Ho in Hh by auto. eapply HR; eauto.
             ++ rewrite nth_error_upd_neq in Hq by auto. eapply HR; eauto.
        * destruct (M_dec m0 m) as [->|Hm].
          -- rewrite setm_eq. reflexivity.
          -- rewrite setm_neq in * by auto. apply (HCW _ _ H0).
        * destruct (M_dec m0 m) as [->|Hm].
          -- rewrite setm_eq in H0. cbn in H0. inversion H0; subst.
             exists k. split; [eapply nth_error_upd_eq; eauto|auto].
          -- rewrite setm_neq in * by auto. destruct (HCW _ _ H0) as (_ & q & Hq & Hh).
             destruct (Nat.eq_dec j i) as [->|Hji].
             ++ exists k. split; [eapply nth_error_upd_eq; eauto|]. rewrite Ho by auto. congruence.
             ++ exists q. split; [rewrite nth_error_upd_neq; auto|auto].
        * intros m' j Hin. destruct (M_dec m' m) as [->|Hm].
          -- rewrite setm_eq in Hin. cbn in Hin. destruct Hin.
          -- rewrite setm_neq in Hin by auto. destruct (HCR _ _ Hin) as (q & Hq & Hh).
             destruct (Nat.eq_dec j i) as [->|Hji].
             ++ exists k. split; [eapply nth_error_upd_eq; eauto|]. rewrite Ho by auto. congruence.
             ++ exists q. split; [rewrite nth_error_upd_neq; auto|auto].
        * intros m'. destruct (M_dec m' m) as [->|Hm].
          -- rewrite setm_eq. cbn. constructor.
          -- rewrite setm_neq by auto. auto.
    - (* release *)
      pose proof (WF p) as W. rewrite Hc in W. destruct W as (Hh0 & Hk & Ho).
      unfold lock_inv; cbn [thr mux].
      destruct md; cbn in Hr.
      + (* RUnlock *)
        destruct (remove1 i (rd (mux s m))) as [l'|] eqn:Er; cbn in Hr; [|discriminate].
        inversion Hr; subst r; clear Hr.
        assert (Hin_i : In i (rd (mux s m))) by (eapply HR; eauto).
        assert (Hwn : wr (mux s m) = None).
        { destruct (wr (mux s m)) eqn:Ew; auto. destruct (HCW _ _ Ew) as (He & _). rewrite He in Hin_i. destruct Hin_i. }
        destruct (remove1_nodup _ _ _ (HND m) Er) as [Hnd' Hni].
        repeat split.
        * intros j q m' Hq Hh. destruct (M_dec m' m) as [->|Hm].
          -- rewrite setm_eq. cbn. destruct (Nat.eq_dec j i) as [->|Hji].
             ++ rewrite (nth_error_upd_eq _ _ _ _ Hp) in Hq. inversion Hq; subst. congruence.
             ++ rewrite nth_error_upd_neq in Hq by auto. specialize (HW _ _ _ Hq Hh). congruence.
          -- rewrite setm_neq by auto. destruct (Nat.eq_dec j i) as [->|Hji].
             ++ rewrite (nth_error_upd_eq _ _ _ _ Hp) in Hq. inversion Hq; subst.
                rewrite Ho in Hh by auto. eapply HW; eauto.
             ++ rewrite nth_error_upd_neq in Hq by auto. eapply HW; eauto.
        * intros j q m' Hq Hh. destruct (M_dec m' m) as [->|Hm].
          -- rewrite setm_eq. cbn. destruct (Nat.eq_dec j i) as [->|Hji].
             ++ rewrite (nth_error_upd_eq _ _ _ _ Hp) in Hq. inversion Hq; subst. congruence.
             ++ rewrite nth_error_upd_neq in Hq by auto. apply (remove1_In _ _ _ Er j Hji). eapply HR; eauto.
          -- rewrite setm_neq by auto. destruct (Nat.eq_dec j i) as [->|Hji].
             ++ rewrite (nth_error_upd_eq _ _ _ _ Hp) in Hq. inversion Hq; subst.
                rewrite Ho in Hh by auto. eapply HR; eauto.
             ++ rewrite nth_error_upd_neq in Hq by auto. eapply HR; eauto.
        * destruct (M_dec m0 m) as [->|Hm].
          -- rewrite setm_eq in H0. cbn in H0. congruence.
          -- rewrite setm_neq in * by auto. apply (HCW _ _ H0).
        * destruct (M_dec m0 m) as [->|Hm].
          -- rewrite setm_eq in H0. cbn in H0. congruence.
          -- rewrite setm_neq in * by auto. destruct (HCW _ _ H0) as (_ & q & Hq & Hh).
             destruct (Nat.eq_dec j i) as [->|Hji].
             ++ exists k. split; [eapply nth_error_upd_eq; eauto|]. rewrite Ho by auto. congruence.
             ++ exists q. split; [rewrite nth_error_upd_neq; auto|auto].
        * intros m' j Hin. destruct (M_dec m' m) as [->|Hm].
          -- rewrite setm_eq in Hin. cbn in Hin. destruct (Nat.eq_dec j i) as [->|Hji]; [contradiction|].
             apply (remove1_In _ _ _ Er j Hji) in Hin. destruct (HCR _ _ Hin) as (q & Hq & Hh).
             exists q. split; [rewrite nth_error_upd_neq; auto|auto].
          -- rewrite setm_neq in Hin by auto. destruct (HCR _ _ Hin) as (q & Hq & Hh).
             destruct (Nat.eq_dec j i) as [->|Hji].
             ++ exists k. split; [eapply nth_error_upd_eq; eauto|]. rewrite Ho by auto. congruence.
             ++ exists q. split; [rewrite nth_error_upd_neq; auto|auto].
        * intros m'. destruct (M_dec m' m) as [->|Hm].
          -- rewrite setm_eq. cbn. auto.
          -- rewrite setm_neq by auto. auto.
      + (* Unlock *)
        destruct (wr (mux s m)) as [j0|] eqn:Ew; [|discriminate].
        destruct (Nat.eqb_spec j0 i) as [->|Hne]; [|discriminate]. inversion Hr; subst r; clear Hr.
        destruct (HCW _ _ Ew) as (Hrd & _).
        repeat split.
        * intros j q m' Hq Hh. destruct (M_dec m' m) as [->|Hm].
          -- rewrite setm_eq. cbn. destruct (Nat.eq_dec j i) as [->|Hji].
             ++ rewrite (nth_error_upd_eq _ _ _ _ Hp) in Hq. inversion Hq; subst. congruence.
             ++ rewrite nth_error_upd_neq in Hq by auto. specialize (HW _ _ _ Hq Hh). congruence.
          -- rewrite setm_neq by auto. destruct (Nat.eq_dec j i) as [->|Hji].
             ++ rewrite (nth_error_upd_eq _ _ _ _ Hp) in Hq. inversion Hq; subst.
                rewrite Ho in Hh by auto. eapply HW; eauto.
             ++ rewrite nth_error_upd_neq in Hq by auto. eapply HW; eauto.
        * intros j q m' Hq Hh. destruct (M_dec m' m) as [->|Hm].
          -- rewrite setm_eq. cbn. destruct (Nat.eq_dec j i) as [->|Hji].
             ++ rewrite (nth_error_upd_eq _ _ _ _ Hp) in Hq. inversion Hq; subst. congruence.
             ++ rewrite nth_error_upd_neq in Hq by auto. eapply HR; eauto.
          -- rewrite setm_neq by auto. destruct (Nat.eq_dec j i) as [->|Hji].
             ++ rewrite (nth_error_upd_eq _ _ _ _ Hp) in Hq. inversion Hq; subst.
                rewrite Ho in Hh by auto. eapply HR; eauto.
             ++ rewrite nth_error_upd_neq in Hq by auto. eapply HR; eauto.
        * destruct (M_dec m0 m) as [->|Hm].
          -- rewrite setm_eq in H0. cbn in H0. discriminate.
          -- rewrite setm_neq in * by auto. apply (HCW _ _ H0).
        * destruct (M_dec m0 m) as [->|Hm].
          -- rewrite setm_eq in H0. cbn in H0. discriminate.
          -- rewrite setm_neq in * by auto. destruct (HCW _ _ H0) as (_ & q & Hq & Hh).
             destruct (Nat.eq_dec j i) as [->|Hji].
             ++ exists k. split; [eapply nth_error_upd_eq; eauto|]. rewrite Ho by auto. congruence.
             ++ exists q. split; [rewrite nth_error_upd_neq; auto|auto].
        * intros m' j Hin. destruct (M_dec m' m) as [->|Hm].
          -- rewrite setm_eq in Hin. cbn in Hin. rewrite Hrd in Hin. destruct Hin.
          -- rewrite setm_neq in Hin by auto. destruct (HCR _ _ Hin) as (q & Hq & Hh).
             destruct (Nat.eq_dec j i) as [->|Hji].
             ++ exists k. split; [eapply nth_error_upd_eq; eauto|]. rewrite Ho by auto. congruence.
             ++ exists q. split; [rewrite nth_error_upd_neq; auto|auto].
        * intros m'. destruct (M_dec m' m) as [->|Hm].
          -- rewrite setm_eq. cbn. rewrite Hrd. constructor.
          -- rewrite setm_neq by auto. auto.
    - (* action: held locks unchanged, spawned threads hold nothing *)
      pose proof (WF p) as W. rewrite Hc in W. specialize (W _ Hg). rewrite Hf in W. destruct W as (Hsame & Hsp).
      assert (Hlt : i < length (thr s)) by (apply nth_error_Some; congruence).
      assert (Hold : forall j q, nth_error (upd (thr s) i k ++ sp) j = Some q ->
                 (j = i /\ q = k) \/ (j <> i /\ nth_error (thr s) j = Some q) \/ (forall m, holds q m = None)).
      { intros j q Hq. rewrite (nth_error_upd_app _ _ _ _ _ _ Hp) in Hq.
        destruct (Nat.eqb_spec j i) as [->|Hji]; [left; split; congruence|].
        destruct (Nat.ltb_spec j (length (thr s))); [right; left; auto|].
        right; right. apply nth_error_In in Hq. rewrite Forall_forall in Hsp. auto. }
      assert (Hnew : forall j q, j <> i -> nth_error (thr s) j = Some q -> nth_error (upd (thr s) i k ++ sp) j = Some q).
      { intros j q Hji Hq. rewrite (nth_error_upd_app _ _ _ _ _ _ Hp).
        destruct (Nat.eqb_spec j i); [contradiction|].
        assert (j < length (thr s)) by (apply nth_error_Some; congruence).
        destruct (Nat.ltb_spec j (length (thr s))); [auto|lia]. }
      assert (Hnewi : nth_error (upd (thr s) i k ++ sp) i = Some k).
      { rewrite (nth_error_upd_app _ _ _ _ _ _ Hp). rewrite Nat.eqb_refl. reflexivity. }
      unfold lock_inv; cbn [thr mux]. repeat split.
      + intros j q m Hq Hh. destruct (Hold _ _ Hq) as [[-> ->]|[[Hji Hq']|Hn]].
        * rewrite Hsame in Hh. eapply HW; eauto.
        * eapply HW; eauto.
        * rewrite Hn in Hh. discriminate.
      + intros j q m Hq Hh. destruct (Hold _ _ Hq) as [[-> ->]|[[Hji Hq']|Hn]].
        * rewrite Hsame in Hh. eapply HR; eauto.
        * eapply HR; eauto.
        * rewrite Hn in Hh. discriminate.
      + apply (HCW _ _ H0).
      + destruct (HCW _ _ H0) as (_ & q & Hq & Hh). destruct (Nat.eq_dec j i) as [->|Hji].
        * exists k. split; auto. rewrite Hsame. congruence.
        * exists q. split; auto.
      + intros m j Hin. destruct (HCR _ _ Hin) as (q & Hq & Hh). destruct (Nat.eq_dec j i) as [->|Hji].
        * exists k. split; auto. rewrite Hsame. congruence.
        * exists q. split; auto.
      + apply HND.
  Qed.

  Lemma lock_inv_step s s' : lock_inv s -> step s s' -> lock_inv s'.
  Proof.
    intros LI H. destruct H as [s i s' H | s d' He Hv | s p He Hc].
    - eapply lock_inv_tstep; eauto.
    - exact LI.
    - destruct LI as (HW & HR & HCW & HCR & HND). unfold lock_inv; cbn [thr mux].
      assert (Hold : forall j q, nth_error (thr s ++ [p]) j = Some q ->
                 nth_error (thr s) j = Some q \/ (forall m, holds q m = None)).
      { intros j q Hq. destruct (Nat.ltb_spec j (length (thr s))).
        - rewrite nth_error_app1 in Hq by auto. auto.
        - rewrite nth_error_app2 in Hq by auto. right.
          destruct (j - length (thr s)) as [|n]; cbn in Hq; [|destruct n; discriminate].
          inversion Hq; subst. apply WFC; auto. }
      assert (Hnew : forall j q, nth_error (thr s) j = Some q -> nth_error (thr s ++ [p]) j = Some q).
      { intros j q Hq. rewrite nth_error_app1; auto. apply nth_error_Some. congruence. }
      repeat split.
      + intros j q m Hq Hh. destruct (Hold _ _ Hq) as [Hq'|Hn]; [eapply HW; eauto|rewrite Hn in Hh; discriminate].
      + intros j q m Hq Hh. destruct (Hold _ _ Hq) as [Hq'|Hn]; [eapply HR; eauto|rewrite Hn in Hh; discriminate].
      + apply (HCW _ _ H).
      + destruct (HCW _ _ H) as (_ & q & Hq & Hh). exists q; auto.
      + intros m j Hin. destruct (HCR _ _ Hin) as (q & Hq & Hh). exists q; auto.
      + apply HND.
  Qed.

  Lemma lock_inv_init d l :
    (forall p, In p l -> forall m, holds p m = None) -> lock_inv (mkSt d (fun _ => rw0) l None).
  Proof.
    intros H. unfold lock_inv; cbn. repeat split; intros; try discriminate; try contradiction; try constructor.
    - apply nth_error_In in H0. rewrite (H _ H0) in H1. discriminate.
    - apply nth_error_In in H0. rewrite (H _ H0) in H1. discriminate.
  Qed.

  (* mutual exclusion: a writer excludes every other holder of the same lock *)
  Lemma excl_writer s i j p q m md :
    lock_inv s -> nth_error (thr s) i = Some p -> holds p m = Some MW ->
    nth_error (thr s) j = Some q -> holds q m = Some md -> i = j.
  Proof.
    intros (HW & HR & HCW & _) Hp Hh Hq Hh'. pose proof (HW _ _ _ Hp Hh) as Hw.
    destruct md.
    - pose proof (HR _ _ _ Hq Hh') as Hin. destruct (HCW _ _ Hw) as (He & _). rewrite He in Hin. destruct Hin.
    - pose proof (HW _ _ _ Hq Hh') as Hw'. congruence.
  Qed.

  (* ---- lock order: a thread only acquires locks of higher rank than those it holds => no wait cycle *)
  Variable rank : M -> nat.
  Definition wf_order : Prop := forall p m md k, code p = Acq m md k ->
    forall m' md', holds p m' = Some md' -> rank m' < rank m.
  Hypothesis WFO : wf_order.

  Definition wrank (s : state) (i r : nat) : Prop :=
    exists p m md k, nth_error (thr s) i = Some p /\ code p = Acq m md k /\ rank m = r.

  Lemma wrank_fun s i r r' : wrank s i r -> wrank s i r' -> r = r'.
  Proof. intros (p & m & md & k & Hp & Hc & Hr) (p' & m' & md' & k' & Hp' & Hc' & Hr'). congruence. Qed.

  Lemma waits_wrank s i j : waits_for s i j -> exists r, wrank s i r.
  Proof. intros (p & m & md & k & Hp & Hc & _). exists (rank m), p, m, md, k. auto. Qed.

  Lemma waits_edge s i j ri rj : lock_inv s -> waits_for s i j -> wrank s i ri -> wrank s j rj -> ri < rj.
  Proof.
    intros (_ & _ & HCW & HCR & _) (p & m & md & k & Hp & Hc & _ & Hheld) Hi (q & m2 & md2 & k2 & Hq & Hc2 & Hr2).
    assert (ri = rank m) as -> by (eapply wrank_fun; eauto; exists p, m, md, k; auto).
    subst rj. destruct Hheld as [Hw|Hin].
    - destruct (HCW _ _ Hw) as (_ & q' & Hq' & Hh). assert (q' = q) by congruence. subst. eapply WFO; eauto.
    - destruct (HCR _ _ Hin) as (q' & Hq' & Hh). assert (q' = q) by congruence. subst. eapply WFO; eauto.
  Qed.

  Lemma waits_chain s i j : lock_inv s -> clos_trans nat (waits_for s) i j ->
    forall ri rj, wrank s i ri -> wrank s j rj -> ri < rj.
  Proof.
    intros LI H. apply clos_trans_t1n in H. induction H as [i j H | i k j H Hkj IH]; intros ri rj Hi Hj.
    - eapply waits_edge; eauto.
    - assert (exists rk, wrank s k rk) as [rk Hk].
      { inversion Hkj as [? Hw|? ? Hw _]; eapply waits_wrank; eauto. }
      pose proof (waits_edge _ _ _ _ _ LI H Hi Hk). pose proof (IH _ _ Hk Hj). lia.
  Qed.

  Theorem no_wait_cycle s : lock_inv s -> forall i, ~ clos_trans nat (waits_for s) i i.
  Proof.
    intros LI i H.
    assert (exists r, wrank s i r) as [r Hr].
    { apply clos_trans_t1n in H. inversion H as [? Hw|? ? Hw _]; eapply waits_wrank; eauto. }
    pose proof (waits_chain _ _ _ LI H _ _ Hr Hr). lia.
  Qed.

  (* ---- a thread that holds a lock is never blocked on anything but another lock *)
  Definition wf_holder_nonblocking : Prop := forall p m md, holds p m = Some md ->
    match code p with
    | Act g _ => forall d, g d = true
    | Halt => False
    | _ => True
    end.
  Hypothesis WFH : wf_holder_nonblocking.

  Theorem holder_progress s j q m md :
    lock_inv s -> err s = None -> nth_error (thr s) j = Some q -> holds q m = Some md ->
    (exists s', tstep s j = Some s') \/ (exists k, waits_for s j k).
  Proof.
    intros LI He Hq Hh. pose proof (WFH _ _ _ Hh) as W. unfold Conc.tstep. rewrite He, Hq.
    destruct (code q) as [m' md' k|m' md' k|g f|] eqn:Ec.
    - destruct (acquire (mux s m') md' j) as [r|] eqn:Ea; [left; eauto|]. right.
      assert (exists h, wr (mux s m') = Some h \/ In h (rd (mux s m'))) as [h Hheld].
      { destruct md'; cbn in Ea.
        - destruct (wr (mux s m')) as [h|]; [exists h; auto|discriminate].
        - destruct (wr (mux s m')) as [h|]; [exists h; auto|].
          destruct (rd (mux s m')) as [|h t]; [discriminate|]. exists h. right. left. reflexivity. }
      exists h, q, m', md', k. auto.
    - left. destruct (release (mux s m') md' j); eauto.
    - left. rewrite W. destruct (f (dat s)) as [[[d k] sp] e]. eauto.
    - destruct W.
  Qed.
  (* the deterministic schedulers of Conc.v only take steps of the relation *)
  Lemma run_thread_reach s0 fuel : forall s i, reach PC D M E M_eqb code bad_unlock env client s0 s ->
    reach PC D M E M_eqb code bad_unlock env client s0 (run_thread PC D M E M_eqb code bad_unlock fuel s i).
  Proof.
    induction fuel as [|f IH]; intros s i H; cbn; auto.
    destruct (Conc.tstep PC D M E M_eqb code bad_unlock s i) as [s'|] eqn:Et; auto.
    apply IH. eapply reach_step; eauto. eapply step_thread; eauto.
  Qed.

  Lemma round_reach s0 fuel n : forall s i, reach PC D M E M_eqb code bad_unlock env client s0 s ->
    reach PC D M E M_eqb code bad_unlock env client s0 (round PC D M E M_eqb code bad_unlock s i n fuel).
  Proof.
    induction n as [|n IH]; intros s i H; cbn; auto. apply IH. apply run_thread_reach. exact H.
  Qed.

  Lemma quiesce_reach s0 fuel rounds : forall s, reach PC D M E M_eqb code bad_unlock env client s0 s ->
    reach PC D M E M_eqb code bad_unlock env client s0 (quiesce PC D M E M_eqb code bad_unlock rounds fuel s).
  Proof.
    induction rounds as [|r IH]; intros s H; cbn; auto. apply IH. apply round_reach. exact H.
  Qed.
End ConcProofs.
