(* Proofs about Model/StakingCpc.v (C11). *)
From Coq Require Import List ZArith Bool Lia Permutation Sorted RelationClasses.
From Evm Require Import StakingCpc.
Import ListNotations.
Open Scope Z_scope.

(* ---------------------------------------------------------------- the caller *)

Lemma caller_snoc : forall sender path h,
  precompile_caller sender (path ++ [h]) = ctx_step (precompile_caller sender path) h.
Proof. intros. unfold precompile_caller. now rewrite fold_left_app. Qed.

(* the caller is the callee of the last CALL/STATICCALL hop, or the transaction sender if there is none *)
Fixpoint last_switch (path : list hop) : option Z :=
  match path with
  | [] => None
  | h :: r => match last_switch r with
              | Some a => Some a
              | None => match h with HCall a | HStatic a => Some a | _ => None end
              end
  end.

Lemma caller_last_switch : forall path sender,
  precompile_caller sender path = match last_switch path with Some a => a | None => sender end.
Proof.
  unfold precompile_caller. induction path as [|h r IH]; intros sender; cbn [fold_left last_switch]; [reflexivity|].
  rewrite IH. destruct (last_switch r); [reflexivity|]. destruct h; reflexivity.
Qed.

(* code run by DELEGATECALL / CALLCODE acts for the frame that borrowed it, never for the address the code lives at *)
Lemma caller_delegate_transparent : forall sender path code_at,
  precompile_caller sender (path ++ [HDelegate code_at]) = precompile_caller sender path /\
  precompile_caller sender (path ++ [HCallCode code_at]) = precompile_caller sender path.
Proof. intros. now rewrite !caller_snoc. Qed.

(* ---------------------------------------------------------------- logs of events *)

Lemma logs_of_event_delegators : forall d e l,
  In l (logs_of_event d e) ->
  match e, l with
  | EvDelegate v del c, LDelegate del' v' a' => del' = del /\ v' = v /\ a' = amount_of BOND c /\ 0 < a'
  | EvUnbond v del c, LUndelegate del' v' a' => del' = del /\ v' = v /\ a' = amount_of BOND c /\ 0 < a'
  | EvWithdrawRewards v del c, LWithdrawReward del' v' a' => del' = del /\ v' = v /\ a' = amount_of BOND c /\ 0 < a'
  | EvRedelegate s t c, LUndelegate del' v' a' => del' = d /\ v' = s /\ a' = amount_of BOND c /\ 0 < a'
  | EvRedelegate s t c, LDelegate del' v' a' => del' = d /\ v' = t /\ a' = amount_of BOND c /\ 0 < a'
  | _, _ => False
  end.
Proof.
  intros d e l H. destruct e; cbn [logs_of_event] in H; try contradiction;
    destruct (0 <? amount_of BOND amt) eqn:Ha; try contradiction; apply Z.ltb_lt in Ha; cbn [In] in H;
    repeat (destruct H as [H|H]; [subst l; auto|]); contradiction.
Qed.

(* number of logs = one per delegate / unbond / withdraw event with a positive bond-denom amount, two per such
   redelegate event *)
Definition log_count (e : nevent) : nat :=
  match e with
  | EvDelegate _ _ c | EvUnbond _ _ c | EvWithdrawRewards _ _ c => if 0 <? amount_of BOND c then 1 else 0
  | EvRedelegate _ _ c => if 0 <? amount_of BOND c then 2 else 0
  | EvOther => 0
  end.

Lemma logs_of_event_length : forall d e, length (logs_of_event d e) = log_count e.
Proof. intros d e. destruct e; cbn; try reflexivity; destruct (0 <? amount_of BOND amt); reflexivity. Qed.

Lemma flat_map_length_sum : forall (A B : Type) (f : A -> list B) (l : list A),
  length (flat_map f l) = fold_right (fun a n => (length (f a) + n)%nat) 0%nat l.
Proof. induction l as [|a r IH]; cbn; [reflexivity|]. now rewrite app_length, IH. Qed.

Section Cpc.
  Variable nstate : Type.
  Variable native_step : nstate -> nmsg -> option (nstate * list nevent).
  Variable q_rewards : nstate -> Z -> list (Z * coins) * bool.
  Variable q_balance : nstate -> Z -> Z.
  Variable q_delegated_bonded : nstate -> Z -> list vinfo.
  Variable q_bonded : nstate -> list vinfo.
  Variable chain_id : Z.
  Variable typed_hash : Z -> typed -> Z.
  Variable recover : Z -> Z -> option Z.
  Variable q_delegation_tokens : nstate -> Z -> Z -> qres.
  Variable q_bonded_total : nstate -> Z -> qres.
  Variable q_reward : nstate -> Z -> Z -> qresc.
  Variable q_rewards_total : nstate -> Z -> qresc.

  Notation run_native := (run_native nstate native_step).
  Notation cpc_step := (cpc_step nstate native_step q_rewards q_balance q_delegated_bonded q_bonded chain_id typed_hash recover).
  Notation withdraw_all_msgs := (withdraw_all_msgs nstate q_rewards).
  Notation sig_ok := (sig_ok chain_id typed_hash recover).
  Notation finish := (finish nstate).
  Notation simple := (simple nstate native_step).

  Lemma run_native_app : forall a b s,
    run_native s (a ++ b) =
    match run_native s a with
    | None => None
    | Some (s1, e1) => match run_native s1 b with None => None | Some (s2, e2) => Some (s2, e1 ++ e2) end
    end.
  Proof.
    induction a as [|m r IH]; intros b s; cbn [app StakingCpc.run_native].
    - destruct (run_native s b) as [[s2 e2]|]; reflexivity.
    - destruct (native_step s m) as [[s1 e1]|]; [|reflexivity].
      rewrite IH. destruct (run_native s1 r) as [[s2 e2]|]; [|reflexivity].
      destruct (run_native s2 b) as [[s3 e3]|]; [|reflexivity]. now rewrite app_assoc.
  Qed.

  Lemma withdraw_all_msgs_delegator : forall s d, Forall (fun m => msg_delegator m = d) (withdraw_all_msgs s d).
  Proof.
    intros s d. unfold StakingCpc.withdraw_all_msgs. destruct (q_rewards s d) as [rs tz].
    destruct rs as [|r0 rs]; [constructor|]. destruct tz; [constructor|].
    apply Forall_forall. intros m Hm. apply in_map_iff in Hm as [va [<- _]]. reflexivity.
  Qed.

  Lemma withdraw_all_msgs_shape : forall s d m, In m (withdraw_all_msgs s d) ->
    exists v c, m = MsgWithdrawDelegatorReward d v /\ In (v, c) (fst (q_rewards s d)) /\ MIN_WITHDRAW <= amount_of BOND c /\
                snd (q_rewards s d) = false.
  Proof.
    intros s d m. unfold StakingCpc.withdraw_all_msgs. destruct (q_rewards s d) as [rs tz]. cbn [fst snd].
    destruct rs as [|r0 rs]; [intros []|]. destruct tz; [intros []|].
    intros Hm. apply in_map_iff in Hm as [[v a] [<- Hf]]. apply filter_In in Hf as [Hin Hge].
    exists v, a. cbn [fst snd] in *. apply Z.leb_le in Hge. auto.
  Qed.

  Lemma sig_ok_spec : forall caller d t sig, sig_ok caller d t sig = true ->
    caller = d /\ recover (typed_hash chain_id t) sig = Some d.
  Proof.
    intros caller d t sig H. unfold StakingCpc.sig_ok in H. apply andb_prop in H as [H1 H2].
    apply Z.eqb_eq in H1. split; [exact H1|].
    destruct (recover (typed_hash chain_id t) sig) as [a|]; [|discriminate]. apply Z.eqb_eq in H2. now subst.
  Qed.

  Lemma finish_inv : forall d ret ms r s' logs ret' ms',
    finish d ret ms r = Some (s', logs, ret', ms') ->
    exists evs, r = Some (s', evs) /\ emit d evs = Some logs /\ ret' = ret /\ ms' = ms.
  Proof.
    intros d ret ms r s' logs ret' ms' H. unfold StakingCpc.finish in H.
    destruct r as [[s1 evs]|]; [|discriminate]. destruct (emit d evs) as [l|] eqn:He; [|discriminate].
    inversion H; subst. exists evs. auto.
  Qed.

  (* ---- main lemma: a successful call = its native messages, issued for the caller, and the logs of their events *)
  Lemma cpc_step_sound : forall s caller c s' logs ret ms,
    cpc_step s caller c = Some (s', logs, ret, ms) ->
    Forall (fun m => msg_delegator m = caller) ms /\
    exists evs, run_native s ms = Some (s', evs) /\ emit caller evs = Some logs.
  Proof.
    intros s caller c s' logs ret ms H.
    destruct c as [v a|v a|src dst a|m sig|v| |m sig|to a]; cbn [StakingCpc.cpc_step] in H |- *.
    - destruct (0 <? a); [|discriminate]. apply finish_inv in H as [evs [Hr [He [_ ->]]]].
      split; [repeat constructor|]. eauto.
    - destruct (0 <? a); [|discriminate]. apply finish_inv in H as [evs [Hr [He [_ ->]]]].
      split; [repeat constructor|]. eauto.
    - destruct (0 <? a); [|discriminate]. apply finish_inv in H as [evs [Hr [He [_ ->]]]].
      split; [repeat constructor|]. eauto.
    - destruct (sm_valid m && sig_ok caller (sm_delegator m) (TStaking m) sig) eqn:Hg; [|discriminate].
      apply andb_prop in Hg as [_ Hs]. apply sig_ok_spec in Hs as [Hc _]. rewrite <- Hc in H.
      destruct (sm_action m), (sm_validator m) as [v|], (sm_old m) as [|o|]; try discriminate;
        apply finish_inv in H as [evs [Hr [He [_ ->]]]]; (split; [repeat constructor|]); eauto.
    - apply finish_inv in H as [evs [Hr [He [_ ->]]]]. split; [repeat constructor|]. eauto.
    - apply finish_inv in H as [evs [Hr [He [_ ->]]]]. split; [apply withdraw_all_msgs_delegator|]. eauto.
    - destruct (wm_valid m && sig_ok caller (wm_delegator m) (TWithdraw m) sig) eqn:Hg; [|discriminate].
      apply andb_prop in Hg as [_ Hs]. apply sig_ok_spec in Hs as [Hc _]. rewrite <- Hc in H.
      destruct (wm_from m) as [|v|]; try discriminate;
        apply finish_inv in H as [evs [Hr [He [_ ->]]]].
      + split; [apply withdraw_all_msgs_delegator|]. eauto.
      + split; [repeat constructor|]. eauto.
    - destruct (negb (caller =? 0) && negb (to =? 0) && (caller =? to) && (0 <? a)); [|discriminate].
      destruct (run_native s (withdraw_all_msgs s caller)) as [[s1 e1]|] eqn:Hw; [|discriminate].
      destruct (q_balance s1 caller <? a); [discriminate|].
      destruct (pick_validator (q_delegated_bonded s1 caller) (q_bonded s1)) as [v|]; [|discriminate].
      destruct (native_step s1 (MsgDelegate caller v a)) as [[s2 e2]|] eqn:Hd; [|discriminate].
      apply finish_inv in H as [evs [Hr [He [_ ->]]]]. inversion Hr; subst. split.
      + apply Forall_app. split; [apply withdraw_all_msgs_delegator | repeat constructor].
      + exists (e1 ++ e2). split; [|exact He]. rewrite run_native_app, Hw. cbn [StakingCpc.run_native]. rewrite Hd.
        now rewrite app_nil_r.
  Qed.

  Lemma acts_for_caller : forall s caller c s' logs ret ms,
    cpc_step s caller c = Some (s', logs, ret, ms) -> Forall (fun m => msg_delegator m = caller) ms.
  Proof. intros. eapply cpc_step_sound; eauto. Qed.

  Lemma equiv_native : forall s caller c s' logs ret ms,
    cpc_step s caller c = Some (s', logs, ret, ms) ->
    exists evs, run_native s ms = Some (s', evs) /\ logs = flat_map (logs_of_event caller) evs
                /\ existsb counted evs = true.
  Proof.
    intros s caller c s' logs ret ms H. destruct (cpc_step_sound _ _ _ _ _ _ _ H) as [_ [evs [Hr He]]].
    exists evs. split; [exact Hr|]. unfold emit in He. destruct (existsb counted evs); [|discriminate].
    inversion He. auto.
  Qed.

  (* the direct calls are exactly the native message, nothing more (the "map_result" form) *)
  Definition map_result (d : Z) (m : nmsg) (r : option (nstate * list nevent)) : cres nstate :=
    match r with
    | None => None
    | Some (s', evs) => match emit d evs with None => None | Some logs => Some (s', logs, true, [m]) end
    end.

  Lemma simple_is_native : forall s d m, simple s d m = map_result d m (native_step s m).
  Proof.
    intros s d m. unfold StakingCpc.simple, StakingCpc.finish, map_result. cbn [StakingCpc.run_native].
    destruct (native_step s m) as [[s1 e1]|]; [|reflexivity]. now rewrite app_nil_r.
  Qed.

  Lemma direct_calls_are_native : forall s caller v a src dst,
    0 < a ->
    cpc_step s caller (CDelegate v a) = map_result caller (MsgDelegate caller v a) (native_step s (MsgDelegate caller v a)) /\
    cpc_step s caller (CUndelegate v a) = map_result caller (MsgUndelegate caller v a) (native_step s (MsgUndelegate caller v a)) /\
    cpc_step s caller (CRedelegate src dst a) =
      map_result caller (MsgBeginRedelegate caller src dst a) (native_step s (MsgBeginRedelegate caller src dst a)) /\
    cpc_step s caller (CWithdrawReward v) =
      map_result caller (MsgWithdrawDelegatorReward caller v) (native_step s (MsgWithdrawDelegatorReward caller v)).
  Proof.
    intros s caller v a src dst Ha. apply Z.ltb_lt in Ha. cbn [StakingCpc.cpc_step]. rewrite Ha.
    rewrite !simple_is_native. auto.
  Qed.

  Lemma nonpositive_amount_rejected : forall s caller v src dst a, a <= 0 ->
    cpc_step s caller (CDelegate v a) = None /\ cpc_step s caller (CUndelegate v a) = None /\
    cpc_step s caller (CRedelegate src dst a) = None /\ cpc_step s caller (CTransfer caller a) = None.
  Proof.
    intros s caller v src dst a Ha. assert (H : (0 <? a) = false) by (apply Z.ltb_ge; lia).
    cbn [StakingCpc.cpc_step]. rewrite H, !andb_false_r. auto.
  Qed.

  Lemma signed_needs_both : forall s caller m sig r,
    cpc_step s caller (CDelegateByMessage m sig) = Some r ->
    sm_delegator m = caller /\ recover (typed_hash chain_id (TStaking m)) sig = Some (sm_delegator m) /\ sm_valid m = true.
  Proof.
    intros s caller m sig r H. cbn [StakingCpc.cpc_step] in H.
    destruct (sm_valid m) eqn:Hv; [|discriminate]. cbn [andb] in H.
    destruct (sig_ok caller (sm_delegator m) (TStaking m) sig) eqn:Hs; [|discriminate].
    apply sig_ok_spec in Hs as [Hc Hr]. auto.
  Qed.

  Lemma signed_withdraw_needs_both : forall s caller m sig r,
    cpc_step s caller (CWithdrawRewardsByMessage m sig) = Some r ->
    wm_delegator m = caller /\ recover (typed_hash chain_id (TWithdraw m)) sig = Some (wm_delegator m) /\ wm_valid m = true.
  Proof.
    intros s caller m sig r H. cbn [StakingCpc.cpc_step] in H.
    destruct (wm_valid m) eqn:Hv; [|discriminate]. cbn [andb] in H.
    destruct (sig_ok caller (wm_delegator m) (TWithdraw m) sig) eqn:Hs; [|discriminate].
    apply sig_ok_spec in Hs as [Hc Hr]. auto.
  Qed.

  Lemma transfer_only_to_self : forall s caller to a r,
    cpc_step s caller (CTransfer to a) = Some r -> to = caller /\ 0 < a.
  Proof.
    intros s caller to a r H. cbn [StakingCpc.cpc_step] in H.
    destruct (negb (caller =? 0) && negb (to =? 0) && (caller =? to) && (0 <? a)) eqn:Hg; [|discriminate].
    apply andb_prop in Hg as [Hg Ha]. apply andb_prop in Hg as [_ Hc].
    apply Z.eqb_eq in Hc. apply Z.ltb_lt in Ha. auto.
  Qed.

  (* ---- logs name the caller, given that the native modules only emit events about the message's own delegator *)
  Definition ev_for (d : Z) (e : nevent) : Prop :=
    match e with
    | EvDelegate _ del _ | EvUnbond _ del _ | EvWithdrawRewards _ del _ => del = d
    | _ => True
    end.
  Definition log_delegator (l : log) : Z :=
    match l with LDelegate d _ _ | LUndelegate d _ _ | LWithdrawReward d _ _ => d end.

  Hypothesis native_events_own : forall s m s' evs,
    native_step s m = Some (s', evs) -> Forall (ev_for (msg_delegator m)) evs.

  Lemma run_native_events_own : forall d ms s s' evs,
    Forall (fun m => msg_delegator m = d) ms -> run_native s ms = Some (s', evs) -> Forall (ev_for d) evs.
  Proof.
    intros d. induction ms as [|m r IH]; intros s s' evs HF H; cbn [StakingCpc.run_native] in H.
    - inversion H. constructor.
    - inversion HF as [|? ? Hm Hr]; subst.
      destruct (native_step s m) as [[s1 e1]|] eqn:Hn; [|discriminate].
      destruct (run_native s1 r) as [[s2 e2]|] eqn:Hrr; [|discriminate]. inversion H; subst.
      apply Forall_app. split; [exact (native_events_own _ _ _ _ Hn) | eapply IH; eauto].
  Qed.

  Lemma logs_for_caller : forall s caller c s' logs ret ms,
    cpc_step s caller c = Some (s', logs, ret, ms) -> Forall (fun l => log_delegator l = caller) logs.
  Proof.
    intros s caller c s' logs ret ms H. destruct (cpc_step_sound _ _ _ _ _ _ _ H) as [HF [evs [Hr He]]].
    pose proof (run_native_events_own _ _ _ _ _ HF Hr) as Hown.
    unfold emit in He. destruct (existsb counted evs); [|discriminate]. inversion He; subst logs.
    apply Forall_forall. intros l Hl. apply in_flat_map in Hl as [e [Hin Hl]].
    rewrite Forall_forall in Hown. specialize (Hown e Hin).
    pose proof (logs_of_event_delegators _ _ _ Hl) as Hs.
    destruct e, l; cbn [ev_for log_delegator] in *; try contradiction; destruct Hs as [-> _]; auto.
  Qed.

  (* ---------------------------------------------------------------- the call IS the native submission *)
  Notation native_prog := (native_prog nstate native_step q_rewards q_balance q_delegated_bonded q_bonded chain_id typed_hash recover).
  Notation guard := (guard chain_id typed_hash recover).
  Notation first_msgs := (first_msgs nstate q_rewards).
  Notation second_msgs := (second_msgs nstate q_balance q_delegated_bonded q_bonded).

  Definition of_prog (d : Z) (r : option (nstate * list nevent * list nmsg)) : cres nstate :=
    match r with
    | None => None
    | Some (s', evs, ms) => match emit d evs with Some logs => Some (s', logs, true, ms) | None => None end
    end.

  Lemma prog_single_batch : forall s d c m1,
    guard d c = true -> first_msgs s d c = Some m1 -> (forall s1, second_msgs s1 d c = Some []) ->
    native_prog s d c = match run_native s m1 with None => None | Some (s1, e1) => Some (s1, e1, m1) end.
  Proof.
    intros s d c m1 Hg Hf Hs. unfold StakingCpc.native_prog. rewrite Hg, Hf.
    destruct (run_native s m1) as [[s1 e1]|]; [|reflexivity]. rewrite Hs. cbn [StakingCpc.run_native].
    now rewrite !app_nil_r.
  Qed.

  Lemma finish_of_prog : forall d ms s,
    finish d true ms (run_native s ms) =
    of_prog d (match run_native s ms with None => None | Some (s1, e1) => Some (s1, e1, ms) end).
  Proof. intros d ms s. unfold StakingCpc.finish, of_prog. destruct (run_native s ms) as [[s1 e1]|]; reflexivity. Qed.

  Theorem cpc_step_is_native_prog : forall s caller c, cpc_step s caller c = of_prog caller (native_prog s caller c).
  Proof.
    intros s caller c.
    destruct c as [v a|v a|src dst a|m sig|v| |m sig|to a]; cbn [StakingCpc.cpc_step].
    - destruct (0 <? a) eqn:Ha.
      + rewrite (prog_single_batch s caller _ [MsgDelegate caller v a]); auto. apply finish_of_prog.
      + unfold StakingCpc.native_prog. cbn [StakingCpc.guard]. now rewrite Ha.
    - destruct (0 <? a) eqn:Ha.
      + rewrite (prog_single_batch s caller _ [MsgUndelegate caller v a]); auto. apply finish_of_prog.
      + unfold StakingCpc.native_prog. cbn [StakingCpc.guard]. now rewrite Ha.
    - destruct (0 <? a) eqn:Ha.
      + rewrite (prog_single_batch s caller _ [MsgBeginRedelegate caller src dst a]); auto. apply finish_of_prog.
      + unfold StakingCpc.native_prog. cbn [StakingCpc.guard]. now rewrite Ha.
    - destruct (sm_valid m && sig_ok caller (sm_delegator m) (TStaking m) sig) eqn:Hg.
      + pose proof Hg as Hg'. apply andb_prop in Hg' as [_ Hs]. apply sig_ok_spec in Hs as [Hc _].
        destruct (sm_action m) eqn:Hact, (sm_validator m) as [v|] eqn:Hval, (sm_old m) as [|o|] eqn:Hold;
          first [ unfold StakingCpc.native_prog; cbn [StakingCpc.guard StakingCpc.first_msgs]; rewrite Hg, Hact, ?Hval, ?Hold; reflexivity
                | rewrite <- Hc; erewrite prog_single_batch;
                  [apply finish_of_prog | exact Hg | cbn [StakingCpc.first_msgs]; rewrite Hact, Hval, ?Hold; reflexivity | reflexivity] ].
      + unfold StakingCpc.native_prog. cbn [StakingCpc.guard]. now rewrite Hg.
    - rewrite (prog_single_batch s caller _ [MsgWithdrawDelegatorReward caller v]); auto. apply finish_of_prog.
    - rewrite (prog_single_batch s caller _ (withdraw_all_msgs s caller)); auto. apply finish_of_prog.
    - destruct (wm_valid m && sig_ok caller (wm_delegator m) (TWithdraw m) sig) eqn:Hg.
      + pose proof Hg as Hg'. apply andb_prop in Hg' as [_ Hs]. apply sig_ok_spec in Hs as [Hc _]. rewrite <- Hc.
        destruct (wm_from m) as [|v|] eqn:Hfrom.
        * erewrite prog_single_batch; [apply finish_of_prog | exact Hg | cbn [StakingCpc.first_msgs]; rewrite Hfrom; reflexivity | reflexivity].
        * erewrite prog_single_batch; [apply finish_of_prog | exact Hg | cbn [StakingCpc.first_msgs]; rewrite Hfrom; reflexivity | reflexivity].
        * unfold StakingCpc.native_prog. cbn [StakingCpc.guard StakingCpc.first_msgs]. now rewrite Hg, Hfrom.
      + unfold StakingCpc.native_prog. cbn [StakingCpc.guard]. now rewrite Hg.
    - unfold StakingCpc.native_prog. cbn [StakingCpc.guard StakingCpc.first_msgs StakingCpc.second_msgs].
      destruct (negb (caller =? 0) && negb (to =? 0) && (caller =? to) && (0 <? a)); [|reflexivity].
      destruct (run_native s (withdraw_all_msgs s caller)) as [[s1 e1]|]; [|reflexivity].
      destruct (q_balance s1 caller <? a); [reflexivity|].
      destruct (pick_validator (q_delegated_bonded s1 caller) (q_bonded s1)) as [v|]; [|reflexivity].
      cbn [option_map StakingCpc.run_native].
      destruct (native_step s1 (MsgDelegate caller v a)) as [[s2 e2]|]; [|reflexivity].
      unfold StakingCpc.finish, of_prog. now rewrite app_nil_r.
  Qed.

  (* every message of the native submission is the submitter's own *)
  Lemma native_prog_own : forall s d c s' evs ms,
    native_prog s d c = Some (s', evs, ms) -> Forall (fun m => msg_delegator m = d) ms.
  Proof.
    intros s d c s' evs ms H.
    pose proof (cpc_step_is_native_prog s d c) as E. rewrite H in E. unfold of_prog in E.
    (* independent of whether the logs can be emitted: read it off the program *)
    clear E. unfold StakingCpc.native_prog in H.
    destruct (guard d c) eqn:Hg; [|discriminate].
    destruct (first_msgs s d c) as [m1|] eqn:Hf; [|discriminate].
    destruct (run_native s m1) as [[s1 e1]|]; [|discriminate].
    destruct (second_msgs s1 d c) as [m2|] eqn:Hs; [|discriminate].
    destruct (run_native s1 m2) as [[s2 e2]|]; [|discriminate]. inversion H; subst. apply Forall_app. split.
    - destruct c as [v a|v a|src dst a|m sig|v| |m sig|to a]; cbn [StakingCpc.first_msgs] in Hf;
        try (inversion Hf; subst; repeat constructor; fail);
        try (inversion Hf; subst; apply withdraw_all_msgs_delegator).
      + destruct (sm_action m), (sm_validator m), (sm_old m); inversion Hf; subst; repeat constructor.
      + destruct (wm_from m); inversion Hf; subst; [apply withdraw_all_msgs_delegator | repeat constructor].
    - destruct c as [v a|v a|src dst a|m sig|v| |m sig|to a]; cbn [StakingCpc.second_msgs] in Hs;
        try (inversion Hs; subst; constructor; fail).
      destruct (q_balance s1 d <? a); [discriminate|].
      destruct (pick_validator (q_delegated_bonded s1 d) (q_bonded s1)); inversion Hs; subst. repeat constructor.
  Qed.

  (* ---------------------------------------------------------------- twin histories *)
  Notation step_A := (step_A nstate native_step q_rewards q_balance q_delegated_bonded q_bonded chain_id typed_hash recover
                             q_delegation_tokens q_bonded_total q_reward q_rewards_total).
  Notation step_B := (step_B nstate native_step q_rewards q_balance q_delegated_bonded q_bonded chain_id typed_hash recover
                             q_delegation_tokens q_bonded_total q_reward q_rewards_total).
  Notation run_A := (run_A nstate native_step q_rewards q_balance q_delegated_bonded q_bonded chain_id typed_hash recover
                           q_delegation_tokens q_bonded_total q_reward q_rewards_total).
  Notation run_B := (run_B nstate native_step q_rewards q_balance q_delegated_bonded q_bonded chain_id typed_hash recover
                           q_delegation_tokens q_bonded_total q_reward q_rewards_total).
  Notation logs_A := (logs_A nstate native_step q_rewards q_balance q_delegated_bonded q_bonded chain_id typed_hash recover
                             q_delegation_tokens q_bonded_total q_reward q_rewards_total).
  Notation logs_B := (logs_B nstate native_step q_rewards q_balance q_delegated_bonded q_bonded chain_id typed_hash recover
                             q_delegation_tokens q_bonded_total q_reward q_rewards_total).
  Notation trace := (trace nstate).
  Notation issued_A := (issued_A nstate native_step q_rewards q_balance q_delegated_bonded q_bonded chain_id typed_hash recover
                                 q_delegation_tokens q_bonded_total q_reward q_rewards_total).
  Notation view_step := (view_step nstate q_balance q_delegation_tokens q_bonded_total q_reward q_rewards_total).
  Notation native_view := (native_view nstate q_balance q_delegation_tokens q_bonded_total q_reward q_rewards_total).
  Notation item_A := (item_A nstate native_step q_rewards q_balance q_delegated_bonded q_bonded chain_id typed_hash recover
                             q_delegation_tokens q_bonded_total q_reward q_rewards_total).
  Notation item_B := (item_B nstate native_step q_rewards q_balance q_delegated_bonded q_bonded chain_id typed_hash recover
                             q_delegation_tokens q_bonded_total q_reward q_rewards_total).
  Notation tx_A := (tx_A nstate native_step q_rewards q_balance q_delegated_bonded q_bonded chain_id typed_hash recover
                         q_delegation_tokens q_bonded_total q_reward q_rewards_total).
  Notation tx_B := (tx_B nstate native_step q_rewards q_balance q_delegated_bonded q_bonded chain_id typed_hash recover
                         q_delegation_tokens q_bonded_total q_reward q_rewards_total).
  Notation tx_state_A := (tx_state_A nstate native_step q_rewards q_balance q_delegated_bonded q_bonded chain_id typed_hash recover
                                     q_delegation_tokens q_bonded_total q_reward q_rewards_total).
  Notation tx_obs_A := (tx_obs_A nstate native_step q_rewards q_balance q_delegated_bonded q_bonded chain_id typed_hash recover
                                 q_delegation_tokens q_bonded_total q_reward q_rewards_total).
  Notation tx_msgs_A := (tx_msgs_A nstate native_step q_rewards q_balance q_delegated_bonded q_bonded chain_id typed_hash recover
                                   q_delegation_tokens q_bonded_total q_reward q_rewards_total).

  (* ---------------------------------------------------------------- views, transactions *)
  Lemma view_step_is_native_view : forall s w, view_step s w = native_view s w.
  Proof.
    intros s w. destruct w as [a v|a|a v|a|a]; cbn [StakingCpc.view_step StakingCpc.native_view].
    - destruct (q_delegation_tokens s a v); reflexivity.
    - destruct (q_bonded_total s a); reflexivity.
    - destruct (q_reward s a v); reflexivity.
    - destruct (q_rewards_total s a); reflexivity.
    - destruct (q_rewards_total s a); reflexivity.
  Qed.

  Lemma tx_A_app : forall a b s caller,
    tx_A s caller (a ++ b) =
    let '(s1, o1, m1) := tx_A s caller a in let '(s2, o2, m2) := tx_A s1 caller b in (s2, o1 ++ o2, m1 ++ m2).
  Proof.
    induction a as [|i r IH]; intros b s caller; cbn [app StakingCpc.tx_A].
    - destruct (tx_A s caller b) as [[s2 o2] m2]. reflexivity.
    - destruct (item_A s caller i) as [[s1 o1] m1]. rewrite IH.
      destruct (tx_A s1 caller r) as [[s2 o2] m2]. destruct (tx_A s2 caller b) as [[s3 o3] m3].
      cbn [app]. now rewrite app_assoc.
  Qed.

  Lemma tx_B_app : forall a b s caller,
    tx_B s caller (a ++ b) =
    let '(s1, o1) := tx_B s caller a in let '(s2, o2) := tx_B s1 caller b in (s2, o1 ++ o2).
  Proof.
    induction a as [|i r IH]; intros b s caller; cbn [app StakingCpc.tx_B].
    - destruct (tx_B s caller b) as [s2 o2]. reflexivity.
    - destruct (item_B s caller i) as [s1 o1]. rewrite IH.
      destruct (tx_B s1 caller r) as [s2 o2]. destruct (tx_B s2 caller b) as [s3 o3]. reflexivity.
  Qed.

  Lemma tx_A_obs_length : forall items s caller, length (snd (fst (tx_A s caller items))) = length items.
  Proof.
    induction items as [|i r IH]; intros s caller; cbn [StakingCpc.tx_A]; [reflexivity|].
    destruct (item_A s caller i) as [[s1 o1] m1]. specialize (IH s1 caller).
    destruct (tx_A s1 caller r) as [[s2 o2] m2]. cbn [fst snd length] in *. now rewrite IH.
  Qed.

  (* every message issued in the course of a transaction is the caller's own *)
  Lemma tx_msgs_own : forall items s caller, Forall (fun m => msg_delegator m = caller) (tx_msgs_A s caller items).
  Proof.
    unfold StakingCpc.tx_msgs_A.
    induction items as [|i r IH]; intros s caller; cbn [StakingCpc.tx_A]; [constructor|].
    destruct (item_A s caller i) as [[s1 o1] m1] eqn:Hi. specialize (IH s1 caller).
    destruct (tx_A s1 caller r) as [[s2 o2] m2]. cbn [snd] in *. apply Forall_app. split; [|exact IH].
    destruct i as [c|w]; cbn [StakingCpc.item_A] in Hi.
    - destruct (cpc_step s caller c) as [[[[s' logs] ret] ms]|] eqn:Hc; inversion Hi; subst; [|constructor].
      eapply acts_for_caller; eauto.
    - inversion Hi. constructor.
  Qed.

  (* a view call changes nothing, wherever in the transaction it stands *)
  Lemma view_item_pure : forall s caller w, item_A s caller (IView w) = (s, TView (view_step s w), []).
  Proof. reflexivity. Qed.

  Lemma issued_A_own : forall ops s, Forall (fun p => msg_delegator (snd p) = fst p) (issued_A s ops).
  Proof.
    induction ops as [|o r IH]; intros s; cbn [StakingCpc.issued_A]; [constructor|].
    apply Forall_app. split; [|apply IH].
    destruct o as [sender path c|sender path items|m|f]; try constructor.
    - destruct (cpc_step s (precompile_caller sender path) c) as [[[[s' logs] ret] ms]|] eqn:Hc; [|constructor].
      apply acts_for_caller in Hc. apply Forall_forall. intros p Hp. apply in_map_iff in Hp as [m [<- Hm]].
      rewrite Forall_forall in Hc. cbn [fst snd]. now apply Hc.
    - pose proof (tx_msgs_own items s (precompile_caller sender path)) as Hc.
      apply Forall_forall. intros p Hp. apply in_map_iff in Hp as [m [<- Hm]].
      rewrite Forall_forall in Hc. cbn [fst snd]. now apply Hc.
  Qed.

  Section Emits.
    (* the native message servers announce every message they execute with one of the events the precompile looks
       for (x/staking: delegate / unbond / redelegate; x/distribution: withdraw_rewards) *)
    Hypothesis native_emits : forall s m s' evs, native_step s m = Some (s', evs) -> existsb counted evs = true.

    Lemma run_native_counted : forall ms s s' evs,
      run_native s ms = Some (s', evs) -> ms <> [] -> existsb counted evs = true.
    Proof.
      intros ms s s' evs H Hne. destruct ms as [|m r]; [contradiction|]. cbn [StakingCpc.run_native] in H.
      destruct (native_step s m) as [[s1 e1]|] eqn:Hn; [|discriminate].
      destruct (run_native s1 r) as [[s2 e2]|]; [|discriminate]. inversion H; subst.
      rewrite existsb_app. now rewrite (native_emits _ _ _ _ Hn).
    Qed.

    Lemma run_native_silent : forall ms s s' evs,
      run_native s ms = Some (s', evs) -> existsb counted evs = false -> s' = s /\ evs = [] /\ ms = [].
    Proof.
      intros ms s s' evs H Hf. destruct ms as [|m r].
      - cbn in H. inversion H. auto.
      - rewrite (run_native_counted _ _ _ _ H) in Hf; [discriminate | discriminate].
    Qed.

    (* a submission that announces nothing did nothing *)
    Lemma native_prog_silent : forall s d c s' evs ms,
      native_prog s d c = Some (s', evs, ms) -> existsb counted evs = false -> s' = s.
    Proof.
      intros s d c s' evs ms H Hf. unfold StakingCpc.native_prog in H.
      destruct (guard d c); [|discriminate].
      destruct (first_msgs s d c) as [m1|]; [|discriminate].
      destruct (run_native s m1) as [[s1 e1]|] eqn:H1; [|discriminate].
      destruct (second_msgs s1 d c) as [m2|]; [|discriminate].
      destruct (run_native s1 m2) as [[s2 e2]|] eqn:H2; [|discriminate]. inversion H; subst.
      rewrite existsb_app in Hf. apply orb_false_iff in Hf as [F1 F2].
      destruct (run_native_silent _ _ _ _ H1 F1) as [-> _]. destruct (run_native_silent _ _ _ _ H2 F2) as [-> _]. reflexivity.
    Qed.

    Lemma silent_events_no_logs : forall d evs, existsb counted evs = false -> flat_map (logs_of_event d) evs = [].
    Proof.
      intros d. induction evs as [|e r IH]; intros H; [reflexivity|]. cbn [existsb] in H.
      apply orb_false_iff in H as [He Hr]. cbn [flat_map]. rewrite (IH Hr). destruct e; try discriminate. reflexivity.
    Qed.

    (* one call of a transaction: same state and same logs on both chains; one view: the native query at that point *)
    Lemma item_A_eq_item_B : forall s caller i, fst (item_A s caller i) = item_B s caller i.
    Proof.
      intros s caller i. destruct i as [c|w]; cbn [StakingCpc.item_A StakingCpc.item_B].
      - rewrite cpc_step_is_native_prog.
        destruct (native_prog s caller c) as [[[s' evs] ms]|] eqn:Hp; [|reflexivity].
        unfold of_prog, emit. destruct (existsb counted evs) eqn:He; [reflexivity|].
        cbn [fst]. rewrite (native_prog_silent _ _ _ _ _ _ Hp He). now rewrite silent_events_no_logs.
      - cbn [fst]. now rewrite view_step_is_native_view.
    Qed.

    Lemma tx_A_eq_tx_B : forall items s caller, fst (tx_A s caller items) = tx_B s caller items.
    Proof.
      induction items as [|i r IH]; intros s caller; cbn [StakingCpc.tx_A StakingCpc.tx_B]; [reflexivity|].
      pose proof (item_A_eq_item_B s caller i) as Hi.
      destruct (item_A s caller i) as [[s1 o1] m1]. cbn [fst] in Hi. rewrite <- Hi.
      specialize (IH s1 caller). destruct (tx_A s1 caller r) as [[s2 o2] m2]. cbn [fst] in *. now rewrite <- IH.
    Qed.

    (* the view at any position of a transaction reports the native query evaluated on the state chain B is in after the
       native submissions of the calls before it *)
    Theorem tx_view_at_point : forall pre w post s caller,
      nth_error (tx_obs_A s caller (pre ++ IView w :: post)) (length pre) =
      Some (TView (native_view (fst (tx_B s caller pre)) w)).
    Proof.
      intros pre w post s caller. unfold StakingCpc.tx_obs_A. rewrite tx_A_app.
      pose proof (tx_A_eq_tx_B pre s caller) as Hpre. pose proof (tx_A_obs_length pre s caller) as Hlen.
      destruct (tx_A s caller pre) as [[s1 o1] m1]. cbn [fst snd] in *. rewrite <- Hpre. cbn [fst].
      cbn [StakingCpc.tx_A StakingCpc.item_A].
      destruct (tx_A s1 caller post) as [[s2 o2] m2]. cbn [fst snd].
      rewrite nth_error_app2 by lia. rewrite Hlen, Nat.sub_diag. cbn [nth_error].
      now rewrite view_step_is_native_view.
    Qed.

    Lemma step_A_eq_step_B : forall s o, step_A s o = step_B s o.
    Proof.
      intros s o. destruct o as [sender path c|sender path items|m|f]; cbn [StakingCpc.step_A StakingCpc.step_B]; try reflexivity.
      - rewrite cpc_step_is_native_prog.
        destruct (native_prog s (precompile_caller sender path) c) as [[[s' evs] ms]|] eqn:Hp; [|reflexivity].
        unfold of_prog, emit. destruct (existsb counted evs) eqn:He; [reflexivity|].
        symmetry. eapply native_prog_silent; eauto.
      - unfold StakingCpc.tx_state_A. now rewrite <- tx_A_eq_tx_B.
    Qed.

    Lemma logs_A_eq_logs_B : forall s o, logs_A s o = logs_B s o.
    Proof.
      intros s o. destruct o as [sender path c|sender path items|m|f]; cbn [StakingCpc.logs_A StakingCpc.logs_B]; try reflexivity.
      - rewrite cpc_step_is_native_prog.
        destruct (native_prog s (precompile_caller sender path) c) as [[[s' evs] ms]|]; [|reflexivity].
        unfold of_prog, emit. destruct (existsb counted evs) eqn:He; [reflexivity|].
        symmetry. now apply silent_events_no_logs.
      - unfold StakingCpc.tx_obs_A. now rewrite <- tx_A_eq_tx_B.
    Qed.

    Theorem twin_logs_agree : forall ops s, trace logs_A step_A s ops = trace logs_B step_B s ops.
    Proof.
      induction ops as [|o r IH]; intros s; cbn [StakingCpc.trace]; [reflexivity|].
      now rewrite logs_A_eq_logs_B, step_A_eq_step_B, IH.
    Qed.

    Theorem twin_histories_agree : forall ops s, run_A s ops = run_B s ops.
    Proof.
      unfold StakingCpc.run_A, StakingCpc.run_B. induction ops as [|o r IH]; intros s; cbn [fold_left]; [reflexivity|].
      now rewrite step_A_eq_step_B, IH.
    Qed.
  End Emits.

  (* ---------------------------------------------------------------- third parties *)
  Section Local.
    (* any observation of one account's part of the state (balance, delegations, unbonding / redelegation entries)
       which the native message servers change for nobody but the message's own delegator *)
    Variable obs : Type.
    Variable acct : nstate -> Z -> obs.
    Hypothesis native_local : forall s m s' evs x,
      native_step s m = Some (s', evs) -> x <> msg_delegator m -> acct s' x = acct s x.

    Lemma run_native_local : forall d ms s s' evs x,
      Forall (fun m => msg_delegator m = d) ms -> run_native s ms = Some (s', evs) -> x <> d -> acct s' x = acct s x.
    Proof.
      intros d. induction ms as [|m r IH]; intros s s' evs x HF H Hx; cbn [StakingCpc.run_native] in H.
      - now inversion H.
      - inversion HF as [|? ? Hm Hr]; subst.
        destruct (native_step s m) as [[s1 e1]|] eqn:Hn; [|discriminate].
        destruct (run_native s1 r) as [[s2 e2]|] eqn:Hrr; [|discriminate]. inversion H; subst.
        rewrite (IH _ _ _ _ Hr Hrr Hx). eapply native_local; eauto.
    Qed.

    Theorem third_parties_untouched : forall s caller c s' logs ret ms x,
      cpc_step s caller c = Some (s', logs, ret, ms) -> x <> caller -> acct s' x = acct s x.
    Proof.
      intros s caller c s' logs ret ms x H Hx. destruct (cpc_step_sound _ _ _ _ _ _ _ H) as [HF [evs [Hr _]]].
      eapply run_native_local; eauto.
    Qed.

    (* along a whole history: a step that is a precompile call by someone else never changes x's part of the state *)
    Theorem history_third_parties_untouched : forall s sender path c x,
      x <> precompile_caller sender path -> acct (step_A s (OCall nstate sender path c)) x = acct s x.
    Proof.
      intros s sender path c x Hx. cbn [StakingCpc.step_A].
      destruct (cpc_step s (precompile_caller sender path) c) as [[[[s' logs] ret] ms]|] eqn:Hc; [|reflexivity].
      eapply third_parties_untouched; eauto.
    Qed.
    (* ... nor does a whole transaction of precompile calls and views by someone else *)
    Theorem tx_third_parties_untouched : forall items s caller x,
      x <> caller -> acct (tx_state_A s caller items) x = acct s x.
    Proof.
      unfold StakingCpc.tx_state_A.
      induction items as [|i r IH]; intros s caller x Hx; cbn [StakingCpc.tx_A]; [reflexivity|].
      destruct (item_A s caller i) as [[s1 o1] m1] eqn:Hi. specialize (IH s1 caller x Hx).
      destruct (tx_A s1 caller r) as [[s2 o2] m2]. cbn [fst] in *. rewrite IH.
      destruct i as [c|w]; cbn [StakingCpc.item_A] in Hi.
      - destruct (cpc_step s caller c) as [[[[s' logs] ret] ms]|] eqn:Hc; inversion Hi; subst; [|reflexivity].
        eapply third_parties_untouched; eauto.
      - inversion Hi. reflexivity.
    Qed.
  End Local.
End Cpc.

(* ---------------------------------------------------------------- other denominations never matter *)
(* Two events that differ at most in what they carry beside the bond denom's amount *)
Definition ev_same_bond (e e' : nevent) : Prop :=
  match e, e' with
  | EvDelegate v d c, EvDelegate v' d' c' | EvUnbond v d c, EvUnbond v' d' c'
  | EvRedelegate v d c, EvRedelegate v' d' c' | EvWithdrawRewards v d c, EvWithdrawRewards v' d' c' =>
      v = v' /\ d = d' /\ amount_of BOND c = amount_of BOND c'
  | EvOther, EvOther => True
  | _, _ => False
  end.

Lemma ev_same_bond_logs : forall d e e', ev_same_bond e e' -> logs_of_event d e = logs_of_event d e' /\ counted e = counted e'.
Proof.
  intros d e e' H. destruct e, e'; cbn [ev_same_bond] in H; try contradiction; try (split; reflexivity);
    destruct H as [-> [-> Ha]]; cbn [logs_of_event counted]; rewrite Ha; split; reflexivity.
Qed.

Lemma emit_same_bond : forall d evs evs', Forall2 ev_same_bond evs evs' -> emit d evs = emit d evs'.
Proof.
  intros d evs evs' H. unfold emit.
  assert (E : existsb counted evs = existsb counted evs' /\ flat_map (logs_of_event d) evs = flat_map (logs_of_event d) evs').
  { induction H as [|e e' r r' He Hr [IH1 IH2]]; [split; reflexivity|].
    destruct (ev_same_bond_logs d e e' He) as [Hl Hc]. cbn [existsb flat_map]. now rewrite Hl, Hc, IH1, IH2. }
  destruct E as [-> ->]. reflexivity.
Qed.

Lemma ev_same_bond_refl : forall e, ev_same_bond e e.
Proof. destruct e; cbn; auto. Qed.

Section TwoNatives.
  (* two native sides which do the same to the state and announce it with events that agree on everything the
     precompile reads of them but may carry different amounts of OTHER denominations (say: the same chain without and with
     a rewards pool that somebody topped up with another coin) *)
  Variable nstate : Type.
  Variable native_step native_step' : nstate -> nmsg -> option (nstate * list nevent).
  Variable q_rewards : nstate -> Z -> list (Z * coins) * bool.
  Variable q_balance : nstate -> Z -> Z.
  Variable q_delegated_bonded : nstate -> Z -> list vinfo.
  Variable q_bonded : nstate -> list vinfo.
  Variable chain_id : Z.
  Variable typed_hash : Z -> typed -> Z.
  Variable recover : Z -> Z -> option Z.

  Definition same_upto_other_denoms : Prop := forall s m,
    match native_step s m, native_step' s m with
    | Some (s1, e1), Some (s2, e2) => s1 = s2 /\ Forall2 ev_same_bond e1 e2
    | None, None => True
    | _, _ => False
    end.
  Hypothesis Hsame : same_upto_other_denoms.

  Lemma run_native_same : forall ms s,
    match run_native nstate native_step s ms, run_native nstate native_step' s ms with
    | Some (s1, e1), Some (s2, e2) => s1 = s2 /\ Forall2 ev_same_bond e1 e2
    | None, None => True
    | _, _ => False
    end.
  Proof.
    induction ms as [|m r IH]; intros s; cbn [run_native]; [split; [reflexivity|constructor]|].
    pose proof (Hsame s m) as H.
    destruct (native_step s m) as [[s1 e1]|], (native_step' s m) as [[s1' e1']|]; try contradiction; [|exact I].
    destruct H as [<- He]. specialize (IH s1).
    destruct (run_native nstate native_step s1 r) as [[s2 e2]|], (run_native nstate native_step' s1 r) as [[s2' e2']|];
      try contradiction; [|exact I].
    destruct IH as [<- He2]. split; [reflexivity|]. now apply Forall2_app.
  Qed.

  Lemma native_prog_same : forall s d c,
    match native_prog nstate native_step q_rewards q_balance q_delegated_bonded q_bonded chain_id typed_hash recover s d c,
          native_prog nstate native_step' q_rewards q_balance q_delegated_bonded q_bonded chain_id typed_hash recover s d c with
    | Some (s1, e1, m1), Some (s2, e2, m2) => s1 = s2 /\ m1 = m2 /\ Forall2 ev_same_bond e1 e2
    | None, None => True
    | _, _ => False
    end.
  Proof.
    intros s d c. unfold native_prog.
    destruct (guard chain_id typed_hash recover d c); [|exact I].
    destruct (first_msgs nstate q_rewards s d c) as [m1|]; [|exact I].
    pose proof (run_native_same m1 s) as H1.
    destruct (run_native nstate native_step s m1) as [[s1 e1]|], (run_native nstate native_step' s m1) as [[s1' e1']|];
      try contradiction; [|exact I].
    destruct H1 as [<- He1].
    destruct (second_msgs nstate q_balance q_delegated_bonded q_bonded s1 d c) as [m2|]; [|exact I].
    pose proof (run_native_same m2 s1) as H2.
    destruct (run_native nstate native_step s1 m2) as [[s2 e2]|], (run_native nstate native_step' s1 m2) as [[s2' e2']|];
      try contradiction; [|exact I].
    destruct H2 as [<- He2]. split; [reflexivity|]. split; [reflexivity|]. now apply Forall2_app.
  Qed.

  (* the precompile call does not notice: same success, same state, same logs, same returned flag, same messages *)
  Theorem cpc_step_ignores_other_denoms : forall s caller c,
    cpc_step nstate native_step q_rewards q_balance q_delegated_bonded q_bonded chain_id typed_hash recover s caller c =
    cpc_step nstate native_step' q_rewards q_balance q_delegated_bonded q_bonded chain_id typed_hash recover s caller c.
  Proof.
    intros s caller c. rewrite !cpc_step_is_native_prog. pose proof (native_prog_same s caller c) as H.
    destruct (native_prog nstate native_step _ _ _ _ _ _ _ s caller c) as [[[s1 e1] m1]|],
             (native_prog nstate native_step' _ _ _ _ _ _ _ s caller c) as [[[s2 e2] m2]|]; try contradiction; [|reflexivity].
    destruct H as [<- [<- He]]. unfold of_prog. now rewrite (emit_same_bond caller e1 e2 He).
  Qed.
End TwoNatives.

(* ---------------------------------------------------------------- transfer(): the validator choice *)

Definition v_leP (a b : vinfo) : Prop := v_le a b = true.

Lemma v_le_total : forall a b, v_le a b = false -> v_le b a = true.
Proof. intros a b. unfold v_le. lia. Qed.

Lemma v_le_trans : forall a b c, v_leP a b -> v_leP b c -> v_leP a c.
Proof. intros a b c. unfold v_leP, v_le. lia. Qed.

Lemma v_le_antisym_key : forall a b, v_leP a b -> v_leP b a -> v_tokens a = v_tokens b /\ v_opkey a = v_opkey b.
Proof. intros a b. unfold v_leP, v_le. lia. Qed.

#[local] Instance v_leP_trans : Transitive v_leP := v_le_trans.

Lemma v_insert_perm : forall x l, Permutation (v_insert x l) (x :: l).
Proof.
  induction l as [|y r IH]; cbn [v_insert]; [apply Permutation_refl|].
  destruct (v_le x y); [apply Permutation_refl|].
  eapply Permutation_trans; [apply perm_skip, IH | apply perm_swap].
Qed.

Lemma v_sort_perm : forall l, Permutation (v_sort l) l.
Proof.
  induction l as [|x r IH]; cbn [v_sort fold_right]; [apply Permutation_refl|].
  eapply Permutation_trans; [apply v_insert_perm | apply perm_skip, IH].
Qed.

Lemma v_insert_sorted : forall x l, StronglySorted v_leP l -> StronglySorted v_leP (v_insert x l).
Proof.
  induction l as [|y r IH]; intros Hs; cbn [v_insert].
  - constructor; constructor.
  - inversion Hs as [|? ? Hr Hy]; subst. destruct (v_le x y) eqn:Hxy.
    + constructor; [exact Hs|]. constructor; [exact Hxy|].
      eapply Forall_impl; [|exact Hy]. intros z Hz. eapply v_le_trans; eauto.
    + constructor; [apply IH; exact Hr|].
      apply v_le_total in Hxy.
      eapply Permutation_Forall; [apply Permutation_sym, v_insert_perm|]. constructor; assumption.
Qed.

Lemma v_sort_sorted : forall l, StronglySorted v_leP (v_sort l).
Proof.
  induction l as [|x r IH]; cbn [v_sort fold_right]; [constructor | apply v_insert_sorted, IH].
Qed.

Lemma sorted_perm_unique : forall l1 l2,
  StronglySorted v_leP l1 -> StronglySorted v_leP l2 -> Permutation l1 l2 ->
  (forall a b, In a l1 -> In b l1 -> v_leP a b -> v_leP b a -> a = b) -> l1 = l2.
Proof.
  induction l1 as [|a r1 IH]; intros l2 H1 H2 HP Hanti.
  - apply Permutation_nil in HP. now subst.
  - destruct l2 as [|b r2]; [apply Permutation_sym, Permutation_nil in HP; discriminate|].
    inversion H1 as [|? ? Hs1 Ha]; subst. inversion H2 as [|? ? Hs2 Hb]; subst.
    assert (Hab : a = b).
    { assert (Hbin : In b (a :: r1)) by (eapply Permutation_in; [apply Permutation_sym, HP | now left]).
      assert (Hain : In a (b :: r2)) by (eapply Permutation_in; [apply HP | now left]).
      destruct Hbin as [->|Hbin]; [reflexivity|]. destruct Hain as [->|Hain]; [reflexivity|].
      rewrite Forall_forall in Ha, Hb.
      apply Hanti; [now left | now right | apply Ha; exact Hbin | apply Hb; exact Hain]. }
    subst b. f_equal. apply IH; try assumption.
    + eapply Permutation_cons_inv; exact HP.
    + intros x y Hx Hy. apply Hanti; now right.
Qed.

Lemma nodup_map_inj : forall (A B : Type) (f : A -> B) (l : list A) a b,
  NoDup (map f l) -> In a l -> In b l -> f a = f b -> a = b.
Proof.
  induction l as [|x r IH]; intros a b Hnd Ha Hb Hf; [contradiction|].
  cbn [map] in Hnd. inversion Hnd as [|? ? Hnotin Hnd']; subst.
  destruct Ha as [->|Ha], Hb as [->|Hb]; try reflexivity.
  - exfalso. apply Hnotin. rewrite Hf. now apply in_map.
  - exfalso. apply Hnotin. rewrite <- Hf. now apply in_map.
  - now apply IH.
Qed.

Lemma v_sort_perm_invariant : forall l l',
  Permutation l l' -> NoDup (map v_opkey l) -> v_sort l = v_sort l'.
Proof.
  intros l l' HP Hnd. apply sorted_perm_unique; try apply v_sort_sorted.
  - eapply Permutation_trans; [apply v_sort_perm|]. eapply Permutation_trans; [exact HP | apply Permutation_sym, v_sort_perm].
  - intros a b Ha Hb Hab Hba. destruct (v_le_antisym_key _ _ Hab Hba) as [_ Hk].
    apply (nodup_map_inj _ _ v_opkey l); try assumption.
    + eapply Permutation_in; [apply v_sort_perm | exact Ha].
    + eapply Permutation_in; [apply v_sort_perm | exact Hb].
Qed.

Lemma pick_validator_perm : forall d d' b b',
  Permutation d d' -> Permutation b b' -> NoDup (map v_opkey d) -> NoDup (map v_opkey b) ->
  pick_validator d b = pick_validator d' b'.
Proof.
  intros d d' b b' Hd Hb Hnd Hnb. unfold pick_validator.
  destruct d as [|x [|y r]].
  - apply Permutation_nil in Hd. subst d'.
    destruct b as [|z bz].
    + apply Permutation_nil in Hb. now subst.
    + destruct b' as [|z' bz']; [apply Permutation_sym, Permutation_nil in Hb; discriminate|].
      rewrite (v_sort_perm_invariant _ _ Hb Hnb), (Permutation_length Hb). reflexivity.
  - apply Permutation_length_1_inv in Hd. now subst.
  - pose proof (Permutation_length Hd) as Hl. destruct d' as [|x' [|y' r']]; try discriminate.
    now rewrite (v_sort_perm_invariant _ _ Hd Hnd).
Qed.

(* the chosen validator is one of the candidates *)
Lemma pick_validator_in : forall d b v, pick_validator d b = Some v ->
  exists w, v_addr w = v /\ (In w d \/ (d = [] /\ In w b)).
Proof.
  intros d b v H. unfold pick_validator in H. destruct d as [|x [|y r]].
  - destruct b as [|z bz]; [discriminate|].
    destruct (nth_error (v_sort (z :: bz)) (Nat.div (length (z :: bz)) 2)) as [w|] eqn:Hn; [|discriminate].
    inversion H. exists w. split; [reflexivity|]. right. split; [reflexivity|].
    eapply Permutation_in; [apply v_sort_perm | eapply nth_error_In; exact Hn].
  - inversion H. exists x. split; [reflexivity|]. left. now left.
  - destruct (nth_error (v_sort (x :: y :: r)) 0) as [w|] eqn:Hn; [|discriminate].
    inversion H. exists w. split; [reflexivity|]. left.
    eapply Permutation_in; [apply v_sort_perm | eapply nth_error_In; exact Hn].
Qed.
