(* C19 — proofs about Model/Eip712Enc.v.

   The hash H is a Section variable with one hypothesis: its output is 32 bytes long.  No statement assumes that
   H is injective or collision resistant; every injectivity statement is a REDUCTION: equal hashes of different
   typed data exhibit an explicit pair x <> y with H x = H y. *)
From Coq Require Import String Ascii.
From Coq Require Import List NArith ZArith Bool Lia PeanoNat.
From Evm Require Import SigWrap SigWrapProofs HdPath HdPathProofs Eip712Enc.
Import ListNotations.
Open Scope N_scope.

(* ------------------------------------------------------------------ induction over typed values *)

Section tval_ind2.
  Variable P : tval -> Prop.
  Hypothesis Hw : forall w, P (VWord w).
  Hypothesis Hs : forall s, P (VStr s).
  Hypothesis Hst : forall n ty fs, Forall (fun x => P (snd x)) fs -> P (VStruct n ty fs).
  Hypothesis Ha : forall l, Forall P l -> P (VArr l).
  Fixpoint tval_ind2 (t : tval) : P t :=
    match t with
    | VWord w => Hw w
    | VStr s => Hs s
    | VStruct n ty fs =>
      Hst n ty fs ((fix go (l : list (bytes * bytes * tval)) : Forall (fun x => P (snd x)) l :=
                      match l with
                      | [] => Forall_nil _
                      | x :: r => Forall_cons x (tval_ind2 (snd x)) (go r)
                      end) fs)
    | VArr l =>
      Ha l ((fix go (l : list tval) : Forall P l :=
               match l with
               | [] => Forall_nil _
               | x :: r => Forall_cons x (tval_ind2 x) (go r)
               end) l)
    end.
End tval_ind2.

(* atoms are 32-byte words *)
Inductive wf : tval -> Prop :=
| wf_word : forall w, length w = 32%nat -> wf (VWord w)
| wf_str : forall s, wf (VStr s)
| wf_struct : forall n ty fs, Forall (fun x => wf (snd x)) fs -> wf (VStruct n ty fs)
| wf_arr : forall l, Forall wf l -> wf (VArr l).

(* two typed values have the same shape as far as their type strings say so: atoms of the same kind; structures
   with EQUAL type strings have the same type name, the same member names and types, and members of the same
   shape; any two elements of two arrays have the same shape *)
Inductive compat : tval -> tval -> Prop :=
| c_word : forall w1 w2, compat (VWord w1) (VWord w2)
| c_str : forall s1 s2, compat (VStr s1) (VStr s2)
| c_struct : forall n1 ty1 fs1 n2 ty2 fs2,
    (ty1 = ty2 -> n1 = n2 /\ map fst fs1 = map fst fs2 /\ Forall2 compat (map snd fs1) (map snd fs2)) ->
    compat (VStruct n1 ty1 fs1) (VStruct n2 ty2 fs2)
| c_arr : forall l1 l2, (forall x y, In x l1 -> In y l2 -> compat x y) -> compat (VArr l1) (VArr l2).

Lemma map_fst_snd_eq {A B} : forall (l1 l2 : list (A * B)),
  map fst l1 = map fst l2 -> map snd l1 = map snd l2 -> l1 = l2.
Proof.
  induction l1 as [|[a b] l1 IH]; destruct l2 as [|[a' b'] l2]; cbn [map]; intros H1 H2; try discriminate; [reflexivity|].
  inversion H1; inversion H2; subst. f_equal. apply IH; assumption.
Qed.

Section HashProofs.
  Variable H : bytes -> bytes.
  Hypothesis H_len : forall x, length (H x) = 32%nat.

  Definition collision : Prop := exists x y : bytes, x <> y /\ H x = H y.

  Lemma H_inj_or : forall x y, H x = H y -> x = y \/ collision.
  Proof.
    intros x y E. destruct (bytes_eq_dec x y) as [E'|NE]; [left; exact E' | right; exists x, y; split; assumption].
  Qed.

  Notation enc_word := (enc_word H).

  Lemma enc_word_length : forall t, wf t -> length (enc_word t) = 32%nat.
  Proof. intros t W. destruct W; cbn [Eip712Enc.enc_word]; try apply H_len. assumption. Qed.

  (* equal concatenations of 32-byte pieces: the pieces are equal *)
  Lemma chunks_eq : forall (l1 l2 : list tval),
    Forall wf l1 -> Forall wf l2 -> flat_map enc_word l1 = flat_map enc_word l2 ->
    Forall2 (fun a b => enc_word a = enc_word b) l1 l2.
  Proof.
    induction l1 as [|a l1 IH]; intros l2 W1 W2 E.
    - destruct l2 as [|b l2]; [constructor|]. cbn [flat_map] in E. inversion W2; subst.
      pose proof (enc_word_length b H2) as L. apply (f_equal (@length N)) in E. rewrite app_length, L in E. cbn in E. lia.
    - destruct l2 as [|b l2].
      + cbn [flat_map] in E. inversion W1; subst.
        pose proof (enc_word_length a H2) as L. apply (f_equal (@length N)) in E. rewrite app_length, L in E. cbn in E. lia.
      + inversion W1; inversion W2; subst. cbn [flat_map] in E.
        assert (enc_word a = enc_word b /\ flat_map enc_word l1 = flat_map enc_word l2) as [E1 E2].
        { pose proof (enc_word_length a H2) as La. pose proof (enc_word_length b H6) as Lb.
          split.
          - apply (f_equal (firstn 32)) in E. rewrite !firstn_exact in E by assumption. exact E.
          - apply (f_equal (skipn 32)) in E. rewrite !skipn_exact in E by assumption. exact E. }
        constructor; [exact E1 | apply IH; assumption].
  Qed.

  Lemma Forall2_eq_or {A} : forall (R : A -> A -> Prop) (l1 l2 : list A),
    Forall2 (fun a b => a = b \/ collision) l1 l2 -> l1 = l2 \/ collision.
  Proof.
    intros R l1 l2 F. induction F as [|a b l1 l2 [E|C] F IH]; [left; reflexivity | | right; exact C].
    destruct IH as [E'|C]; [left; congruence | right; exact C].
  Qed.

  (* THE REDUCTION.  Equal encodings of two well-formed typed values of compatible shape: the values are equal,
     or a collision of H is exhibited. *)
  Theorem enc_word_injective_or_collision : forall t1 t2,
    wf t1 -> wf t2 -> compat t1 t2 -> enc_word t1 = enc_word t2 -> t1 = t2 \/ collision.
  Proof.
    induction t1 as [w1|s1|n1 ty1 fs1 IH|l1 IH] using tval_ind2; intros t2 W1 W2 C E;
      inversion C as [? ? | ? ? | ? ? ? n2 ty2 fs2 Hc | ? l2 Hc]; subst.
    - cbn [Eip712Enc.enc_word] in E. left. congruence.
    - cbn [Eip712Enc.enc_word] in E. apply H_inj_or in E as [E|Col]; [left; congruence | right; exact Col].
    - cbn [Eip712Enc.enc_word] in E. apply H_inj_or in E as [E|Col]; [|right; exact Col].
      assert (H ty1 = H ty2 /\ flat_map (fun x => enc_word (snd x)) fs1 = flat_map (fun x => enc_word (snd x)) fs2) as [Et Ef].
      { split.
        - apply (f_equal (firstn 32)) in E. rewrite !firstn_exact in E by apply H_len. exact E.
        - apply (f_equal (skipn 32)) in E. rewrite !skipn_exact in E by apply H_len. exact E. }
      apply H_inj_or in Et as [Et|Col]; [|right; exact Col]. subst ty2.
      destruct (Hc eq_refl) as (En & Enames & Fc). subst n2.
      inversion W1 as [| |? ? ? Wf1|]; inversion W2 as [| |? ? ? Wf2|]; subst.
      assert (Hm : forall fs : list (bytes * bytes * tval),
                 flat_map (fun x => enc_word (snd x)) fs = flat_map enc_word (map snd fs)).
      { induction fs as [|x fs IHf]; [reflexivity|]. cbn [flat_map map]. rewrite IHf. reflexivity. }
      rewrite !Hm in Ef.
      assert (Wm1 : Forall wf (map snd fs1)) by (apply Forall_map; exact Wf1).
      assert (Wm2 : Forall wf (map snd fs2)) by (apply Forall_map; exact Wf2).
      pose proof (chunks_eq _ _ Wm1 Wm2 Ef) as Fe.
      assert (IHm : Forall (fun t => forall t2, wf t -> wf t2 -> compat t t2 -> enc_word t = enc_word t2 -> t = t2 \/ collision) (map snd fs1))
        by (apply Forall_map; exact IH).
      assert (Fr : Forall2 (fun a b => a = b \/ collision) (map snd fs1) (map snd fs2)).
      { clear - IHm Wm1 Wm2 Fe Fc. revert IHm Wm1 Wm2 Fe.
        induction Fc as [|a b la lb Cab Fc IHc]; intros IHm Wm1 Wm2 Fe; [constructor|].
        inversion IHm as [|? ? IHa IHl]; inversion Wm1 as [|? ? Wa Wla]; inversion Wm2 as [|? ? Wb Wlb];
          inversion Fe as [|? ? ? ? Eab Fe']; subst.
        constructor; [apply IHa; assumption | apply IHc; assumption]. }
      apply (Forall2_eq_or (fun _ _ => True)) in Fr as [Ev|Col]; [|right; exact Col].
      left. f_equal. apply map_fst_snd_eq; assumption.
    - cbn [Eip712Enc.enc_word] in E. apply H_inj_or in E as [E|Col]; [|right; exact Col].
      inversion W1 as [| | |? Wl1]; inversion W2 as [| | |? Wl2]; subst.
      pose proof (chunks_eq _ _ Wl1 Wl2 E) as Fe.
      assert (Fr : Forall2 (fun a b => a = b \/ collision) l1 l2).
      { clear - IH Wl1 Wl2 Fe Hc. revert IH Wl1 Wl2 Hc.
        induction Fe as [|a b la lb Eab Fe IHe]; intros IH Wl1 Wl2 Hc; [constructor|].
        inversion IH as [|? ? IHa IHl]; inversion Wl1 as [|? ? Wa Wla]; inversion Wl2 as [|? ? Wb Wlb]; subst.
        constructor.
        - apply IHa; try assumption. apply Hc; left; reflexivity.
        - apply IHe; try assumption. intros x y Hx Hy. apply Hc; right; assumption. }
      apply (Forall2_eq_or (fun _ _ => True)) in Fr as [Ev|Col]; [left; congruence | right; exact Col].
  Qed.
End HashProofs.

(* ------------------------------------------------------------------ reading dynamic data under a type map *)

Lemma map_opt_Forall2 {A B} : forall (f : A -> option B) l l',
  map_opt f l = Some l' -> Forall2 (fun x y => f x = Some y) l l'.
Proof.
  induction l as [|x l IH]; intros l' E; cbn [map_opt] in E.
  - inversion E. constructor.
  - destruct (f x) as [y|] eqn:Ex; [|discriminate]. destruct (map_opt f l) as [ys|]; [|discriminate].
    inversion E; subst. constructor; [exact Ex | apply IH; reflexivity].
Qed.

Lemma map_opt_ext {A B} : forall (f g : A -> option B) l, (forall x, f x = g x) -> map_opt f l = map_opt g l.
Proof. intros f g l E. induction l as [|x l IH]; [reflexivity|]. cbn [map_opt]. rewrite E, IH. reflexivity. Qed.

Definition read_item_ (rs : bytes -> list kv -> option tval) (T : tymap) (ety : bytes) (item : json) : option tval :=
  match assoc ety T with
  | Some _ => match item with JObj o => rs ety o | _ => None end
  | None => read_prim ety item
  end.

Definition field_value (d : list kv) (name : bytes) : json :=
  match assoc name d with Some v => v | None => JNull end.

Definition read_value_ (rs : bytes -> list kv -> option tval) (T : tymap) (fty : bytes) (v : json) : option tval :=
  if ends_bracket fty then
    match v with
    | JArr items => option_map VArr (map_opt (read_item_ rs T (before_bracket fty)) items)
    | _ => None
    end
  else read_item_ rs T fty v.

Definition read_field_ (rs : bytes -> list kv -> option tval) (T : tymap) (d : list kv) (fld : bytes * bytes)
  : option (bytes * bytes * tval) :=
  option_map (fun t => (fst fld, snd fld, t)) (read_value_ rs T (snd fld) (field_value d (fst fld))).

Lemma read_struct_S : forall k T ty d,
  read_struct (S k) T ty d =
  match assoc ty T with
  | None => None
  | Some fs =>
    if (length fs <? length d)%nat then None
    else option_map (VStruct ty (encode_type T ty)) (map_opt (read_field_ (read_struct k T) T d) fs)
  end.
Proof.
  intros k T ty d. cbn [read_struct]. destruct (assoc ty T) as [fs|]; [|reflexivity].
  destruct (length fs <? length d)%nat; [reflexivity|]. f_equal.
  apply map_opt_ext. intros [name fty]. reflexivity.
Qed.

(* ---------------------------------------------------------------- atoms *)

Lemma word_of_Z_length : forall z, length (word_of_Z z) = 32%nat.
Proof. intros z. unfold word_of_Z. apply ser_be_length. Qed.

Lemma hex_pairs_length : forall n h, length h = (2 * n)%nat -> length (hex_pairs h) = n.
Proof.
  induction n as [|n IH]; intros h E.
  - destruct h; [reflexivity | discriminate].
  - destruct h as [|a [|b r]]; cbn [length] in E; try lia. cbn [hex_pairs length]. f_equal. apply IH. lia.
Qed.

Lemma enc_address_length : forall v w, enc_address v = Some w -> length w = 32%nat.
Proof.
  intros v w E. unfold enc_address in E. destruct v; try discriminate.
  destruct ((length (strip_0x s) =? 40)%nat && forallb is_hex (strip_0x s)) eqn:C; [|discriminate].
  apply andb_true_iff in C as [C _]. apply Nat.eqb_eq in C.
  assert (Ew : w = repeat 0 12 ++ hex_pairs (strip_0x s)) by congruence. rewrite Ew.
  rewrite app_length, repeat_length, (hex_pairs_length 20) by exact C. reflexivity.
Qed.

Lemma enc_int_length : forall sg size v w, enc_int sg size v = Some w -> length w = 32%nat.
Proof.
  intros sg size v w E. unfold enc_int in E.
  destruct (match v with JNum z => Some z | JStr s => parse_big256 s | _ => None end) as [z|]; [|discriminate].
  destruct (size <? bitlen z); [discriminate|]. destruct (negb sg && (z <? 0)%Z); [discriminate|].
  inversion E. apply word_of_Z_length.
Qed.

(* what kind of atom a primitive type reads *)
Lemma read_prim_kind : forall ty v t,
  read_prim ty v = Some t ->
  (ty = bs "string" /\ exists s, v = JStr s /\ t = VStr s) \/
  (ty <> bs "string" /\ exists w, t = VWord w /\ length w = 32%nat).
Proof.
  intros ty v t E. unfold read_prim in E.
  destruct (beqb ty (bs "string")) eqn:E1.
  - apply beqb_eq in E1. left. split; [exact E1|]. destruct v; try discriminate. inversion E. eauto.
  - apply beqb_neq in E1. right. split; [exact E1|].
    destruct (beqb ty (bs "bool")).
    { destruct v; try discriminate. inversion E. eexists. split; [reflexivity | apply word_of_Z_length]. }
    destruct (beqb ty (bs "address")).
    { destruct (enc_address v) as [w|] eqn:Ea; [|discriminate]. inversion E. exists w. split; [reflexivity|].
      eapply enc_address_length; exact Ea. }
    destruct (int_type ty) as [[sg size]|]; [|discriminate].
    destruct (enc_int sg size v) as [w|] eqn:Ei; [|discriminate]. inversion E. exists w. split; [reflexivity|].
    eapply enc_int_length; exact Ei.
Qed.

Lemma read_prim_wf : forall ty v t, read_prim ty v = Some t -> wf t.
Proof.
  intros ty v t E. apply read_prim_kind in E as [(_ & s & _ & ->)|(_ & w & -> & L)]; constructor. exact L.
Qed.

Lemma int_type_head : forall t x, int_type t = Some x -> exists r, t = 117 :: r \/ t = 105 :: r.
Proof.
  intros t x Hx. destruct t as [|c r]; [discriminate|]. exists r.
  destruct (N.eq_dec c 117) as [->|N1]; [left; reflexivity|].
  destruct (N.eq_dec c 105) as [->|N2]; [right; reflexivity|].
  exfalso. revert Hx. destruct c as [|p]; [discriminate|].
  do 7 (try destruct p as [p|p|]); try discriminate; congruence.
Qed.

(* no primitive type name starts with an upper-case letter *)
Lemma read_prim_head : forall ty v t, read_prim ty v = Some t -> exists c r, ty = c :: r /\ is_upper c = false.
Proof.
  intros ty v t E. unfold read_prim in E.
  destruct (beqb ty (bs "string")) eqn:E1; [apply beqb_eq in E1; subst; eexists; eexists; split; reflexivity|].
  destruct (beqb ty (bs "bool")) eqn:E2; [apply beqb_eq in E2; subst; eexists; eexists; split; reflexivity|].
  destruct (beqb ty (bs "address")) eqn:E3; [apply beqb_eq in E3; subst; eexists; eexists; split; reflexivity|].
  destruct (int_type ty) as [x|] eqn:Ei; [|discriminate].
  apply int_type_head in Ei as [r [->| ->]]; eexists; eexists; split; reflexivity.
Qed.

(* ---------------------------------------------------------------- reads are well formed *)

Lemma read_item_wf : forall (rs : bytes -> list kv -> option tval) T,
  (forall ty d t, rs ty d = Some t -> wf t) ->
  forall ety item t, read_item_ rs T ety item = Some t -> wf t.
Proof.
  intros rs T Hrs ety item t E. unfold read_item_ in E. destruct (assoc ety T).
  - destruct item; try discriminate. eapply Hrs; exact E.
  - eapply read_prim_wf; exact E.
Qed.

Lemma read_value_wf : forall (rs : bytes -> list kv -> option tval) T,
  (forall ty d t, rs ty d = Some t -> wf t) ->
  forall fty v t, read_value_ rs T fty v = Some t -> wf t.
Proof.
  intros rs T Hrs fty v t E. unfold read_value_ in E. destruct (ends_bracket fty).
  - destruct v; try discriminate.
    destruct (map_opt (read_item_ rs T (before_bracket fty)) l) as [xs|] eqn:Em; [|discriminate].
    inversion E; subst. constructor. apply map_opt_Forall2 in Em. clear E.
    induction Em as [|i x li lx Ex Em IH]; [constructor|]. constructor; [eapply read_item_wf; eassumption | exact IH].
  - eapply read_item_wf; eassumption.
Qed.

Theorem read_struct_wf : forall k T ty d t, read_struct k T ty d = Some t -> wf t.
Proof.
  induction k as [|k IH]; intros T ty d t E; [discriminate|].
  rewrite read_struct_S in E. destruct (assoc ty T) as [fs|]; [|discriminate].
  destruct (length fs <? length d)%nat; [discriminate|].
  destruct (map_opt (read_field_ (read_struct k T) T d) fs) as [F|] eqn:Em; [|discriminate].
  inversion E; subst. constructor. apply map_opt_Forall2 in Em. clear E.
  induction Em as [|fld x lf lx Ex Em IHm]; [constructor|]. constructor; [|exact IHm].
  unfold read_field_ in Ex. destruct (read_value_ _ _ _ _) as [tv|] eqn:Ev; [|discriminate].
  inversion Ex; subst. cbn [snd]. eapply read_value_wf; [|exact Ev]. intros ty' d' t'. apply IH.
Qed.

(* ------------------------------------------------------------------ the type string determines the type *)

Lemma split_first : forall (c : N) x1 x2 r1 r2,
  ~ In c x1 -> ~ In c x2 -> x1 ++ c :: r1 = x2 ++ c :: r2 -> x1 = x2 /\ r1 = r2.
Proof.
  intros c. induction x1 as [|a x1 IH]; intros x2 r1 r2 N1 N2 E.
  - destruct x2 as [|b x2]; cbn [app] in E.
    + inversion E. split; reflexivity.
    + inversion E; subst. exfalso. apply N2. left; reflexivity.
  - destruct x2 as [|b x2]; cbn [app] in E.
    + inversion E; subst. exfalso. apply N1. left; reflexivity.
    + inversion E; subst. destruct (IH x2 r1 r2) as [E1 E2]; try assumption.
      * intros Hin. apply N1. right; exact Hin.
      * intros Hin. apply N2. right; exact Hin.
      * split; [f_equal; exact E1 | exact E2].
Qed.

(* identifiers as they occur in type maps: none of  ' '  '('  ')'  ','  *)
Definition sep_char (c : N) : bool := (c =? 32) || (c =? 40) || (c =? 41) || (c =? 44).
Definition ident_ok (s : bytes) : bool := forallb (fun c => negb (sep_char c)) s.

Lemma ident_ok_notin : forall s c, ident_ok s = true -> sep_char c = true -> ~ In c s.
Proof.
  intros s c H Hc Hin. unfold ident_ok in H. rewrite forallb_forall in H. apply H in Hin. rewrite Hc in Hin. discriminate.
Qed.

Definition fields_ok (fs : tydef) : bool := forallb (fun f => ident_ok (fst f) && ident_ok (snd f)) fs.

Lemma member_str_eq : forall n t rest, member_str (n, t) ++ rest = t ++ 32 :: (n ++ 44 :: rest).
Proof. intros n t rest. unfold member_str. cbn [fst snd]. rewrite <- !app_assoc. reflexivity. Qed.

Lemma members_inj : forall fs1 fs2,
  fields_ok fs1 = true -> fields_ok fs2 = true ->
  flat_map member_str fs1 = flat_map member_str fs2 -> fs1 = fs2.
Proof.
  induction fs1 as [|[n1 t1] fs1 IH]; intros fs2 O1 O2 E.
  - destruct fs2 as [|[n2 t2] fs2]; [reflexivity|]. cbn [flat_map] in E. rewrite member_str_eq in E.
    destruct t2; discriminate.
  - destruct fs2 as [|[n2 t2] fs2].
    + cbn [flat_map] in E. rewrite member_str_eq in E. destruct t1; discriminate.
    + cbn [flat_map] in E. rewrite !member_str_eq in E.
      cbn [fields_ok forallb fst snd] in O1, O2.
      apply andb_true_iff in O1 as [O1 O1']. apply andb_true_iff in O1 as [On1 Ot1].
      apply andb_true_iff in O2 as [O2 O2']. apply andb_true_iff in O2 as [On2 Ot2].
      apply split_first in E as [Et E]; [|apply (ident_ok_notin _ _ Ot1); reflexivity | apply (ident_ok_notin _ _ Ot2); reflexivity].
      apply split_first in E as [En E]; [|apply (ident_ok_notin _ _ On1); reflexivity | apply (ident_ok_notin _ _ On2); reflexivity].
      subst. f_equal. apply IH; assumption.
Qed.

Lemma members_tail : forall fs, fs <> [] -> exists M, flat_map member_str fs = M ++ [44].
Proof.
  induction fs as [|[n t] fs IH]; intros HN; [contradiction|].
  destruct fs as [|f fs'].
  - exists (t ++ 32 :: n). cbn [flat_map]. rewrite app_nil_r. unfold member_str. cbn [fst snd].
    rewrite <- !app_assoc. reflexivity.
  - destruct IH as [M EM]; [discriminate|]. exists (member_str (n, t) ++ M).
    change (flat_map member_str ((n, t) :: f :: fs')) with (member_str (n, t) ++ flat_map member_str (f :: fs')).
    rewrite EM, app_assoc. reflexivity.
Qed.

Lemma members_chars : forall fs c, fields_ok fs = true -> In c (flat_map member_str fs) -> c <> 41 /\ c <> 40.
Proof.
  intros fs c O Hin. apply in_flat_map in Hin as ([n t] & Hf & Hc).
  unfold fields_ok in O. rewrite forallb_forall in O. apply O in Hf. cbn [fst snd] in Hf.
  apply andb_true_iff in Hf as [On Ot]. unfold member_str in Hc. cbn [fst snd] in Hc.
  apply in_app_or in Hc as [Hc|Hc].
  - split; intros ->; [exact (ident_ok_notin t 41 Ot eq_refl Hc) | exact (ident_ok_notin t 40 Ot eq_refl Hc)].
  - cbn [app] in Hc. destruct Hc as [<-|Hc]; [split; discriminate|]. apply in_app_or in Hc as [Hc|[<-|[]]].
    + split; intros ->; [exact (ident_ok_notin n 41 On eq_refl Hc) | exact (ident_ok_notin n 40 On eq_refl Hc)].
    + split; discriminate.
Qed.

(* the body of one type, before the closing parenthesis: "Name" for a member-less type (go-ethereum truncates
   the "("), else "Name(type name,...,type name" *)
Definition type_body (name : bytes) (fs : tydef) : bytes := removelast (name ++ [40] ++ flat_map member_str fs).

Lemma one_type_str_body : forall name fs, one_type_str name fs = type_body name fs ++ [41].
Proof. reflexivity. Qed.

Lemma type_body_nil : forall name, type_body name [] = name.
Proof. intros name. unfold type_body. cbn [flat_map]. rewrite app_nil_r. apply removelast_last. Qed.

Lemma type_body_cons : forall name fs M, flat_map member_str fs = M ++ [44] -> type_body name fs = name ++ 40 :: M.
Proof.
  intros name fs M E. unfold type_body. rewrite E.
  change (name ++ [40] ++ M ++ [44]) with (name ++ (40 :: M) ++ [44]). rewrite app_assoc. apply removelast_last.
Qed.

Lemma type_body_no_close : forall name fs, ident_ok name = true -> fields_ok fs = true -> ~ In 41 (type_body name fs).
Proof.
  intros name fs On Of Hin. destruct fs as [|f fs'].
  - rewrite type_body_nil in Hin. exact (ident_ok_notin name 41 On eq_refl Hin).
  - destruct (members_tail (f :: fs')) as [M EM]; [discriminate|].
    rewrite (type_body_cons _ _ _ EM) in Hin. apply in_app_or in Hin as [Hin|[E|Hin]].
    + exact (ident_ok_notin name 41 On eq_refl Hin).
    + discriminate.
    + assert (Hin' : In 41 (flat_map member_str (f :: fs'))) by (rewrite EM; apply in_or_app; left; exact Hin).
      destruct (members_chars _ _ Of Hin') as [C _]. apply C. reflexivity.
Qed.

(* one type string, followed by anything, determines the type's name and members *)
Theorem one_type_str_inj : forall n1 fs1 r1 n2 fs2 r2,
  ident_ok n1 = true -> fields_ok fs1 = true -> ident_ok n2 = true -> fields_ok fs2 = true ->
  one_type_str n1 fs1 ++ r1 = one_type_str n2 fs2 ++ r2 -> n1 = n2 /\ fs1 = fs2 /\ r1 = r2.
Proof.
  intros n1 fs1 r1 n2 fs2 r2 On1 Of1 On2 Of2 E.
  rewrite !one_type_str_body, <- !app_assoc in E. cbn [app] in E.
  apply split_first in E as [Eb Er]; [|apply type_body_no_close; assumption | apply type_body_no_close; assumption].
  assert (n1 = n2 /\ fs1 = fs2) as [En Ef]; [|repeat split; assumption].
  destruct fs1 as [|f1 fs1']; destruct fs2 as [|f2 fs2'].
  - rewrite !type_body_nil in Eb. split; [exact Eb | reflexivity].
  - exfalso. destruct (members_tail (f2 :: fs2')) as [M EM]; [discriminate|].
    rewrite type_body_nil, (type_body_cons _ _ _ EM) in Eb.
    apply (ident_ok_notin n1 40 On1 eq_refl). rewrite Eb. apply in_or_app. right; left; reflexivity.
  - exfalso. destruct (members_tail (f1 :: fs1')) as [M EM]; [discriminate|].
    rewrite type_body_nil, (type_body_cons _ _ _ EM) in Eb.
    apply (ident_ok_notin n2 40 On2 eq_refl). rewrite <- Eb. apply in_or_app. right; left; reflexivity.
  - destruct (members_tail (f1 :: fs1')) as [M1 EM1]; [discriminate|].
    destruct (members_tail (f2 :: fs2')) as [M2 EM2]; [discriminate|].
    rewrite (type_body_cons _ _ _ EM1), (type_body_cons _ _ _ EM2) in Eb.
    apply split_first in Eb as [En EM]; [|apply (ident_ok_notin _ _ On1); reflexivity | apply (ident_ok_notin _ _ On2); reflexivity].
    split; [exact En|]. apply members_inj; try assumption. rewrite EM1, EM2, EM. reflexivity.
Qed.

(* ---------------------------------------------------------------- well-formed type maps *)

(* names of structure types: identifier characters, no ']', first character an upper-case letter (so that no
   structure type is mistaken for a primitive one) *)
Definition name_ok (k : bytes) : bool :=
  ident_ok k && forallb (fun c => negb (c =? 93)) k && match k with c :: _ => is_upper c | [] => false end.
Definition typedef_ok (fs : tydef) : bool := fields_ok fs.
Definition tymap_ok (T : tymap) : bool := forallb (fun e => name_ok (fst e) && typedef_ok (snd e)) T.

Lemma assoc_In {A} : forall (k : bytes) (l : list (bytes * A)) v, assoc k l = Some v -> In (k, v) l.
Proof.
  intros k. induction l as [|[k' v'] l IH]; intros v E; cbn [assoc] in E; [discriminate|].
  destruct (beqb k k') eqn:B.
  - apply beqb_eq in B. inversion E; subst. left; reflexivity.
  - right. apply IH. exact E.
Qed.

Lemma tymap_ok_assoc : forall T ty fs,
  tymap_ok T = true -> assoc ty T = Some fs -> name_ok ty = true /\ typedef_ok fs = true.
Proof.
  intros T ty fs O E. apply assoc_In in E. unfold tymap_ok in O. rewrite forallb_forall in O.
  apply O in E. cbn [fst snd] in E. apply andb_true_iff in E. exact E.
Qed.

Lemma arr_literal_ne : forall a (m : bytes), a <> 93 -> (match a :: m with 93 :: 91 :: _ => true | _ => false end) = false.
Proof.
  intros a m Na. destruct a as [|p]; [reflexivity|].
  do 7 (try destruct p as [p|p|]); try reflexivity. exfalso. apply Na. reflexivity.
Qed.

Lemma name_ok_trim : forall k, name_ok k = true -> trim_arr k = k.
Proof.
  intros k O. unfold name_ok in O. apply andb_true_iff in O as [O _]. apply andb_true_iff in O as [_ O].
  unfold trim_arr, has_suffix_arr. destruct (rev k) as [|a m] eqn:E; [reflexivity|].
  rewrite arr_literal_ne; [reflexivity|]. intros ->.
  rewrite forallb_forall in O. assert (Hin : In 93 k) by (apply in_rev; rewrite E; left; reflexivity).
  apply O in Hin. discriminate.
Qed.

Lemma name_ok_upper : forall k, name_ok k = true -> exists c r, k = c :: r /\ is_upper c = true.
Proof.
  intros k O. unfold name_ok in O. apply andb_true_iff in O as [_ O]. destruct k as [|c r]; [discriminate|]. eauto.
Qed.

Lemma name_ok_ident : forall k, name_ok k = true -> ident_ok k = true.
Proof. intros k O. unfold name_ok in O. apply andb_true_iff in O as [O _]. apply andb_true_iff in O as [O _]. exact O. Qed.

(* ---------------------------------------------------------------- EncodeType starts with the primary type *)

Lemma deps_extends : forall f T ty found, exists ext, deps_f f T ty found = found ++ ext.
Proof.
  induction f as [|f IH]; intros T ty found.
  - exists []. cbn [deps_f]. rewrite app_nil_r. reflexivity.
  - cbn [deps_f]. destruct (mem (trim_arr ty) found); [exists []; rewrite app_nil_r; reflexivity|].
    destruct (assoc (trim_arr ty) T) as [fs|]; [|exists []; rewrite app_nil_r; reflexivity].
    assert (Hf : forall fs acc, exists ext, fold_left (fun fnd fld => deps_f f T (@snd bytes bytes fld) fnd) fs acc = acc ++ ext).
    { induction fs0 as [|fld fs0 IHf]; intros acc; [exists []; rewrite app_nil_r; reflexivity|].
      cbn [fold_left]. destruct (IH T (snd fld) acc) as [e1 E1]. rewrite E1.
      destruct (IHf (acc ++ e1)) as [e2 E2]. rewrite E2. exists (e1 ++ e2). rewrite app_assoc. reflexivity. }
    destruct (Hf fs (found ++ [trim_arr ty])) as [ext E]. rewrite E. exists ([trim_arr ty] ++ ext).
    rewrite app_assoc. reflexivity.
Qed.

Lemma encode_type_head : forall T ty fs,
  assoc ty T = Some fs -> trim_arr ty = ty -> exists R, encode_type T ty = one_type_str ty fs ++ R.
Proof.
  intros T ty fs E Et. unfold encode_type. cbn [deps_f]. rewrite Et. cbn [mem existsb]. rewrite E.
  assert (Hf : forall fs acc, exists ext, fold_left (fun fnd fld => deps_f (length T) T (@snd bytes bytes fld) fnd) fs acc = acc ++ ext).
  { induction fs0 as [|fld fs0 IHf]; intros acc; [exists []; rewrite app_nil_r; reflexivity|].
    cbn [fold_left]. destruct (deps_extends (length T) T (snd fld) acc) as [e1 E1]. rewrite E1.
    destruct (IHf (acc ++ e1)) as [e2 E2]. rewrite E2. exists (e1 ++ e2). rewrite app_assoc. reflexivity. }
  destruct (Hf fs ([] ++ [ty])) as [ext Ex]. rewrite Ex. cbn [app flat_map]. rewrite E. eexists. reflexivity.
Qed.

(* equal type strings: same type name, same members *)
Theorem encode_type_inj : forall T1 T2 ty1 ty2 fs1 fs2,
  tymap_ok T1 = true -> tymap_ok T2 = true -> assoc ty1 T1 = Some fs1 -> assoc ty2 T2 = Some fs2 ->
  encode_type T1 ty1 = encode_type T2 ty2 -> ty1 = ty2 /\ fs1 = fs2.
Proof.
  intros T1 T2 ty1 ty2 fs1 fs2 O1 O2 A1 A2 E.
  destruct (tymap_ok_assoc _ _ _ O1 A1) as [N1 D1]. destruct (tymap_ok_assoc _ _ _ O2 A2) as [N2 D2].
  destruct (encode_type_head T1 ty1 fs1 A1 (name_ok_trim _ N1)) as [R1 E1].
  destruct (encode_type_head T2 ty2 fs2 A2 (name_ok_trim _ N2)) as [R2 E2].
  rewrite E1, E2 in E. unfold typedef_ok in D1, D2.
  apply one_type_str_inj in E as (En & Ef & _); try assumption; try (apply name_ok_ident; assumption).
  split; assumption.
Qed.

(* ---------------------------------------------------------------- two reads have compatible shapes *)

Lemma map_opt_read_field_names : forall rs T d fs F,
  map_opt (read_field_ rs T d) fs = Some F -> map fst F = fs.
Proof.
  intros rs T d. induction fs as [|[n t] fs IH]; intros F E; cbn [map_opt] in E.
  - inversion E. reflexivity.
  - destruct (read_field_ rs T d (n, t)) as [x|] eqn:Ex; [|discriminate].
    destruct (map_opt (read_field_ rs T d) fs) as [xs|] eqn:Em; [|discriminate]. inversion E; subst.
    unfold read_field_ in Ex. destruct (read_value_ _ _ _ _); [|discriminate]. inversion Ex; subst.
    cbn [map fst snd]. f_equal. apply IH. reflexivity.
Qed.

Section Compat.
  Variables T1 T2 : tymap.
  Hypothesis O1 : tymap_ok T1 = true.
  Hypothesis O2 : tymap_ok T2 = true.
  Variables rs1 rs2 : bytes -> list kv -> option tval.
  Hypothesis Hrs : forall ty d1 d2 t1 t2, rs1 ty d1 = Some t1 -> rs2 ty d2 = Some t2 -> compat t1 t2.

  Lemma struct_not_prim : forall T ety fs v t, tymap_ok T = true -> assoc ety T = Some fs -> read_prim ety v = Some t -> False.
  Proof.
    intros T ety fs v t O A E. destruct (tymap_ok_assoc _ _ _ O A) as [N _].
    apply name_ok_upper in N as (c & r & -> & U). apply read_prim_head in E as (c' & r' & E' & L).
    inversion E'; subst. congruence.
  Qed.

  Lemma read_item_compat : forall ety i1 i2 x y,
    read_item_ rs1 T1 ety i1 = Some x -> read_item_ rs2 T2 ety i2 = Some y -> compat x y.
  Proof.
    intros ety i1 i2 x y E1 E2. unfold read_item_ in E1, E2.
    destruct (assoc ety T1) as [f1|] eqn:A1; destruct (assoc ety T2) as [f2|] eqn:A2.
    - destruct i1; try discriminate. destruct i2; try discriminate. eapply Hrs; eassumption.
    - destruct i1; try discriminate. exfalso. eapply (struct_not_prim T1); eassumption.
    - destruct i2; try discriminate. exfalso. eapply (struct_not_prim T2); eassumption.
    - apply read_prim_kind in E1 as [(Es & s1 & _ & ->)|(Ens & w1 & -> & _)];
        apply read_prim_kind in E2 as [(Es' & s2 & _ & ->)|(Ens' & w2 & -> & _)]; try contradiction; constructor.
  Qed.

  Lemma read_value_compat : forall fty v1 v2 x y,
    read_value_ rs1 T1 fty v1 = Some x -> read_value_ rs2 T2 fty v2 = Some y -> compat x y.
  Proof.
    intros fty v1 v2 x y E1 E2. unfold read_value_ in E1, E2. destruct (ends_bracket fty).
    - destruct v1; try discriminate. destruct v2; try discriminate.
      destruct (map_opt (read_item_ rs1 T1 (before_bracket fty)) l) as [xs|] eqn:M1; [|discriminate].
      destruct (map_opt (read_item_ rs2 T2 (before_bracket fty)) l0) as [ys|] eqn:M2; [|discriminate].
      inversion E1; inversion E2; subst. constructor. intros a b Ha Hb.
      apply map_opt_Forall2 in M1, M2.
      assert (exists i, read_item_ rs1 T1 (before_bracket fty) i = Some a) as [ia Ea].
      { clear - M1 Ha. induction M1 as [|i x li lx Ex M IH]; [contradiction|]. destruct Ha as [<-|Ha]; [eauto | apply IH; exact Ha]. }
      assert (exists i, read_item_ rs2 T2 (before_bracket fty) i = Some b) as [ib Eb].
      { clear - M2 Hb. induction M2 as [|i x li lx Ex M IH]; [contradiction|]. destruct Hb as [<-|Hb]; [eauto | apply IH; exact Hb]. }
      eapply read_item_compat; eassumption.
    - eapply read_item_compat; eassumption.
  Qed.

  Lemma read_fields_compat : forall d1 d2 fs F1 F2,
    map_opt (read_field_ rs1 T1 d1) fs = Some F1 -> map_opt (read_field_ rs2 T2 d2) fs = Some F2 ->
    Forall2 compat (map snd F1) (map snd F2).
  Proof.
    intros d1 d2. induction fs as [|fld fs IH]; intros F1 F2 E1 E2; cbn [map_opt] in E1, E2.
    - inversion E1; inversion E2. constructor.
    - destruct (read_field_ rs1 T1 d1 fld) as [x|] eqn:X1; [|discriminate].
      destruct (map_opt (read_field_ rs1 T1 d1) fs) as [xs|] eqn:M1; [|discriminate].
      destruct (read_field_ rs2 T2 d2 fld) as [y|] eqn:X2; [|discriminate].
      destruct (map_opt (read_field_ rs2 T2 d2) fs) as [ys|] eqn:M2; [|discriminate].
      inversion E1; inversion E2; subst. cbn [map]. constructor; [|apply IH; reflexivity].
      unfold read_field_ in X1, X2.
      destruct (read_value_ rs1 T1 _ _) as [a|] eqn:V1; [|discriminate].
      destruct (read_value_ rs2 T2 _ _) as [b|] eqn:V2; [|discriminate].
      inversion X1; inversion X2; subst. cbn [snd]. eapply read_value_compat; eassumption.
  Qed.
End Compat.

Theorem read_struct_compat : forall k1 k2 T1 T2 ty1 ty2 d1 d2 t1 t2,
  tymap_ok T1 = true -> tymap_ok T2 = true ->
  read_struct k1 T1 ty1 d1 = Some t1 -> read_struct k2 T2 ty2 d2 = Some t2 -> compat t1 t2.
Proof.
  induction k1 as [|k1 IH]; intros k2 T1 T2 ty1 ty2 d1 d2 t1 t2 O1 O2 E1 E2; [discriminate|].
  destruct k2 as [|k2]; [discriminate|]. rewrite read_struct_S in E1, E2.
  destruct (assoc ty1 T1) as [fs1|] eqn:A1; [|discriminate]. destruct (assoc ty2 T2) as [fs2|] eqn:A2; [|discriminate].
  destruct (length fs1 <? length d1)%nat; [discriminate|]. destruct (length fs2 <? length d2)%nat; [discriminate|].
  destruct (map_opt (read_field_ (read_struct k1 T1) T1 d1) fs1) as [F1|] eqn:M1; [|discriminate].
  destruct (map_opt (read_field_ (read_struct k2 T2) T2 d2) fs2) as [F2|] eqn:M2; [|discriminate].
  inversion E1; inversion E2; subst. constructor. intros Eenc.
  destruct (encode_type_inj _ _ _ _ _ _ O1 O2 A1 A2 Eenc) as [Ety Efs]. subst ty2 fs2.
  split; [reflexivity|]. split.
  - rewrite (map_opt_read_field_names _ _ _ _ _ M1), (map_opt_read_field_names _ _ _ _ _ M2). reflexivity.
  - eapply (read_fields_compat T1 T2 O1 O2 (read_struct k1 T1) (read_struct k2 T2)); [|exact M1 | exact M2].
    intros ty d1' d2' x y X Y. eapply IH; [exact O1 | exact O2 | exact X | exact Y].
Qed.

Theorem readings_well_formed_and_compatible : forall k1 k2 T1 T2 ty1 ty2 d1 d2 t1 t2,
  tymap_ok T1 = true -> tymap_ok T2 = true ->
  read_struct k1 T1 ty1 d1 = Some t1 -> read_struct k2 T2 ty2 d2 = Some t2 ->
  wf t1 /\ wf t2 /\ compat t1 t2.
Proof.
  intros k1 k2 T1 T2 ty1 ty2 d1 d2 t1 t2 O1 O2 E1 E2. split; [|split].
  - eapply read_struct_wf; exact E1.
  - eapply read_struct_wf; exact E2.
  - exact (read_struct_compat _ _ _ _ _ _ _ _ _ _ O1 O2 E1 E2).
Qed.

(* ------------------------------------------------------------------ HashStruct, TypedDataAndHash, the rendering *)

(* the typed reading of dynamic data: what HashStruct hashes *)
Definition typed_view (T : tymap) (ty : bytes) (d : list kv) : option tval :=
  read_struct (S (jsize (JObj d))) T ty d.

Lemma read_struct_is_struct : forall k T ty d t,
  read_struct k T ty d = Some t -> exists F, t = VStruct ty (encode_type T ty) F.
Proof.
  intros k T ty d t E. destruct k as [|k]; [discriminate|]. rewrite read_struct_S in E.
  destruct (assoc ty T); [|discriminate]. destruct (_ <? _)%nat; [discriminate|].
  destruct (map_opt _ _) as [F|]; [|discriminate]. inversion E. eauto.
Qed.

Section HashStruct.
  Variable H : bytes -> bytes.
  Hypothesis H_len : forall x, length (H x) = 32%nat.

  Lemma hash_struct_view : forall T ty d h,
    hash_struct H T ty d = Some h -> assoc ty T <> None ->
    exists t, typed_view T ty d = Some t /\ h = enc_word H t.
  Proof.
    intros T ty d h E A. unfold hash_struct in E. destruct (negb (types_valid T)); [discriminate|].
    destruct (assoc ty T) as [fs0|]; [|contradiction].
    fold (typed_view T ty d) in E. destruct (typed_view T ty d) as [t|] eqn:V; [|discriminate].
    exists t. split; [reflexivity|]. cbn [option_map] in E. inversion E.
    destruct (read_struct_is_struct _ _ _ _ _ V) as [F ->]. reflexivity.
  Qed.

  Lemma hash_struct_length : forall T ty d h, hash_struct H T ty d = Some h -> length h = 32%nat.
  Proof.
    intros T ty d h E. unfold hash_struct in E. destruct (negb (types_valid T)); [discriminate|].
    destruct (assoc ty T).
    - destruct (read_struct _ _ _ _); [|discriminate]. inversion E. apply H_len.
    - destruct d; [|discriminate]. inversion E. apply H_len.
  Qed.

  (* HashStruct: equal hashes of data under (possibly different) type maps => the same typed value, or a collision *)
  Theorem hash_struct_injective_or_collision : forall T1 T2 ty1 ty2 d1 d2 h,
    tymap_ok T1 = true -> tymap_ok T2 = true -> assoc ty1 T1 <> None -> assoc ty2 T2 <> None ->
    hash_struct H T1 ty1 d1 = Some h -> hash_struct H T2 ty2 d2 = Some h ->
    (exists t, typed_view T1 ty1 d1 = Some t /\ typed_view T2 ty2 d2 = Some t) \/ collision H.
  Proof.
    intros T1 T2 ty1 ty2 d1 d2 h O1 O2 A1 A2 E1 E2.
    apply hash_struct_view in E1 as (t1 & V1 & ->); [|exact A1].
    apply hash_struct_view in E2 as (t2 & V2 & E); [|exact A2].
    assert (W1 : wf t1) by (eapply read_struct_wf; exact V1).
    assert (W2 : wf t2) by (eapply read_struct_wf; exact V2).
    assert (C : compat t1 t2) by (eapply read_struct_compat; [exact O1 | exact O2 | exact V1 | exact V2]).
    destruct (enc_word_injective_or_collision H H_len t1 t2 W1 W2 C E) as [->|Col]; [left | right; exact Col].
    exists t2. split; assumption.
  Qed.

  Definition EIP712DOMAIN : bytes := bs "EIP712Domain".

  (* TypedDataAndHash: the 66 bytes 0x19 0x01 || domain separator || message hash *)
  Theorem typed_data_injective_or_collision : forall T1 T2 p1 p2 dom1 dom2 m1 m2 r,
    tymap_ok T1 = true -> tymap_ok T2 = true ->
    assoc EIP712DOMAIN T1 <> None -> assoc EIP712DOMAIN T2 <> None -> assoc p1 T1 <> None -> assoc p2 T2 <> None ->
    typed_data_bytes H T1 p1 dom1 m1 = Some r -> typed_data_bytes H T2 p2 dom2 m2 = Some r ->
    ((exists td, typed_view T1 EIP712DOMAIN dom1 = Some td /\ typed_view T2 EIP712DOMAIN dom2 = Some td) /\
     (exists tm, typed_view T1 p1 m1 = Some tm /\ typed_view T2 p2 m2 = Some tm)) \/ collision H.
  Proof.
    intros T1 T2 p1 p2 dom1 dom2 m1 m2 r O1 O2 AD1 AD2 AP1 AP2 E1 E2.
    unfold typed_data_bytes in E1, E2. fold EIP712DOMAIN in E1, E2.
    destruct (hash_struct H T1 EIP712DOMAIN dom1) as [ds1|] eqn:D1; [|discriminate].
    destruct (hash_struct H T1 p1 m1) as [hs1|] eqn:M1; [|discriminate].
    destruct (hash_struct H T2 EIP712DOMAIN dom2) as [ds2|] eqn:D2; [|discriminate].
    destruct (hash_struct H T2 p2 m2) as [hs2|] eqn:M2; [|discriminate].
    inversion E1 as [R1]; inversion E2 as [R2]. rewrite <- R2 in R1. cbn [app] in R1.
    inversion R1 as [R]. clear R1.
    pose proof (hash_struct_length _ _ _ _ D1) as L1. pose proof (hash_struct_length _ _ _ _ D2) as L2.
    assert (ds1 = ds2 /\ hs1 = hs2) as [-> ->].
    { split.
      - apply (f_equal (firstn 32)) in R. rewrite !firstn_exact in R by assumption. exact R.
      - apply (f_equal (skipn 32)) in R. rewrite !skipn_exact in R by assumption. exact R. }
    destruct (hash_struct_injective_or_collision _ _ _ _ _ _ _ O1 O2 AD1 AD2 D1 D2) as [Vd|Col]; [|right; exact Col].
    destruct (hash_struct_injective_or_collision _ _ _ _ _ _ _ O1 O2 AP1 AP2 M1 M2) as [Vm|Col]; [|right; exact Col].
    left. split; assumption.
  Qed.

  (* x/cpc/eip712 EIP712HashingTypedMessage: H (0x19 0x01 || domain separator || message hash) *)
  Theorem typed_message_hash_injective_or_collision : forall T1 T2 p1 p2 dom1 dom2 m1 m2 h,
    tymap_ok T1 = true -> tymap_ok T2 = true ->
    assoc EIP712DOMAIN T1 <> None -> assoc EIP712DOMAIN T2 <> None -> assoc p1 T1 <> None -> assoc p2 T2 <> None ->
    typed_message_hash H T1 p1 dom1 m1 = Some h -> typed_message_hash H T2 p2 dom2 m2 = Some h ->
    ((exists td, typed_view T1 EIP712DOMAIN dom1 = Some td /\ typed_view T2 EIP712DOMAIN dom2 = Some td) /\
     (exists tm, typed_view T1 p1 m1 = Some tm /\ typed_view T2 p2 m2 = Some tm)) \/ collision H.
  Proof.
    intros T1 T2 p1 p2 dom1 dom2 m1 m2 h O1 O2 AD1 AD2 AP1 AP2 E1 E2.
    assert (exists r1, typed_data_bytes H T1 p1 dom1 m1 = Some r1 /\ h = H r1) as (r1 & B1 & Eh1).
    { unfold typed_message_hash in E1. unfold typed_data_bytes. fold EIP712DOMAIN in E1 |- *.
      destruct (hash_struct H T1 p1 m1); [|discriminate]. destruct (hash_struct H T1 EIP712DOMAIN dom1); [|discriminate].
      inversion E1. eauto. }
    assert (exists r2, typed_data_bytes H T2 p2 dom2 m2 = Some r2 /\ h = H r2) as (r2 & B2 & Eh2).
    { unfold typed_message_hash in E2. unfold typed_data_bytes. fold EIP712DOMAIN in E2 |- *.
      destruct (hash_struct H T2 p2 m2); [|discriminate]. destruct (hash_struct H T2 EIP712DOMAIN dom2); [|discriminate].
      inversion E2. eauto. }
    rewrite Eh1 in Eh2. apply H_inj_or in Eh2 as [->|Col]; [|right; exact Col].
    eapply typed_data_injective_or_collision; eassumption.
  Qed.
End HashStruct.

(* ------------------------------------------------------------------ the rendering of a sign document *)

Definition TX : bytes := bs "Tx".

(* chain number, derived type map and flattened message of a sign document (what render hashes) *)
Definition doc_parts (j : json) : option (Z * tymap * list kv) :=
  match j with
  | JObj doc =>
    match assoc (bs "chain_id") doc with
    | Some (JStr s) =>
      match chain_id_number s with
      | Some c =>
        match flatten doc with
        | Some (message, msgs) =>
          match types_of_msgs base_types 0 msgs with
          | Some T => Some (c, T, message)
          | None => None
          end
        | None => None
        end
      | None => None
      end
    | _ => None
    end
  | _ => None
  end.

Lemma render_parts : forall H j r,
  render H j = Some r ->
  exists c T m, doc_parts j = Some (c, T, m) /\ typed_data_bytes H T TX (cosmos_domain c) m = Some r.
Proof.
  intros H j r E. unfold render in E. destruct j; try discriminate. unfold doc_parts.
  destruct (assoc (bs "chain_id") l) as [[| | | |s| |]|]; try discriminate.
  destruct (chain_id_number s) as [c|]; [|discriminate]. unfold render_with_chain in E.
  destruct (flatten l) as [[message msgs]|]; [|discriminate].
  destruct (types_of_msgs base_types 0 msgs) as [T|]; [|discriminate].
  exists c, T, message. split; [reflexivity | exact E].
Qed.

Section Render.
  Variable H : bytes -> bytes.
  Hypothesis H_len : forall x, length (H x) = 32%nat.

  (* equal renderings of two sign documents: the typed message (every declared member of the Tx structure with its
     name, type and value, recursively) and the typed domain are equal — or a collision of H is exhibited *)
  Theorem render_injective_or_collision : forall j1 j2 r c1 T1 m1 c2 T2 m2,
    doc_parts j1 = Some (c1, T1, m1) -> doc_parts j2 = Some (c2, T2, m2) ->
    tymap_ok T1 = true -> tymap_ok T2 = true ->
    assoc EIP712DOMAIN T1 <> None -> assoc EIP712DOMAIN T2 <> None -> assoc TX T1 <> None -> assoc TX T2 <> None ->
    render H j1 = Some r -> render H j2 = Some r ->
    ((exists td, typed_view T1 EIP712DOMAIN (cosmos_domain c1) = Some td /\ typed_view T2 EIP712DOMAIN (cosmos_domain c2) = Some td) /\
     (exists tm, typed_view T1 TX m1 = Some tm /\ typed_view T2 TX m2 = Some tm)) \/ collision H.
  Proof.
    intros j1 j2 r c1 T1 m1 c2 T2 m2 P1 P2 O1 O2 AD1 AD2 AT1 AT2 E1 E2.
    apply render_parts in E1 as (c1' & T1' & m1' & P1' & B1). rewrite P1 in P1'. inversion P1'; subst.
    apply render_parts in E2 as (c2' & T2' & m2' & P2' & B2). rewrite P2 in P2'. inversion P2'; subst.
    eapply typed_data_injective_or_collision; eassumption.
  Qed.
End Render.
