(* C19 — from the typed view back to the JSON document: two documents (objects with unique keys) that are read to the
   SAME typed value — under possibly different type maps — agree member by member: the same keys, equal strings and
   booleans, the same numbers, the same addresses, recursively through arrays and nested objects.
   With Eip712WalkProofs.render_injective this closes the chain
        equal 66-byte renderings  =>  equal typed views (or a collision of H)  =>  member-wise equal documents. *)
From Coq Require Import String Ascii.
From Coq Require Import List NArith ZArith Bool Lia PeanoNat.
From Coq Require Import ZifyBool ZifyN ZifyNat.
From Evm Require Import SigWrap SigWrapProofs HdPath HdPathProofs Eip712Enc Eip712EncProofs Eip712WalkProofs.
Import ListNotations.
Open Scope N_scope.

(* ------------------------------------------------------------------ atoms *)

Definition num_of (v : json) : option Z :=
  match v with JNum z => Some z | JStr s => parse_big256 s | _ => None end.

(* two JSON values that a primitive EIP-712 type reads to the same atom: identical, or the same integer modulo 2^256
   (a JSON number or a decimal/hex string; EncodeData stores U256Bytes), or the same 20-byte address (hex, any case) *)
Definition atom_same (v1 v2 : json) : Prop :=
  v1 = v2 \/
  (exists z1 z2, num_of v1 = Some z1 /\ num_of v2 = Some z2 /\ (z1 mod TWO256 = z2 mod TWO256)%Z) \/
  (exists w, enc_address v1 = Some w /\ enc_address v2 = Some w).

Lemma ser_be_inj : forall n a b, a < 256 ^ N.of_nat n -> b < 256 ^ N.of_nat n -> ser_be n a = ser_be n b -> a = b.
Proof. intros n a b Ha Hb E. rewrite <- (parse_ser n a Ha), <- (parse_ser n b Hb), E. reflexivity. Qed.

Lemma word_of_Z_inj : forall z1 z2, word_of_Z z1 = word_of_Z z2 -> (z1 mod TWO256 = z2 mod TWO256)%Z.
Proof.
  intros z1 z2 E. unfold word_of_Z in E.
  assert (P : (0 < TWO256)%Z) by reflexivity.
  pose proof (Z.mod_pos_bound z1 TWO256 P) as B1. pose proof (Z.mod_pos_bound z2 TWO256 P) as B2.
  apply ser_be_inj in E.
  - apply Z2N.inj in E; lia.
  - change (256 ^ N.of_nat 32) with (Z.to_N TWO256). apply Z2N.inj_lt; lia.
  - change (256 ^ N.of_nat 32) with (Z.to_N TWO256). apply Z2N.inj_lt; lia.
Qed.

Lemma enc_int_num : forall sg size v w, enc_int sg size v = Some w -> exists z, num_of v = Some z /\ w = word_of_Z z.
Proof.
  intros sg size v w E. unfold enc_int in E. fold (num_of v) in E.
  destruct (num_of v) as [z|]; [|discriminate].
  destruct (size <? bitlen z); [discriminate|]. destruct (negb sg && (z <? 0)%Z); [discriminate|].
  inversion E. eauto.
Qed.

Lemma read_prim_same : forall ty v1 v2 t, read_prim ty v1 = Some t -> read_prim ty v2 = Some t -> atom_same v1 v2.
Proof.
  intros ty v1 v2 t E1 E2. unfold read_prim in E1, E2.
  destruct (beqb ty (bs "string")).
  { destruct v1; try discriminate. destruct v2; try discriminate. left. congruence. }
  destruct (beqb ty (bs "bool")).
  { destruct v1; try discriminate. destruct v2; try discriminate. left.
    destruct b, b0; try reflexivity; exfalso; rewrite <- E2 in E1; vm_compute in E1; discriminate. }
  destruct (beqb ty (bs "address")).
  { destruct (enc_address v1) as [w1|] eqn:A1; [|discriminate]. destruct (enc_address v2) as [w2|] eqn:A2; [|discriminate].
    right; right. exists w1. split; [exact A1|]. cbn [option_map] in E1, E2. rewrite A2. congruence. }
  destruct (int_type ty) as [[sg size]|]; [|discriminate].
  destruct (enc_int sg size v1) as [w1|] eqn:I1; [|discriminate]. destruct (enc_int sg size v2) as [w2|] eqn:I2; [|discriminate].
  cbn [option_map] in E1, E2.
  apply enc_int_num in I1 as (z1 & N1 & ->). apply enc_int_num in I2 as (z2 & N2 & ->).
  right; left. exists z1, z2. split; [exact N1|]. split; [exact N2|]. apply word_of_Z_inj. congruence.
Qed.

(* within the int64 range (what a legacy-amino JSON number is) "the same integer modulo 2^256" is "the same integer" *)
Lemma same_mod_small : forall z1 z2,
  (z1 mod TWO256 = z2 mod TWO256)%Z -> (- 2 ^ 255 <= z1 < 2 ^ 255)%Z -> (- 2 ^ 255 <= z2 < 2 ^ 255)%Z -> z1 = z2.
Proof.
  intros z1 z2 E B1 B2. unfold TWO256 in E.
  assert (Hm : ((z1 - z2) mod 2 ^ 256 = 0)%Z) by (rewrite Zminus_mod, E, Z.sub_diag; reflexivity).
  apply Z.mod_divide in Hm; [|lia]. destruct Hm as [q Hq].
  assert (q = 0%Z) by nia. subst q. lia.
Qed.

(* ------------------------------------------------------------------ member-wise agreement *)

Inductive jsame : json -> json -> Prop :=
| js_atom : forall v1 v2, atom_same v1 v2 -> jsame v1 v2
| js_arr : forall l1 l2, Forall2 jsame l1 l2 -> jsame (JArr l1) (JArr l2)
| js_obj : forall o1 o2,
    (forall k a, assoc k o1 = Some a -> exists b, assoc k o2 = Some b /\ jsame a b) ->
    (forall k, assoc k o1 = None -> assoc k o2 = None) ->
    jsame (JObj o1) (JObj o2).

(* ------------------------------------------------------------------ lists without duplicates *)

Lemma mem_In : forall x l, mem x l = true <-> In x l.
Proof.
  intros x l. unfold mem. rewrite existsb_exists. split.
  - intros (y & Hy & E). apply beqb_eq in E. subst. exact Hy.
  - intros H. exists x. split; [exact H | apply beqb_refl].
Qed.

Lemma nodupb_NoDup : forall l, nodupb l = true -> NoDup l.
Proof.
  induction l as [|x l IH]; intros H; [constructor|].
  cbn [nodupb] in H. apply andb_true_iff in H as [H1 H2]. constructor; [|apply IH; exact H2].
  intros Hin. apply mem_In in Hin. rewrite Hin in H1. discriminate.
Qed.

Lemma assoc_none_iff {A} : forall (k : bytes) (l : list (bytes * A)), assoc k l = None <-> ~ In k (map fst l).
Proof.
  intros k. induction l as [|[k' v] l IH]; cbn [assoc map fst In]; [tauto|].
  destruct (beqb k k') eqn:B.
  - apply beqb_eq in B. subst. split; [discriminate | intros H; exfalso; apply H; left; reflexivity].
  - apply beqb_neq in B. rewrite IH. split; [intros H [E|Hin]; [congruence | contradiction] | tauto].
Qed.

Definition tymap_nodup (T : tymap) : bool := forallb (fun e => nodupb (map fst (snd e))) T.

Lemma tymap_nodup_assoc : forall T ty fs, tymap_nodup T = true -> assoc ty T = Some fs -> NoDup (map fst fs).
Proof.
  intros T ty fs O A. apply assoc_In in A. unfold tymap_nodup in O. rewrite forallb_forall in O.
  apply O in A. cbn [snd] in A. apply nodupb_NoDup. exact A.
Qed.

(* ------------------------------------------------------------------ a value whose object keys are unique at every depth *)

Definition valok (v : json) : Prop := exists g, keys_ok_f g v = true.

Lemma valok_obj_member : forall o name v, valok (JObj o) -> assoc name o = Some v -> valok v.
Proof.
  intros o name v [g G] A. destruct g as [|g]; [discriminate|]. cbn [keys_ok_f] in G.
  apply andb_true_iff in G as [G _]. rewrite forallb_forall in G. apply assoc_In in A. apply G in A.
  cbn [fst snd] in A. apply andb_true_iff in A as [_ V]. exists g. exact V.
Qed.

Lemma valok_obj_nodup : forall o, valok (JObj o) -> NoDup (map fst o).
Proof.
  intros o [g G]. destruct g as [|g]; [discriminate|]. cbn [keys_ok_f] in G.
  apply andb_true_iff in G as [_ G]. apply nodupb_NoDup. exact G.
Qed.

Lemma valok_arr_items : forall l, valok (JArr l) -> Forall valok l.
Proof.
  intros l [g G]. destruct g as [|g]; [discriminate|]. cbn [keys_ok_f] in G. rewrite forallb_forall in G.
  apply Forall_forall. intros x Hx. exists g. apply G. exact Hx.
Qed.

(* ------------------------------------------------------------------ the inversion *)

Lemma read_prim_not_struct : forall ty v n s F, read_prim ty v = Some (VStruct n s F) -> False.
Proof.
  intros ty v n s F E. apply read_prim_kind in E as [(_ & x & _ & E)|(_ & w & E & _)]; discriminate.
Qed.

Section Inversion.
  Variables T1 T2 : tymap.
  Variables rs1 rs2 : bytes -> list kv -> option tval.
  Hypothesis rs1_struct : forall ty d t, rs1 ty d = Some t -> exists n s F, t = VStruct n s F.
  Hypothesis rs2_struct : forall ty d t, rs2 ty d = Some t -> exists n s F, t = VStruct n s F.
  Hypothesis Hrs : forall ty d1 d2 t, valok (JObj d1) -> valok (JObj d2) ->
    rs1 ty d1 = Some t -> rs2 ty d2 = Some t -> jsame (JObj d1) (JObj d2).

  Lemma read_item_same : forall ety i1 i2 x,
    valok i1 -> valok i2 -> read_item_ rs1 T1 ety i1 = Some x -> read_item_ rs2 T2 ety i2 = Some x -> jsame i1 i2.
  Proof.
    intros ety i1 i2 x K1 K2 E1 E2. unfold read_item_ in E1, E2.
    destruct (assoc ety T1) as [f1|]; destruct (assoc ety T2) as [f2|].
    - destruct i1; try discriminate. destruct i2; try discriminate. eapply Hrs; eassumption.
    - destruct i1; try discriminate. exfalso. destruct (rs1_struct _ _ _ E1) as (n & s & F & ->).
      eapply read_prim_not_struct; exact E2.
    - destruct i2; try discriminate. exfalso. destruct (rs2_struct _ _ _ E2) as (n & s & F & ->).
      eapply read_prim_not_struct; exact E1.
    - apply js_atom. eapply read_prim_same; eassumption.
  Qed.

  Lemma read_items_same : forall ety l1 l2 xs,
    Forall valok l1 -> Forall valok l2 ->
    map_opt (read_item_ rs1 T1 ety) l1 = Some xs -> map_opt (read_item_ rs2 T2 ety) l2 = Some xs -> Forall2 jsame l1 l2.
  Proof.
    intros ety. induction l1 as [|a l1 IH]; intros l2 xs K1 K2 E1 E2; cbn [map_opt] in E1.
    - inversion E1; subst. destruct l2 as [|b l2]; [constructor|]. cbn [map_opt] in E2.
      destruct (read_item_ rs2 T2 ety b); [|discriminate]. destruct (map_opt _ l2); discriminate.
    - destruct (read_item_ rs1 T1 ety a) as [x|] eqn:Xa; [|discriminate].
      destruct (map_opt (read_item_ rs1 T1 ety) l1) as [xs1|] eqn:M1; [|discriminate]. inversion E1; subst.
      destruct l2 as [|b l2]; cbn [map_opt] in E2; [discriminate|].
      destruct (read_item_ rs2 T2 ety b) as [y|] eqn:Xb; [|discriminate].
      destruct (map_opt (read_item_ rs2 T2 ety) l2) as [xs2|] eqn:M2; [|discriminate]. inversion E2; subst.
      inversion K1; inversion K2; subst. constructor.
      + eapply read_item_same; eassumption.
      + eapply IH; try eassumption. reflexivity.
  Qed.

  Lemma read_value_same : forall fty v1 v2 x,
    valok v1 -> valok v2 -> read_value_ rs1 T1 fty v1 = Some x -> read_value_ rs2 T2 fty v2 = Some x -> jsame v1 v2.
  Proof.
    intros fty v1 v2 x K1 K2 E1 E2. unfold read_value_ in E1, E2. destruct (ends_bracket fty).
    - destruct v1; try discriminate. destruct v2; try discriminate.
      destruct (map_opt (read_item_ rs1 T1 (before_bracket fty)) l) as [xs|] eqn:M1; [|discriminate].
      destruct (map_opt (read_item_ rs2 T2 (before_bracket fty)) l0) as [ys|] eqn:M2; [|discriminate].
      cbn [option_map] in E1, E2. assert (xs = ys) by congruence. subst ys.
      apply js_arr. eapply read_items_same; try eassumption; apply valok_arr_items; assumption.
    - eapply read_item_same; eassumption.
  Qed.

  Lemma read_value_null : forall (rs : bytes -> list kv -> option tval) T fty, read_value_ rs T fty JNull = None.
  Proof.
    intros rs T fty. unfold read_value_. destruct (ends_bracket fty); [reflexivity|].
    unfold read_item_. destruct (assoc fty T); [reflexivity|].
    unfold read_prim. destruct (beqb fty (bs "string")); [reflexivity|]. destruct (beqb fty (bs "bool")); [reflexivity|].
    destruct (beqb fty (bs "address")); [reflexivity|]. destruct (int_type fty) as [[sg size]|]; reflexivity.
  Qed.
End Inversion.

(* a declared member that was read is present in the data *)
Lemma read_field_present : forall rs T d fld x,
  read_field_ rs T d fld = Some x -> exists v, assoc (fst fld) d = Some v /\ read_value_ rs T (snd fld) v = Some (snd x).
Proof.
  intros rs T d fld x E. unfold read_field_, field_value in E.
  destruct (assoc (fst fld) d) as [v|].
  - exists v. split; [reflexivity|]. destruct (read_value_ rs T (snd fld) v); [|discriminate]. inversion E. reflexivity.
  - rewrite read_value_null in E. discriminate.
Qed.

Theorem read_struct_same : forall k1 k2 T1 T2 ty1 ty2 d1 d2 t,
  tymap_nodup T1 = true -> tymap_nodup T2 = true -> valok (JObj d1) -> valok (JObj d2) ->
  read_struct k1 T1 ty1 d1 = Some t -> read_struct k2 T2 ty2 d2 = Some t -> jsame (JObj d1) (JObj d2).
Proof.
  induction k1 as [|k1 IH]; intros k2 T1 T2 ty1 ty2 d1 d2 t N1 N2 K1 K2 E1 E2; [discriminate|].
  destruct k2 as [|k2]; [discriminate|]. rewrite read_struct_S in E1, E2.
  destruct (assoc ty1 T1) as [fs1|] eqn:A1; [|discriminate]. destruct (assoc ty2 T2) as [fs2|] eqn:A2; [|discriminate].
  match type of E1 with context [if ?c then _ else _] => destruct c eqn:L1 end; [discriminate E1|].
  match type of E2 with context [if ?c then _ else _] => destruct c eqn:L2 end; [discriminate E2|].
  destruct (map_opt (read_field_ (read_struct k1 T1) T1 d1) fs1) as [F1|] eqn:M1; [|discriminate E1].
  destruct (map_opt (read_field_ (read_struct k2 T2) T2 d2) fs2) as [F2|] eqn:M2; [|discriminate E2].
  cbn [option_map] in E1, E2. assert (EF : F1 = F2) by congruence. subst F2.
  assert (Efs : fs1 = fs2)
    by (rewrite <- (map_opt_read_field_names _ _ _ _ _ M1), <- (map_opt_read_field_names _ _ _ _ _ M2); reflexivity).
  subst fs2. apply Nat.ltb_ge in L1, L2.
  (* every declared member is present on both sides and agrees *)
  assert (Hdecl : forall name, In name (map fst fs1) ->
            exists v1 v2, assoc name d1 = Some v1 /\ assoc name d2 = Some v2 /\ jsame v1 v2).
  { apply map_opt_Forall2 in M1, M2. clear - IH N1 N2 K1 K2 M1 M2.
    revert M2. induction M1 as [|fld x lf lx Ex M1 IHm]; intros M2 name Hin; [contradiction|].
    inversion M2 as [|? ? ? ? Ex2 M2']; subst.
    destruct Hin as [<-|Hin]; [|apply IHm; assumption].
    apply read_field_present in Ex as (v1 & P1 & V1). apply read_field_present in Ex2 as (v2 & P2 & V2).
    exists v1, v2. split; [exact P1|]. split; [exact P2|].
    eapply (read_value_same T1 T2 (read_struct k1 T1) (read_struct k2 T2)); try eassumption.
    - intros ty d t0 E. destruct (read_struct_is_struct _ _ _ _ _ E) as [F ->]. eauto.
    - intros ty d t0 E. destruct (read_struct_is_struct _ _ _ _ _ E) as [F ->]. eauto.
    - intros ty d1' d2' t0 Kd1 Kd2 X Y. eapply IH; [exact N1 | exact N2 | exact Kd1 | exact Kd2 | exact X | exact Y].
    - exact (valok_obj_member _ _ _ K1 P1).
    - exact (valok_obj_member _ _ _ K2 P2). }
  (* every member of the data is declared: the type has at least as many members as the data, all distinct *)
  assert (Hall : forall d, valok (JObj d) -> (length d <= length fs1)%nat ->
            (forall name, In name (map fst fs1) -> exists v, assoc name d = Some v) ->
            forall k, In k (map fst d) -> In k (map fst fs1)).
  { intros d Kd Ld Hp. apply NoDup_length_incl.
    - eapply tymap_nodup_assoc; [exact N1 | exact A1].
    - rewrite !map_length. exact Ld.
    - intros name Hn. destruct (Hp name Hn) as [v Av]. apply assoc_In in Av.
      apply in_map_iff. exists (name, v). split; [reflexivity | exact Av]. }
  assert (Hnone : forall k, ~ In k (map fst fs1) -> assoc k d1 = None /\ assoc k d2 = None).
  { intros k Hnin. split.
    - apply assoc_none_iff. intros Hk. apply Hnin. apply (Hall d1 K1 L1); [|exact Hk].
      intros name Hn. destruct (Hdecl name Hn) as (v1 & _ & P1 & _). eauto.
    - apply assoc_none_iff. intros Hk. apply Hnin. apply (Hall d2 K2 L2); [|exact Hk].
      intros name Hn. destruct (Hdecl name Hn) as (_ & v2 & _ & P2 & _). eauto. }
  apply js_obj.
  - intros k a Ak. destruct (in_dec bytes_eq_dec k (map fst fs1)) as [Hin|Hnin].
    + destruct (Hdecl k Hin) as (v1 & v2 & P1 & P2 & S). rewrite P1 in Ak. inversion Ak; subst. eauto.
    + destruct (Hnone k Hnin) as [Z1 _]. rewrite Z1 in Ak. discriminate.
  - intros k Ak. destruct (in_dec bytes_eq_dec k (map fst fs1)) as [Hin|Hnin].
    + destruct (Hdecl k Hin) as (v1 & v2 & P1 & P2 & S). rewrite P1 in Ak. discriminate.
    + apply (Hnone k Hnin).
Qed.

(* ------------------------------------------------------------------ derived type maps have distinct member names *)

Lemma insert_sorted_in : forall x y l, In x l \/ x = y -> In x (insert_sorted y l).
Proof.
  intros x y. induction l as [|z l IH]; intros H; cbn [insert_sorted].
  - destruct H as [[]| ->]. left; reflexivity.
  - destruct (bleb y z).
    + destruct H as [H| ->]; [right; exact H | left; reflexivity].
    + destruct H as [[<-|H]| ->]; [left; reflexivity | right; apply IH; left; exact H | right; apply IH; right; reflexivity].
Qed.

Lemma insert_sorted_nodup : forall y l, NoDup l -> ~ In y l -> NoDup (insert_sorted y l).
Proof.
  intros y. induction l as [|z l IH]; intros N H; cbn [insert_sorted].
  - constructor; [intros [] | constructor].
  - destruct (bleb y z).
    + constructor; assumption.
    + inversion N as [|? ? Nz Nl]; subst. constructor.
      * intros Hin. apply in_insert_sorted in Hin as [->|Hin]; [apply H; left; reflexivity | contradiction].
      * apply IH; [exact Nl | intros Hin; apply H; right; exact Hin].
Qed.

Lemma sort_asc_nodup : forall l, NoDup l -> NoDup (sort_asc l).
Proof.
  induction l as [|x l IH]; intros N; [constructor|]. inversion N; subst.
  cbn [sort_asc fold_right]. apply insert_sorted_nodup; [apply IH; assumption|].
  intros Hin. apply in_sort_asc in Hin. contradiction.
Qed.

Lemma sort_desc_nodup : forall l, NoDup l -> NoDup (sort_desc l).
Proof. intros l N. unfold sort_desc. apply NoDup_rev. apply sort_asc_nodup. exact N. Qed.

Lemma NoDup_nodupb : forall l, NoDup l -> nodupb l = true.
Proof.
  induction l as [|x l IH]; intros N; [reflexivity|]. inversion N; subst. cbn [nodupb].
  rewrite IH by assumption. destruct (mem x l) eqn:M; [apply mem_In in M; contradiction | reflexivity].
Qed.

Lemma NoDup_snoc {A} : forall (l : list A) x, NoDup l -> ~ In x l -> NoDup (l ++ [x]).
Proof.
  induction l as [|y l IH]; intros x N H; cbn [app].
  - constructor; [intros [] | constructor].
  - inversion N; subst. constructor.
    + intros Hin. apply in_app_or in Hin as [Hin|[<-|[]]]; [contradiction | apply H; left; reflexivity].
    + apply IH; [assumption | intros Hin; apply H; right; exact Hin].
Qed.

Lemma tymap_nodup_app : forall T X, tymap_nodup (T ++ X) = tymap_nodup T && tymap_nodup X.
Proof. intros T X. unfold tymap_nodup. apply forallb_app. Qed.

(* one step of the member loop appends at most one member, named after the key being processed *)
Lemma wstep_shape : forall rec prefix obj T fs name T' fs',
  wstep rec prefix obj (Some (T, fs)) name = Some (T', fs') -> fs' = fs \/ exists ty, fs' = fs ++ [(name, ty)].
Proof.
  intros rec prefix obj T fs name T' fs' E. unfold wstep in E.
  destruct (assoc name obj) as [v|]; [|inversion E; left; reflexivity].
  destruct v as [| b | z | | s | l | o]; cbn in E;
    try (inversion E; subst; (left; reflexivity) || (right; eexists; reflexivity)).
  - destruct l as [|x rest]; [inversion E; right; eexists; reflexivity|].
    cbv beta iota in E. destruct (eth_type x) as [t|]; [inversion E; right; eexists; reflexivity|].
    destruct x; try (inversion E; left; reflexivity).
    match type of E with context [rec ?a ?b ?c] => destruct (rec a b c) as [[T1 td]|] end; [|discriminate E]. inversion E. right; eexists; reflexivity.
  - match type of E with context [rec ?a ?b ?c] => destruct (rec a b c) as [[T1 td]|] end; [|discriminate E]. inversion E. right; eexists; reflexivity.
Qed.

Lemma wstep_T : forall rec prefix obj T fs name T' fs',
  (forall T p o T1 td, tymap_nodup T = true -> keysok o -> rec T p o = Some (T1, td) -> tymap_nodup T1 = true) ->
  keysok obj -> tymap_nodup T = true -> wstep rec prefix obj (Some (T, fs)) name = Some (T', fs') -> tymap_nodup T' = true.
Proof.
  intros rec prefix obj T fs name T' fs' Hrec K N E. unfold wstep in E.
  destruct (assoc name obj) as [v|] eqn:A; [|inversion E; subst; exact N].
  destruct (keysok_member _ _ _ K A) as (_ & Ko & Ka).
  destruct v as [| b | z | | s | l | o]; cbn in E; try (inversion E; subst; exact N).
  - destruct l as [|x rest]; [inversion E; subst; exact N|].
    cbv beta iota in E. destruct (eth_type x) as [t|]; [inversion E; subst; exact N|].
    destruct x; try (inversion E; subst; exact N).
    match type of E with context [rec ?a ?b ?c] => destruct (rec a b c) as [[T1 td]|] eqn:R end; [|discriminate E].
    inversion E; subst. eapply Hrec; [exact N | | exact R]. eapply Ka. reflexivity.
  - match type of E with context [rec ?a ?b ?c] => destruct (rec a b c) as [[T1 td]|] eqn:R end; [|discriminate E].
    inversion E; subst. eapply Hrec; [exact N | | exact R]. apply Ko. reflexivity.
Qed.

Lemma wfold_nodup : forall rec prefix obj,
  (forall T p o T1 td, tymap_nodup T = true -> keysok o -> rec T p o = Some (T1, td) -> tymap_nodup T1 = true) ->
  keysok obj ->
  forall names T fs T' fs',
  NoDup names -> tymap_nodup T = true -> NoDup (map fst fs) -> (forall n, In n (map fst fs) -> ~ In n names) ->
  fold_left (wstep rec prefix obj) names (Some (T, fs)) = Some (T', fs') ->
  tymap_nodup T' = true /\ NoDup (map fst fs').
Proof.
  intros rec prefix obj Hrec K. induction names as [|n names IH]; intros T fs T' fs' Nn NT Nf Dis E.
  - cbn [fold_left] in E. inversion E; subst. split; assumption.
  - cbn [fold_left] in E. inversion Nn as [|? ? Hn Nn']; subst.
    destruct (wstep rec prefix obj (Some (T, fs)) n) as [[T1 fs1]|] eqn:S.
    + pose proof (wstep_T _ _ _ _ _ _ _ _ Hrec K NT S) as NT1.
      apply wstep_shape in S as [->|[ty ->]].
      * apply (IH T1 fs T' fs' Nn' NT1 Nf); [|exact E]. intros m Hm Hin. apply (Dis m Hm). right; exact Hin.
      * apply (IH T1 (fs ++ [(n, ty)]) T' fs' Nn' NT1); [| |exact E].
        -- rewrite map_app. cbn [map fst]. apply NoDup_snoc; [exact Nf|]. intros Hin. apply (Dis n Hin). left; reflexivity.
        -- intros m Hm Hin. rewrite map_app in Hm. apply in_app_or in Hm as [Hm|[<-|[]]].
           ++ apply (Dis m Hm). right; exact Hin.
           ++ contradiction.
    + exfalso. clear - E. induction names as [|m names IHn]; [discriminate|]. cbn [fold_left wstep] in E. apply IHn. exact E.
Qed.

Lemma add_types_f_nodup : forall n T typeDef idx fs T' key,
  tymap_nodup T = true -> NoDup (map fst fs) -> add_types_f n T typeDef idx fs = Some (T', key) -> tymap_nodup T' = true.
Proof.
  induction n as [|n IH]; intros T typeDef idx fs T' key NT Nf E; cbn [add_types_f] in E; [discriminate|].
  destruct (assoc (typeDef ++ dec_digits idx) T) as [ex|].
  - destruct (tydef_eqb fs ex); [inversion E; subst; exact NT | eapply IH; eassumption].
  - inversion E; subst. rewrite tymap_nodup_app, NT. cbn [tymap_nodup forallb snd andb].
    rewrite (NoDup_nodupb _ Nf). reflexivity.
Qed.

Theorem walk_nodup : forall k T root prefix obj T' td,
  tymap_nodup T = true -> keysok obj -> walk k T root prefix obj = Some (T', td) -> tymap_nodup T' = true.
Proof.
  induction k as [|k IH]; intros T root prefix obj T' td NT K E; [discriminate|].
  rewrite walk_S in E.
  destruct (fold_left _ _ _) as [[T1 fs]|] eqn:F; [|discriminate].
  assert (Nk : NoDup (map fst obj)) by (destruct K as [g G]; apply (valok_obj_nodup obj); exists g; exact G).
  destruct (wfold_nodup (fun T p o => walk k T root p o) prefix obj) with (names := sort_desc (map fst obj))
    (T := T) (fs := @nil (bytes * bytes)) (T' := T1) (fs' := fs) as [NT1 Nf]; try assumption.
  - intros T0 p o T2 td2 N0 K0 R. eapply IH; eassumption.
  - apply sort_desc_nodup. exact Nk.
  - constructor.
  - intros n [].
  - unfold add_types in E. eapply add_types_f_nodup; eassumption.
Qed.

(* ------------------------------------------------------------------ the Tx root type: five fixed members + msg0..msgN *)

Definition base_tx_names : list bytes :=
  [bs "account_number"; bs "chain_id"; bs "fee"; bs "memo"; bs "sequence"].

Definition tx_names_inv (i : N) (T : tymap) : Prop :=
  exists fs, assoc TX T = Some fs /\ NoDup (map fst fs) /\
             forall n, In n (map fst fs) -> In n base_tx_names \/ exists j, j < i /\ n = msg_field j.

Lemma dec_digits_inj : forall a b, dec_digits a = dec_digits b -> a = b.
Proof.
  intros a b E. destruct (dec_digits_ok a) as (_ & Va & _). destruct (dec_digits_ok b) as (_ & Vb & _).
  rewrite E in Va. congruence.
Qed.

Lemma msg_field_inj : forall i j, msg_field i = msg_field j -> i = j.
Proof. intros i j E. unfold msg_field in E. apply app_inv_head in E. apply dec_digits_inj. exact E. Qed.

Lemma msg_field_not_base : forall i, ~ In (msg_field i) base_tx_names.
Proof.
  intros i H. unfold msg_field, base_tx_names in H. change (bs "msg") with [109; 115; 103] in H.
  change (bs "account_number") with (97 :: bs "ccount_number") in H. change (bs "chain_id") with (99 :: bs "hain_id") in H.
  change (bs "fee") with (102 :: bs "ee") in H. change (bs "memo") with (109 :: 101 :: bs "mo") in H.
  change (bs "sequence") with (115 :: bs "equence") in H. cbn [app In] in H.
  destruct H as [H|[H|[H|[H|[H|[]]]]]]; discriminate H.
Qed.

Lemma assoc_update_same {A} : forall (k : bytes) (g : A -> A) T v,
  assoc k T = Some v -> assoc k (update_assoc k g T) = Some (g v).
Proof.
  intros k g. induction T as [|[k' v'] T IH]; intros v E; cbn [assoc] in E; [discriminate|].
  cbn [update_assoc]. destruct (beqb k k') eqn:B.
  - inversion E; subst. cbn [assoc]. rewrite B. reflexivity.
  - cbn [assoc]. rewrite B. apply IH. exact E.
Qed.

Lemma tymap_nodup_update : forall k (g : tydef -> tydef) T v,
  tymap_nodup T = true -> assoc k T = Some v -> nodupb (map fst (g v)) = true -> tymap_nodup (update_assoc k g T) = true.
Proof.
  intros k g. induction T as [|[k' v'] T IH]; intros v N E G; cbn [assoc] in E; [discriminate|].
  cbn [tymap_nodup forallb snd] in N. apply andb_true_iff in N as [N1 N2].
  cbn [update_assoc]. destruct (beqb k k').
  - inversion E; subst. cbn [tymap_nodup forallb snd]. rewrite G. exact N2.
  - cbn [tymap_nodup forallb snd]. rewrite N1. apply (IH v N2 E G).
Qed.

Theorem types_of_msgs_nodup : forall msgs T i T',
  tymap_ok T = true -> tymap_nodup T = true -> tx_names_inv i T -> Forall msg_ok msgs -> types_of_msgs T i msgs = Some T' ->
  tymap_nodup T' = true.
Proof.
  induction msgs as [|m msgs IH]; intros T i T' O N J M E; cbn [types_of_msgs] in E.
  - inversion E; subst. exact N.
  - inversion M as [|? ? Mm Mr]; subst. destruct m; try discriminate.
    destruct (msg_root_type l) as [root|] eqn:R; [|discriminate].
    destruct (walk (jsize (JObj l)) T root [95] l) as [[T1 td]|] eqn:Wk; [|discriminate].
    destruct Mm as [K Wr].
    pose proof (walk_nodup _ _ _ _ _ _ _ N K Wk) as N1.
    destruct (walk_ok _ _ _ _ _ _ _ O (Wr root R) (msg_root_head _ _ R) prefix_ok_root K Wk) as (O1 & Wtd & X1).
    assert (O2 : tymap_ok (update_assoc (bs "Tx") (fun fs => fs ++ [(msg_field i, td)]) T1) = true).
    { apply tymap_ok_update; [exact O1|]. intros fs F. rewrite fields_ok_app, F.
      apply field_ok_single; [apply msg_field_wordy | apply wordy_ident; exact Wtd]. }
    destruct J as (fs & A & Nf & Hn).
    pose proof (ext_assoc _ _ _ _ X1 A) as A1.
    assert (Nnew : ~ In (msg_field i) (map fst fs)).
    { intros Hin. destruct (Hn _ Hin) as [Hb|(j & Hj & Ej)]; [exact (msg_field_not_base i Hb)|].
      apply msg_field_inj in Ej. lia. }
    apply (IH _ (i + 1) T' O2); [| |exact Mr|exact E].
    + apply (tymap_nodup_update TX (fun fs => fs ++ [(msg_field i, td)]) T1 fs N1 A1). apply NoDup_nodupb. rewrite map_app. cbn [map fst].
      apply NoDup_snoc; assumption.
    + exists (fs ++ [(msg_field i, td)]). split; [exact (assoc_update_same TX (fun fs => fs ++ [(msg_field i, td)]) T1 fs A1)|]. split.
      * rewrite map_app. cbn [map fst]. apply NoDup_snoc; assumption.
      * intros n Hin. rewrite map_app in Hin. apply in_app_or in Hin as [Hin|[<-|[]]].
        -- destruct (Hn n Hin) as [Hb|(j & Hj & Ej)]; [left; exact Hb | right; exists j; split; [lia | exact Ej]].
        -- right. exists i. split; [lia | reflexivity].
Qed.

Lemma base_tx_inv : tx_names_inv 0 base_types.
Proof.
  eexists. split; [reflexivity|]. split.
  - apply nodupb_NoDup. vm_compute. reflexivity.
  - intros n Hin. left. exact Hin.
Qed.

(* ------------------------------------------------------------------ the flattened message keeps unique keys *)

Lemma keys_ok_f_mono : forall g v, keys_ok_f g v = true -> keys_ok_f (S g) v = true.
Proof.
  induction g as [|g IH]; intros v H; [discriminate|].
  destruct v; try reflexivity.
  - cbn [keys_ok_f] in H. change (keys_ok_f (S (S g)) (JArr l)) with (forallb (keys_ok_f (S g)) l).
    rewrite forallb_forall in *. intros x Hx. apply IH. apply H. exact Hx.
  - cbn [keys_ok_f] in H. apply andb_true_iff in H as [H1 H2].
    change (keys_ok_f (S (S g)) (JObj l))
      with (forallb (fun e => key_ok (fst e) && keys_ok_f (S g) (snd e)) l && nodupb (map fst l)).
    rewrite H2, andb_true_r. rewrite forallb_forall in *. intros x Hx. specialize (H1 x Hx).
    apply andb_true_iff in H1 as [K V]. rewrite K. apply IH. exact V.
Qed.

Definition entries_ok (g : nat) (l : list kv) : Prop :=
  forallb (fun e => key_ok (fst e) && keys_ok_f g (snd e)) l = true /\ NoDup (map fst l).

Lemma msg_field_key_ok : forall i, key_ok (msg_field i) = true.
Proof.
  intros i. unfold key_ok. fold (wordy (msg_field i)). rewrite msg_field_wordy, andb_true_r.
  unfold msg_field. change (bs "msg") with [109; 115; 103]. reflexivity.
Qed.

Lemma flatten_msgs_entries : forall g msgs acc i d,
  entries_ok g acc -> Forall (fun m => keys_ok_f g m = true) msgs -> flatten_msgs acc i msgs = Some d -> entries_ok g d.
Proof.
  intros g. induction msgs as [|m msgs IH]; intros acc i d [F N] M E; cbn [flatten_msgs] in E.
  - inversion E; subst. split; assumption.
  - inversion M as [|? ? Mm Mr]; subst.
    destruct (assoc (msg_field i) acc) eqn:A; [discriminate|]. destruct m; try discriminate.
    apply (IH (acc ++ [(msg_field i, JObj l)]) (i + 1) d); [|exact Mr|exact E]. split.
    + rewrite forallb_app. apply andb_true_intro. split; [exact F|]. cbn [forallb fst snd]. rewrite msg_field_key_ok, Mm. reflexivity.
    + rewrite map_app. cbn [map fst]. apply NoDup_snoc; [exact N|]. apply assoc_none_iff. exact A.
Qed.

Lemma remove_key_incl : forall k (l : list kv) x, In x (remove_key k l) -> In x l.
Proof.
  intros k. induction l as [|[k' v] l IH]; intros x H; cbn [remove_key] in H; [exact H|].
  destruct (beqb k k'); [right; exact H|]. destruct H as [<-|H]; [left; reflexivity | right; apply IH; exact H].
Qed.

Lemma remove_key_entries : forall g k l, entries_ok g l -> entries_ok g (remove_key k l).
Proof.
  intros g k. induction l as [|[k' v] l IH]; intros [F N]; [split; assumption|].
  cbn [forallb] in F. apply andb_true_iff in F as [F1 F2]. cbn [map fst] in N. inversion N as [|? ? Hn Nl]; subst.
  cbn [remove_key]. destruct (beqb k k'); [split; assumption|].
  destruct (IH (conj F2 Nl)) as [F' N']. split.
  - cbn [forallb]. apply andb_true_intro. split; [exact F1 | exact F'].
  - cbn [map fst]. constructor; [|exact N']. intros Hin. apply Hn.
    apply in_map_iff in Hin as (x & Ex & Hx). apply in_map_iff. exists x. split; [exact Ex | eapply remove_key_incl; exact Hx].
Qed.

Theorem flatten_valok : forall doc m msgs,
  keys_ok (JObj doc) = true -> flatten doc = Some (m, msgs) -> valok (JObj m).
Proof.
  intros doc m msgs K E. unfold keys_ok in K. destruct (jsize (JObj doc)) as [|g]; [discriminate|].
  pose proof K as K0. cbn [keys_ok_f] in K. apply andb_true_iff in K as [F Nb].
  pose proof (flatten_msgs_are _ _ _ E) as Am. unfold flatten in E. rewrite Am in E.
  destruct (flatten_msgs doc 0 msgs) as [d|] eqn:Fm; [|discriminate]. inversion E; subst.
  assert (Mok : Forall (fun x => keys_ok_f g x = true) msgs).
  { rewrite forallb_forall in F. apply assoc_In in Am. apply F in Am. cbn [fst snd] in Am.
    apply andb_true_iff in Am as [_ V]. destruct g as [|g']; [discriminate|]. cbn [keys_ok_f] in V.
    rewrite forallb_forall in V. apply Forall_forall. intros x Hx. apply keys_ok_f_mono. apply V. exact Hx. }
  assert (D0 : entries_ok g doc) by (split; [exact F | apply nodupb_NoDup; exact Nb]).
  pose proof (flatten_msgs_entries g msgs doc 0 d D0 Mok Fm) as D1.
  destruct (remove_key_entries g (bs "msgs") d D1) as [F2 N2].
  exists (S g). cbn [keys_ok_f]. apply andb_true_intro. split; [exact F2 | apply NoDup_nodupb; exact N2].
Qed.

(* ------------------------------------------------------------------ equal views: member-wise equal documents *)

Theorem doc_types_nodup : forall j c T m, doc_ok j -> doc_parts j = Some (c, T, m) -> tymap_nodup T = true /\ valok (JObj m).
Proof.
  intros j c T m [K R] P. unfold doc_parts in P. destruct j as [| | | | | |doc]; try discriminate.
  destruct (assoc (bs "chain_id") doc) as [[| | | |s| |]|]; try discriminate.
  destruct (chain_id_number s); [|discriminate].
  destruct (flatten doc) as [[message msgs]|] eqn:Fl; [|discriminate].
  destruct (types_of_msgs base_types 0 msgs) as [T0|] eqn:Ty; [|discriminate]. inversion P; subst.
  split; [|eapply flatten_valok; eassumption].
  pose proof (flatten_msgs_are _ _ _ Fl) as Am. rewrite Am in R.
  assert (M : Forall msg_ok msgs).
  { unfold keys_ok in K. destruct (jsize (JObj doc)) as [|g]; [discriminate|]. cbn [keys_ok_f] in K.
    apply andb_true_iff in K as [K _]. rewrite forallb_forall in K. apply assoc_In in Am. apply K in Am.
    cbn [fst snd] in Am. apply andb_true_iff in Am as [_ V].
    destruct g as [|g]; [discriminate|]. cbn [keys_ok_f] in V. rewrite forallb_forall in V.
    rewrite Forall_forall in *. intros x Hx. specialize (V x Hx). specialize (R x Hx).
    destruct x; try exact Logic.I. split; [exists g; exact V | exact R]. }
  eapply (types_of_msgs_nodup msgs base_types 0 T); [reflexivity | reflexivity | exact base_tx_inv | exact M | exact Ty].
Qed.

(* THE CAPSTONE.  Two sign documents of the covered class with the same view: their flattened messages (the document
   with "msgs":[a,b,..] spelled "msg0":a,"msg1":b,..) have the same members, and corresponding members agree:
   identical strings and booleans, the same numbers, recursively through arrays and nested objects. *)
Theorem doc_view_same : forall j1 j2 v c1 T1 m1 c2 T2 m2,
  doc_ok j1 -> doc_ok j2 -> doc_parts j1 = Some (c1, T1, m1) -> doc_parts j2 = Some (c2, T2, m2) ->
  doc_view j1 = Some v -> doc_view j2 = Some v -> jsame (JObj m1) (JObj m2).
Proof.
  intros j1 j2 v c1 T1 m1 c2 T2 m2 D1 D2 P1 P2 V1 V2.
  destruct (doc_types_nodup _ _ _ _ D1 P1) as [N1 K1]. destruct (doc_types_nodup _ _ _ _ D2 P2) as [N2 K2].
  unfold doc_view in V1, V2. rewrite P1 in V1. rewrite P2 in V2.
  destruct (typed_view T1 EIP712DOMAIN (cosmos_domain c1)); [|discriminate].
  destruct (typed_view T1 TX m1) as [tm1|] eqn:E1; [|discriminate].
  destruct (typed_view T2 EIP712DOMAIN (cosmos_domain c2)); [|discriminate].
  destruct (typed_view T2 TX m2) as [tm2|] eqn:E2; [|discriminate].
  assert (tm1 = tm2) by congruence. subst tm2. unfold typed_view in E1, E2.
  eapply read_struct_same; [exact N1 | exact N2 | exact K1 | exact K2 | exact E1 | exact E2].
Qed.

Theorem render_injective_json : forall H,
  (forall x, length (H x) = 32%nat) ->
  forall j1 j2 r, doc_ok j1 -> doc_ok j2 -> render H j1 = Some r -> render H j2 = Some r ->
  (exists c1 T1 m1 c2 T2 m2, doc_parts j1 = Some (c1, T1, m1) /\ doc_parts j2 = Some (c2, T2, m2) /\ jsame (JObj m1) (JObj m2))
  \/ collision H.
Proof.
  intros H HL j1 j2 r D1 D2 R1 R2.
  destruct (render_injective H HL j1 j2 r D1 D2 R1 R2) as [(v & V1 & V2)|Col]; [left | right; exact Col].
  destruct (render_parts _ _ _ R1) as (c1 & T1 & m1 & P1 & _). destruct (render_parts _ _ _ R2) as (c2 & T2 & m2 & P2 & _).
  exists c1, T1, m1, c2, T2, m2. split; [exact P1|]. split; [exact P2|]. exact (doc_view_same j1 j2 v c1 T1 m1 c2 T2 m2 D1 D2 P1 P2 V1 V2).
Qed.

(* the same for x/cpc/eip712 EIP712HashingTypedMessage (typed messages of the staking precompile): equal hashes =>
   member-wise equal domain (name, version, chainId, verifyingContract) and message, or a collision *)
Theorem typed_message_hash_injective_json : forall H,
  (forall x, length (H x) = 32%nat) ->
  forall T1 T2 p1 p2 dom1 dom2 m1 m2 h,
  tymap_ok T1 = true -> tymap_ok T2 = true -> tymap_nodup T1 = true -> tymap_nodup T2 = true ->
  assoc EIP712DOMAIN T1 <> None -> assoc EIP712DOMAIN T2 <> None -> assoc p1 T1 <> None -> assoc p2 T2 <> None ->
  valok (JObj dom1) -> valok (JObj dom2) -> valok (JObj m1) -> valok (JObj m2) ->
  typed_message_hash H T1 p1 dom1 m1 = Some h -> typed_message_hash H T2 p2 dom2 m2 = Some h ->
  (jsame (JObj dom1) (JObj dom2) /\ jsame (JObj m1) (JObj m2)) \/ collision H.
Proof.
  intros H HL T1 T2 p1 p2 dom1 dom2 m1 m2 h O1 O2 N1 N2 AD1 AD2 AP1 AP2 Kd1 Kd2 Km1 Km2 E1 E2.
  destruct (typed_message_hash_injective_or_collision H HL _ _ _ _ _ _ _ _ _ O1 O2 AD1 AD2 AP1 AP2 E1 E2)
    as [[(td & Vd1 & Vd2) (tm & Vm1 & Vm2)]|Col]; [left | right; exact Col].
  unfold typed_view in *. split.
  - eapply read_struct_same; [exact N1 | exact N2 | exact Kd1 | exact Kd2 | exact Vd1 | exact Vd2].
  - eapply read_struct_same; [exact N1 | exact N2 | exact Km1 | exact Km2 | exact Vm1 | exact Vm2].
Qed.

(* the relation discriminates: documents that differ in one string member are not related *)
Lemma jsame_discriminates : forall k a b,
  a <> b -> num_of (JStr a) = None -> enc_address (JStr a) = None -> ~ jsame (JObj [(k, JStr a)]) (JObj [(k, JStr b)]).
Proof.
  intros k a b NE Nn Na J. inversion J as [? ? At | | ? ? Hs _]; subst.
  - destruct At as [E|[(z1 & z2 & N1 & _)|(w & A1 & _)]]; [inversion E; contradiction | discriminate | ].
    cbn [enc_address] in A1. discriminate.
  - destruct (Hs k (JStr a)) as (b' & Eb & Jb); [cbn [assoc]; rewrite beqb_refl; reflexivity|].
    cbn [assoc] in Eb. rewrite beqb_refl in Eb. inversion Eb; subst b'.
    inversion Jb as [? ? At | |]; subst.
    destruct At as [E|[(z1 & z2 & N1 & _)|(w & A1 & _)]]; [inversion E; contradiction | congruence | congruence].
Qed.

(* ------------------------------------------------------------------ repeated members are refused *)

Lemma keys_ok_f_dup_free : forall f j, keys_ok_f f j = true -> dup_free_f f j = true.
Proof.
  induction f as [|k IH]; intros j Hk; [discriminate Hk|].
  destruct j as [| | | | |l|l]; cbn [keys_ok_f dup_free_f] in *; try reflexivity.
  - rewrite forallb_forall in *. intros x Hx. apply IH, Hk, Hx.
  - apply andb_true_iff in Hk as [Hf Hn]. apply andb_true_iff. split; [|exact Hn].
    rewrite forallb_forall in *. intros x Hx. specialize (Hf x Hx). apply andb_true_iff in Hf as [_ Hf]. apply IH, Hf.
Qed.

Lemma keys_ok_dup_free : forall j, keys_ok j = true -> dup_free j = true.
Proof. intros j. apply keys_ok_f_dup_free. Qed.

Lemma render_checked_refuses_repeated_members : forall H j, dup_free j = false -> render_checked H j = None.
Proof. intros H j E. unfold render_checked. rewrite E. reflexivity. Qed.

Lemma render_checked_some : forall H j r, render_checked H j = Some r -> dup_free j = true /\ render H j = Some r.
Proof. intros H j r E. unfold render_checked in E. destruct (dup_free j); [split; [reflexivity|exact E]|discriminate E]. Qed.

(* the injectivity statement for the rendering as the code does it *)
Theorem render_checked_injective_json : forall H,
  (forall x, length (H x) = 32%nat) ->
  forall j1 j2 r, doc_ok j1 -> doc_ok j2 -> render_checked H j1 = Some r -> render_checked H j2 = Some r ->
  (exists c1 T1 m1 c2 T2 m2, doc_parts j1 = Some (c1, T1, m1) /\ doc_parts j2 = Some (c2, T2, m2) /\ jsame (JObj m1) (JObj m2))
  \/ collision H.
Proof.
  intros H HL j1 j2 r O1 O2 R1 R2.
  apply render_checked_some in R1 as [_ R1]. apply render_checked_some in R2 as [_ R2].
  exact (render_injective_json H HL j1 j2 r O1 O2 R1 R2).
Qed.
