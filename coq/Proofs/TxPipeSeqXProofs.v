(* The whole-block sequences of TxPipeSeqProofs.v for histories that also contain executions aborted by a panic and
   the ledgers of the other denominations (TxPipeDenom.xtrace).  Add-only file. *)
From Coq Require Import List ZArith Lia Bool.
From Evm Require Import TxPipe TxPipeExt TxPipeProofs TxPipeDenom TxPipeDenomProofs TxPipeSeqProofs.
Import ListNotations.
Open Scope Z_scope.

Lemma x_indices_from l : forall s,
  shown_indices (xtrace s l) = zrange (tx_count (d_core s)) (Z.of_nat (length (reached (xtrace s l)))).
Proof.
  induction l as [|i r IH]; intros s; [reflexivity|].
  cbn [xtrace]. pose proof (xstep_facts s i) as H.
  destruct (xhead s i) as [[[[sx t] o] res]|].
  - destruct H as [-> F]. unfold shown_indices, reached. cbn [filter snd].
    specialize (IH (fst (xstep s i))). unfold shown_indices, reached in IH.
    destruct (passed (r_out res)) eqn:Ep.
    + cbn [map length snd]. rewrite Nat2Z.inj_succ, <- Z.add_1_l, zrange_cons by lia.
      rewrite (sf_idx _ _ _ _ _ F Ep). f_equal. rewrite IH, (sf_cnt _ _ _ _ _ F), Ep. reflexivity.
    + rewrite IH, (sf_cnt _ _ _ _ _ F), Ep. f_equal. lia.
  - destruct H as (_ & Hc & _ & _). rewrite IH, Hc. reflexivity.
Qed.

Lemma x_log_ids_from l : forall s,
  Forall (fun x : entry => 0 <= e_logs (snd (fst x))) (xtrace s l) ->
  shown_log_ids (xtrace s l) = zrange (log_count (d_core s)) (total_logs (xtrace s l)).
Proof.
  induction l as [|i r IH]; intros s Hnn; [reflexivity|].
  cbn [xtrace] in *. pose proof (xstep_facts s i) as H.
  destruct (xhead s i) as [[[[sx t] o] res]|].
  - destruct H as [-> F].
    inversion Hnn as [|x tr Hx Hrest]; subst. cbn [fst snd] in Hx.
    specialize (IH _ Hrest). pose proof (total_logs_nonneg _ Hrest) as Htot.
    unfold shown_log_ids in *. cbn [flat_map fst snd]. cbn [total_logs fold_right fst snd].
    fold (total_logs (xtrace (fst (xstep s i)) r)).
    rewrite IH, (sf_log _ _ _ _ _ F). unfold logs_shown.
    destruct (is_exec res) eqn:Ee; unfold is_exec in Ee.
    + destruct (r_out res) eqn:Eo; try discriminate.
      destruct (sf_exec _ _ _ _ _ F vmerr Eo) as [_ ->].
      apply zrange_app; assumption.
    + destruct (r_out res); try discriminate; cbn [app]; f_equal; lia.
  - destruct H as (_ & _ & _ & Hc). rewrite IH by assumption. rewrite Hc. reflexivity.
Qed.

Theorem x_block_indices_are_0_1_2 s l :
  tx_count (d_core s) = 0 ->
  shown_indices (xtrace s l) = zrange 0 (Z.of_nat (length (reached (xtrace s l)))).
Proof. intros Z1. rewrite x_indices_from, Z1. reflexivity. Qed.

Theorem x_block_log_ids_consecutive s l :
  log_count (d_core s) = 0 ->
  Forall (fun x : entry => 0 <= e_logs (snd (fst x))) (xtrace s l) ->
  shown_log_ids (xtrace s l) = zrange 0 (total_logs (xtrace s l)) /\ NoDup (shown_log_ids (xtrace s l)) /\
  (forall z, In z (shown_log_ids (xtrace s l)) <-> 0 <= z < total_logs (xtrace s l)).
Proof.
  intros Z3 Hnn. rewrite (x_log_ids_from l _ Hnn), Z3.
  split; [reflexivity|]. split; [apply zrange_NoDup|]. intros z. rewrite zrange_In. lia.
Qed.
