(* The LIST of cumulative-gas figures the receipts of a block show is the list of running sums of the gas shown by all
   Ethereum transactions that reached execution (receipt gas, or the whole gas limit for those that failed after
   admission), read at the receipts.  Add-only file over TxPipeProofs.v / TxPipeDenomProofs.v. *)
From Coq Require Import List ZArith Lia Bool.
From Evm Require Import TxPipe TxPipeExt TxPipeProofs TxPipeDenom TxPipeDenomProofs TxPipeSeqProofs.
Import ListNotations.
Open Scope Z_scope.

Definition shown_cum (tr : list entry) : list Z :=
  map (fun x => r_cum_gas (snd x)) (filter (fun x => is_exec (snd x)) tr).

(* running sums from g, kept at the entries that have a receipt *)
Fixpoint cum_from (g : Z) (tr : list entry) : list Z :=
  match tr with
  | [] => []
  | x :: r => let g' := g + gas_shown (snd x) in
              if is_exec (snd x) then g' :: cum_from g' r else cum_from g' r
  end.

Lemma cum_from_trace l : forall s, shown_cum (trace s l) = cum_from (cum_gas s) (trace s l).
Proof.
  induction l as [|i r IH]; intros s; [reflexivity|].
  destruct i as [t o|g p f inc]; cbn [trace].
  - pose proof (deliver_facts s t o) as F.
    specialize (IH (fst (deliver s t o))). unfold shown_cum in *. cbn [filter cum_from snd].
    destruct (is_exec (snd (deliver s t o))) eqn:Ee; cbn [map snd]; rewrite IH, (sf_gas _ _ _ _ _ F); [|reflexivity].
    f_equal.
    unfold is_exec in Ee. destruct (r_out (snd (deliver s t o))) eqn:Eo; try discriminate.
    destruct (sf_exec _ _ _ _ _ F vmerr Eo) as [Hc _]. exact Hc.
  - pose proof (step_cosmos_transient s g p f inc) as Hc. cbv zeta in Hc. destruct Hc as (_ & Hc & _).
    rewrite IH, Hc. reflexivity.
Qed.

Lemma cum_from_xtrace l : forall s, shown_cum (xtrace s l) = cum_from (cum_gas (d_core s)) (xtrace s l).
Proof.
  induction l as [|i r IH]; intros s; [reflexivity|].
  cbn [xtrace]. pose proof (xstep_facts s i) as H.
  destruct (xhead s i) as [[[[sx t] o] res]|].
  - destruct H as [-> F].
    specialize (IH (fst (xstep s i))). unfold shown_cum in *. cbn [filter cum_from snd].
    destruct (is_exec res) eqn:Ee; cbn [map snd]; rewrite IH, (sf_gas _ _ _ _ _ F); [|reflexivity].
    f_equal.
    unfold is_exec in Ee. destruct (r_out res) eqn:Eo; try discriminate.
    destruct (sf_exec _ _ _ _ _ F vmerr Eo) as [Hc _]. exact Hc.
  - destruct H as (_ & _ & Hc & _). rewrite IH, Hc. reflexivity.
Qed.

Theorem block_cumulative_is_running_sums s l :
  shown_cum (trace (begin_block s) l) = cum_from 0 (trace (begin_block s) l).
Proof. rewrite cum_from_trace. destruct (begin_block_counters s) as (_ & -> & _). reflexivity. Qed.

Theorem x_block_cumulative_is_running_sums s l :
  cum_gas (d_core s) = 0 -> shown_cum (xtrace s l) = cum_from 0 (xtrace s l).
Proof. intros Z2. rewrite cum_from_xtrace, Z2. reflexivity. Qed.
