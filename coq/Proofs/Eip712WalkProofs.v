(* C19 — the type derivation of ethereum/eip712/types.go (Model/Eip712Enc.v walk / add_types / types_of_msgs) always
   produces a well-formed type map (Eip712EncProofs.tymap_ok) that still contains the root types: the side
   conditions of the injectivity theorem hold for every sign document with word-character keys and message type
   names, so the theorem is unconditional on that class. *)
From Coq Require Import String Ascii.
From Coq Require Import List NArith ZArith Bool Lia PeanoNat.
From Coq Require Import ZifyBool ZifyN ZifyNat.
From Evm Require Import SigWrap SigWrapProofs HdPath HdPathProofs Eip712Enc Eip712EncProofs.
Import ListNotations.
Open Scope N_scope.

(* ------------------------------------------------------------------ word-character strings *)

Definition wordy (s : bytes) : bool := forallb is_word s.
Definition head_upper (s : bytes) : bool := match s with c :: _ => is_upper c | [] => false end.

Lemma is_word_not_sep : forall c, is_word c = true -> sep_char c = false /\ (c =? 93) = false /\ (c =? 46) = false.
Proof. intros c. unfold is_word, is_digit, is_lower, is_upper, sep_char. lia. Qed.

Lemma wordy_app : forall a b, wordy (a ++ b) = wordy a && wordy b.
Proof. intros a b. unfold wordy. apply forallb_app. Qed.

Lemma wordy_ident : forall s, wordy s = true -> ident_ok s = true.
Proof.
  intros s H. unfold wordy in H. unfold ident_ok. rewrite forallb_forall in *. intros c Hc.
  destruct (is_word_not_sep c (H c Hc)) as [E _]. rewrite E. reflexivity.
Qed.

Lemma wordy_no93 : forall s, wordy s = true -> forallb (fun c => negb (c =? 93)) s = true.
Proof.
  intros s H. unfold wordy in H. rewrite forallb_forall in *. intros c Hc.
  destruct (is_word_not_sep c (H c Hc)) as (_ & E & _). rewrite E. reflexivity.
Qed.

Lemma wordy_name_ok : forall s, wordy s = true -> head_upper s = true -> name_ok s = true.
Proof.
  intros s W U. unfold name_ok. rewrite (wordy_ident s W), (wordy_no93 s W). cbn [andb].
  destruct s; [discriminate | exact U].
Qed.

Lemma digit_is_word : forall c, digit c -> is_word c = true.
Proof. intros c. unfold digit, is_word, is_digit, is_lower, is_upper. lia. Qed.

Lemma dec_digits_wordy : forall n, wordy (dec_digits n) = true.
Proof.
  intros n. destruct (dec_digits_ok n) as (HF & _). unfold wordy. rewrite forallb_forall. intros c Hc.
  rewrite Forall_forall in HF. apply digit_is_word. apply HF. exact Hc.
Qed.

Lemma head_upper_app : forall a b, head_upper a = true -> head_upper (a ++ b) = true.
Proof. intros a b H. destruct a; [discriminate | exact H]. Qed.

Lemma title_wordy : forall s, wordy s = true -> wordy (title s) = true.
Proof.
  unfold wordy. induction s as [|c r IH]; intros W; [reflexivity|].
  cbn [forallb] in W. apply andb_true_iff in W as [Wc Wr]. cbn [title].
  destruct (is_digit c).
  - cbn [forallb]. rewrite Wc. apply IH. exact Wr.
  - cbn [forallb]. rewrite Wr, andb_true_r.
    destruct (is_lower c) eqn:L; [|exact Wc].
    revert L. unfold is_word, is_digit, is_lower, is_upper. lia.
Qed.

(* pieces of a string whose characters are word characters or the separator are word-character strings *)
Lemma split_on_wordy : forall sep s,
  forallb (fun c => is_word c || (c =? sep)) s = true -> Forall (fun p => wordy p = true) (split_on sep s).
Proof.
  intros sep. induction s as [|c r IH]; intros H; [repeat constructor|].
  cbn [forallb] in H. apply andb_true_iff in H as [Hc Hr]. cbv beta in Hc. specialize (IH Hr). cbn [split_on].
  destruct (c =? sep) eqn:E.
  - constructor; [reflexivity | exact IH].
  - rewrite orb_false_r in Hc. destruct (split_on sep r) as [|h t].
    + repeat constructor. cbn [wordy forallb]. rewrite Hc. reflexivity.
    + inversion IH; subst. constructor; [|assumption]. cbn [wordy forallb]. rewrite Hc. assumption.
Qed.

Definition dotted (s : bytes) : bool := forallb (fun c => is_word c || (c =? 46)) s.

Lemma wordy_dotted : forall s, wordy s = true -> dotted s = true.
Proof.
  intros s H. unfold wordy in H. unfold dotted. rewrite forallb_forall in *. intros c Hc. rewrite (H c Hc). reflexivity.
Qed.

Lemma flat_map_wordy {A} : forall (f : A -> bytes) l, Forall (fun x => wordy (f x) = true) l -> wordy (flat_map f l) = true.
Proof.
  intros f l H. induction H as [|x l Hx _ IH]; [reflexivity|]. cbn [flat_map]. rewrite wordy_app, Hx, IH. reflexivity.
Qed.

Lemma sanitize_part_wordy : forall part, wordy part = true ->
  wordy (if beqb part [95] then bs "Type" else flat_map title (split_on 95 part)) = true.
Proof.
  intros part W. destruct (beqb part [95]); [reflexivity|].
  apply flat_map_wordy. assert (Hs : Forall (fun p => wordy p = true) (split_on 95 part)).
  { apply split_on_wordy. unfold wordy in W. rewrite forallb_forall in *. intros c Hc. rewrite (W c Hc). reflexivity. }
  eapply Forall_impl; [|exact Hs]. intros p. apply title_wordy.
Qed.

Lemma sanitize_wordy : forall s, dotted s = true -> wordy (sanitize s) = true.
Proof.
  intros s D. unfold sanitize. apply flat_map_wordy.
  eapply Forall_impl; [|apply (split_on_wordy 46 s); exact D]. intros p. apply sanitize_part_wordy.
Qed.

(* the path prefix of a nested object: "_" or "_.a.b" *)
Definition prefix_ok (p : bytes) : Prop := dotted p = true /\ (p = [95] \/ exists r, p = 95 :: 46 :: r).

Lemma prefix_ok_root : prefix_ok [95].
Proof. split; [reflexivity | left; reflexivity]. Qed.

Lemma prefix_ok_sub : forall p name, prefix_ok p -> wordy name = true -> prefix_ok (p ++ [46] ++ name).
Proof.
  intros p name [D S] W. split.
  - unfold dotted in *. rewrite !forallb_app, D. cbn [forallb andb]. fold (dotted name). rewrite (wordy_dotted name W). reflexivity.
  - right. destruct S as [->|[r ->]]; [exists name; reflexivity | exists (r ++ [46] ++ name); reflexivity].
Qed.

Lemma sanitize_prefix_head : forall r, head_upper (sanitize (95 :: 46 :: r)) = true.
Proof.
  intros r. unfold sanitize. cbn [split_on]. change (95 =? 46) with false. cbv iota.
  destruct (split_on 46 (46 :: r)) as [|h t] eqn:E.
  - cbn [split_on] in E. rewrite N.eqb_refl in E. discriminate.
  - cbn [split_on] in E. rewrite N.eqb_refl in E. inversion E; subst. reflexivity.
Qed.

Definition type_def (prefix root : bytes) : bytes := if beqb prefix [95] then root else sanitize prefix.

Lemma type_def_ok : forall prefix root,
  prefix_ok prefix -> wordy root = true -> head_upper root = true ->
  wordy (type_def prefix root) = true /\ head_upper (type_def prefix root) = true.
Proof.
  intros prefix root [D S] W U. unfold type_def. destruct (beqb prefix [95]) eqn:B; [split; assumption|].
  split; [apply sanitize_wordy; exact D|].
  destruct S as [->|[r ->]]; [discriminate | apply sanitize_prefix_head].
Qed.

(* ------------------------------------------------------------------ type maps only grow *)

Definition ext (T T' : tymap) : Prop := exists X, T' = T ++ X.

Lemma ext_refl : forall T, ext T T.
Proof. intros T. exists []. rewrite app_nil_r. reflexivity. Qed.

Lemma ext_trans : forall A B C, ext A B -> ext B C -> ext A C.
Proof. intros A B C [X ->] [Y ->]. exists (X ++ Y). rewrite app_assoc. reflexivity. Qed.

Lemma assoc_app_some {A} : forall (k : bytes) (l X : list (bytes * A)) v, assoc k l = Some v -> assoc k (l ++ X) = Some v.
Proof.
  intros k. induction l as [|[k' v'] l IH]; intros X v E; cbn [assoc app] in *; [discriminate|].
  destruct (beqb k k'); [exact E | apply IH; exact E].
Qed.

Lemma ext_assoc : forall T T' k v, ext T T' -> assoc k T = Some v -> assoc k T' = Some v.
Proof. intros T T' k v [X ->] E. apply assoc_app_some. exact E. Qed.

Lemma tymap_ok_app : forall T X, tymap_ok (T ++ X) = tymap_ok T && tymap_ok X.
Proof. intros T X. unfold tymap_ok. apply forallb_app. Qed.

Lemma fields_ok_app : forall a b, fields_ok (a ++ b) = fields_ok a && fields_ok b.
Proof. intros a b. unfold fields_ok. apply forallb_app. Qed.

Lemma ident_ok_app : forall a b, ident_ok (a ++ b) = ident_ok a && ident_ok b.
Proof. intros a b. unfold ident_ok. apply forallb_app. Qed.

(* ------------------------------------------------------------------ addTypesToRoot *)

Lemma add_types_f_ok : forall n T typeDef idx fs T' key,
  tymap_ok T = true -> wordy typeDef = true -> head_upper typeDef = true -> fields_ok fs = true ->
  add_types_f n T typeDef idx fs = Some (T', key) ->
  tymap_ok T' = true /\ wordy key = true /\ ext T T'.
Proof.
  induction n as [|n IH]; intros T typeDef idx fs T' key O W U F E; cbn [add_types_f] in E; [discriminate|].
  assert (Wk : wordy (typeDef ++ dec_digits idx) = true) by (rewrite wordy_app, W, dec_digits_wordy; reflexivity).
  destruct (assoc (typeDef ++ dec_digits idx) T) as [ex|].
  - destruct (tydef_eqb fs ex).
    + inversion E; subst. split; [exact O|]. split; [exact Wk | apply ext_refl].
    + exact (IH _ _ _ _ _ _ O W U F E).
  - inversion E; subst. split; [|split; [exact Wk | exists [(typeDef ++ dec_digits idx, fs)]; reflexivity]].
    rewrite tymap_ok_app, O. cbn [tymap_ok forallb fst snd andb]. unfold typedef_ok. rewrite F.
    rewrite wordy_name_ok; [reflexivity | exact Wk | apply head_upper_app; exact U].
Qed.

(* ------------------------------------------------------------------ recursivelyAddTypesToRoot *)

Definition wstep (rec : tymap -> bytes -> list kv -> option (tymap * bytes)) (prefix : bytes) (obj : list kv)
  (acc : option (tymap * tydef)) (name : bytes) : option (tymap * tydef) :=
  match acc with
  | None => None
  | Some (T, fs) =>
    match assoc name obj with
    | None => Some (T, fs)
    | Some (JArr []) => Some (T, fs ++ [(name, bs "string[]")])
    | Some v =>
      let '(fld, coll) := match v with JArr (x :: _) => (x, true) | _ => (v, false) end in
      match eth_type fld with
      | Some t => Some (T, fs ++ [(name, t ++ arr_suffix coll)])
      | None =>
        match fld with
        | JObj o =>
          match rec T (prefix ++ [46] ++ name) o with
          | None => None
          | Some (T', td) => Some (T', fs ++ [(name, sanitize td ++ arr_suffix coll)])
          end
        | _ => Some (T, fs)
        end
      end
    end
  end.

Lemma walk_S : forall k T root prefix obj,
  walk (S k) T root prefix obj =
  match fold_left (wstep (fun T p o => walk k T root p o) prefix obj) (sort_desc (map fst obj)) (Some (T, [])) with
  | None => None
  | Some (T', fs) => add_types T' (type_def prefix root) fs
  end.
Proof. reflexivity. Qed.

Lemma in_insert_sorted : forall x y l, In x (insert_sorted y l) -> x = y \/ In x l.
Proof.
  intros x y. induction l as [|z l IH]; intros H; cbn [insert_sorted] in H.
  - destruct H as [<-|[]]. left; reflexivity.
  - destruct (bleb y z).
    + destruct H as [<-|H]; [left; reflexivity | right; exact H].
    + destruct H as [<-|H]; [right; left; reflexivity|]. apply IH in H as [->|H]; [left; reflexivity | right; right; exact H].
Qed.

Lemma in_sort_asc : forall x l, In x (sort_asc l) -> In x l.
Proof.
  intros x. induction l as [|y l IH]; intros H; [exact H|].
  cbn [sort_asc fold_right] in H. apply in_insert_sorted in H as [->|H]; [left; reflexivity | right; apply IH; exact H].
Qed.

Lemma in_sort_desc : forall x l, In x (sort_desc l) -> In x l.
Proof. intros x l H. unfold sort_desc in H. apply in_rev in H. apply in_sort_asc. exact H. Qed.

(* an object whose keys (at every depth) are non-empty word-character strings *)
Definition keysok (o : list kv) : Prop := exists g, keys_ok_f g (JObj o) = true.

Lemma keysok_member : forall o name v,
  keysok o -> assoc name o = Some v ->
  wordy name = true /\
  (forall o', v = JObj o' -> keysok o') /\
  (forall o' rest, v = JArr (JObj o' :: rest) -> keysok o').
Proof.
  intros o name v [g G] A. destruct g as [|g]; [discriminate|]. cbn [keys_ok_f] in G.
  apply andb_true_iff in G as [G _]. rewrite forallb_forall in G. apply assoc_In in A. apply G in A.
  cbn [fst snd] in A. apply andb_true_iff in A as [K V]. split; [|split].
  - unfold key_ok in K. apply andb_true_iff in K as [_ K]. exact K.
  - intros o' ->. exists g. exact V.
  - intros o' rest ->. destruct g as [|g]; [discriminate|]. cbn [keys_ok_f forallb] in V.
    apply andb_true_iff in V as [V _]. exists g. exact V.
Qed.

Lemma keysok_key : forall o name, keysok o -> In name (map fst o) -> wordy name = true.
Proof.
  intros o name [g G] Hin. destruct g as [|g]; [discriminate|]. cbn [keys_ok_f] in G.
  apply andb_true_iff in G as [G _]. rewrite forallb_forall in G.
  apply in_map_iff in Hin as ([k v] & <- & Hin). apply G in Hin. cbn [fst snd] in Hin.
  apply andb_true_iff in Hin as [K _]. unfold key_ok in K. apply andb_true_iff in K as [_ K]. exact K.
Qed.

Definition acc_inv (T0 : tymap) (acc : option (tymap * tydef)) : Prop :=
  match acc with
  | None => True
  | Some (T, fs) => tymap_ok T = true /\ fields_ok fs = true /\ ext T0 T
  end.

Lemma field_ok_single : forall name ty, wordy name = true -> ident_ok ty = true -> fields_ok [(name, ty)] = true.
Proof. intros name ty W I. cbn [fields_ok forallb fst snd]. rewrite (wordy_ident _ W), I. reflexivity. Qed.

Lemma arr_suffix_ident : forall coll, ident_ok (arr_suffix coll) = true.
Proof. intros []; reflexivity. Qed.

Lemma eth_type_ident : forall fld t, eth_type fld = Some t -> ident_ok t = true.
Proof. intros fld t E. destruct fld; cbn [eth_type] in E; inversion E; reflexivity. Qed.

Section WalkStep.
  Variable rec : tymap -> bytes -> list kv -> option (tymap * bytes).
  Hypothesis rec_ok : forall T p o T' td,
    tymap_ok T = true -> prefix_ok p -> keysok o -> rec T p o = Some (T', td) ->
    tymap_ok T' = true /\ wordy td = true /\ ext T T'.

  Lemma wstep_inv : forall T0 prefix obj acc name,
    prefix_ok prefix -> keysok obj -> In name (map fst obj) ->
    acc_inv T0 acc -> acc_inv T0 (wstep rec prefix obj acc name).
  Proof.
    intros T0 prefix obj acc name P K Hin I. destruct acc as [[T fs]|]; [|exact I].
    destruct I as (O & F & X). pose proof (keysok_key _ _ K Hin) as Wn. unfold wstep.
    destruct (assoc name obj) as [v|] eqn:A; [|repeat split; assumption].
    destruct (keysok_member _ _ _ K A) as (_ & Ko & Ka).
    assert (Hadd : forall ty, ident_ok ty = true -> acc_inv T0 (Some (T, fs ++ [(name, ty)]))).
    { intros ty Ity. repeat split; try assumption. rewrite fields_ok_app, F, (field_ok_single _ _ Wn Ity). reflexivity. }
    assert (Hobj : forall o coll, keysok o ->
              acc_inv T0 (match rec T (prefix ++ [46] ++ name) o with
                          | None => None
                          | Some (T', td) => Some (T', fs ++ [(name, sanitize td ++ arr_suffix coll)])
                          end)).
    { intros o coll Kk. destruct (rec T (prefix ++ [46] ++ name) o) as [[T' td]|] eqn:R; [|exact Logic.I].
      destruct (rec_ok _ _ _ _ _ O (prefix_ok_sub _ _ P Wn) Kk R) as (O' & Wtd & X').
      repeat split; [exact O' | | eapply ext_trans; eassumption].
      rewrite fields_ok_app, F. apply field_ok_single; [exact Wn|].
      rewrite ident_ok_app, arr_suffix_ident, andb_true_r. apply wordy_ident. apply sanitize_wordy. apply wordy_dotted. exact Wtd. }
    destruct v as [| b | z | | s | l | o].
    - (* null *) cbn. repeat split; assumption.
    - cbn. apply Hadd. reflexivity.
    - cbn. apply Hadd. reflexivity.
    - cbn. apply Hadd. reflexivity.
    - cbn. apply Hadd. reflexivity.
    - destruct l as [|x rest]; [apply Hadd; reflexivity|].
      cbv beta iota. destruct (eth_type x) as [t|] eqn:Et.
      + apply Hadd. rewrite ident_ok_app, (eth_type_ident _ _ Et). reflexivity.
      + destruct x; try (repeat split; assumption). apply Hobj. eapply Ka. reflexivity.
    - cbv beta iota. cbn [eth_type]. apply Hobj. apply Ko. reflexivity.
  Qed.

  Lemma wfold_inv : forall T0 prefix obj names acc,
    prefix_ok prefix -> keysok obj -> (forall n, In n names -> In n (map fst obj)) ->
    acc_inv T0 acc -> acc_inv T0 (fold_left (wstep rec prefix obj) names acc).
  Proof.
    intros T0 prefix obj. induction names as [|n names IH]; intros acc P K Hsub I; [exact I|].
    cbn [fold_left]. apply IH; try assumption.
    - intros m Hm. apply Hsub. right; exact Hm.
    - apply wstep_inv; try assumption. apply Hsub. left; reflexivity.
  Qed.
End WalkStep.

Theorem walk_ok : forall k T root prefix obj T' td,
  tymap_ok T = true -> wordy root = true -> head_upper root = true -> prefix_ok prefix -> keysok obj ->
  walk k T root prefix obj = Some (T', td) ->
  tymap_ok T' = true /\ wordy td = true /\ ext T T'.
Proof.
  induction k as [|k IH]; intros T root prefix obj T' td O W U P K E; [discriminate|].
  rewrite walk_S in E.
  assert (I : acc_inv T (fold_left (wstep (fun T p o => walk k T root p o) prefix obj) (sort_desc (map fst obj)) (Some (T, [])))).
  { apply wfold_inv; try assumption.
    - intros T1 p o T1' td1 O1 P1 K1 R. eapply IH; eassumption.
    - intros n Hn. apply in_sort_desc. exact Hn.
    - repeat split; [exact O | apply ext_refl]. }
  destruct (fold_left _ _ _) as [[T1 fs]|]; [|discriminate].
  destruct I as (O1 & F1 & X1). destruct (type_def_ok prefix root P W U) as [Wt Ut].
  unfold add_types in E. destruct (add_types_f_ok _ _ _ _ _ _ _ O1 Wt Ut F1 E) as (O' & Wk & X').
  split; [exact O'|]. split; [exact Wk | eapply ext_trans; eassumption].
Qed.

(* ------------------------------------------------------------------ createEIP712Types *)

Lemma tymap_ok_cons : forall k v T, tymap_ok ((k, v) :: T) = name_ok k && typedef_ok v && tymap_ok T.
Proof. reflexivity. Qed.

Lemma tymap_ok_update : forall k (g : tydef -> tydef) T,
  tymap_ok T = true -> (forall fs, fields_ok fs = true -> fields_ok (g fs) = true) -> tymap_ok (update_assoc k g T) = true.
Proof.
  intros k g. induction T as [|[k' v] T IH]; intros O G; [reflexivity|].
  rewrite tymap_ok_cons in O. apply andb_true_iff in O as [O1 O2]. apply andb_true_iff in O1 as [N F].
  cbn [update_assoc]. destruct (beqb k k').
  - rewrite tymap_ok_cons, N, O2. unfold typedef_ok in *. rewrite (G v F). reflexivity.
  - rewrite tymap_ok_cons, N, F, (IH O2 G). reflexivity.
Qed.

Lemma update_assoc_keys {A} : forall k (g : A -> A) T k0, assoc k0 (update_assoc k g T) <> None <-> assoc k0 T <> None.
Proof.
  intros k g. induction T as [|[k' v] T IH]; intros k0; [reflexivity|].
  cbn [update_assoc]. destruct (beqb k k'); cbn [assoc]; destruct (beqb k0 k'); try (split; discriminate); try reflexivity.
  apply IH.
Qed.

Definition msg_ok (m : json) : Prop :=
  match m with
  | JObj o => keysok o /\ (forall root, msg_root_type o = Some root -> wordy root = true)
  | _ => True
  end.

Lemma msg_root_head : forall o root, msg_root_type o = Some root -> head_upper root = true.
Proof.
  intros o root E. unfold msg_root_type in E. destruct (assoc (bs "type") o) as [[| | | |s| |]|]; try discriminate.
  destruct s; [discriminate|]. inversion E. reflexivity.
Qed.

Lemma msg_field_wordy : forall i, wordy (msg_field i) = true.
Proof. intros i. unfold msg_field. rewrite wordy_app, dec_digits_wordy. reflexivity. Qed.

Theorem types_of_msgs_ok : forall msgs T i T',
  tymap_ok T = true -> Forall msg_ok msgs -> types_of_msgs T i msgs = Some T' ->
  tymap_ok T' = true /\ (forall k, assoc k T <> None -> assoc k T' <> None).
Proof.
  induction msgs as [|m msgs IH]; intros T i T' O M E; cbn [types_of_msgs] in E.
  - inversion E; subst. split; [exact O | auto].
  - inversion M as [|? ? Mm Mr]; subst. destruct m; try discriminate.
    destruct (msg_root_type l) as [root|] eqn:R; [|discriminate].
    destruct (walk (jsize (JObj l)) T root [95] l) as [[T1 td]|] eqn:Wk; [|discriminate].
    destruct Mm as [K Wr].
    destruct (walk_ok _ _ _ _ _ _ _ O (Wr root R) (msg_root_head _ _ R) prefix_ok_root K Wk) as (O1 & Wtd & X1).
    assert (O2 : tymap_ok (update_assoc (bs "Tx") (fun fs => fs ++ [(msg_field i, td)]) T1) = true).
    { apply tymap_ok_update; [exact O1|]. intros fs F. rewrite fields_ok_app, F.
      apply field_ok_single; [apply msg_field_wordy | apply wordy_ident; exact Wtd]. }
    destruct (IH _ _ _ O2 Mr E) as [O' Keep]. split; [exact O'|].
    intros k A. apply Keep. apply update_assoc_keys.
    destruct (assoc k T) as [v|] eqn:Ak; [|contradiction]. rewrite (ext_assoc _ _ _ _ X1 Ak). discriminate.
Qed.

(* ------------------------------------------------------------------ sign documents *)

(* the class of sign documents the theorem covers: every key at every depth is a non-empty word-character string
   (and unique in its object), and the last "/"-separated token of every message's type name consists of word
   characters — true of every legacy-amino JSON sign document of registered messages *)
Definition doc_ok (j : json) : Prop :=
  keys_ok j = true /\
  match j with
  | JObj doc =>
    match assoc (bs "msgs") doc with
    | Some (JArr msgs) =>
      Forall (fun m => match m with
                       | JObj o => forall root, msg_root_type o = Some root -> wordy root = true
                       | _ => True
                       end) msgs
    | _ => True
    end
  | _ => True
  end.

Lemma flatten_msgs_are : forall doc message msgs,
  flatten doc = Some (message, msgs) -> assoc (bs "msgs") doc = Some (JArr msgs).
Proof.
  intros doc message msgs E. unfold flatten in E. destruct (assoc (bs "msgs") doc) as [[| | | | |l|]|]; try discriminate.
  destruct (flatten_msgs doc 0 l); [|discriminate]. inversion E. reflexivity.
Qed.

Theorem doc_types_ok : forall j c T m,
  doc_ok j -> doc_parts j = Some (c, T, m) ->
  tymap_ok T = true /\ assoc TX T <> None /\ assoc EIP712DOMAIN T <> None.
Proof.
  intros j c T m [K R] P. unfold doc_parts in P. destruct j as [| | | | | |doc]; try discriminate.
  destruct (assoc (bs "chain_id") doc) as [[| | | |s| |]|]; try discriminate.
  destruct (chain_id_number s); [|discriminate].
  destruct (flatten doc) as [[message msgs]|] eqn:Fl; [|discriminate].
  destruct (types_of_msgs base_types 0 msgs) as [T0|] eqn:Ty; [|discriminate]. inversion P; subst.
  pose proof (flatten_msgs_are _ _ _ Fl) as Am. rewrite Am in R.
  assert (M : Forall msg_ok msgs).
  { unfold keys_ok in K. destruct (jsize (JObj doc)) as [|g]; [discriminate|]. cbn [keys_ok_f] in K.
    apply andb_true_iff in K as [K _]. rewrite forallb_forall in K. apply assoc_In in Am. apply K in Am.
    cbn [fst snd] in Am. apply andb_true_iff in Am as [_ V].
    destruct g as [|g]; [discriminate|]. cbn [keys_ok_f] in V. rewrite forallb_forall in V.
    rewrite Forall_forall in *. intros x Hx. specialize (V x Hx). specialize (R x Hx).
    destruct x; try exact Logic.I. split; [exists g; exact V | exact R]. }
  destruct (types_of_msgs_ok msgs base_types 0 T eq_refl M Ty) as [O Keep].
  split; [exact O|]. split; apply Keep; discriminate.
Qed.

(* ------------------------------------------------------------------ the unconditional injectivity theorem *)

(* what a sign document is rendered from: its typed EIP-712 domain and its typed Tx message *)
Definition doc_view (j : json) : option (tval * tval) :=
  match doc_parts j with
  | Some (c, T, m) =>
    match typed_view T EIP712DOMAIN (cosmos_domain c), typed_view T TX m with
    | Some td, Some tm => Some (td, tm)
    | _, _ => None
    end
  | None => None
  end.

Theorem render_injective : forall H,
  (forall x, length (H x) = 32%nat) ->
  forall j1 j2 r, doc_ok j1 -> doc_ok j2 -> render H j1 = Some r -> render H j2 = Some r ->
  (exists v, doc_view j1 = Some v /\ doc_view j2 = Some v) \/ collision H.
Proof.
  intros H HL j1 j2 r D1 D2 R1 R2.
  destruct (render_parts _ _ _ R1) as (c1 & T1 & m1 & P1 & _).
  destruct (render_parts _ _ _ R2) as (c2 & T2 & m2 & P2 & _).
  destruct (doc_types_ok _ _ _ _ D1 P1) as (O1 & AT1 & AD1).
  destruct (doc_types_ok _ _ _ _ D2 P2) as (O2 & AT2 & AD2).
  destruct (render_injective_or_collision H HL _ _ _ _ _ _ _ _ _ P1 P2 O1 O2 AD1 AD2 AT1 AT2 R1 R2)
    as [[(td & Vd1 & Vd2) (tm & Vm1 & Vm2)]|Col]; [left | right; exact Col].
  exists (td, tm). unfold doc_view. rewrite P1, P2, Vd1, Vd2, Vm1, Vm2. split; reflexivity.
Qed.
