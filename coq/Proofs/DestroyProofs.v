(* Proofs about Model/Destroy.v (C15). *)
From Coq Require Import ZArith List Bool Lia Sorted Permutation.
From Evm Require Import Destroy.
Import ListNotations.
Open Scope Z_scope.

(* ------------------------------------------------------------------ small facts *)

Lemma upd_same {A} (f : addr -> A) a v : upd f a v a = v.
Proof. unfold upd. rewrite Z.eqb_refl. reflexivity. Qed.

Lemma upd_other {A} (f : addr -> A) a v x : x <> a -> upd f a v x = f x.
Proof. intros H. unfold upd. destruct (x =? a) eqn:E; [apply Z.eqb_eq in E; contradiction | reflexivity]. Qed.

Lemma amt_set_same c d v : amt (set_amt c d v) d = v.
Proof.
  induction c as [|[d' v'] r IH]; cbn [set_amt amt].
  - rewrite Z.eqb_refl. reflexivity.
  - destruct (d' =? d) eqn:E; cbn [amt].
    + rewrite Z.eqb_refl. reflexivity.
    + rewrite E. exact IH.
Qed.

Lemma amt_set_other c d v d' : d' <> d -> amt (set_amt c d v) d' = amt c d'.
Proof.
  intros Hn. induction c as [|[d0 v0] r IH]; cbn [set_amt amt].
  - destruct (d =? d') eqn:E; [apply Z.eqb_eq in E; congruence | reflexivity].
  - destruct (d0 =? d) eqn:E; cbn [amt].
    + apply Z.eqb_eq in E. subst d0.
      destruct (d =? d') eqn:E2; [apply Z.eqb_eq in E2; congruence | reflexivity].
    + destruct (d0 =? d'); [reflexivity | exact IH].
Qed.

Lemma amt_in c d : amt c d <> 0 -> exists v, In (d, v) c.
Proof.
  induction c as [|[d' v'] r IH]; cbn [amt]; [congruence|].
  destruct (d' =? d) eqn:E.
  - apply Z.eqb_eq in E. subst. intros _. exists v'. left. reflexivity.
  - intros H. destruct (IH H) as [v Hv]. exists v. right. exact Hv.
Qed.

Lemma all_zero_spec c : all_zero c = true <-> forall d, amt c d = 0.
Proof.
  unfold all_zero. rewrite forallb_forall. split.
  - intros H d. destruct (Z.eq_dec (amt c d) 0) as [|Hn]; [assumption|].
    destruct (amt_in c d Hn) as [v Hv]. specialize (H (d, v) Hv). cbn in H. apply Z.eqb_eq in H. exact H.
  - intros H [d v] _. cbn. apply Z.eqb_eq. apply H.
Qed.

Lemma all_zero_nil : all_zero [] = true.
Proof. reflexivity. Qed.

Lemma mem_In a l : mem a l = true <-> In a l.
Proof.
  unfold mem. rewrite existsb_exists. split.
  - intros [x [Hx E]]. apply Z.eqb_eq in E. subst. exact Hx.
  - intros H. exists a. split; [exact H | apply Z.eqb_refl].
Qed.

(* ------------------------------------------------------------------ vesting arithmetic *)

Lemma locked_sched_nonneg sc t d : 0 <= locked_sched sc t d.
Proof. unfold locked_sched. destruct (s_kind sc); lia. Qed.

Lemma locked_kind_nonneg k t d : 0 <= locked_kind k t d.
Proof. destruct k; cbn [locked_kind]; try lia. apply locked_sched_nonneg. Qed.

(* what the SDK's Validate() guarantees of a stored vesting account, as far as it is needed here:
   delegated vesting coins are never negative (sdk.Coins), start < end for schedules with a start *)
Definition wf_kind (k : kind) : Prop :=
  match k with
  | Vesting sc =>
      (forall d, 0 <= amt (s_delv sc) d) /\
      match s_kind sc with VContinuous | VPeriodic => s_start sc < s_end sc | _ => True end
  | _ => True
  end.

(* an account the destroy guard lets through has nothing locked at that time *)
Lemma unprotected_unlocked k t d :
  wf_kind k -> protected_kind k t = false -> locked_kind k t d = 0.
Proof.
  destruct k as [| |sc]; cbn [protected_kind locked_kind wf_kind]; try reflexivity; try discriminate.
  intros [Hd Hse] Hp. unfold locked_sched, vesting_amt, vested_amt.
  specialize (Hd d).
  destruct (s_kind sc) eqn:K; try discriminate; try reflexivity; apply Z.ltb_ge in Hp.
  - destruct (s_end sc <=? t) eqn:E; [|apply Z.leb_gt in E; lia]. lia.
  - destruct (t <=? s_start sc) eqn:E1; [apply Z.leb_le in E1; lia|].
    destruct (s_end sc <=? t) eqn:E2; [|apply Z.leb_gt in E2; lia]. lia.
  - destruct (t <=? s_start sc) eqn:E1; [apply Z.leb_le in E1; lia|].
    destruct (s_end sc <=? t) eqn:E2; [|apply Z.leb_gt in E2; lia]. lia.
Qed.

(* ------------------------------------------------------------------ effects of the primitives, pointwise *)

Definition fresh (w : world) : account := mkAcc Base 0 (w_next w).

Lemma ensure_acc w a x :
  w_acc (ensure_account w a) x =
  if x =? a then Some (match w_acc w a with Some ac => ac | None => fresh w end) else w_acc w x.
Proof.
  unfold ensure_account. destruct (w_acc w a) eqn:E; cbn [w_acc].
  - destruct (x =? a) eqn:Ex; [apply Z.eqb_eq in Ex; subst; exact E | reflexivity].
  - unfold upd. reflexivity.
Qed.

Lemma ensure_bal w a : w_bal (ensure_account w a) = w_bal w.
Proof. unfold ensure_account. destruct (w_acc w a); reflexivity. Qed.
Lemma ensure_code w a : w_code (ensure_account w a) = w_code w.
Proof. unfold ensure_account. destruct (w_acc w a); reflexivity. Qed.
Lemma ensure_stor w a : w_stor (ensure_account w a) = w_stor w.
Proof. unfold ensure_account. destruct (w_acc w a); reflexivity. Qed.

Lemma ensure_acc_keep w a x ac : w_acc w x = Some ac -> w_acc (ensure_account w a) x = Some ac.
Proof.
  intros H. rewrite ensure_acc. destruct (x =? a) eqn:E; [|exact H].
  apply Z.eqb_eq in E. subst. rewrite H. reflexivity.
Qed.

Lemma ensure_acc_present w a : w_acc (ensure_account w a) a <> None.
Proof. rewrite ensure_acc, Z.eqb_refl. discriminate. Qed.

Lemma destroy_eff e w a w' :
  destroy e w a = Ok w' ->
  (forall ac, w_acc w a = Some ac -> protected_kind (a_kind ac) (e_now e) = false) /\
  (forall x, w_acc w' x = if x =? a then None else w_acc w x) /\
  w_bal w' = upd (w_bal w) a [] /\ w_code w' = upd (w_code w) a 0 /\ w_stor w' = upd (w_stor w) a [] /\
  w_next w' = w_next w.
Proof.
  unfold destroy. destruct (w_acc w a) as [ac|] eqn:E.
  - destruct (protected_kind (a_kind ac) (e_now e)) eqn:P; cbn [bind]; [discriminate|].
    intros H. injection H as <-. cbn. repeat split; try reflexivity.
    + intros ac' H'. injection H' as <-. exact P.
  - cbn [bind]. intros H. injection H as <-. cbn. repeat split; try reflexivity.
    + intros ac' H'. discriminate.
    + intros x. destruct (x =? a) eqn:Ex; [apply Z.eqb_eq in Ex; subst; exact E | reflexivity].
Qed.

Lemma destroy_protected_panics e w a ac :
  w_acc w a = Some ac -> protected_kind (a_kind ac) (e_now e) = true -> destroy e w a = Panic.
Proof. intros H P. unfold destroy. rewrite H, P. reflexivity. Qed.

Lemma bank_sub_eff e w a d v w' :
  bank_sub e w a d v = Ok w' ->
  let b := amt (w_bal w a) d in
  locked_kind (kind_at w a) (e_now e) d <= b - v /\
  w' = mkWorld (w_acc w) (upd (w_bal w) a (set_amt (w_bal w a) d (b - v))) (w_code w) (w_stor w) (w_next w).
Proof.
  unfold bank_sub. cbn zeta.
  destruct (amt (w_bal w a) d <? locked_kind (kind_at w a) (e_now e) d) eqn:E1; [discriminate|].
  destruct (amt (w_bal w a) d - locked_kind (kind_at w a) (e_now e) d <? v) eqn:E2; [discriminate|].
  intros H. injection H as <-. apply Z.ltb_ge in E1, E2. split; [lia | reflexivity].
Qed.

Lemma bank_add_eff e w a d v w' :
  bank_add e w a d v = Ok w' ->
  e_blocked e a = false /\
  w' = ensure_account (mkWorld (w_acc w) (upd (w_bal w) a (set_amt (w_bal w a) d (amt (w_bal w a) d + v))) (w_code w) (w_stor w) (w_next w)) a.
Proof.
  unfold bank_add. destruct (e_blocked e a); [discriminate|].
  destruct (MAX256 <? amt (w_bal w a) d + v); [discriminate|].
  intros H. injection H as <-. split; reflexivity.
Qed.

Lemma amount_ok_pos v : (v =? 0) = false -> negb (amount_ok v) = false -> 0 < v.
Proof.
  unfold amount_ok. intros H1 H2. apply Z.eqb_neq in H1. apply negb_false_iff in H2.
  apply andb_true_iff in H2. destruct H2 as [H2 _]. apply Z.leb_le in H2. lia.
Qed.

(* ------------------------------------------------------------------ a world relation respected by every operation *)

(* [R] is "respected" when every primitive change of the world the StateDB can make is in R; the frame
   operations are then in R's reflexive-transitive closure, stated here directly for R closed under both. *)
Section Respect.
  Variable e : env.
  Variable R : world -> world -> Prop.
  Hypothesis Rrefl : forall w, R w w.
  Hypothesis Rtrans : forall a b c, R a b -> R b c -> R a c.
  Hypothesis Rensure : forall w a, R w (ensure_account w a).
  Hypothesis Rsub : forall w a d v w', 0 < v -> bank_sub e w a d v = Ok w' -> R w w'.
  Hypothesis Radd : forall w a d v w', 0 < v -> bank_add e w a d v = Ok w' -> R w w'.
  Hypothesis Rdestroy : forall w a w', destroy e w a = Ok w' -> R w w'.
  Hypothesis Rnonce : forall w a ac n, w_acc w a = Some ac -> R w (set_acc w a (mkAcc (a_kind ac) n (a_num ac))).
  Hypothesis Rcode : forall w a c, w_acc w a <> None ->
    R w (mkWorld (w_acc w) (w_bal w) (upd (w_code w) a c) (w_stor w) (w_next w)).
  Hypothesis Rstor : forall w a s, w_acc w a <> None ->
    R w (mkWorld (w_acc w) (w_bal w) (w_code w) (upd (w_stor w) a s) (w_next w)).
  (* CreateAccount as a whole: destroy, new base account, the old balance minted back *)
  Hypothesis Rcreate : forall f a f', create_account e f a = Ok f' -> R (f_w f) (f_w f').

  Lemma sub_balance_R f a v f' : sub_balance e f a v = Ok f' -> R (f_w f) (f_w f').
  Proof.
    unfold sub_balance. destruct (v =? 0) eqn:Ev.
    - intros H. injection H as <-. apply Rrefl.
    - destruct (negb (amount_ok v)) eqn:Ea; [discriminate|].
      destruct (bank_sub e (f_w (touch f a)) a evm_denom v) eqn:Eb; cbn [bind]; [|discriminate].
      intros H. injection H as <-. cbn. eapply Rsub; [|exact Eb]. apply amount_ok_pos; assumption.
  Qed.

  Lemma add_balance_R f a v f' : add_balance e f a v = Ok f' -> R (f_w f) (f_w f').
  Proof.
    unfold add_balance. destruct (v =? 0) eqn:Ev.
    - intros H. injection H as <-. apply Rrefl.
    - destruct (negb (amount_ok v)) eqn:Ea; [discriminate|].
      destruct (bank_add e (f_w (touch f a)) a evm_denom v) eqn:Eb; cbn [bind]; [|discriminate].
      intros H. injection H as <-. cbn. eapply Radd; [|exact Eb]. apply amount_ok_pos; assumption.
  Qed.

  Lemma set_nonce_R f a n : R (f_w f) (f_w (set_nonce f a n)).
  Proof.
    unfold set_nonce. cbn [touch f_w].
    destruct (w_acc (ensure_account (f_w f) a) a) as [ac|] eqn:E; cbn [with_w f_w].
    - eapply Rtrans; [apply Rensure | apply Rnonce; exact E].
    - apply Rensure.
  Qed.

  Lemma set_code_R f a c : R (f_w f) (f_w (set_code f a c)).
  Proof.
    unfold set_code. cbn [touch f_w with_w].
    eapply Rtrans; [apply (Rensure _ a) | apply Rcode; apply ensure_acc_present].
  Qed.

  Lemma set_state_R f a k v : R (f_w f) (f_w (set_state f a k v)).
  Proof.
    unfold set_state. cbn [touch f_w with_w].
    eapply Rtrans; [apply (Rensure _ a) | apply Rstor; apply ensure_acc_present].
  Qed.

  Lemma suicide_R f a f' : suicide e f a = Ok f' -> R (f_w f) (f_w f').
  Proof.
    unfold suicide. cbn [touch f_w].
    destruct (w_acc (f_w f) a) eqn:E.
    - cbn [f_w]. destruct (amt (w_bal (f_w f) a) evm_denom =? 0).
      + intros H. injection H as <-. apply Rrefl.
      + intros H. apply sub_balance_R in H. exact H.
    - intros H. injection H as <-. apply Rrefl.
  Qed.

  Lemma fstep_R f o f' : fstep e f o = Ok f' -> R (f_w f) (f_w f').
  Proof.
    destruct o; cbn [fstep].
    - apply Rcreate.
    - destruct (destroy e (f_w f) a) eqn:E; cbn [bind]; [|discriminate].
      intros H. injection H as <-. cbn. eapply Rdestroy. exact E.
    - apply add_balance_R.
    - apply sub_balance_R.
    - intros H. injection H as <-. apply set_nonce_R.
    - intros H. injection H as <-. apply set_code_R.
    - intros H. injection H as <-. apply set_state_R.
    - apply suicide_R.
    - intros H. injection H as <-. apply Rrefl.
    - intros H. injection H as <-. apply Rrefl.
  Qed.

  (* the same without raw DestroyAccount (does not use Rdestroy) *)
  Lemma fstep_R_nodestroy f o f' :
    (forall a, o <> DestroyAccount a) -> fstep e f o = Ok f' -> R (f_w f) (f_w f').
  Proof.
    intros Hn. destruct o; cbn [fstep].
    - apply Rcreate.
    - exfalso. eapply Hn. reflexivity.
    - apply add_balance_R.
    - apply sub_balance_R.
    - intros H. injection H as <-. apply set_nonce_R.
    - intros H. injection H as <-. apply set_code_R.
    - intros H. injection H as <-. apply set_state_R.
    - apply suicide_R.
    - intros H. injection H as <-. apply Rrefl.
    - intros H. injection H as <-. apply Rrefl.
  Qed.
End Respect.

(* ------------------------------------------------------------------ invariants over operation sequences *)

Lemma In_firstn_In {A} (x : A) n l : In x (firstn n l) -> In x l.
Proof.
  revert l. induction n as [|n IH]; intros l H; [destruct H|].
  destruct l as [|y r]; [destruct H|]. cbn [firstn] in H. destruct H as [H|H]; [left; exact H | right; apply IH; exact H].
Qed.

Section RunInv.
  Variable e : env.
  Variable P : frame -> Prop.
  Variable allowed : op -> Prop.
  Hypothesis Pstep : forall f o f', allowed o -> P f -> fstep e f o = Ok f' -> P f'.

  Lemma step_inv s o s' :
    allowed o -> P (cur s) -> Forall P (snaps s) -> step e s o = Ok s' -> P (cur s') /\ Forall P (snaps s').
  Proof.
    intros Ha Hc Hs. destruct o; cbn [step];
      try (destruct (fstep e (cur s) _) eqn:E; [|discriminate]; intros H; injection H as <-; cbn [cur snaps];
           split; [eapply Pstep; eassumption | exact Hs]).
    - intros H. injection H as <-. cbn [cur snaps]. split; [exact Hc|].
      apply Forall_app. split; [exact Hs | constructor; [exact Hc | constructor]].
    - destruct (i <? 0); [discriminate|].
      destruct (nth_error (snaps s) (Z.to_nat i)) as [f'|] eqn:E; [|discriminate].
      intros H. injection H as <-. cbn [cur snaps]. split.
      + rewrite Forall_forall in Hs. apply Hs. eapply nth_error_In. exact E.
      + rewrite Forall_forall in *. intros x Hx. apply Hs. apply (In_firstn_In x (S (Z.to_nat i))). exact Hx.
  Qed.

  Lemma run_ops_inv l : forall s s',
    Forall allowed l -> P (cur s) -> Forall P (snaps s) -> run_ops e s l = Ok s' ->
    P (cur s') /\ Forall P (snaps s').
  Proof.
    induction l as [|o r IH]; intros s s' Ha Hc Hs; cbn [run_ops].
    - intros H. injection H as <-. split; assumption.
    - inversion Ha as [|? ? Ho Hr]; subst.
      destruct (step e s o) as [s1|] eqn:E; cbn [bind]; [|discriminate].
      intros H. destruct (step_inv s o s1 Ho Hc Hs E) as [Hc1 Hs1].
      eapply IH; eassumption.
  Qed.
End RunInv.

(* a reflexive-transitive world relation respected by destroy holds across the commit loop *)
Lemma commit_loop_R e (R : world -> world -> Prop) :
  (forall w, R w w) -> (forall a b c, R a b -> R b c -> R a c) ->
  (forall w a w', destroy e w a = Ok w' -> R w w') ->
  forall sd l w b w' b', commit_loop e sd w b l = Ok (w', b') -> R w w'.
Proof.
  intros Rrefl Rtrans Rd sd l. induction l as [|a r IH]; intros w b w' b'; cbn [commit_loop].
  - intros H. injection H as <- _. apply Rrefl.
  - destruct (mem a sd || is_empty w a).
    + destruct (destroy e w a) as [w1|] eqn:E; cbn [bind]; [|discriminate].
      intros H. eapply Rtrans; [eapply Rd; exact E | eapply IH; exact H].
    + apply IH.
Qed.

(* ------------------------------------------------------------------ CreateAccount as a whole *)

Lemma create_eff e f a f' :
  create_account e f a = Ok f' ->
  (forall ac, w_acc (f_w f) a = Some ac -> protected_kind (a_kind ac) (e_now e) = false) /\
  (forall x, w_acc (f_w f') x = if x =? a then Some (fresh (f_w f)) else w_acc (f_w f) x) /\
  (forall x d, amt (w_bal (f_w f') x) d = amt (w_bal (f_w f) x) d) /\
  w_code (f_w f') = upd (w_code (f_w f)) a 0 /\ w_stor (f_w f') = upd (w_stor (f_w f)) a [] /\
  f_touched f' = a :: f_touched f /\ f_sd f' = f_sd f.
Proof.
  unfold create_account. cbn [touch f_w].
  destruct (destroy e (f_w f) a) as [w1|] eqn:Ed; cbn [bind]; [|discriminate].
  destruct (destroy_eff _ _ _ _ Ed) as (Hp & Hacc & Hbal & Hcode & Hstor & Hnext).
  assert (Hnone : w_acc w1 a = None) by (rewrite Hacc, Z.eqb_refl; reflexivity).
  assert (Hacc' : forall x, w_acc (ensure_account w1 a) x = if x =? a then Some (fresh (f_w f)) else w_acc (f_w f) x).
  { intros x. rewrite ensure_acc, Hnone. unfold fresh. rewrite Hnext.
    destruct (x =? a) eqn:Ex; [reflexivity|]. rewrite Hacc, Ex. reflexivity. }
  destruct (all_zero (w_bal (f_w f) a)) eqn:Ez.
  - intros H. injection H as <-. cbn [with_w f_w f_touched f_sd].
    rewrite ensure_bal, ensure_code, ensure_stor, Hbal, Hcode, Hstor.
    repeat split; try reflexivity; try assumption.
    intros x d. unfold upd. destruct (x =? a) eqn:Ex; [|reflexivity].
    apply Z.eqb_eq in Ex. subst x. cbn [amt]. symmetry. apply all_zero_spec. exact Ez.
  - destruct (e_blocked e a); [discriminate|].
    intros H. injection H as <-. cbn [with_w f_w f_touched f_sd w_acc w_bal w_code w_stor].
    rewrite ensure_bal, ensure_code, ensure_stor, Hbal, Hcode, Hstor.
    repeat split; try reflexivity; try assumption.
    intros x d. unfold upd. destruct (x =? a) eqn:Ex; [|reflexivity].
    apply Z.eqb_eq in Ex. subst x. reflexivity.
Qed.

(* ------------------------------------------------------------------ protected accounts keep their identity *)

Definition keeps (e : env) (w w' : world) : Prop :=
  forall a ac, w_acc w a = Some ac -> protected_kind (a_kind ac) (e_now e) = true ->
  exists ac', w_acc w' a = Some ac' /\ a_kind ac' = a_kind ac /\ a_num ac' = a_num ac.

Lemma keeps_refl e w : keeps e w w.
Proof. intros a ac H _. exists ac. auto. Qed.

Lemma keeps_trans e a b c : keeps e a b -> keeps e b c -> keeps e a c.
Proof.
  intros H1 H2 x ac Hx Hp. destruct (H1 x ac Hx Hp) as (ac1 & Hx1 & Hk1 & Hn1).
  assert (Hp1 : protected_kind (a_kind ac1) (e_now e) = true) by (rewrite Hk1; exact Hp).
  destruct (H2 x ac1 Hx1 Hp1) as (ac2 & Hx2 & Hk2 & Hn2).
  exists ac2. repeat split; congruence.
Qed.

Lemma keeps_same_acc e w w' : (forall x ac, w_acc w x = Some ac -> w_acc w' x = Some ac) -> keeps e w w'.
Proof. intros H a ac Ha _. exists ac. auto. Qed.

Lemma keeps_fstep e f o f' : fstep e f o = Ok f' -> keeps e (f_w f) (f_w f').
Proof.
  apply fstep_R.
  - apply keeps_refl.
  - apply keeps_trans.
  - intros w a. apply keeps_same_acc. intros x ac. apply ensure_acc_keep.
  - intros w a d v w' _ H. apply bank_sub_eff in H. destruct H as [_ ->]. apply keeps_same_acc. auto.
  - intros w a d v w' _ H. apply bank_add_eff in H. destruct H as [_ ->]. apply keeps_same_acc.
    intros x ac Hx. apply ensure_acc_keep. exact Hx.
  - intros w a w' H. destruct (destroy_eff _ _ _ _ H) as (Hp & Hacc & _).
    intros x ac Hx Hpx. destruct (x =? a) eqn:Ex.
    + apply Z.eqb_eq in Ex. subst x. rewrite (Hp ac Hx) in Hpx. discriminate.
    + exists ac. rewrite Hacc, Ex. auto.
  - intros w a ac n Ha x acx Hx _. unfold set_acc. cbn [w_acc]. unfold upd.
    destruct (x =? a) eqn:Ex.
    + apply Z.eqb_eq in Ex. subst x. rewrite Ha in Hx. injection Hx as <-. eexists. split; [reflexivity|]. auto.
    + exists acx. auto.
  - intros w a c _. apply keeps_same_acc. auto.
  - intros w a s _. apply keeps_same_acc. auto.
  - intros f0 a f1 H. destruct (create_eff _ _ _ _ H) as (Hp & Hacc & _).
    intros x ac Hx Hpx. destruct (x =? a) eqn:Ex.
    + apply Z.eqb_eq in Ex. subst x. rewrite (Hp ac Hx) in Hpx. discriminate.
    + exists ac. rewrite Hacc, Ex. auto.
Qed.

Lemma keeps_destroy e w a w' : destroy e w a = Ok w' -> keeps e w w'.
Proof.
  intros H. destruct (destroy_eff _ _ _ _ H) as (Hp & Hacc & _).
  intros x ac Hx Hpx. destruct (x =? a) eqn:Ex.
  - apply Z.eqb_eq in Ex. subst x. rewrite (Hp ac Hx) in Hpx. discriminate.
  - exists ac. rewrite Hacc, Ex. auto.
Qed.

(* the whole transaction *)
Lemma run_tx_R e (R : world -> world -> Prop) :
  (forall w, R w w) -> (forall a b c, R a b -> R b c -> R a c) ->
  (forall f o f', fstep e f o = Ok f' -> R (f_w f) (f_w f')) ->
  (forall w a w', destroy e w a = Ok w' -> R w w') ->
  forall w l w' b, run_tx e w l = TxOk w' b -> R w w'.
Proof.
  intros Rrefl Rtrans Rstep Rd w l w' b. unfold run_tx.
  destruct (run_ops e (init_sdb w) l) as [s|] eqn:E; [|discriminate].
  destruct (commit e (cur s)) as [[w1 b1]|] eqn:Ec; [|discriminate].
  intros H. injection H as <- <-.
  assert (Hinv : R w (f_w (cur s)) /\ Forall (fun f => R w (f_w f)) (snaps s)).
  { eapply (run_ops_inv e (fun f => R w (f_w f)) (fun _ => True)) with (s := init_sdb w) (l := l).
    - intros f o f' _ Hf Hs. eapply Rtrans; [exact Hf | eapply Rstep; exact Hs].
    - apply Forall_forall. auto.
    - cbn. apply Rrefl.
    - cbn. constructor.
    - exact E. }
  destruct Hinv as [Hc _]. eapply Rtrans; [exact Hc|].
  unfold commit in Ec. eapply commit_loop_R; eassumption.
Qed.

Lemma protected_survive e w l w' b :
  run_tx e w l = TxOk w' b -> keeps e w w'.
Proof.
  apply run_tx_R.
  - apply keeps_refl.
  - apply keeps_trans.
  - apply keeps_fstep.
  - apply keeps_destroy.
Qed.

(* ------------------------------------------------------------------ sorted, duplicate-free iteration order *)

Lemma In_insert_sorted a x l : In x (insert_sorted a l) <-> x = a \/ In x l.
Proof.
  induction l as [|y r IH]; cbn [insert_sorted].
  - cbn. intuition.
  - destruct (a <? y) eqn:E1.
    + cbn. intuition.
    + destruct (a =? y) eqn:E2.
      * apply Z.eqb_eq in E2. subst. cbn. intuition.
      * cbn [In]. rewrite IH. intuition.
Qed.

Lemma In_sort_addrs x l : In x (sort_addrs l) <-> In x l.
Proof.
  unfold sort_addrs. induction l as [|a r IH]; cbn [fold_right]; [reflexivity|].
  rewrite In_insert_sorted, IH. cbn. intuition.
Qed.

Definition ssorted (l : list addr) : Prop := StronglySorted Z.lt l.

Lemma insert_sorted_ssorted a l : ssorted l -> ssorted (insert_sorted a l).
Proof.
  unfold ssorted. induction l as [|y r IH]; intros Hs; cbn [insert_sorted].
  - repeat constructor.
  - inversion Hs as [|? ? Hr Hall]; subst.
    destruct (a <? y) eqn:E1.
    + apply Z.ltb_lt in E1. constructor; [exact Hs|].
      constructor; [exact E1|]. rewrite Forall_forall in *. intros z Hz. specialize (Hall z Hz). lia.
    + destruct (a =? y) eqn:E2; [exact Hs|].
      apply Z.ltb_ge in E1. apply Z.eqb_neq in E2.
      constructor; [apply IH; exact Hr|].
      rewrite Forall_forall in *. intros z Hz. apply In_insert_sorted in Hz.
      destruct Hz as [->|Hz]; [lia | apply Hall; exact Hz].
Qed.

Lemma sort_addrs_ssorted l : ssorted (sort_addrs l).
Proof.
  unfold sort_addrs. induction l as [|a r IH]; cbn [fold_right]; [constructor|].
  apply insert_sorted_ssorted. exact IH.
Qed.

Lemma ssorted_ext l1 : forall l2, ssorted l1 -> ssorted l2 -> (forall x, In x l1 <-> In x l2) -> l1 = l2.
Proof.
  unfold ssorted. induction l1 as [|a r IH]; intros l2 H1 H2 Hiff.
  - destruct l2 as [|b r2]; [reflexivity|]. exfalso. apply (Hiff b). left. reflexivity.
  - destruct l2 as [|b r2]; [exfalso; apply (Hiff a); left; reflexivity|].
    inversion H1 as [|? ? Hr1 Ha]; subst. inversion H2 as [|? ? Hr2 Hb]; subst.
    rewrite Forall_forall in Ha, Hb.
    assert (a = b).
    { destruct (proj1 (Hiff a) (or_introl eq_refl)) as [->|Hin]; [reflexivity|].
      destruct (proj2 (Hiff b) (or_introl eq_refl)) as [->|Hin2]; [reflexivity|].
      specialize (Ha b Hin2). specialize (Hb a Hin). lia. }
    subst b. f_equal. apply IH; try assumption.
    intros x. split; intros Hx.
    + destruct (proj1 (Hiff x) (or_intror Hx)) as [->|]; [|assumption]. specialize (Ha x Hx). lia.
    + destruct (proj2 (Hiff x) (or_intror Hx)) as [->|]; [|assumption]. specialize (Hb x Hx). lia.
Qed.

(* the iteration order is a function of the SET of touched addresses: insertion order (Go map order) and
   duplicates are irrelevant *)
Lemma sort_addrs_set l1 l2 : (forall x, In x l1 <-> In x l2) -> sort_addrs l1 = sort_addrs l2.
Proof.
  intros H. apply ssorted_ext; try apply sort_addrs_ssorted.
  intros x. rewrite !In_sort_addrs. apply H.
Qed.

Lemma commit_order_independent e w sd t1 t2 :
  (forall x, In x t1 <-> In x t2) -> commit e (mkFrame w t1 sd) = commit e (mkFrame w t2 sd).
Proof. intros H. unfold commit. cbn [f_sd f_w f_touched]. rewrite (sort_addrs_set t1 t2 H). reflexivity. Qed.

(* ------------------------------------------------------------------ a protected account reached by the loop *)

Lemma destroy_other e w x w' a :
  destroy e w x = Ok w' -> a <> x ->
  w_acc w' a = w_acc w a /\ w_bal w' a = w_bal w a /\ w_code w' a = w_code w a /\ w_stor w' a = w_stor w a.
Proof.
  intros H Hn. destruct (destroy_eff _ _ _ _ H) as (_ & Hacc & Hbal & Hcode & Hstor & _).
  rewrite Hacc, Hbal, Hcode, Hstor. unfold upd.
  destruct (a =? x) eqn:E; [apply Z.eqb_eq in E; contradiction|]. auto.
Qed.

Lemma is_empty_ext w w' a :
  w_acc w' a = w_acc w a -> w_bal w' a = w_bal w a -> w_code w' a = w_code w a -> w_stor w' a = w_stor w a ->
  is_empty w' a = is_empty w a.
Proof. intros H1 H2 H3 H4. unfold is_empty, nonce_at. rewrite H1, H2, H3, H4. reflexivity. Qed.

Lemma commit_loop_reaches_protected e sd a ac : forall l w b,
  In a l -> w_acc w a = Some ac -> protected_kind (a_kind ac) (e_now e) = true ->
  mem a sd = true \/ is_empty w a = true ->
  commit_loop e sd w b l = Panic.
Proof.
  induction l as [|x r IH]; intros w b Hin Ha Hp Hc; [destruct Hin|].
  cbn [commit_loop]. destruct (Z.eq_dec x a) as [->|Hne].
  - assert (Hcond : mem a sd || is_empty w a = true) by (destruct Hc as [-> | ->]; [reflexivity | apply orb_true_r]).
    rewrite Hcond. rewrite (destroy_protected_panics e w a ac Ha Hp). reflexivity.
  - destruct Hin as [->|Hin]; [contradiction|].
    destruct (mem x sd || is_empty w x).
    + destruct (destroy e w x) as [w1|] eqn:Ed; cbn [bind]; [|reflexivity].
      assert (a <> x) by congruence.
      destruct (destroy_other _ _ _ _ a Ed H) as (E1 & E2 & E3 & E4).
      apply IH; try assumption; [rewrite E1; exact Ha|].
      destruct Hc as [Hc|Hc]; [left; exact Hc | right; rewrite (is_empty_ext w w1 a); assumption].
    + apply IH; assumption.
Qed.

Lemma commit_reaches_protected e f a ac :
  In a (f_touched f) -> w_acc (f_w f) a = Some ac -> protected_kind (a_kind ac) (e_now e) = true ->
  mem a (f_sd f) = true \/ is_empty (f_w f) a = true ->
  commit e f = Panic.
Proof.
  intros Hin. unfold commit. apply commit_loop_reaches_protected. apply In_sort_addrs. exact Hin.
Qed.

(* ------------------------------------------------------------------ deletion at commit: only self-destructed or empty *)

Lemma commit_loop_deletes_only e sd a : forall l w b w' b',
  commit_loop e sd w b l = Ok (w', b') -> w_acc w a <> None -> w_acc w' a = None ->
  mem a sd = true \/ is_empty w a = true.
Proof.
  induction l as [|x r IH]; intros w b w' b'; cbn [commit_loop].
  - intros H. injection H as <- _. intros H1 H2. contradiction.
  - destruct (mem x sd || is_empty w x) eqn:Ec.
    + destruct (destroy e w x) as [w1|] eqn:Ed; cbn [bind]; [|discriminate].
      intros H Hp Hn. destruct (Z.eq_dec a x) as [->|Hne].
      * apply orb_true_iff in Ec. exact Ec.
      * destruct (destroy_other _ _ _ _ a Ed Hne) as (E1 & E2 & E3 & E4).
        assert (Hp1 : w_acc w1 a <> None) by (rewrite E1; exact Hp).
        destruct (IH _ _ _ _ H Hp1 Hn) as [Hs|He]; [left; exact Hs|].
        right. rewrite <- (is_empty_ext w w1 a); assumption.
    + apply IH.
Qed.

Lemma is_empty_spec w a :
  is_empty w a = true <->
  w_code w a = 0 /\ (forall d, amt (w_bal w a) d = 0) /\ nonce_at w a = 0 /\ w_stor w a = [].
Proof.
  unfold is_empty. rewrite !andb_true_iff, !Z.eqb_eq, all_zero_spec.
  destruct (w_stor w a); intuition congruence.
Qed.

(* ------------------------------------------------------------------ no operation of the interpreter deletes an account record *)

Definition present (w : world) (a : addr) : Prop := w_acc w a <> None.

Definition pres (w w' : world) : Prop := forall a, present w a -> present w' a.

Definition not_raw_destroy (o : op) : Prop := forall a, o <> DestroyAccount a.

Lemma pres_fstep e f o f' : not_raw_destroy o -> fstep e f o = Ok f' -> pres (f_w f) (f_w f').
Proof.
  intros Hn. apply fstep_R_nodestroy; [| | | | | | | | |exact Hn]; unfold pres, present.
  - auto.
  - auto.
  - intros w a x Hx. destruct (w_acc w x) as [ac|] eqn:E; [|contradiction].
    rewrite (ensure_acc_keep w a x ac E). discriminate.
  - intros w a d v w' _ H. apply bank_sub_eff in H. destruct H as [_ ->]. auto.
  - intros w a d v w' _ H. apply bank_add_eff in H. destruct H as [_ ->].
    intros x Hx. cbn in Hx. destruct (w_acc w x) as [ac|] eqn:E; [|contradiction].
    erewrite ensure_acc_keep; [discriminate | cbn; exact E].
  - intros w a ac n Ha x Hx. unfold set_acc. cbn [w_acc]. unfold upd.
    destruct (x =? a); [discriminate | exact Hx].
  - intros w a c _ x Hx. exact Hx.
  - intros w a s _ x Hx. exact Hx.
  - intros f0 a f1 H. destruct (create_eff _ _ _ _ H) as (_ & Hacc & _).
    intros x Hx. rewrite Hacc. destruct (x =? a); [discriminate | exact Hx].
Qed.

Lemma no_nonempty_deleted e w l w' b a :
  Forall not_raw_destroy l ->
  run_tx e w l = TxOk w' b -> present w a -> ~ present w' a ->
  exists s, run_ops e (init_sdb w) l = Ok s /\
            (mem a (f_sd (cur s)) = true \/ is_empty (f_w (cur s)) a = true).
Proof.
  intros Hall. unfold run_tx.
  destruct (run_ops e (init_sdb w) l) as [s|] eqn:E; [|discriminate].
  destruct (commit e (cur s)) as [[w1 b1]|] eqn:Ec; [|discriminate].
  intros H. injection H as <- <-. intros Hp Hn.
  exists s. split; [reflexivity|].
  assert (Hinv : pres w (f_w (cur s)) /\ Forall (fun f => pres w (f_w f)) (snaps s)).
  { eapply (run_ops_inv e (fun f => pres w (f_w f)) not_raw_destroy) with (s := init_sdb w) (l := l).
    - intros f o f' Ho Hf Hs x Hx. eapply pres_fstep; [exact Ho | exact Hs | apply Hf; exact Hx].
    - exact Hall.
    - cbn. intros x Hx. exact Hx.
    - cbn. constructor.
    - exact E. }
  destruct Hinv as [Hc _]. unfold commit in Ec.
  eapply commit_loop_deletes_only; [exact Ec | apply Hc; exact Hp |].
  unfold present in Hn. destruct (w_acc w1 a); [exfalso; apply Hn; discriminate | reflexivity].
Qed.

(* ------------------------------------------------------------------ deleted means gone completely *)

Definition gone (w : world) (a : addr) : Prop :=
  w_acc w a = None /\ (forall d, amt (w_bal w a) d = 0) /\ w_code w a = 0 /\ w_stor w a = [].

(* present or gone: never "half an account" *)
Definition pg (w : world) (a : addr) : Prop := present w a \/ gone w a.

Definition pgrel (w w' : world) : Prop := forall a, pg w a -> pg w' a.

Lemma pg_same w w' a :
  w_acc w' a = w_acc w a -> (forall d, amt (w_bal w' a) d = amt (w_bal w a) d) ->
  w_code w' a = w_code w a -> w_stor w' a = w_stor w a -> pg w a -> pg w' a.
Proof.
  intros H1 H2 H3 H4 [Hp|(G1 & G2 & G3 & G4)]; [left; unfold present in *; rewrite H1; exact Hp|].
  right. unfold gone. rewrite H1, H3, H4. repeat split; try assumption. intros d. rewrite H2. apply G2.
Qed.

Lemma pgrel_destroy e w a w' : destroy e w a = Ok w' -> pgrel w w'.
Proof.
  intros H x Hx. destruct (Z.eq_dec x a) as [->|Hne].
  - right. destruct (destroy_eff _ _ _ _ H) as (_ & Hacc & Hbal & Hcode & Hstor & _).
    unfold gone. rewrite Hacc, Hbal, Hcode, Hstor, Z.eqb_refl, !upd_same. repeat split; reflexivity.
  - destruct (destroy_other _ _ _ _ x H Hne) as (E1 & E2 & E3 & E4).
    eapply pg_same; try eassumption. intros d. rewrite E2. reflexivity.
Qed.

Lemma pgrel_fstep e f o f' : fstep e f o = Ok f' -> pgrel (f_w f) (f_w f').
Proof.
  apply fstep_R; unfold pgrel.
  - auto.
  - auto.
  - (* ensure *) intros w a x Hx. destruct (Z.eq_dec x a) as [->|Hne].
    + left. apply ensure_acc_present.
    + eapply pg_same; [| | | |exact Hx].
      * rewrite ensure_acc. destruct (x =? a) eqn:E; [apply Z.eqb_eq in E; contradiction | reflexivity].
      * rewrite ensure_bal. reflexivity.
      * rewrite ensure_code. reflexivity.
      * rewrite ensure_stor. reflexivity.
  - (* bank_sub *) intros w a d v w' Hv H. pose proof (bank_sub_eff _ _ _ _ _ _ H) as [Hl ->]. cbn zeta in Hl.
    intros x [Hp|(G1 & G2 & G3 & G4)]; [left; exact Hp|].
    destruct (Z.eq_dec x a) as [->|Hne].
    + exfalso. unfold kind_at in Hl. rewrite G1 in Hl. cbn [locked_kind] in Hl. rewrite G2 in Hl. lia.
    + right. unfold gone. cbn [w_acc w_bal w_code w_stor]. rewrite upd_other by exact Hne. repeat split; assumption.
  - (* bank_add *) intros w a d v w' Hv H. apply bank_add_eff in H. destruct H as [_ ->].
    intros x Hx. destruct (Z.eq_dec x a) as [->|Hne].
    + left. apply ensure_acc_present.
    + eapply pg_same; [| | | |exact Hx].
      * rewrite ensure_acc. cbn [w_acc]. destruct (x =? a) eqn:E; [apply Z.eqb_eq in E; contradiction | reflexivity].
      * rewrite ensure_bal. cbn [w_bal]. rewrite upd_other by exact Hne. reflexivity.
      * rewrite ensure_code. reflexivity.
      * rewrite ensure_stor. reflexivity.
  - intros w a w' H. eapply pgrel_destroy. exact H.
  - (* nonce *) intros w a ac n Ha x Hx. destruct (Z.eq_dec x a) as [->|Hne].
    + left. unfold present, set_acc. cbn [w_acc]. rewrite upd_same. discriminate.
    + eapply pg_same; [| | | |exact Hx]; try reflexivity.
      unfold set_acc. cbn [w_acc]. rewrite upd_other by exact Hne. reflexivity.
  - (* code *) intros w a c Ha x Hx. destruct (Z.eq_dec x a) as [->|Hne].
    + left. exact Ha.
    + eapply pg_same; [| | | |exact Hx]; try reflexivity. cbn [w_code]. rewrite upd_other by exact Hne. reflexivity.
  - (* storage *) intros w a s Ha x Hx. destruct (Z.eq_dec x a) as [->|Hne].
    + left. exact Ha.
    + eapply pg_same; [| | | |exact Hx]; try reflexivity. cbn [w_stor]. rewrite upd_other by exact Hne. reflexivity.
  - (* create *) intros f0 a f1 H. destruct (create_eff _ _ _ _ H) as (_ & Hacc & Hbal & Hcode & Hstor & _).
    intros x Hx. destruct (Z.eq_dec x a) as [->|Hne].
    + left. unfold present. rewrite Hacc, Z.eqb_refl. discriminate.
    + eapply pg_same; [| | | |exact Hx].
      * rewrite Hacc. destruct (x =? a) eqn:E; [apply Z.eqb_eq in E; contradiction | reflexivity].
      * intros d. apply Hbal.
      * rewrite Hcode. apply upd_other. exact Hne.
      * rewrite Hstor. apply upd_other. exact Hne.
Qed.

Lemma destroy_complete e w l w' b a :
  run_tx e w l = TxOk w' b -> present w a -> ~ present w' a -> gone w' a.
Proof.
  intros H Hp Hn.
  assert (Hr : pgrel w w').
  { eapply (run_tx_R e pgrel); try eassumption.
    - intros w0 x Hx. exact Hx.
    - intros a0 b0 c0 H1 H2 x Hx. apply H2. apply H1. exact Hx.
    - apply pgrel_fstep.
    - apply pgrel_destroy. }
  destruct (Hr a (or_introl Hp)) as [Hp'|Hg]; [contradiction | exact Hg].
Qed.

(* everything the commit loop decides to destroy is gone afterwards, whether or not it had an account record *)
Lemma gone_destroy_stays e w x w' a : destroy e w x = Ok w' -> gone w a -> gone w' a.
Proof.
  intros H Hg. destruct (pgrel_destroy _ _ _ _ H a (or_intror Hg)) as [Hp|Hg']; [|exact Hg'].
  exfalso. destruct (destroy_eff _ _ _ _ H) as (_ & Hacc & _). unfold present in Hp. rewrite Hacc in Hp.
  destruct (a =? x); [apply Hp; reflexivity | destruct Hg as [Hg _]; contradiction].
Qed.

Lemma commit_loop_gone_stays e sd a : forall l w b w' b',
  commit_loop e sd w b l = Ok (w', b') -> gone w a -> gone w' a.
Proof.
  induction l as [|x r IH]; intros w b w' b'; cbn [commit_loop].
  - intros H. injection H as <- _. auto.
  - destruct (mem x sd || is_empty w x).
    + destruct (destroy e w x) as [w1|] eqn:Ed; cbn [bind]; [|discriminate].
      intros H Hg. eapply IH; [exact H | eapply gone_destroy_stays; eassumption].
    + apply IH.
Qed.

Lemma commit_loop_destroys e sd a : forall l w b w' b',
  commit_loop e sd w b l = Ok (w', b') -> In a l -> mem a sd = true \/ is_empty w a = true -> gone w' a.
Proof.
  induction l as [|x r IH]; intros w b w' b' H Hin Hc; [destruct Hin|].
  cbn [commit_loop] in H. destruct (Z.eq_dec x a) as [->|Hne].
  - assert (Hcond : mem a sd || is_empty w a = true) by (destruct Hc as [-> | ->]; [reflexivity | apply orb_true_r]).
    rewrite Hcond in H. destruct (destroy e w a) as [w1|] eqn:Ed; cbn [bind] in H; [|discriminate].
    eapply commit_loop_gone_stays; [exact H|].
    destruct (destroy_eff _ _ _ _ Ed) as (_ & Hacc & Hbal & Hcode & Hstor & _).
    unfold gone. rewrite Hacc, Hbal, Hcode, Hstor, Z.eqb_refl, !upd_same. repeat split; reflexivity.
  - destruct Hin as [->|Hin]; [contradiction|].
    destruct (mem x sd || is_empty w x).
    + destruct (destroy e w x) as [w1|] eqn:Ed; cbn [bind] in H; [|discriminate].
      assert (Hax : a <> x) by congruence.
      destruct (destroy_other _ _ _ _ a Ed Hax) as (E1 & E2 & E3 & E4).
      eapply IH; [exact H | exact Hin |].
      destruct Hc as [Hc|Hc]; [left; exact Hc | right; rewrite (is_empty_ext w w1 a); assumption].
    + eapply IH; eassumption.
Qed.

Lemma commit_destroys e f w' b a :
  commit e f = Ok (w', b) -> In a (f_touched f) ->
  mem a (f_sd f) = true \/ is_empty (f_w f) a = true -> gone w' a.
Proof.
  unfold commit. intros H Hin Hc. eapply commit_loop_destroys; [exact H | apply In_sort_addrs; exact Hin | exact Hc].
Qed.

(* ------------------------------------------------------------------ locked coins cannot be spent *)

Definition floor (e : env) (w w' : world) : Prop :=
  forall a ac d, w_acc w a = Some ac -> protected_kind (a_kind ac) (e_now e) = true ->
  Z.min (amt (w_bal w a) d) (locked_kind (a_kind ac) (e_now e) d) <= amt (w_bal w' a) d.

Definition kf (e : env) (w w' : world) : Prop := keeps e w w' /\ floor e w w'.

Lemma kf_refl e w : kf e w w.
Proof. split; [apply keeps_refl|]. intros a ac d _ _. lia. Qed.

Lemma kf_trans e a b c : kf e a b -> kf e b c -> kf e a c.
Proof.
  intros [K1 F1] [K2 F2]. split; [eapply keeps_trans; eassumption|].
  intros x ac d Hx Hp. destruct (K1 x ac Hx Hp) as (ac1 & Hx1 & Hk1 & _).
  assert (Hp1 : protected_kind (a_kind ac1) (e_now e) = true) by (rewrite Hk1; exact Hp).
  specialize (F1 x ac d Hx Hp). specialize (F2 x ac1 d Hx1 Hp1). rewrite Hk1 in F2. lia.
Qed.

Lemma floor_same_bal e w w' : (forall x d, amt (w_bal w' x) d = amt (w_bal w x) d) -> floor e w w'.
Proof. intros H a ac d _ _. rewrite H. lia. Qed.

Lemma kf_fstep e f o f' : fstep e f o = Ok f' -> kf e (f_w f) (f_w f').
Proof.
  apply fstep_R.
  - apply kf_refl.
  - apply kf_trans.
  - intros w a. split.
    + apply keeps_same_acc. intros x ac. apply ensure_acc_keep.
    + apply floor_same_bal. intros x d. rewrite ensure_bal. reflexivity.
  - (* bank_sub *) intros w a d v w' Hv H. pose proof (bank_sub_eff _ _ _ _ _ _ H) as [Hl ->]. cbn zeta in Hl. split.
    + apply keeps_same_acc. auto.
    + intros x ac d' Hx Hp. cbn [w_bal]. unfold upd. destruct (x =? a) eqn:Ex; [|lia].
      apply Z.eqb_eq in Ex. subst x. unfold kind_at in Hl. rewrite Hx in Hl.
      destruct (Z.eq_dec d' d) as [->|Hd]; [rewrite amt_set_same; lia | rewrite amt_set_other by exact Hd; lia].
  - (* bank_add *) intros w a d v w' Hv H. apply bank_add_eff in H. destruct H as [_ ->]. split.
    + apply keeps_same_acc. intros x ac Hx. apply ensure_acc_keep. exact Hx.
    + intros x ac d' Hx Hp. rewrite ensure_bal. cbn [w_bal]. unfold upd. destruct (x =? a) eqn:Ex; [|lia].
      apply Z.eqb_eq in Ex. subst x.
      destruct (Z.eq_dec d' d) as [->|Hd]; [rewrite amt_set_same; lia | rewrite amt_set_other by exact Hd; lia].
  - (* destroy *) intros w a w' H. split; [eapply keeps_destroy; exact H|].
    destruct (destroy_eff _ _ _ _ H) as (Hp & _ & Hbal & _).
    intros x ac d Hx Hpx. rewrite Hbal. unfold upd. destruct (x =? a) eqn:Ex; [|lia].
    apply Z.eqb_eq in Ex. subst x. rewrite (Hp ac Hx) in Hpx. discriminate.
  - (* nonce *) intros w a ac n Ha. split.
    + intros x acx Hx _. unfold set_acc. cbn [w_acc]. unfold upd. destruct (x =? a) eqn:Ex.
      * apply Z.eqb_eq in Ex. subst x. rewrite Ha in Hx. injection Hx as <-. eexists. split; [reflexivity|]. auto.
      * exists acx. auto.
    + apply floor_same_bal. reflexivity.
  - intros w a c _. split; [apply keeps_same_acc; auto | apply floor_same_bal; reflexivity].
  - intros w a s _. split; [apply keeps_same_acc; auto | apply floor_same_bal; reflexivity].
  - (* create *) intros f0 a f1 H. split.
    + apply (keeps_fstep e f0 (CreateAccount a) f1). exact H.
    + destruct (create_eff _ _ _ _ H) as (_ & _ & Hbal & _). apply floor_same_bal. exact Hbal.
Qed.

Lemma kf_destroy e w a w' : destroy e w a = Ok w' -> kf e w w'.
Proof.
  intros H. split; [eapply keeps_destroy; exact H|].
  destruct (destroy_eff _ _ _ _ H) as (Hp & _ & Hbal & _).
  intros x ac d Hx Hpx. rewrite Hbal. unfold upd. destruct (x =? a) eqn:Ex; [|lia].
  apply Z.eqb_eq in Ex. subst x. rewrite (Hp ac Hx) in Hpx. discriminate.
Qed.

(* balances never go negative *)
Definition nonneg (w : world) : Prop := forall x d, 0 <= amt (w_bal w x) d.
Definition nnrel (w w' : world) : Prop := nonneg w -> nonneg w'.

Lemma nn_destroy e w a w' : destroy e w a = Ok w' -> nnrel w w'.
Proof.
  intros H Hn x d. destruct (destroy_eff _ _ _ _ H) as (_ & _ & Hbal & _). rewrite Hbal. unfold upd.
  destruct (x =? a); [cbn; lia | apply Hn].
Qed.

Lemma nn_fstep e f o f' : fstep e f o = Ok f' -> nnrel (f_w f) (f_w f').
Proof.
  apply fstep_R; unfold nnrel.
  - auto.
  - auto.
  - intros w a Hn x d. rewrite ensure_bal. apply Hn.
  - intros w a d v w' Hv H. pose proof (bank_sub_eff _ _ _ _ _ _ H) as [Hl ->]. cbn zeta in Hl.
    intros Hn x d'. cbn [w_bal]. unfold upd. destruct (x =? a) eqn:Ex; [|apply Hn].
    destruct (Z.eq_dec d' d) as [->|Hd]; [|rewrite amt_set_other by exact Hd; apply Hn].
    rewrite amt_set_same. pose proof (locked_kind_nonneg (kind_at w a) (e_now e) d). lia.
  - intros w a d v w' Hv H. apply bank_add_eff in H. destruct H as [_ ->].
    intros Hn x d'. rewrite ensure_bal. cbn [w_bal]. unfold upd. destruct (x =? a) eqn:Ex; [|apply Hn].
    destruct (Z.eq_dec d' d) as [->|Hd]; [|rewrite amt_set_other by exact Hd; apply Hn].
    rewrite amt_set_same. specialize (Hn a d). lia.
  - intros w a w' H. eapply nn_destroy. exact H.
  - intros w a ac n _ Hn. exact Hn.
  - intros w a c _ Hn. exact Hn.
  - intros w a s _ Hn. exact Hn.
  - intros f0 a f1 H Hn x d. destruct (create_eff _ _ _ _ H) as (_ & _ & Hbal & _). rewrite Hbal. apply Hn.
Qed.

Definition wf_world (w : world) : Prop :=
  nonneg w /\ forall a ac, w_acc w a = Some ac -> wf_kind (a_kind ac).

Lemma locked_unspendable e w l w' b a ac d :
  wf_world w -> run_tx e w l = TxOk w' b -> w_acc w a = Some ac ->
  Z.min (amt (w_bal w a) d) (locked_kind (a_kind ac) (e_now e) d) <= amt (w_bal w' a) d.
Proof.
  intros [Hnn Hwf] H Ha.
  destruct (protected_kind (a_kind ac) (e_now e)) eqn:Hp.
  - assert (Hr : kf e w w').
    { eapply (run_tx_R e (kf e)); try eassumption.
      - apply kf_refl.
      - apply kf_trans.
      - apply kf_fstep.
      - apply kf_destroy. }
    destruct Hr as [_ Hf]. apply Hf; assumption.
  - rewrite (unprotected_unlocked _ _ d (Hwf a ac Ha) Hp).
    assert (Hr : nnrel w w').
    { eapply (run_tx_R e nnrel); try eassumption.
      - intros w0 H0. exact H0.
      - intros a0 b0 c0 H1 H2 H0. apply H2. apply H1. exact H0.
      - apply nn_fstep.
      - apply nn_destroy. }
    specialize (Hr Hnn a d). lia.
Qed.

(* the single bank rule behind it: a successful SubBalance leaves at least the locked amount *)
Lemma sub_balance_respects_lock e f a v f' :
  sub_balance e f a v = Ok f' -> v <> 0 ->
  locked_kind (kind_at (f_w f) a) (e_now e) evm_denom <= amt (w_bal (f_w f') a) evm_denom.
Proof.
  unfold sub_balance. intros H Hv. destruct (v =? 0) eqn:Ev; [apply Z.eqb_eq in Ev; contradiction|].
  destruct (negb (amount_ok v)); [discriminate|].
  destruct (bank_sub e (f_w (touch f a)) a evm_denom v) as [w1|] eqn:Eb; cbn [bind] in H; [|discriminate].
  injection H as <-. pose proof (bank_sub_eff _ _ _ _ _ _ Eb) as [Hl ->]. cbn zeta in Hl.
  cbn [with_w f_w w_bal touch] in *. rewrite upd_same, amt_set_same. exact Hl.
Qed.

(* ------------------------------------------------------------------ the interpreter never replaces a contract *)

(* one operation of an interpreter trace ([evm_step_ok]) leaves an account that has code or a non-zero nonce in
   place: same account number, same type; its code hash changes only by SetCode on it, its storage only by
   SetState on it, its nonce only by SetNonce on it *)
Lemma evm_step_keeps_contracts e f o f' a ac :
  fstep e f o = Ok f' -> evm_step_ok f o = true ->
  w_acc (f_w f) a = Some ac -> (a_nonce ac <> 0 \/ w_code (f_w f) a <> 0) ->
  exists ac', w_acc (f_w f') a = Some ac' /\ a_num ac' = a_num ac /\ a_kind ac' = a_kind ac /\
    (a_nonce ac' = a_nonce ac \/ o = SetNonce a (a_nonce ac')) /\
    (w_code (f_w f') a = w_code (f_w f) a \/ o = SetCode a (w_code (f_w f') a)) /\
    (w_stor (f_w f') a = w_stor (f_w f) a \/ exists k v, o = SetState a k v).
Proof.
  intros Hs Hok Ha Hc.
  assert (Hsame : forall w1, w_acc w1 a = Some ac -> w_code w1 a = w_code (f_w f) a ->
                             w_stor w1 a = w_stor (f_w f) a ->
          exists ac', w_acc w1 a = Some ac' /\ a_num ac' = a_num ac /\ a_kind ac' = a_kind ac /\
            (a_nonce ac' = a_nonce ac \/ o = SetNonce a (a_nonce ac')) /\
            (w_code w1 a = w_code (f_w f) a \/ o = SetCode a (w_code w1 a)) /\
            (w_stor w1 a = w_stor (f_w f) a \/ exists k v, o = SetState a k v)).
  { intros w1 H1 H2 H3. exists ac. repeat split; auto. }
  assert (Hsub : forall f0 x v f1, sub_balance e f0 x v = Ok f1 ->
            w_acc (f_w f1) = w_acc (f_w f0) /\ w_code (f_w f1) = w_code (f_w f0) /\ w_stor (f_w f1) = w_stor (f_w f0)).
  { intros f0 x v f1. unfold sub_balance. destruct (v =? 0); [intros H; injection H as <-; auto|].
    destruct (negb (amount_ok v)); [discriminate|].
    destruct (bank_sub e (f_w (touch f0 x)) x evm_denom v) as [w1|] eqn:Eb; cbn [bind]; [|discriminate].
    intros H. injection H as <-. apply bank_sub_eff in Eb. destruct Eb as [_ ->]. auto. }
  destruct o; cbn [fstep evm_step_ok] in *.
  - (* CreateAccount a0: guarded *)
    destruct (create_eff _ _ _ _ Hs) as (_ & Hacc & _ & Hcode & Hstor & _).
    destruct (Z.eq_dec a a0) as [->|Hne].
    + exfalso. unfold create_guard, exist, nonce_at in Hok. rewrite Ha in Hok.
      rewrite orb_true_r in Hok. cbn [negb orb] in Hok.
      apply andb_true_iff in Hok. destruct Hok as [H1 H2]. apply Z.eqb_eq in H1, H2. destruct Hc; contradiction.
    + apply Hsame.
      * rewrite Hacc. destruct (a =? a0) eqn:E; [apply Z.eqb_eq in E; contradiction | exact Ha].
      * rewrite Hcode. apply upd_other. exact Hne.
      * rewrite Hstor. apply upd_other. exact Hne.
  - discriminate.
  - (* AddBalance *)
    unfold add_balance in Hs. destruct (v =? 0); [injection Hs as <-; apply Hsame; auto|].
    destruct (negb (amount_ok v)); [discriminate|].
    destruct (bank_add e (f_w (touch f a0)) a0 evm_denom v) as [w1|] eqn:Eb; cbn [bind] in Hs; [|discriminate].
    injection Hs as <-. apply bank_add_eff in Eb. destruct Eb as [_ ->]. cbn [with_w f_w].
    apply Hsame; [apply ensure_acc_keep; exact Ha | rewrite ensure_code; reflexivity | rewrite ensure_stor; reflexivity].
  - (* SubBalance *)
    destruct (Hsub _ _ _ _ Hs) as (E1 & E2 & E3). apply Hsame; [rewrite E1; exact Ha | rewrite E2; reflexivity | rewrite E3; reflexivity].
  - (* SetNonce *)
    injection Hs as <-. unfold set_nonce. cbn [touch f_w].
    destruct (w_acc (ensure_account (f_w f) a0) a0) as [ac0|] eqn:E0; cbn [with_w f_w].
    + destruct (Z.eq_dec a a0) as [->|Hne].
      * rewrite (ensure_acc_keep _ _ _ _ Ha) in E0. injection E0 as <-.
        eexists. unfold set_acc. cbn [w_acc w_code w_stor]. rewrite upd_same. split; [reflexivity|].
        cbn [a_num a_kind a_nonce]. rewrite ensure_code, ensure_stor. repeat split; auto.
      * exists ac. unfold set_acc. cbn [w_acc w_code w_stor]. rewrite upd_other by exact Hne.
        rewrite ensure_code, ensure_stor. repeat split; auto. apply ensure_acc_keep. exact Ha.
    + apply Hsame; [apply ensure_acc_keep; exact Ha | rewrite ensure_code; reflexivity | rewrite ensure_stor; reflexivity].
  - (* SetCode *)
    injection Hs as <-. unfold set_code. cbn [touch f_w with_w w_acc w_code w_stor].
    exists ac. rewrite ensure_stor. repeat split; auto; [apply ensure_acc_keep; exact Ha|].
    destruct (Z.eq_dec a a0) as [->|Hne]; [right; rewrite upd_same; reflexivity|].
    left. rewrite upd_other by exact Hne. rewrite ensure_code. reflexivity.
  - (* SetState *)
    injection Hs as <-. unfold set_state. cbn [touch f_w with_w w_acc w_code w_stor].
    exists ac. rewrite ensure_code. repeat split; auto; [apply ensure_acc_keep; exact Ha|].
    destruct (Z.eq_dec a a0) as [->|Hne]; [right; do 2 eexists; reflexivity|].
    left. rewrite upd_other by exact Hne. rewrite ensure_stor. reflexivity.
  - (* Suicide *)
    unfold suicide in Hs. cbn [touch f_w] in Hs. destruct (w_acc (f_w f) a0); [|injection Hs as <-; apply Hsame; auto].
    cbn [f_w] in Hs. destruct (amt (w_bal (f_w f) a0) evm_denom =? 0); [injection Hs as <-; apply Hsame; auto|].
    destruct (Hsub _ _ _ _ Hs) as (E1 & E2 & E3). cbn [f_w] in *.
    apply Hsame; [rewrite E1; exact Ha | rewrite E2; reflexivity | rewrite E3; reflexivity].
  - injection Hs as <-. apply Hsame; auto.
  - injection Hs as <-. apply Hsame; auto.
Qed.

(* over whole interpreter traces: a contract (code or non-zero nonce) keeps its account number and type through
   every operation and every revert, as long as its nonce is never set to 0 and its code never set to empty
   (the interpreter only increments nonces and only sets the code of accounts it has just created) *)
Definition contract_like (w : world) (a : addr) (num : Z) (k : kind) : Prop :=
  exists ac, w_acc w a = Some ac /\ a_num ac = num /\ a_kind ac = k /\ (a_nonce ac <> 0 \/ w_code w a <> 0).

Definition keeps_nonzero (a : addr) (o : op) : Prop :=
  match o with
  | SetNonce x n => x = a -> n <> 0
  | SetCode x c => x = a -> c <> 0
  | _ => True
  end.

Lemma contract_step e f o f' a num k :
  fstep e f o = Ok f' -> evm_step_ok f o = true -> keeps_nonzero a o ->
  contract_like (f_w f) a num k -> contract_like (f_w f') a num k.
Proof.
  intros Hs Hok Hk (ac & Ha & Hn & Hkd & Hc).
  destruct (evm_step_keeps_contracts e f o f' a ac Hs Hok Ha Hc) as (ac' & Ha' & Hn' & Hk' & Hno & Hco & _).
  exists ac'. repeat split; try congruence.
  destruct Hno as [Hno|Hno].
  - destruct Hco as [Hco|Hco].
    + rewrite Hno, Hco. exact Hc.
    + right. rewrite Hco in Hk. cbn in Hk. apply Hk. reflexivity.
  - left. rewrite Hno in Hk. cbn in Hk. apply Hk. reflexivity.
Qed.

Lemma contract_trace e a num k : forall l s s',
  evm_trace e s l = true -> Forall (keeps_nonzero a) l -> run_ops e s l = Ok s' ->
  contract_like (f_w (cur s)) a num k -> Forall (fun f => contract_like (f_w f) a num k) (snaps s) ->
  contract_like (f_w (cur s')) a num k /\ Forall (fun f => contract_like (f_w f) a num k) (snaps s').
Proof.
  induction l as [|o r IH]; intros s s' Ht Hk Hr Hc Hs; cbn [run_ops] in Hr.
  - injection Hr as <-. split; assumption.
  - cbn [evm_trace] in Ht. apply andb_true_iff in Ht. destruct Ht as [Hok Ht].
    inversion Hk as [|? ? Hko Hkr]; subst.
    destruct (step e s o) as [s1|] eqn:E; cbn [bind] in Hr; [|discriminate].
    assert (Hstep : contract_like (f_w (cur s1)) a num k /\ Forall (fun f => contract_like (f_w f) a num k) (snaps s1)).
    { destruct o; cbn [step] in E;
        try (destruct (fstep e (cur s) _) as [f1|] eqn:Ef; [|discriminate]; injection E as <-; cbn [cur snaps];
             split; [eapply contract_step; eassumption | exact Hs]).
      - injection E as <-. cbn [cur snaps]. split; [exact Hc|].
        apply Forall_app. split; [exact Hs | constructor; [exact Hc | constructor]].
      - destruct (i <? 0); [discriminate|].
        destruct (nth_error (snaps s) (Z.to_nat i)) as [f'|] eqn:En; [|discriminate].
        injection E as <-. cbn [cur snaps]. rewrite Forall_forall in Hs. split.
        + apply Hs. eapply nth_error_In. exact En.
        + apply Forall_forall. intros x Hx. apply Hs. apply (In_firstn_In x (S (Z.to_nat i))). exact Hx. }
    destruct Hstep as [Hc1 Hs1]. eapply IH; eassumption.
Qed.

Lemma contract_survives e w l w' b a ac :
  evm_trace e (init_sdb w) l = true -> Forall (keeps_nonzero a) l ->
  run_tx e w l = TxOk w' b ->
  w_acc w a = Some ac -> (a_nonce ac <> 0 \/ w_code w a <> 0) ->
  (exists s, run_ops e (init_sdb w) l = Ok s /\ mem a (f_sd (cur s)) = true) \/
  contract_like w' a (a_num ac) (a_kind ac).
Proof.
  intros Ht Hk. unfold run_tx.
  destruct (run_ops e (init_sdb w) l) as [s|] eqn:E; [|discriminate].
  destruct (commit e (cur s)) as [[w1 b1]|] eqn:Ec; [|discriminate].
  intros H. injection H as <- <-. intros Ha Hc.
  destruct (contract_trace e a (a_num ac) (a_kind ac) l (init_sdb w) s Ht Hk E) as [Hcl _].
  { exists ac. repeat split; auto. }
  { cbn. constructor. }
  destruct (mem a (f_sd (cur s))) eqn:Hsd; [left; exists s; auto|]. right.
  destruct Hcl as (ac1 & Ha1 & Hn1 & Hk1 & Hc1).
  (* it is not empty, so the loop does not delete it, and destroying other addresses leaves it as it is *)
  assert (Hne : is_empty (f_w (cur s)) a = false).
  { destruct (is_empty (f_w (cur s)) a) eqn:Ee; [|reflexivity]. exfalso.
    apply is_empty_spec in Ee. destruct Ee as (E1 & _ & E3 & _). unfold nonce_at in E3. rewrite Ha1 in E3.
    destruct Hc1; contradiction. }
  unfold commit in Ec.
  assert (Hloop : forall l0 w0 b0 w2 b2, commit_loop e (f_sd (cur s)) w0 b0 l0 = Ok (w2, b2) ->
            w_acc w0 a = Some ac1 -> w_code w0 a = w_code (f_w (cur s)) a -> is_empty w0 a = false ->
            w_acc w2 a = Some ac1 /\ w_code w2 a = w_code (f_w (cur s)) a).
  { induction l0 as [|x r IH]; intros w0 b0 w2 b2; cbn [commit_loop].
    - intros H. injection H as <- _. auto.
    - destruct (mem x (f_sd (cur s)) || is_empty w0 x) eqn:Ecx.
      + destruct (destroy e w0 x) as [w3|] eqn:Ed; cbn [bind]; [|discriminate].
        intros H H1 H2 H3. destruct (Z.eq_dec a x) as [->|Hax].
        * rewrite Hsd, H3 in Ecx. discriminate.
        * destruct (destroy_other _ _ _ _ a Ed Hax) as (D1 & D2 & D3 & D4).
          eapply IH; [exact H | rewrite D1; exact H1 | rewrite D3; exact H2 |].
          rewrite (is_empty_ext w0 w3 a); assumption.
      + apply IH. }
  destruct (Hloop _ _ _ _ _ Ec Ha1 eq_refl Hne) as [Hacc Hcode].
  exists ac1. repeat split; auto. rewrite Hcode. exact Hc1.
Qed.
