(* The bisimulation between go-ethereum's StateDB model and evermint's, obtained from the two refinements
   of the abstract EVM-view machine; runs over operation lists; deterministic clients; initial states;
   the witnesses that separate the two implementations outside the interpreter's discipline. *)
From Coq Require Import Lia ZArith List Bool Sorted.
From Evm Require Import EvmAbs GethStateDB EvmStateDB EvmAbsProofs GethRefine EvmRefine.
Import ListNotations.
Open Scope Z_scope.

Section WithFE.
Hypothesis FE : funext_stmt.

(* the relation: both are well formed and describe the same abstract state *)
Definition R (g : gst) (e : est) : Prop := wf_g g /\ wf_a (absg g) /\ rel_e e (absg g).

Lemma some_pair_inj : forall {A B} (a a' : A) (b b' : B), Some (a, b) = Some (a', b') -> a = a' /\ b = b'.
Proof. intros. inversion H. auto. Qed.

Theorem step_bisim : forall extra o g e,
  R g e -> disc o (absg g) ->
  exists g' e' og oe,
    gstep_x extra o g = Some (g', og) /\ estep_x extra o e = Some (e', oe) /\
    norm_obs o og = norm_obs o oe /\ R g' e' /\
    astep_x extra o (absg g) = Some (absg g', norm_obs o og).
Proof.
  intros extra o g e (Wg & Wa & Re) Hd.
  destruct (gstep_refines FE extra o g Wg Wa Hd) as (g' & og & Hg & Hag & Wg').
  destruct (estep_refines FE extra o e (absg g) Re Wa Hd) as (e' & oe & t' & He & Hae & Re').
  rewrite Hag in Hae. apply some_pair_inj in Hae. destruct Hae as [Ht Ho]. subst t'.
  exists g', e', og, oe. split; [exact Hg|]. split; [exact He|]. split; [exact Ho|]. split; [|exact Hag].
  split; [exact Wg'|]. split; [|exact Re']. eapply astep_x_wf; eauto.
Qed.

(* ------------------------------------------------------------------ operation lists *)
Fixpoint run {St : Type} (step : op -> St -> option (St * obs)) (ops : list op) (s : St) : option (St * list obs) :=
  match ops with
  | [] => Some (s, [])
  | o :: r =>
      match step o s with
      | None => None
      | Some (s', ob) =>
          match run step r s' with
          | None => None
          | Some (s'', l) => Some (s'', norm_obs o ob :: l)
          end
      end
  end.

(* the interpreter's discipline along the abstract run *)
Fixpoint disc_run (extra : list Z) (ops : list op) (t : ast) : Prop :=
  match ops with
  | [] => True
  | o :: r => disc o t /\ match astep_x extra o t with Some (t', _) => disc_run extra r t' | None => False end
  end.

Theorem run_bisim : forall extra ops g e,
  R g e -> disc_run extra ops (absg g) ->
  exists g' e' l, run (gstep_x extra) ops g = Some (g', l) /\ run (estep_x extra) ops e = Some (e', l) /\ R g' e'.
Proof.
  intros extra ops. induction ops as [|o r IH]; intros g e HR Hd; cbn [run].
  - exists g, e, []. auto.
  - destruct Hd as [Hd Hrest].
    destruct (step_bisim extra o g e HR Hd) as (g' & e' & og & oe & Hg & He & Ho & HR' & Ha).
    rewrite Ha in Hrest. destruct (IH g' e' HR' Hrest) as (g'' & e'' & l & Hg2 & He2 & HR'').
    rewrite Hg, He, Hg2, He2, Ho. exists g'', e'', (norm_obs o oe :: l). auto.
Qed.

(* ------------------------------------------------------------------ deterministic clients
   The interpreter is a deterministic function of what it has observed so far: [client hist] is the next
   operation after the (normalised) observations [hist], or None when the transaction is over. *)
Fixpoint drive {St : Type} (step : op -> St -> option (St * obs)) (client : list obs -> option op)
         (fuel : nat) (s : St) (hist : list obs) : option (St * list (op * obs)) :=
  match fuel with
  | O => Some (s, [])
  | S f =>
      match client hist with
      | None => Some (s, [])
      | Some o =>
          match step o s with
          | None => None
          | Some (s', ob) =>
              match drive step client f s' (hist ++ [norm_obs o ob]) with
              | None => None
              | Some (s'', tr) => Some (s'', (o, norm_obs o ob) :: tr)
              end
          end
      end
  end.

Fixpoint client_disc (extra : list Z) (client : list obs -> option op) (fuel : nat) (t : ast) (hist : list obs) : Prop :=
  match fuel with
  | O => True
  | S f =>
      match client hist with
      | None => True
      | Some o => disc o t /\ match astep_x extra o t with
                              | Some (t', ob) => client_disc extra client f t' (hist ++ [ob])
                              | None => False
                              end
      end
  end.

Theorem client_bisim : forall extra client fuel g e hist,
  R g e -> client_disc extra client fuel (absg g) hist ->
  exists g' e' tr,
    drive (gstep_x extra) client fuel g hist = Some (g', tr) /\
    drive (estep_x extra) client fuel e hist = Some (e', tr) /\ R g' e'.
Proof.
  intros extra client fuel. induction fuel as [|f IH]; intros g e hist HR Hd; cbn [drive].
  - exists g, e, []. auto.
  - cbn [client_disc] in Hd. destruct (client hist) as [o|]; [|exists g, e, []; auto].
    destruct Hd as [Hd Hrest].
    destruct (step_bisim extra o g e HR Hd) as (g' & e' & og & oe & Hg & He & Ho & HR' & Ha).
    rewrite Ha in Hrest. destruct (IH g' e' _ HR' Hrest) as (g'' & e'' & tr & Hg2 & He2 & HR'').
    rewrite Hg, He. rewrite <- Ho. rewrite Hg2, He2.
    exists g'', e'', ((o, norm_obs o og) :: tr). auto.
Qed.

(* ------------------------------------------------------------------ what R says about the two states *)
Theorem R_same_view : forall g e a, R g e -> gview (g_objs (g_cur g) a) = eview (e_orig e) (e_cur e) a.
Proof.
  intros g e a (_ & _ & Re). pose proof (re_cur _ _ Re) as H. cbn [absg a_cur] in H.
  apply (f_equal (fun c => a_accs c a)) in H. exact H.
Qed.

Theorem R_same_refund_logs : forall g e, R g e ->
  s_refund (g_side (g_cur g)) = s_refund (e_side (e_cur e)) /\ s_logs (g_side (g_cur g)) = s_logs (e_side (e_cur e)).
Proof.
  intros g e (_ & _ & Re). pose proof (re_cur _ _ Re) as H. cbn [absg a_cur] in H.
  apply (f_equal a_side) in H. cbn [absg_core abse_core a_side] in H. rewrite <- H.
  rewrite ab_side_refund, ab_side_logs. auto.
Qed.

(* ------------------------------------------------------------------ initial states: the same EVM view on both sides *)
Definition core0 (s : estore) : ecore := mkEcore s [] [] side0.

Theorem R_init : forall objs store,
  (forall a, gview (objs a) = eview store (core0 store) a) ->
  (forall a o, objs a = Some o -> (forall k, g_stor o k = g_orig o k) /\ g_sui o = false) ->
  (forall a, stor_ok (gview (objs a))) ->
  wf_core store (core0 store) ->
  R (ginit objs) (einit store).
Proof.
  intros objs store Hview Hclean Hok Hwf. unfold R. split; [|split].
  - unfold wf_g, ginit. cbn [g_cur g_revs g_issued g_next g_alvalid].
    split; [|split; [constructor|split; [reflexivity|split; [reflexivity|split; [constructor|split; [constructor|intro; discriminate]]]]]].
    intros a o Ho _. exact (Hclean a o Ho).
  - split; [|constructor]. split; [exact Hok|cbn; lia].
  - constructor; cbn [einit ginit absg e_cur e_orig e_issued e_snaps a_cur a_count a_live g_cur g_revs g_issued g_alvalid map length].
    + apply GethRefine.acore_eq; [|reflexivity]. cbn [absg_core abse_core a_accs g_objs]. apply FE. exact Hview.
    + reflexivity.
    + constructor.
    + exact Hwf.
    + constructor.
Qed.

(* ------------------------------------------------------------------ a concrete related pair (non-vacuity) *)
Definition CODE1 : Z := 1048580.   (* code number 1, four bytes *)

Definition objs_ex : Z -> option gobj := fun a =>
  if a =? 100 then Some (mkGobj 3 1000 0 zf zf false)
  else if a =? 200 then Some (mkGobj 1 7 CODE1 (upd zf 1 42) (upd zf 1 42) false)
  else None.

Definition store_ex : estore :=
  mkEstore (fun a => if a =? 100 then Some (5, 3) else if a =? 200 then Some (6, 1) else None)
           (fun a => if a =? 100 then 1000 else if a =? 200 then 7 else 0)
           (fun _ => false)
           (fun a => if a =? 200 then CODE1 else 0)
           (fun a => if a =? 200 then [(1, 42)] else [])
           7 (fun _ => false).

Lemma st_get_ex : st_get [(1, 42)] = upd zf 1 42.
Proof. apply FE. intro k. cbn [st_get]. unfold upd, zf. rewrite (Z.eqb_sym 1 k). reflexivity. Qed.

Lemma R_example : R (ginit objs_ex) (einit store_ex).
Proof.
  apply R_init.
  - intro a. unfold objs_ex, store_ex, eview, core0, e_seq, e_committed. cbn [e_s e_selfd e_acc e_bal e_ch e_st memZ].
    destruct (a =? 100) eqn:E1; [apply Z.eqb_eq in E1; subst a; reflexivity|]. destruct (a =? 200) eqn:E2; [|reflexivity].
    cbn [gview]. rewrite Z.eqb_refl, st_get_ex. reflexivity.
  - intros a o H. unfold objs_ex in H. destruct (a =? 100); [inversion H; subst; cbn; auto|].
    destruct (a =? 200); [inversion H; subst; cbn; auto|discriminate].
  - intros a Hn Hc. unfold objs_ex in *. destruct (a =? 100); [cbn in Hn; lia|]. destruct (a =? 200); [cbn in Hn; lia|]. split; reflexivity.
  - constructor; unfold store_ex, core0; cbn [e_s e_acc e_bal e_ch e_st e_next e_other e_module e_selfd e_touched].
    + intros a H. destruct (a =? 100); [discriminate|]. destruct (a =? 200); [discriminate|auto].
    + intros a n q H. destruct (a =? 100); [inversion H; lia|]. destruct (a =? 200); [inversion H; lia|discriminate].
    + intros a n q H. destruct (a =? 100); [inversion H; lia|]. destruct (a =? 200); [inversion H; lia|discriminate].
    + intros a H. unfold e_seq. cbn [e_acc]. destruct (a =? 200) eqn:E2; [apply Z.eqb_eq in E2; subst a; left; cbn; lia|exfalso; apply H; reflexivity].
    + intros a H. discriminate.
    + reflexivity.
    + reflexivity.
Qed.

(* a disciplined transaction-like run on it: prepare, call with value, SSTORE to zero (reads committed), selfdestruct,
   revert of the frame, a second frame that succeeds, end of transaction *)
Definition ops_ex : list op :=
  [OGetNonce 100; OGetCodeHash 100; OPrepare 100 (Some 200) [1; 2; 3] [(200, [1])]; OSetNonce 100 4;
   OSnapshot; OCallEnter 100 200 5 false; OSlotInAL 200 1; OGetState 200 1; OGetCommitted 200 1; OSetState 200 1 0; OAddRefund 4800;
   OGetBalance 200; OAddBalance 300 12; OSuicide 200; ORevert 0;
   OSnapshot; OCallEnter 100 300 0 false; OCallEnter 100 3 0 true; OEmpty 300; OGetCodeHash 300; OAddLog (200, [1; 2], 0); ORevert 1;
   OGetRefund; OAddBalance 100 77; OFinalise; OGetCommitted 200 1; OEmpty 300].

Example disc_run_example : disc_run [9] ops_ex (absg (ginit objs_ex)).
Proof.
  vm_compute. repeat split; try lia; try discriminate; try (left; lia); try (right; discriminate); try (intro; discriminate).
Qed.

Example run_example :
  exists g' e', run (gstep_x [9]) ops_ex (ginit objs_ex) = Some (g', [ObZ 3; ObZ 0; ObNone; ObNone; ObNone; ObZ CODE1; ObBB true true; ObZ 42; ObZ 42; ObNone; ObNone;
                                                                       ObZ 12; ObNone; ObB true; ObNone; ObNone; ObZ 0; ObNone; ObB true; ObZ 0; ObNone; ObNone;
                                                                       ObZ 0; ObNone; ObNone; ObZ 42; ObB true])
             /\ run (estep_x [9]) ops_ex (einit store_ex) = Some (e', [ObZ 3; ObZ 0; ObNone; ObNone; ObNone; ObZ CODE1; ObBB true true; ObZ 42; ObZ 42; ObNone; ObNone;
                                                                       ObZ 12; ObNone; ObB true; ObNone; ObNone; ObZ 0; ObNone; ObB true; ObZ 0; ObNone; ObNone;
                                                                       ObZ 0; ObNone; ObNone; ObZ 42; ObB true]).
Proof. eexists _, _. split; vm_compute; reflexivity. Qed.

(* ------------------------------------------------------------------ outside the discipline the implementations differ *)
Definition objs0 : Z -> option gobj := fun _ => None.
Definition store0 : estore := mkEstore (fun _ => None) zf (fun _ => false) zf (fun _ => []) 0 (fun _ => false).

Lemma R_empty : R (ginit objs0) (einit store0).
Proof.
  apply R_init.
  - intro a. unfold eview, core0, store0, e_seq, e_committed. cbn. reflexivity.
  - intros a o H. discriminate.
  - intros a _ _. split; reflexivity.
  - constructor; unfold store0, core0; cbn; try discriminate; auto.
Qed.

(* the bisimulation for ALL operation lists, without the interpreter's discipline *)
Definition bisim_undisciplined : Prop :=
  forall extra ops g e, R g e ->
    exists g' e' l, run (gstep_x extra) ops g = Some (g', l) /\ run (estep_x extra) ops e = Some (e', l).

(* SetState(a, k, 0) on an address that is not a contract: go-ethereum records nothing (value unchanged), evermint stores
   32 zero bytes and IsEmptyAccount sees storage: Empty differs *)
Theorem bisim_undisciplined_refuted : ~ bisim_undisciplined.
Proof.
  intro H. destruct (H [] [OSetState 7 0 0; OEmpty 7] _ _ R_empty) as (g' & e' & l & Hg & He).
  vm_compute in Hg, He. inversion Hg. inversion He. congruence.
Qed.

(* raw Exist after a zero-value credit: go-ethereum holds a touched-empty object, evermint holds no account *)
Lemma witness_raw_exist :
  exists g e, R g e /\
    (exists g0 e0 o1 o2, gstep (OAddBalance 7 0) (ginit objs0) = Some (g, o1) /\ estep_x [] (OAddBalance 7 0) (einit store0) = Some (e, o2) /\ g0 = g /\ e0 = e) /\
    (exists gs es, gstep (OExist 7) g = Some (gs, ObB true) /\ estep_x [] (OExist 7) e = Some (es, ObB false)).
Proof.
  destruct (step_bisim [] (OAddBalance 7 0) _ _ R_empty) as (g & e & og & oe & Hg & He & _ & HR & _); [cbn; lia|].
  exists g, e. split; [exact HR|]. split.
  - exists g, e, og, oe. auto.
  - vm_compute in Hg, He. inversion Hg; subst. inversion He; subst. eexists _, _. split; vm_compute; reflexivity.
Qed.

(* CreateAccount on a self-destructed address: go-ethereum's new object is not suicided and survives, evermint keeps
   the address in selfDestructed (unreachable: evm.create's collision test, evm.Call's Exist test) *)
Lemma witness_create_after_suicide :
  exists l1 l2 g' e',
    run gstep [OSuicide 200; OCreateAccount 200; OHasSuicided 200] (ginit objs_ex) = Some (g', l1) /\
    run (estep_x []) [OSuicide 200; OCreateAccount 200; OHasSuicided 200] (einit store_ex) = Some (e', l2) /\
    nth 2 l1 ObNone = ObB false /\ nth 2 l2 ObNone = ObB true.
Proof. eexists _, _, _, _. repeat split; vm_compute; reflexivity. Qed.

(* a credit to a module account (blocked recipient of the bank module) panics in evermint only *)
Definition store_mod : estore := mkEstore (fun _ => None) zf (fun _ => false) zf (fun _ => []) 0 (fun a => a =? 55).
Lemma witness_module_account :
  estep_x [] (OAddBalance 55 1) (einit store_mod) = None /\
  exists g', gstep (OAddBalance 55 1) (ginit objs0) = Some (g', ObNone).
Proof. split; [reflexivity|]. eexists. vm_compute. reflexivity. Qed.

(* an account that holds only another denomination is not empty for evermint (IsEmptyAccount reads all balances) *)
Definition store_other : estore := mkEstore (fun a => if a =? 66 then Some (0, 0) else None) zf (fun a => a =? 66) zf (fun _ => []) 1 (fun _ => false).
Lemma witness_multi_denom :
  exists e', estep_x [] (OEmpty 66) (einit store_other) = Some (e', ObB false) /\
  a_empty (eview store_other (core0 store_other) 66) = true.
Proof. eexists. split; vm_compute; reflexivity. Qed.

End WithFE.
