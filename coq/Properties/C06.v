(* C06 — Only sender-authorised transactions execute, each exactly once. *)
From Evm Require Import TxPipe TxPipeExt TxPipeProofs TxPipeDenom TxPipeDenomProofs TxPipeSeqProofs TxPipeCountProofs.
Open Scope Z_scope.

(* whatever passes admission (in any later outcome class) is replay-protected, recovers to the declared sender
   under the chain's signer (t_recovered = result of LatestSignerForChainID(chain id).Sender, None for a foreign
   chain id or invalid signature), has the sender's current sequence as nonce, comes from an existing EOA that
   can pay gas limit x price >= the price floor *)
Theorem C06_accepted_authorised : forall s t o,
  passed (r_out (snd (deliver s t o))) = true -> blk_out_of_gas s = false /\ admitted s t.
Proof. exact passed_iff_admitted. Qed.
Print Assumptions C06_accepted_authorised.

(* the sender's sequence advances by exactly one in EVERY outcome after admission (success, VM error,
   consensus-level error, block gas exhausted), nobody else's moves, and a rejected tx moves none *)
Theorem C06_nonce_plus_one_all_outcomes : forall s t o a,
  sqn (fst (deliver s t o)) a =
  sqn s a + (if passed (r_out (snd (deliver s t o))) && (a =? t_from t) then 1 else 0).
Proof. exact sqn_step. Qed.
Print Assumptions C06_nonce_plus_one_all_outcomes.

Theorem C06_rejected_no_change : forall s t o,
  passed (r_out (snd (deliver s t o))) = false -> fst (deliver s t o) = s.
Proof. exact rejected_changes_nothing. Qed.
Print Assumptions C06_rejected_no_change.

(* over any history (any number of blocks' items, Ethereum and Cosmos): sequences never move backwards *)
Theorem C06_sequence_monotone : forall l s a, sqn s a <= sqn (final s l) a.
Proof. exact sqn_monotone. Qed.
Print Assumptions C06_sequence_monotone.

(* ... and a signed transaction (same sender, same nonce) is never admitted twice: if an earlier occurrence
   passed admission, every later occurrence anywhere in the history is rejected *)
Theorem C06_no_replay : forall l s pre x mid y post,
  trace s l = pre ++ x :: mid ++ y :: post ->
  let '(_, tx, _, rx) := x in let '(_, ty, _, ry) := y in
  t_from tx = t_from ty -> t_nonce tx = t_nonce ty ->
  passed (r_out rx) = true -> passed (r_out ry) = false.
Proof. exact no_replay. Qed.
Print Assumptions C06_no_replay.

(* non-vacuity: the same signed transfer twice in one block: first executed, second rejected (invalid sequence) *)
Example C06_example :
  let s := mkSt (fun a => if a =? 7 then 10^18 else 0) (fun _ => 0) (fun a => a =? 7) (fun _ => false)
                (5 * 10^18) 1000 0 0 0 0 0 0 false false in
  let t := mkTx 7 (Some 7) true false 2000 0 0 30000 0 5 false 21000 in
  let o := mkOut 21000 false 0 [(7, -5); (8, 5)] 0 false in
  map r_out (snd (run s [Eth t o; Eth t o])) = [Executed false; RejAnte E_INVALID_SEQUENCE].
Proof. vm_compute. reflexivity. Qed.

(* ... also when the first inclusion failed AFTER admission: value above the balance (consensus-level error) for a call
   and for a contract creation, and block gas exhausted by the execution; every replay is refused (invalid sequence)
   and the sequence ends at 1 *)
Example C06_example_replay_after_failure :
  let s := mkSt (fun a => if a =? 7 then 10^18 else 0) (fun _ => 0) (fun a => a =? 7) (fun _ => false)
                (5 * 10^18) 1000 0 0 0 0 0 0 false false in
  let call := mkTx 7 (Some 7) true false 2000 0 0 30000 0 (10^18) false 21000 in
  let crea := mkTx 7 (Some 7) true false 2000 0 0 90000 0 (10^18) true 53000 in
  let o := mkOut 21000 false 0 [] 0 false in
  let sg := mkSt (bal s) (sqn s) (acc_exists s) (has_code s) (supply s) 1000 0 25000 0 0 0 0 false false in
  let okc := mkTx 7 (Some 7) true false 2000 0 0 30000 0 5 false 21000 in
  map r_out (snd (run s [Eth call o; Eth call o])) = [CoreErr; RejAnte E_INVALID_SEQUENCE] /\
  map r_out (snd (run s [Eth crea o; Eth crea o])) = [CoreErr; RejAnte E_INVALID_SEQUENCE] /\
  map r_out (snd (run sg [Eth okc (mkOut 26000 false 0 [] 0 false); Eth okc o])) = [BlockGasExceeded; Dropped] /\
  sqn (fst (run s [Eth crea o; Eth crea o])) 7 = 1 /\
  sqn (fst (run sg [Eth okc (mkOut 26000 false 0 [] 0 false); Eth okc o])) 7 = 1.
Proof. vm_compute. repeat split; reflexivity. Qed.

(* ------------------------------------------------------------------ executions aborted by a panic (Model/TxPipeExt.v)
   "Each accepted transaction advances the sender's nonce by exactly one - also when execution later fails": the ante
   handler's increment stays when runTx recovers the panic (the handler's undoing of it is in the dropped message cache) *)
Theorem C06_aborted_accepted_authorised : forall s t gu,
  passed (r_out (snd (deliver_panic s t gu))) = true -> blk_out_of_gas s = false /\ admitted s t.
Proof. exact panic_passed_admitted. Qed.
Print Assumptions C06_aborted_accepted_authorised.

Theorem C06_aborted_nonce_plus_one : forall s t gu a,
  sqn (fst (deliver_panic s t gu)) a =
  sqn s a + (if passed (r_out (snd (deliver_panic s t gu))) && (a =? t_from t) then 1 else 0).
Proof. exact panic_sqn. Qed.
Print Assumptions C06_aborted_nonce_plus_one.

(* over any history containing executed, failed and aborted Ethereum transactions and Cosmos transactions *)
Theorem C06_x_sequence_monotone : forall l s a, sqn (d_core s) a <= sqn (d_core (xfinal s l)) a.
Proof. exact xsqn_monotone. Qed.
Print Assumptions C06_x_sequence_monotone.

Theorem C06_x_no_replay : forall l s pre x mid y post,
  xtrace s l = pre ++ x :: mid ++ y :: post ->
  let '(_, tx, _, rx) := x in let '(_, ty, _, ry) := y in
  t_from tx = t_from ty -> t_nonce tx = t_nonce ty ->
  passed (r_out rx) = true -> passed (r_out ry) = false.
Proof. exact x_no_replay. Qed.
Print Assumptions C06_x_no_replay.

(* non-vacuity: a transfer to a module account is aborted; its replay (as an ordinary execution or aborted again) is
   refused with invalid sequence; the sequence ends at 1 *)
Example C06_example_replay_after_abort :
  let c := mkSt (fun a => if a =? 7 then 10^18 else 0) (fun _ => 0) (fun a => a =? 7) (fun _ => false)
                (5 * 10^18) 1000 0 0 0 0 0 0 false false in
  let s := mkDst c (mkLedger (fun _ _ => 0) (fun _ => 0)) in
  let t := mkTx 7 (Some 7) true false 2000 0 0 30000 0 5 false 21000 in
  let o := mkOut 21000 false 0 [(7, -5); (8, 5)] 0 false in
  map r_out (snd (xrun s [XPanic t 0; XItem (DEth t o (mkDx [] [])); XPanic t 0])) =
    [CoreErr; RejAnte E_INVALID_SEQUENCE; RejAnte E_INVALID_SEQUENCE] /\
  sqn (d_core (xfinal s [XPanic t 0; XItem (DEth t o (mkDx [] [])); XPanic t 0])) 7 = 1.
Proof. vm_compute. repeat split; reflexivity. Qed.

(* ------------------------------------------------------------------ exact accounting over whole histories
   (Proofs/TxPipeCountProofs.v).  "Each accepted transaction advances the sender's nonce by exactly one": after ANY
   list of items from ANY state, every account's sequence is the one it started with plus the number of its Ethereum
   transactions that passed admission (executed, reverted, failed after admission or dropped for block gas alike) plus
   the number of its Cosmos-lane transactions whose increment was committed - nothing else ever moves a sequence,
   rejected transactions count for nothing, and no accepted transaction counts twice. *)
Theorem C06_sequence_counts_accepted : forall l s a,
  sqn (final s l) a = sqn s a + eth_accepted a (trace s l) + cosmos_accepted a l.
Proof. exact sequence_counts_accepted. Qed.
Print Assumptions C06_sequence_counts_accepted.

Theorem C06_sequence_between : forall l s a,
  sqn s a <= sqn (final s l) a <= sqn s a + Z.of_nat (length l).
Proof. exact sequence_between. Qed.
Print Assumptions C06_sequence_between.

(* non-vacuity: executed transfer, its replay (rejected), a call failing after admission, a Cosmos transaction with a
   committed increment, one of another payer: account 7 ends at 0 + 2 + 1 *)
Example C06_example_counts :
  let s := mkSt (fun a => if a =? 7 then 10^18 else 0) (fun _ => 0) (fun a => a =? 7) (fun _ => false)
                (5 * 10^18) 1000 0 0 0 0 0 0 false false in
  let t := mkTx 7 (Some 7) true false 2000 0 0 30000 0 5 false 21000 in
  let big := mkTx 7 (Some 7) true false 2000 0 0 30000 1 (10^18) false 21000 in
  let o := mkOut 21000 false 0 [(7, -5); (8, 5)] 0 false in
  let l := [Eth t o; Eth t o; Eth big (mkOut 21000 false 0 [] 0 false); Cosmos 50000 7 100 true; Cosmos 50000 9 100 true] in
  eth_accepted 7 (trace s l) = 2 /\ cosmos_accepted 7 l = 1 /\ sqn (final s l) 7 = 3 /\ sqn (final s l) 9 = 1.
Proof. vm_compute. repeat split; reflexivity. Qed.
