(* C20 — No user input can crash a node or halt block production.
   Statements only; proofs are in Proofs/TotalProofs.v, Proofs/TraceCfgProofs.v, Proofs/PubSubProofs.v,
   Proofs/FilterSysProofs.v, Proofs/FilterApiProofs.v (generic part: Proofs/ConcProofs.v). *)
From Evm Require Import BaseFee TxPipe Total TotalProofs TraceCfg TraceCfgProofs Conc ConcProofs PubSub PubSubProofs FilterSys FilterSysProofs FilterApi FilterApiProofs CorrPubSub.
From Coq Require Import Relations.
Open Scope Z_scope.

(* ---------------------------------------------------------------- 1. per-transaction pipeline *)

(* for every input of the model (undecodable bytes, any Ethereum-lane or Cosmos-lane feature vector, any opaque
   decodable transaction whatever runTx makes of it) and every ABCI phase: Ok, Rejected, or a panic strictly inside
   a recover boundary -- never a crash *)
Theorem C20_tx_never_escapes : forall p s r, is_crash (phase_tx p s r) = false.
Proof. exact tx_never_escapes. Qed.
Print Assumptions C20_tx_never_escapes.

Theorem C20_tx_verdict_shape : forall p s r,
  match phase_tx p s r with
  | VOk _ | VRejected _ | VPanicRecovered _ _ => True
  | VCrash _ => False
  end.
Proof. exact tx_verdict_shape. Qed.
Print Assumptions C20_tx_verdict_shape.

Theorem C20_query_never_escapes : forall q, is_crash (query q) = false.
Proof. exact query_never_escapes. Qed.
Print Assumptions C20_query_never_escapes.

(* the panicking accessors of MsgEthereumTx (AsTransaction, GetFrom / MustAccAddressFromBech32) are dead in the
   transaction pipeline: basic validation rejects first, in every mode *)
Theorem C20_eth_accessors_never_panic : forall m s e x,
  eth_run m s e = Pan x -> x <> S_AsTransaction /\ x <> S_MustBech32From.
Proof. exact eth_accessors_never_panic. Qed.
Print Assumptions C20_eth_accessors_never_panic.

(* the fee checker never divides by a zero gas limit *)
Theorem C20_fee_checker_never_divides_by_zero : forall m c, cos_run m c <> Pan S_FeeQuoZeroGas.
Proof. exact cos_never_divides_by_zero_gas. Qed.
Print Assumptions C20_fee_checker_never_divides_by_zero.

(* the executor's own panics on short input / selector mismatch are dead: the interpreter's checks come first *)
Theorem C20_precompile_call_never_panics : forall len known args ok, exists failed, cpc_call len known args ok = Cont failed.
Proof. exact cpc_call_never_panics. Qed.
Print Assumptions C20_precompile_call_never_panics.

(* live sites (non-vacuity of the recover boundaries): these inputs do panic, and the boundary holds *)
Example C20_live_sites :
  (* Cosmos tx with the dynamic-fee extension and no tip *)
  cos_run MDeliver (mkCos true true 300000 (-1) 3000 1 true 600000000000000 (Some None) 1000000000 1000000000 true true true (MPlain true) true)
    = Pan S_FeeTipNil /\
  (* ... with fee amount below the gas limit: effective fee zero, fees[0] *)
  cos_run MCheck (mkCos true true 300000 (-1) 3000 1 true 299999 (Some (Some 0)) 1000000000 1000000000 true true true (MPlain true) true)
    = Pan S_FeesIndex /\
  (* vesting account creation for an address that is not bech32 *)
  cos_run MDeliver (mkCos true true 300000 (-1) 3000 1 true 600000000000000 None 1000000000 1000000000 true true true (MVesting false false) true)
    = Pan S_VestingBech32 /\
  (* tracing a request without a message *)
  query (QTraceTx false true true true) = VPanicRecovered S_TraceNilMsg B_Query /\
  (* and the same fee input without the extension is an ordinary rejection *)
  cos_run MCheck (mkCos true true 300000 (-1) 3000 1 true 299999 None 1000000000 1000000000 true true true (MPlain true) true)
    = Rej 13.
Proof. vm_compute. repeat split. Qed.

(* the goroutines that consume CometBFT's Tx events (no recover around them) survive every committed transaction *)
Theorem C20_rpc_pending_never_crashes : forall decodes has_msgs is_eth valid,
  is_crash (rpc_pending decodes has_msgs is_eth valid) = false.
Proof. exact rpc_pending_never_crashes. Qed.
Print Assumptions C20_rpc_pending_never_crashes.

(* ---------------------------------------------------------------- 2. begin / end of block *)

(* the EVM module's EndBlock finds a receipt for every counted transaction, after any sequence of transactions *)
Theorem C20_receipts_match_counter : forall l : list bool, evm_end_block (fold_left blk_step l blk0) = Cont tt.
Proof. exact evm_end_block_total. Qed.
Print Assumptions C20_receipts_match_counter.

(* EndBlock never fails for valid consensus parameters (max_gas >= -1, also 0 and 1) while the next base fee fits
   sdkmath.Int *)
Theorem C20_endblock_total_partial : forall (l : list bool) base used mg md,
  -1 <= mg -> 0 <= base -> 0 <= used <= gas_limit mg ->
  base + base / 4 + 1 <= MAX256 -> md / E18 <= MAX256 ->
  end_block (fold_left blk_step l blk0) base used mg md = VOk false.
Proof. exact endblock_total_partial. Qed.
Print Assumptions C20_endblock_total_partial.

(* whenever it does fail for valid parameters, it is the overflow corner (C09's known finding): never a division
   by zero, never a missing receipt *)
Theorem C20_endblock_failure_is_overflow : forall (l : list bool) base used mg md x,
  -1 <= mg -> end_block (fold_left blk_step l blk0) base used mg md = VCrash x -> x = S_BaseFeeOverflow.
Proof. exact endblock_failure_is_overflow. Qed.
Print Assumptions C20_endblock_failure_is_overflow.

(* the unrestricted statement is false of the faithful model: base fee 2^256-1 (governance-set) overflows *)
Theorem C20_endblock_total_refuted : ~ endblock_total_full.
Proof. exact endblock_total_refuted. Qed.
Print Assumptions C20_endblock_total_refuted.

Example C20_endblock_example :
  end_block (fold_left blk_step [true; false; true] blk0) 1000000000 30000 0 0 = VOk false /\
  end_block (fold_left blk_step [true] blk0) 1000000000 21000 1 0 = VOk false /\
  b_count (fold_left blk_step [true; false; true] blk0) = 2%nat.
Proof. vm_compute. auto. Qed.

(* ---------------------------------------------------------------- 3. a failing transaction is isolated *)

(* replacing a failing transaction of a block by another failing execution of the same transaction (same ante
   effects; same gas and log figures): every other transaction's result and the final state are unchanged, whatever
   the two executions did before failing *)
Theorem C20_tx_failure_isolated : forall s pre suf t o o',
  failing o -> failing o' -> same_figures o o' ->
  run s (pre ++ Eth t o :: suf) = run s (pre ++ Eth t o' :: suf).
Proof. exact tx_failure_isolated. Qed.
Print Assumptions C20_tx_failure_isolated.

Theorem C20_failing_execution_leaves_no_effects : forall s t o moves burn,
  failing o -> deliver s t o = deliver s t (mkOut (e_used o) true (e_logs o) moves burn (e_commit_err o)).
Proof. exact failing_ignores_effects. Qed.
Print Assumptions C20_failing_execution_leaves_no_effects.

(* ... and when the two failing executions burn different amounts of gas: under an unlimited block gas meter the later
   transactions of other senders keep their results in every field but the cumulative gas (which by definition
   contains the failing transaction's own gas); the earlier results are literally the same *)
Theorem C20_tx_failure_isolated_any_gas : forall s pre suf t o o',
  failing o -> failing o' -> e_logs o = e_logs o' -> e_commit_err o = e_commit_err o' ->
  blk_limit (fst (run s pre)) <= 0 -> Forall (other_ok (t_from t)) suf ->
  exists r1 x x' rs rs',
    snd (run s (pre ++ Eth t o :: suf)) = r1 ++ x :: rs /\
    snd (run s (pre ++ Eth t o' :: suf)) = r1 ++ x' :: rs' /\
    Forall2 res_eq_mod_cum rs rs'.
Proof. exact tx_failure_isolated_any_gas. Qed.
Print Assumptions C20_tx_failure_isolated_any_gas.

Example C20_isolation_hypotheses_met :
  let t := mkTx 5 (Some 5) true false 2000000000 0 0 100000 0 0 false 21000 in
  let t2 := mkTx 6 (Some 6) true false 2000000000 0 0 50000 0 0 false 21000 in
  let s := TxPipe.mkSt (fun _ => 1000000000000000000) (fun _ => 0) (fun _ => true) (fun _ => false) 0 1000000000 0 0 0 0 0 0 false false in
  let o := mkOut 100000 true 0 [(7, 5)] 3 false in
  let o' := mkOut 40000 true 0 [] 0 false in
  failing o /\ failing o' /\ Forall (other_ok (t_from t)) [Eth t2 (mkOut 21000 false 0 [] 0 false)] /\
  map r_out (snd (run s [Eth t o; Eth t2 (mkOut 21000 false 0 [] 0 false)])) = [Executed true; Executed false] /\
  map r_cum_gas (snd (run s [Eth t o; Eth t2 (mkOut 21000 false 0 [] 0 false)])) = [100000; 121000] /\
  map r_cum_gas (snd (run s [Eth t o'; Eth t2 (mkOut 21000 false 0 [] 0 false)])) = [40000; 61000].
Proof.
  cbv zeta. repeat split; try reflexivity.
  constructor; [|constructor]. cbn. split; intros H; discriminate.
Qed.

(* ---------------------------------------------------------------- 4. event bus (rpc/ethereum/pubsub) *)

(* for EVERY interleaving of any number of AddTopic / RemoveTopic / Subscribe / unsubscribe / Topics callers, publisher
   goroutines, sends and closes on source channels and receivers coming and going: no step crashes
   (no send on a closed channel, no close of a closed channel, no Unlock of an unlocked mutex) *)
Theorem C20_pubsub_safe : forall s s', ps_reach s -> ps_step s s' -> err s' = None.
Proof. exact ps_no_crash. Qed.
Print Assumptions C20_pubsub_safe.

Theorem C20_pubsub_send_targets_open : forall s i n src msg c rest,
  ps_reach s -> nth_error (thr s) i = Some (PT_pub_loop n src msg (c :: rest)) -> ~ In c (sub_closed (dat s)).
Proof. exact ps_send_targets_open. Qed.
Print Assumptions C20_pubsub_send_targets_open.

Theorem C20_pubsub_close_targets_open : forall s i n c rest,
  ps_reach s -> nth_error (thr s) i = Some (PT_cl_loop n (c :: rest)) -> ~ In c (sub_closed (dat s)).
Proof. exact ps_close_targets_open. Qed.
Print Assumptions C20_pubsub_close_targets_open.

(* no lock-order cycle: the waits-for relation on the two RWMutex is acyclic in every reachable state;
   in fact nobody holds a lock while acquiring one, and a lock holder can always move *)
Theorem C20_pubsub_no_lock_cycle : forall s, ps_reach s -> forall i, ~ clos_trans nat (ps_waits_for s) i i.
Proof. exact ps_no_wait_cycle. Qed.
Print Assumptions C20_pubsub_no_lock_cycle.

Theorem C20_pubsub_never_holds_while_acquiring : forall s i p m md k m',
  ps_reach s -> nth_error (thr s) i = Some p -> code p = Acq m md k -> holds p m' = None.
Proof. exact ps_never_holds_while_acquiring. Qed.
Print Assumptions C20_pubsub_never_holds_while_acquiring.

Theorem C20_pubsub_holder_progress : forall s j q m md,
  ps_reach s -> nth_error (thr s) j = Some q -> holds q m = Some md ->
  (exists s', ps_tstep s j = Some s') \/ (exists k, ps_waits_for s j k).
Proof. exact ps_holder_progress. Qed.
Print Assumptions C20_pubsub_holder_progress.

(* the sequential histories the driver replays on the real bus are runs of this step relation *)
Theorem C20_pubsub_histories_are_runs : forall l s, ps_reach s -> ps_reach (final_state s l).
Proof. exact run_ops_reach. Qed.
Print Assumptions C20_pubsub_histories_are_runs.

(* non-vacuity: messages are delivered and channels do get closed in reachable states; and the crash flag is not
   decorative: from a (non-reachable) state whose table holds a closed channel the same code does crash *)
Example C20_pubsub_example :
  let l := [OAddTopic 0 0; OSubscribe 0; OListen 0 true; OSend 0 7; OClose 0] in
  map sn_chans (run_ops ps_init l) = [[]; [(false, [])]; [(false, [])]; [(false, [7%nat])]; [(true, [7%nat])]] /\
  let bad := mkSt (mkD [] [(0, 1, 0)]%nat 1 1 [0%nat] [] [] [] []) (fun _ => rw0) [PT_pub_loop 0 0 7 [0%nat]] None in
  option_map (fun s => err s) (ps_tstep bad 0) = Some (Some (SendOnClosed 0)).
Proof. vm_compute. auto. Qed.

(* ---------------------------------------------------------------- 5. filter system (rpc/.../filters/filter_system.go) *)

(* the code as repaired by a0f182a (consumeEvents keeps the read lock across the send): for EVERY interleaving of
   eventLoop, consumeEvents, any number of subscribers, Unsubscribe goroutines (at most one per subscription) and bus
   unsubscribe closures, events arriving at any time, timers firing or not: no step crashes *)
Theorem C20_filtersys_safe : forall s s', fs_reach true s -> fs_step true s s' -> err s' = None.
Proof. exact fs_no_crash. Qed.
Print Assumptions C20_filtersys_safe.

Theorem C20_filtersys_send_target_open : forall s i ev ch,
  fs_reach true s -> nth_error (thr s) i = Some (CE_send_h ev ch) -> ~ In ch (f_closed (dat s)).
Proof. exact fs_send_target_open. Qed.
Print Assumptions C20_filtersys_send_target_open.

Theorem C20_filtersys_close_target_open : forall s i f ev ch,
  fs_reach true s -> nth_error (thr s) i = Some (EL_u_close f ev ch) -> ~ In ch (f_closed (dat s)).
Proof. exact fs_close_target_open. Qed.
Print Assumptions C20_filtersys_close_target_open.

(* lock order indexMux -> bus locks: no cycle *)
Theorem C20_filtersys_no_lock_cycle : forall s, fs_reach true s -> forall i, ~ clos_trans nat (fs_waits_for true s) i i.
Proof. exact fs_no_wait_cycle. Qed.
Print Assumptions C20_filtersys_no_lock_cycle.

Theorem C20_filtersys_holder_progress : forall s j q m md,
  fs_reach true s -> nth_error (thr s) j = Some q -> fholds q m = Some md ->
  (exists s', fs_tstep true s j = Some s') \/ (exists k, fs_waits_for true s j k).
Proof. exact fs_holder_progress. Qed.
Print Assumptions C20_filtersys_holder_progress.

(* the code before the fix (RUnlock, then send): a reachable state in which consumeEvents has sent on a channel that
   eventLoop closed -- the witness interleaving that was replayed on the real code (panic: send on closed channel) *)
Definition C20_filtersys_safe_before_fix : Prop := forall s, fs_reach false s -> err s = None.
Theorem C20_filtersys_send_on_closed_refuted : ~ C20_filtersys_safe_before_fix.
Proof.
  intros H. destruct fs_window_crashes as (s & Hr & He). specialize (H s Hr). congruence.
Qed.
Print Assumptions C20_filtersys_send_on_closed_refuted.

(* the same schedule on the repaired code: eventLoop cannot take the write lock while the send is pending *)
Example C20_filtersys_replay : replay_model = (false, false).
Proof. vm_compute. reflexivity. Qed.

Theorem C20_filtersys_histories_are_runs : forall s o, fs_reach true s -> fs_reach true (fapply true s o).
Proof. exact fapply_reach. Qed.
Print Assumptions C20_filtersys_histories_are_runs.

(* ---------------------------------------------------------------- 6. filter API (rpc/.../filters/api.go) *)

(* the code of /repo (UninstallFilter looks the filter up and deletes it under ONE acquisition of filtersMu): for EVERY
   interleaving of any number of eth_newFilter / eth_newBlockFilter / eth_newPendingTransactionFilter /
   eth_getFilterChanges / eth_getFilterLogs / eth_uninstallFilter calls (split at every Lock / Unlock of filtersMu and
   at every call into the EventSystem), timeoutLoop, the Unsubscribe goroutines, eventLoop's uninstall work, the
   filters' consumer goroutines, timers firing, ticks and events at any time, for every filter cap: no step crashes --
   no err channel closed twice, no wait on a drained timer under filtersMu, no Unlock of a mutex not held *)
Theorem C20_filterapi_safe : forall cap s s', fa_reach false cap s -> fa_step false s s' -> err s' = None.
Proof. exact fa_no_crash. Qed.
Print Assumptions C20_filterapi_safe.

(* no subscription is unsubscribed twice, and an installed filter's subscription has not been unsubscribed: this is the
   assumption written into the guards of Model/FilterSys.v (section 5), discharged for the API layer *)
Theorem C20_filterapi_unsubscribed_at_most_once : forall cap s f,
  fa_reach false cap s -> (unsubscribes f s + cnt f (a_filters (dat s)) <= 1)%nat.
Proof. exact fa_unsubscribed_at_most_once. Qed.
Print Assumptions C20_filterapi_unsubscribed_at_most_once.

Theorem C20_filterapi_close_err_target_open : forall cap s i f,
  fa_reach false cap s -> nth_error (thr s) i = Some (AEL_cerr f) -> ~ In f (a_errclosed (dat s)).
Proof. exact fa_close_err_target_open. Qed.
Print Assumptions C20_filterapi_close_err_target_open.

(* GetFilterChanges' `if !f.deadline.Stop() { <-f.deadline.C }` under filtersMu cannot block: timeoutLoop drains a timer
   and deletes the filter in the same critical section *)
Theorem C20_filterapi_installed_timer_not_drained : forall cap s f,
  fa_reach false cap s -> In f (a_filters (dat s)) -> aget (a_timer (dat s)) f <> 2%nat.
Proof. exact fa_installed_timer_not_drained. Qed.
Print Assumptions C20_filterapi_installed_timer_not_drained.

(* lock order filtersMu -> EventSystem locks: no cycle; and nothing blocks inside a critical section *)
Theorem C20_filterapi_no_lock_cycle : forall cap s, fa_reach false cap s -> forall i, ~ clos_trans nat (fa_waits_for false s) i i.
Proof. exact fa_no_wait_cycle. Qed.
Print Assumptions C20_filterapi_no_lock_cycle.

Theorem C20_filterapi_holder_progress : forall cap s j q m md,
  fa_reach false cap s -> nth_error (thr s) j = Some q -> aholds q m = Some md ->
  (exists s', fa_tstep false s j = Some s') \/ (exists k, fa_waits_for false s j k).
Proof. exact fa_holder_progress. Qed.
Print Assumptions C20_filterapi_holder_progress.

(* the check-then-act variant (look-up under the lock, Unsubscribe, delete under a second acquisition): two overlapping
   eth_uninstallFilter calls for one filter reach eventLoop twice -- close of closed channel *)
Definition C20_filterapi_safe_check_then_act : Prop := forall s, fa_reach true 100 s -> err s = None.
Theorem C20_filterapi_check_then_act_refuted : ~ C20_filterapi_safe_check_then_act.
Proof.
  intros H. destruct fa_variant_crashes as (s & Hr & He). specialize (H s Hr). congruence.
Qed.
Print Assumptions C20_filterapi_check_then_act_refuted.

Theorem C20_filterapi_histories_are_runs : forall cap s ids o,
  fa_reach false cap s -> fa_reach false cap (fst (fst (aapply false s ids o))).
Proof. exact aapply_reach. Qed.
Print Assumptions C20_filterapi_histories_are_runs.

(* non-vacuity: filters are created, polled, uninstalled and expired in reachable states (uninstalling the filter whose
   subscription installed the topic takes the other filters of the type along, as the code does), subscriptions do get
   unsubscribed exactly once, and the same two overlapping calls that kill the variant are harmless here *)
Example C20_filterapi_example :
  map (fun x => (as_res x, as_filters x))
      (arun false (fa_init 100) [] [ANew 1; ANew 1; AEvent 1 true; AChanges 1; AUninstall 0; AChanges 1; ANew 2; AExpire 2; AUninstall 2])
  = [(1, [0]); (2, [1; 0]); (0, [1; 0]); (2, [1; 0]); (1, []); (0, []); (3, [2]); (1, []); (0, [])]%nat /\
  (let s := fa_quiesce false (aspawn (aspawn (fa_quiesce false (aspawn (fa_init 100) (NF_lock 1))) (UF_lock 0)) (UF_lock 0)) in
   (err s, a_errclosed (dat s), unsubscribes 0 s) = (None, [0%nat], 1%nat)).
Proof. vm_compute. auto. Qed.

(* ---------------------------------------------------------------- 7. the trace queries' watchdog goroutine *)

(* x/evm/keeper/grpc_query.go traceTx: whatever `timeout` and `tracer` the request carries, the goroutine that calls
   tracer.Stop after the deadline never sees a nil tracer (the tracer is built, and a failing tracers.New has returned,
   before the goroutine is started) -- a panic there would be outside every recover boundary of section 1 *)
Theorem C20_trace_watchdog_never_crashes : forall c, watchdog_crashes false c = false.
Proof. exact watchdog_never_crashes. Qed.
Print Assumptions C20_trace_watchdog_never_crashes.

Theorem C20_trace_setup_error_means_no_goroutine : forall c code,
  ts_err (trace_tx_setup false c) = Some code -> ts_goroutine (trace_tx_setup false c) = false.
Proof. exact setup_error_means_no_goroutine. Qed.
Print Assumptions C20_trace_setup_error_means_no_goroutine.

(* the order is what the statement rests on: with the goroutine started before the tracer is built, an elapsed timeout
   together with a tracer that does not build kills the process (and only elapsed timeouts can) *)
Theorem C20_trace_watchdog_order_matters :
  watchdog_crashes true (mkTraceCfg false ToElapsed TrInvalid) = true /\
  (forall c, watchdog_crashes true c = true -> tc_timeout c = ToElapsed).
Proof. split; [exact watchdog_reordered_crashes|exact watchdog_reordered_needs_elapsed]. Qed.
Print Assumptions C20_trace_watchdog_order_matters.
