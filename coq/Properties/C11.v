(* C11 — Staking precompile acts only for its caller and mirrors native staking.
   Statements only; model in Model/StakingCpc.v, proofs in Proofs/StakingCpcProofs.v.  Every theorem is inside the
   Section over the native modules: for ANY native message servers, queries, hash and recover functions. *)
From Coq Require Import List ZArith Bool Permutation.
From Evm Require Import StakingCpc StakingCpcProofs.
Import ListNotations.
Open Scope Z_scope.

(* who `caller` is, for every chain of frames and whatever opcode finally reaches the precompile: the callee of the last
   CALL/STATICCALL frame on the path, or the transaction sender; DELEGATECALL/CALLCODE frames never change it (so a
   DELEGATECALL to the precompile acts for the contract executing it, not for that contract's own caller). *)
Theorem C11_caller_is_context_address : forall path sender,
  precompile_caller sender path = match last_switch path with Some a => a | None => sender end.
Proof. exact caller_last_switch. Qed.
Print Assumptions C11_caller_is_context_address.

Theorem C11_caller_delegatecall_transparent : forall sender path code_at,
  precompile_caller sender (path ++ [HDelegate code_at]) = precompile_caller sender path /\
  precompile_caller sender (path ++ [HCallCode code_at]) = precompile_caller sender path.
Proof. exact caller_delegate_transparent. Qed.
Print Assumptions C11_caller_delegatecall_transparent.

Section Native.
  Variable nstate : Type.
  Variable native_step : nstate -> nmsg -> option (nstate * list nevent).
  (* rewards as the distribution queriers report them: per validator a coin list (every denomination of the pool) *)
  Variable q_rewards : nstate -> Z -> list (Z * coins) * bool.
  Variable q_balance : nstate -> Z -> Z.
  Variable q_delegated_bonded : nstate -> Z -> list vinfo.
  Variable q_bonded : nstate -> list vinfo.
  Variable chain_id : Z.
  Variable typed_hash : Z -> typed -> Z.
  Variable recover : Z -> Z -> option Z.
  (* the native queries behind the view methods *)
  Variable q_delegation_tokens : nstate -> Z -> Z -> qres.
  Variable q_bonded_total : nstate -> Z -> qres.
  Variable q_reward : nstate -> Z -> Z -> qresc.
  Variable q_rewards_total : nstate -> Z -> qresc.

  Notation step := (cpc_step nstate native_step q_rewards q_balance q_delegated_bonded q_bonded chain_id typed_hash recover).
  Notation native := (run_native nstate native_step).
  Notation submission := (native_prog nstate native_step q_rewards q_balance q_delegated_bonded q_bonded chain_id typed_hash recover).
  Notation ALL f := (f nstate native_step q_rewards q_balance q_delegated_bonded q_bonded chain_id typed_hash recover
                       q_delegation_tokens q_bonded_total q_reward q_rewards_total) (only parsing).
  Notation history_A := (ALL run_A).
  Notation history_B := (ALL run_B).
  Notation issued := (ALL issued_A).
  Notation stepA := (ALL step_A).
  Notation stepB := (ALL step_B).
  Notation txA := (ALL tx_A).
  Notation txB := (ALL tx_B).
  Notation vstep := (view_step nstate q_balance q_delegation_tokens q_bonded_total q_reward q_rewards_total).
  Notation vnative := (native_view nstate q_balance q_delegation_tokens q_bonded_total q_reward q_rewards_total).

  (* every native message a successful call issues — any method, any arguments, any signature — has delegator = caller *)
  Theorem C11_acts_for_caller : forall s caller c s' logs ret ms,
    step s caller c = Some (s', logs, ret, ms) -> Forall (fun m => msg_delegator m = caller) ms.
  Proof. exact (acts_for_caller nstate native_step q_rewards q_balance q_delegated_bonded q_bonded chain_id typed_hash recover). Qed.

  (* ... along every history: whatever sequence of precompile calls (any senders, any call paths, any methods, arguments
     and signatures), transactions with several precompile calls and views, native messages and other state changes chain
     A goes through, every message the precompile hands
     to the native message servers names the immediate caller of that very call as delegator *)
  Theorem C11_history_acts_for_caller : forall ops s,
    Forall (fun p => msg_delegator (snd p) = fst p) (issued s ops).
  Proof. exact (issued_A_own nstate native_step q_rewards q_balance q_delegated_bonded q_bonded chain_id typed_hash recover q_delegation_tokens q_bonded_total q_reward q_rewards_total). Qed.

  (* THE CALL IS THE NATIVE SUBMISSION.  [submission s d c] is written down independently of the precompile (Model:
     guard / first_msgs / second_msgs / native_prog): what account d would submit natively in one transaction.  The
     precompile call by d succeeds exactly when that submission succeeds and announces at least one staking /
     distribution event, ends in the same state, issues the same messages, and its logs are the image of the
     submission's events. Both directions, every method. *)
  Theorem C11_call_is_native_submission : forall s caller c,
    step s caller c =
    match submission s caller c with
    | None => None
    | Some (s', evs, ms) =>
        if existsb counted evs then Some (s', flat_map (logs_of_event caller) evs, true, ms) else None
    end.
  Proof.
    intros s caller c.
    rewrite (cpc_step_is_native_prog nstate native_step q_rewards q_balance q_delegated_bonded q_bonded chain_id typed_hash recover).
    unfold of_prog, emit. destruct (submission s caller c) as [[[s' evs] ms]|]; [|reflexivity].
    destruct (existsb counted evs); reflexivity.
  Qed.

  (* the effect of a successful call is exactly the effect of its native messages run in order by the native message
     servers from the same state, all of them succeeding, and its logs are the image of exactly the events those
     messages produced, at least one of which is a staking/distribution event *)
  Theorem C11_equiv_native : forall s caller c s' logs ret ms,
    step s caller c = Some (s', logs, ret, ms) ->
    exists evs, native s ms = Some (s', evs) /\ logs = flat_map (logs_of_event caller) evs /\ existsb counted evs = true.
  Proof. exact (equiv_native nstate native_step q_rewards q_balance q_delegated_bonded q_bonded chain_id typed_hash recover). Qed.

  (* TWIN HISTORIES.  Given that the native message servers announce every message they execute with one of the four
     event types (checked on every twin-chain case), chain A (precompile calls) and chain B (the native submissions by
     the same accounts) are in the same state after ANY sequence of calls, native messages and common state changes,
     from any state: same delegations, entries, rewards and balances, whatever they are. *)
  Theorem C11_twin_histories_agree :
    (forall s m s' evs, native_step s m = Some (s', evs) -> existsb counted evs = true) ->
    forall ops s, history_A s ops = history_B s ops.
  Proof. exact (twin_histories_agree nstate native_step q_rewards q_balance q_delegated_bonded q_bonded chain_id typed_hash recover q_delegation_tokens q_bonded_total q_reward q_rewards_total). Qed.

  (* ... and the receipts' Delegate / Undelegate / WithdrawReward logs along chain A's history are, step by step and in
     order, the image (C11_logs_match_events) of the module events of chain B's native submissions: nothing more, nothing
     less, for calls that fail as well (no logs, no events) *)
  Theorem C11_twin_logs_match_events :
    (forall s m s' evs, native_step s m = Some (s', evs) -> existsb counted evs = true) ->
    forall ops s,
    trace nstate (ALL logs_A) stepA s ops = trace nstate (ALL logs_B) stepB s ops.
  Proof. exact (twin_logs_agree nstate native_step q_rewards q_balance q_delegated_bonded q_bonded chain_id typed_hash recover q_delegation_tokens q_bonded_total q_reward q_rewards_total). Qed.

  (* THIRD PARTIES.  For any per-account observation that the native message servers change for nobody but the
     message's own delegator (balance, delegations, unbonding and redelegation entries: checked by the driver), a
     precompile call changes it for nobody but the immediate caller — per call, at every position of a history, and for a
     whole transaction of several calls and views. *)
  Theorem C11_third_parties_untouched : forall (obs : Type) (acct : nstate -> Z -> obs),
    (forall s m s' evs x, native_step s m = Some (s', evs) -> x <> msg_delegator m -> acct s' x = acct s x) ->
    (forall s caller c s' logs ret ms x, step s caller c = Some (s', logs, ret, ms) -> x <> caller -> acct s' x = acct s x) /\
    (forall s sender path c x, x <> precompile_caller sender path -> acct (stepA s (OCall nstate sender path c)) x = acct s x) /\
    (forall s sender path items x, x <> precompile_caller sender path -> acct (stepA s (OTx nstate sender path items)) x = acct s x).
  Proof.
    intros obs acct H. split; [|split].
    - exact (third_parties_untouched nstate native_step q_rewards q_balance q_delegated_bonded q_bonded chain_id typed_hash recover obs acct H).
    - exact (history_third_parties_untouched nstate native_step q_rewards q_balance q_delegated_bonded q_bonded chain_id typed_hash recover q_delegation_tokens q_bonded_total q_reward q_rewards_total obs acct H).
    - intros s sender path items x Hx.
      exact (tx_third_parties_untouched nstate native_step q_rewards q_balance q_delegated_bonded q_bonded chain_id typed_hash recover q_delegation_tokens q_bonded_total q_reward q_rewards_total obs acct H items s (precompile_caller sender path) x Hx).
  Qed.

  (* delegate / undelegate / redelegate / withdrawReward are the one native message with delegator := caller, no more
     and no less: same success, same state, logs from its events *)
  Theorem C11_direct_calls_are_native : forall s caller v a src dst,
    0 < a ->
    step s caller (CDelegate v a) = map_result nstate caller (MsgDelegate caller v a) (native_step s (MsgDelegate caller v a)) /\
    step s caller (CUndelegate v a) = map_result nstate caller (MsgUndelegate caller v a) (native_step s (MsgUndelegate caller v a)) /\
    step s caller (CRedelegate src dst a) =
      map_result nstate caller (MsgBeginRedelegate caller src dst a) (native_step s (MsgBeginRedelegate caller src dst a)) /\
    step s caller (CWithdrawReward v) =
      map_result nstate caller (MsgWithdrawDelegatorReward caller v) (native_step s (MsgWithdrawDelegatorReward caller v)).
  Proof. exact (direct_calls_are_native nstate native_step q_rewards q_balance q_delegated_bonded q_bonded chain_id typed_hash recover). Qed.

  Theorem C11_nonpositive_amount_rejected : forall s caller v src dst a, a <= 0 ->
    step s caller (CDelegate v a) = None /\ step s caller (CUndelegate v a) = None /\
    step s caller (CRedelegate src dst a) = None /\ step s caller (CTransfer caller a) = None.
  Proof. exact (nonpositive_amount_rejected nstate native_step q_rewards q_balance q_delegated_bonded q_bonded chain_id typed_hash recover). Qed.

  (* signed variants: the message's delegator equals the caller AND the signer recovered for this chain id *)
  Theorem C11_signed_needs_both : forall s caller m sig r,
    step s caller (CDelegateByMessage m sig) = Some r ->
    sm_delegator m = caller /\ recover (typed_hash chain_id (TStaking m)) sig = Some (sm_delegator m) /\
    sm_valid m = true.
  Proof. exact (signed_needs_both nstate native_step q_rewards q_balance q_delegated_bonded q_bonded chain_id typed_hash recover). Qed.

  Theorem C11_signed_withdraw_needs_both : forall s caller m sig r,
    step s caller (CWithdrawRewardsByMessage m sig) = Some r ->
    wm_delegator m = caller /\ recover (typed_hash chain_id (TWithdraw m)) sig = Some (wm_delegator m) /\
    wm_valid m = true.
  Proof. exact (signed_withdraw_needs_both nstate native_step q_rewards q_balance q_delegated_bonded q_bonded chain_id typed_hash recover). Qed.

  Theorem C11_transfer_only_to_self : forall s caller to a r,
    step s caller (CTransfer to a) = Some r -> to = caller /\ 0 < a.
  Proof. exact (transfer_only_to_self nstate native_step q_rewards q_balance q_delegated_bonded q_bonded chain_id typed_hash recover). Qed.

  (* withdrawRewards(): only validators whose truncated reward IN THE BOND DENOM reaches the minimum are withdrawn from,
     whatever they owe in other denominations *)
  Theorem C11_withdraw_all_shape : forall s d m, In m (withdraw_all_msgs nstate q_rewards s d) ->
    exists v c, m = MsgWithdrawDelegatorReward d v /\ In (v, c) (fst (q_rewards s d)) /\ MIN_WITHDRAW <= amount_of BOND c /\
                snd (q_rewards s d) = false.
  Proof. exact (withdraw_all_msgs_shape nstate q_rewards). Qed.

  (* logs <-> events: every log stems from exactly one new module event whose amount attribute — a coin list: a
     withdraw_rewards event carries every denomination the rewards pool paid out — holds a positive amount of the bond
     denom, and repeats its delegator, validator and that amount (a redelegate event, which has no delegator attribute,
     yields Undelegate(src) + Delegate(dst) for the caller); the number of logs is one per such delegate/unbond/withdraw
     event, two per redelegate event *)
  Theorem C11_logs_match_events : forall d e l, In l (logs_of_event d e) ->
    match e, l with
    | EvDelegate v del c, LDelegate del' v' a' => del' = del /\ v' = v /\ a' = amount_of BOND c /\ 0 < a'
    | EvUnbond v del c, LUndelegate del' v' a' => del' = del /\ v' = v /\ a' = amount_of BOND c /\ 0 < a'
    | EvWithdrawRewards v del c, LWithdrawReward del' v' a' => del' = del /\ v' = v /\ a' = amount_of BOND c /\ 0 < a'
    | EvRedelegate s t c, LUndelegate del' v' a' => del' = d /\ v' = s /\ a' = amount_of BOND c /\ 0 < a'
    | EvRedelegate s t c, LDelegate del' v' a' => del' = d /\ v' = t /\ a' = amount_of BOND c /\ 0 < a'
    | _, _ => False
    end.
  Proof. exact logs_of_event_delegators. Qed.

  (* OTHER DENOMINATIONS NEVER MATTER.  Whatever else the module events carry beside the bond denom's amount (rewards pools
     that anybody topped up with other coins): the call succeeds or fails alike, ends in the same state, leaves the same
     logs and hands the same messages to the message servers.  [native'] is any native side that does the same as
     [native_step] and whose events agree with its events on type, validator, delegator and bond-denom amount. *)
  Theorem C11_other_denominations_never_matter : forall native',
    same_upto_other_denoms nstate native_step native' ->
    forall s caller c,
    step s caller c = cpc_step nstate native' q_rewards q_balance q_delegated_bonded q_bonded chain_id typed_hash recover s caller c.
  Proof.
    intros native' H.
    exact (cpc_step_ignores_other_denoms nstate native_step native' q_rewards q_balance q_delegated_bonded q_bonded chain_id typed_hash recover H).
  Qed.

  Theorem C11_event_logs_ignore_other_denominations : forall d evs evs',
    Forall2 ev_same_bond evs evs' -> emit d evs = emit d evs'.
  Proof. exact emit_same_bond. Qed.

  Theorem C11_log_count : forall d evs,
    length (flat_map (logs_of_event d) evs) = fold_right (fun e n => (log_count e + n)%nat) 0%nat evs.
  Proof.
    intros d evs. rewrite flat_map_length_sum. induction evs as [|e r IH]; cbn; [reflexivity|].
    now rewrite logs_of_event_length, IH.
  Qed.

  (* given that the native modules emit staking/distribution events only about the message's own delegator (checked on
     every twin-chain case), every log of a successful call names the caller as delegator *)
  Theorem C11_logs_for_caller :
    (forall s m s' evs, native_step s m = Some (s', evs) -> Forall (ev_for (msg_delegator m)) evs) ->
    forall s caller c s' logs ret ms,
    step s caller c = Some (s', logs, ret, ms) -> Forall (fun l => log_delegator l = caller) logs.
  Proof. exact (logs_for_caller nstate native_step q_rewards q_balance q_delegated_bonded q_bonded chain_id typed_hash recover). Qed.

  (* views are the native queries: a view reports the native query's number — of the distribution queriers' coin lists
     the bond denom's amount; where the native side says "no delegation" delegationOf / rewardOf report 0; where the
     native query fails the view fails; balanceOf is bank balance plus pending bond-denom rewards. ([vnative] is written
     down in the model independently of [vstep]; that the real view methods return the native queries' numbers is decided
     on every twin-chain step by the driver, against the gRPC queriers.) *)
  Theorem C11_views_eq_native_queries : forall s w, vstep s w = vnative s w.
  Proof. exact (view_step_is_native_view nstate q_balance q_delegation_tokens q_bonded_total q_reward q_rewards_total). Qed.

  Theorem C11_views_spelled_out : forall s a v z c,
    (q_delegation_tokens s a v = QOk z -> vstep s (VDelegationOf a v) = Some z) /\
    (q_bonded_total s a = QOk z -> vstep s (VTotalDelegationOf a) = Some z) /\
    (q_reward s a v = QcOk c -> vstep s (VRewardOf a v) = Some (amount_of BOND c)) /\
    (q_rewards_total s a = QcOk c -> vstep s (VRewardsOf a) = Some (amount_of BOND c) /\
                                      vstep s (VBalanceOf a) = Some (q_balance s a + amount_of BOND c)) /\
    (q_delegation_tokens s a v = QNoDelegation -> vstep s (VDelegationOf a v) = Some 0) /\
    (q_reward s a v = QcNoDelegation -> vstep s (VRewardOf a v) = Some 0) /\
    (q_reward s a v = QcErr -> vstep s (VRewardOf a v) = None) /\
    (q_rewards_total s a <> QcOk c -> vstep s (VRewardsOf a) <> Some (amount_of BOND c) \/ exists c', q_rewards_total s a = QcOk c').
  Proof.
    intros s a v z c. cbn [view_step bond_of].
    split; [intros ->; reflexivity|]. split; [intros ->; reflexivity|]. split; [intros ->; reflexivity|].
    split; [intros ->; split; reflexivity|]. split; [intros ->; reflexivity|]. split; [intros ->; reflexivity|].
    split; [intros ->; reflexivity|].
    intros Hne. destruct (q_rewards_total s a) as [c'| |]; [right; eauto | left; cbn; discriminate | left; cbn; discriminate].
  Qed.

  (* VIEWS INSIDE A TRANSACTION.  A contract makes any list of precompile calls in one transaction, state-changing calls
     and views in any order, not reverting when one fails.  Given that the native message servers announce every message
     they execute, everything the transaction shows — per state-changing call its success and logs, per view the number it
     returned — and the state it ends in are what chain B shows when it runs the native submissions of the calls one by
     one and asks the native queries between them. *)
  Theorem C11_tx_twin :
    (forall s m s' evs, native_step s m = Some (s', evs) -> existsb counted evs = true) ->
    forall items s caller, fst (txA s caller items) = txB s caller items.
  Proof. exact (tx_A_eq_tx_B nstate native_step q_rewards q_balance q_delegated_bonded q_bonded chain_id typed_hash recover q_delegation_tokens q_bonded_total q_reward q_rewards_total). Qed.

  (* ... in particular, the view at ANY position of ANY such transaction reports the native query evaluated on the state
     reached by the native submissions of the calls before it: nothing the precompile remembers from an earlier call of
     the transaction can show in it *)
  Theorem C11_tx_view_at_every_point :
    (forall s m s' evs, native_step s m = Some (s', evs) -> existsb counted evs = true) ->
    forall pre w post s caller,
    nth_error (ALL tx_obs_A s caller (pre ++ IView w :: post)) (length pre) =
    Some (TView (vnative (fst (txB s caller pre)) w)).
  Proof. exact (tx_view_at_point nstate native_step q_rewards q_balance q_delegated_bonded q_bonded chain_id typed_hash recover q_delegation_tokens q_bonded_total q_reward q_rewards_total). Qed.

  (* a view call changes nothing, wherever it stands *)
  Theorem C11_view_calls_are_pure : forall s caller w,
    ALL item_A s caller (IView w) = (s, TView (vstep s w), []).
  Proof. reflexivity. Qed.

  (* every message issued in the course of a transaction names the contract that makes the calls *)
  Theorem C11_tx_acts_for_caller : forall items s caller,
    Forall (fun m => msg_delegator m = caller) (ALL tx_msgs_A s caller items).
  Proof. exact (tx_msgs_own nstate native_step q_rewards q_balance q_delegated_bonded q_bonded chain_id typed_hash recover q_delegation_tokens q_bonded_total q_reward q_rewards_total). Qed.
End Native.
Print Assumptions C11_acts_for_caller.
Print Assumptions C11_history_acts_for_caller.
Print Assumptions C11_call_is_native_submission.
Print Assumptions C11_equiv_native.
Print Assumptions C11_twin_histories_agree.
Print Assumptions C11_twin_logs_match_events.
Print Assumptions C11_third_parties_untouched.
Print Assumptions C11_direct_calls_are_native.
Print Assumptions C11_nonpositive_amount_rejected.
Print Assumptions C11_signed_needs_both.
Print Assumptions C11_signed_withdraw_needs_both.
Print Assumptions C11_transfer_only_to_self.
Print Assumptions C11_withdraw_all_shape.
Print Assumptions C11_logs_match_events.
Print Assumptions C11_log_count.
Print Assumptions C11_logs_for_caller.
Print Assumptions C11_views_eq_native_queries.
Print Assumptions C11_views_spelled_out.
Print Assumptions C11_other_denominations_never_matter.
Print Assumptions C11_event_logs_ignore_other_denominations.
Print Assumptions C11_tx_twin.
Print Assumptions C11_tx_view_at_every_point.
Print Assumptions C11_view_calls_are_pure.
Print Assumptions C11_tx_acts_for_caller.

(* transfer(): the validator choice does not depend on the order in which the stores return delegations / validators
   (operators are pairwise distinct): deterministic across nodes (relevant to C01) *)
Theorem C11_pick_validator_perm_invariant : forall d d' b b',
  Permutation d d' -> Permutation b b' -> NoDup (map v_opkey d) -> NoDup (map v_opkey b) ->
  pick_validator d b = pick_validator d' b'.
Proof. exact pick_validator_perm. Qed.
Print Assumptions C11_pick_validator_perm_invariant.

Theorem C11_pick_validator_is_candidate : forall d b v, pick_validator d b = Some v ->
  exists w, v_addr w = v /\ (In w d \/ (d = [] /\ In w b)).
Proof. exact pick_validator_in. Qed.
Print Assumptions C11_pick_validator_is_candidate.

(* non-vacuity: a toy native module (state = list of (delegator, validator, amount) delegations) under which calls succeed,
   a forged signed message fails, and the validator choice follows the three documented cases.  Its withdraw_rewards
   events carry three denominations, the bond denom (0) in the middle: the log repeats the bond denom's 7. *)
Definition toy_step (s : list (Z * Z * Z)) (m : nmsg) : option (list (Z * Z * Z) * list nevent) :=
  match m with
  | MsgDelegate d v a => Some ((d, v, a) :: s, [EvOther; EvDelegate v d [(BOND, a)]])
  | MsgWithdrawDelegatorReward d v => Some (s, [EvWithdrawRewards v d [(1, 5); (BOND, 7); (2, 9)]])
  | MsgBeginRedelegate d a b x => Some (s, [EvRedelegate a b [(BOND, x)]])
  | MsgUndelegate _ _ _ => None
  end.
Definition toy_rewards : list (Z * coins) := [(5, [(1, 3); (BOND, 10 ^ 15)]); (6, [(BOND, 3); (2, 10 ^ 18)])].
Definition toy := cpc_step (list (Z * Z * Z)) toy_step (fun _ _ => (toy_rewards, false))
  (fun _ _ => 100) (fun _ _ => []) (fun _ => [VInfo 5 30 1; VInfo 6 10 2; VInfo 7 20 0]) 9 (fun c _ => c) (fun h sg => if sg =? 1 then Some 42 else None).
Example C11_examples :
  toy [] 42 (CDelegate 5 3) = Some ([(42, 5, 3)], [LDelegate 42 5 3], true, [MsgDelegate 42 5 3]) /\
  toy [] 42 (CUndelegate 5 3) = None /\
  toy [] 42 (CRedelegate 5 6 4) = Some ([], [LUndelegate 42 5 4; LDelegate 42 6 4], true, [MsgBeginRedelegate 42 5 6 4]) /\
  (* validator 6 owes 10^18 of denomination 2 but only 3 of the bond denom: skipped *)
  toy [] 42 CWithdrawRewards = Some ([], [LWithdrawReward 42 5 7], true, [MsgWithdrawDelegatorReward 42 5]) /\
  toy [] 42 (CDelegateByMessage (StakingMessage ADelegate 42 (Some 5) 3 true OldDash) 1) <> None /\
  toy [] 43 (CDelegateByMessage (StakingMessage ADelegate 42 (Some 5) 3 true OldDash) 1) = None /\
  toy [] 42 (CDelegateByMessage (StakingMessage ADelegate 42 (Some 5) 3 true OldDash) 2) = None /\
  toy [] 42 (CTransfer 42 50) = Some ([(42, 7, 50)], [LWithdrawReward 42 5 7; LDelegate 42 7 50], true,
                                      [MsgWithdrawDelegatorReward 42 5; MsgDelegate 42 7 50]) /\
  toy [] 42 (CTransfer 41 50) = None /\ toy [] 42 (CTransfer 42 101) = None /\
  pick_validator [VInfo 1 9 0; VInfo 2 3 5; VInfo 3 3 4] [] = Some 3 /\
  precompile_caller 1 [HCall 2; HDelegate 3; HCall 4; HCallCode 5; HDelegate 6] = 4 /\
  (* a withdrawal that pays out other denominations only is an event without a log; an event list without any staking /
     distribution event is the "no event" error *)
  emit 42 [EvWithdrawRewards 5 42 [(1, 5); (2, 9)]] = Some [] /\ emit 42 [EvOther] = None /\
  amount_of BOND [(1, 5); (BOND, 7); (2, 9)] = 7 /\ amount_of BOND [(1, 5)] = 0.
Proof. vm_compute. repeat split; congruence. Qed.

(* the hypotheses of the conditional theorems are satisfiable: the toy module announces every message it executes,
   its events and its per-account observation (the delegations of an account) concern the message's delegator only *)
Example C11_toy_meets_hypotheses :
  (forall s m s' evs, toy_step s m = Some (s', evs) -> existsb counted evs = true) /\
  (forall s m s' evs, toy_step s m = Some (s', evs) -> Forall (ev_for (msg_delegator m)) evs) /\
  (forall s m s' evs x, toy_step s m = Some (s', evs) -> x <> msg_delegator m ->
     filter (fun e => fst (fst e) =? x) s' = filter (fun e => fst (fst e) =? x) s).
Proof.
  split; [|split].
  - intros s m s' evs H. destruct m; cbn in H; inversion H; reflexivity.
  - intros s m s' evs H. destruct m; cbn in H; inversion H; subst; repeat constructor.
  - intros s m s' evs x H Hx. destruct m; cbn in H; inversion H; subst; try reflexivity.
    cbn [filter fst msg_delegator] in *. destruct (del =? x) eqn:E; [apply Z.eqb_eq in E; congruence | reflexivity].
Qed.

(* the same toy module on a chain where nobody topped up a rewards pool: withdrawals pay out the bond denom only.  It meets
   the hypothesis of C11_other_denominations_never_matter with the toy module above. *)
Definition toy_step_bond_only (s : list (Z * Z * Z)) (m : nmsg) : option (list (Z * Z * Z) * list nevent) :=
  match m with
  | MsgWithdrawDelegatorReward d v => Some (s, [EvWithdrawRewards v d [(BOND, 7)]])
  | _ => toy_step s m
  end.
Example C11_toy_same_upto_other_denoms : same_upto_other_denoms _ toy_step toy_step_bond_only.
Proof.
  intros s m. destruct m; cbn; repeat split; repeat constructor; cbn; auto using ev_same_bond_refl.
Qed.

(* toy views: what an account holds with a validator, and rewards (4 of denomination 1, and of the bond denom 7 per
   delegation of the account) that change with every delegation *)
Definition toy_del (s : list (Z * Z * Z)) (a v : Z) : Z :=
  fold_right (fun e n => if (fst (fst e) =? a) && (snd (fst e) =? v) then snd e + n else n) 0 s.
Definition toy_cnt (s : list (Z * Z * Z)) (a : Z) : Z :=
  fold_right (fun e n => if fst (fst e) =? a then 1 + n else n) 0 s.
Definition toy_q_del (s : list (Z * Z * Z)) (a v : Z) : qres := if toy_del s a v =? 0 then QNoDelegation else QOk (toy_del s a v).
Definition toy_q_reward (s : list (Z * Z * Z)) (a v : Z) : qresc :=
  if toy_del s a v =? 0 then QcNoDelegation else QcOk [(1, 4); (BOND, 7)].
Definition toy_q_total (s : list (Z * Z * Z)) (a : Z) : qresc := QcOk [(1, 4); (BOND, 7 * toy_cnt s a)].

Notation TOY f :=
  (f (list (Z * Z * Z)) toy_step (fun _ _ => (toy_rewards, false)) (fun _ _ => 100) (fun _ _ => [])
     (fun _ => [VInfo 5 30 1; VInfo 6 10 2; VInfo 7 20 0]) 9 (fun c _ => c) (fun h sg => if sg =? 1 then Some 42 else None)
     toy_q_del (fun s a => QOk (toy_cnt s a)) toy_q_reward toy_q_total) (only parsing).

(* ONE transaction of contract 77: view, delegate, the same view again (it has moved), a failing call (nothing moves),
   balanceOf, delegate again, views — every view shows the state at its point; chain B shows the same *)
Definition toy_items : list titem :=
  [ IView (VRewardsOf 77); IView (VRewardOf 77 5); ICall (CDelegate 5 3); IView (VRewardsOf 77); IView (VRewardOf 77 5);
    ICall (CUndelegate 5 1); IView (VBalanceOf 77); ICall (CDelegate 6 2); IView (VRewardsOf 77); IView (VDelegationOf 77 5);
    IView (VTotalDelegationOf 77); IView (VDelegationOf 78 5) ].
Example C11_toy_transaction :
  TOY tx_A [] 77 toy_items =
    ([(77, 6, 2); (77, 5, 3)],
     [ TView (Some 0); TView (Some 0); TCall true [LDelegate 77 5 3]; TView (Some 7); TView (Some 7);
       TCall false []; TView (Some 107); TCall true [LDelegate 77 6 2]; TView (Some 14); TView (Some 3);
       TView (Some 2); TView (Some 0) ],
     [MsgDelegate 77 5 3; MsgDelegate 77 6 2]) /\
  fst (TOY tx_A [] 77 toy_items) = TOY tx_B [] 77 toy_items.
Proof. vm_compute. split; reflexivity. Qed.

(* a twin history on the toy module: a contract reached by CALL delegates, a forged signed message fails, a native
   message interleaves, a multi-call transaction with views, transfer withdraws and delegates; both chains end in the same
   non-trivial state *)
Definition toy_ops : list (op (list (Z * Z * Z))) :=
  [ OCall _ 42 [HCall 77] (CDelegate 5 3);
    OCall _ 43 [] (CDelegateByMessage (StakingMessage ADelegate 42 (Some 5) 3 true OldDash) 1);
    ONative _ (MsgDelegate 9 6 4);
    OTx _ 42 [HCall 77] [IView (VRewardsOf 77); ICall (CDelegate 6 2); IView (VRewardsOf 77); ICall (CUndelegate 6 2)];
    OOther _ (fun s => (1, 1, 1) :: s);
    OCall _ 42 [HDelegate 77] (CTransfer 42 50) ].
Example C11_toy_twin_history :
  let A := TOY run_A [] toy_ops in
  let B := TOY run_B [] toy_ops in
  A = B /\ A = [(42, 7, 50); (1, 1, 1); (77, 6, 2); (9, 6, 4); (77, 5, 3)] /\
  TOY issued_A [] toy_ops = [(77, MsgDelegate 77 5 3); (77, MsgDelegate 77 6 2); (42, MsgWithdrawDelegatorReward 42 5); (42, MsgDelegate 42 7 50)].
Proof. vm_compute. repeat split; reflexivity. Qed.

(* the signed message's amount is a whole number under the signature: with a hash that depends on the amount (here: IS
   the amount) and a signature that is the delegator's for exactly one hash, the message signed for 5*10^18 is accepted,
   the same signature with amount + 2^64 (equal low 64 bits), with bit 64 or bit 255 set, or with amount + 1 is refused,
   and honest amounts at and above 2^63 / 2^64 / 2^128 are executed as they are *)
Definition toy_wide := cpc_step (list (Z * Z * Z)) toy_step (fun _ _ => (toy_rewards, false))
  (fun _ _ => 2 ^ 200) (fun _ _ => []) (fun _ => [VInfo 5 30 1; VInfo 6 10 2; VInfo 7 20 0]) 9
  (fun c t => match t with TStaking m => sm_amount m | TWithdraw _ => 0 end)
  (fun h sg => if sg =? h + 1000 then Some 42 else None).
Example C11_signature_covers_the_whole_amount :
  let a := 5 * 10 ^ 18 in
  let signed x sg := toy_wide [] 42 (CDelegateByMessage (StakingMessage ADelegate 42 (Some 5) x true OldDash) sg) in
  signed a (a + 1000) = Some ([(42, 5, a)], [LDelegate 42 5 a], true, [MsgDelegate 42 5 a]) /\
  signed (a + 2 ^ 64) (a + 1000) = None /\ signed (a + 3 * 2 ^ 64) (a + 1000) = None /\
  signed (a + 2 ^ 128) (a + 1000) = None /\ signed (a + 2 ^ 255) (a + 1000) = None /\ signed (a + 1) (a + 1000) = None /\
  (a + 2 ^ 64) mod 2 ^ 64 = a /\
  signed (2 ^ 63) (2 ^ 63 + 1000) = Some ([(42, 5, 2 ^ 63)], [LDelegate 42 5 (2 ^ 63)], true, [MsgDelegate 42 5 (2 ^ 63)]) /\
  signed (2 ^ 64 + 7) (2 ^ 64 + 1007) = Some ([(42, 5, 2 ^ 64 + 7)], [LDelegate 42 5 (2 ^ 64 + 7)], true, [MsgDelegate 42 5 (2 ^ 64 + 7)]) /\
  signed (2 ^ 128) (2 ^ 128 + 1000) <> None.
Proof. vm_compute. repeat split; congruence. Qed.

(* validator status lives inside the native module: a toy module (delegations, jailed validators) in which - as in x/staking
   - an operator's undelegation jails its validator and a delegation to a jailed validator is executed like any other.
   The precompile has no rule of its own: the operator's undelegate call jails validator 8, and delegate / the signed
   Delegate / transfer towards the jailed validator do what the native message does *)
Definition jstate := (list (Z * Z * Z) * list Z)%type.
Definition jtoy_step (s : jstate) (m : nmsg) : option (jstate * list nevent) :=
  match m with
  | MsgDelegate d v a => Some (((d, v, a) :: fst s, snd s), [EvDelegate v d [(BOND, a)]])
  | MsgUndelegate d v a => Some ((fst s, if d =? v then v :: snd s else snd s), [EvUnbond v d [(BOND, a)]])
  | _ => None
  end.
Definition jtoy := cpc_step jstate jtoy_step (fun _ _ => ([], true)) (fun _ _ => 100) (fun _ _ => [VInfo 8 30 1]) (fun _ => [VInfo 5 30 1])
  9 (fun c _ => c) (fun h sg => if sg =? 1 then Some 42 else None).
Example C11_jailed_validator_like_native :
  jtoy ([], []) 8 (CUndelegate 8 2) = Some (([], [8]), [LUndelegate 8 8 2], true, [MsgUndelegate 8 8 2]) /\
  jtoy ([], [8]) 42 (CDelegate 8 3) = Some (([(42, 8, 3)], [8]), [LDelegate 42 8 3], true, [MsgDelegate 42 8 3]) /\
  (match jtoy_step ([], [8]) (MsgDelegate 42 8 3) with Some (s, _) => Some s | None => None end) = Some ([(42, 8, 3)], [8]) /\
  jtoy ([], [8]) 42 (CDelegateByMessage (StakingMessage ADelegate 42 (Some 8) 3 true OldDash) 1) =
    Some (([(42, 8, 3)], [8]), [LDelegate 42 8 3], true, [MsgDelegate 42 8 3]) /\
  jtoy ([], [8]) 42 (CTransfer 42 50) = Some (([(42, 8, 50)], [8]), [LDelegate 42 8 50], true, [MsgDelegate 42 8 50]).
Proof. vm_compute. repeat split; reflexivity. Qed.
