(* C11 — Staking precompile acts only for its caller and mirrors native staking.
   Statements only; model in Model/StakingCpc.v, proofs in Proofs/StakingCpcProofs.v.  Every theorem is inside the
   Section over the native modules: for ANY native message servers, queries, hash and recover functions. *)
From Coq Require Import List ZArith Bool Permutation.
From Evm Require Import StakingCpc StakingCpcProofs.
Import ListNotations.
Open Scope Z_scope.

(* who `caller` is, for every chain of frames and whatever opcode finally reaches the precompile: the callee of the last
   CALL/STATICCALL frame on the path, or the transaction sender; DELEGATECALL/CALLCODE frames never change it (so a
   DELEGATECALL to the precompile acts for the contract executing it, not for that contract's own caller). *)
Theorem C11_caller_is_context_address : forall path sender,
  precompile_caller sender path = match last_switch path with Some a => a | None => sender end.
Proof. exact caller_last_switch. Qed.
Print Assumptions C11_caller_is_context_address.

Theorem C11_caller_delegatecall_transparent : forall sender path code_at,
  precompile_caller sender (path ++ [HDelegate code_at]) = precompile_caller sender path /\
  precompile_caller sender (path ++ [HCallCode code_at]) = precompile_caller sender path.
Proof. exact caller_delegate_transparent. Qed.
Print Assumptions C11_caller_delegatecall_transparent.

Section Native.
  Variable nstate : Type.
  Variable native_step : nstate -> nmsg -> option (nstate * list nevent).
  Variable q_rewards : nstate -> Z -> list (Z * Z) * bool.
  Variable q_balance : nstate -> Z -> Z.
  Variable q_delegated_bonded : nstate -> Z -> list vinfo.
  Variable q_bonded : nstate -> list vinfo.
  Variable chain_id : Z.
  Variable typed_hash : Z -> typed -> Z.
  Variable recover : Z -> Z -> option Z.

  Notation step := (cpc_step nstate native_step q_rewards q_balance q_delegated_bonded q_bonded chain_id typed_hash recover).
  Notation native := (run_native nstate native_step).
  Notation submission := (native_prog nstate native_step q_rewards q_balance q_delegated_bonded q_bonded chain_id typed_hash recover).
  Notation history_A := (run_A nstate native_step q_rewards q_balance q_delegated_bonded q_bonded chain_id typed_hash recover).
  Notation history_B := (run_B nstate native_step q_rewards q_balance q_delegated_bonded q_bonded chain_id typed_hash recover).
  Notation issued := (issued_A nstate native_step q_rewards q_balance q_delegated_bonded q_bonded chain_id typed_hash recover).
  Notation stepA := (step_A nstate native_step q_rewards q_balance q_delegated_bonded q_bonded chain_id typed_hash recover).

  (* every native message a successful call issues — any method, any arguments, any signature — has delegator = caller *)
  Theorem C11_acts_for_caller : forall s caller c s' logs ret ms,
    step s caller c = Some (s', logs, ret, ms) -> Forall (fun m => msg_delegator m = caller) ms.
  Proof. exact (acts_for_caller nstate native_step q_rewards q_balance q_delegated_bonded q_bonded chain_id typed_hash recover). Qed.

  (* ... along every history: whatever sequence of precompile calls (any senders, any call paths, any methods, arguments
     and signatures), native messages and other state changes chain A goes through, every message the precompile hands
     to the native message servers names the immediate caller of that very call as delegator *)
  Theorem C11_history_acts_for_caller : forall ops s,
    Forall (fun p => msg_delegator (snd p) = fst p) (issued s ops).
  Proof. exact (issued_A_own nstate native_step q_rewards q_balance q_delegated_bonded q_bonded chain_id typed_hash recover). Qed.

  (* THE CALL IS THE NATIVE SUBMISSION.  [submission s d c] is written down independently of the precompile (Model:
     guard / first_msgs / second_msgs / native_prog): what account d would submit natively in one transaction.  The
     precompile call by d succeeds exactly when that submission succeeds and announces at least one staking /
     distribution event, ends in the same state, issues the same messages, and its logs are the image of the
     submission's events. Both directions, every method. *)
  Theorem C11_call_is_native_submission : forall s caller c,
    step s caller c =
    match submission s caller c with
    | None => None
    | Some (s', evs, ms) =>
        if existsb counted evs then Some (s', flat_map (logs_of_event caller) evs, true, ms) else None
    end.
  Proof.
    intros s caller c.
    rewrite (cpc_step_is_native_prog nstate native_step q_rewards q_balance q_delegated_bonded q_bonded chain_id typed_hash recover).
    unfold of_prog, emit. destruct (submission s caller c) as [[[s' evs] ms]|]; [|reflexivity].
    destruct (existsb counted evs); reflexivity.
  Qed.

  (* the effect of a successful call is exactly the effect of its native messages run in order by the native message
     servers from the same state, all of them succeeding, and its logs are the image of exactly the events those
     messages produced, at least one of which is a staking/distribution event *)
  Theorem C11_equiv_native : forall s caller c s' logs ret ms,
    step s caller c = Some (s', logs, ret, ms) ->
    exists evs, native s ms = Some (s', evs) /\ logs = flat_map (logs_of_event caller) evs /\ existsb counted evs = true.
  Proof. exact (equiv_native nstate native_step q_rewards q_balance q_delegated_bonded q_bonded chain_id typed_hash recover). Qed.

  (* TWIN HISTORIES.  Given that the native message servers announce every message they execute with one of the four
     event types (checked on every twin-chain case), chain A (precompile calls) and chain B (the native submissions by
     the same accounts) are in the same state after ANY sequence of calls, native messages and common state changes,
     from any state: same delegations, entries, rewards and balances, whatever they are. *)
  Theorem C11_twin_histories_agree :
    (forall s m s' evs, native_step s m = Some (s', evs) -> existsb counted evs = true) ->
    forall ops s, history_A s ops = history_B s ops.
  Proof. exact (twin_histories_agree nstate native_step q_rewards q_balance q_delegated_bonded q_bonded chain_id typed_hash recover). Qed.

  (* ... and the receipts' Delegate / Undelegate / WithdrawReward logs along chain A's history are, step by step and in
     order, the image (C11_logs_match_events) of the module events of chain B's native submissions: nothing more, nothing
     less, for calls that fail as well (no logs, no events) *)
  Theorem C11_twin_logs_match_events :
    (forall s m s' evs, native_step s m = Some (s', evs) -> existsb counted evs = true) ->
    forall ops s,
    trace nstate (logs_A nstate native_step q_rewards q_balance q_delegated_bonded q_bonded chain_id typed_hash recover) stepA s ops =
    trace nstate (logs_B nstate native_step q_rewards q_balance q_delegated_bonded q_bonded chain_id typed_hash recover)
          (step_B nstate native_step q_rewards q_balance q_delegated_bonded q_bonded chain_id typed_hash recover) s ops.
  Proof. exact (twin_logs_agree nstate native_step q_rewards q_balance q_delegated_bonded q_bonded chain_id typed_hash recover). Qed.

  (* THIRD PARTIES.  For any per-account observation that the native message servers change for nobody but the
     message's own delegator (balance, delegations, unbonding and redelegation entries: checked by the driver), a
     precompile call changes it for nobody but the immediate caller — per call and at every position of a history. *)
  Theorem C11_third_parties_untouched : forall (obs : Type) (acct : nstate -> Z -> obs),
    (forall s m s' evs x, native_step s m = Some (s', evs) -> x <> msg_delegator m -> acct s' x = acct s x) ->
    (forall s caller c s' logs ret ms x, step s caller c = Some (s', logs, ret, ms) -> x <> caller -> acct s' x = acct s x) /\
    (forall s sender path c x, x <> precompile_caller sender path -> acct (stepA s (OCall nstate sender path c)) x = acct s x).
  Proof.
    intros obs acct H. split.
    - exact (third_parties_untouched nstate native_step q_rewards q_balance q_delegated_bonded q_bonded chain_id typed_hash recover obs acct H).
    - exact (history_third_parties_untouched nstate native_step q_rewards q_balance q_delegated_bonded q_bonded chain_id typed_hash recover obs acct H).
  Qed.

  (* delegate / undelegate / redelegate / withdrawReward are the one native message with delegator := caller, no more
     and no less: same success, same state, logs from its events *)
  Theorem C11_direct_calls_are_native : forall s caller v a src dst,
    0 < a ->
    step s caller (CDelegate v a) = map_result nstate caller (MsgDelegate caller v a) (native_step s (MsgDelegate caller v a)) /\
    step s caller (CUndelegate v a) = map_result nstate caller (MsgUndelegate caller v a) (native_step s (MsgUndelegate caller v a)) /\
    step s caller (CRedelegate src dst a) =
      map_result nstate caller (MsgBeginRedelegate caller src dst a) (native_step s (MsgBeginRedelegate caller src dst a)) /\
    step s caller (CWithdrawReward v) =
      map_result nstate caller (MsgWithdrawDelegatorReward caller v) (native_step s (MsgWithdrawDelegatorReward caller v)).
  Proof. exact (direct_calls_are_native nstate native_step q_rewards q_balance q_delegated_bonded q_bonded chain_id typed_hash recover). Qed.

  Theorem C11_nonpositive_amount_rejected : forall s caller v src dst a, a <= 0 ->
    step s caller (CDelegate v a) = None /\ step s caller (CUndelegate v a) = None /\
    step s caller (CRedelegate src dst a) = None /\ step s caller (CTransfer caller a) = None.
  Proof. exact (nonpositive_amount_rejected nstate native_step q_rewards q_balance q_delegated_bonded q_bonded chain_id typed_hash recover). Qed.

  (* signed variants: the message's delegator equals the caller AND the signer recovered for this chain id *)
  Theorem C11_signed_needs_both : forall s caller m sig r,
    step s caller (CDelegateByMessage m sig) = Some r ->
    sm_delegator m = caller /\ recover (typed_hash chain_id (TStaking m)) sig = Some (sm_delegator m) /\
    sm_valid m = true.
  Proof. exact (signed_needs_both nstate native_step q_rewards q_balance q_delegated_bonded q_bonded chain_id typed_hash recover). Qed.

  Theorem C11_signed_withdraw_needs_both : forall s caller m sig r,
    step s caller (CWithdrawRewardsByMessage m sig) = Some r ->
    wm_delegator m = caller /\ recover (typed_hash chain_id (TWithdraw m)) sig = Some (wm_delegator m) /\
    wm_valid m = true.
  Proof. exact (signed_withdraw_needs_both nstate native_step q_rewards q_balance q_delegated_bonded q_bonded chain_id typed_hash recover). Qed.

  Theorem C11_transfer_only_to_self : forall s caller to a r,
    step s caller (CTransfer to a) = Some r -> to = caller /\ 0 < a.
  Proof. exact (transfer_only_to_self nstate native_step q_rewards q_balance q_delegated_bonded q_bonded chain_id typed_hash recover). Qed.

  (* withdrawRewards(): only validators whose truncated reward reaches the minimum are withdrawn from *)
  Theorem C11_withdraw_all_shape : forall s d m, In m (withdraw_all_msgs nstate q_rewards s d) ->
    exists v a, m = MsgWithdrawDelegatorReward d v /\ In (v, a) (fst (q_rewards s d)) /\ MIN_WITHDRAW <= a /\
                snd (q_rewards s d) = false.
  Proof. exact (withdraw_all_msgs_shape nstate q_rewards). Qed.

  (* logs <-> events: every log stems from exactly one new module event with a positive amount and repeats its delegator,
     validator and amount (a redelegate event, which has no delegator attribute, yields Undelegate(src) + Delegate(dst)
     for the caller); the number of logs is one per positive delegate/unbond/withdraw event, two per redelegate event *)
  Theorem C11_logs_match_events : forall d e l, In l (logs_of_event d e) ->
    match e, l with
    | EvDelegate v del a, LDelegate del' v' a' => del' = del /\ v' = v /\ a' = a /\ 0 < a
    | EvUnbond v del a, LUndelegate del' v' a' => del' = del /\ v' = v /\ a' = a /\ 0 < a
    | EvWithdrawRewards v del a, LWithdrawReward del' v' a' => del' = del /\ v' = v /\ a' = a /\ 0 < a
    | EvRedelegate s t a, LUndelegate del' v' a' => del' = d /\ v' = s /\ a' = a /\ 0 < a
    | EvRedelegate s t a, LDelegate del' v' a' => del' = d /\ v' = t /\ a' = a /\ 0 < a
    | _, _ => False
    end.
  Proof. exact logs_of_event_delegators. Qed.

  Theorem C11_log_count : forall d evs,
    length (flat_map (logs_of_event d) evs) = fold_right (fun e n => (log_count e + n)%nat) 0%nat evs.
  Proof.
    intros d evs. rewrite flat_map_length_sum. induction evs as [|e r IH]; cbn; [reflexivity|].
    now rewrite logs_of_event_length, IH.
  Qed.

  (* given that the native modules emit staking/distribution events only about the message's own delegator (checked on
     every twin-chain case), every log of a successful call names the caller as delegator *)
  Theorem C11_logs_for_caller :
    (forall s m s' evs, native_step s m = Some (s', evs) -> Forall (ev_for (msg_delegator m)) evs) ->
    forall s caller c s' logs ret ms,
    step s caller c = Some (s', logs, ret, ms) -> Forall (fun l => log_delegator l = caller) logs.
  Proof. exact (logs_for_caller nstate native_step q_rewards q_balance q_delegated_bonded q_bonded chain_id typed_hash recover). Qed.

  (* views are the native queries: a view reports the native query's number; where the native side says "no
     delegation" delegationOf / rewardOf report 0; where the native query fails the view fails; balanceOf is bank
     balance plus pending rewards. (Definitional in the model: that the real view methods return the native queries'
     numbers is decided on every twin-chain step by the driver, against the gRPC queriers.) *)
  Variable q_delegation_tokens : nstate -> Z -> Z -> qres.
  Variable q_bonded_total : nstate -> Z -> qres.
  Variable q_reward : nstate -> Z -> Z -> qres.
  Variable q_rewards_total : nstate -> Z -> qres.
  Notation vstep := (view_step nstate q_balance q_delegation_tokens q_bonded_total q_reward q_rewards_total).
  Theorem C11_views_eq_native_queries : forall s a v z,
    (q_delegation_tokens s a v = QOk z -> vstep s (VDelegationOf a v) = Some z) /\
    (q_bonded_total s a = QOk z -> vstep s (VTotalDelegationOf a) = Some z) /\
    (q_reward s a v = QOk z -> vstep s (VRewardOf a v) = Some z) /\
    (q_rewards_total s a = QOk z -> vstep s (VRewardsOf a) = Some z /\ vstep s (VBalanceOf a) = Some (q_balance s a + z)) /\
    (q_delegation_tokens s a v = QNoDelegation -> vstep s (VDelegationOf a v) = Some 0) /\
    (q_reward s a v = QNoDelegation -> vstep s (VRewardOf a v) = Some 0) /\
    (q_reward s a v = QErr -> vstep s (VRewardOf a v) = None) /\
    (q_rewards_total s a <> QOk z -> vstep s (VRewardsOf a) <> Some z).
  Proof.
    intros s a v z. cbn [view_step].
    split; [intros ->; reflexivity|]. split; [intros ->; reflexivity|]. split; [intros ->; reflexivity|].
    split; [intros ->; split; reflexivity|]. split; [intros ->; reflexivity|]. split; [intros ->; reflexivity|].
    split; [intros ->; reflexivity|].
    intros Hne E. apply Hne. destruct (q_rewards_total s a); cbn in E; congruence.
  Qed.
End Native.
Print Assumptions C11_acts_for_caller.
Print Assumptions C11_history_acts_for_caller.
Print Assumptions C11_call_is_native_submission.
Print Assumptions C11_equiv_native.
Print Assumptions C11_twin_histories_agree.
Print Assumptions C11_twin_logs_match_events.
Print Assumptions C11_third_parties_untouched.
Print Assumptions C11_direct_calls_are_native.
Print Assumptions C11_nonpositive_amount_rejected.
Print Assumptions C11_signed_needs_both.
Print Assumptions C11_signed_withdraw_needs_both.
Print Assumptions C11_transfer_only_to_self.
Print Assumptions C11_withdraw_all_shape.
Print Assumptions C11_logs_match_events.
Print Assumptions C11_log_count.
Print Assumptions C11_logs_for_caller.
Print Assumptions C11_views_eq_native_queries.

(* transfer(): the validator choice does not depend on the order in which the stores return delegations / validators
   (operators are pairwise distinct): deterministic across nodes (relevant to C01) *)
Theorem C11_pick_validator_perm_invariant : forall d d' b b',
  Permutation d d' -> Permutation b b' -> NoDup (map v_opkey d) -> NoDup (map v_opkey b) ->
  pick_validator d b = pick_validator d' b'.
Proof. exact pick_validator_perm. Qed.
Print Assumptions C11_pick_validator_perm_invariant.

Theorem C11_pick_validator_is_candidate : forall d b v, pick_validator d b = Some v ->
  exists w, v_addr w = v /\ (In w d \/ (d = [] /\ In w b)).
Proof. exact pick_validator_in. Qed.
Print Assumptions C11_pick_validator_is_candidate.

(* non-vacuity: a toy native module (state = list of (delegator, validator, amount) delegations) under which calls succeed,
   a forged signed message fails, and the validator choice follows the three documented cases *)
Definition toy_step (s : list (Z * Z * Z)) (m : nmsg) : option (list (Z * Z * Z) * list nevent) :=
  match m with
  | MsgDelegate d v a => Some ((d, v, a) :: s, [EvOther; EvDelegate v d a])
  | MsgWithdrawDelegatorReward d v => Some (s, [EvWithdrawRewards v d 7])
  | MsgBeginRedelegate d a b x => Some (s, [EvRedelegate a b x])
  | MsgUndelegate _ _ _ => None
  end.
Definition toy := cpc_step (list (Z * Z * Z)) toy_step (fun _ _ => ([(5, 10 ^ 15); (6, 3)], false))
  (fun _ _ => 100) (fun _ _ => []) (fun _ => [VInfo 5 30 1; VInfo 6 10 2; VInfo 7 20 0]) 9 (fun c _ => c) (fun h sg => if sg =? 1 then Some 42 else None).
Example C11_examples :
  toy [] 42 (CDelegate 5 3) = Some ([(42, 5, 3)], [LDelegate 42 5 3], true, [MsgDelegate 42 5 3]) /\
  toy [] 42 (CUndelegate 5 3) = None /\
  toy [] 42 (CRedelegate 5 6 4) = Some ([], [LUndelegate 42 5 4; LDelegate 42 6 4], true, [MsgBeginRedelegate 42 5 6 4]) /\
  toy [] 42 CWithdrawRewards = Some ([], [LWithdrawReward 42 5 7], true, [MsgWithdrawDelegatorReward 42 5]) /\
  toy [] 42 (CDelegateByMessage (StakingMessage ADelegate 42 (Some 5) 3 true OldDash) 1) <> None /\
  toy [] 43 (CDelegateByMessage (StakingMessage ADelegate 42 (Some 5) 3 true OldDash) 1) = None /\
  toy [] 42 (CDelegateByMessage (StakingMessage ADelegate 42 (Some 5) 3 true OldDash) 2) = None /\
  toy [] 42 (CTransfer 42 50) = Some ([(42, 7, 50)], [LWithdrawReward 42 5 7; LDelegate 42 7 50], true,
                                      [MsgWithdrawDelegatorReward 42 5; MsgDelegate 42 7 50]) /\
  toy [] 42 (CTransfer 41 50) = None /\ toy [] 42 (CTransfer 42 101) = None /\
  pick_validator [VInfo 1 9 0; VInfo 2 3 5; VInfo 3 3 4] [] = Some 3 /\
  precompile_caller 1 [HCall 2; HDelegate 3; HCall 4; HCallCode 5; HDelegate 6] = 4.
Proof. vm_compute. repeat split; congruence. Qed.

(* the hypotheses of the conditional theorems are satisfiable: the toy module announces every message it executes,
   its events and its per-account observation (the delegations of an account) concern the message's delegator only *)
Example C11_toy_meets_hypotheses :
  (forall s m s' evs, toy_step s m = Some (s', evs) -> existsb counted evs = true) /\
  (forall s m s' evs, toy_step s m = Some (s', evs) -> Forall (ev_for (msg_delegator m)) evs) /\
  (forall s m s' evs x, toy_step s m = Some (s', evs) -> x <> msg_delegator m ->
     filter (fun e => fst (fst e) =? x) s' = filter (fun e => fst (fst e) =? x) s).
Proof.
  split; [|split].
  - intros s m s' evs H. destruct m; cbn in H; inversion H; reflexivity.
  - intros s m s' evs H. destruct m; cbn in H; inversion H; subst; repeat constructor.
  - intros s m s' evs x H Hx. destruct m; cbn in H; inversion H; subst; try reflexivity.
    cbn [filter fst msg_delegator] in *. destruct (del =? x) eqn:E; [apply Z.eqb_eq in E; congruence | reflexivity].
Qed.

(* a twin history on the toy module: a contract reached by CALL delegates, a forged signed message fails, a native
   message interleaves, transfer withdraws and delegates; both chains end in the same non-trivial state *)
Definition toy_ops : list (op (list (Z * Z * Z))) :=
  [ OCall _ 42 [HCall 77] (CDelegate 5 3);
    OCall _ 43 [] (CDelegateByMessage (StakingMessage ADelegate 42 (Some 5) 3 true OldDash) 1);
    ONative _ (MsgDelegate 9 6 4);
    OOther _ (fun s => (1, 1, 1) :: s);
    OCall _ 42 [HDelegate 77] (CTransfer 42 50) ].
Example C11_toy_twin_history :
  let A := run_A _ toy_step (fun _ _ => ([(5, 10 ^ 15); (6, 3)], false)) (fun _ _ => 100) (fun _ _ => [])
             (fun _ => [VInfo 5 30 1; VInfo 6 10 2; VInfo 7 20 0]) 9 (fun c _ => c) (fun h sg => if sg =? 1 then Some 42 else None) [] toy_ops in
  let B := run_B _ toy_step (fun _ _ => ([(5, 10 ^ 15); (6, 3)], false)) (fun _ _ => 100) (fun _ _ => [])
             (fun _ => [VInfo 5 30 1; VInfo 6 10 2; VInfo 7 20 0]) 9 (fun c _ => c) (fun h sg => if sg =? 1 then Some 42 else None) [] toy_ops in
  A = B /\ A = [(42, 7, 50); (1, 1, 1); (9, 6, 4); (77, 5, 3)].
Proof. vm_compute. split; reflexivity. Qed.
