(* C03 -- Reverted EVM call frames leave no trace, in any module.
   Statements only; the model is Model/CacheStack.v (x/evm/vm/state_db*.go as it is), the specification
   machine is Model/Journal.v (a stack of complete copies), proofs are in Proofs/CacheStackProofs.v.
   All statements quantify over every operation sequence (any module's writes, events, all side state,
   arbitrarily nested Snapshot / RevertTo), with no bound on length or depth. *)
From Evm Require Import CacheStack Journal CacheStackProofs.
Open Scope N_scope.

(* every state the code can reach (any ops, including Commit and panicking ones) has a well-formed
   snapshot stack: ids are positions, so the "invalid snapshot id" panic of RevertToSnapshot is dead code
   and the hypotheses [wf] below are met by every reachable state *)
Theorem C03_reachable_wf : forall o ev ops, wf (run (init o ev) ops).
Proof. exact reachable_wf. Qed.
Print Assumptions C03_reachable_wf.

(* refinement: one step of the code = one step of the journal of full copies, same output
   (ids out of discipline panic on both sides and change nothing) *)
Theorem C03_sdb_refines_journal : forall s o, wf s -> is_commit o = false ->
  jeq (abs (fst (step s o))) (fst (spec_step (abs s) o)) /\ snd (step s o) = snd (spec_step (abs s) o).
Proof. exact step_refines. Qed.
Print Assumptions C03_sdb_refines_journal.

Theorem C03_run_refines_journal : forall ops s, wf s -> no_commit ops ->
  jeq (abs (run s ops)) (spec_run (abs s) ops).
Proof. exact run_refines_abs. Qed.
Print Assumptions C03_run_refines_journal.

(* Snapshot() = id; arbitrary operations (nested snapshots, reverts to ids >= id, writes of any module,
   panicking calls); RevertToSnapshot(id): every key of every store, every side component and the
   visible events read exactly as at snapshot time, and the stack is as right after the Snapshot *)
Theorem C03_revert_exact : forall s ops, wf s -> no_commit ops -> reverts_ge (next_id s) ops ->
  let r := step (run (fst (step s Snapshot)) ops) (RevertTo (next_id s)) in
  snd r = OutOk /\ (forall k, view (fst r) k = view s k) /\ cur (fst r) = cur s /\ events (fst r) = events s /\
  orig (fst r) = orig s /\ depth (fst r) = S (depth s).
Proof. exact revert_exact_getters. Qed.
Print Assumptions C03_revert_exact.

Theorem C03_revert_exact_abs : forall s ops, wf s -> no_commit ops -> reverts_ge (next_id s) ops ->
  let s1 := fst (step s Snapshot) in
  let r := step (run s1 ops) (RevertTo (next_id s)) in
  snd r = OutOk /\ jeq (abs (fst r)) (abs s1).
Proof. exact revert_exact. Qed.
Print Assumptions C03_revert_exact_abs.

(* re-reverting to a surviving id after new writes restores the same state again (saved copies are
   not shared with the live state) *)
Theorem C03_revert_twice : forall s ops1 ops2, wf s -> no_commit ops1 -> no_commit ops2 ->
  reverts_ge (next_id s) ops1 -> reverts_ge (next_id s) ops2 ->
  let s1 := fst (step s Snapshot) in
  let r1 := step (run s1 ops1) (RevertTo (next_id s)) in
  let r2 := step (run (fst r1) ops2) (RevertTo (next_id s)) in
  snd r2 = OutOk /\ (forall k, view (fst r2) k = view (fst r1) k) /\ cur (fst r2) = cur (fst r1) /\
  events (fst r2) = events (fst r1).
Proof. exact revert_twice. Qed.
Print Assumptions C03_revert_twice.

(* commit: the committed store is the last current view (plus the destroy loop's own writes) and the
   committed events are the visible ones, independent of the number of layers *)
Theorem C03_commit_view : forall s d, committed s = false ->
  let r := step s (Commit d) in
  snd r = OutOk /\ committed (fst r) = true /\
  (forall k, orig (fst r) k = kv_over d (view s) k) /\
  (forall k, view (fst r) k = kv_over d (view s) k) /\
  orig_ev (fst r) = events s /\ cur (fst r) = cur s.
Proof. exact commit_view. Qed.
Print Assumptions C03_commit_view.

(* effects of frames that completed successfully are all kept: without reverts every write of every
   module reaches the committed store, in order, whatever the Snapshot nesting *)
Theorem C03_success_kept : forall s ops d, committed s = false -> no_commit ops -> no_revert ops ->
  forall k, orig (fst (step (run s ops) (Commit d))) k = kv_over d (apply_writes ops (view s)) k.
Proof. exact success_kept. Qed.
Print Assumptions C03_success_kept.

(* without Commit the original context is never written *)
Theorem C03_discard_pure : forall ops s, no_commit ops ->
  orig (run s ops) = orig s /\ orig_ev (run s ops) = orig_ev s /\ committed (run s ops) = committed s.
Proof. exact discard_pure. Qed.
Print Assumptions C03_discard_pure.

(* a reverted frame leaves no trace in the committed outcome, whatever runs after it *)
Theorem C03_frame_leaves_no_trace : forall s frame post d, wf s -> committed s = false ->
  no_commit frame -> reverts_ge (next_id s) frame -> no_commit post ->
  let ra := step (run s (Snapshot :: frame ++ RevertTo (next_id s) :: post)) (Commit d) in
  let rb := step (run s (Snapshot :: post)) (Commit d) in
  (forall k, orig (fst ra) k = orig (fst rb) k) /\ orig_ev (fst ra) = orig_ev (fst rb) /\ cur (fst ra) = cur (fst rb).
Proof. exact frame_leaves_no_trace. Qed.
Print Assumptions C03_frame_leaves_no_trace.

(* the whole transaction ends with a VM error (the top-level frame is reverted): only what ran outside
   the frame is committed -- in TransitionDb that is the nonce bump and the gas refund *)
Theorem C03_vm_error_only_outer_effects : forall o ev pre frame post d,
  no_commit pre -> no_revert pre -> no_commit post -> no_revert post -> no_commit frame ->
  let s := run (init o ev) pre in
  reverts_ge (next_id s) frame ->
  let r := step (run (init o ev) (pre ++ Snapshot :: frame ++ RevertTo (next_id s) :: post)) (Commit d) in
  snd r = OutOk /\ forall k, orig (fst r) k = kv_over d (apply_writes (pre ++ post) o) k.
Proof. exact vm_error_only_outer_effects. Qed.
Print Assumptions C03_vm_error_only_outer_effects.

(* ALL CALL TREES.  [compile] is how the EVM interpreter drives the StateDB for a tree of call frames (Snapshot on entry,
   RevertToSnapshot(own id) when the frame fails, arbitrary nesting; plain operations = writes of any module made through
   the current context, events and every side-state change).  Running any tree on any reachable state and committing:
   the original context receives exactly the writes of the operations whose own frame and all frames around it
   completed, in program order (plus the commit's destroy loop), the side state (logs, refund, access list, transient
   storage, self-destruct marks, touched) and the events are those of the kept operations alone.  Everything done below a
   frame that failed - at any depth, in any module - has left no trace, and everything else is kept. *)
Theorem C03_call_tree_commit : forall s items dl, wf s -> committed s = false -> plain_list items = true ->
  let ops := fst (compile_list (depth s) items) in
  let r := step (run s ops) (Commit dl) in
  snd r = OutOk /\
  (forall k, orig (fst r) k = kv_over dl (apply_writes (kept_list items) (view s)) k) /\
  cur (fst r) = side_run (kept_list items) (cur s) /\
  orig_ev (fst r) = events s ++ emitted (kept_list items).
Proof. exact call_tree_commit. Qed.
Print Assumptions C03_call_tree_commit.

(* at every point of the execution (not only after commit): what any keeper reads through GetCurrentContext() and every
   getter of the StateDB after a subtree has run is what the kept operations alone produce *)
Theorem C03_call_tree_view : forall t d, plain_tree t = true -> forall s, wf s -> depth s = d ->
  depth (run s (fst (compile d t))) = snd (compile d t) /\
  (forall k, view (run s (fst (compile d t))) k = apply_writes (kept t) (view s) k) /\
  cur (run s (fst (compile d t))) = side_run (kept t) (cur s) /\
  events (run s (fst (compile d t))) = events s ++ emitted (kept t).
Proof. exact compile_effect. Qed.
Print Assumptions C03_call_tree_view.

(* the oracle of the `statedb` driver's tree half: a transaction and its "survivors only" twin (every failing frame cut
   out) commit the same store, side state and events *)
Theorem C03_survivors_only_twin : forall s items dl, wf s -> committed s = false -> plain_list items = true ->
  let ra := step (run s (fst (compile_list (depth s) items))) (Commit dl) in
  let rb := step (run s (fst (compile_list (depth s) (prune_list items)))) (Commit dl) in
  (forall k, orig (fst ra) k = orig (fst rb) k) /\ cur (fst ra) = cur (fst rb) /\ orig_ev (fst ra) = orig_ev (fst rb).
Proof. exact survivors_only_twin. Qed.
Print Assumptions C03_survivors_only_twin.

(* the interpreter's discipline assumed by C03_revert_exact holds for every compiled tree: no Commit inside, reverts only
   to ids at or above the enclosing frame's *)
Theorem C03_compiled_trees_are_disciplined : forall l d, plain_list l = true ->
  no_commit (fst (compile_list d l)) /\ (d <= snd (compile_list d l))%nat /\
  reverts_ge (Z.of_nat d - 1) (fst (compile_list d l)).
Proof. exact compile_list_static. Qed.
Print Assumptions C03_compiled_trees_are_disciplined.

(* non-vacuity: a reachable state with nested frames; the frame really changes every component before
   it is reverted; hypotheses hold; out-of-discipline ids panic *)
Definition ex_o : kv := fun k => if k =? 7 then Some 70 else None.
Definition ex_s : sdb := run (init ex_o [1]) [KvSet 1 10; Touch 3; Snapshot; KvSet 2 20; AddRefund 5].
Definition ex_frame : list op :=
  [KvSet 1 11; KvDel 7; EmitEvent 9; Touch 4; SdAdd 4; AddRefund 100; AddLog 1; AlAddSlot 4 2; TsSet 4 1 9;
   Snapshot; KvSet 2 21; RevertTo 2; Snapshot; KvSet 7 71; SubRefund 1000; RevertTo 9].
Example C03_example :
  wf ex_s /\ next_id ex_s = 1%Z /\
  no_commit ex_frame /\ reverts_ge 1 ex_frame /\
  (let m := run (fst (step ex_s Snapshot)) ex_frame in
   view m 1 = Some 11 /\ view m 7 = Some 71 /\ view ex_s 7 = Some 70 /\ refund (cur m) = 105 /\
   refund (cur ex_s) = 5 /\ events m = [1; 9] /\ depth m = 5%nat /\
   snd (step m (SubRefund 1000)) = OutPanic /\ snd (step m (RevertTo 9)) = OutPanic /\
   snd (step m (RevertTo (-1))) = OutPanic /\
   let r := fst (step m (RevertTo 1)) in
   view r 1 = Some 10 /\ view r 7 = Some 70 /\ view r 2 = Some 20 /\ cur r = cur ex_s /\ events r = [1] /\
   snd (step (fst (step r (Commit []))) (Commit [])) = OutPanic).
Proof.
  split; [apply reachable_wf|]. split; [reflexivity|].
  split; [repeat constructor|]. split; [repeat constructor; cbn; auto; discriminate|].
  vm_compute. repeat split; reflexivity.
Qed.

(* a call tree: the precompile-like write of key 5 and the refund made in the frame that fails (nested two deep, with a
   completing frame inside it) vanish; the same write repeated in completing frames is kept *)
Definition ex_tree : list citem :=
  [CI (KvSet 5 1);
   CF false [CI (KvSet 5 2); CI (AddRefund 7); CI (EmitEvent 3); CF true [CI (KvSet 6 9); CI (AddLog 4)]];
   CF true [CI (KvSet 5 3); CF false [CI (KvDel 5); CI (TsSet 1 1 1)]; CI (AlAddSlot 2 2)];
   CI (EmitEvent 8)].
Example C03_example_tree :
  plain_list ex_tree = true /\
  kept_list ex_tree = [KvSet 5 1; KvSet 5 3; AlAddSlot 2 2; EmitEvent 8] /\
  (let r := fst (step (run ex_s (fst (compile_list (depth ex_s) ex_tree))) (Commit [])) in
   orig r 5 = Some 3 /\ orig r 6 = None /\ orig r 7 = Some 70 /\ refund (cur r) = 5 /\ logs (cur r) = [] /\
   transient (cur r) = [] /\ al_slots (cur r) = [(2, 2)] /\ orig_ev r = [1; 8]) /\
  fst (compile_list 2 ex_tree) =
    [KvSet 5 1; Snapshot; KvSet 5 2; AddRefund 7; EmitEvent 3; Snapshot; KvSet 6 9; AddLog 4; RevertTo 1;
     Snapshot; KvSet 5 3; Snapshot; KvDel 5; TsSet 1 1 1; RevertTo 3; AlAddSlot 2 2; EmitEvent 8].
Proof. vm_compute. repeat split; reflexivity. Qed.
