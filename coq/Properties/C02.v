(* C02 -- EVM transactions execute exactly as go-ethereum's reference state transition.

   evermint runs go-ethereum's interpreter (core/vm of the fork), so "for all programs" reduces to the two
   components evermint replaces: the StateDB behind the core/vm.StateDB interface and the transition
   wrapper around the interpreter.  This file states, over the models the `gethdiff` driver replays
   (Model/GethStateDB.v, Model/EvmStateDB.v, Model/Transition.v through Corr/CorrGethDiff.v):
     - the two StateDB models are bisimilar for every operation sequence the interpreter can issue, with
       equal observations, including Snapshot / RevertToSnapshot and the end-of-transaction step;
     - hence any deterministic client (the interpreter) produces the same operation / observation trace on both;
     - the transition wrappers agree modulo exactly the documented differences (fee pre-paid, custom
       precompiles and coinbase warm);
     - outside the interpreter's discipline the two StateDBs ARE distinguishable (_refuted, with witnesses).
   Statements only; proofs in Proofs/EvmAbsProofs.v, GethRefine.v, EvmRefine.v, C02Bisim.v, TransitionProofs.v. *)
From Coq Require Import List ZArith Bool.
From Evm Require Import EvmAbs GethStateDB EvmStateDB Transition EvmAbsProofs GethRefine EvmRefine C02Bisim TransitionProofs.
Import ListNotations.
Open Scope Z_scope.

(* Function extensionality (the standard-library axiom FunctionalExtensionality.functional_extensionality, needed because
   storage and the account map of the abstract state are functions) is an explicit hypothesis [funext_stmt] of the
   theorems that use it, so every theorem below is closed under the global context. *)

(* ------------------------------------------------------------------ the relation R
   R g e: both states are well formed and have the same abstraction: for every address the same nonce,
   balance, code, current storage, committed storage and self-destructed flag (an absent account and an
   empty one are the same view), the same refund counter, access list and logs, and corresponding live
   snapshots.  [absg g] is the abstract state (Model/EvmAbs.v) both refine. *)

(* R holds initially: two states built from the same EVM view *)
Theorem C02_R_initial : funext_stmt -> forall objs store,
  (forall a, gview (objs a) = eview store (core0 store) a) ->
  (forall a o, objs a = Some o -> (forall k, g_stor o k = g_orig o k) /\ g_sui o = false) ->
  (forall a, stor_ok (gview (objs a))) ->
  wf_core store (core0 store) ->
  R (ginit objs) (einit store).
Proof. exact R_init. Qed.
Print Assumptions C02_R_initial.

(* R means equal EVM views *)
Theorem C02_R_same_view : forall g e a, R g e -> gview (g_objs (g_cur g) a) = eview (e_orig e) (e_cur e) a.
Proof. exact R_same_view. Qed.
Print Assumptions C02_R_same_view.

Theorem C02_R_same_refund_logs : forall g e, R g e ->
  s_refund (g_side (g_cur g)) = s_refund (e_side (e_cur e)) /\ s_logs (g_side (g_cur g)) = s_logs (e_side (e_cur e)).
Proof. exact R_same_refund_logs. Qed.
Print Assumptions C02_R_same_refund_logs.

(* every interface operation the interpreter can issue (disc: Model/EvmAbs.v) succeeds on both, returns equal
   observations and preserves R; [extra] = the documented extra warm addresses of PrepareAccessList, the same
   on both sides: evermint is estep_x [coinbase], the reference is go-ethereum plus that one address *)
Theorem C02_statedb_step : funext_stmt -> forall extra o g e,
  R g e -> disc o (absg g) ->
  exists g' e' og oe,
    gstep_x extra o g = Some (g', og) /\ estep_x extra o e = Some (e', oe) /\
    norm_obs o og = norm_obs o oe /\ R g' e' /\
    astep_x extra o (absg g) = Some (absg g', norm_obs o og).
Proof. exact step_bisim. Qed.
Print Assumptions C02_statedb_step.

(* for all operation sequences (induction over list op), including Snapshot/RevertToSnapshot and Finalise/Commit *)
Theorem C02_statedb_bisim_partial : funext_stmt -> forall extra ops g e,
  R g e -> disc_run extra ops (absg g) ->
  exists g' e' l, run (gstep_x extra) ops g = Some (g', l) /\ run (estep_x extra) ops e = Some (e', l) /\ R g' e'.
Proof. exact run_bisim. Qed.
Print Assumptions C02_statedb_bisim_partial.

(* the same statement without the interpreter's discipline is false.  Gap of the _partial theorem: SetState /
   Suicide only on contract addresses, CreateAccount not on self-destructed addresses, SetNonce(.., n > 0),
   SetCode after the nonce is set, transfers within the balance, refund counter within uint64, raw Exist only
   inside evm.Call's prologue (OCallEnter), reverts to live snapshots, access-list operations after
   PrepareAccessList; and no module-account / multi-denomination addresses (witnesses below). *)
Definition C02_statedb_bisim_full : Prop := bisim_undisciplined.
Theorem C02_statedb_bisim_refuted : funext_stmt -> ~ C02_statedb_bisim_full.
Proof. exact bisim_undisciplined_refuted. Qed.
Print Assumptions C02_statedb_bisim_refuted.

(* any deterministic client -- a function from the observation history to the next operation: the interpreter --
   yields the same operation / observation trace on both implementations *)
Theorem C02_any_client_same_trace : funext_stmt -> forall extra client fuel g e hist,
  R g e -> client_disc extra client fuel (absg g) hist ->
  exists g' e' tr,
    drive (gstep_x extra) client fuel g hist = Some (g', tr) /\
    drive (estep_x extra) client fuel e hist = Some (e', tr) /\ R g' e'.
Proof. exact client_bisim. Qed.
Print Assumptions C02_any_client_same_trace.

(* each model refines the abstract EVM-view machine *)
Theorem C02_geth_refines_abstract : funext_stmt -> forall extra o s,
  wf_g s -> wf_a (absg s) -> disc o (absg s) ->
  exists s' ob, gstep_x extra o s = Some (s', ob) /\ astep_x extra o (absg s) = Some (absg s', norm_obs o ob) /\ wf_g s'.
Proof. exact gstep_refines. Qed.
Print Assumptions C02_geth_refines_abstract.

Theorem C02_evermint_refines_abstract : funext_stmt -> forall extra o s t,
  rel_e s t -> wf_a t -> disc o t ->
  exists s' ob t', estep_x extra o s = Some (s', ob) /\ astep_x extra o t = Some (t', norm_obs o ob) /\ rel_e s' t'.
Proof. exact estep_refines. Qed.
Print Assumptions C02_evermint_refines_abstract.

(* non-vacuity: a concrete related pair, a disciplined run on it with value transfer, SSTORE, refund, selfdestruct,
   reverts, a precompile call, logs and the end of the transaction; and what both models answer *)
Example C02_R_example : funext_stmt -> R (ginit objs_ex) (einit store_ex).
Proof. exact R_example. Qed.
Example C02_disc_run_example : disc_run [9] ops_ex (absg (ginit objs_ex)).
Proof. exact disc_run_example. Qed.

(* witnesses of what separates the implementations outside the discipline / outside go-ethereum's universe *)
Theorem C02_raw_exist_differs : funext_stmt ->
  exists g e, R g e /\
    (exists g0 e0 o1 o2, gstep (OAddBalance 7 0) (ginit objs0) = Some (g, o1) /\ estep_x [] (OAddBalance 7 0) (einit store0) = Some (e, o2) /\ g0 = g /\ e0 = e) /\
    (exists gs es, gstep (OExist 7) g = Some (gs, ObB true) /\ estep_x [] (OExist 7) e = Some (es, ObB false)).
Proof. exact witness_raw_exist. Qed.
Print Assumptions C02_raw_exist_differs.

Theorem C02_create_after_suicide_differs :
  exists l1 l2 g' e',
    run gstep [OSuicide 200; OCreateAccount 200; OHasSuicided 200] (ginit objs_ex) = Some (g', l1) /\
    run (estep_x []) [OSuicide 200; OCreateAccount 200; OHasSuicided 200] (einit store_ex) = Some (e', l2) /\
    nth 2 l1 ObNone = ObB false /\ nth 2 l2 ObNone = ObB true.
Proof. exact witness_create_after_suicide. Qed.
Print Assumptions C02_create_after_suicide_differs.

(* known finding C02/gethdiff/prog/panic:value-sent-to-blocked-module-account *)
Theorem C02_module_account_credit_panics :
  estep_x [] (OAddBalance 55 1) (einit store_mod) = None /\
  exists g', gstep (OAddBalance 55 1) (ginit objs0) = Some (g', ObNone).
Proof. exact witness_module_account. Qed.
Print Assumptions C02_module_account_credit_panics.

Theorem C02_multi_denom_not_empty :
  exists e', estep_x [] (OEmpty 66) (einit store_other) = Some (e', ObB false) /\
  a_empty (eview store_other (core0 store_other) 66) = true.
Proof. exact witness_multi_denom. Qed.
Print Assumptions C02_multi_denom_not_empty.

(* ------------------------------------------------------------------ the transition wrapper *)

(* same error class, or same used gas / gas handed to the interpreter / nonce bump, with the sender paying gas used x
   price either way: go-ethereum through buyGas and the refund, evermint through the ante handler's payment and the
   refund; the fee collector keeps exactly gas used x price; only go-ethereum pays the coinbase *)
Theorem C02_transition_equiv_mod_fees : forall m e s o,
  affordable m e s ->
  match geth_transition m e s o with
  | TErr x => evermint_transition true m e (after_ante m s) o = TErr x
  | TOk used given dg fee b =>
      exists de,
        evermint_transition true m e (after_ante m s) o = TOk used given de 0 b
        /\ dg = de - m_gas m * m_price m
        /\ dg = - (used * m_price m)
        /\ fee_collector_refund true m used = m_gas m * m_price m - used * m_price m
  end.
Proof. exact transition_equiv. Qed.
Print Assumptions C02_transition_equiv_mod_fees.

Example C02_affordable_example :
  affordable (mkMsg 0 100000 10 12 2 5 3 1 false 1 2 false) (mkEnv 8 true false 30000000) (mkSender 0 0 5000000).
Proof. unfold affordable. cbn. repeat split; discriminate || (intro; discriminate). Qed.

Theorem C02_used_gas_bounds : forall m e s o used given d fee b ig,
  wf_msg m ->
  geth_transition m e s o = TOk used given d fee b ->
  intrinsic_gas m = Some ig ->
  0 <= o_evm_used o <= given -> 0 <= o_refund o ->
  given = m_gas m - ig /\
  used = ig + o_evm_used o - refund_amount e (ig + o_evm_used o) (o_refund o) /\
  0 <= refund_amount e (ig + o_evm_used o) (o_refund o) <= (ig + o_evm_used o) / (if v_london e then 5 else 2) /\
  ig <= used + refund_amount e (ig + o_evm_used o) (o_refund o) <= m_gas m.
Proof. exact used_gas_bounds. Qed.
Print Assumptions C02_used_gas_bounds.

(* the initial access list: go-ethereum's, plus the registered custom precompiles, plus the coinbase -- and nothing else *)
Theorem C02_initial_access_list_documented : forall sender dst ts cpcs coinbase b,
  (forall c, In c cpcs -> c <> 0) ->
  al_has (al_prepare sender dst (evermint_precompiles cpcs) ts [coinbase]) b =
  al_has (al_prepare sender dst std_precompiles ts []) b || memZ b cpcs || (b =? coinbase).
Proof. exact initial_access_list_documented. Qed.
Print Assumptions C02_initial_access_list_documented.

(* before commit 6ed9b4a the zero address was warm whenever a custom precompile was registered (DESIGN section 7 #7) *)
Theorem C02_zero_addr_warm_before_fix : forall c cpcs,
  memZ 0 (evermint_precompiles_before_fix (c :: cpcs)) = true /\ memZ 0 std_precompiles = false.
Proof. intros. split; [apply zero_warm_before_fix|apply zero_cold_in_reference]. Qed.
Print Assumptions C02_zero_addr_warm_before_fix.
