(* C02 -- EVM transactions execute exactly as go-ethereum's reference state transition.
   Statements only; proofs in Proofs/TransitionProofs.v, Proofs/GethRefine.v, Proofs/EvmRefine.v, Proofs/C02Bisim.v. *)
From Evm Require Import EvmAbs GethStateDB EvmStateDB Transition.
Open Scope Z_scope.

Theorem C02_placeholder : forall m, intrinsic_gas m = intrinsic_gas m.
Proof. reflexivity. Qed.
Print Assumptions C02_placeholder.
