(* C10 - The ERC-20 precompile is an exact ERC-20 view of one bank denomination.
   Statements only; proofs are in Proofs/Erc20Proofs.v, the model in Model/Erc20.v.
   Vocabulary: [evm_call e s caller tok c] = one EVM call frame into the precompile at address [tok] (snapshot /
   revert included); [step]/[run] = histories of such calls interleaved with x/bank MsgSend and with supply
   changes made by other modules; call arguments are raw 32-byte calldata words ([addr_of], [u256] decode them). *)
From Evm Require Import Erc20 Erc20Proofs.
Open Scope Z_scope.

(* balanceOf / totalSupply / allowance / name / symbol / decimals return exactly the bank balance, the bank supply,
   the stored allowance and the registered metadata, for every caller and every argument word, and change nothing *)
Theorem C10_views_exact : forall e s caller tok tm,
  e_token e tok = Some tm ->
  (forall w, evm_call e s caller tok (BalanceOf w) = (s, OOk (RUint (bal s (addr_of w) (tk_denom tm))) [])) /\
  evm_call e s caller tok TotalSupply = (s, OOk (RUint (supply s (tk_denom tm))) []) /\
  (forall wo ws, evm_call e s caller tok (Allowance wo ws) = (s, OOk (RUint (allow s (addr_of wo) (addr_of ws))) [])) /\
  evm_call e s caller tok Name = (s, OOk (RStr (tk_name tm)) []) /\
  evm_call e s caller tok Symbol = (s, OOk (RStr (tk_symbol tm)) []) /\
  evm_call e s caller tok Decimals = (s, OOk (RUint (tk_decimals tm)) []).
Proof. exact views_exact. Qed.
Print Assumptions C10_views_exact.

(* a successful transfer / transferFrom / burn / burnFrom that states (from, to, amount) [to = 0: destroy]
   returns true, emits exactly the one matching Transfer log, moves or destroys exactly [amount] of the token's
   denomination, and leaves every other (address, denom) balance, every other supply, all locks and every
   allowance other than (from, caller) untouched *)
Theorem C10_move_exact : forall e s caller tok c s' r logs from to amount,
  moves caller c = Some (from, to, amount) ->
  evm_call e s caller tok c = (s', OOk r logs) ->
  exists tm, e_token e tok = Some tm /\
    r = RBool true /\ logs = [LTransfer tok from to amount] /\
    from <> 0 /\ 0 <= amount <= bal s from (tk_denom tm) /\
    (to <> 0 -> from <> to ->
       bal s' from (tk_denom tm) = bal s from (tk_denom tm) - amount /\
       bal s' to (tk_denom tm) = bal s to (tk_denom tm) + amount) /\
    (to <> 0 -> from = to -> bal s' from (tk_denom tm) = bal s from (tk_denom tm)) /\
    (to = 0 -> bal s' from (tk_denom tm) = bal s from (tk_denom tm) - amount) /\
    supply s' (tk_denom tm) = supply s (tk_denom tm) - (if to =? 0 then amount else 0) /\
    (forall a d', ~ (d' = tk_denom tm /\ (a = from \/ (a = to /\ to <> 0))) -> bal s' a d' = bal s a d') /\
    (forall d', d' <> tk_denom tm -> supply s' d' = supply s d') /\
    locked s' = locked s /\
    (forall o sp, ~ (o = from /\ sp = caller) -> allow s' o sp = allow s o sp).
Proof. exact move_exact. Qed.
Print Assumptions C10_move_exact.

(* approve writes exactly the (caller, spender) allowance, emits one Approval log, touches nothing else *)
Theorem C10_approve_exact : forall e s caller tok wsp wamt s' r logs,
  evm_call e s caller tok (Approve wsp wamt) = (s', OOk r logs) ->
  caller <> 0 /\ addr_of wsp <> 0 /\ r = RBool true /\
  logs = [LApproval tok caller (addr_of wsp) (u256 wamt)] /\
  allow s' caller (addr_of wsp) = u256 wamt /\
  (forall o sp, ~ (o = caller /\ sp = addr_of wsp) -> allow s' o sp = allow s o sp) /\
  bal s' = bal s /\ supply s' = supply s /\ locked s' = locked s.
Proof. exact approve_exact. Qed.
Print Assumptions C10_approve_exact.

(* a failing operation (ERC-20 call frame or MsgSend) changes nothing at all *)
Theorem C10_fail_changes_nothing : forall e s o s' x,
  step e s o = (s', x) -> is_ok x = false -> s' = s.
Proof. exact step_not_ok. Qed.
Print Assumptions C10_fail_changes_nothing.

(* allowance law: a successful transferFrom / burnFrom by a spender other than the owner needs allowance >= amount
   or the unlimited value 2^256-1; unlimited is not decremented, any other is reduced by exactly the amount;
   no other allowance changes *)
Theorem C10_allowance_law : forall e s caller tok c s' r logs owner amount,
  spends c = Some (owner, amount) -> owner <> caller ->
  evm_call e s caller tok c = (s', OOk r logs) ->
  (allow s owner caller = MAXU256 /\ allow s' owner caller = MAXU256 \/
   allow s owner caller <> MAXU256 /\ amount <= allow s owner caller /\
   allow s' owner caller = allow s owner caller - amount) /\
  (forall o sp, ~ (o = owner /\ sp = caller) -> allow s' o sp = allow s o sp).
Proof. exact allowance_law. Qed.
Print Assumptions C10_allowance_law.

(* whoever loses coins in an ERC-20 call is the caller itself, or an owner whose allowance to the caller covered it *)
Theorem C10_no_theft : forall e s caller tok c s' x a d,
  evm_call e s caller tok c = (s', x) ->
  bal s' a d < bal s a d -> a <> caller ->
  exists to amount, moves caller c = Some (a, to, amount) /\ spends c = Some (a, amount) /\
    bal s a d - bal s' a d <= amount /\
    (allow s a caller = MAXU256 /\ allow s' a caller = MAXU256 \/
     allow s a caller <> MAXU256 /\ amount <= allow s a caller /\ allow s' a caller = allow s a caller - amount).
Proof. exact no_theft. Qed.
Print Assumptions C10_no_theft.

(* over ALL histories and every finite duplicate-free holder list L containing the addresses the history names:
   the sum of L's balances moves exactly with the supply (minus what other modules minted/burned elsewhere),
   and the supply changes only by the amounts destroyed by successful burns (plus those other modules' changes) *)
Theorem C10_supply_history : forall e ops s L d s' tr,
  NoDup L -> (forall o, In o ops -> incl (op_addrs o) L) ->
  run e s ops = (s', tr) ->
  total s' d L - total s d L = supply s' d - supply s d - sumZ (env_delta d) tr /\
  supply s' d = supply s d - sumZ (burned_by e d) tr + sumZ (env_delta d) tr /\
  0 <= sumZ (burned_by e d) tr /\
  locked s' = locked s.
Proof. exact supply_history. Qed.
Print Assumptions C10_supply_history.

(* no balance ever becomes negative *)
Theorem C10_balances_nonneg : forall e ops s s' tr,
  (forall a d, 0 <= locked s a d) -> (forall a d, 0 <= bal s a d) ->
  run e s ops = (s', tr) -> forall a d, 0 <= bal s' a d.
Proof. exact nonneg_history. Qed.
Print Assumptions C10_balances_nonneg.

(* history form of the allowance law, as the code satisfies it: over any history, what a spender moved or burned of
   an owner's coins THROUGH ALL TOKENS TOGETHER, plus what it may still spend, is bounded by the initial allowance
   plus what the owner approved THROUGH ALL TOKENS TOGETHER (no unlimited approval involved) *)
Theorem C10_spent_le_approved_pooled : forall e o sp, o <> sp ->
  forall ops s s' tr,
  0 <= allow s o sp < MAXU256 -> forallb (not_unlimited_approve o sp) ops = true ->
  run e s ops = (s', tr) ->
  0 <= allow s' o sp < MAXU256 /\
  sumZ (spent_by allT o sp) tr + allow s' o sp <= allow s o sp + sumZ (approved_by allT o sp) tr /\
  0 <= sumZ (approved_by allT o sp) tr.
Proof. exact allowance_history. Qed.
Print Assumptions C10_spent_le_approved_pooled.

(* the property as stated ("beyond the allowance that holder approved" on that token), for a chain with a single
   ERC-20 precompile *)
Theorem C10_spent_le_approved_single_token : forall e tok0 o sp,
  (forall t, e_token e t <> None -> t = tok0) -> o <> sp ->
  forall ops s s' tr,
  0 <= allow s o sp < MAXU256 -> forallb (not_unlimited_approve o sp) ops = true ->
  run e s ops = (s', tr) ->
  sumZ (spent_by (Z.eqb tok0) o sp) tr <= allow s o sp + sumZ (approved_by (Z.eqb tok0) o sp) tr.
Proof. exact single_token_history. Qed.
Print Assumptions C10_spent_le_approved_single_token.

(* The full statement - per token, for any number of ERC-20 precompiles - is FALSE of the faithful model: the
   allowance key is (owner, spender) only (x/cpc/types/keys.go), so an approval given through token A is spendable
   through token B.  Known finding C10/erc20/allowance-shared-across-tokens. *)
Definition C10_spent_le_approved_full : Prop := forall e tok o sp, o <> sp ->
  forall ops s s' tr,
  allow s o sp = 0 -> forallb (not_unlimited_approve o sp) ops = true ->
  run e s ops = (s', tr) ->
  sumZ (spent_by (Z.eqb tok) o sp) tr <= sumZ (approved_by (Z.eqb tok) o sp) tr.

Theorem C10_cross_token_allowance_refuted : ~ C10_spent_le_approved_full.
Proof.
  intros H.
  specialize (H x_env 2000 5 6 ltac:(discriminate) x_ops x_state
                (fst (run x_env x_state x_ops)) (snd (run x_env x_state x_ops)) eq_refl eq_refl
                ltac:(destruct (run x_env x_state x_ops); reflexivity)).
  vm_compute in H. apply H. reflexivity.
Qed.
Print Assumptions C10_cross_token_allowance_refuted.

(* "an exact window": what the ledger allows does succeed.  approve by a non-zero owner for a non-zero spender; a
   transfer / transferFrom to a non-zero recipient of an amount the holder can spend (balance minus locked vesting coins)
   by the holder itself, or by a spender whose allowance is unlimited or covers the amount, returns true with the one
   matching log (C10_move_exact / C10_approve_exact then say what the state is) *)
Theorem C10_valid_call_succeeds : forall e s caller tok tm,
  e_token e tok = Some tm -> caller <> 0 ->
  (forall wsp wamt, addr_of wsp <> 0 ->
     exists s', evm_call e s caller tok (Approve wsp wamt) =
                (s', OOk (RBool true) [LApproval tok caller (addr_of wsp) (u256 wamt)])) /\
  (forall wto wamt, addr_of wto <> 0 -> 0 <= locked s caller (tk_denom tm) ->
     u256 wamt <= bal s caller (tk_denom tm) - locked s caller (tk_denom tm) ->
     exists s', evm_call e s caller tok (Transfer wto wamt) =
                (s', OOk (RBool true) [LTransfer tok caller (addr_of wto) (u256 wamt)])) /\
  (forall wfrom wto wamt, addr_of wfrom <> 0 -> addr_of wto <> 0 -> 0 <= locked s (addr_of wfrom) (tk_denom tm) ->
     u256 wamt <= bal s (addr_of wfrom) (tk_denom tm) - locked s (addr_of wfrom) (tk_denom tm) ->
     can_spend s (addr_of wfrom) caller (u256 wamt) ->
     exists s', evm_call e s caller tok (TransferFrom wfrom wto wamt) =
                (s', OOk (RBool true) [LTransfer tok (addr_of wfrom) (addr_of wto) (u256 wamt)])).
Proof. exact valid_call_succeeds. Qed.
Print Assumptions C10_valid_call_succeeds.

(* ---------------------------------------------------------------- calls made from contracts *)

(* "directly or from contracts": one transaction whose contract code makes several ERC-20 calls from nested frames, some
   of which fail.  Whatever ran below a frame that failed leaves nothing (state, logs, success mask) ... *)
Theorem C10_failed_frame_changes_nothing : forall e kids s i,
  exists i', exec_tree e (FNode false kids) s i = (s, [], 0, i').
Proof. exact failed_frame_nothing. Qed.
Print Assumptions C10_failed_frame_changes_nothing.

(* ... a transaction whose top frame fails (VM error) changes nothing at all, and so does every failing step ... *)
Theorem C10_failed_tx_changes_nothing : forall e s x s' o,
  xstep e s x = (s', o) -> is_ok o = false -> s' = s.
Proof. exact xstep_not_ok. Qed.
Print Assumptions C10_failed_tx_changes_nothing.

(* ... and every transaction is exactly the plain history of its surviving calls (those whose own frame and every
   frame around it completed), for every tree shape: same final state, same logs in the same order.  So each call a
   contract makes obeys C10_move_exact / C10_approve_exact / C10_allowance_law / C10_no_theft on the state its
   surviving predecessors left. *)
Theorem C10_tx_is_its_surviving_calls : forall e t s,
  fst (xstep e s (XTx t)) = fst (run e s (survivors t)) /\
  (forall s' r lg, xstep e s (XTx t) = (s', OOk r lg) -> lg = ok_logs (snd (run e s (survivors t)))).
Proof. intros e t s. split; [apply xstep_tx_state|apply xstep_tx_logs]. Qed.
Print Assumptions C10_tx_is_its_surviving_calls.

(* histories of plain operations AND contract transactions end in the state of the flattened plain history, hence the
   history laws (conservation against supply, burns only destroy, no negative balance, spent <= approved) hold for them *)
Theorem C10_history_with_contracts_flattens : forall e xs s, fst (xrun e s xs) = fst (run e s (flatten xs)).
Proof. exact xrun_flatten. Qed.
Print Assumptions C10_history_with_contracts_flattens.

Theorem C10_supply_history_with_contracts : forall e xs s L d s' xtr,
  NoDup L -> (forall o, In o (flatten xs) -> incl (op_addrs o) L) ->
  xrun e s xs = (s', xtr) ->
  let tr := snd (run e s (flatten xs)) in
  total s' d L - total s d L = supply s' d - supply s d - sumZ (env_delta d) tr /\
  supply s' d = supply s d - sumZ (burned_by e d) tr + sumZ (env_delta d) tr /\
  0 <= sumZ (burned_by e d) tr /\
  locked s' = locked s.
Proof. exact supply_history_x. Qed.
Print Assumptions C10_supply_history_with_contracts.

Theorem C10_spent_le_approved_with_contracts : forall e o sp, o <> sp ->
  forall xs s s' xtr,
  0 <= allow s o sp < MAXU256 -> forallb (not_unlimited_approve o sp) (flatten xs) = true ->
  xrun e s xs = (s', xtr) ->
  let tr := snd (run e s (flatten xs)) in
  0 <= allow s' o sp < MAXU256 /\
  sumZ (spent_by allT o sp) tr + allow s' o sp <= allow s o sp + sumZ (approved_by allT o sp) tr.
Proof. exact allowance_history_x. Qed.
Print Assumptions C10_spent_le_approved_with_contracts.

Theorem C10_balances_nonneg_with_contracts : forall e xs s s' xtr,
  (forall a d, 0 <= locked s a d) -> (forall a d, 0 <= bal s a d) ->
  xrun e s xs = (s', xtr) -> forall a d, 0 <= bal s' a d.
Proof. exact nonneg_history_x. Qed.
Print Assumptions C10_balances_nonneg_with_contracts.

(* ---------------------------------------------------------------- non-vacuity *)

(* the witness history: 5 approves 6 for 8 units through token A (address 1000, denom 0); 6 then moves 7 units of
   token B (address 2000, denom 1) out of 5's balance: success, balances really move, 1 unit of allowance is left *)
Example C10_cross_token_witness :
  let '(s', tr) := run x_env x_state x_ops in
  sumZ (spent_by (Z.eqb 2000) 5 6) tr = 7 /\ sumZ (approved_by (Z.eqb 2000) 5 6) tr = 0 /\
  bal s' 6 1 = 7 /\ bal s' 5 1 = 3 /\ allow s' 5 6 = 1.
Proof. exact cross_token_witness. Qed.

(* hypotheses of move_exact / allowance_law / no_theft are met: a transferFrom by a spender that succeeds *)
Example C10_example_transferFrom :
  let s1 := fst (evm_call x_env x_state 5 1000 (Approve 6 8)) in
  exists s2 logs, evm_call x_env s1 6 1000 (TransferFrom 5 9 7) = (s2, OOk (RBool true) logs) /\
    moves 6 (TransferFrom 5 9 7) = Some (5, 9, 7) /\ spends (TransferFrom 5 9 7) = Some (5, 7) /\
    logs = [LTransfer 1000 5 9 7] /\ bal s2 5 0 = 3 /\ bal s2 9 0 = 7 /\ allow s2 5 6 = 1 /\ bal s2 5 0 < bal s1 5 0.
Proof. eexists. eexists. vm_compute. repeat split; reflexivity. Qed.

(* failing calls exist and the atomicity really comes from the EVM frame: the method body alone leaves the
   decremented allowance behind (transferFrom with enough allowance but not enough balance) *)
Example C10_example_partial_write_reverted :
  let '(s1, o1) := exec_method ex_env ex_state 6 1000 ex_tm (TransferFrom 5 7 50) in
  let '(s2, o2) := evm_call ex_env ex_state 6 1000 (TransferFrom 5 7 50) in
  o1 = OErr /\ allow s1 5 6 = 50 /\ o2 = OErr /\ allow s2 5 6 = 100.
Proof. exact exec_leaves_partial_write. Qed.

(* a burn destroys supply; unlimited allowance stays unlimited *)
Example C10_example_burn_unlimited :
  let s1 := fst (evm_call x_env x_state 5 1000 (Approve 6 MAXU256)) in
  let '(s2, o2) := evm_call x_env s1 6 1000 (BurnFrom 5 4) in
  is_ok o2 = true /\ supply s2 0 = 6 /\ bal s2 5 0 = 6 /\ allow s2 5 6 = MAXU256 /\ burned_by x_env 0 (Call 6 1000 (BurnFrom 5 4), o2) = 4.
Proof. vm_compute. repeat split; reflexivity. Qed.

(* a call tree: approve in the top frame; a spender's transferFrom (and a nested one) inside a frame that fails leave
   neither moved coins nor a decremented allowance nor logs; the same method called again in completing frames works on the
   untouched allowance: 3 of 8 spent, then 6 > 5 fails on its own *)
Example C10_example_call_tree :
  let '(s', o) := xstep x_env x_state (XTx x_tree) in
  o = OOk (RUint (1 + 8)) [LApproval 1000 5 6 8; LTransfer 1000 5 9 3] /\
  bal s' 5 0 = 7 /\ bal s' 9 0 = 3 /\ allow s' 5 6 = 5 /\
  survivors x_tree = [Call 5 1000 (Approve 6 8); Call 6 1000 (TransferFrom 5 9 3); Call 6 1000 (TransferFrom 5 9 6)].
Proof. exact x_tree_witness. Qed.
