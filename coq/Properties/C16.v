(* C16 — Vesting accounts only for proven EOAs; ownership proofs unforgeable and final.
   Statements only; proofs in Proofs/VauthProofs.v (and Proofs/LaneProofs.v), model in Model/Vauth.v, Model/Lane.v.

   [verifies a b] stands for vauthutils.VerifySignature(a, b, MessageToSign) = (true, nil) — ecrecover over
   keccak(fixed message) yields a.  It is universally quantified: nothing is assumed about cryptography, the
   theorems say that the store is written only under [verifies].  A history is any list of operations:
   proof submissions (any submitter / fee payer / account / signature string / fee / balance, top level or nested in
   MsgExec), user transactions of any shape (Model/Lane.v), ICA host packets, and arbitrary coin movements / mints /
   burns by other modules. *)
From Evm Require Import Lane LaneProofs Vauth VauthProofs.
Open Scope Z_scope.

(* ---- vesting needs a proof *)

(* ante-handler level, any shape of user transaction, any SDK verdicts: a vesting-creation handler runs out of a
   delivered transaction only for a top-level message whose target has a stored proof; nested ones never run. *)
Theorem C16_vesting_handler_needs_proof : forall e sh r k a,
  In (r, MVesting k a) (executed_tx default_disabled e sh) -> r = TopLevel /\ has_proof e a = true.
Proof. intros e sh r k a. apply vesting_handler_needs_proof. destruct k0; reflexivity. Qed.
Print Assumptions C16_vesting_handler_needs_proof.

(* the same seen from the sender: a transaction that carries a vesting-creation message of any of the three kinds for
   a target without a stored proof — top level beside any other messages, or nested in MsgExec at any depth — is
   refused by the ante handler as a whole: nothing executes, the state is unchanged *)
Theorem C16_unproven_target_rejected : forall st vb rest sh r k a,
  has st a = false ->
  In (r, MVesting k a) (map (pair TopLevel) (msgs sh) ++ map (pair InAuthzExec) (nested_all (msgs sh))) ->
  vesting_tx st vb rest sh = (st, VAnteRej).
Proof. exact unproven_target_rejected. Qed.
Print Assumptions C16_unproven_target_rejected.

(* CheckTx, ReCheckTx, simulation and delivery alike: a transaction the ante handler accepts carries vesting-creation
   messages only at top level (depth 0) and only for targets with a stored proof, whatever else it carries *)
Theorem C16_any_mode_needs_proof : forall m st vb rest sh d k a,
  accepted default_disabled m (env_at st vb rest) sh = true ->
  occurs d (MVesting k a) (msgs sh) -> d = 0%nat /\ has st a = true.
Proof. exact any_mode_needs_proof. Qed.
Print Assumptions C16_any_mode_needs_proof.

(* one operation that is not an ICA packet carrying vesting messages: a vesting account appears only at an address that
   ALREADY has a proof (a proof submission carried by an ICA packet is an operation of its own, OIcaSubmit, and is covered) *)
Theorem C16_vesting_needs_proof_step : forall verifies st o a,
  is_ica o = false -> vested (fst (step verifies st o)) a = true -> vested st a = true \/ has st a = true.
Proof. exact vesting_needs_proof_step. Qed.
Print Assumptions C16_vesting_needs_proof_step.

(* all histories without ICA packets: every vesting account created has (and keeps) a proof *)
Theorem C16_vesting_needs_proof_partial : forall verifies l st,
  Forall (fun o => is_ica o = false) l -> inv st -> inv (run verifies st l).
Proof. exact vesting_needs_proof. Qed.
Print Assumptions C16_vesting_needs_proof_partial.

(* The statement over ALL histories is false of the faithful model: a message carried by an ICA host packet is
   executed without the ante handler.  Known finding C16/routes/ica-host/vesting-created-without-proof (#15a).
   The gap between _full and _partial is exactly the ICA host route (and, authority-gated, governance proposals). *)
Definition C16_vesting_needs_proof_full : Prop := forall verifies l st, inv st -> inv (run verifies st l).

Definition st0 : vstate :=
  {| proofs := fun _ => None; bal := fun _ => 0; supply := 0; vested := fun _ => false; acct := fun _ => false |}.

Theorem C16_vesting_needs_proof_full_refuted : ~ C16_vesting_needs_proof_full.
Proof.
  intros H.
  assert (Hi : inv st0) by (intros a Ha; discriminate).
  specialize (H (fun _ _ => false) [OIcaPacket ica_default true [MVesting VCreate 7%N]] st0 Hi 7%N).
  cbn in H. specialize (H eq_refl). discriminate.
Qed.
Print Assumptions C16_vesting_needs_proof_full_refuted.

(* ---- proofs are unforgeable: over any history a proof present at the end was there at the start or was stored
   together with a signature string that is 0x-prefixed lower-case hex of bytes that verify for that address *)
Theorem C16_proof_needs_signature : forall verifies l st a g,
  proofs (run verifies st l) a = Some g -> proofs st a = Some g \/ verifies a (s_bytes g) = true.
Proof. exact proof_needs_signature. Qed.
Print Assumptions C16_proof_needs_signature.

Theorem C16_proof_written_only_verified : forall verifies st o a g,
  proofs (fst (step verifies st o)) a = Some g ->
  proofs st a = Some g \/
  (proofs st a = None /\ verifies a (s_bytes g) = true /\ s_lower g = true /\ s_prefix g = true /\ s_hex_ok g = true).
Proof. exact step_proofs. Qed.
Print Assumptions C16_proof_written_only_verified.

(* ---- proofs are final: never overwritten, never removed, over any history (ICA packets included) *)
Theorem C16_proof_final : forall verifies l st a g,
  proofs st a = Some g -> proofs (run verifies st l) a = Some g.
Proof. exact proof_final. Qed.
Print Assumptions C16_proof_final.

Theorem C16_proven_never_again : forall verifies st n p sub acc ok g fee,
  has st acc = true -> snd (submit_tx verifies st n p sub acc ok g fee) <> SOk.
Proof. exact proven_never_again. Qed.
Print Assumptions C16_proven_never_again.

(* ... and over any later history: every further submission for a proven address fails, whoever submits or pays,
   whatever the signature and the nesting, and the stored proof is the same *)
Theorem C16_proven_never_again_history : forall verifies l st n p sub acc ok g fee s,
  proofs st acc = Some s ->
  snd (submit_tx verifies (run verifies st l) n p sub acc ok g fee) <> SOk /\ proofs (run verifies st l) acc = Some s.
Proof. exact proven_never_again_history. Qed.
Print Assumptions C16_proven_never_again_history.

(* ---- cost: a successful submission takes exactly COST from the submitter and exactly the transaction fee from the
   fee payer (the same account unless the submission is nested in a MsgExec run by a grantee), nothing from anybody
   else, and the supply drops by exactly COST (the transaction fee is moved, not burnt) *)
Theorem C16_cost_exact_burnt : forall verifies st n p sub acc ok g fee st',
  submit_tx verifies st n p sub acc ok g fee = (st', SOk) ->
  bal st' sub = bal st sub - COST - paid sub p fee /\
  bal st' p = bal st p - fee - paid p sub COST /\
  (forall x, x <> sub -> x <> p -> bal st' x = bal st x) /\
  supply st' = supply st - COST /\
  proofs st' acc = Some g /\ (forall x, x <> acc -> proofs st' x = proofs st x) /\
  proofs st acc = None /\ verifies acc (s_bytes g) = true /\ sub <> acc /\
  COST + paid sub p fee <= bal st sub /\ fee <= bal st p.
Proof. exact cost_exact_burnt. Qed.
Print Assumptions C16_cost_exact_burnt.

(* over any history the supply moves by exactly -COST per stored proof plus what other modules mint or burn *)
Theorem C16_supply_history : forall verifies l st,
  supply (run verifies st l) = supply st - COST * n_ok verifies st l + minted l.
Proof. exact supply_history. Qed.
Print Assumptions C16_supply_history.

(* ---- a rejected submission (whatever the reason, the panic in SaveProof included) stores nothing and burns
   nothing; the fee payer loses the transaction fee iff the ante handler had passed; nobody else loses anything *)
Theorem C16_rejected_submission_inert : forall verifies st n p sub acc ok g fee st' r,
  submit_tx verifies st n p sub acc ok g fee = (st', r) -> r <> SOk ->
  (forall x, proofs st' x = proofs st x) /\ supply st' = supply st /\ vested st' = vested st /\
  (forall x, x <> p -> bal st' x = bal st x) /\
  bal st' p = bal st p - (if ante_passed r then fee else 0).
Proof. exact rejected_submission_inert. Qed.
Print Assumptions C16_rejected_submission_inert.

(* the fee-less route (submission carried by an ICA host packet): a failed one changes nothing at all, a successful one
   costs the interchain account exactly COST, burnt *)
Theorem C16_rejected_ica_submission_inert : forall verifies st sub acc ok g,
  snd (step verifies st (OIcaSubmit sub acc ok g)) <> RSubmit SOk -> fst (step verifies st (OIcaSubmit sub acc ok g)) = st.
Proof. exact rejected_ica_submission_inert. Qed.
Print Assumptions C16_rejected_ica_submission_inert.

Theorem C16_ica_submission_cost : forall verifies st sub acc ok g,
  snd (step verifies st (OIcaSubmit sub acc ok g)) = RSubmit SOk ->
  let st' := fst (step verifies st (OIcaSubmit sub acc ok g)) in
  bal st' sub = bal st sub - COST /\ (forall x, x <> sub -> bal st' x = bal st x) /\ supply st' = supply st - COST /\
  proofs st' acc = Some g /\ proofs st acc = None /\ verifies acc (s_bytes g) = true /\ COST <= bal st sub.
Proof. exact ica_submission_cost. Qed.
Print Assumptions C16_ica_submission_cost.

(* ---- non-vacuity *)
Definition good : sigstr := {| s_str := 1; s_bytes := 1; s_prefix := true; s_hex_ok := true; s_lower := true |}.
Definition upper : sigstr := {| s_str := 2; s_bytes := 1; s_prefix := true; s_hex_ok := true; s_lower := false |}.
Definition ver1 : addr -> N -> bool := fun a b => N.eqb a 5 && N.eqb b 1.
Definition rich : vstate :=
  {| proofs := fun _ => None; bal := fun _ => 3 * COST; supply := 100 * COST; vested := fun _ => false; acct := fun a => N.eqb a 9 |}.

Example C16_example_submit :
  snd (submit_tx ver1 rich 0 9%N 9%N 5%N true good 1000) = SOk /\
  supply (fst (submit_tx ver1 rich 0 9%N 9%N 5%N true good 1000)) = 99 * COST /\
  bal (fst (submit_tx ver1 rich 0 9%N 9%N 5%N true good 1000)) 9%N = 3 * COST - 1000 - COST /\
  snd (submit_tx ver1 rich 0 9%N 9%N 5%N true upper 1000) = SPanicSave /\
  snd (submit_tx ver1 rich 0 9%N 9%N 6%N true good 1000) = SRejBasic /\
  snd (submit_tx ver1 rich 1 8%N 9%N 6%N true good 1000) = SRejBasicNested /\
  snd (submit_tx ver1 rich 3 8%N 9%N 5%N true good 1000) = SRejDepth /\
  bal (fst (submit_tx ver1 rich 2 8%N 9%N 5%N true good 1000)) 9%N = 2 * COST /\
  bal (fst (submit_tx ver1 rich 2 8%N 9%N 5%N true good 1000)) 8%N = 3 * COST - 1000 /\
  snd (submit_tx ver1 (fst (submit_tx ver1 rich 0 9%N 9%N 5%N true good 1000)) 0 8%N 8%N 5%N true good 1000) = SRejConflict /\
  snd (step ver1 rich (OIcaSubmit 9%N 5%N true good)) = RSubmit SOk /\
  bal (fst (step ver1 rich (OIcaSubmit 9%N 5%N true good))) 9%N = 2 * COST /\
  snd (step ver1 rich (OIcaSubmit 9%N 6%N true good)) = RSubmit SRejBasic.
Proof. vm_compute. repeat split; reflexivity. Qed.

Definition vest_sh (l : list msg) : shape :=
  {| msgs := l; ext_opts := []; noncrit := []; n_sigs := 1; n_infos := 1; payer := false; granter := false;
     s_memo := MemoNone; s_timeout := TNone; fee := [(0%N, 500000)]; gas_limit := 500000 |}.

Example C16_example_vesting :
  let proven := fst (submit_tx ver1 rich 0 9%N 9%N 5%N true good 1000) in
  snd (vesting_tx proven None (fun _ => None) (vest_sh [MVesting VCreate 5%N])) = VOk /\
  vested (fst (vesting_tx proven None (fun _ => None) (vest_sh [MVesting VCreate 5%N]))) 5%N = true /\
  snd (vesting_tx proven None (fun _ => None) (vest_sh [MOther 0; MVesting VPeriodic 6%N])) = VAnteRej /\
  snd (vesting_tx proven None (fun _ => None) (vest_sh [MExec [MVesting VCreate 5%N]])) = VAnteRej /\
  snd (vesting_tx proven None (fun _ => None) (vest_sh [MVesting VCreate 5%N; MVesting VPermanent 5%N])) = VExecFail /\
  accepted default_disabled MCheck (env_at proven None (fun _ => None)) (vest_sh [MOther 1; MVesting VCreate 5%N]) = true /\
  accepted default_disabled MReCheck (env_at rich None (fun _ => None)) (vest_sh [MOther 1; MVesting VCreate 5%N]) = false.
Proof. vm_compute. repeat split; reflexivity. Qed.

(* the hypotheses of C16_vesting_needs_proof_partial are met by a history that does create a vesting account *)
Definition hist1 : list (vop) :=
  [OSubmit 0 9%N 9%N 5%N true good 1000; OMint 3%N 77; OVestingTx None (fun _ => None) (vest_sh [MOther 0; MVesting VPermanent 5%N])].

Example C16_example_history :
  Forall (fun o => is_ica o = false) hist1 /\ inv rich /\ inv (run ver1 rich hist1) /\
  vested (run ver1 rich hist1) 5%N = true /\ has (run ver1 rich hist1) 5%N = true /\
  supply (run ver1 rich hist1) = 99 * COST + 77 /\ n_ok ver1 rich hist1 = 1.
Proof.
  assert (Hf : Forall (fun o => is_ica o = false) hist1) by (repeat constructor).
  assert (Hi : inv rich) by (intros a H; discriminate).
  split; [exact Hf|]. split; [exact Hi|]. split; [exact (C16_vesting_needs_proof_partial ver1 hist1 rich Hf Hi)|].
  vm_compute. repeat split; reflexivity.
Qed.
