(* C15 — EVM execution cannot destroy protected accounts or spend vesting-locked coins.
   Statements only; proofs are in Proofs/DestroyProofs.v, the model in Model/Destroy.v.

   [run_tx e w l] = the StateDB life of one transaction: the operations [l] (ANY list: raw calls, calls made by
   the interpreter, snapshots and reverts in any nesting) on world [w], then CommitMultiStore. [TxFailed] = a Go
   panic somewhere = BaseApp drops the transaction's message cache = the transaction fails as a whole.
   [e_now e] is the BLOCK time: the model has no other clock (after /repo commit 295ed89 neither has the code;
   the harness runs the code at block times from 1995 to 2100 and never reads the wall clock). *)
From Coq Require Import ZArith List Bool Lia.
From Evm Require Import Destroy DestroyProofs DestroyX DestroyXProofs.
Import ListNotations.
Open Scope Z_scope.

(* ---- 1. module accounts and vesting accounts that have not ended at block time (permanent locked ones never
        end) are, after a successful transaction, still there with the same type, schedule and account number *)
Theorem C15_protected_survive : forall e w l w' burns,
  run_tx e w l = TxOk w' burns ->
  forall a ac, w_acc w a = Some ac -> protected_kind (a_kind ac) (e_now e) = true ->
  exists ac', w_acc w' a = Some ac' /\ a_kind ac' = a_kind ac /\ a_num ac' = a_num ac.
Proof. exact protected_survive. Qed.
Print Assumptions C15_protected_survive.

(* ... and if the commit loop reaches one (touched, and self-destructed or empty) the transaction fails as a whole *)
Theorem C15_protected_reached_fails : forall e w l s a ac,
  run_ops e (init_sdb w) l = Ok s ->
  In a (f_touched (cur s)) -> w_acc (f_w (cur s)) a = Some ac -> protected_kind (a_kind ac) (e_now e) = true ->
  mem a (f_sd (cur s)) = true \/ is_empty (f_w (cur s)) a = true ->
  run_tx e w l = TxFailed.
Proof.
  intros e w l s a ac Hr Hin Ha Hp Hc. unfold run_tx. rewrite Hr.
  rewrite (commit_reaches_protected e (cur s) a ac Hin Ha Hp Hc). reflexivity.
Qed.
Print Assumptions C15_protected_reached_fails.

(* ... as does DestroyAccount / CreateAccount (CREATE collision, call to a "non-existing" address) on one *)
Theorem C15_destroy_or_create_on_protected_panics : forall e f a ac,
  w_acc (f_w f) a = Some ac -> protected_kind (a_kind ac) (e_now e) = true ->
  fstep e f (DestroyAccount a) = Panic /\ fstep e f (CreateAccount a) = Panic.
Proof.
  intros e f a ac Ha Hp. cbn [fstep]. unfold create_account. cbn [touch f_w].
  rewrite (destroy_protected_panics e (f_w f) a ac Ha Hp). split; reflexivity.
Qed.
Print Assumptions C15_destroy_or_create_on_protected_panics.

(* ---- 2. an account that exists before a successful transaction and not after it was, at commit time, either
        self-destructed or empty; the interpreter never calls DestroyAccount itself (only CreateAccount and the
        commit loop do), hence [not_raw_destroy] *)
Theorem C15_no_nonempty_deleted : forall e w l w' burns a,
  Forall not_raw_destroy l ->
  run_tx e w l = TxOk w' burns -> w_acc w a <> None -> ~ (w_acc w' a <> None) ->
  exists s, run_ops e (init_sdb w) l = Ok s /\
            (mem a (f_sd (cur s)) = true \/ is_empty (f_w (cur s)) a = true).
Proof. exact no_nonempty_deleted. Qed.
Print Assumptions C15_no_nonempty_deleted.

(* "empty" is: no code, no balance of ANY denomination, nonce 0, no storage slot *)
Theorem C15_empty_means_empty : forall w a,
  is_empty w a = true <->
  w_code w a = 0 /\ (forall d, amt (w_bal w a) d = 0) /\ nonce_at w a = 0 /\ w_stor w a = [].
Proof. exact is_empty_spec. Qed.
Print Assumptions C15_empty_means_empty.

(* mid-transaction the interpreter replaces no account that has code or a non-zero nonce: every operation of a trace
   satisfying [evm_step_ok] (CreateAccount only on a non-existing or code-less nonce-0 address; the harness checks
   this on every trace the real interpreter produces) keeps its account number and type and changes its nonce / code /
   storage only by SetNonce / SetCode / SetState on that very address.  For ALL frames, not only reachable ones. *)
Theorem C15_interpreter_step_keeps_contracts : forall e f o f' a ac,
  fstep e f o = Ok f' -> evm_step_ok f o = true ->
  w_acc (f_w f) a = Some ac -> (a_nonce ac <> 0 \/ w_code (f_w f) a <> 0) ->
  exists ac', w_acc (f_w f') a = Some ac' /\ a_num ac' = a_num ac /\ a_kind ac' = a_kind ac /\
    (a_nonce ac' = a_nonce ac \/ o = SetNonce a (a_nonce ac')) /\
    (w_code (f_w f') a = w_code (f_w f) a \/ o = SetCode a (w_code (f_w f') a)) /\
    (w_stor (f_w f') a = w_stor (f_w f) a \/ exists k v, o = SetState a k v).
Proof. exact evm_step_keeps_contracts. Qed.
Print Assumptions C15_interpreter_step_keeps_contracts.

(* over whole transactions, with any nesting of snapshots and reverts: a contract either self-destructed or is
   still the same account (number, type) and still has code or a non-zero nonce *)
Theorem C15_contract_survives : forall e w l w' burns a ac,
  evm_trace e (init_sdb w) l = true -> Forall (keeps_nonzero a) l ->
  run_tx e w l = TxOk w' burns ->
  w_acc w a = Some ac -> (a_nonce ac <> 0 \/ w_code w a <> 0) ->
  (exists s, run_ops e (init_sdb w) l = Ok s /\ mem a (f_sd (cur s)) = true) \/
  (exists ac', w_acc w' a = Some ac' /\ a_num ac' = a_num ac /\ a_kind ac' = a_kind ac /\
               (a_nonce ac' <> 0 \/ w_code w' a <> 0)).
Proof. exact contract_survives. Qed.
Print Assumptions C15_contract_survives.

(* ---- 3. deleted means gone: account record, every denomination, code hash, all storage (ANY operations) *)
Theorem C15_destroy_complete : forall e w l w' burns a,
  run_tx e w l = TxOk w' burns -> w_acc w a <> None -> ~ (w_acc w' a <> None) ->
  w_acc w' a = None /\ (forall d, amt (w_bal w' a) d = 0) /\ w_code w' a = 0 /\ w_stor w' a = [].
Proof. exact destroy_complete. Qed.
Print Assumptions C15_destroy_complete.

(* and everything the commit loop decides to destroy is gone, with or without an account record, from ANY frame *)
Theorem C15_commit_destroys_completely : forall e f w' burns a,
  commit e f = Ok (w', burns) -> In a (f_touched f) ->
  mem a (f_sd f) = true \/ is_empty (f_w f) a = true ->
  w_acc w' a = None /\ (forall d, amt (w_bal w' a) d = 0) /\ w_code w' a = 0 /\ w_stor w' a = [].
Proof. exact commit_destroys. Qed.
Print Assumptions C15_commit_destroys_completely.

(* ---- 4. coins locked by vesting at block time cannot be spent: for every account and denomination, a successful
        transaction leaves at least min(balance before, locked amount of the account's schedule at block time) *)
Theorem C15_locked_unspendable : forall e w l w' burns a ac d,
  wf_world w -> run_tx e w l = TxOk w' burns -> w_acc w a = Some ac ->
  Z.min (amt (w_bal w a) d) (locked_kind (a_kind ac) (e_now e) d) <= amt (w_bal w' a) d.
Proof. exact locked_unspendable. Qed.
Print Assumptions C15_locked_unspendable.

Theorem C15_sub_balance_respects_lock : forall e f a v f',
  sub_balance e f a v = Ok f' -> v <> 0 ->
  locked_kind (kind_at (f_w f) a) (e_now e) evm_denom <= amt (w_bal (f_w f') a) evm_denom.
Proof. exact sub_balance_respects_lock. Qed.
Print Assumptions C15_sub_balance_respects_lock.

(* an account the guard lets through (not protected at block time) has nothing locked at block time *)
Theorem C15_destroyable_has_nothing_locked : forall k t d,
  wf_kind k -> protected_kind k t = false -> locked_kind k t d = 0.
Proof. exact unprotected_unlocked. Qed.
Print Assumptions C15_destroyable_has_nothing_locked.

(* ---- 5. (serves C01) the commit result — world and the order of bank burns — depends on the SET of touched
        addresses only, not on the order in which they were recorded (Go map order) nor on duplicates *)
Theorem C15_commit_independent_of_touched_order : forall e w sd t1 t2,
  (forall x, In x t1 <-> In x t2) -> commit e (mkFrame w t1 sd) = commit e (mkFrame w t2 sd).
Proof. exact commit_order_independent. Qed.
Print Assumptions C15_commit_independent_of_touched_order.

(* ================================================================================================================
   Transactions in which OTHER MODULES write between the StateDB's operations.  [run_xtx e w l]: [l] is any interleaving
   of StateDB operations ([XOp]) and of bank / auth writes made on the StateDB's current context behind its back -
   ERC-20 precompile transfer / transferFrom ([XSend]), burn ([XBurn]), staking precompile delegate ([XDelegate]) - in any
   nesting of snapshots and reverts; then CommitMultiStore, which decides on the world AS IT IS THEN.
   (Model/DestroyX.v; the driver records these writes from the precompiles' logs and makes some itself.) *)

(* ---- 1x. protected accounts survive with their type, schedule and account number (a staking delegation may move
         coins of a vesting account into its delegated-vesting counter: [kind_sim] ignores that counter only) *)
Theorem C15_x_protected_survive : forall e w l w' burns,
  run_xtx e w l = TxOk w' burns ->
  forall a ac, w_acc w a = Some ac -> protected_kind (a_kind ac) (e_now e) = true ->
  exists ac', w_acc w' a = Some ac' /\ kind_sim (a_kind ac) (a_kind ac') /\ a_num ac' = a_num ac.
Proof. exact xprotected_survive. Qed.
Print Assumptions C15_x_protected_survive.

(* ---- 2x. an account that exists before a successful transaction and not after it was self-destructed, or EMPTY IN THE
         WORLD THE COMMIT STARTED FROM: [s] is the state after the last operation of [l], foreign writes included *)
Theorem C15_x_no_nonempty_deleted : forall e w l w' burns a,
  Forall xnot_raw_destroy l ->
  run_xtx e w l = TxOk w' burns -> w_acc w a <> None -> ~ (w_acc w' a <> None) ->
  exists s, run_xops e (init_sdb w) l = Ok s /\
            (mem a (f_sd (cur s)) = true \/ is_empty (f_w (cur s)) a = true).
Proof. exact xno_nonempty_deleted. Qed.
Print Assumptions C15_x_no_nonempty_deleted.

(* the commit, address by address: deleted completely iff touched and (self-destructed or empty at commit time);
   exactly as it was otherwise - account record, every balance, code, storage *)
Theorem C15_commit_exact : forall e f w' burns a,
  commit e f = Ok (w', burns) ->
  (In a (f_touched f) /\ (mem a (f_sd f) = true \/ is_empty (f_w f) a = true) /\
   w_acc w' a = None /\ (forall d, amt (w_bal w' a) d = 0) /\ w_code w' a = 0 /\ w_stor w' a = []) \/
  (~ (In a (f_touched f) /\ (mem a (f_sd f) = true \/ is_empty (f_w f) a = true)) /\
   w_acc w' a = w_acc (f_w f) a /\ w_bal w' a = w_bal (f_w f) a /\ w_code w' a = w_code (f_w f) a /\
   w_stor w' a = w_stor (f_w f) a).
Proof. exact commit_exact. Qed.
Print Assumptions C15_commit_exact.

(* what the memoized-emptiness defect broke: whenever and however often an address was touched or asked about, if
   it is not empty when the commit starts (say because a precompile paid it since) and did not self-destruct, it keeps
   everything *)
Theorem C15_x_touched_nonempty_survives : forall e w l s w' burns a,
  run_xops e (init_sdb w) l = Ok s -> run_xtx e w l = TxOk w' burns ->
  mem a (f_sd (cur s)) = false -> is_empty (f_w (cur s)) a = false ->
  w_acc w' a = w_acc (f_w (cur s)) a /\ w_bal w' a = w_bal (f_w (cur s)) a /\
  w_code w' a = w_code (f_w (cur s)) a /\ w_stor w' a = w_stor (f_w (cur s)) a.
Proof. exact xtouched_nonempty_survives. Qed.
Print Assumptions C15_x_touched_nonempty_survives.

(* ---- 3x. deleted means gone, whatever was written by whom *)
Theorem C15_x_destroy_complete : forall e w l w' burns a,
  run_xtx e w l = TxOk w' burns -> w_acc w a <> None -> ~ (w_acc w' a <> None) ->
  w_acc w' a = None /\ (forall d, amt (w_bal w' a) d = 0) /\ w_code w' a = 0 /\ w_stor w' a = [].
Proof. exact xdestroy_complete. Qed.
Print Assumptions C15_x_destroy_complete.

(* ---- 4x. locked coins of a protected account are, after a successful transaction, still in its balance or were
         delegated and are counted as delegated vesting (D = growth of that counter, never negative; what bank calls
         locked shrank by exactly D): no write of any module spends them *)
Theorem C15_x_locked_unspendable : forall e w l w' burns a ac,
  run_xtx e w l = TxOk w' burns -> w_acc w a = Some ac -> protected_kind (a_kind ac) (e_now e) = true ->
  exists ac', w_acc w' a = Some ac' /\ kind_sim (a_kind ac) (a_kind ac') /\ a_num ac' = a_num ac /\
    forall d, 0 <= delv_of (a_kind ac') d - delv_of (a_kind ac) d /\
      locked_kind (a_kind ac') (e_now e) d
        = locked_kind (a_kind ac) (e_now e) d - (delv_of (a_kind ac') d - delv_of (a_kind ac) d) /\
      Z.min (amt (w_bal w a) d) (locked_kind (a_kind ac) (e_now e) d) - (delv_of (a_kind ac') d - delv_of (a_kind ac) d)
        <= amt (w_bal w' a) d.
Proof. intros e w l w' burns a ac H. exact (xlocked_unspendable e w l w' burns H a ac). Qed.
Print Assumptions C15_x_locked_unspendable.

(* without delegations: the statement of clause 4 as it is, for every account (unprotected ones have nothing locked) *)
Theorem C15_x_locked_unspendable_no_delegation : forall e w l w' burns a ac d,
  wf_world w -> Forall not_delegate l -> run_xtx e w l = TxOk w' burns -> w_acc w a = Some ac ->
  Z.min (amt (w_bal w a) d) (locked_kind (a_kind ac) (e_now e) d) <= amt (w_bal w' a) d.
Proof. exact xlocked_unspendable_nodelegate. Qed.
Print Assumptions C15_x_locked_unspendable_no_delegation.

(* one delegation: the counter grows by min(locked, amount) in the delegated denomination and locked shrinks by it *)
Theorem C15_delegation_moves_locked_into_delegated_vesting : forall sc t d v d',
  0 < v ->
  let sc' := track_delegation sc t d v in
  let D := amt (s_delv sc') d' - amt (s_delv sc) d' in
  0 <= D /\ locked_sched sc' t d' = locked_sched sc t d' - D /\
  (d' <> d -> D = 0) /\ (d' = d -> D = Z.min (locked_sched sc t d) v).
Proof. exact track_delegation_lock. Qed.
Print Assumptions C15_delegation_moves_locked_into_delegated_vesting.

(* ---- 2x'. contracts survive mixed traces *)
Theorem C15_x_contract_survives : forall e w l w' burns a ac,
  xevm_trace e (init_sdb w) l = true -> Forall (xkeeps_nonzero a) l ->
  run_xtx e w l = TxOk w' burns ->
  w_acc w a = Some ac -> (a_nonce ac <> 0 \/ w_code w a <> 0) ->
  (exists s, run_xops e (init_sdb w) l = Ok s /\ mem a (f_sd (cur s)) = true) \/
  (exists ac', w_acc w' a = Some ac' /\ a_num ac' = a_num ac /\ kind_sim (a_kind ac) (a_kind ac') /\
               (a_nonce ac' <> 0 \/ w_code w' a <> 0)).
Proof. exact xcontract_survives. Qed.
Print Assumptions C15_x_contract_survives.

(* the model of Destroy.v is the special case without foreign writes *)
Theorem C15_x_conservative : forall e w l, run_xtx e w (map XOp l) = run_tx e w l.
Proof. exact run_xtx_plain. Qed.
Print Assumptions C15_x_conservative.

(* ================================================================================================================
   The raw x/evm store under the per-address maps: keys are byte strings, storage of address a lives under
   2 ++ a(20 bytes) ++ slot(32 bytes), its code hash under 4 ++ a. *)

(* KVStorePrefixIterator's range [p, PrefixEndBytes(p)) - increment with carry, no upper bound when every byte is
   0xff - is exactly the set of keys that start with p: for EVERY prefix, whatever bytes it ends in *)
Theorem C15_prefix_range_is_prefix_set : forall p k,
  Forall byte_ok p -> Forall byte_ok k -> in_range p (prefix_end p) k = has_prefix p k.
Proof. exact prefix_range_spec. Qed.
Print Assumptions C15_prefix_range_is_prefix_set.

(* DestroyAccount on the raw store (DeleteCodeHash; ForEachStorage + SetState(key, nil)) leaves, for EVERY address, no key
   under its storage prefix and no code-hash key - a set comprehension over the whole raw store *)
Theorem C15_raw_wipe_complete : forall r a,
  wf_raw r = true ->
  filter (fun kv => has_prefix (stor_prefix a) (fst kv)) (raw_wipe r a) = [] /\
  raw_get (raw_wipe r a) (codehash_key a) = None.
Proof. exact raw_wipe_complete. Qed.
Print Assumptions C15_raw_wipe_complete.

(* ... and removes nothing else: not the neighbour's keys, not another prefix *)
Theorem C15_raw_wipe_only : forall r a kv,
  wf_raw r = true -> has_prefix (stor_prefix a) (fst kv) = false -> fst kv <> codehash_key a ->
  (In kv (raw_wipe r a) <-> In kv r).
Proof. exact raw_wipe_only. Qed.
Print Assumptions C15_raw_wipe_only.

(* it implements [destroy] of the per-address model, for every address *)
Theorem C15_raw_destroy_refines : forall e r w a w',
  wf_raw r = true -> represents r w -> addr_ok a -> destroy e w a = Ok w' -> represents (raw_wipe r a) w'.
Proof. exact raw_destroy_refines. Qed.
Print Assumptions C15_raw_destroy_refines.

(* ---- 3r. deleted by a successful transaction => NO key of the address in any raw store that the resulting world is
         a view of (the driver checks [represents] on the scanned store after every commit) *)
Theorem C15_destroy_complete_raw : forall e w l w' burns a r,
  run_xtx e w l = TxOk w' burns -> w_acc w a <> None -> ~ (w_acc w' a <> None) ->
  wf_raw r = true -> represents r w' -> addr_ok a ->
  filter (fun kv => has_prefix (stor_prefix a) (fst kv)) r = [] /\ raw_get r (codehash_key a) = None.
Proof. exact xdestroy_complete_raw. Qed.
Print Assumptions C15_destroy_complete_raw.

(* the seeded iteration bound (last byte incremented, no carry) is not that set: at an address ending in 0xff the
   correct iteration visits the slot, the seeded one visits nothing *)
Theorem C15_nocarry_bound_refuted :
  let a := 255 in
  let r := [(stor_prefix a ++ be_bytes 32 1, 42)] in
  wf_raw r = true /\ filter (fun kv => has_prefix (stor_prefix a) (fst kv)) r = r /\
  iter_prefix r (stor_prefix a) = r /\ iter_nocarry r (stor_prefix a) = [].
Proof. exact nocarry_misses. Qed.
Print Assumptions C15_nocarry_bound_refuted.

(* ------------------------------------------------------------------ non-vacuity *)

Definition empty_world : world := mkWorld (fun _ => None) (fun _ => []) (fun _ => 0) (fun _ => []) 50.
Definition put (w : world) (a : addr) (ac : account) (c : coins) (h : Z) (s : storage) : world :=
  mkWorld (upd (w_acc w) a (Some ac)) (upd (w_bal w) a c) (upd (w_code w) a h) (upd (w_stor w) a s) (w_next w).

Definition delayed (end_ : Z) (orig delv : coins) : kind := Vesting (mkSched VDelayed 0 end_ orig delv []).
Definition permanent (orig delv : coins) : kind := Vesting (mkSched VPermanent 0 0 orig delv []).

(* block time 2000; 1 = fee collector (module, blocked), 2 = delayed vesting ending at 3000 with everything
   delegated (zero balance, nonce 0), 3 = the same ended at 1000, 4 = permanent locked, all delegated,
   5 = contract holding 7 wei and 100 utwo, 6 = wallet, 7 = delayed vesting until 3000 holding 1000 locked + 50 free *)
Definition ex_env : env := mkEnv 2000 (fun a => a =? 1).
Definition ex_world : world :=
  put (put (put (put (put (put (put empty_world
    1 (mkAcc Module 0 1) [] 0 [])
    2 (mkAcc (delayed 3000 [(0, 1000)] [(0, 1000)]) 0 2) [] 0 [])
    3 (mkAcc (delayed 1000 [(0, 1000)] [(0, 1000)]) 0 3) [] 0 [])
    4 (mkAcc (permanent [(0, 1000)] [(0, 1000)]) 0 4) [] 0 [])
    5 (mkAcc Base 1 5) [(0, 7); (1, 100)] 77 [(1, 9); (2, 0)])
    6 (mkAcc Base 3 6) [(0, 500)] 0 [])
    7 (mkAcc (delayed 3000 [(0, 1000)] []) 0 7) [(0, 1050)] 0 [].

Definition view (r : txres) (a : addr) :=
  match r with
  | TxOk w b => Some (w_acc w a, w_bal w a, w_code w a, w_stor w a, b)
  | TxFailed => None
  end.

(* anybody's zero-value call: the ended vesting account 3 is deleted as touched-empty ... *)
Example C15_ex_touch_expired :
  view (run_tx ex_env ex_world [AddBalance 3 0]) 3 = Some (None, [], 0, [], []).
Proof. vm_compute. reflexivity. Qed.
(* ... the one that has not ended at block time (2), the permanent locked one (4) and the module account (1) make
   the same transaction fail as a whole (the hypotheses of C15_protected_reached_fails are met) *)
Example C15_ex_touch_protected :
  run_tx ex_env ex_world [AddBalance 2 0] = TxFailed /\ run_tx ex_env ex_world [AddBalance 4 0] = TxFailed /\
  run_tx ex_env ex_world [AddBalance 1 0] = TxFailed /\ run_tx ex_env ex_world [CreateAccount 2] = TxFailed.
Proof. vm_compute. auto. Qed.
(* a self-destructing contract: paid 5 wei first, beneficiary 6; its utwo is burnt by the commit loop; all gone *)
Example C15_ex_selfdestruct :
  view (run_tx ex_env ex_world [Snapshot; SubBalance 6 5; AddBalance 5 5; AddBalance 6 12; Suicide 5]) 5
  = Some (None, [], 0, [], [(5, [(0, 0); (1, 100)])]).
Proof. vm_compute. reflexivity. Qed.
(* locked coins: account 7 can send its 50 free wei but not 51; a successful transaction leaves >= 1000 *)
Example C15_ex_locked :
  run_tx ex_env ex_world [SubBalance 7 51] = TxFailed /\
  view (run_tx ex_env ex_world [SubBalance 7 50; AddBalance 6 50]) 7
  = Some (Some (mkAcc (delayed 3000 [(0, 1000)] []) 0 7), [(0, 1000)], 0, [], []).
Proof. vm_compute. auto. Qed.
(* a reverted frame: the CreateAccount at the ended vesting account 3 is undone, then 3 is only touched *)
Example C15_ex_revert :
  view (run_tx ex_env ex_world [Snapshot; CreateAccount 3; SetNonce 3 1; RevertTo 0]) 3
  = Some (Some (mkAcc (delayed 1000 [(0, 1000)] [(0, 1000)]) 0 3), [], 0, [], []).
Proof. vm_compute. reflexivity. Qed.
(* the guard of interpreter traces holds for what evm.Call / evm.create do, and fails for a CreateAccount on a contract *)
Example C15_ex_evm_trace :
  evm_trace ex_env (init_sdb ex_world) [Snapshot; CreateAccount 9; SubBalance 6 1; AddBalance 9 1; CreateAccount 3; SetNonce 3 1] = true /\
  evm_trace ex_env (init_sdb ex_world) [CreateAccount 5] = false.
Proof. vm_compute. auto. Qed.
Example C15_ex_wf : wf_world ex_world.
Proof.
  split.
  - intros x d. unfold ex_world, put, empty_world, upd. cbn [w_bal].
    repeat (destruct (x =? _); [cbn [amt]; repeat (destruct (_ =? d)); lia|]).
    cbn. lia.
  - intros a ac. unfold ex_world, put, empty_world, upd. cbn [w_acc].
    repeat (destruct (a =? _); [intros H; injection H as <-; unfold permanent, delayed; cbn [wf_kind a_kind s_delv s_kind]; try exact I;
            (split; [intros d; cbn [amt]; repeat (destruct (_ =? d)); lia | exact I])|]).
    intros H. discriminate.
Qed.

(* ---- foreign writes *)
(* 9 is a fresh address: touched by a zero-value AddBalance (a self-destruct beneficiary, say), then paid 5 wei by the
   ERC-20 precompile out of wallet 6: it is kept, with its 5 wei and a new account record *)
Example C15_ex_touched_then_paid :
  view (run_xtx ex_env ex_world [XOp (AddBalance 9 0); XSend 6 9 0 5 true]) 9
  = Some (Some (mkAcc Base 0 50), [(0, 5)], 0, [], []).
Proof. vm_compute. reflexivity. Qed.
(* the other direction: contract 5's 100 utwo ... first an address that holds only coins of another denomination:
   10 holds 30 utwo and no account; it is touched, then a transferFrom moves the 30 utwo away: it is empty at commit time
   and deleted as a touched empty address (nothing of it is left); wallet 6 received the coins *)
Definition ex_world2 : world :=
  mkWorld (w_acc ex_world) (upd (w_bal ex_world) 10 [(1, 30)]) (w_code ex_world) (w_stor ex_world) (w_next ex_world).
Example C15_ex_funded_then_drained :
  view (run_xtx ex_env ex_world2 [XOp (AddBalance 10 0); XSend 10 6 1 30 true]) 10 = Some (None, [], 0, [], []) /\
  view (run_xtx ex_env ex_world2 [XOp (AddBalance 10 0); XSend 10 6 1 30 true]) 6
  = Some (Some (mkAcc Base 3 6), [(0, 500); (1, 30)], 0, [], []).
Proof. vm_compute. auto. Qed.
(* locked coins cannot leave through a precompile either: account 7 (1000 locked + 50 free) can send 50, not 51 -
   the model refuses where bank refuses ([xagree]) *)
Example C15_ex_foreign_locked :
  xagree ex_env (init_sdb ex_world) [XSend 7 6 0 51 false; XSend 7 6 0 50 true] = true /\
  xagree ex_env (init_sdb ex_world) [XSend 7 6 0 51 true] = false.
Proof. vm_compute. auto. Qed.
(* a delegation of 300 by account 7: balance 750, 300 counted as delegated vesting, 700 still locked *)
Example C15_ex_delegate :
  match run_xtx ex_env ex_world [XDelegate 7 1 0 300 true] with
  | TxOk w _ => Some (w_acc w 7, w_bal w 7, locked_kind (kind_at w 7) 2000 0)
  | TxFailed => None
  end = Some (Some (mkAcc (delayed 3000 [(0, 1000)] [(0, 300)]) 0 7), [(0, 750)], 700).
Proof. vm_compute. reflexivity. Qed.
(* raw store: an address that ends in 0xff ... 0xff (carry through every byte of the address into the prefix byte) *)
Example C15_ex_raw_wipe_all_ff :
  let a := 2 ^ 160 - 1 in
  let r := [(stor_prefix (a - 1) ++ be_bytes 32 7, 1); (stor_prefix a ++ be_bytes 32 0, 2);
            (stor_prefix a ++ be_bytes 32 (2 ^ 256 - 1), 3); (codehash_key a, 9); ([5; 0], 4)] in
  wf_raw r = true /\ raw_wipe r a = [(stor_prefix (a - 1) ++ be_bytes 32 7, 1); ([5; 0], 4)] /\
  abs_stor r a = [(0, 2); (2 ^ 256 - 1, 3)].
Proof. vm_compute. auto. Qed.
