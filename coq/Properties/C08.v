(* C08 -- Simulation and query paths are side-effect free and predict execution.
   Statements only; models are Model/Query.v on Model/CacheStack.v, proofs in Proofs/QueryProofs.v.
   Simulated code is an arbitrary adaptive program over the StateDB interface and the current context
   (contract creation, self-destruct, writes of any module through precompiles, nested snapshots). *)
From Evm Require Import CacheStack Journal CacheStackProofs Query QueryProofs.
Open Scope N_scope.

(* commit=false (EthCall, EstimateGas, traceTx without commit): the caller's context -- every store of
   every module and its events -- is exactly what it was, whatever the program does *)
Theorem C08_query_pure : forall R (p : prog R) ctx ev, commit_free p ->
  ctx_after_no_commit ctx ev p = (ctx, ev).
Proof. exact query_pure. Qed.
Print Assumptions C08_query_pure.

(* the same from any StateDB state: no operation other than Commit writes the original context *)
Theorem C08_exec_pure : forall R (p : prog R) s, commit_free p ->
  orig (fst (exec s p)) = orig s /\ orig_ev (fst (exec s p)) = orig_ev s /\ committed (fst (exec s p)) = committed s.
Proof. exact exec_pure. Qed.
Print Assumptions C08_exec_pure.

(* check-tx trial execution (993e): runs on a branch that is dropped *)
Theorem C08_trial_exec_pure : forall R (p : prog R) ctx ev rb, fst (trial_exec ctx ev rb p) = (ctx, ev).
Proof. exact trial_exec_pure. Qed.
Print Assumptions C08_trial_exec_pure.

(* results depend only on the committed state (extensionally) and the request *)
Theorem C08_result_depends_only_on_state_and_request : forall R (p : prog R) c1 c2 ev,
  (forall k, c1 k = c2 k) -> run_no_commit c1 ev p = run_no_commit c2 ev p.
Proof. exact query_depends_only_on_state. Qed.
Print Assumptions C08_result_depends_only_on_state_and_request.

(* prediction: delivering the same program on the same state gives the same result, and what is
   committed is the view the simulation ended with *)
Theorem C08_call_predicts_deliver : forall R (p : prog R) ctx ev d, commit_free p ->
  snd (run_commit ctx ev p d) = run_no_commit ctx ev p /\
  forall k, fst (run_commit ctx ev p d) k = kv_over d (view (fst (exec (init ctx ev) p))) k.
Proof. exact call_predicts_deliver. Qed.
Print Assumptions C08_call_predicts_deliver.

(* every probe of the estimator leaves the context as it was, so the executable is a function of gas *)
Theorem C08_estimate_probes_pure : forall ctx ev (call : N -> prog exres) g, (forall g, commit_free (call g)) ->
  ctx_after_no_commit ctx ev (call g) = (ctx, ev).
Proof. exact exec_of_stable. Qed.
Print Assumptions C08_estimate_probes_pure.

(* a returned estimate is a gas limit the executable succeeded with -- for an ARBITRARY executable:
   no monotonicity (63/64 rule, GAS-dependent branches, refunds), uint64 wrap-around included *)
Theorem C08_estimate_is_sufficient : forall ex gas_cap args_gas max_gas g,
  estimate_gas ex gas_cap args_gas max_gas = EstOk g -> ex g = ExOk.
Proof. exact estimate_is_sufficient. Qed.
Print Assumptions C08_estimate_is_sufficient.

(* the fuel of the model is not what makes the previous theorem true *)
Theorem C08_estimate_never_out_of_fuel : forall ex gas_cap args_gas max_gas,
  2 * est_hi gas_cap args_gas max_gas <= U64 ->
  estimate_gas ex gas_cap args_gas max_gas <> EstFuel.
Proof. exact estimate_never_out_of_fuel. Qed.
Print Assumptions C08_estimate_never_out_of_fuel.

(* for a monotone executable the search returns the threshold itself *)
Theorem C08_bin_search_exact_if_monotone : forall fuel ex lo hi T h,
  (forall g, ex g = if g <? T then ExOOG else ExOk) -> 2 * hi <= U64 ->
  lo < T -> T <= hi -> bin_search fuel ex lo hi = BHi h -> h = T.
Proof. exact bin_search_monotone. Qed.
Print Assumptions C08_bin_search_exact_if_monotone.

(* non-vacuity: a program that creates, writes through "another module", self-destructs and reverts;
   a non-monotone executable for which the estimate is still a success; error classes are reachable *)
Definition ex_prog : prog (option val * N) :=
  PDo (KvSet 1 10) (fun _ => PDo Snapshot (fun _ => PDo (KvSet 2 20) (fun _ => PDo (SdAdd 5) (fun _ =>
  PRead 2 (fun v => PDo (RevertTo 0) (fun _ => PDo (AddRefund 7) (fun _ => PSide (fun c => PRet (v, refund c))))))))).
Definition ex_nonmono (g : N) : exres :=           (* succeeds on [55000,62000) and from 90000 on *)
  if (55000 <=? g) && (g <? 62000) then ExOk else if 90000 <=? g then ExOk else ExOOG.
Example C08_example :
  commit_free ex_prog /\
  run_no_commit (fun _ => None) [] ex_prog = (Some 20, 7) /\
  fst (run_commit (fun _ => None) [] ex_prog []) 1 = Some 10 /\
  fst (run_commit (fun _ => None) [] ex_prog []) 2 = None /\
  estimate_gas ex_nonmono 100000 None 0 = EstOk 55000 /\ ex_nonmono 55000 = ExOk /\ ex_nonmono 70000 = ExOOG /\
  estimate_gas (fun _ => ExOOG) 100000 None 0 = EstAllowance /\
  estimate_gas (fun _ => ExRevert) 100000 (Some 50000) 0 = EstVmError /\
  estimate_gas (fun g => if g <? 60000 then ExErr else ExOk) 100000 None 0 = EstBail /\
  estimate_gas ex_nonmono 20999 None 0 = EstInvalidArg /\
  (* uint64 wrap-around of hi+lo for a cap near 2^64: still a tested success *)
  estimate_gas (fun _ => ExOk) 18446744073709551615 None 0 = EstOk 10499.
Proof.
  split; [repeat (constructor; intros)|]. vm_compute. repeat split; reflexivity.
Qed.
