(* C08 -- Simulation and query paths are side-effect free and predict execution.
   Statements only; models are Model/Query.v on Model/CacheStack.v, proofs in Proofs/QueryProofs.v.
   Simulated code is an arbitrary adaptive program over the StateDB interface and the current context
   (contract creation, self-destruct, writes of any module through precompiles, nested snapshots). *)
From Evm Require Import CacheStack Journal CacheStackProofs Query QueryProofs.
Open Scope N_scope.

(* commit=false (EthCall, EstimateGas, traceTx without commit): the caller's context -- every store of
   every module and its events -- is exactly what it was, whatever the program does *)
Theorem C08_query_pure : forall R (p : prog R) ctx ev, commit_free p ->
  ctx_after_no_commit ctx ev p = (ctx, ev).
Proof. exact query_pure. Qed.
Print Assumptions C08_query_pure.

(* the same from any StateDB state: no operation other than Commit writes the original context *)
Theorem C08_exec_pure : forall R (p : prog R) s, commit_free p ->
  orig (fst (exec s p)) = orig s /\ orig_ev (fst (exec s p)) = orig_ev s /\ committed (fst (exec s p)) = committed s.
Proof. exact exec_pure. Qed.
Print Assumptions C08_exec_pure.

(* check-tx trial execution (993e): runs on a branch that is dropped *)
Theorem C08_trial_exec_pure : forall R (p : prog R) ctx ev rb, fst (trial_exec ctx ev rb p) = (ctx, ev).
Proof. exact trial_exec_pure. Qed.
Print Assumptions C08_trial_exec_pure.

(* results depend only on the committed state (extensionally) and the request *)
Theorem C08_result_depends_only_on_state_and_request : forall R (p : prog R) c1 c2 ev,
  (forall k, c1 k = c2 k) -> run_no_commit c1 ev p = run_no_commit c2 ev p.
Proof. exact query_depends_only_on_state. Qed.
Print Assumptions C08_result_depends_only_on_state_and_request.

(* prediction: delivering the same program on the same state gives the same result, and what is
   committed is the view the simulation ended with *)
Theorem C08_call_predicts_deliver : forall R (p : prog R) ctx ev d, commit_free p ->
  snd (run_commit ctx ev p d) = run_no_commit ctx ev p /\
  forall k, fst (run_commit ctx ev p d) k = kv_over d (view (fst (exec (init ctx ev) p))) k.
Proof. exact call_predicts_deliver. Qed.
Print Assumptions C08_call_predicts_deliver.

(* every probe of the estimator leaves the context as it was, so the executable is a function of gas *)
Theorem C08_estimate_probes_pure : forall ctx ev (call : N -> prog exres) g, (forall g, commit_free (call g)) ->
  ctx_after_no_commit ctx ev (call g) = (ctx, ev).
Proof. exact exec_of_stable. Qed.
Print Assumptions C08_estimate_probes_pure.

(* a returned estimate is a gas limit the executable succeeded with -- for an ARBITRARY executable:
   no monotonicity (63/64 rule, GAS-dependent branches, refunds), uint64 wrap-around included *)
Theorem C08_estimate_is_sufficient : forall ex gas_cap args_gas max_gas g,
  estimate_gas ex gas_cap args_gas max_gas = EstOk g -> ex g = ExOk.
Proof. exact estimate_is_sufficient. Qed.
Print Assumptions C08_estimate_is_sufficient.

(* the fuel of the model is not what makes the previous theorem true: for EVERY uint64 cap the search ends within 65
   probes (since /repo 81e4910 the midpoint is lo + (hi-lo)/2; before, hi+lo wrapped around for caps above 2^63 and
   the search could cycle: C08_wrapping_midpoint_search_cycles) *)
Theorem C08_estimate_never_out_of_fuel : forall ex gas_cap args_gas max_gas,
  est_hi gas_cap args_gas max_gas < U64 ->
  estimate_gas ex gas_cap args_gas max_gas <> EstFuel.
Proof. exact estimate_never_out_of_fuel. Qed.
Print Assumptions C08_estimate_never_out_of_fuel.

(* for a monotone executable the search returns the threshold itself *)
Theorem C08_bin_search_exact_if_monotone : forall fuel ex lo hi T h,
  (forall g, ex g = if g <? T then ExOOG else ExOk) -> hi < U64 ->
  lo < T -> T <= hi -> bin_search fuel ex lo hi = BHi h -> h = T.
Proof. exact bin_search_monotone. Qed.
Print Assumptions C08_bin_search_exact_if_monotone.

(* no false "gas required exceeds allowance": when the call succeeds with the highest gas limit that may be
   tried (and no probe is a consensus error) an estimate is returned, within (20999, cap] *)
Theorem C08_estimate_complete : forall ex gas_cap args_gas max_gas,
  TxGas <= gas_cap -> est_hi gas_cap args_gas max_gas < U64 ->
  (forall g, ex g <> ExErr) -> ex (est_hi gas_cap args_gas max_gas) = ExOk ->
  exists g, estimate_gas ex gas_cap args_gas max_gas = EstOk g /\ g <= est_hi gas_cap args_gas max_gas /\
            (TxGas <= est_hi gas_cap args_gas max_gas -> TxGas <= g).
Proof. exact estimate_complete. Qed.
Print Assumptions C08_estimate_complete.

(* an estimate never exceeds the highest gas limit that may be tried, which never exceeds the node's gas cap *)
Theorem C08_estimate_le_cap : forall ex gas_cap args_gas max_gas g,
  est_hi gas_cap args_gas max_gas < U64 ->
  estimate_gas ex gas_cap args_gas max_gas = EstOk g -> g <= est_hi gas_cap args_gas max_gas.
Proof. exact estimate_le_cap. Qed.
Print Assumptions C08_estimate_le_cap.

Theorem C08_est_hi_le_gas_cap : forall gas_cap args_gas max_gas,
  gas_cap <> 0 -> est_hi gas_cap args_gas max_gas <= gas_cap.
Proof. exact est_hi_le_gas_cap. Qed.
Print Assumptions C08_est_hi_le_gas_cap.

(* histories: queries, trial executions and delivered transactions interleaved in any order.  Erasing every
   query and trial execution from the history changes neither the committed state nor the result of any
   delivered transaction *)
Theorem C08_history_queries_erasable : forall R (h : list (hop R)) ctx, Forall hop_commit_free h ->
  h_state (run_hist ctx h) = h_state (run_hist ctx (filter is_deliver h)) /\
  h_delivered (run_hist ctx h) = h_delivered (run_hist ctx (filter is_deliver h)).
Proof. exact run_hist_erase. Qed.
Print Assumptions C08_history_queries_erasable.

(* the answer of a query anywhere in a history is a function of the state produced by the transactions
   delivered before it and of the request *)
Theorem C08_history_query_answer : forall R (pre post : list (hop R)) p ctx, Forall hop_commit_free pre ->
  nth_error (h_answers (run_hist ctx (pre ++ HQuery p :: post))) (length (h_answers (run_hist ctx pre))) =
  Some (run_no_commit (h_state (run_hist ctx (filter is_deliver pre))) [] p).
Proof. exact history_query_answer. Qed.
Print Assumptions C08_history_query_answer.

(* after any history, a query followed at once by the delivery of the same call: same result *)
Theorem C08_history_predicts : forall R (pre post : list (hop R)) p d ctx, commit_free p ->
  let r := run_hist (h_state (run_hist ctx pre)) (HQuery p :: HDeliver p d :: post) in
  hd_error (h_answers r) = hd_error (h_delivered r).
Proof. exact history_predicts. Qed.
Print Assumptions C08_history_predicts.

(* the gas limit a simulated call runs with never exceeds the node's cap, and below the cap it is exactly the
   requested one (the premise "for the same gas limit" of the prediction clause) *)
Theorem C08_call_gas_le_cap : forall gas_cap args_gas, gas_cap <> 0 -> call_gas gas_cap args_gas <= gas_cap.
Proof. exact call_gas_le_cap. Qed.
Print Assumptions C08_call_gas_le_cap.

Theorem C08_call_gas_exact : forall gas_cap g, gas_cap = 0 \/ g <= gas_cap -> call_gas gas_cap (Some g) = g.
Proof. exact call_gas_exact. Qed.
Print Assumptions C08_call_gas_exact.

(* non-vacuity: a program that creates, writes through "another module", self-destructs and reverts;
   a non-monotone executable for which the estimate is still a success; error classes are reachable *)
Definition ex_prog : prog (option val * N) :=
  PDo (KvSet 1 10) (fun _ => PDo Snapshot (fun _ => PDo (KvSet 2 20) (fun _ => PDo (SdAdd 5) (fun _ =>
  PRead 2 (fun v => PDo (RevertTo 0) (fun _ => PDo (AddRefund 7) (fun _ => PSide (fun c => PRet (v, refund c))))))))).
Definition ex_nonmono (g : N) : exres :=           (* succeeds on [55000,62000) and from 90000 on *)
  if (55000 <=? g) && (g <? 62000) then ExOk else if 90000 <=? g then ExOk else ExOOG.
Example C08_example :
  commit_free ex_prog /\
  run_no_commit (fun _ => None) [] ex_prog = (Some 20, 7) /\
  fst (run_commit (fun _ => None) [] ex_prog []) 1 = Some 10 /\
  fst (run_commit (fun _ => None) [] ex_prog []) 2 = None /\
  estimate_gas ex_nonmono 100000 None 0 = EstOk 55000 /\ ex_nonmono 55000 = ExOk /\ ex_nonmono 70000 = ExOOG /\
  estimate_gas (fun _ => ExOOG) 100000 None 0 = EstAllowance /\
  estimate_gas (fun _ => ExRevert) 100000 (Some 50000) 0 = EstVmError /\
  estimate_gas (fun g => if g <? 60000 then ExErr else ExOk) 100000 None 0 = EstBail /\
  estimate_gas ex_nonmono 20999 None 0 = EstInvalidArg /\
  (* a cap near 2^64: no wrap-around, the search comes down to the lowest gas limit *)
  estimate_gas (fun _ => ExOk) 18446744073709551615 None 0 = EstOk 21000 /\
  estimate_gas (fun _ => ExOOG) 18446744073709551615 None 0 = EstAllowance.
Proof.
  split; [repeat (constructor; intros)|]. vm_compute. repeat split; reflexivity.
Qed.

(* a history with two deliveries, queries in between and a trial execution; hypotheses of estimate_complete *)
Definition ex_hist : list (hop (option val * N)) :=
  [HQuery ex_prog; HDeliver ex_prog []; HTrial [(1, Some 77)] ex_prog; HQuery (PRead 1 (fun v => PRet (v, 0)));
   HDeliver (PDo (KvSet 1 11) (fun _ => PRead 1 (fun v => PRet (v, 1)))) []; HQuery (PRead 1 (fun v => PRet (v, 2)))].
Example C08_example_history :
  Forall hop_commit_free ex_hist /\
  h_answers (run_hist (fun _ => None) ex_hist) = [(Some 20, 7); (Some 20, 7); (Some 10, 0); (Some 11, 2)] /\
  h_delivered (run_hist (fun _ => None) ex_hist) = [(Some 20, 7); (Some 11, 1)] /\
  h_state (run_hist (fun _ => None) ex_hist) 1 = Some 11 /\
  TxGas <= 100000 /\ est_hi 100000 None 0 < U64 /\ (forall g, ex_nonmono g <> ExErr) /\ ex_nonmono (est_hi 100000 None 0) = ExOk.
Proof.
  split; [repeat constructor; repeat (constructor; intros)|].
  repeat split; try (vm_compute; congruence).
  intros g. unfold ex_nonmono. destruct ((55000 <=? g) && (g <? 62000)); [discriminate|]. destruct (90000 <=? g); discriminate.
Qed.

(* what /repo 81e4910 repaired (signature C08/query/binsearch/midpoint-wraps): with the midpoint (hi + lo) / 2 in uint64
   arithmetic, a cap of 2^64-1 and a call that fails with every gas limit, hi+lo wraps around, lo is driven down to 0
   and up again for ever -- the model of the old loop runs out of any fuel and probes gas limits below lo; the
   repaired search on the same input ends after 64 probes with the "allowance" answer *)
Theorem C08_wrapping_midpoint_search_cycles :
  bin_search_wrapping 5000 (fun _ => ExOOG) (TxGas - 1) 18446744073709551615 = BFuel /\
  In 0 (map (fun g => g / 2) (bin_probes_wrapping 200 (fun _ => ExOOG) (TxGas - 1) 18446744073709551615)) /\
  bin_search est_fuel (fun _ => ExOOG) (TxGas - 1) 18446744073709551615 = BHi 18446744073709551615 /\
  length (bin_probes est_fuel (fun _ => ExOOG) (TxGas - 1) 18446744073709551615) = 64%nat.
Proof. vm_compute. split; [reflexivity|]. split; [tauto|]. split; reflexivity. Qed.
Print Assumptions C08_wrapping_midpoint_search_cycles.

(* the repaired midpoint is the plain one, strictly between the bounds, for all uint64 bounds *)
Theorem C08_midpoint_does_not_wrap : forall lo hi, lo + 1 < hi -> hi < U64 ->
  mid64 lo hi = lo + (hi - lo) / 2 /\ lo < mid64 lo hi < hi.
Proof. intros lo hi Hl Hh. split; [apply mid64_eq|apply mid64_between]; assumption. Qed.
Print Assumptions C08_midpoint_does_not_wrap.

(* ---------------------------------------------------------------------------------------------------------------
   Tracing a transaction of a block (TraceTx with predecessors, TraceBlock) predicts what the block did.
   [apply] = ApplyMessageWithConfig(commit=true) on the query's own context, arbitrary; the block = ante handler
   (admits or not) + state transition + fee bookkeeping, arbitrary, related to the trace only by [eqv] = "equal up to
   what the prediction clause excludes" (fee bookkeeping: sender balance, fee collector, supply). *)

(* for ANY block and any position in it: when every predecessor was executed by the block -- reverted, out-of-gas and
   INVALID ones included: they are replayed and committed like the others, their nonce is consumed -- or refused by the
   ante handler for a reason the state transition refuses it for as well, TraceTx answers exactly the block's result *)
Theorem C08_trace_predicts_block_partial :
  forall (St T R : Type) (apply : St -> T -> option (St * R)) (admitted : St -> T -> bool)
         (pre_fx : St -> T -> St) (post_fx : St -> T -> R -> St) (core_fx : St -> T -> St) (eqv : St -> St -> Prop),
    (forall a b c, eqv a b -> eqv b c -> eqv a c) -> (forall s t, eqv (pre_fx s t) s) -> (forall s t r, eqv (post_fx s t r) s) ->
    (forall a b t, eqv a b -> match apply a t, apply b t with
                              | Some (a', x), Some (b', y) => x = y /\ eqv a' b'
                              | None, None => True
                              | _, _ => False
                              end) ->
    forall pre t post s st r, eqv s st -> preds_ok apply admitted pre_fx post_fx core_fx eqv s pre ->
      nth_error (snd (block_run apply admitted pre_fx post_fx core_fx s (pre ++ t :: post))) (length pre) = Some (BkExec r) ->
      trace_tx apply st pre t = Some r.
Proof. intros St T R apply admitted pre_fx post_fx core_fx eqv. exact (trace_predicts_block apply admitted pre_fx post_fx core_fx eqv). Qed.
Print Assumptions C08_trace_predicts_block_partial.

(* without the condition on the predecessors the statement is false for the code as it is (known finding
   C08/query/prediction/TraceTx+predecessors/after-core-error-predecessor): a predecessor the ante handler admitted and
   the state transition refused (gas limit below the intrinsic gas, value above the balance) consumed its nonce in the
   block; TraceTx's loop skips it ("continue"), and the next transaction of that sender is answered "nonce too high" *)
Definition C08_trace_predicts_block_full : Prop := trace_predicts_block_full.
Theorem C08_trace_predicts_block_refuted : ~ C08_trace_predicts_block_full.
Proof. exact trace_predicts_block_refuted. Qed.
Print Assumptions C08_trace_predicts_block_refuted.

(* what the complete replay is: told what the block did with each predecessor and keeping the effects of the refused
   ones, the trace answers what the block did -- for any block, no condition *)
Theorem C08_trace_with_real_outcomes_predicts_block :
  forall (St T R : Type) (apply : St -> T -> option (St * R)) (admitted : St -> T -> bool)
         (pre_fx : St -> T -> St) (post_fx : St -> T -> R -> St) (core_fx : St -> T -> St) (eqv : St -> St -> Prop),
    (forall a b c, eqv a b -> eqv b c -> eqv a c) -> (forall s t, eqv (pre_fx s t) s) -> (forall s t r, eqv (post_fx s t r) s) ->
    (forall a b t, eqv a b -> match apply a t, apply b t with
                              | Some (a', x), Some (b', y) => x = y /\ eqv a' b'
                              | None, None => True
                              | _, _ => False
                              end) ->
    (forall a b t, eqv a b -> eqv (core_fx a t) (core_fx b t)) ->
    forall pre t post s st r, eqv s st ->
      nth_error (snd (block_run apply admitted pre_fx post_fx core_fx s (pre ++ t :: post))) (length pre) = Some (BkExec r) ->
      trace_tx_with_outcomes apply core_fx st
        (combine pre (firstn (length pre) (snd (block_run apply admitted pre_fx post_fx core_fx s (pre ++ t :: post))))) t = Some r.
Proof. intros St T R apply admitted pre_fx post_fx core_fx eqv. exact (trace_with_outcomes_predicts_block apply admitted pre_fx post_fx core_fx eqv). Qed.
Print Assumptions C08_trace_with_real_outcomes_predicts_block.

(* TraceBlock's answer for transaction i is TraceTx's answer with the first i transactions as predecessors *)
Theorem C08_trace_block_is_trace_tx : forall (St T R : Type) (apply : St -> T -> option (St * R)) txs s i t,
  nth_error txs i = Some t -> nth_error (trace_block apply s txs) i = Some (trace_tx apply s (firstn i txs) t).
Proof. intros St T R apply. exact (trace_block_nth apply). Qed.
Print Assumptions C08_trace_block_is_trace_tx.

(* leaving out the predecessors whose EVM execution failed breaks the prediction even for blocks in which every
   transaction was executed: the theorem above is about the loop as it is *)
Theorem C08_trace_dropping_failed_predecessors_refuted : ~ trace_dropping_failed_predicts_block.
Proof. exact trace_dropping_failed_refuted. Qed.
Print Assumptions C08_trace_dropping_failed_predecessors_refuted.

(* the nonce skeleton the driver's cases are checked with (Corr/CorrQuery.v QTrace) meets the hypotheses *)
Theorem C08_trace_skeleton_predicts_block : forall pre t post m r,
  preds_ok skel_apply skel_admitted (fun m _ => m) (fun m _ _ => m) (fun m t => nm_bump m (b_sender t)) eq m pre ->
  nth_error (snd (skel_block_run m (pre ++ t :: post))) (length pre) = Some (BkExec r) ->
  trace_tx skel_apply m pre t = Some r.
Proof. exact skel_trace_predicts_block. Qed.
Print Assumptions C08_trace_skeleton_predicts_block.

(* non-vacuity: sender 7 sends a reverting call (nonce 3), a successful one (4), one the state transition refuses (5)
   and a successful one (6); sender 9 one in between.  The block executes transactions 0 1 2 4; the traces of 0 1 2
   answer what the block did, the trace of transaction 4 (behind the refused one) fails *)
Definition ex_block : list btx :=
  [mkBtx 7 3 (BExec true); mkBtx 7 4 (BExec false); mkBtx 9 0 (BExec false); mkBtx 7 5 BCore; mkBtx 7 6 (BExec false)].
Example C08_example_trace :
  snd (skel_block_run [(7, 3)] ex_block) = [BkExec true; BkExec false; BkExec false; BkCore; BkExec false] /\
  fst (skel_block_run [(7, 3)] ex_block) = [(7, 7); (9, 1)] /\
  preds_ok skel_apply skel_admitted (fun m _ => m) (fun m _ _ => m) (fun m t => nm_bump m (b_sender t)) eq [(7, 3)] (firstn 2 ex_block) /\
  trace_tx skel_apply [(7, 3)] (firstn 2 ex_block) (mkBtx 9 0 (BExec false)) = Some false /\
  trace_tx skel_apply [(7, 3)] (firstn 1 ex_block) (mkBtx 7 4 (BExec false)) = Some false /\
  trace_block skel_apply [(7, 3)] ex_block = [Some true; Some false; Some false; None; None] /\
  trace_tx skel_apply [(7, 3)] (firstn 4 ex_block) (mkBtx 7 6 (BExec false)) = None /\
  trace_tx_with_outcomes skel_apply (fun m t => nm_bump m (b_sender t)) [(7, 3)]
    (combine (firstn 4 ex_block) (firstn 4 (snd (skel_block_run [(7, 3)] ex_block)))) (mkBtx 7 6 (BExec false)) = Some false.
Proof. vm_compute. repeat split; reflexivity. Qed.

(* ---------------------------------------------------------------------------------------------------------------
   Mempool admission and the CHECK STATE.  CheckTx / ReCheckTx / simulate of an Ethereum transaction: the ante handler
   bumps the sender sequence in the context it was given; the trial execution (993e) rolls it back, runs -- any
   program -- and is dropped, all on a branch.  What the check state keeps of an admitted transaction is the ante
   handler's effect only: the sequence is one higher, every other key is as it was, whatever the trial execution did
   (contract creation, self-destruct, precompile writes, even a write to the sequence key itself). *)
Theorem C08_checktx_leaves_ante_effects_only : forall R (p : prog R) ctx k k',
  checktx_admit ctx k p k' = if k =? k' then Some (seq_of ctx k + 1) else ctx k'.
Proof. exact checktx_admit_state. Qed.
Print Assumptions C08_checktx_leaves_ante_effects_only.

(* consecutive admissions of one sender between two commits see the sequences n+1, n+2, ... in the check state: a second
   transaction with the nonce of an admitted one finds the sequence already past it, the next nonce finds its own *)
Theorem C08_checktx_sequences : forall R (p : prog R) m ctx k,
  checktx_seqs m ctx k p = map (fun i => seq_of ctx k + N.of_nat i) (seq 1 m).
Proof. exact checktx_seqs_spec. Qed.
Print Assumptions C08_checktx_sequences.

Example C08_example_checktx :
  checktx_seqs 3 (fun k => if k =? 0 then Some 41 else None) 0
    (PDo (KvSet 0 999) (fun _ => PDo (KvSet 5 1) (fun _ => PRead 0 (fun v => PRet v)))) = [42; 43; 44] /\
  checktx_admit (fun k => if k =? 0 then Some 41 else None) 0
    (PDo (KvSet 0 999) (fun _ => PDo (KvSet 5 1) (fun _ => PRead 0 (fun v => PRet v)))) 5 = None.
Proof. vm_compute. split; reflexivity. Qed.
