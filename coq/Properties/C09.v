(* C09 — Base fee follows EIP-1559 and bounds every executed transaction's price.
   This file holds statements only; proofs are in Proofs/BaseFeeProofs.v. *)
From Evm Require Import BaseFee BaseFeeProofs.
Open Scope Z_scope.

(* next base fee = max(EIP-1559(b, used, target), trunc(min gas price)); with a zero gas target
   (max_gas 0 or 1) the base fee is kept.  Holds whenever the code returns at all. *)
Theorem C09_next_base_fee_is_eip1559 : forall b used mg md z,
  -1 <= mg -> calc_base_fee b used mg md = Ok z ->
  z = Z.max (if gas_target mg =? 0 then b else eip1559_spec b used (gas_target mg)) (md / E18).
Proof. exact calc_result. Qed.
Print Assumptions C09_next_base_fee_is_eip1559.

Theorem C09_unchanged_at_target : forall b t, eip1559_spec b t t = b.
Proof. exact eip_at_target. Qed.
Print Assumptions C09_unchanged_at_target.

Theorem C09_above_target_at_least_one : forall b used t,
  0 <= b -> 0 < t -> t < used -> b + 1 <= eip1559_spec b used t.
Proof. exact eip_above. Qed.
Print Assumptions C09_above_target_at_least_one.

Theorem C09_below_target_decreases_not_below_zero : forall b used t,
  0 <= b -> 0 < t -> 0 <= used < t -> 0 <= eip1559_spec b used t <= b.
Proof. exact eip_below. Qed.
Print Assumptions C09_below_target_decreases_not_below_zero.

(* never fails for valid consensus parameters (max_gas >= -1, usage within the limit) as long as
   the result fits sdkmath.Int: b + b/4 + 1 <= 2^256 - 1 *)
Theorem C09_total : forall b used mg md,
  -1 <= mg -> 0 <= b -> 0 <= used <= gas_limit mg ->
  b + b / 4 + 1 <= MAX256 -> md / E18 <= MAX256 ->
  exists z, calc_base_fee b used mg md = Ok z.
Proof. exact calc_total. Qed.
Print Assumptions C09_total.

Theorem C09_never_divides_by_zero : forall b used mg md,
  -1 <= mg -> calc_base_fee b used mg md <> PanicDivZero.
Proof. exact calc_never_divzero. Qed.
Print Assumptions C09_never_divides_by_zero.

(* over all block histories: never a division by zero, never negative *)
Theorem C09_history : forall l b,
  0 <= b -> Forall blk_valid l ->
  run_blocks b l <> PanicDivZero /\ (forall z, run_blocks b l = Ok z -> 0 <= z).
Proof. exact history_nonneg_no_divzero. Qed.
Print Assumptions C09_history.

Theorem C09_price_bound : forall m dyn base gmin nmin tip cap price,
  admit_price m dyn base gmin nmin tip cap price = true ->
  base <= eff_price dyn base tip cap price /\ gmin / E18 <= eff_price dyn base tip cap price.
Proof. exact price_bound. Qed.
Print Assumptions C09_price_bound.

(* The full totality statement ("never fails for any base fee in 0..2^256") is FALSE of the
   faithful model: known finding C09/basefee/panic_overflow. *)
Definition C09_total_full : Prop := forall b used mg md,
  -1 <= mg -> 0 <= b <= MAX256 -> 0 <= used <= gas_limit mg -> 0 <= md / E18 <= MAX256 ->
  exists z, calc_base_fee b used mg md = Ok z.
Theorem C09_total_full_refuted : ~ C09_total_full.
Proof.
  intros H. destruct (H MAX256 100 100 0) as [z Hz]; try (vm_compute; intuition congruence).
  vm_compute in Hz. discriminate.
Qed.
Print Assumptions C09_total_full_refuted.

(* non-vacuity: hypotheses are met by ordinary values, and the function moves *)
Example C09_example :
  calc_base_fee 1000000000 30000000 40000000 0 = Ok 1062500000 /\
  calc_base_fee 1000000000 1 0 0 = Ok 1000000000 /\
  calc_base_fee 1000000000 1 1 (3 * E18 + 5) = Ok 1000000000.
Proof. vm_compute. auto. Qed.
