(* C09 — Base fee follows EIP-1559 and bounds every executed transaction's price.
   This file holds statements only; proofs are in Proofs/BaseFeeProofs.v. *)
From Evm Require Import BaseFee BaseFeeProofs BaseFeeHist BaseFeeHistProofs.
Open Scope Z_scope.

(* next base fee = max(EIP-1559(b, used, target), trunc(min gas price)); with a zero gas target
   (max_gas 0 or 1) the base fee is kept.  Holds whenever the code returns at all. *)
Theorem C09_next_base_fee_is_eip1559 : forall b used mg md z,
  -1 <= mg -> calc_base_fee b used mg md = Ok z ->
  z = Z.max (if gas_target mg =? 0 then b else eip1559_spec b used (gas_target mg)) (md / E18).
Proof. exact calc_result. Qed.
Print Assumptions C09_next_base_fee_is_eip1559.

Theorem C09_unchanged_at_target : forall b t, eip1559_spec b t t = b.
Proof. exact eip_at_target. Qed.
Print Assumptions C09_unchanged_at_target.

Theorem C09_above_target_at_least_one : forall b used t,
  0 <= b -> 0 < t -> t < used -> b + 1 <= eip1559_spec b used t.
Proof. exact eip_above. Qed.
Print Assumptions C09_above_target_at_least_one.

Theorem C09_below_target_decreases_not_below_zero : forall b used t,
  0 <= b -> 0 < t -> 0 <= used < t -> 0 <= eip1559_spec b used t <= b.
Proof. exact eip_below. Qed.
Print Assumptions C09_below_target_decreases_not_below_zero.

(* never fails for valid consensus parameters (max_gas >= -1, usage within the limit) as long as
   the result fits sdkmath.Int: b + b/4 + 1 <= 2^256 - 1 *)
Theorem C09_total : forall b used mg md,
  -1 <= mg -> 0 <= b -> 0 <= used <= gas_limit mg ->
  b + b / 4 + 1 <= MAX256 -> md / E18 <= MAX256 ->
  exists z, calc_base_fee b used mg md = Ok z.
Proof. exact calc_total. Qed.
Print Assumptions C09_total.

Theorem C09_never_divides_by_zero : forall b used mg md,
  -1 <= mg -> calc_base_fee b used mg md <> PanicDivZero.
Proof. exact calc_never_divzero. Qed.
Print Assumptions C09_never_divides_by_zero.

(* over all block histories: never a division by zero, never negative *)
Theorem C09_history : forall l b,
  0 <= b -> Forall blk_valid l ->
  run_blocks b l <> PanicDivZero /\ (forall z, run_blocks b l = Ok z -> 0 <= z).
Proof. exact history_nonneg_no_divzero. Qed.
Print Assumptions C09_history.

Theorem C09_price_bound : forall m dyn base gmin nmin tip cap price,
  admit_price m dyn base gmin nmin tip cap price = true ->
  base <= eff_price dyn base tip cap price /\ gmin / E18 <= eff_price dyn base tip cap price.
Proof. exact price_bound. Qed.
Print Assumptions C09_price_bound.

(* ---- block histories with parameter changes (Model/BaseFeeHist.v): per block any gas used, any list
   of governance proposals (x/feemarket MsgUpdateParams, x/consensus MsgUpdateParams; valid or not, one
   or several messages each) executed by gov's EndBlock BEFORE the fee market's, any offered
   transactions.  `run_hist st l` = the states at the block boundaries, i.e. what each next block starts
   from. ---- *)

(* never below the integer part of the configured minimum gas price: at EVERY block boundary of EVERY
   history, from any initial state, whatever governance did in between *)
Theorem C09_history_floor : forall l st,
  Forall (fun s => f_min s / E18 <= f_base s) (fst (run_hist st l)).
Proof. exact run_hist_floor. Qed.
Print Assumptions C09_history_floor.

(* that statement for the other order of the two end blockers (fee market ahead of gov) is FALSE: a
   passed proposal that raises the minimum gas price above the base fee it carries leaves the committed
   base fee below it.  This is why app/modules.go orderEndBlockers must keep the fee market after gov. *)
Definition C09_history_floor_fee_market_first_full : Prop :=
  forall st l, f_min st / E18 <= f_base st ->
  Forall (fun s => f_min s / E18 <= f_base s) (fst (run_hist_fee_first st l)).
Theorem C09_history_floor_fee_market_first_refuted : ~ C09_history_floor_fee_market_first_full.
Proof. exact floor_hist_fee_first_refuted. Qed.
Print Assumptions C09_history_floor_fee_market_first_refuted.

(* every block of a history: the committed base fee is the EIP-1559 function of the base fee the fee
   market finds (after gov), the gas used and the target of the max_gas the block ran under (a max_gas
   changed by governance counts from the next block on), clamped by the minimum gas price *)
Theorem C09_history_step_is_eip1559 : forall st k st',
  -1 <= f_mg st -> end_block st k = HOk st' ->
  let g := gov_end_block st (h_props k) in
  let t := gas_target (f_mg st) in
  f_base st' = Z.max (if t =? 0 then f_base g else eip1559_spec (f_base g) (h_used k) t) (f_min g / E18)
  /\ f_min st' = f_min g /\ f_mg st' = f_mg_next g /\ f_mg_next st' = f_mg_next g.
Proof. exact end_block_is_eip1559. Qed.
Print Assumptions C09_history_step_is_eip1559.

(* over all histories with parameter changes: never negative, never a division by zero *)
Theorem C09_history_params_nonneg : forall l st,
  0 <= f_base st /\ -1 <= f_mg st /\ -1 <= f_mg_next st ->
  Forall (fun k => 0 <= h_used k) l ->
  Forall (fun s => 0 <= f_base s) (fst (run_hist st l)) /\ snd (run_hist st l) <> Some PanicDivZero.
Proof. exact run_hist_nonneg. Qed.
Print Assumptions C09_history_params_nonneg.

(* no transaction below the base fee or the integer part of the minimum gas price of the state it runs
   against is executed, anywhere in any history *)
Theorem C09_history_executed_price_bound : forall l st,
  Forall (fun x => Z.max (f_base (fst x)) (f_min (fst x) / E18) <= ptx_eff (fst x) (snd x))
         (hist_executed st l).
Proof. exact hist_executed_bound. Qed.
Print Assumptions C09_history_executed_price_bound.

(* non-vacuity: the witness history of the refutation, in the order of the code; and executions on both
   sides of a rise of the minimum gas price *)
Example C09_history_example :
  fst (run_hist order_witness_state [order_witness_block]) = [mkF 5000000000 (5000000000 * E18) 40000000 40000000]
  /\ fst (run_hist_fee_first order_witness_state [order_witness_block]) = [mkF 1000000000 (5000000000 * E18) 40000000 40000000]
  /\ map (fun x => ptx_eff (fst x) (snd x))
       (hist_executed order_witness_state
          [mkB 0 [[GSetFee 1000000000 (5000000000 * E18)]] [mkP false 0 0 1000000000];
           mkB 0 [] [mkP false 0 0 4999999999; mkP false 0 0 5000000000; mkP true 0 5000000000 0]])
     = [1000000000; 5000000000; 5000000000].
Proof. vm_compute. auto. Qed.

(* The full totality statement ("never fails for any base fee in 0..2^256") is FALSE of the
   faithful model: known finding C09/basefee/panic_overflow. *)
Definition C09_total_full : Prop := forall b used mg md,
  -1 <= mg -> 0 <= b <= MAX256 -> 0 <= used <= gas_limit mg -> 0 <= md / E18 <= MAX256 ->
  exists z, calc_base_fee b used mg md = Ok z.
Theorem C09_total_full_refuted : ~ C09_total_full.
Proof.
  intros H. destruct (H MAX256 100 100 0) as [z Hz]; try (vm_compute; intuition congruence).
  vm_compute in Hz. discriminate.
Qed.
Print Assumptions C09_total_full_refuted.

(* non-vacuity: hypotheses are met by ordinary values, and the function moves *)
Example C09_example :
  calc_base_fee 1000000000 30000000 40000000 0 = Ok 1062500000 /\
  calc_base_fee 1000000000 1 0 0 = Ok 1000000000 /\
  calc_base_fee 1000000000 1 1 (3 * E18 + 5) = Ok 1000000000.
Proof. vm_compute. auto. Qed.
